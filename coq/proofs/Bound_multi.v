(* C08, multi-threaded bound: the per-part accounting of the worker streams (no magic header) and
   the arithmetic that relates the parts of a split input to BrotliEncoderMaxCompressedSizeMulti. *)
From Coq Require Import NArith ZArith List Bool Lia.
From V Require Import lib.Words gen.GenBound spec.Header model.Bound proofs.Bound_proofs.
Import ListNotations.
Open Scope N_scope.

Definition sumN (l : list N) : N := fold_right N.add 0 l.

(* what one never-flushed stream without the magic header may take: n + 4 per 16 KiB + 11
   (5 header bytes counting the catable block's header, 4 for the last partial block, 2 for the
   final empty meta-block and padding) *)
Definition part_allowance (n : N) : N := n + 4 * (n / 2 ^ 14) + 11.

Ltac Zify.zify_post_hook ::= Z.to_euclidean_division_equations.
Lemma header_end_nomagic c n : scfg_ok c = true -> s_magic c = false ->
  header_end c n / 8 <= 5 + catable_bytes c n
  /\ (n = 0 -> (after_empty_last (header_end c n) + 7) / 8 <= 2).
Proof.
  unfold scfg_ok. intros H Hm. apply andb_true_iff in H. destruct H as [H _].
  apply andb_true_iff in H. destruct H as [H _]. apply andb_true_iff in H. destruct H as [H _].
  assert (Hw : s_wbits c <= 14).
  { repeat (apply orb_true_iff in H; destruct H as [H|H]); apply N.eqb_eq in H; lia. }
  unfold header_end, catable_bytes, after_empty_last. rewrite Hm.
  split.
  - destruct (s_catable c); cbn [andb].
    + destruct (N.ltb_spec 0 n) as [Hn|Hn].
      * unfold after_stored.
        assert (Hcb : N.min 2 n = 1 \/ N.min 2 n = 2) by lia.
        assert (Hh : stored_header_bits (N.min 2 n) = 20) by (destruct Hcb as [-> | ->]; reflexivity).
        rewrite Hh. unfold round8. remember (N.min 2 n) as cb. lia.
      * lia.
    + lia.
  - intros ->. change (0 <? 0) with false. rewrite andb_false_r. unfold round8. lia.
Qed.
Ltac Zify.zify_post_hook ::= idtac.

Lemma part_within_allowance c n bs fe t :
  scfg_ok c = true -> s_magic c = false -> n < 2 ^ 62 -> schedule_ok c n bs fe = true ->
  stream_bytes c n bs fe = Some t -> t <= part_allowance n.
Proof.
  intros Hc Hm Hn Hs Ht. unfold part_allowance.
  unfold schedule_ok in Hs. apply andb_true_iff in Hs. destruct Hs as [Hs Hnf].
  apply andb_true_iff in Hs. destruct Hs as [Hsum Hall]. apply N.eqb_eq in Hsum. fold (sum_len bs) in Hsum.
  assert (Hok : blocks_ok bs).
  { unfold blocks_ok. apply Forall_forall. intros b Hb. rewrite forallb_forall in Hall. specialize (Hall b Hb).
    apply andb_true_iff in Hall. destruct Hall as [A B]. apply N.ltb_lt in A. apply N.leb_le in B. lia. }
  destruct (header_end_nomagic c n Hc Hm) as [Hh Hh0].
  destruct (N.eq_dec n 0) as [->|Hnz].
  - assert (bs = []).
    { destruct bs as [|b t']; [reflexivity|]. cbn [sum_len fold_right] in Hsum.
      inversion Hok as [|b' t'' [Hb1 Hb2] Hok' E1]; subst. lia. }
    subst bs. unfold stream_bytes in Ht. destruct fe; [|discriminate]. cbn [after_blocks] in Ht. injection Ht as <-.
    specialize (Hh0 eq_refl). change (0 / 2 ^ 14) with 0. lia.
  - assert (Hne : bs <> [] \/ fe = true).
    { unfold stream_bytes in Ht. destruct bs; [destruct fe; [right; reflexivity|discriminate]|left; discriminate]. }
    assert (Hab : exists p', after_blocks c (header_end c n) bs fe = Some p' /\ t = (p' + 7) / 8).
    { unfold stream_bytes in Ht. destruct bs as [|b t'].
      - destruct fe; [|discriminate]. destruct (after_blocks c (header_end c n) [] true) as [p'|]; [|discriminate].
        injection Ht as <-. eexists; split; reflexivity.
      - destruct (after_blocks c (header_end c n) (b :: t') fe) as [p'|]; [|discriminate].
        injection Ht as <-. eexists; split; reflexivity. }
    destruct Hab as (p' & Hab & ->).
    pose proof (after_blocks_bound c fe bs _ _ Hok Hne Hab) as Hb.
    pose proof (overhead_count fe bs (catable_bytes c n) Hok Hnf) as Hcnt.
    rewrite Hsum in Hcnt.
    remember (n / 2 ^ 14) as k. remember (sum_overhead bs) as so. remember (sum_len bs) as sl.
    remember (catable_bytes c n) as cb. remember (header_end c n / 8) as he. remember ((p' + 7) / 8) as tot.
    lia.
Qed.

(* the per-16-KiB allowances of the parts of a split input never exceed that of the whole *)
Lemma sum_div_le (c : N) (parts : list N) : c <> 0 ->
  sumN (map (fun p => p / c) parts) <= sumN parts / c.
Proof.
  intros Hc. induction parts as [|p t IH]; cbn [map sumN fold_right].
  - apply N.le_0_l.
  - fold (sumN t). fold (sumN (map (fun p => p / c) t)).
    pose proof (div_add_le p (sumN t) c Hc). lia.
Qed.

Lemma sum_allowance parts :
  sumN (map part_allowance parts) <= sumN parts + 4 * (sumN parts / 2 ^ 14) + 11 * N.of_nat (length parts).
Proof.
  assert (H : sumN (map part_allowance parts)
              = sumN parts + 4 * sumN (map (fun p => p / 2 ^ 14) parts) + 11 * N.of_nat (length parts)).
  { induction parts as [|p t IH]; [reflexivity|].
    cbn [map sumN fold_right length]. fold (sumN t). fold (sumN (map part_allowance t)).
    fold (sumN (map (fun p => p / 2 ^ 14) t)). rewrite IH. unfold part_allowance. rewrite Nat2N.inj_succ.
    remember (p / 2 ^ 14) as q. remember (sumN (map (fun p => p / 2 ^ 14) t)) as s. lia. }
  rewrite H. pose proof (sum_div_le (2 ^ 14) parts) as Hd.
  assert (Hc : 2 ^ 14 <> 0) by (vm_compute; discriminate). specialize (Hd Hc).
  remember (sumN (map (fun p => p / 2 ^ 14) parts)) as s. remember (sumN parts / 2 ^ 14) as k. lia.
Qed.

(* The parts of a CompressMulti call as never-flushed streams without magic header: whatever the
   split, whatever each worker's meta-block schedule, the worker outputs together take at most the
   Multi bound plus 3 bytes per part beyond... precisely: sum <= B_multi - 27 + 3 * parts.
   (The concatenator then drops at least the 2 window bytes and the final byte of every part but
   one; that step is NOT part of this theorem - see C08_multi_stmt.) *)
Lemma multi_parts_statement (cs : list scfg) (ns : list N) (scheds : list (list mblock * bool)) (ts : list N) :
  length cs = length ns -> length scheds = length ns -> length ts = length ns ->
  (forall i c n bs fe t, nth_error cs i = Some c -> nth_error ns i = Some n ->
     nth_error scheds i = Some (bs, fe) -> nth_error ts i = Some t ->
     scfg_ok c = true /\ s_magic c = false /\ schedule_ok c n bs fe = true /\ stream_bytes c n bs fe = Some t) ->
  0 < sumN ns -> sumN ns < 2 ^ 62 -> N.of_nat (length ns) < 2 ^ 32 ->
  exists B, max_compressed_size_multi (sumN ns) (N.of_nat (length ns)) = Ok B
            /\ sumN ts + 27 <= B + 3 * N.of_nat (length ns).
Proof.
  intros Lc Ls Lt Hall H0 Hn Hth.
  destruct (multi_statement (sumN ns) (N.of_nat (length ns)) H0 Hn Hth) as (v & Hv & Hm).
  destruct (bound_statement (sumN ns)) as (_ & _ & _ & Hr). destruct (Hr H0 Hn) as (v' & Hv' & Hlo & _).
  rewrite Hv in Hv'. injection Hv' as <-.
  exists (v + 8 * N.of_nat (length ns)). split; [exact Hm|].
  assert (Hts : sumN ts <= sumN (map part_allowance ns)).
  { clear Hv Hm Hlo H0 Hth Hr. revert cs scheds ts Lc Ls Lt Hall Hn.
    induction ns as [|n ns' IH]; intros cs scheds ts Lc Ls Lt Hall Hn.
    - destruct ts; [apply N.le_refl|discriminate].
    - destruct cs as [|c cs']; [discriminate|]. destruct scheds as [|[bs fe] scheds']; [discriminate|].
      destruct ts as [|t ts']; [discriminate|].
      cbn [map sumN fold_right] in *. fold (sumN ts'). fold (sumN (map part_allowance ns')). fold (sumN ns') in Hn.
      destruct (Hall 0%nat c n bs fe t eq_refl eq_refl eq_refl eq_refl) as (A1 & A2 & A3 & A4).
      assert (Hn1 : n < 2 ^ 62) by lia.
      pose proof (part_within_allowance c n bs fe t A1 A2 Hn1 A3 A4) as Hp.
      assert (IH' : sumN ts' <= sumN (map part_allowance ns')).
      { apply (IH cs' scheds'); try (cbn [length] in *; lia).
        intros i c0 n0 bs0 fe0 t0 E1 E2 E3 E4. apply (Hall (S i) c0 n0 bs0 fe0 t0); assumption. }
      lia. }
  pose proof (sum_allowance ns) as Hsa.
  remember (sumN ns / 2 ^ 14) as k. remember (N.of_nat (length ns)) as tn.
  remember (sumN ts) as st. remember (sumN (map part_allowance ns)) as sa. lia.
Qed.

(* non-vacuity: two worker streams of 20000 and 12768 bytes *)
Example multi_parts_point :
  let c := mkScfg 14 false 1 true true in
  scfg_ok c = true /\ schedule_ok c 20000 [Stored 19998] false = true
  /\ stream_bytes c 20000 [Stored 19998] false = Some 20009
  /\ part_allowance 20000 = 20015
  /\ max_compressed_size_multi 32768 2 = Ok 32820.
Proof. vm_compute. repeat split; reflexivity. Qed.

(* With the concatenator's saving as a hypothesis (every part after the first loses its 5 source
   bytes of window field + first header, regains at most 20 header bits + 7 padding bits, and
   every part but the last loses its 2-bit end marker: 15 bits per seam), the stitched stream fits
   the Multi bound for up to 22 parts (the crate's MAX_THREADS is 16). *)
Lemma multi_given_concat (cs : list scfg) (ns : list N) (scheds : list (list mblock * bool)) (ts : list N) stitched :
  length cs = length ns -> length scheds = length ns -> length ts = length ns ->
  (forall i c n bs fe t, nth_error cs i = Some c -> nth_error ns i = Some n ->
     nth_error scheds i = Some (bs, fe) -> nth_error ts i = Some t ->
     scfg_ok c = true /\ s_magic c = false /\ schedule_ok c n bs fe = true /\ stream_bytes c n bs fe = Some t) ->
  0 < sumN ns -> sumN ns < 2 ^ 62 -> N.of_nat (length ns) <= 22 ->
  8 * stitched + 15 * (N.of_nat (length ns) - 1) <= 8 * sumN ts + 7 ->
  exists B, max_compressed_size_multi (sumN ns) (N.of_nat (length ns)) = Ok B /\ stitched <= B.
Proof.
  intros Lc Ls Lt Hall H0 Hn Hth Hsave.
  assert (Hth' : N.of_nat (length ns) < 2 ^ 32).
  { eapply N.le_lt_trans; [exact Hth|]. vm_compute. reflexivity. }
  destruct (multi_parts_statement cs ns scheds ts Lc Ls Lt Hall H0 Hn Hth') as (B & HB & Hle).
  exists B. split; [exact HB|].
  assert (1 <= N.of_nat (length ns)).
  { destruct ns; [cbn in H0; lia|]. cbn [length]. lia. }
  remember (N.of_nat (length ns)) as tn. remember (sumN ts) as st. lia.
Qed.

(* ---- the same allowance with the window field's width kept: 6 + ceil((wbits + 20) / 8) ---- *)
Definition part_allowance_w (wb n : N) : N := n + 4 * (n / 2 ^ 14) + 6 + (wb + 27) / 8.

Ltac Zify.zify_post_hook ::= Z.to_euclidean_division_equations.
Lemma header_end_nomagic_w c n : scfg_ok c = true -> s_magic c = false ->
  header_end c n / 8 <= (s_wbits c + 27) / 8 + catable_bytes c n.
Proof.
  unfold scfg_ok. intros H Hm. apply andb_true_iff in H. destruct H as [H _].
  apply andb_true_iff in H. destruct H as [H _]. apply andb_true_iff in H. destruct H as [H _].
  unfold header_end, catable_bytes. rewrite Hm.
  assert (Hw : s_wbits c = 1 \/ s_wbits c = 4 \/ s_wbits c = 7 \/ s_wbits c = 14).
  { repeat (apply orb_true_iff in H; destruct H as [H|H]); apply N.eqb_eq in H; lia. }
  destruct (s_catable c); cbn [andb].
  - destruct (N.ltb_spec 0 n) as [Hn|Hn].
    + unfold after_stored.
      assert (Hcb : N.min 2 n = 1 \/ N.min 2 n = 2) by lia.
      assert (Hh : stored_header_bits (N.min 2 n) = 20) by (destruct Hcb as [-> | ->]; reflexivity).
      rewrite Hh. unfold round8. remember (N.min 2 n) as cb.
      destruct Hw as [-> | [-> | [-> | ->]]]; lia.
    + destruct Hw as [-> | [-> | [-> | ->]]]; lia.
  - destruct Hw as [-> | [-> | [-> | ->]]]; lia.
Qed.
Ltac Zify.zify_post_hook ::= idtac.

Lemma part_within_allowance_w c n bs fe t :
  scfg_ok c = true -> s_magic c = false -> n < 2 ^ 62 -> schedule_ok c n bs fe = true ->
  stream_bytes c n bs fe = Some t -> t <= part_allowance_w (s_wbits c) n.
Proof.
  intros Hc Hm Hn Hs Ht. unfold part_allowance_w.
  pose proof Hs as Hs'.
  unfold schedule_ok in Hs. apply andb_true_iff in Hs. destruct Hs as [Hs Hnf].
  apply andb_true_iff in Hs. destruct Hs as [Hsum Hall]. apply N.eqb_eq in Hsum. fold (sum_len bs) in Hsum.
  assert (Hok : blocks_ok bs).
  { unfold blocks_ok. apply Forall_forall. intros b Hb. rewrite forallb_forall in Hall. specialize (Hall b Hb).
    apply andb_true_iff in Hall. destruct Hall as [A B]. apply N.ltb_lt in A. apply N.leb_le in B. lia. }
  pose proof (header_end_nomagic_w c n Hc Hm) as Hh.
  destruct (header_end_nomagic c n Hc Hm) as [_ Hh0].
  destruct (N.eq_dec n 0) as [->|Hnz].
  - assert (bs = []).
    { destruct bs as [|b t']; [reflexivity|]. cbn [sum_len fold_right] in Hsum.
      inversion Hok as [|b' t'' [Hb1 Hb2] Hok' E1]; subst. lia. }
    subst bs. unfold stream_bytes in Ht. destruct fe; [|discriminate]. cbn [after_blocks] in Ht. injection Ht as <-.
    specialize (Hh0 eq_refl). change (0 / 2 ^ 14) with 0. remember ((s_wbits c + 27) / 8) as sb. lia.
  - assert (Hne : bs <> [] \/ fe = true).
    { unfold stream_bytes in Ht. destruct bs; [destruct fe; [right; reflexivity|discriminate]|left; discriminate]. }
    assert (Hab : exists p', after_blocks c (header_end c n) bs fe = Some p' /\ t = (p' + 7) / 8).
    { unfold stream_bytes in Ht. destruct bs as [|b t'].
      - destruct fe; [|discriminate]. destruct (after_blocks c (header_end c n) [] true) as [p'|]; [|discriminate].
        injection Ht as <-. eexists; split; reflexivity.
      - destruct (after_blocks c (header_end c n) (b :: t') fe) as [p'|]; [|discriminate].
        injection Ht as <-. eexists; split; reflexivity. }
    destruct Hab as (p' & Hab & ->).
    pose proof (after_blocks_bound c fe bs _ _ Hok Hne Hab) as Hb.
    pose proof (overhead_count fe bs (catable_bytes c n) Hok Hnf) as Hcnt.
    rewrite Hsum in Hcnt.
    remember (n / 2 ^ 14) as k. remember (sum_overhead bs) as so. remember (sum_len bs) as sl.
    remember (catable_bytes c n) as cb. remember (header_end c n / 8) as he. remember ((p' + 7) / 8) as tot.
    remember ((s_wbits c + 27) / 8) as sb. lia.
Qed.

(* the later parts of a CompressMulti call: all with the same window-field width wl *)
Lemma rest_parts_sum wl : forall (ns : list N) (cs : list scfg) (scheds : list (list mblock * bool)) (ts : list N),
  length cs = length ns -> length scheds = length ns -> length ts = length ns ->
  (forall i c n bs fe t, nth_error cs i = Some c -> nth_error ns i = Some n ->
     nth_error scheds i = Some (bs, fe) -> nth_error ts i = Some t ->
     scfg_ok c = true /\ s_magic c = false /\ s_wbits c = wl /\ schedule_ok c n bs fe = true
     /\ stream_bytes c n bs fe = Some t) ->
  sumN ns < 2 ^ 62 ->
  sumN ts <= sumN ns + 4 * (sumN ns / 2 ^ 14) + (6 + (wl + 27) / 8) * N.of_nat (length ns).
Proof.
  intros ns cs scheds ts Lc Ls Lt Hall Hn.
  assert (Hts : sumN ts <= sumN ns + 4 * sumN (map (fun p => p / 2 ^ 14) ns) + (6 + (wl + 27) / 8) * N.of_nat (length ns)).
  { revert cs scheds ts Lc Ls Lt Hall Hn.
    induction ns as [|n ns' IH]; intros cs scheds ts Lc Ls Lt Hall Hn.
    - destruct ts; [cbn; lia|discriminate].
    - destruct cs as [|c cs']; [discriminate|]. destruct scheds as [|[bs fe] scheds']; [discriminate|].
      destruct ts as [|t ts']; [discriminate|].
      cbn [map sumN fold_right length] in *. fold (sumN ts'). fold (sumN ns') in *.
      fold (sumN (map (fun p => p / 2 ^ 14) ns')).
      destruct (Hall 0%nat c n bs fe t eq_refl eq_refl eq_refl eq_refl) as (A1 & A2 & A3 & A4 & A5).
      assert (Hn1 : n < 2 ^ 62) by lia.
      pose proof (part_within_allowance_w c n bs fe t A1 A2 Hn1 A4 A5) as Hp. rewrite A3 in Hp.
      unfold part_allowance_w in Hp.
      assert (IH' : sumN ts' <= sumN ns' + 4 * sumN (map (fun p => p / 2 ^ 14) ns') + (6 + (wl + 27) / 8) * N.of_nat (length ns')).
      { apply (IH cs' scheds'); try (cbn [length] in *; lia).
        intros i c0 n0 bs0 fe0 t0 E1 E2 E3 E4. apply (Hall (S i) c0 n0 bs0 fe0 t0); assumption. }
      rewrite Nat2N.inj_succ.
      remember ((wl + 27) / 8) as sb. remember (n / 2 ^ 14) as q. remember (sumN (map (fun p => p / 2 ^ 14) ns')) as sq.
      remember (N.of_nat (length ns')) as L. nia. }
  pose proof (sum_div_le (2 ^ 14) ns) as Hd.
  assert (Hc : 2 ^ 14 <> 0) by (vm_compute; discriminate). specialize (Hd Hc).
  remember (sumN (map (fun p => p / 2 ^ 14) ns)) as s. remember (sumN ns / 2 ^ 14) as k.
  remember ((6 + (wl + 27) / 8) * N.of_nat (length ns)) as X. lia.
Qed.
