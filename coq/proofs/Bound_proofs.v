(* Proofs about model/Bound.v (C08). *)
From Coq Require Import NArith ZArith List Bool Lia.
From V Require Import lib.Words gen.GenBound spec.Header model.Bound proofs.Bitops proofs.Header_proofs.
Import ListNotations.
Open Scope N_scope.

(* ---------------------------------------------------------------- BrotliEncoderMaxCompressedSize *)

Lemma div_bounds n c : c <> 0 -> c * (n / c) <= n /\ n < c * (n / c) + c.
Proof.
  intros Hc. pose proof (N.div_mod n c Hc) as H. pose proof (N.mod_lt n c Hc) as H2.
  remember (n / c) as q. remember (n mod c) as r. lia.
Qed.

(* the arithmetic of the function with the wrapping operations resolved, for n < 2^62 *)
Lemma mcs_gen_unfold ms n : ms < 2 ^ 32 -> 0 < n -> n < 2 ^ 62 ->
  max_compressed_size_gen ms n
  = Ok (n + 2 + 4 * (n / 2 ^ 14) + (if 2 ^ 20 <? mcs_tail n then 4 else 3) + 1 + ms).
Proof.
  intros Hms Hn0 Hn.
  unfold max_compressed_size_gen.
  change bound_block_shift with 14. change bound_tail_log with 20.
  change (nthN bound_tail_overheads 0) with 4. change (nthN bound_tail_overheads 1) with 3.
  change (nthN bound_overhead_consts 0) with 2. change (nthN bound_overhead_consts 1) with 4.
  change (nthN bound_overhead_consts 2) with 1.
  rewrite N.shiftr_div_pow2.
  destruct (div_bounds n (2 ^ 14)) as [Hk1 Hk2]; [lia|].
  remember (n / 2 ^ 14) as k eqn:Ek.
  assert (Hk : k < 2 ^ 48).
  { change (2 ^ 62) with (2 ^ 14 * 2 ^ 48) in Hn. nia. }
  set (to := if 2 ^ 20 <? mcs_tail n then 4 else 3).
  assert (Hto : to <= 4) by (unfold to; destruct (2 ^ 20 <? mcs_tail n); lia).
  unfold wadd64, wmul64, w64.
  assert (H262 : 2 ^ 62 + 2 ^ 62 + 2 ^ 62 < 2 ^ 64) by (vm_compute; reflexivity).
  assert (H248 : 4 * 2 ^ 48 = 2 ^ 50) by (vm_compute; reflexivity).
  assert (H250 : 2 ^ 50 + 100 < 2 ^ 62) by (vm_compute; reflexivity).
  rewrite (N.mod_small (4 * k)) by lia.
  rewrite (N.mod_small (2 + 4 * k)) by lia.
  rewrite (N.mod_small (2 + 4 * k + to)) by lia.
  rewrite (N.mod_small (2 + 4 * k + to + 1)) by lia.
  rewrite (N.mod_small (n + (2 + 4 * k + to + 1))) by lia.
  destruct (N.eqb_spec n 0) as [->|_]; [lia|].
  destruct (N.ltb_spec (n + (2 + 4 * k + to + 1)) n) as [Hlt|_]; [lia|].
  assert (H232 : 2 ^ 32 < 2 ^ 62) by (vm_compute; reflexivity).
  destruct (N.leb_spec (2 ^ 64) (n + (2 + 4 * k + to + 1) + ms)) as [Hle|_]; [lia|].
  f_equal. lia.
Qed.

(* wrap analysis of `tail = input_size - (num_large_blocks << 24)` with num_large_blocks = input_size >> 14 *)
Lemma mcs_tail_small n : n < 2 ^ 14 -> mcs_tail n = n.
Proof.
  intros H. unfold mcs_tail. change bound_block_shift with 14. change bound_tail_shift with 24.
  rewrite N.shiftr_div_pow2, N.div_small by exact H.
  unfold wsub64, wshl64, w64. rewrite N.shiftl_0_l. change (0 mod 2 ^ 64) with 0.
  rewrite N.sub_0_r. rewrite <- N.add_mod_idemp_r by lia. rewrite N.mod_same by lia.
  rewrite N.add_0_r. apply N.mod_small. eapply N.lt_trans; [exact H|]. vm_compute; reflexivity.
Qed.

Lemma mcs_tail_wraps n : 2 ^ 14 <= n -> n < 2 ^ 54 ->
  mcs_tail n = n + 2 ^ 64 - (n / 2 ^ 14) * 2 ^ 24 /\ n < (n / 2 ^ 14) * 2 ^ 24 /\ 2 ^ 20 < mcs_tail n.
Proof.
  intros Hlo Hhi. unfold mcs_tail, wshl64. change bound_block_shift with 14. change bound_tail_shift with 24.
  rewrite N.shiftr_div_pow2, N.shiftl_mul_pow2.
  destruct (div_bounds n (2 ^ 14)) as [Hk1 Hk2]; [lia|].
  remember (n / 2 ^ 14) as k eqn:Ek.
  assert (Hk : k < 2 ^ 40). { change (2 ^ 54) with (2 ^ 14 * 2 ^ 40) in Hhi. nia. }
  assert (Hk0 : 1 <= k). { destruct (N.eq_dec k 0) as [E|E]; [rewrite E in Hk2; lia|lia]. }
  assert (H1 : k * 2 ^ 24 < 2 ^ 64). { change (2 ^ 64) with (2 ^ 40 * 2 ^ 24). nia. }
  assert (H2 : n < k * 2 ^ 24).
  { change (2 ^ 24) with (2 ^ 14 * 2 ^ 10). change (2 ^ 14) with 16384 in *. change (2 ^ 10) with 1024. lia. }
  unfold wsub64, w64.
  rewrite (N.mod_small (k * 2 ^ 24)) by exact H1. rewrite (N.mod_small (k * 2 ^ 24)) by exact H1.
  assert (H3 : n + 2 ^ 64 - k * 2 ^ 24 < 2 ^ 64) by lia.
  rewrite (N.mod_small _ _ H3). repeat split; try lia.
Qed.

Lemma mcs_gen_small ms n : ms < 2 ^ 32 -> 0 < n -> n < 2 ^ 14 ->
  max_compressed_size_gen ms n = Ok (n + 6 + ms).
Proof.
  intros Hms H0 H. rewrite mcs_gen_unfold; try assumption.
  - rewrite mcs_tail_small by exact H. rewrite N.div_small by exact H.
    assert (E : (2 ^ 20 <? n) = false). { apply N.ltb_ge. eapply N.le_trans; [apply N.lt_le_incl; exact H|]. vm_compute; discriminate. }
    rewrite E. f_equal. lia.
  - eapply N.lt_trans; [exact H|]. vm_compute; reflexivity.
Qed.

Lemma mcs_gen_mid ms n : ms < 2 ^ 32 -> 2 ^ 14 <= n -> n < 2 ^ 54 ->
  max_compressed_size_gen ms n = Ok (n + 4 * (n / 2 ^ 14) + 7 + ms).
Proof.
  intros Hms Hlo Hhi.
  assert (H0 : 0 < n). { eapply N.lt_le_trans; [|exact Hlo]. vm_compute; reflexivity. }
  assert (H62 : n < 2 ^ 62). { eapply N.lt_trans; [exact Hhi|]. vm_compute; reflexivity. }
  rewrite mcs_gen_unfold by assumption.
  destruct (mcs_tail_wraps n Hlo Hhi) as (_ & _ & Ht). apply N.ltb_lt in Ht. rewrite Ht. f_equal. lia.
Qed.

Lemma mcs_gen_range ms n : ms < 2 ^ 32 -> 0 < n -> n < 2 ^ 62 ->
  exists v, max_compressed_size_gen ms n = Ok v
            /\ n + 4 * (n / 2 ^ 14) + 6 + ms <= v /\ v <= n + 4 * (n / 2 ^ 14) + 7 + ms
            /\ (2 ^ 14 <= n -> n < 2 ^ 54 -> v = n + 4 * (n / 2 ^ 14) + 7 + ms).
Proof.
  intros Hms H0 H. rewrite mcs_gen_unfold by assumption.
  eexists. split; [reflexivity|].
  repeat split.
  - destruct (2 ^ 20 <? mcs_tail n); lia.
  - destruct (2 ^ 20 <? mcs_tail n); lia.
  - intros Hlo Hhi. destruct (mcs_tail_wraps n Hlo Hhi) as (_ & _ & Ht). apply N.ltb_lt in Ht. rewrite Ht. lia.
Qed.

Lemma mcs_zero ms : max_compressed_size_gen ms 0 = Ok (1 + ms).
Proof. reflexivity. Qed.

(* ---------------------------------------------------------------- MakeUncompressedStream: size *)

Lemma stored_nibbles_cases cs :
  (cs <= 2 ^ 16 /\ stored_nibbles cs = 0) \/ (2 ^ 16 < cs /\ cs <= 2 ^ 20 /\ stored_nibbles cs = 1)
  \/ (2 ^ 20 < cs /\ stored_nibbles cs = 2).
Proof.
  unfold stored_nibbles. change (nthN mus_nibble_logs 0) with 16. change (nthN mus_nibble_logs 1) with 20.
  change (nthN mus_nibble_values 0) with 1. change (nthN mus_nibble_values 1) with 2.
  destruct (N.ltb_spec (2 ^ 16) cs) as [H1|H1]; [|left; split; [exact H1|reflexivity]].
  destruct (N.ltb_spec (2 ^ 20) cs) as [H2|H2]; right; [right|left]; repeat split; assumption.
Qed.

Lemma stored_chunk_header_length cs :
  length (stored_chunk_header cs) = if stored_nibbles cs =? 2 then 4%nat else 3%nat.
Proof. unfold stored_chunk_header. destruct (stored_nibbles cs =? 2); reflexivity. Qed.

Lemma stored_chunk_header_le4 cs : N.of_nat (length (stored_chunk_header cs)) <= 4.
Proof. rewrite stored_chunk_header_length. destruct (stored_nibbles cs =? 2); cbn; lia. Qed.

Lemma mus_loop_bytes fuel : forall off size,
  segs_bytes (mus_loop fuel off size) <= size + 4 * (size / 2 ^ 24) + 4.
Proof.
  induction fuel as [|f IH]; intros off size; cbn [mus_loop segs_bytes fold_right]; [apply N.le_0_l|].
  change mus_chunk_log with 24.
  destruct (N.eqb_spec size 0) as [->|Hnz]; [apply N.le_0_l|].
  destruct (N.ltb_spec (2 ^ 24) size) as [Hbig|Hsmall].
  - cbn [segs_bytes fold_right seg_bytes]. fold (segs_bytes (mus_loop f (off + 2 ^ 24) (size - 2 ^ 24))).
    pose proof (IH (off + 2 ^ 24) (size - 2 ^ 24)) as H.
    pose proof (stored_chunk_header_le4 (2 ^ 24)) as H4.
    assert (E : size / 2 ^ 24 = (size - 2 ^ 24) / 2 ^ 24 + 1).
    { replace size with ((size - 2 ^ 24) + 1 * 2 ^ 24) at 1 by lia. rewrite N.div_add by lia. reflexivity. }
    rewrite E. remember ((size - 2 ^ 24) / 2 ^ 24) as q. remember (segs_bytes (mus_loop f (off + 2 ^ 24) (size - 2 ^ 24))) as r.
    remember (N.of_nat (length (stored_chunk_header (2 ^ 24)))) as h. lia.
  - cbn [segs_bytes fold_right seg_bytes]. fold (segs_bytes (mus_loop f (off + size) (size - size))).
    rewrite N.sub_diag.
    assert (E : segs_bytes (mus_loop f (off + size) 0) = 0) by (destruct f; reflexivity).
    rewrite E. pose proof (stored_chunk_header_le4 size) as H4.
    remember (N.of_nat (length (stored_chunk_header size))) as h. remember (size / 2 ^ 24) as q. lia.
Qed.

Lemma segs_bytes_app a b : segs_bytes (a ++ b) = segs_bytes a + segs_bytes b.
Proof. induction a as [|x a IH]; cbn [app segs_bytes fold_right]; [reflexivity|]. fold (segs_bytes (a ++ b)). fold (segs_bytes a). rewrite IH. lia. Qed.

Lemma stored_stream_bytes n : 0 < n ->
  segs_bytes (make_uncompressed_segments n) <= n + 4 * (n / 2 ^ 24) + 7.
Proof.
  intros H. unfold make_uncompressed_segments. destruct (N.eqb_spec n 0) as [->|_]; [lia|].
  cbn [segs_bytes fold_right seg_bytes]. fold (segs_bytes (mus_loop (mus_fuel n) 0 n ++ [Lit mus_epilogue])).
  rewrite segs_bytes_app. pose proof (mus_loop_bytes (mus_fuel n) 0 n) as Hl.
  change (segs_bytes [Lit mus_epilogue]) with 1. change (N.of_nat (length mus_prologue)) with 2.
  remember (segs_bytes (mus_loop (mus_fuel n) 0 n)) as r. remember (n / 2 ^ 24) as q. lia.
Qed.

Lemma div_mono_pow n : n / 2 ^ 24 <= n / 2 ^ 14.
Proof. apply N.div_le_compat_l. split; [lia|]. apply N.pow_le_mono_r; lia. Qed.

(* the stored stream never exceeds the advertised bound *)
Lemma stored_within_bound n : 0 < n -> n < 2 ^ 62 ->
  exists B, max_compressed_size n = Ok B /\ segs_bytes (make_uncompressed_segments n) <= B.
Proof.
  intros H0 H. unfold max_compressed_size.
  assert (Hms : bound_magic_size < 2 ^ 32) by (vm_compute; reflexivity).
  destruct (mcs_gen_range bound_magic_size n Hms H0 H) as (v & Hv & Hlo & _).
  exists v. split; [exact Hv|].
  pose proof (stored_stream_bytes n H0) as Hs. pose proof (div_mono_pow n) as Hd.
  change bound_magic_size with 21 in Hlo.
  remember (segs_bytes (make_uncompressed_segments n)) as s. remember (n / 2 ^ 24) as q1. remember (n / 2 ^ 14) as q2. lia.
Qed.

(* ---------------------------------------------------------------- encoder_compress *)

Lemma oneshot_statement n out_size inner : n < 2 ^ 62 -> in_total inner <= out_size ->
  exists B ret size src,
    max_compressed_size n = Ok B /\ encoder_compress n out_size inner = Ok (ret, size, src)
    /\ (B <= out_size -> ret = true /\ size <= B)
    /\ (ret = true -> size <= out_size)
    /\ (ret = false -> size = 0)
    /\ (src = FromStream -> ret = true /\ size = in_total inner /\ in_result inner = true /\ in_finished inner = true)
    /\ (src = StoredStream -> ret = true /\ size = segs_bytes (make_uncompressed_segments n) /\ B <= out_size)
    /\ (src = EmptyStream -> n = 0 /\ ret = true /\ size = 1)
    /\ (src = NoOutput -> ret = false).
Proof.
  intros Hn Hin. unfold encoder_compress.
  destruct (N.eq_dec n 0) as [->|Hnz].
  - unfold max_compressed_size. rewrite mcs_zero. exists (1 + bound_magic_size).
    destruct (N.eqb_spec out_size 0) as [->|Ho].
    + do 3 eexists. split; [reflexivity|]. split; [reflexivity|].
      change bound_magic_size with 21. repeat split; try discriminate; try lia; intros; try discriminate; lia.
    + change (0 =? 0) with true. cbv iota. do 3 eexists. split; [reflexivity|]. split; [reflexivity|].
      change bound_magic_size with 21. repeat split; try discriminate; try reflexivity; intros; try lia; discriminate.
  - assert (H0 : 0 < n) by lia.
    destruct (stored_within_bound n H0 Hn) as (B & HB & Hst). rewrite HB. exists B.
    assert (HBpos : 0 < B).
    { unfold max_compressed_size in HB. assert (Hms : bound_magic_size < 2 ^ 32) by (vm_compute; reflexivity).
      destruct (mcs_gen_range bound_magic_size n Hms H0 Hn) as (v & Hv & Hlo & _). rewrite Hv in HB. injection HB as <-. remember (n / 2 ^ 14) as q. lia. }
    destruct (N.eqb_spec out_size 0) as [->|Ho].
    + do 3 eexists. split; [reflexivity|]. split; [reflexivity|].
      repeat split; try discriminate; try lia; intros; try discriminate; lia.
    + destruct (N.eqb_spec n 0) as [E|_]; [contradiction|].
      destruct (N.eqb_spec B 0) as [E|_]; [lia|]. cbn [negb andb].
      destruct (in_result inner && in_finished inner)%bool eqn:Eres; cbn [negb orb].
      * apply andb_true_iff in Eres. destruct Eres as [Er Ef].
        destruct (N.ltb_spec B (in_total inner)) as [Hbig|Hfit].
        -- destruct (N.leb_spec B out_size) as [Hroom|Hnoroom].
           ++ do 3 eexists. split; [reflexivity|]. split; [reflexivity|].
              repeat split; try discriminate; try lia; intros; try discriminate; try lia; reflexivity.
           ++ do 3 eexists. split; [reflexivity|]. split; [reflexivity|].
              repeat split; try discriminate; try lia; intros; try discriminate; lia.
        -- do 3 eexists. split; [reflexivity|]. split; [reflexivity|].
           repeat split; try discriminate; try lia; intros; try discriminate; try assumption; try lia; reflexivity.
      * destruct (N.leb_spec B out_size) as [Hroom|Hnoroom].
        -- do 3 eexists. split; [reflexivity|]. split; [reflexivity|].
           repeat split; try discriminate; try lia; intros; try discriminate; try lia; reflexivity.
        -- do 3 eexists. split; [reflexivity|]. split; [reflexivity|].
           repeat split; try discriminate; try lia; intros; try discriminate; lia.
Qed.

(* ---------------------------------------------------------------- stream accounting *)

Lemma log2_lt_pow2' a b : a < 2 ^ b -> 0 < b -> N.log2 a < b.
Proof.
  intros H Hb. destruct (N.eq_dec a 0) as [->|Ha]; [exact Hb|].
  apply N.log2_lt_pow2; [lia|exact H].
Qed.

Lemma mlen_nibbles_spec len : 1 <= len -> len <= 2 ^ 24 ->
  mlen_nibbles len = if len <=? 2 ^ 16 then 4 else if len <=? 2 ^ 20 then 5 else 6.
Proof.
  intros H1 H2. unfold mlen_nibbles.
  change (nthN mlen_consts 0) with 16. change (nthN mlen_consts 1) with 16.
  change (nthN mlen_consts 2) with 3. change (nthN mlen_consts 3) with 4.
  destruct (N.eqb_spec len 1) as [->|Hne]; [reflexivity|].
  assert (Hpos : 0 < len - 1) by lia.
  destruct (N.leb_spec len (2 ^ 16)) as [Ha|Ha].
  - assert (Hl : N.log2 (len - 1) < 16) by (apply log2_lt_pow2'; lia).
    remember (N.log2 (len - 1)) as lg. 
    destruct (N.ltb_spec (lg + 1) 16) as [Hc|Hc]; [reflexivity|].
    assert (E : lg = 15) by lia. rewrite E. reflexivity.
  - assert (Hge16 : 16 <= N.log2 (len - 1)) by (apply N.log2_le_pow2; lia).
    destruct (N.leb_spec len (2 ^ 20)) as [Hb|Hb].
    + assert (Hl : N.log2 (len - 1) < 20) by (apply log2_lt_pow2'; lia).
      remember (N.log2 (len - 1)) as lg.
      destruct (N.ltb_spec (lg + 1) 16) as [Hc|Hc]; [lia|].
      assert (C : lg = 16 \/ lg = 17 \/ lg = 18 \/ lg = 19) by lia.
      destruct C as [-> | [-> | [-> | ->]]]; reflexivity.
    + assert (Hge20 : 20 <= N.log2 (len - 1)) by (apply N.log2_le_pow2; lia).
      assert (Hl : N.log2 (len - 1) < 24) by (apply log2_lt_pow2'; lia).
      remember (N.log2 (len - 1)) as lg.
      destruct (N.ltb_spec (lg + 1) 16) as [Hc|Hc]; [lia|].
      assert (C : lg = 20 \/ lg = 21 \/ lg = 22 \/ lg = 23) by lia.
      destruct C as [-> | [-> | [-> | ->]]]; reflexivity.
Qed.

(* the encoder's stored form has exactly the header RFC 7932 prescribes for that length *)
Lemma stored_header_bits_rfc len : 1 <= len -> len <= 2 ^ 24 ->
  stored_header_bits len = rfc_uncompressed_header_bits len.
Proof. intros H1 H2. unfold stored_header_bits, rfc_uncompressed_header_bits. rewrite mlen_nibbles_spec by assumption. reflexivity. Qed.

Definition mb_overhead (b : mblock) : N := 4 + (if 2 ^ 20 <? mb_len b then 1 else 0).

Lemma stored_header_bits_bound len : 1 <= len -> len <= 2 ^ 24 ->
  stored_header_bits len = 20 \/ stored_header_bits len = 24 \/ (stored_header_bits len = 28 /\ 2 ^ 20 < len).
Proof.
  intros H1 H2. unfold stored_header_bits. rewrite mlen_nibbles_spec by assumption.
  destruct (N.leb_spec len (2 ^ 16)); [left; reflexivity|].
  destruct (N.leb_spec len (2 ^ 20)); [right; left; reflexivity|right; right; split; [reflexivity|assumption]].
Qed.

Ltac Zify.zify_post_hook ::= Z.to_euclidean_division_equations.

Lemma round8_props p : p <= round8 p /\ round8 p < p + 8 /\ round8 p / 8 = (p + 7) / 8 /\ (round8 p + 7) / 8 = (p + 7) / 8.
Proof. unfold round8. lia. Qed.

Lemma block_growth c p b last p1 :
  1 <= mb_len b -> mb_len b <= 2 ^ 24 ->
  after_block c p b last = Some p1 ->
  (last = false -> p1 / 8 <= p / 8 + mb_len b + mb_overhead b)
  /\ (last = true -> (p1 + 7) / 8 <= p / 8 + mb_len b + mb_overhead b + 2).
Proof.
  intros H1 H2. unfold after_block, mb_overhead. change guard_slack with 4.
  destruct b as [len|len w]; cbn [mb_len] in *.
  - unfold after_stored, after_empty_last. remember (8 * len) as len8 eqn:Elen8.
    destruct (stored_header_bits_bound len H1 H2) as [Hh|[Hh|[Hh Hbig]]]; rewrite Hh.
    + destruct (N.ltb_spec (2 ^ 20) len) as [Hb|Hb];
        destruct (s_appendable c), last; cbn [andb negb]; intros E; injection E as <-; unfold round8;
        split; intros; try discriminate; lia.
    + destruct (N.ltb_spec (2 ^ 20) len) as [Hb|Hb];
        destruct (s_appendable c), last; cbn [andb negb]; intros E; injection E as <-; unfold round8;
        split; intros; try discriminate; lia.
    + apply N.ltb_lt in Hbig as Hbig'. rewrite Hbig'.
      destruct (s_appendable c), last; cbn [andb negb]; intros E; injection E as <-; unfold round8;
        split; intros; try discriminate; lia.
  - unfold after_empty_last.
    destruct (s_appendable c), last; cbn [andb negb];
      match goal with |- context [if ?g then None else _] => destruct g eqn:Eg end; try discriminate;
      intros E; injection E as <-; apply N.ltb_ge in Eg; unfold round8 in *;
      destruct (2 ^ 20 <? len); split; intros; try discriminate; lia.
Qed.
Ltac Zify.zify_post_hook ::= idtac.

Definition blocks_ok (bs : list mblock) : Prop := Forall (fun b => 1 <= mb_len b /\ mb_len b <= 2 ^ 24) bs.
Definition sum_len (bs : list mblock) : N := fold_right (fun b a => mb_len b + a) 0 bs.
Definition sum_overhead (bs : list mblock) : N := fold_right (fun b a => mb_overhead b + a) 0 bs.

Ltac Zify.zify_post_hook ::= Z.to_euclidean_division_equations.
Lemma after_empty_last_bytes p : (after_empty_last p + 7) / 8 <= p / 8 + 2.
Proof. unfold after_empty_last, round8. lia. Qed.
Lemma floor_le_ceil p : p / 8 <= (p + 7) / 8.
Proof. lia. Qed.
Ltac Zify.zify_post_hook ::= idtac.

Lemma after_blocks_bound c fe : forall bs p p',
  blocks_ok bs -> (bs <> [] \/ fe = true) ->
  after_blocks c p bs fe = Some p' ->
  (p' + 7) / 8 <= p / 8 + sum_len bs + sum_overhead bs + 2.
Proof.
  induction bs as [|b t IH]; intros p p' Hok Hne H.
  - cbn [after_blocks] in H. destruct Hne as [Hne | ->]; [contradiction|]. injection H as <-.
    cbn [sum_len sum_overhead fold_right]. pose proof (after_empty_last_bytes p). lia.
  - cbn [after_blocks] in H. inversion Hok as [|b' t' [Hb1 Hb2] Hok' E1]; subst.
    destruct (after_block c p b (match t with [] => negb fe | _ :: _ => false end)) as [p1|] eqn:Eb; [|discriminate].
    destruct (block_growth c p b _ p1 Hb1 Hb2 Eb) as [Hnl Hl].
    cbn [sum_len sum_overhead fold_right]. fold (sum_len t). fold (sum_overhead t).
    destruct t as [|b2 t2].
    + destruct fe.
      * cbn [negb] in *. specialize (Hnl eq_refl).
        cbn [after_blocks] in H. injection H as <-. cbn [sum_len sum_overhead fold_right].
        pose proof (after_empty_last_bytes p1). lia.
      * cbn [negb] in *. specialize (Hl eq_refl). cbn [after_blocks] in H. injection H as <-.
        cbn [sum_len sum_overhead fold_right]. lia.
    + specialize (Hnl eq_refl).
      assert (Hne' : b2 :: t2 <> [] \/ fe = true) by (left; discriminate).
      pose proof (IH p1 p' Hok' Hne' H) as HI.
      remember (sum_len (b2 :: t2)) as sl. remember (sum_overhead (b2 :: t2)) as so. lia.
Qed.

(* ---- the header ---- *)
Ltac Zify.zify_post_hook ::= Z.to_euclidean_division_equations.
Lemma header_end_bound c n : scfg_ok c = true ->
  header_end c n / 8 <= 11 + s_hintlen c + catable_bytes c n
  /\ (n = 0 -> (after_empty_last (header_end c n) + 7) / 8 <= 9 + s_hintlen c).
Proof.
  unfold scfg_ok. intros H. apply andb_true_iff in H. destruct H as [H _].
  apply andb_true_iff in H. destruct H as [H H1]. apply andb_true_iff in H. destruct H as [H H0].
  apply N.leb_le in H0, H1.
  assert (Hw : s_wbits c <= 14).
  { repeat (apply orb_true_iff in H; destruct H as [H|H]); apply N.eqb_eq in H; lia. }
  unfold header_end, catable_bytes, after_empty_last.
  assert (Hp1 : (if s_magic c then round8 (s_wbits c + 14) + 8 * (4 + s_hintlen c) else s_wbits c) <= 64 + 8 * s_hintlen c).
  { destruct (s_magic c); unfold round8; lia. }
  remember (if s_magic c then round8 (s_wbits c + 14) + 8 * (4 + s_hintlen c) else s_wbits c) as p1 eqn:Ep1.
  split.
  - destruct (s_catable c); cbn [andb].
    + destruct (N.ltb_spec 0 n) as [Hn|Hn].
      * unfold after_stored.
        assert (Hcb : N.min 2 n = 1 \/ N.min 2 n = 2) by lia.
        assert (Hh : stored_header_bits (N.min 2 n) = 20) by (destruct Hcb as [-> | ->]; reflexivity).
        rewrite Hh. unfold round8. remember (N.min 2 n) as cb. lia.
      * lia.
    + lia.
  - intros ->. change (0 <? 0) with false. rewrite andb_false_r. unfold round8. lia.
Qed.
Ltac Zify.zify_post_hook ::= idtac.

(* ---- counting: the per-block overheads fit in 4 per 16 KiB plus 4 ---- *)
Lemma div_add_le a b c : c <> 0 -> a / c + b / c <= (a + b) / c.
Proof.
  intros Hc. apply N.div_le_lower_bound; [exact Hc|].
  destruct (div_bounds a c Hc) as [Ha _]. destruct (div_bounds b c Hc) as [Hb _].
  remember (a / c) as qa. remember (b / c) as qb. nia.
Qed.

Lemma overhead_full_block b extra : mb_len b <= 2 ^ 24 -> 2 ^ 14 <= mb_len b + extra ->
  mb_overhead b <= 4 * ((mb_len b + extra) / 2 ^ 14).
Proof.
  intros Hle Hge. unfold mb_overhead.
  destruct (N.ltb_spec (2 ^ 20) (mb_len b)) as [Hbig|Hsmall].
  - assert (H : 64 <= (mb_len b + extra) / 2 ^ 14).
    { apply N.div_le_lower_bound; [lia|]. change (2 ^ 14 * 64) with (2 ^ 20). lia. }
    remember ((mb_len b + extra) / 2 ^ 14) as q. lia.
  - assert (H : 1 <= (mb_len b + extra) / 2 ^ 14).
    { apply N.div_le_lower_bound; [lia|]. lia. }
    remember ((mb_len b + extra) / 2 ^ 14) as q. lia.
Qed.

Lemma overhead_any_block b extra : mb_len b <= 2 ^ 24 ->
  mb_overhead b <= 4 * ((mb_len b + extra) / 2 ^ 14) + 4.
Proof.
  intros Hle. unfold mb_overhead.
  destruct (N.ltb_spec (2 ^ 20) (mb_len b)) as [Hbig|Hsmall].
  - assert (H : 64 <= (mb_len b + extra) / 2 ^ 14).
    { apply N.div_le_lower_bound; [lia|]. change (2 ^ 14 * 64) with (2 ^ 20). lia. }
    remember ((mb_len b + extra) / 2 ^ 14) as q. lia.
  - remember ((mb_len b + extra) / 2 ^ 14) as q. lia.
Qed.

Lemma overhead_count fe : forall bs extra,
  blocks_ok bs -> nonfinal_ok extra bs fe = true ->
  sum_overhead bs <= 4 * ((sum_len bs + extra) / 2 ^ 14) + 4.
Proof.
  induction bs as [|b t IH]; intros extra Hok Hnf.
  - cbn [sum_overhead sum_len fold_right]. apply N.le_0_l.
  - inversion Hok as [|b' t' [Hb1 Hb2] Hok' E1]; subst.
    cbn [nonfinal_ok] in Hnf. apply andb_true_iff in Hnf. destruct Hnf as [Hhead Htail].
    cbn [sum_overhead sum_len fold_right]. fold (sum_overhead t). fold (sum_len t).
    destruct t as [|b2 t2].
    + cbn [sum_overhead sum_len fold_right]. rewrite !N.add_0_r.
      pose proof (overhead_any_block b extra Hb2) as H. exact H.
    + cbn [orb] in Hhead. apply N.leb_le in Hhead.
      pose proof (overhead_full_block b extra Hb2 Hhead) as H1.
      pose proof (IH 0 Hok' Htail) as H2. rewrite N.add_0_r in H2.
      pose proof (div_add_le (mb_len b + extra) (sum_len (b2 :: t2)) (2 ^ 14)) as H3.
      replace (mb_len b + sum_len (b2 :: t2) + extra) with (mb_len b + extra + sum_len (b2 :: t2)) by lia.
      remember ((mb_len b + extra) / 2 ^ 14) as q1. remember (sum_len (b2 :: t2) / 2 ^ 14) as q2.
      remember ((mb_len b + extra + sum_len (b2 :: t2)) / 2 ^ 14) as q3.
      remember (sum_overhead (b2 :: t2)) as so. assert (Hc : 2 ^ 14 <> 0) by lia. specialize (H3 Hc). lia.
Qed.

(* ---- the accounting theorem, for any magic_size that covers the headers ---- *)
Lemma stream_within_bound_gen ms c n bs fe t :
  11 + 10 <= ms -> ms < 2 ^ 32 ->
  scfg_ok c = true -> n < 2 ^ 62 -> schedule_ok c n bs fe = true ->
  stream_bytes c n bs fe = Some t ->
  exists B, max_compressed_size_gen ms n = Ok B /\ t <= B.
Proof.
  intros Hms Hms32 Hc Hn Hs Ht.
  unfold schedule_ok in Hs. apply andb_true_iff in Hs. destruct Hs as [Hs Hnf].
  apply andb_true_iff in Hs. destruct Hs as [Hsum Hall]. apply N.eqb_eq in Hsum. fold (sum_len bs) in Hsum.
  assert (Hok : blocks_ok bs).
  { unfold blocks_ok. apply Forall_forall. intros b Hb. rewrite forallb_forall in Hall. specialize (Hall b Hb).
    apply andb_true_iff in Hall. destruct Hall as [A B]. apply N.ltb_lt in A. apply N.leb_le in B. lia. }
  assert (Hhl : s_hintlen c <= 10).
  { pose proof Hc as Hc'. unfold scfg_ok in Hc'. apply andb_true_iff in Hc'. destruct Hc' as [Hc' _].
    apply andb_true_iff in Hc'. destruct Hc' as [_ Hc']. apply N.leb_le in Hc'. exact Hc'. }
  destruct (header_end_bound c n Hc) as [Hh Hh0].
  destruct (N.eq_dec n 0) as [->|Hnz].
  - (* empty input: no meta-block, only the empty last one *)
    assert (bs = []).
    { destruct bs as [|b t']; [reflexivity|]. cbn [sum_len fold_right] in Hsum.
      inversion Hok as [|b' t'' [Hb1 Hb2] Hok' E1]; subst. lia. }
    subst bs. rewrite mcs_zero. eexists. split; [reflexivity|].
    unfold stream_bytes in Ht. destruct fe; [|discriminate]. cbn [after_blocks] in Ht. injection Ht as <-.
    specialize (Hh0 eq_refl). lia.
  - assert (H0 : 0 < n) by lia.
    destruct (mcs_gen_range ms n Hms32 H0 Hn) as (v & Hv & Hlo & _).
    exists v. split; [exact Hv|].
    assert (Hne : bs <> [] \/ fe = true).
    { unfold stream_bytes in Ht. destruct bs; [destruct fe; [right; reflexivity|discriminate]|left; discriminate]. }
    assert (Hab : exists p', after_blocks c (header_end c n) bs fe = Some p' /\ t = (p' + 7) / 8).
    { unfold stream_bytes in Ht. destruct bs as [|b t'].
      - destruct fe; [|discriminate]. destruct (after_blocks c (header_end c n) [] true) as [p'|]; [|discriminate].
        injection Ht as <-. eexists; split; reflexivity.
      - destruct (after_blocks c (header_end c n) (b :: t') fe) as [p'|]; [|discriminate].
        injection Ht as <-. eexists; split; reflexivity. }
    destruct Hab as (p' & Hab & ->).
    pose proof (after_blocks_bound c fe bs _ _ Hok Hne Hab) as Hb.
    pose proof (overhead_count fe bs (catable_bytes c n) Hok Hnf) as Hcnt.
    rewrite Hsum in Hcnt.
    remember (n / 2 ^ 14) as k. remember (sum_overhead bs) as so. remember (sum_len bs) as sl.
    remember (catable_bytes c n) as cb. remember (header_end c n / 8) as he. remember ((p' + 7) / 8) as tot.
    lia.
Qed.

Lemma stream_within_bound c n bs fe t :
  scfg_ok c = true -> n < 2 ^ 62 -> schedule_ok c n bs fe = true ->
  stream_bytes c n bs fe = Some t ->
  exists B, max_compressed_size n = Ok B /\ t <= B.
Proof.
  apply stream_within_bound_gen; [change bound_magic_size with 21; lia|vm_compute; reflexivity].
Qed.

(* record of the finding repaired by /repo commit ed7657c: with the 16 spare bytes the function
   reserved before, a catable large-window stream with magic header and a 10-byte size hint
   overshoots on 3 stored bytes (28 > 25) and on the empty input (19 > 17) *)
Lemma stream_exceeds_old_bound :
  let c := mkScfg 14 true 10 true true in
  scfg_ok c = true /\
  (schedule_ok c 3 [Stored 1] false = true /\ stream_bytes c 3 [Stored 1] false = Some 28
   /\ max_compressed_size_gen 16 3 = Ok 25)
  /\ (schedule_ok c 0 [] true = true /\ stream_bytes c 0 [] true = Some 19
      /\ max_compressed_size_gen 16 0 = Ok 17).
Proof. vm_compute. repeat split; reflexivity. Qed.

(* ---------------------------------------------------------------- MakeUncompressedStream: layout *)

Lemma byte_bits_eq n v : byte_bits n v = Header.bits_of n v.
Proof. revert v. induction n as [|n IH]; intros v; cbn; [reflexivity|]. rewrite IH. reflexivity. Qed.

Lemma byte_bits_app a b v : byte_bits (a + b) v = byte_bits a v ++ byte_bits b (v / 2 ^ N.of_nat a).
Proof.
  revert v. induction a as [|a IH]; intros v.
  - cbn [Nat.add byte_bits app]. change (2 ^ N.of_nat 0) with 1. rewrite N.div_1_r. reflexivity.
  - cbn [Nat.add byte_bits app]. rewrite IH. f_equal. f_equal. f_equal.
    rewrite N.div2_div, N.div_div by (try apply N.pow_nonzero; lia).
    rewrite Nat2N.inj_succ, N.pow_succ_r'. reflexivity.
Qed.

Lemma read_field k n v T : (k <= n)%nat ->
  read_bits k (byte_bits n v ++ T)
  = Some (v mod 2 ^ N.of_nat k, byte_bits (n - k) (v / 2 ^ N.of_nat k) ++ T).
Proof.
  intros H. replace n with (k + (n - k))%nat at 1 by lia.
  rewrite byte_bits_app, <- app_assoc, byte_bits_eq. apply read_bits_bits_of.
Qed.

Lemma byte_bits_mod n v : byte_bits n (v mod 2 ^ N.of_nat n) = byte_bits n v.
Proof.
  revert v. induction n as [|n IH]; intros v; [reflexivity|].
  cbn [byte_bits]. rewrite Nat2N.inj_succ, mod_pow2_succ.
  assert (Hb : bit_val (N.odd v) < 2) by (destruct (N.odd v); cbn; lia).
  remember (N.div2 v mod 2 ^ N.of_nat n) as x eqn:Ex. remember (bit_val (N.odd v)) as b eqn:Eb.
  assert (Ho : N.odd (b + 2 * x) = N.odd v).
  { rewrite N.odd_add_mul_2. subst b. destruct (N.odd v); reflexivity. }
  assert (Hd : N.div2 (b + 2 * x) = x).
  { rewrite N.div2_div. rewrite N.add_comm, N.mul_comm, N.div_add_l by lia. rewrite (N.div_small b 2 Hb). lia. }
  rewrite Ho, Hd. subst x. rewrite IH. reflexivity.
Qed.

Lemma bytes_bits_24 W : bytes_to_bits [w8 W; w8 (N.shiftr W 8); w8 (N.shiftr W 16)] = byte_bits 24 W.
Proof.
  unfold bytes_to_bits, w8. cbn [flat_map]. rewrite app_nil_r.
  change (2 ^ 8) with (2 ^ N.of_nat 8). rewrite !byte_bits_mod. rewrite !N.shiftr_div_pow2.
  change 24%nat with (8 + (8 + 8))%nat. rewrite (byte_bits_app 8 (8 + 8)), (byte_bits_app 8 8).
  rewrite N.div_div by (vm_compute; discriminate). reflexivity.
Qed.

Lemma bytes_bits_32 W :
  bytes_to_bits [w8 W; w8 (N.shiftr W 8); w8 (N.shiftr W 16); w8 (N.shiftr W 24)] = byte_bits 32 W.
Proof.
  unfold bytes_to_bits, w8. cbn [flat_map]. rewrite app_nil_r.
  change (2 ^ 8) with (2 ^ N.of_nat 8). rewrite !byte_bits_mod. rewrite !N.shiftr_div_pow2.
  change 32%nat with (8 + (8 + (8 + 8)))%nat.
  rewrite (byte_bits_app 8 (8 + (8 + 8))), (byte_bits_app 8 (8 + 8)), (byte_bits_app 8 8).
  rewrite !N.div_div by (vm_compute; discriminate). reflexivity.
Qed.

Lemma w32_small' x : x < 2 ^ 32 -> w32 x = x. Proof. intros; apply N.mod_small; assumption. Qed.

(* the header word, with the bit operations resolved *)
Lemma stored_header_word_value cs : 1 <= cs -> cs <= 2 ^ 24 ->
  stored_header_word cs = 2 ^ (19 + 4 * stored_nibbles cs) + 8 * (cs - 1) + 2 * stored_nibbles cs.
Proof.
  intros H1 H2. unfold stored_header_word.
  change (nthN mus_bits_consts 0) with 1. change (nthN mus_bits_consts 1) with 1. change (nthN mus_bits_consts 2) with 3.
  change (nthN mus_bits_consts 3) with 19. change (nthN mus_bits_consts 4) with 4.
  assert (Hsub : wsub32 cs 1 = cs - 1).
  { unfold wsub32, w32. change (1 mod 2 ^ 32) with 1.
    replace (cs + 2 ^ 32 - 1) with ((cs - 1) + 1 * 2 ^ 32) by lia. rewrite N.mod_add by lia.
    apply N.mod_small. assert (2 ^ 24 < 2 ^ 32) by (vm_compute; reflexivity). lia. }
  rewrite Hsub.
  assert (Hshl : wshl32 (cs - 1) 3 = N.shiftl (cs - 1) 3).
  { unfold wshl32. apply w32_small'. rewrite N.shiftl_mul_pow2. change (2 ^ 3) with 8.
    assert (2 ^ 24 * 8 < 2 ^ 32) by (vm_compute; reflexivity). lia. }
  rewrite Hshl.
  assert (Hv : N.shiftl (cs - 1) 3 = (cs - 1) * 8) by (rewrite N.shiftl_mul_pow2; reflexivity).
  destruct (stored_nibbles_cases cs) as [[Hc ->]|[(Hc1 & Hc2 & ->)|[Hc ->]]].
  - change (wshl32 0 1) with 0. change (wshl32 1 (wadd32 19 (w32 (4 * 0)))) with (N.shiftl 1 19).
    rewrite N.lor_0_l. rewrite lor_small_shiftl; [change (2 ^ (19 + 4 * 0)) with (2 ^ 19); lia|].
    rewrite Hv. change (2 ^ 19) with (2 ^ 16 * 8). lia.
  - change (wshl32 1 1) with 2. change (wshl32 1 (wadd32 19 (w32 (4 * 1)))) with (N.shiftl 1 23).
    rewrite (lor_small_shiftl (cs - 1) 3 2) by (vm_compute; reflexivity).
    rewrite lor_small_shiftl; [change (2 ^ (19 + 4 * 1)) with (2 ^ 23); change (2 ^ 3) with 8; lia|].
    change (2 ^ 23) with (2 ^ 20 * 8). change (2 ^ 3) with 8. lia.
  - change (wshl32 2 1) with 4. change (wshl32 1 (wadd32 19 (w32 (4 * 2)))) with (N.shiftl 1 27).
    rewrite (lor_small_shiftl (cs - 1) 3 4) by (vm_compute; reflexivity).
    rewrite lor_small_shiftl; [change (2 ^ (19 + 4 * 2)) with (2 ^ 27); change (2 ^ 3) with 8; lia|].
    change (2 ^ 27) with (2 ^ 24 * 8). change (2 ^ 3) with 8. lia.
Qed.

Lemma bytes_to_bits_app a b : bytes_to_bits (a ++ b) = bytes_to_bits a ++ bytes_to_bits b.
Proof. unfold bytes_to_bits. apply flat_map_app. Qed.

Lemma read_bytes_bits bs t : Forall (fun b => b < 256) bs ->
  read_bytes (length bs) (bytes_to_bits bs ++ t) = Some (bs, t).
Proof.
  intros H. unfold bytes_to_bits.
  rewrite (flat_map_ext (byte_bits 8) (Header.bits_of 8)) by (intros; apply byte_bits_eq).
  apply read_bytes_flat. exact H.
Qed.

Lemma pad_to_byte_of pos k : pos mod 8 = 0 -> pad_to_byte (pos + k) = pad_to_byte k.
Proof.
  intros H. unfold pad_to_byte. rewrite <- N.add_mod_idemp_l by lia. rewrite H, N.add_0_l. reflexivity.
Qed.

Ltac Zify.zify_post_hook ::= Z.to_euclidean_division_equations.
Lemma header_fields_0 c1 : c1 < 2 ^ 16 ->
  let W := 2 ^ 19 + 8 * c1 in
  W mod 2 = 0 /\ (W / 2) mod 4 = 0 /\ (W / 2 / 4) mod 2 ^ 16 = c1 /\ (W / 2 / 4 / 2 ^ 16) mod 2 = 1
  /\ (W / 2 / 4 / 2 ^ 16 / 2) mod 16 = 0.
Proof. intros H W. subst W. change (2 ^ 19) with 524288. change (2 ^ 16) with 65536 in *. repeat split; lia. Qed.
Lemma header_fields_1 c1 : 2 ^ 16 <= c1 -> c1 < 2 ^ 20 ->
  let W := 2 ^ 23 + 8 * c1 + 2 in
  W mod 2 = 0 /\ (W / 2) mod 4 = 1 /\ (W / 2 / 4) mod 2 ^ 20 = c1 /\ (W / 2 / 4 / 2 ^ 20) mod 2 = 1
  /\ c1 / 2 ^ 16 <> 0.
Proof. intros H H' W. subst W. change (2 ^ 23) with 8388608. change (2 ^ 20) with 1048576 in *. change (2 ^ 16) with 65536 in *. repeat split; lia. Qed.
Lemma header_fields_2 c1 : 2 ^ 20 <= c1 -> c1 < 2 ^ 24 ->
  let W := 2 ^ 27 + 8 * c1 + 4 in
  W mod 2 = 0 /\ (W / 2) mod 4 = 2 /\ (W / 2 / 4) mod 2 ^ 24 = c1 /\ (W / 2 / 4 / 2 ^ 24) mod 2 = 1
  /\ (W / 2 / 4 / 2 ^ 24 / 2) mod 16 = 0 /\ c1 / 2 ^ 20 <> 0.
Proof. intros H H' W. subst W. change (2 ^ 27) with 134217728. change (2 ^ 24) with 16777216 in *. change (2 ^ 20) with 1048576 in *. repeat split; lia. Qed.
Ltac Zify.zify_post_hook ::= idtac.

Lemma chunk_read cs pos data T :
  1 <= cs -> cs <= 2 ^ 24 -> pos mod 8 = 0 -> length data = N.to_nat cs -> Forall (fun b => b < 256) data ->
  let l := bytes_to_bits (stored_chunk_header cs ++ data) ++ T in
  rfc_read_last_empty pos l = None /\ rfc_read_metadata_block pos l = None /\
  rfc_read_uncompressed_block pos l
  = Some (data, pos + 8 * N.of_nat (length (stored_chunk_header cs)) + 8 * cs, T).
Proof.
  intros H1 H2 Hpos Hlen Hall l. subst l.
  rewrite bytes_to_bits_app, <- app_assoc.
  pose proof (stored_header_word_value cs H1 H2) as HW.
  unfold stored_chunk_header.
  assert (Hc1 : cs = (cs - 1) + 1) by lia. remember (cs - 1) as c1 eqn:Ec1.
  destruct (stored_nibbles_cases cs) as [[Hc Hn]|[(Hca & Hcb & Hn)|[Hc Hn]]]; rewrite Hn in *.
  - (* MNIBBLES = 4 *)
    change (0 =? 2) with false. cbv iota. rewrite app_nil_r, bytes_bits_24.
    change (2 ^ (19 + 4 * 0)) with (2 ^ 19) in HW. rewrite N.mul_0_r, N.add_0_r in HW. rewrite HW.
    destruct (header_fields_0 c1) as (F1 & F2 & F3 & F4 & F5); [lia|].
    unfold rfc_read_last_empty, rfc_read_metadata_block, rfc_read_uncompressed_block.
    rewrite (read_field 1 24) by lia. change (2 ^ N.of_nat 1) with 2. rewrite F1. cbv beta iota.
    change (negb (0 =? 1)) with true. change (negb (0 =? 0)) with false. cbv iota.
    rewrite (read_field 2 (24 - 1)) by (cbn; lia). change (2 ^ N.of_nat 2) with 4. rewrite F2. cbv beta iota.
    change (negb (0 =? 3)) with true. change (0 =? 3) with false. cbv iota.
    split; [reflexivity|]. split; [reflexivity|].
    change (N.to_nat (4 * (4 + 0))) with 16%nat.
    rewrite (read_field 16 (24 - 1 - 2)) by (cbn; lia). change (2 ^ N.of_nat 16) with (2 ^ 16). rewrite F3. cbv beta iota.
    change (4 <? 4 + 0) with false. cbn [andb]. cbv iota.
    rewrite (read_field 1 (24 - 1 - 2 - 16)) by (cbn; lia). change (2 ^ N.of_nat 1) with 2. rewrite F4. cbv beta iota.
    change (negb (1 =? 1)) with false. cbv iota.
    unfold read_align. change (pos + 3 + 4 * (4 + 0) + 1) with (pos + 3 + 16 + 1).
    replace (pos + 3 + 16 + 1) with (pos + 20) by lia. rewrite pad_to_byte_of by exact Hpos.
    change (N.to_nat (pad_to_byte 20)) with 4%nat. change (pad_to_byte 20) with 4.
    rewrite (read_field 4 (24 - 1 - 2 - 16 - 1)) by (cbn; lia). change (2 ^ N.of_nat 4) with 16. rewrite F5. cbv beta iota.
    change (0 =? 0) with true. cbv iota.
    change (24 - 1 - 2 - 16 - 1 - 4)%nat with 0%nat. cbn [byte_bits app].
    replace (N.to_nat (c1 + 1)) with (length data) by (rewrite Hlen; f_equal; lia).
    rewrite read_bytes_bits by exact Hall. f_equal. f_equal. f_equal. cbn [length]. lia.
  - (* MNIBBLES = 5 *)
    change (1 =? 2) with false. cbv iota. rewrite app_nil_r, bytes_bits_24.
    change (2 ^ (19 + 4 * 1)) with (2 ^ 23) in HW. change (2 * 1) with 2 in HW. rewrite HW.
    destruct (header_fields_1 c1) as (F1 & F2 & F3 & F4 & F5); [lia|lia|].
    unfold rfc_read_last_empty, rfc_read_metadata_block, rfc_read_uncompressed_block.
    rewrite (read_field 1 24) by lia. change (2 ^ N.of_nat 1) with 2. rewrite F1. cbv beta iota.
    change (negb (0 =? 1)) with true. change (negb (0 =? 0)) with false. cbv iota.
    rewrite (read_field 2 (24 - 1)) by (cbn; lia). change (2 ^ N.of_nat 2) with 4. rewrite F2. cbv beta iota.
    change (negb (1 =? 3)) with true. change (1 =? 3) with false. cbv iota.
    split; [reflexivity|]. split; [reflexivity|].
    change (N.to_nat (4 * (4 + 1))) with 20%nat.
    rewrite (read_field 20 (24 - 1 - 2)) by (cbn; lia). change (2 ^ N.of_nat 20) with (2 ^ 20). rewrite F3. cbv beta iota.
    change (4 <? 4 + 1) with true. change (4 * (4 + 1 - 1)) with 16.
    apply N.eqb_neq in F5. rewrite F5. cbn [andb]. cbv iota.
    rewrite (read_field 1 (24 - 1 - 2 - 20)) by (cbn; lia). change (2 ^ N.of_nat 1) with 2. rewrite F4. cbv beta iota.
    change (negb (1 =? 1)) with false. cbv iota.
    unfold read_align. change (pos + 3 + 4 * (4 + 1) + 1) with (pos + 3 + 20 + 1).
    replace (pos + 3 + 20 + 1) with (pos + 24) by lia. rewrite pad_to_byte_of by exact Hpos.
    change (N.to_nat (pad_to_byte 24)) with 0%nat. change (pad_to_byte 24) with 0.
    cbn [read_bits]. change (0 =? 0) with true. cbv iota.
    change (24 - 1 - 2 - 20 - 1)%nat with 0%nat. cbn [byte_bits app].
    replace (N.to_nat (c1 + 1)) with (length data) by (rewrite Hlen; f_equal; lia).
    rewrite read_bytes_bits by exact Hall. f_equal. f_equal. f_equal. cbn [length]. lia.
  - (* MNIBBLES = 6 *)
    change (2 =? 2) with true. cbv iota. cbn [app]. rewrite bytes_bits_32.
    change (2 ^ (19 + 4 * 2)) with (2 ^ 27) in HW. change (2 * 2) with 4 in HW. rewrite HW.
    destruct (header_fields_2 c1) as (F1 & F2 & F3 & F4 & F5 & F6); [lia|lia|].
    unfold rfc_read_last_empty, rfc_read_metadata_block, rfc_read_uncompressed_block.
    rewrite (read_field 1 32) by lia. change (2 ^ N.of_nat 1) with 2. rewrite F1. cbv beta iota.
    change (negb (0 =? 1)) with true. change (negb (0 =? 0)) with false. cbv iota.
    rewrite (read_field 2 (32 - 1)) by (cbn; lia). change (2 ^ N.of_nat 2) with 4. rewrite F2. cbv beta iota.
    change (negb (2 =? 3)) with true. change (2 =? 3) with false. cbv iota.
    split; [reflexivity|]. split; [reflexivity|].
    change (N.to_nat (4 * (4 + 2))) with 24%nat.
    rewrite (read_field 24 (32 - 1 - 2)) by (cbn; lia). change (2 ^ N.of_nat 24) with (2 ^ 24). rewrite F3. cbv beta iota.
    change (4 <? 4 + 2) with true. change (4 * (4 + 2 - 1)) with 20.
    apply N.eqb_neq in F6. rewrite F6. cbn [andb]. cbv iota.
    rewrite (read_field 1 (32 - 1 - 2 - 24)) by (cbn; lia). change (2 ^ N.of_nat 1) with 2. rewrite F4. cbv beta iota.
    change (negb (1 =? 1)) with false. cbv iota.
    unfold read_align. change (pos + 3 + 4 * (4 + 2) + 1) with (pos + 3 + 24 + 1).
    replace (pos + 3 + 24 + 1) with (pos + 28) by lia. rewrite pad_to_byte_of by exact Hpos.
    change (N.to_nat (pad_to_byte 28)) with 4%nat. change (pad_to_byte 28) with 4.
    rewrite (read_field 4 (32 - 1 - 2 - 24 - 1)) by (cbn; lia). change (2 ^ N.of_nat 4) with 16. rewrite F5. cbv beta iota.
    change (0 =? 0) with true. cbv iota.
    change (32 - 1 - 2 - 24 - 1 - 4)%nat with 0%nat. cbn [byte_bits app].
    replace (N.to_nat (c1 + 1)) with (length data) by (rewrite Hlen; f_equal; lia).
    rewrite read_bytes_bits by exact Hall. f_equal. f_equal. f_equal. cbn [length]. lia.
Qed.

Lemma expand_app input a b : expand input (a ++ b) = expand input a ++ expand input b.
Proof. unfold expand. apply flat_map_app. Qed.

Definition chunks (size : N) : N := (size + 2 ^ 24 - 1) / 2 ^ 24.

Ltac Zify.zify_post_hook ::= Z.to_euclidean_division_equations.
Lemma chunks_0 : chunks 0 = 0. Proof. reflexivity. Qed.
Lemma chunks_small size : 0 < size -> size <= 2 ^ 24 -> chunks size = 1.
Proof. unfold chunks. change (2 ^ 24) with 16777216. lia. Qed.
Lemma chunks_big size : 2 ^ 24 < size -> chunks size = chunks (size - 2 ^ 24) + 1.
Proof. unfold chunks. change (2 ^ 24) with 16777216. lia. Qed.
Lemma chunks_le size : chunks size <= size / 2 ^ 24 + 1.
Proof. unfold chunks. change (2 ^ 24) with 16777216. lia. Qed.
Lemma aligned_after pos a b : pos mod 8 = 0 -> (pos + 8 * a + 8 * b) mod 8 = 0.
Proof. lia. Qed.
Ltac Zify.zify_post_hook ::= idtac.

Lemma epilogue_read pos F acc : pos mod 8 = 0 ->
  rfc_read_stored_blocks (S F) pos (bytes_to_bits mus_epilogue) acc = Some acc.
Proof.
  intros Hpos. change mus_epilogue with [3]. cbn [rfc_read_stored_blocks].
  change (rfc_read_last_empty pos (bytes_to_bits [3])) with (Some (pos + 2, [false; false; false; false; false; false])).
  unfold read_align. rewrite pad_to_byte_of by exact Hpos. change (N.to_nat (pad_to_byte 2)) with 6%nat.
  reflexivity.
Qed.

Lemma In_firstn' {A} (x : A) n l : In x (firstn n l) -> In x l.
Proof. intros H. rewrite <- (firstn_skipn n l). apply in_or_app. left. exact H. Qed.
Lemma In_skipn' {A} (x : A) n l : In x (skipn n l) -> In x l.
Proof. intros H. rewrite <- (firstn_skipn n l). apply in_or_app. right. exact H. Qed.
Lemma skipn_add {A} a b (l : list A) : skipn (a + b) l = skipn a (skipn b l).
Proof.
  revert l. induction b as [|b IH]; intros l.
  - rewrite Nat.add_0_r. reflexivity.
  - rewrite Nat.add_succ_r. destruct l as [|x l]; [rewrite !skipn_nil; reflexivity|]. cbn [skipn]. apply IH.
Qed.

Lemma loop_decode input : Forall (fun b => b < 256) input ->
  forall fuel off size F pos acc,
  off + size = N.of_nat (length input) -> chunks size <= N.of_nat fuel -> chunks size + 1 <= N.of_nat F ->
  pos mod 8 = 0 ->
  rfc_read_stored_blocks F pos (bytes_to_bits (expand input (mus_loop fuel off size) ++ mus_epilogue)) acc
  = Some (acc ++ skipn (N.to_nat off) input).
Proof.
  intros Hall. induction fuel as [|f IH]; intros off size F pos acc Hsum Hfuel HF Hpos.
  - assert (size = 0).
    { destruct (N.eq_dec size 0) as [E|E]; [exact E|]. exfalso.
      destruct (N.le_gt_cases size (2 ^ 24)) as [Hs|Hs].
      - rewrite chunks_small in Hfuel by lia. cbn in Hfuel. lia.
      - rewrite chunks_big in Hfuel by exact Hs. cbn in Hfuel. lia. }
    subst size. cbn [mus_loop expand flat_map app].
    destruct F as [|F']; [cbn in HF; lia|]. rewrite epilogue_read by exact Hpos.
    rewrite N.add_0_r in Hsum. rewrite Hsum, Nat2N.id, skipn_all, app_nil_r. reflexivity.
  - cbn [mus_loop]. change mus_chunk_log with 24.
    destruct (N.eqb_spec size 0) as [->|Hnz].
    + cbn [expand flat_map app]. destruct F as [|F']; [cbn in HF; lia|]. rewrite epilogue_read by exact Hpos.
      rewrite N.add_0_r in Hsum. rewrite Hsum, Nat2N.id, skipn_all, app_nil_r. reflexivity.
    + set (cs := if 2 ^ 24 <? size then 2 ^ 24 else size).
      assert (Hcs : 1 <= cs /\ cs <= 2 ^ 24 /\ cs <= size /\ chunks size = chunks (size - cs) + 1).
      { unfold cs. destruct (N.ltb_spec (2 ^ 24) size) as [Hb|Hs].
        - repeat split; try lia. apply chunks_big. exact Hb.
        - repeat split; try lia. rewrite N.sub_diag, chunks_0. apply chunks_small; lia. }
      destruct Hcs as (Hcs1 & Hcs2 & Hcs3 & Hch).
      cbn [expand flat_map expand_seg]. fold (expand input (mus_loop f (off + cs) (size - cs))).
      set (data := firstn (N.to_nat cs) (skipn (N.to_nat off) input)).
      assert (Hdl : length data = N.to_nat cs).
      { unfold data. rewrite firstn_length, skipn_length. apply Nat.min_l.
        assert (N.of_nat (length input - N.to_nat off) = N.of_nat (length input) - off) by lia. lia. }
      assert (Hdall : Forall (fun b => b < 256) data).
      { unfold data. apply Forall_forall. intros x Hx. apply In_firstn', In_skipn' in Hx.
        rewrite Forall_forall in Hall. apply Hall. exact Hx. }
      destruct F as [|F']; [lia|].
      rewrite <- !app_assoc. rewrite (app_assoc (stored_chunk_header cs) data).
      rewrite bytes_to_bits_app.
      destruct (chunk_read cs pos data
                  (bytes_to_bits (expand input (mus_loop f (off + cs) (size - cs)) ++ mus_epilogue))
                  Hcs1 Hcs2 Hpos Hdl Hdall) as (R1 & R2 & R3).
      cbn [rfc_read_stored_blocks]. rewrite R1, R2, R3.
      rewrite IH.
      * rewrite <- app_assoc. f_equal. unfold data.
        replace (N.to_nat (off + cs)) with (N.to_nat cs + N.to_nat off)%nat by lia.
        rewrite skipn_add. rewrite firstn_skipn. reflexivity.
      * lia.
      * rewrite Nat2N.inj_succ in Hfuel. lia.
      * rewrite Nat2N.inj_succ in HF. lia.
      * apply aligned_after. exact Hpos.
Qed.

Lemma expand_loop_length input : forall fuel off size,
  chunks size <= N.of_nat fuel ->
  chunks size <= N.of_nat (length (expand input (mus_loop fuel off size))).
Proof.
  induction fuel as [|f IH]; intros off size Hf.
  - cbn in *. lia.
  - cbn [mus_loop]. change mus_chunk_log with 24.
    destruct (N.eqb_spec size 0) as [->|Hnz]; [rewrite chunks_0; apply N.le_0_l|].
    set (cs := if 2 ^ 24 <? size then 2 ^ 24 else size).
    assert (Hch : chunks size = chunks (size - cs) + 1).
    { unfold cs. destruct (N.ltb_spec (2 ^ 24) size) as [Hb|Hs].
      - apply chunks_big. exact Hb.
      - rewrite N.sub_diag, chunks_0. apply chunks_small; lia. }
    cbn [expand flat_map expand_seg]. fold (expand input (mus_loop f (off + cs) (size - cs))).
    rewrite !app_length. rewrite stored_chunk_header_length.
    rewrite Nat2N.inj_succ in Hf.
    assert (H : chunks (size - cs) <= N.of_nat f) by lia.
    specialize (IH (off + cs) (size - cs) H).
    destruct (stored_nibbles cs =? 2); lia.
Qed.

Lemma prologue_read T F :
  rfc_read_wbits (bytes_to_bits mus_prologue ++ T) = Some (10, false, 7, false :: bytes_to_bits [3] ++ T)
  /\ forall acc, rfc_read_stored_blocks (S F) 7 (false :: bytes_to_bits [3] ++ T) acc = rfc_read_stored_blocks F 16 T acc.
Proof. split; [reflexivity|]. intros acc. reflexivity. Qed.

Lemma stored_stream_decodes input : Forall (fun b => b < 256) input ->
  rfc_read_stored_stream (make_uncompressed_stream input) = Some input.
Proof.
  intros Hall. unfold make_uncompressed_stream, make_uncompressed_segments.
  destruct (N.eqb_spec (N.of_nat (length input)) 0) as [E|Hnz].
  - destruct input; [reflexivity|cbn in E; lia].
  - set (n := N.of_nat (length input)) in *.
    cbn [expand flat_map expand_seg]. fold (expand input (mus_loop (mus_fuel n) 0 n ++ [Lit mus_epilogue])).
    rewrite expand_app. change (expand input [Lit mus_epilogue]) with (mus_epilogue ++ []). rewrite app_nil_r.
    unfold rfc_read_stored_stream. rewrite bytes_to_bits_app.
    set (body := expand input (mus_loop (mus_fuel n) 0 n) ++ mus_epilogue).
    destruct (prologue_read (bytes_to_bits body) (length (mus_prologue ++ body))) as [Hw Hm].
    rewrite Hw. cbv beta iota. rewrite Hm.
    unfold body. rewrite (loop_decode input Hall (mus_fuel n) 0 n _ 16 []); [reflexivity|lia| | |reflexivity].
    + unfold mus_fuel. change mus_chunk_log with 24. pose proof (chunks_le n). lia.
    + (* reader fuel: the stream has at least one byte per chunk, plus the epilogue *)
      rewrite !app_length. change (length mus_prologue) with 2%nat. change (length mus_epilogue) with 1%nat.
      assert (Hexp : chunks n <= N.of_nat (length (expand input (mus_loop (mus_fuel n) 0 n)))).
      { apply expand_loop_length. unfold mus_fuel. change mus_chunk_log with 24. pose proof (chunks_le n). lia. }
      lia.
Qed.

Lemma expand_loop_bytes input : forall fuel off size,
  off + size <= N.of_nat (length input) ->
  N.of_nat (length (expand input (mus_loop fuel off size))) = segs_bytes (mus_loop fuel off size).
Proof.
  induction fuel as [|f IH]; intros off size Hin; [reflexivity|].
  cbn [mus_loop]. change mus_chunk_log with 24.
  destruct (N.eqb_spec size 0) as [->|Hnz]; [reflexivity|].
  set (cs := if 2 ^ 24 <? size then 2 ^ 24 else size).
  assert (Hcs : cs <= size) by (unfold cs; destruct (N.ltb_spec (2 ^ 24) size); lia).
  cbn [expand flat_map expand_seg segs_bytes fold_right seg_bytes].
  fold (expand input (mus_loop f (off + cs) (size - cs))). fold (segs_bytes (mus_loop f (off + cs) (size - cs))).
  rewrite !app_length, !Nat2N.inj_add. rewrite IH by lia.
  rewrite firstn_length, skipn_length.
  assert (E : N.of_nat (Nat.min (N.to_nat cs) (length input - N.to_nat off)) = cs) by lia.
  rewrite E. reflexivity.
Qed.

Lemma stored_stream_length input :
  N.of_nat (length (make_uncompressed_stream input)) = segs_bytes (make_uncompressed_segments (N.of_nat (length input))).
Proof.
  unfold make_uncompressed_stream, make_uncompressed_segments.
  destruct (N.of_nat (length input) =? 0); [reflexivity|].
  cbn [expand flat_map expand_seg segs_bytes fold_right seg_bytes].
  fold (expand input (mus_loop (mus_fuel (N.of_nat (length input))) 0 (N.of_nat (length input)) ++ [Lit mus_epilogue])).
  fold (segs_bytes (mus_loop (mus_fuel (N.of_nat (length input))) 0 (N.of_nat (length input)) ++ [Lit mus_epilogue])).
  rewrite expand_app, segs_bytes_app, !app_length, !Nat2N.inj_add.
  rewrite expand_loop_bytes by lia. reflexivity.
Qed.

(* ---------------------------------------------------------------- statements used by props/C08.v *)

Lemma bound_statement n :
  (n = 0 -> max_compressed_size n = Ok 22)
  /\ (0 < n -> n < 2 ^ 14 -> max_compressed_size n = Ok (n + 27))
  /\ (2 ^ 14 <= n -> n < 2 ^ 54 -> max_compressed_size n = Ok (n + 4 * (n / 2 ^ 14) + 28))
  /\ (0 < n -> n < 2 ^ 62 -> exists v, max_compressed_size n = Ok v
        /\ n + 4 * (n / 2 ^ 14) + 27 <= v /\ v <= n + 4 * (n / 2 ^ 14) + 28).
Proof.
  assert (Hms : bound_magic_size < 2 ^ 32) by (vm_compute; reflexivity).
  unfold max_compressed_size. repeat split.
  - intros ->. reflexivity.
  - intros H0 H. rewrite mcs_gen_small by assumption. change bound_magic_size with 21. f_equal. lia.
  - intros H0 H. rewrite mcs_gen_mid by assumption. change bound_magic_size with 21. f_equal. lia.
  - intros H0 H. destruct (mcs_gen_range bound_magic_size n Hms H0 H) as (v & Hv & Hlo & Hhi & _).
    exists v. change bound_magic_size with 21 in *. remember (n / 2 ^ 14) as k. repeat split; [exact Hv|lia|lia].
Qed.

Lemma tail_statement n :
  (n < 2 ^ 14 -> mcs_tail n = n)
  /\ (2 ^ 14 <= n -> n < 2 ^ 54 ->
      mcs_tail n = n + 2 ^ 64 - (n / 2 ^ 14) * 2 ^ 24 /\ n < (n / 2 ^ 14) * 2 ^ 24 /\ 2 ^ 20 < mcs_tail n).
Proof. split; [apply mcs_tail_small|apply mcs_tail_wraps]. Qed.

Lemma fallback_statement input : Forall (fun b => b < 256) input -> N.of_nat (length input) < 2 ^ 62 ->
  exists B, max_compressed_size (N.of_nat (length input)) = Ok B
            /\ N.of_nat (length (make_uncompressed_stream input)) <= B
            /\ rfc_read_stored_stream (make_uncompressed_stream input) = Some input.
Proof.
  intros Hall Hn. set (n := N.of_nat (length input)) in *.
  destruct (N.eq_dec n 0) as [E|E].
  - exists 22. destruct input; [|unfold n in E; cbn in E; lia]. repeat split; try reflexivity. cbn. lia.
  - destruct (stored_within_bound n) as (B & HB & Hle); [lia|exact Hn|].
    exists B. split; [exact HB|]. split; [rewrite stored_stream_length; exact Hle|].
    apply stored_stream_decodes. exact Hall.
Qed.

Lemma multi_statement n t : 0 < n -> n < 2 ^ 62 -> t < 2 ^ 32 ->
  exists B, max_compressed_size n = Ok B /\ max_compressed_size_multi n t = Ok (B + 8 * t).
Proof.
  intros H0 Hn Ht. destruct (bound_statement n) as (_ & _ & _ & H). destruct (H H0 Hn) as (v & Hv & Hlo & Hhi).
  exists v. split; [exact Hv|]. unfold max_compressed_size_multi. rewrite Hv. change bound_per_thread with 8.
  assert (H1 : t * 8 < 2 ^ 35) by (change (2 ^ 35) with (2 ^ 32 * 8); lia).
  assert (H2 : 2 ^ 35 < 2 ^ 62) by (vm_compute; reflexivity).
  assert (H3 : 2 ^ 62 + 2 ^ 62 + 2 ^ 62 < 2 ^ 64) by (vm_compute; reflexivity).
  assert (Hk : 4 * (n / 2 ^ 14) <= n).
  { destruct (div_bounds n (2 ^ 14)) as [A _]; [lia|]. remember (n / 2 ^ 14) as k. change (2 ^ 14) with 16384 in A. lia. }
  remember (n / 2 ^ 14) as k.
  destruct (N.leb_spec (2 ^ 64) (t * 8)) as [A|A]; [lia|]. cbn [orb].
  destruct (N.leb_spec (2 ^ 64) (v + t * 8)) as [A'|A']; [lia|]. f_equal. lia.
Qed.
