(* C08: the per-part accounting (Bound_multi) composed with the length consequence of the
   concatenator's bit-level specification (Concat_length). *)
From Coq Require Import NArith ZArith List Bool Lia.
From V Require Import lib.Words gen.GenBound spec.Header model.Bound proofs.Bound_proofs proofs.Bound_multi.
From V Require model.Concat spec.ConcatSpec proofs.Concat_length.
Import ListNotations.
Open Scope N_scope.

Lemma sumN_map_lenN ms : sumN (map Concat.lenN ms) = N.of_nat (Concat_length.sum_length ms).
Proof.
  induction ms as [|m t IH]; [reflexivity|].
  cbn [map sumN fold_right Concat_length.sum_length]. fold (sumN (map Concat.lenN t)).
  rewrite IH, Concat_length.lenN_length. lia.
Qed.

Lemma multi_stitched (cs : list scfg) (ns : list N) (scheds : list (list mblock * bool)) m0 rest expected :
  length cs = length ns -> length scheds = length ns -> length (m0 :: rest) = length ns ->
  (forall i c n bs fe m, nth_error cs i = Some c -> nth_error ns i = Some n ->
     nth_error scheds i = Some (bs, fe) -> nth_error (m0 :: rest) i = Some m ->
     scfg_ok c = true /\ s_magic c = false /\ schedule_ok c n bs fe = true
     /\ stream_bytes c n bs fe = Some (Concat.lenN m)) ->
  0 < sumN ns -> sumN ns < 2 ^ 62 -> N.of_nat (length ns) <= 22 ->
  (5 <= length m0)%nat -> Forall Concat_length.catable_part rest ->
  ConcatSpec.concat_spec None (m0 :: rest) = Some expected ->
  exists B, max_compressed_size_multi (sumN ns) (N.of_nat (length ns)) = Ok B /\ Concat.lenN expected <= B.
Proof.
  intros Lc Ls Lm Hall H0 Hn Hth H5 Hcat Hspec.
  apply (multi_given_concat cs ns scheds (map Concat.lenN (m0 :: rest)) (Concat.lenN expected)); try assumption.
  - rewrite map_length. exact Lm.
  - intros i c n bs fe t E1 E2 E3 E4.
    destruct (nth_error (m0 :: rest) i) as [m|] eqn:Em.
    + rewrite (map_nth_error Concat.lenN i (m0 :: rest) Em) in E4. injection E4 as <-.
      apply (Hall i c n bs fe m); assumption.
    + apply nth_error_None in Em. assert (Hnone : nth_error (map Concat.lenN (m0 :: rest)) i = None).
      { apply nth_error_None. rewrite map_length. exact Em. }
      rewrite Hnone in E4. discriminate.
  - pose proof (Concat_length.concat_len_catable m0 rest expected H5 Hcat Hspec) as Hl.
    rewrite sumN_map_lenN, Concat_length.lenN_length. rewrite <- Lm. cbn [length].
    remember (Concat_length.sum_length (m0 :: rest)) as sl. lia.
Qed.
