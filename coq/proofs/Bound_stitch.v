(* C08: the per-part accounting (Bound_multi) composed with the length consequence of the
   concatenator's bit-level specification (Concat_length). *)
From Coq Require Import NArith ZArith List Bool Lia.
From V Require Import lib.Words gen.GenBound spec.Header model.Bound proofs.Bound_proofs proofs.Bound_multi.
From V Require model.Concat spec.ConcatSpec proofs.Concat_length.
Import ListNotations.
Open Scope N_scope.

Lemma sumN_map_lenN ms : sumN (map Concat.lenN ms) = N.of_nat (Concat_length.sum_length ms).
Proof.
  induction ms as [|m t IH]; [reflexivity|].
  cbn [map sumN fold_right Concat_length.sum_length]. fold (sumN (map Concat.lenN t)).
  rewrite IH, Concat_length.lenN_length. lia.
Qed.

(* ---- the general form: first part of any (magic-free) configuration, later parts with a window
   field of wl bits (1, 4, 7 or 14) ---- *)
Lemma multi_stitched_w wl c0 n0 bs0 fe0 m0 (cs : list scfg) (ns : list N) (scheds : list (list mblock * bool)) rest expected :
  Concat_length.wl_ok wl ->
  scfg_ok c0 = true -> s_magic c0 = false -> schedule_ok c0 n0 bs0 fe0 = true ->
  stream_bytes c0 n0 bs0 fe0 = Some (Concat.lenN m0) ->
  length cs = length ns -> length scheds = length ns -> length rest = length ns ->
  (forall i c n bs fe m, nth_error cs i = Some c -> nth_error ns i = Some n ->
     nth_error scheds i = Some (bs, fe) -> nth_error rest i = Some m ->
     scfg_ok c = true /\ s_magic c = false /\ s_wbits c = wl /\ schedule_ok c n bs fe = true
     /\ stream_bytes c n bs fe = Some (Concat.lenN m)) ->
  0 < n0 + sumN ns -> n0 + sumN ns < 2 ^ 62 -> N.of_nat (length ns) + 1 <= 22 ->
  (5 <= length m0)%nat -> Forall (Concat_length.catable_part wl) rest ->
  ConcatSpec.concat_spec None (m0 :: rest) = Some expected ->
  exists B, max_compressed_size_multi (n0 + sumN ns) (N.of_nat (length ns) + 1) = Ok B /\ Concat.lenN expected <= B.
Proof.
  intros Hwl Hc0 Hm0 Hs0 Ht0 Lc Ls Lr Hall H0 Hn Hth H5 Hcat Hspec.
  assert (Hth' : N.of_nat (length ns) + 1 < 2 ^ 32).
  { eapply N.le_lt_trans; [exact Hth|]. vm_compute. reflexivity. }
  destruct (multi_statement (n0 + sumN ns) (N.of_nat (length ns) + 1) H0 Hn Hth') as (v & Hv & Hm).
  destruct (bound_statement (n0 + sumN ns)) as (_ & _ & _ & Hr). destruct (Hr H0 Hn) as (v' & Hv' & Hlo & _).
  rewrite Hv in Hv'. injection Hv' as <-.
  exists (v + 8 * (N.of_nat (length ns) + 1)). split; [exact Hm|].
  assert (Hn0 : n0 < 2 ^ 62) by lia.
  pose proof (part_within_allowance c0 n0 bs0 fe0 _ Hc0 Hm0 Hn0 Hs0 Ht0) as Hp0. unfold part_allowance in Hp0.
  assert (Hrest : sumN (map Concat.lenN rest) <= sumN ns + 4 * (sumN ns / 2 ^ 14) + (6 + (wl + 27) / 8) * N.of_nat (length ns)).
  { apply (rest_parts_sum wl ns cs scheds (map Concat.lenN rest)); try assumption.
    - rewrite map_length. exact Lr.
    - intros i c n bs fe t E1 E2 E3 E4.
      destruct (nth_error rest i) as [m|] eqn:Em.
      + rewrite (map_nth_error Concat.lenN i rest Em) in E4. injection E4 as <-.
        apply (Hall i c n bs fe m); assumption.
      + apply nth_error_None in Em. assert (Hnone : nth_error (map Concat.lenN rest) i = None).
        { apply nth_error_None. rewrite map_length. exact Em. }
        rewrite Hnone in E4. discriminate.
    - lia. }
  pose proof (Concat_length.concat_len_catable wl m0 rest expected Hwl H5 Hcat Hspec) as Hl.
  cbn [Concat_length.sum_length] in Hl.
  rewrite sumN_map_lenN in Hrest. rewrite !Concat_length.lenN_length in *.
  assert (Hsb : N.of_nat (Concat_length.src_bytes wl) = (wl + 27) / 8) by (unfold Concat_length.src_bytes; lia).
  pose proof (div_add_le n0 (sumN ns) (2 ^ 14)) as Hd.
  assert (Hc : 2 ^ 14 <> 0) by (vm_compute; discriminate). specialize (Hd Hc).
  rewrite <- Lr in *.
  remember (Concat_length.sum_length rest) as sl. remember (Concat_length.src_bytes wl) as sb.
  remember ((wl + 27) / 8) as sbN. remember (length rest) as T.
  remember (n0 / 2 ^ 14) as k0. remember (sumN ns / 2 ^ 14) as kr. remember ((n0 + sumN ns) / 2 ^ 14) as k.
  remember (sumN ns) as nr. remember (length expected) as E. remember (length m0) as l0.
  assert (HX : N.of_nat (sb * T) = sbN * N.of_nat T) by lia.
  remember (sb * T)%nat as X. remember (sbN * N.of_nat T) as XN.
  assert (Hl' : (8 * E + 8 * X <= 8 * (l0 + sl) + 25 * T + 7)%nat) by lia.
  assert (Hrest' : N.of_nat sl <= nr + 4 * kr + 6 * N.of_nat T + XN) by lia.
  lia.
Qed.

(* non-vacuity: a concrete instance of every hypothesis of multi_stitched_w - two worker streams of
   two input bytes each (large-window form, catable), accounted at 8 bytes, stitched to 13 bytes,
   Multi bound 47 *)
Example multi_stitched_point :
  let c := mkScfg 14 false 1 true true in
  let m := [17; 22; 2; 0; 2; 104; 105; 3] in
  Concat_length.wl_ok 14 /\ scfg_ok c = true /\ s_magic c = false /\ s_wbits c = 14
  /\ schedule_ok c 2 [] true = true /\ stream_bytes c 2 [] true = Some (Concat.lenN m)
  /\ (5 <= length m)%nat /\ Forall (Concat_length.catable_part 14) [m]
  /\ ConcatSpec.concat_spec None [m; m] = Some [17; 22; 2; 0; 2; 104; 105; 8; 0; 8; 104; 105; 3]
  /\ max_compressed_size_multi (2 + sumN [2]) (N.of_nat (length [2]) + 1) = Ok 47.
Proof.
  cbv zeta. split; [right; right; right; reflexivity|].
  repeat (split; [vm_compute; reflexivity|]).
  split; [cbn; lia|]. split.
  - constructor; [|constructor]. exact (proj1 Concat_length.catable_part_point).
  - split; vm_compute; reflexivity.
Qed.
