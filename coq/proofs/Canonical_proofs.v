(* Facts about the RFC 7932 section 3.2 canonical code (spec/PrefixCode.v only):
   code words of a length vector with Kraft sum <= 1 occupy disjoint dyadic intervals, hence the
   code is prefix free and the bit-serial decoder inverts the encoder. *)
From Coq Require Import NArith List Lia Bool Arith.
From V Require Import spec.PrefixCode.
Import ListNotations.
Open Scope N_scope.

(* ------------------------------------------------------------------ counting *)
Lemma count_len_cons x d l : count_len (x :: d) l = (if l =? x then 1 else 0) + count_len d l.
Proof. unfold count_len. cbn [filter]. destruct (l =? x); cbn [length]; lia. Qed.

Lemma count_len_app a b l : count_len (a ++ b) l = count_len a l + count_len b l.
Proof. unfold count_len. rewrite filter_app, app_length. lia. Qed.

Lemma count_len_nil l : count_len [] l = 0.
Proof. reflexivity. Qed.

(* Kraft mass (in units of 2^-15) of the symbols whose length is non-zero and below l *)
Definition start (d : list N) (l : N) : N :=
  fold_right (fun x acc => if negb (x =? 0) && (x <? l) then 2 ^ (15 - x) + acc else acc) 0 d.

Lemma start_cons x d l :
  start (x :: d) l = (if negb (x =? 0) && (x <? l) then 2 ^ (15 - x) else 0) + start d l.
Proof. unfold start. cbn [fold_right]. destruct (negb (x =? 0) && (x <? l)); lia. Qed.

Lemma kraft_cons x d : kraft (x :: d) = (if x =? 0 then 0 else 2 ^ (15 - x)) + kraft d.
Proof. unfold kraft, MAX_BITS. cbn [fold_right]. destruct (x =? 0); lia. Qed.

Lemma start_0 d : start d 0 = 0.
Proof.
  induction d as [|x d IH]; [reflexivity|]. rewrite start_cons, IH.
  destruct (N.ltb_spec x 0); [lia|]. rewrite andb_false_r. reflexivity.
Qed.

Lemma start_1 d : start d 1 = 0.
Proof.
  induction d as [|x d IH]; [reflexivity|]. rewrite start_cons, IH.
  destruct (N.eqb_spec x 0); [reflexivity|]. destruct (N.ltb_spec x 1); [lia|]. reflexivity.
Qed.

Lemma start_kraft d : wf_depths d -> start d 16 = kraft d.
Proof.
  induction d as [|x d IH]; intros Hwf; [reflexivity|].
  rewrite start_cons, kraft_cons, IH by (intros l Hl; apply Hwf; right; exact Hl).
  assert (Hx : x <= 15) by (apply Hwf; left; reflexivity).
  destruct (N.eqb_spec x 0); [reflexivity|]. destruct (N.ltb_spec x 16); [reflexivity|lia].
Qed.

Lemma start_succ d l : 1 <= l -> start d (l + 1) = start d l + count_len d l * 2 ^ (15 - l).
Proof.
  intros Hl. induction d as [|x d IH]; [reflexivity|].
  rewrite !start_cons, count_len_cons, IH.
  destruct (N.eqb_spec x 0) as [->|Hx0].
  - destruct (N.eqb_spec l 0); [lia|]. cbn [negb andb]. lia.
  - cbn [negb andb]. destruct (N.eqb_spec l x) as [->|Hne].
    + destruct (N.ltb_spec x (x + 1)); [|lia]. destruct (N.ltb_spec x x); [lia|]. lia.
    + destruct (N.ltb_spec x (l + 1)); destruct (N.ltb_spec x l); lia.
Qed.

Lemma start_mono d l l' : l <= l' -> start d l <= start d l'.
Proof.
  intros H. induction d as [|x d IH]; [reflexivity|]. rewrite !start_cons.
  destruct (N.eqb_spec x 0); cbn [negb andb]; [lia|].
  destruct (N.ltb_spec x l); destruct (N.ltb_spec x l'); lia.
Qed.

Lemma start_le_kraft d l : start d l <= kraft d.
Proof.
  induction d as [|x d IH]; [reflexivity|]. rewrite start_cons, kraft_cons.
  destruct (N.eqb_spec x 0); cbn [negb andb]; [lia|]. destruct (x <? l); lia.
Qed.

Lemma pow_split l : l <= 14 -> 2 * 2 ^ (15 - (l + 1)) = 2 ^ (15 - l).
Proof.
  intros H. replace (15 - l) with (N.succ (15 - (l + 1))) by lia. rewrite N.pow_succ_r'. reflexivity.
Qed.

Lemma next_code_start d (l : nat) : (l <= 15)%nat ->
  next_code_nat d l * 2 ^ (15 - N.of_nat l) = start d (N.of_nat l).
Proof.
  induction l as [|l IH]; intros Hl.
  - cbn [next_code_nat]. rewrite start_0. reflexivity.
  - cbn [next_code_nat]. rewrite Nat2N.inj_succ, <- N.add_1_r.
    set (A := next_code_nat d l + bl_count d (N.of_nat l)).
    assert (EA : 2 * A * 2 ^ (15 - (N.of_nat l + 1)) = A * 2 ^ (15 - N.of_nat l)).
    { rewrite <- (pow_split (N.of_nat l)) by lia. ring. }
    rewrite EA. unfold A. rewrite N.mul_add_distr_r, IH by lia.
    unfold bl_count. destruct (N.eqb_spec (N.of_nat l) 0) as [E|E].
    + rewrite E. change (0 + 1) with 1. rewrite start_0, start_1. reflexivity.
    + rewrite start_succ by lia. reflexivity.
Qed.

(* ------------------------------------------------------------------ ranks *)
Definition rank (d : list N) (s : nat) : N := count_len (firstn s d) (nth s d 0).

Lemma split_nth (d : list N) s : (s < length d)%nat -> d = firstn s d ++ nth s d 0 :: skipn (S s) d.
Proof.
  revert s. induction d as [|x d IH]; intros s Hs; [cbn in Hs; lia|].
  destruct s as [|s]; [reflexivity|]. cbn [firstn nth skipn app]. f_equal. apply IH. cbn in Hs. lia.
Qed.

Lemma rank_lt_count d s : (s < length d)%nat -> rank d s < count_len d (nth s d 0).
Proof.
  intros Hs. unfold rank. rewrite (split_nth d s Hs) at 3.
  rewrite count_len_app, count_len_cons, N.eqb_refl. lia.
Qed.

Lemma firstn_plus {A} (n m : nat) (l : list A) : firstn (n + m) l = firstn n l ++ firstn m (skipn n l).
Proof.
  revert l. induction n as [|n IH]; intros l; [reflexivity|].
  destruct l as [|x l]; [cbn; rewrite firstn_nil; reflexivity|]. cbn [plus firstn skipn app]. f_equal. apply IH.
Qed.

Lemma skipn_nth (d : list N) s : (s < length d)%nat -> skipn s d = nth s d 0 :: skipn (S s) d.
Proof.
  revert s. induction d as [|x d IH]; intros s Hs; [cbn in Hs; lia|].
  destruct s as [|s]; [reflexivity|]. cbn [skipn nth]. apply IH. cbn in Hs. lia.
Qed.

Lemma rank_inj d s t : (s < t)%nat -> (t < length d)%nat -> nth s d 0 = nth t d 0 -> rank d s < rank d t.
Proof.
  intros Hst Ht E. unfold rank. rewrite <- E.
  replace t with (s + S (t - S s))%nat by lia.
  rewrite firstn_plus, count_len_app, skipn_nth by lia.
  cbn [firstn]. rewrite count_len_cons, N.eqb_refl. lia.
Qed.

(* ------------------------------------------------------------------ intervals *)
Section Intervals.
  Variable d : list N.
  Hypothesis Hwf : wf_depths d.

  Definition used (s : nat) : Prop := (s < length d)%nat /\ nth s d 0 <> 0.
  Definition wid (s : nat) : N := 2 ^ (15 - nth s d 0).

  Lemma used_le15 s : used s -> nth s d 0 <= 15.
  Proof. intros [Hs _]. apply Hwf. apply nth_In. exact Hs. Qed.

  Lemma code_lo s : used s -> rfc_code d s * wid s = start d (nth s d 0) + rank d s * wid s.
  Proof.
    intros Hu. pose proof (used_le15 s Hu) as H15. unfold rfc_code, rfc_next_code, wid. fold (rank d s).
    rewrite N.mul_add_distr_r. f_equal.
    rewrite <- (N2Nat.id (nth s d 0)) at 2 3. apply next_code_start. lia.
  Qed.

  Lemma code_hi s : used s -> (rfc_code d s + 1) * wid s <= start d (nth s d 0 + 1).
  Proof.
    intros Hu. destruct Hu as [Hs Hnz]. rewrite N.mul_add_distr_r, code_lo by (split; assumption).
    rewrite start_succ by lia. pose proof (rank_lt_count d s Hs) as Hr. unfold wid. nia.
  Qed.

  Lemma code_hi_kraft s : used s -> (rfc_code d s + 1) * wid s <= kraft d.
  Proof. intros Hu. eapply N.le_trans; [apply code_hi; exact Hu|apply start_le_kraft]. Qed.

  Lemma wid_pos s : 0 < wid s.
  Proof. unfold wid. apply N.neq_0_lt_0, N.pow_nonzero. discriminate. Qed.

  Lemma wid_pow s : used s -> wid s * 2 ^ nth s d 0 = 32768.
  Proof.
    intros Hu. pose proof (used_le15 s Hu). unfold wid. rewrite <- N.pow_add_r.
    replace (15 - nth s d 0 + nth s d 0) with 15 by lia. reflexivity.
  Qed.

  Lemma code_small s : used s -> kraft d <= 32768 -> rfc_code d s < 2 ^ nth s d 0.
  Proof.
    intros Hu Hk. pose proof (code_hi_kraft s Hu) as H. pose proof (wid_pow s Hu) as Hp.
    pose proof (wid_pos s) as Hw.
    remember (wid s) as w. remember (2 ^ nth s d 0) as p. remember (rfc_code d s) as c. nia.
  Qed.

  (* distinct used symbols occupy disjoint intervals [code * wid, (code + 1) * wid) *)
  Lemma disjoint_lt s t : used s -> used t -> (s < t)%nat ->
    (rfc_code d s + 1) * wid s <= rfc_code d t * wid t \/ (rfc_code d t + 1) * wid t <= rfc_code d s * wid s.
  Proof.
    intros Hs Ht Hst.
    destruct (N.lt_trichotomy (nth s d 0) (nth t d 0)) as [Hl|[He|Hl]].
    - left. eapply N.le_trans; [apply code_hi; exact Hs|].
      rewrite (code_lo t Ht). etransitivity; [apply (start_mono d (nth s d 0 + 1) (nth t d 0)); lia|lia].
    - left. rewrite N.mul_add_distr_r, (code_lo s Hs), (code_lo t Ht).
      pose proof (rank_inj d s t Hst (proj1 Ht) He) as Hr. unfold wid. rewrite He. nia.
    - right. eapply N.le_trans; [apply code_hi; exact Ht|].
      rewrite (code_lo s Hs). etransitivity; [apply (start_mono d (nth t d 0 + 1) (nth s d 0)); lia|lia].
  Qed.

  Lemma disjoint s t : used s -> used t -> s <> t ->
    (rfc_code d s + 1) * wid s <= rfc_code d t * wid t \/ (rfc_code d t + 1) * wid t <= rfc_code d s * wid s.
  Proof.
    intros Hs Ht Hne. destruct (Nat.lt_trichotomy s t) as [H|[H|H]]; [|congruence|].
    - apply disjoint_lt; assumption.
    - destruct (disjoint_lt t s Ht Hs H) as [H'|H']; [right|left]; exact H'.
  Qed.
End Intervals.

(* ------------------------------------------------------------------ bit lists *)
Lemma N_to_bits_length n v : length (N_to_bits n v) = n.
Proof. revert v. induction n as [|n IH]; intros v; [reflexivity|]. cbn [N_to_bits length]. rewrite IH. reflexivity. Qed.

Lemma msb_first_length n v : length (msb_first n v) = n.
Proof. unfold msb_first. rewrite rev_length. apply N_to_bits_length. Qed.

Lemma div2_pow v k : N.div2 v / 2 ^ k = v / 2 ^ (k + 1).
Proof.
  rewrite N.div2_div, N.div_div by (try apply N.pow_nonzero; discriminate).
  rewrite N.add_1_r, N.pow_succ_r'. reflexivity.
Qed.

Lemma N_to_bits_app k l v : N_to_bits (k + l) v = N_to_bits k v ++ N_to_bits l (v / 2 ^ N.of_nat k).
Proof.
  revert v. induction k as [|k IH]; intros v.
  - cbn [plus N_to_bits app]. change (2 ^ N.of_nat 0) with 1. rewrite N.div_1_r. reflexivity.
  - cbn [plus N_to_bits app]. f_equal. rewrite IH. f_equal. f_equal.
    rewrite Nat2N.inj_succ, <- N.add_1_r. apply div2_pow.
Qed.

Lemma msb_first_split l k c :
  msb_first (l + k) c = msb_first l (c / 2 ^ N.of_nat k) ++ msb_first k c.
Proof.
  unfold msb_first. rewrite Nat.add_comm, N_to_bits_app, rev_app_distr. reflexivity.
Qed.

Lemma bits_to_N_to_bits n v : bits_to_N (N_to_bits n v) = v mod 2 ^ N.of_nat n.
Proof.
  revert v. induction n as [|n IH]; intros v.
  - cbn. rewrite N.mod_1_r. reflexivity.
  - cbn [N_to_bits bits_to_N]. rewrite IH, Nat2N.inj_succ, N.pow_succ_r'.
    rewrite N.div2_div.
    rewrite N.mod_mul_r by (try apply N.pow_nonzero; discriminate).
    assert (E : b2n (N.odd v) = v mod 2).
    { rewrite <- N.bit0_mod, N.bit0_odd. destruct (N.odd v); reflexivity. }
    rewrite E. lia.
Qed.

Lemma N_to_bits_inj n c c' : c < 2 ^ N.of_nat n -> c' < 2 ^ N.of_nat n -> N_to_bits n c = N_to_bits n c' -> c = c'.
Proof.
  intros H H' E. apply (f_equal bits_to_N) in E. rewrite !bits_to_N_to_bits in E.
  rewrite !N.mod_small in E by assumption. exact E.
Qed.

Lemma msb_first_inj n c c' : c < 2 ^ N.of_nat n -> c' < 2 ^ N.of_nat n -> msb_first n c = msb_first n c' -> c = c'.
Proof.
  unfold msb_first. intros H H' E. apply (f_equal (@rev bool)) in E. rewrite !rev_involutive in E.
  eapply N_to_bits_inj; eassumption.
Qed.

Lemma is_prefix_length a b : is_prefix a b = true -> (length a <= length b)%nat.
Proof.
  revert b. induction a as [|x a IH]; intros b H; [cbn; lia|].
  destruct b as [|y b]; [discriminate|]. cbn in H. apply andb_true_iff in H. destruct H as [_ H].
  apply IH in H. cbn. lia.
Qed.

Lemma is_prefix_app_eq a a' b : length a = length a' -> is_prefix a (a' ++ b) = true -> a = a'.
Proof.
  revert a'. induction a as [|x a IH]; intros a' Hl H.
  - destruct a'; [reflexivity|discriminate].
  - destruct a' as [|y a']; [discriminate|]. cbn in H. apply andb_true_iff in H. destruct H as [Hxy H].
    apply eqb_prop in Hxy. subst y. f_equal. apply IH; [cbn in Hl; lia|exact H].
Qed.

Lemma is_prefix_refl_app a b : is_prefix a (a ++ b) = true.
Proof. induction a as [|x a IH]; [reflexivity|]. cbn. rewrite eqb_reflx, IH. reflexivity. Qed.

(* a code word that is a prefix of another one: numerically, the longer code shifted right *)
Lemma prefix_numeric l c l' c' :
  c < 2 ^ N.of_nat l -> is_prefix (msb_first l c) (msb_first l' c') = true ->
  (l <= l')%nat /\ c = (c' / 2 ^ N.of_nat (l' - l)) mod 2 ^ N.of_nat l.
Proof.
  intros Hc Hp. pose proof (is_prefix_length _ _ Hp) as Hlen. rewrite !msb_first_length in Hlen.
  split; [exact Hlen|].
  replace l' with (l + (l' - l))%nat in Hp at 1 by lia.
  rewrite msb_first_split in Hp.
  apply is_prefix_app_eq in Hp; [|rewrite !msb_first_length; reflexivity].
  unfold msb_first in Hp. apply (f_equal (@rev bool)) in Hp. rewrite !rev_involutive in Hp.
  apply (f_equal bits_to_N) in Hp. rewrite !bits_to_N_to_bits in Hp.
  rewrite N.mod_small in Hp by exact Hc. exact Hp.
Qed.

Lemma contain c c' p w' : p <> 0 -> c = c' / p ->
  c * (w' * p) <= c' * w' /\ (c' + 1) * w' <= (c + 1) * (w' * p).
Proof.
  intros Hp E. pose proof (N.div_mod c' p Hp) as Hd. pose proof (N.mod_lt c' p Hp) as Hr.
  rewrite <- E in Hd. remember (c' mod p) as r. nia.
Qed.

Section PrefixFree.
  Variable d : list N.
  Hypothesis Hwf : wf_depths d.
  Hypothesis Hk : kraft d <= 32768.

  Lemma codeword_small s : used d s -> rfc_code d s < 2 ^ N.of_nat (N.to_nat (nth s d 0)).
  Proof. intros Hu. rewrite N2Nat.id. apply code_small; assumption. Qed.

  (* if the code word of s is a prefix of that of t then s = t *)
  Lemma prefix_same s t : used d s -> used d t ->
    is_prefix (rfc_codeword d s) (rfc_codeword d t) = true -> s = t.
  Proof.
    intros Hs Ht Hp. destruct (Nat.eq_dec s t) as [|Hne]; [assumption|exfalso].
    unfold rfc_codeword in Hp.
    destruct (prefix_numeric _ _ _ _ (codeword_small s Hs) Hp) as [Hl Hc].
    pose proof (used_le15 d Hwf s Hs) as Hs15. pose proof (used_le15 d Hwf t Ht) as Ht15.
    set (ls := nth s d 0) in *. set (lt := nth t d 0) in *.
    assert (Hll : ls <= lt) by lia.
    rewrite Nat2N.inj_sub, !N2Nat.id in Hc.
    pose proof (code_small d Hwf t Ht Hk) as Hct. fold lt in Hct.
    assert (Hq : rfc_code d t / 2 ^ (lt - ls) < 2 ^ ls).
    { apply N.div_lt_upper_bound; [apply N.pow_nonzero; discriminate|].
      rewrite <- N.pow_add_r. replace (lt - ls + ls) with lt by lia. exact Hct. }
    rewrite N.mod_small in Hc by exact Hq.
    assert (Hw : wid d s = wid d t * 2 ^ (lt - ls)).
    { unfold wid. fold ls lt. rewrite <- N.pow_add_r. f_equal. lia. }
    assert (Hp2 : 2 ^ (lt - ls) <> 0) by (apply N.pow_nonzero; discriminate).
    destruct (contain (rfc_code d s) (rfc_code d t) (2 ^ (lt - ls)) (wid d t) Hp2 Hc) as [C1 C2].
    rewrite <- Hw in C1, C2.
    pose proof (wid_pos d t) as Hwt.
    destruct (disjoint d Hwf s t Hs Ht Hne) as [D|D]; nia.
  Qed.

  Theorem canonical_prefix_free : prefix_free d.
  Proof.
    intros s t Hs Ht Hne Hns Hnt.
    destruct (is_prefix (rfc_codeword d s) (rfc_codeword d t)) eqn:E; [|reflexivity].
    exfalso. apply Hne. apply prefix_same; [split; assumption|split; assumption|exact E].
  Qed.
End PrefixFree.

(* ------------------------------------------------------------------ the bit-serial decoder *)
Definition matches (d : list N) (l c : N) (s : nat) : Prop :=
  nth s d 0 <> 0 /\ nth s d 0 = l /\ rfc_code d s = c.

Lemma find_code_canon d l c : forall rest s0, rest = skipn s0 d ->
  match find_code (canon_from d rest s0) l c (N.of_nat s0) with
  | Some r => exists s, r = N.of_nat s /\ (s0 <= s < length d)%nat /\ matches d l c s /\
                        forall s', (s0 <= s' < s)%nat -> ~ matches d l c s'
  | None => forall s, (s0 <= s < length d)%nat -> ~ matches d l c s
  end.
Proof.
  induction rest as [|x rest IH]; intros s0 E.
  - cbn [canon_from find_code]. intros s Hs.
    assert (length (skipn s0 d) = 0%nat) by (rewrite <- E; reflexivity).
    rewrite skipn_length in H. lia.
  - assert (Hs0 : (s0 < length d)%nat).
    { destruct (Nat.lt_ge_cases s0 (length d)) as [H|H]; [exact H|].
      rewrite skipn_all2 in E by exact H. discriminate. }
    rewrite skipn_nth in E by exact Hs0. injection E as Ex Er.
    cbn [canon_from find_code].
    destruct (negb (x =? 0) && (x =? l) && ((if x =? 0 then 0 else rfc_code d s0) =? c)) eqn:Em.
    + apply andb_true_iff in Em. destruct Em as [Em Ec]. apply andb_true_iff in Em. destruct Em as [Enz El].
      apply negb_true_iff in Enz. rewrite Enz in Ec. apply N.eqb_neq in Enz. apply N.eqb_eq in El, Ec.
      exists s0. split; [reflexivity|]. split; [lia|]. split.
      * unfold matches. rewrite <- Ex. auto.
      * intros s' Hs'. lia.
    + specialize (IH (S s0) Er). rewrite Nat2N.inj_succ, <- N.add_1_r in IH.
      assert (Hno : ~ matches d l c s0).
      { intros [M1 [M2 M3]]. rewrite <- Ex in M1, M2.
        apply N.eqb_neq in M1. rewrite M1 in Em. cbn [negb andb] in Em.
        apply N.eqb_eq in M2. rewrite M2 in Em. cbn [andb] in Em. apply N.eqb_neq in Em. congruence. }
      destruct (find_code (canon_from d rest (S s0)) l c (N.of_nat s0 + 1)) as [r|].
      * destruct IH as [s [Hr [Hrange [Hm Hfirst]]]]. exists s.
        split; [exact Hr|]. split; [lia|]. split; [exact Hm|].
        intros s' Hs'. destruct (Nat.eq_dec s' s0) as [->|]; [exact Hno|apply Hfirst; lia].
      * intros s Hs. destruct (Nat.eq_dec s s0) as [->|]; [exact Hno|apply IH; lia].
Qed.

Lemma msb_first_succ m C : msb_first (S m) C = N.odd (C / 2 ^ N.of_nat m) :: msb_first m C.
Proof. change (S m) with (1 + m)%nat. rewrite msb_first_split. reflexivity. Qed.

Lemma half_step v : 2 * (v / 2) + b2n (N.odd v) = v.
Proof.
  assert (E : b2n (N.odd v) = v mod 2).
  { rewrite <- N.bit0_mod, N.bit0_odd. destruct (N.odd v); reflexivity. }
  rewrite E. symmetry. apply N.div_mod. discriminate.
Qed.

Lemma decode_aux_codeword tab t (L : nat) C r :
  (forall j, (1 <= j < L)%nat -> find_code tab (N.of_nat j) (C / 2 ^ N.of_nat (L - j)) 0 = None) ->
  find_code tab (N.of_nat L) C 0 = Some t ->
  forall m fuel, (1 <= m <= L)%nat -> (m <= fuel)%nat ->
    decode_aux tab fuel (N.of_nat (L - m)) (C / 2 ^ N.of_nat m) (msb_first m C ++ r) = Some (t, r).
Proof.
  intros Hnone Hsome. induction m as [|m IH]; intros fuel Hm Hf; [lia|].
  destruct fuel as [|fuel]; [lia|].
  rewrite msb_first_succ. cbn [app decode_aux].
  assert (Ec : 2 * (C / 2 ^ N.of_nat (S m)) + b2n (N.odd (C / 2 ^ N.of_nat m)) = C / 2 ^ N.of_nat m).
  { rewrite Nat2N.inj_succ, N.pow_succ_r', (N.mul_comm 2 (2 ^ N.of_nat m)).
    rewrite <- N.div_div by (try apply N.pow_nonzero; discriminate). apply half_step. }
  rewrite Ec.
  assert (El : N.of_nat (L - S m) + 1 = N.of_nat (L - m)) by lia. rewrite El.
  destruct m as [|m'].
  - change (2 ^ N.of_nat 0) with 1. rewrite N.div_1_r. rewrite Nat.sub_0_r, Hsome. reflexivity.
  - assert (Hn := Hnone (L - S m')%nat ltac:(lia)).
    replace (L - (L - S m'))%nat with (S m') in Hn by lia. rewrite Hn.
    apply IH; lia.
Qed.

Section Decode.
  Variable d : list N.
  Hypothesis Hwf : wf_depths d.
  Hypothesis Hk : kraft d <= 32768.

  Lemma matches_unique l c s t : (s < length d)%nat -> (t < length d)%nat ->
    matches d l c s -> matches d l c t -> s = t.
  Proof.
    intros Hs Ht [S1 [S2 S3]] [T1 [T2 T3]].
    apply (prefix_same d Hwf Hk); [split; assumption|split; assumption|].
    unfold rfc_codeword. rewrite S2, S3, T2, T3.
    rewrite <- (app_nil_r (msb_first (N.to_nat l) c)) at 2. apply is_prefix_refl_app.
  Qed.

  Theorem canonical_decode_encode s r : used d s ->
    rfc_decode_symbol d (rfc_codeword d s ++ r) = Some (N.of_nat s, r).
  Proof.
    intros Hu. pose proof Hu as [Hs Hnz].
    pose proof (used_le15 d Hwf s Hu) as H15.
    unfold rfc_decode_symbol, rfc_codeword.
    set (L := N.to_nat (nth s d 0)). set (C := rfc_code d s). set (tab := rfc_canonical d).
    assert (HC : C < 2 ^ N.of_nat L) by (apply codeword_small; assumption).
    assert (HL : (1 <= L <= 15)%nat) by (unfold L; lia).
    assert (E0 : C / 2 ^ N.of_nat L = 0) by (apply N.div_small; exact HC).
    enough (G : decode_aux tab 15 (N.of_nat (L - L)) (C / 2 ^ N.of_nat L) (msb_first L C ++ r) = Some (N.of_nat s, r))
      by (rewrite Nat.sub_diag, E0 in G; exact G).
    apply decode_aux_codeword; try lia.
    - (* no shorter code word is a prefix *)
      intros j Hj.
      pose proof (find_code_canon d (N.of_nat j) (C / 2 ^ N.of_nat (L - j)) d 0%nat eq_refl) as F.
      change (N.of_nat 0) with 0 in F. fold (rfc_canonical d) in F. fold tab in F.
      destruct (find_code tab (N.of_nat j) (C / 2 ^ N.of_nat (L - j)) 0) as [r0|]; [exfalso|reflexivity].
      destruct F as [u [_ [Hur [[M1 [M2 M3]] _]]]].
      assert (Hpre : is_prefix (rfc_codeword d u) (rfc_codeword d s) = true).
      { unfold rfc_codeword. rewrite M2, M3, Nat2N.id. fold L C.
        replace L with (j + (L - j))%nat at 2 by lia. rewrite msb_first_split. apply is_prefix_refl_app. }
      assert (u = s) by (apply (prefix_same d Hwf Hk); [split; [lia|exact M1]|exact Hu|exact Hpre]).
      subst u. unfold L in Hj. rewrite M2 in Hj. lia.
    - (* the full code word finds s *)
      pose proof (find_code_canon d (N.of_nat L) C d 0%nat eq_refl) as F.
      change (N.of_nat 0) with 0 in F. fold (rfc_canonical d) in F. fold tab in F.
      assert (Ms : matches d (N.of_nat L) C s) by (unfold matches, L, C; rewrite N2Nat.id; auto).
      destruct (find_code tab (N.of_nat L) C 0) as [r0|].
      + destruct F as [u [Hr0 [Hur [Mu _]]]]. subst r0. f_equal. f_equal.
        apply (matches_unique (N.of_nat L) C); [lia|exact Hs|exact Mu|exact Ms].
      + exfalso. apply (F s); [lia|exact Ms].
  Qed.
End Decode.

Lemma N_to_bits_of_bits (x : bits) : N_to_bits (length x) (bits_to_N x) = x.
Proof.
  induction x as [|b x IH]; [reflexivity|]. cbn [length N_to_bits bits_to_N].
  assert (Ho : N.odd (b2n b + 2 * bits_to_N x) = b).
  { rewrite N.odd_add_mul_2. destruct b; reflexivity. }
  assert (Hd : N.div2 (b2n b + 2 * bits_to_N x) = bits_to_N x).
  { rewrite N.div2_div. destruct b; cbn [b2n].
    - rewrite N.add_comm, N.mul_comm, N.div_add_l by discriminate. rewrite N.add_0_r. reflexivity.
    - rewrite N.add_0_l, N.mul_comm, N.div_mul by discriminate. reflexivity. }
  rewrite Ho, Hd, IH. reflexivity.
Qed.
