(* C18: the command record's copy-length-code packing and the value StoreCommandExtra hands
   to the bit writer. *)
From Coq Require Import NArith ZArith List Lia Bool.
From V Require Import lib.Words lib.Finite gen.GenArith spec.RfcTables model.Arith proofs.Bitops
  proofs.Arith_proofs proofs.Dist_proofs.
Import ListNotations.
Open Scope N_scope.

(* 7-bit sign extension used by Command::copy_len_code, on its whole domain *)
Definition sext_ok (m : N) : bool :=
  w8 (N.lor m (N.shiftl (N.land m 64) 1)) =? (if m <? 64 then m else m + 128).
Lemma sext_all : all_below sext_ok 128 = true.
Proof. vm_compute. reflexivity. Qed.

(* what survives of an 8-bit delta after `<< 25` in a u32 *)
Definition shl25_ok (d : N) : bool := wshl32 d 25 =? (d mod 128) * 2 ^ 25.
Lemma shl25_all : all_below shl25_ok 256 = true.
Proof. vm_compute. reflexivity. Qed.

Ltac Zify.zify_post_hook ::= Z.to_euclidean_division_equations.

Lemma copy_len_field copylen d : copylen < 2 ^ 25 -> d < 256 ->
  let f := N.lor (w32 copylen) (wshl32 d 25) in
  f = copylen + (d mod 128) * 2 ^ 25 /\ N.land f 33554431 = copylen /\ N.shiftr f 25 = d mod 128.
Proof.
  intros Hc Hd f. subst f.
  assert (E1 : wshl32 d 25 = (d mod 128) * 2 ^ 25).
  { pose proof (all_below_spec _ _ shl25_all d Hd) as E. unfold shl25_ok in E. apply N.eqb_eq in E. exact E. }
  rewrite E1. rewrite (w32_small copylen) by (eapply N.lt_trans; [exact Hc|reflexivity]).
  replace ((d mod 128) * 2 ^ 25) with (N.shiftl (d mod 128) 25) by (rewrite N.shiftl_mul_pow2; reflexivity).
  rewrite (lor_small_shiftl (d mod 128) 25 copylen Hc).
  change 33554431 with (2 ^ 25 - 1). rewrite land_ones_mod. rewrite N.shiftr_div_pow2.
  rewrite ?N.shiftl_mul_pow2. change (2 ^ 25) with 33554432 in *. repeat split; lia.
Qed.

Theorem copy_len_code_roundtrip nd np ins copylen code dc :
  copylen < 2 ^ 25 -> code < 2 ^ 25 -> copylen <= code + 64 -> code <= copylen + 63 ->
  let c := command_new nd np ins copylen code dc in
  cmd_copy_len c = copylen /\ cmd_copy_len_code c = code.
Proof.
  intros Hc Hk Hlo Hhi c. subst c. unfold cmd_copy_len, cmd_copy_len_code, command_new.
  cbn [copy_len_]. unfold cmd_copy_len. cbn [copy_len_].
  remember (w8 (code + 2 ^ 32 - w32 copylen)) as d eqn:Ed.
  assert (Hd : d < 256) by (subst d; unfold w8; apply N.mod_lt; discriminate).
  destruct (copy_len_field copylen d Hc Hd) as [F1 [F2 F3]].
  rewrite F2, F3. split; [reflexivity|].
  assert (Hm : d mod 128 < 128) by (apply N.mod_lt; discriminate).
  pose proof (all_below_spec _ _ sext_all (d mod 128) Hm) as S. unfold sext_ok in S. apply N.eqb_eq in S.
  rewrite S.
  assert (Hw : w32 copylen = copylen) by (apply w32_small; change (2 ^ 25) with 33554432 in Hc; lia).
  rewrite Hw in Ed. unfold w8 in Ed. unfold w32.
  change (2 ^ 25) with 33554432 in *. change (2 ^ 32) with 4294967296 in *. change (2 ^ 8) with 256 in *.
  remember (d mod 128) as m eqn:Em.
  destruct (N.ltb_spec m 64) as [Hm64|Hm64].
  - destruct (N.ltb_spec m 128); [|lia].
    assert (code = copylen + m) by lia. subst code. apply N.mod_small. lia.
  - destruct (N.ltb_spec (m + 128) 128); [lia|].
    assert (Hneg : code + 256 = copylen + (m + 128)) by lia.
    replace (copylen + (4294967296 - 256 + (m + 128))) with (code + 1 * 4294967296) by lia.
    rewrite N.mod_add by discriminate. apply N.mod_small. lia.
Qed.
Ltac Zify.zify_post_hook ::= idtac.

(* StoreCommandExtra: number of bits and value, in terms of the RFC tables *)
Theorem store_command_extra_correct (c : command) :
  insert_len_ c < 22594 + 2 ^ 24 ->
  2 <= cmd_copy_len_code c -> cmd_copy_len_code c < 2118 + 2 ^ 24 ->
  let ic := get_insert_length_code (insert_len_ c) in
  let cc := get_copy_length_code (cmd_copy_len_code c) in
  let iv := insert_len_ c - rfc_ins_base ic in
  let cv := cmd_copy_len_code c - rfc_copy_base cc in
  iv < 2 ^ rfc_ins_extra ic /\ cv < 2 ^ rfc_copy_extra cc /\
  store_command_extra c = (rfc_ins_extra ic + rfc_copy_extra cc, cv * 2 ^ rfc_ins_extra ic + iv).
Proof.
  intros Hi Hc2 Hc ic cc iv cv.
  destruct (insert_code_correct (insert_len_ c) Hi) as [I1 [I2 [I3 [I4 I5]]]]. fold ic in I1, I2, I3, I4, I5.
  destruct (copy_code_correct (cmd_copy_len_code c) Hc2 Hc) as [C1 [C2 [C3 [C4 C5]]]]. fold cc in C1, C2, C3, C4, C5.
  assert (Hiv : iv < 2 ^ rfc_ins_extra ic) by (subst iv; lia).
  assert (Hcv : cv < 2 ^ rfc_copy_extra cc) by (subst cv; lia).
  split; [exact Hiv|]. split; [exact Hcv|].
  unfold store_command_extra. fold ic. fold cc. rewrite I4, I5, C4, C5.
  (* the extra-bit counts are at most 24 each *)
  assert (Hie : rfc_ins_extra ic <= 24).
  { assert (forallb (fun k => rfc_ins_extra k <=? 24) (range_nat 0 24) = true) as A by (vm_compute; reflexivity).
    rewrite forallb_forall in A. apply N.leb_le. apply A. apply range_nat_In; [lia|cbn; lia]. }
  assert (Hce : rfc_copy_extra cc <= 24).
  { assert (forallb (fun k => rfc_copy_extra k <=? 24) (range_nat 0 24) = true) as A by (vm_compute; reflexivity).
    rewrite forallb_forall in A. apply N.leb_le. apply A. apply range_nat_In; [lia|cbn; lia]. }
  assert (P24 : forall e, e <= 24 -> 2 ^ e <= 2 ^ 24) by (intros e He; apply N.pow_le_mono_r; lia).
  pose proof (P24 _ Hie) as Pie. pose proof (P24 _ Hce) as Pce. change (2 ^ 24) with 16777216 in *.
  rewrite (wsub32_small (insert_len_ c) (rfc_ins_base ic)) by (change (2 ^ 32) with 4294967296; lia).
  rewrite (wsub32_small (cmd_copy_len_code c) (rfc_copy_base cc)) by (change (2 ^ 32) with 4294967296; lia).
  fold iv. fold cv.
  rewrite (wadd32_small (rfc_ins_extra ic) (rfc_copy_extra cc)) by (change (2 ^ 32) with 4294967296; lia).
  unfold w8. rewrite N.mod_small by (change (2 ^ 8) with 256; lia).
  f_equal.
  assert (Hprod : cv * 2 ^ rfc_ins_extra ic < 2 ^ 64).
  { change (2 ^ 64) with (16777216 * 1099511627776). apply N.mul_lt_mono; lia. }
  unfold wshl64. rewrite N.shiftl_mul_pow2. rewrite w64_small by exact Hprod.
  rewrite <- N.shiftl_mul_pow2. rewrite (lor_shiftl_small cv (rfc_ins_extra ic) iv Hiv).
  rewrite N.shiftl_mul_pow2. reflexivity.
Qed.
