(* C17_store, complex form (RFC 7932 section 3.5): the reader applied to what BrotliStoreHuffmanTree
   emits returns the code lengths. *)
From Coq Require Import NArith ZArith List Lia Bool Arith Permutation.
From V Require Import lib.Words lib.Finite gen.GenHuffman spec.PrefixCode model.Huffman
  proofs.Canonical_proofs proofs.Huffman_proofs proofs.Rle_proofs proofs.Store_proofs proofs.Tree_proofs.
Import ListNotations.
Open Scope N_scope.

Lemma pinned_storage_tables :
  kStorageOrder = rfc_cl_order /\ kHuffmanBitLengthHuffmanCodeSymbols = [0; 7; 3; 2; 1; 15] /\
  kHuffmanBitLengthHuffmanCodeBitLengths = [2; 4; 3; 2; 2; 4] /\ cl_alphabet_size = 18 /\ cl_tree_limit = 5.
Proof. repeat split; vm_compute; reflexivity. Qed.

(* ------------------------------------------------------------------ the code length sequence reader, in general *)
Lemma kraft_app a b : kraft (a ++ b) = kraft a + kraft b.
Proof. induction a as [|x a IH]; [reflexivity|]. cbn [app]. rewrite !kraft_cons, IH. ring. Qed.

Lemma kraft_repeat v k : kraft (repeat v k) = N.of_nat k * (if v =? 0 then 0 else 2 ^ (15 - v)).
Proof.
  induction k as [|k IH]; [reflexivity|]. cbn [repeat]. rewrite kraft_cons, IH.
  rewrite Nat2N.inj_succ. destruct (v =? 0); lia.
Qed.

(* a reader state is good when its accounting agrees with the lengths it holds *)
Definition good (st : cl_state) : Prop :=
  cl_space st = kraft (cl_rev st) /\ cl_n st = N.of_nat (length (cl_rev st)) /\ cl_prev st <> 0.

Lemma good_init : good cl_init.
Proof. repeat split. discriminate. Qed.

Lemma push_n_length k v l : length (push_n k v l) = (k + length l)%nat.
Proof. rewrite push_n_repeat, app_length, repeat_length. reflexivity. Qed.

(* one step: at least one more length, earlier lengths unchanged, goodness preserved *)
Lemma cl_step_good asz st sym extra st' : good st -> cl_step asz st sym extra = Some st' ->
  good st' /\ exists added, added <> [] /\ cl_rev st' = added ++ cl_rev st.
Proof.
  intros [G1 [G2 G3]] H. unfold cl_step in H.
  destruct (sym <? 16).
  - destruct (cl_n st <? asz); [|discriminate]. inversion H; subst st'; clear H. unfold good. cbn [cl_rev cl_n cl_prev cl_space].
    split.
    + repeat split.
      * rewrite kraft_cons, G1. destruct (sym =? 0); [reflexivity|]. apply N.add_comm.
      * cbn [length]. rewrite G2. lia.
      * destruct (N.eqb_spec sym 0); assumption.
    + exists [sym]. split; [discriminate|reflexivity].
  - destruct (sym =? 16).
    + destruct (4 <=? extra); [discriminate|].
      set (old := match cl_rep st with Some (16, c) => c | _ => 0 end) in *.
      set (new := (if old =? 0 then 0 else 4 * (old - 2)) + 3 + extra) in *.
      destruct (asz <? cl_n st + (new - old)); [discriminate|]. inversion H; subst st'; clear H.
      unfold good. cbn [cl_rev cl_n cl_prev cl_space].
      assert (Hd : 1 <= new - old) by (unfold new; destruct (N.eqb_spec old 0); lia).
      split.
      * repeat split.
        -- rewrite push_n_repeat, kraft_app, kraft_repeat, G1, N2Nat.id.
           destruct (N.eqb_spec (cl_prev st) 0); [contradiction|]. apply N.add_comm.
        -- rewrite push_n_length, G2. lia.
        -- exact G3.
      * exists (repeat (cl_prev st) (N.to_nat (new - old))). split; [|apply push_n_repeat].
        destruct (N.to_nat (new - old)) eqn:E; [lia|discriminate].
    + destruct (sym =? 17); [|discriminate].
      destruct (8 <=? extra); [discriminate|].
      set (old := match cl_rep st with Some (17, c) => c | _ => 0 end) in *.
      set (new := (if old =? 0 then 0 else 8 * (old - 2)) + 3 + extra) in *.
      destruct (asz <? cl_n st + (new - old)); [discriminate|]. inversion H; subst st'; clear H.
      unfold good. cbn [cl_rev cl_n cl_prev cl_space].
      assert (Hd : 1 <= new - old) by (unfold new; destruct (N.eqb_spec old 0); lia).
      split.
      * repeat split.
        -- rewrite push_n_repeat, kraft_app, kraft_repeat, G1. cbn [N.eqb]. lia.
        -- rewrite push_n_length, G2. lia.
        -- exact G3.
      * exists (repeat 0 (N.to_nat (new - old))). split; [|apply push_n_repeat].
        destruct (N.to_nat (new - old)) eqn:E; [lia|discriminate].
Qed.

Lemma cl_run_good asz : forall syms st st', good st -> cl_run asz st syms = Some st' ->
  good st' /\ exists added, cl_rev st' = added ++ cl_rev st /\ (syms <> [] -> added <> []).
Proof.
  induction syms as [|[s e] syms IH]; intros st st' G H.
  - inversion H; subst. split; [exact G|]. exists []. split; [reflexivity|congruence].
  - cbn [cl_run] in H. destruct (cl_step asz st s e) as [st1|] eqn:E; [|discriminate].
    destruct (cl_step_good _ _ _ _ _ G E) as [G1 [a1 [Ha1 Hr1]]].
    destruct (IH st1 st' G1 H) as [G' [a2 [Hr2 _]]].
    split; [exact G'|]. exists (a2 ++ a1). split; [rewrite Hr2, Hr1, app_assoc; reflexivity|].
    intros _ Hc. apply app_eq_nil in Hc. destruct Hc as [_ Hc]. contradiction.
Qed.

(* ------------------------------------------------------------------ the code length code lengths *)
Definition cl_len_bits (l : N) : bits :=
  N_to_bits (N.to_nat (nthN kHuffmanBitLengthHuffmanCodeBitLengths l)) (nthN kHuffmanBitLengthHuffmanCodeSymbols l).

Lemma read_cl_len_written l r : l <= 5 -> read_cl_len (cl_len_bits l ++ r) = Some (l, r).
Proof.
  intros H. assert (E : l = 0 \/ l = 1 \/ l = 2 \/ l = 3 \/ l = 4 \/ l = 5) by lia.
  destruct E as [->|[->|[->|[->|[->| ->]]]]]; reflexivity.
Qed.

Definition w32u (v : N) : N := if v =? 0 then 0 else N.shiftr 32 v.
Definition wsum32 (cl : list N) (order : list N) : N :=
  fold_right (fun o acc => w32u (nth (N.to_nat o) cl 0) + acc) 0 order.
Definition enc_order (cl : list N) (order : list N) : bits :=
  flat_map (fun o => cl_len_bits (nth (N.to_nat o) cl 0)) order.
Definition nzcount (cl : list N) (order : list N) : N :=
  fold_right (fun o acc => (if nth (N.to_nat o) cl 0 =? 0 then 0 else 1) + acc) 0 order.
(* the accumulator after reading the lengths of `order` *)
Fixpoint fill (cl : list N) (order : list N) (acc : list N) : list N :=
  match order with
  | [] => acc
  | o :: t => let v := nth (N.to_nat o) cl 0 in fill cl t (if v =? 0 then acc else set_nth acc (N.to_nat o) v)
  end.

Lemma w32u_pos v : 1 <= v <= 5 -> 1 <= w32u v.
Proof.
  intros H. unfold w32u. destruct (N.eqb_spec v 0); [lia|].
  assert (E : v = 1 \/ v = 2 \/ v = 3 \/ v = 4 \/ v = 5) by lia.
  destruct E as [->|[->|[->|[->| ->]]]]; cbn; lia.
Qed.

(* space stays positive before every length that is read *)
Fixpoint ok_space (cl : list N) (order : list N) (space : N) : Prop :=
  match order with
  | [] => True
  | o :: t => space <> 0 /\ w32u (nth (N.to_nat o) cl 0) <= space /\ ok_space cl t (space - w32u (nth (N.to_nat o) cl 0))
  end.

Lemma wsum32_in cl order x : In x order -> w32u (nth (N.to_nat x) cl 0) <= wsum32 cl order.
Proof.
  induction order as [|o t IH]; intros H; [destruct H|]. cbn [wsum32 fold_right]. fold (wsum32 cl t).
  destruct H as [->|H]; [lia|]. apply IH in H. lia.
Qed.

Lemma last_in (l : list N) : l <> [] -> In (last l 0) l.
Proof.
  induction l as [|a l IH]; intros H; [contradiction|]. destruct l as [|b l]; [left; reflexivity|].
  right. apply IH. discriminate.
Qed.

Lemma ok_space_intro cl : (forall o, nth o cl 0 <= 5) -> forall order space,
  wsum32 cl order <= space ->
  (wsum32 cl order < space \/ nth (N.to_nat (last order 0)) cl 0 <> 0) ->
  ok_space cl order space.
Proof.
  intros Hcl. induction order as [|o t IH]; intros space Hle Hpos; [exact I|].
  cbn [ok_space]. cbn [wsum32 fold_right] in *. fold (wsum32 cl t) in *.
  set (v := nth (N.to_nat o) cl 0) in *.
  assert (Hsp : space <> 0).
  { destruct Hpos as [Hlt|Hlast]; [lia|].
    assert (Hne : o :: t <> []) by discriminate.
    pose proof (wsum32_in cl (o :: t) (last (o :: t) 0) (last_in _ Hne)) as Hin.
    cbn [wsum32 fold_right] in Hin. fold (wsum32 cl t) in Hin. fold v in Hin.
    pose proof (w32u_pos (nth (N.to_nat (last (o :: t) 0)) cl 0)) as Hp.
    specialize (Hcl (N.to_nat (last (o :: t) 0))). lia. }
  split; [exact Hsp|]. split; [lia|].
  destruct t as [|o2 t]; [exact I|]. apply IH; [lia|].
  destruct Hpos as [Hlt|Hlast]; [left; lia|right; exact Hlast].
Qed.

(* reading the lengths of `order` (followed by `tail`, not written) while space lasts *)
Lemma read_clcl_enc cl : (forall o, nth o cl 0 <= 5) ->
  forall order tail space nz acc rest,
  ok_space cl order space ->
  read_clcl (order ++ tail) space nz acc (enc_order cl order ++ rest) =
  read_clcl tail (space - wsum32 cl order) (nz + nzcount cl order) (fill cl order acc) rest.
Proof.
  intros Hcl. induction order as [|o order IH]; intros tail space nz acc rest Hok.
  - cbn [app wsum32 fold_right nzcount enc_order flat_map fill]. rewrite N.sub_0_r, N.add_0_r. reflexivity.
  - cbn [ok_space] in Hok. destruct Hok as [Hsp [Hw Hok]].
    cbn [app read_clcl enc_order flat_map wsum32 fold_right nzcount fill].
    fold (wsum32 cl order). fold (nzcount cl order). fold (enc_order cl order).
    set (v := nth (N.to_nat o) cl 0) in *.
    destruct (N.eqb_spec space 0); [contradiction|].
    rewrite <- app_assoc, read_cl_len_written by apply Hcl.
    unfold w32u in *. destruct (N.eqb_spec v 0) as [Ev|Ev].
    + rewrite IH by (rewrite N.sub_0_r in Hok; exact Hok). f_equal; lia.
    + destruct (N.ltb_spec space (N.shiftr 32 v)); [lia|].
      rewrite IH by exact Hok. f_equal; lia.
Qed.

(* ------------------------------------------------------------------ the code length symbol sequence *)
Definition extra_bits (s e : N) : bits :=
  if s =? 16 then N_to_bits 2 e else if s =? 17 then N_to_bits 3 e else [].

Lemma cl_step_literal_extra asz st s e e' : s < 16 -> cl_step asz st s e = cl_step asz st s e'.
Proof. intros H. unfold cl_step. apply N.ltb_lt in H. rewrite H. reflexivity. Qed.

Section SeqRead.
  Variable asz : N.
  Variable cl : list N.
  Variable single : option N.
  Variable enc_sym : N -> bits.
  Variable U : N -> Prop.
  Hypothesis Hsym : forall s r, U s -> read_cl_symbol cl single (enc_sym s ++ r) = Some (s, r).

  Definition enc_seq (t : list (N * N)) : bits :=
    flat_map (fun p => enc_sym (fst p) ++ extra_bits (fst p) (snd p)) t.

  Lemma seq_read : forall t st fuel rest st_f,
    (forall s e, In (s, e) t -> U s /\ (s = 16 -> e < 4) /\ (s = 17 -> e < 8)) ->
    cl_run asz st t = Some st_f ->
    (forall t1 t2 st1, t = t1 ++ t2 -> t2 <> [] -> cl_run asz st t1 = Some st1 ->
       cl_n st1 < asz /\ cl_space st1 < 32768) ->
    (length t < fuel)%nat ->
    read_cl_sequence fuel asz cl single st (enc_seq t ++ rest) =
    read_cl_sequence (fuel - length t) asz cl single st_f rest.
  Proof.
    induction t as [|[s e] t IH]; intros st fuel rest st_f Hin Hrun Hcond Hfuel.
    - cbn in Hrun. inversion Hrun. subst. cbn [enc_seq flat_map app length]. rewrite Nat.sub_0_r. reflexivity.
    - cbn [cl_run] in Hrun. destruct (cl_step asz st s e) as [st1|] eqn:Est; [|discriminate].
      destruct (Hcond [] ((s, e) :: t) st eq_refl ltac:(discriminate) eq_refl) as [C1 C2].
      destruct fuel as [|f]; [cbn in Hfuel; lia|].
      cbn [read_cl_sequence]. apply N.ltb_lt in C1, C2. rewrite C1, C2. cbn [andb].
      destruct (Hin s e ltac:(left; reflexivity)) as [HU [H16 H17]].
      cbn [enc_seq flat_map fst snd]. fold (enc_seq t). rewrite <- !app_assoc, (Hsym _ _ HU).
      assert (Hstep : forall e', (s = 16 \/ s = 17 -> e' = e) -> cl_step asz st s e' = Some st1).
      { intros e' He'. destruct (N.eq_dec s 16) as [E16|N16]; [rewrite He' by auto; exact Est|].
        destruct (N.eq_dec s 17) as [E17|N17]; [rewrite He' by auto; exact Est|].
        destruct (N.lt_ge_cases s 16) as [Hlt|Hge]; [rewrite (cl_step_literal_extra asz st s e' e Hlt); exact Est|].
        exfalso. unfold cl_step in Est. destruct (N.ltb_spec s 16); [lia|].
        destruct (N.eqb_spec s 16); [contradiction|]. destruct (N.eqb_spec s 17); [contradiction|discriminate]. }
      assert (Hrest : read_cl_sequence f asz cl single st1 (enc_seq t ++ rest) =
                      read_cl_sequence (S f - length ((s, e) :: t)) asz cl single st_f rest).
      { cbn [length]. replace (S f - S (length t))%nat with (f - length t)%nat by lia.
        apply IH; [intros s' e' H'; apply Hin; right; exact H'|exact Hrun| |cbn [length] in Hfuel; lia].
        intros t1 t2 st2 Ht Hne Hr. apply (Hcond ((s, e) :: t1) t2 st2); [rewrite Ht; reflexivity|exact Hne|].
        cbn [cl_run]. rewrite Est. exact Hr. }
      unfold extra_bits. destruct (N.eqb_spec s 16) as [E16|N16].
      + rewrite read_bits_written by (cbn; apply H16; exact E16). rewrite (Hstep e) by auto. exact Hrest.
      + destruct (N.eqb_spec s 17) as [E17|N17].
        * rewrite read_bits_written by (cbn; apply H17; exact E17). rewrite (Hstep e) by auto. exact Hrest.
        * cbn [app read_bits take_bits bits_to_N]. rewrite (Hstep 0) by (intros [?|?]; contradiction). exact Hrest.
  Qed.
End SeqRead.
