(* C17_store, complex form (RFC 7932 section 3.5): the reader applied to what BrotliStoreHuffmanTree
   emits returns the code lengths. *)
From Coq Require Import NArith ZArith List Lia Bool Arith Permutation.
From V Require Import lib.Words lib.Finite gen.GenHuffman spec.PrefixCode model.Huffman
  proofs.Canonical_proofs proofs.Huffman_proofs proofs.Rle_proofs proofs.Store_proofs proofs.Tree_proofs.
Import ListNotations.
Open Scope N_scope.

Lemma pinned_storage_tables :
  kStorageOrder = rfc_cl_order /\ kHuffmanBitLengthHuffmanCodeSymbols = [0; 7; 3; 2; 1; 15] /\
  kHuffmanBitLengthHuffmanCodeBitLengths = [2; 4; 3; 2; 2; 4] /\ cl_alphabet_size = 18 /\ cl_tree_limit = 5.
Proof. repeat split; vm_compute; reflexivity. Qed.

(* ------------------------------------------------------------------ the code length sequence reader, in general *)
Lemma kraft_app a b : kraft (a ++ b) = kraft a + kraft b.
Proof. induction a as [|x a IH]; [reflexivity|]. cbn [app]. rewrite !kraft_cons, IH. ring. Qed.

Lemma kraft_repeat v k : kraft (repeat v k) = N.of_nat k * (if v =? 0 then 0 else 2 ^ (15 - v)).
Proof.
  induction k as [|k IH]; [reflexivity|]. cbn [repeat]. rewrite kraft_cons, IH.
  rewrite Nat2N.inj_succ. destruct (v =? 0); lia.
Qed.

(* a reader state is good when its accounting agrees with the lengths it holds *)
Definition good (st : cl_state) : Prop :=
  cl_space st = kraft (cl_rev st) /\ cl_n st = N.of_nat (length (cl_rev st)) /\ cl_prev st <> 0.

Lemma good_init : good cl_init.
Proof. repeat split. discriminate. Qed.

Lemma push_n_length k v l : length (push_n k v l) = (k + length l)%nat.
Proof. rewrite push_n_repeat, app_length, repeat_length. reflexivity. Qed.

(* one step: at least one more length, earlier lengths unchanged, goodness preserved *)
Lemma cl_step_good asz st sym extra st' : good st -> cl_step asz st sym extra = Some st' ->
  good st' /\ exists added, added <> [] /\ cl_rev st' = added ++ cl_rev st.
Proof.
  intros [G1 [G2 G3]] H. unfold cl_step in H.
  destruct (sym <? 16).
  - destruct (cl_n st <? asz); [|discriminate]. inversion H; subst st'; clear H. unfold good. cbn [cl_rev cl_n cl_prev cl_space].
    split.
    + repeat split.
      * rewrite kraft_cons, G1. destruct (sym =? 0); [reflexivity|]. apply N.add_comm.
      * cbn [length]. rewrite G2. lia.
      * destruct (N.eqb_spec sym 0); assumption.
    + exists [sym]. split; [discriminate|reflexivity].
  - destruct (sym =? 16).
    + destruct (4 <=? extra); [discriminate|].
      set (old := match cl_rep st with Some (16, c) => c | _ => 0 end) in *.
      set (new := (if old =? 0 then 0 else 4 * (old - 2)) + 3 + extra) in *.
      destruct (asz <? cl_n st + (new - old)); [discriminate|]. inversion H; subst st'; clear H.
      unfold good. cbn [cl_rev cl_n cl_prev cl_space].
      assert (Hd : 1 <= new - old) by (unfold new; destruct (N.eqb_spec old 0); lia).
      split.
      * repeat split.
        -- rewrite push_n_repeat, kraft_app, kraft_repeat, G1, N2Nat.id.
           destruct (N.eqb_spec (cl_prev st) 0); [contradiction|]. apply N.add_comm.
        -- rewrite push_n_length, G2. lia.
        -- exact G3.
      * exists (repeat (cl_prev st) (N.to_nat (new - old))). split; [|apply push_n_repeat].
        destruct (N.to_nat (new - old)) eqn:E; [lia|discriminate].
    + destruct (sym =? 17); [|discriminate].
      destruct (8 <=? extra); [discriminate|].
      set (old := match cl_rep st with Some (17, c) => c | _ => 0 end) in *.
      set (new := (if old =? 0 then 0 else 8 * (old - 2)) + 3 + extra) in *.
      destruct (asz <? cl_n st + (new - old)); [discriminate|]. inversion H; subst st'; clear H.
      unfold good. cbn [cl_rev cl_n cl_prev cl_space].
      assert (Hd : 1 <= new - old) by (unfold new; destruct (N.eqb_spec old 0); lia).
      split.
      * repeat split.
        -- rewrite push_n_repeat, kraft_app, kraft_repeat, G1. cbn [N.eqb]. lia.
        -- rewrite push_n_length, G2. lia.
        -- exact G3.
      * exists (repeat 0 (N.to_nat (new - old))). split; [|apply push_n_repeat].
        destruct (N.to_nat (new - old)) eqn:E; [lia|discriminate].
Qed.

Lemma cl_run_good asz : forall syms st st', good st -> cl_run asz st syms = Some st' ->
  good st' /\ exists added, cl_rev st' = added ++ cl_rev st /\ (syms <> [] -> added <> []).
Proof.
  induction syms as [|[s e] syms IH]; intros st st' G H.
  - inversion H; subst. split; [exact G|]. exists []. split; [reflexivity|congruence].
  - cbn [cl_run] in H. destruct (cl_step asz st s e) as [st1|] eqn:E; [|discriminate].
    destruct (cl_step_good _ _ _ _ _ G E) as [G1 [a1 [Ha1 Hr1]]].
    destruct (IH st1 st' G1 H) as [G' [a2 [Hr2 _]]].
    split; [exact G'|]. exists (a2 ++ a1). split; [rewrite Hr2, Hr1, app_assoc; reflexivity|].
    intros _ Hc. apply app_eq_nil in Hc. destruct Hc as [_ Hc]. contradiction.
Qed.

(* ------------------------------------------------------------------ the code length code lengths *)
Definition cl_len_bits (l : N) : bits :=
  N_to_bits (N.to_nat (nthN kHuffmanBitLengthHuffmanCodeBitLengths l)) (nthN kHuffmanBitLengthHuffmanCodeSymbols l).

Lemma read_cl_len_written l r : l <= 5 -> read_cl_len (cl_len_bits l ++ r) = Some (l, r).
Proof.
  intros H. assert (E : l = 0 \/ l = 1 \/ l = 2 \/ l = 3 \/ l = 4 \/ l = 5) by lia.
  destruct E as [->|[->|[->|[->|[->| ->]]]]]; reflexivity.
Qed.

Definition w32u (v : N) : N := if v =? 0 then 0 else N.shiftr 32 v.
Definition wsum32 (cl : list N) (order : list N) : N :=
  fold_right (fun o acc => w32u (nth (N.to_nat o) cl 0) + acc) 0 order.
Definition enc_order (cl : list N) (order : list N) : bits :=
  flat_map (fun o => cl_len_bits (nth (N.to_nat o) cl 0)) order.
Definition nzcount (cl : list N) (order : list N) : N :=
  fold_right (fun o acc => (if nth (N.to_nat o) cl 0 =? 0 then 0 else 1) + acc) 0 order.
(* the accumulator after reading the lengths of `order` *)
Fixpoint fill (cl : list N) (order : list N) (acc : list N) : list N :=
  match order with
  | [] => acc
  | o :: t => let v := nth (N.to_nat o) cl 0 in fill cl t (if v =? 0 then acc else set_nth acc (N.to_nat o) v)
  end.

Lemma w32u_pos v : 1 <= v <= 5 -> 1 <= w32u v.
Proof.
  intros H. unfold w32u. destruct (N.eqb_spec v 0); [lia|].
  assert (E : v = 1 \/ v = 2 \/ v = 3 \/ v = 4 \/ v = 5) by lia.
  destruct E as [->|[->|[->|[->| ->]]]]; cbn; lia.
Qed.

(* space stays positive before every length that is read *)
Fixpoint ok_space (cl : list N) (order : list N) (space : N) : Prop :=
  match order with
  | [] => True
  | o :: t => space <> 0 /\ w32u (nth (N.to_nat o) cl 0) <= space /\ ok_space cl t (space - w32u (nth (N.to_nat o) cl 0))
  end.

Lemma wsum32_in cl order x : In x order -> w32u (nth (N.to_nat x) cl 0) <= wsum32 cl order.
Proof.
  induction order as [|o t IH]; intros H; [destruct H|]. cbn [wsum32 fold_right]. fold (wsum32 cl t).
  destruct H as [->|H]; [lia|]. apply IH in H. lia.
Qed.

Lemma last_in (l : list N) : l <> [] -> In (last l 0) l.
Proof.
  induction l as [|a l IH]; intros H; [contradiction|]. destruct l as [|b l]; [left; reflexivity|].
  right. apply IH. discriminate.
Qed.

Lemma ok_space_intro cl : (forall o, nth o cl 0 <= 5) -> forall order space,
  wsum32 cl order <= space ->
  (wsum32 cl order < space \/ nth (N.to_nat (last order 0)) cl 0 <> 0) ->
  ok_space cl order space.
Proof.
  intros Hcl. induction order as [|o t IH]; intros space Hle Hpos; [exact I|].
  cbn [ok_space]. cbn [wsum32 fold_right] in *. fold (wsum32 cl t) in *.
  set (v := nth (N.to_nat o) cl 0) in *.
  assert (Hsp : space <> 0).
  { destruct Hpos as [Hlt|Hlast]; [lia|].
    assert (Hne : o :: t <> []) by discriminate.
    pose proof (wsum32_in cl (o :: t) (last (o :: t) 0) (last_in _ Hne)) as Hin.
    cbn [wsum32 fold_right] in Hin. fold (wsum32 cl t) in Hin. fold v in Hin.
    pose proof (w32u_pos (nth (N.to_nat (last (o :: t) 0)) cl 0)) as Hp.
    specialize (Hcl (N.to_nat (last (o :: t) 0))). lia. }
  split; [exact Hsp|]. split; [lia|].
  destruct t as [|o2 t]; [exact I|]. apply IH; [lia|].
  destruct Hpos as [Hlt|Hlast]; [left; lia|right; exact Hlast].
Qed.

(* reading the lengths of `order` (followed by `tail`, not written) while space lasts *)
Lemma read_clcl_enc cl : (forall o, nth o cl 0 <= 5) ->
  forall order tail space nz acc rest,
  ok_space cl order space ->
  read_clcl (order ++ tail) space nz acc (enc_order cl order ++ rest) =
  read_clcl tail (space - wsum32 cl order) (nz + nzcount cl order) (fill cl order acc) rest.
Proof.
  intros Hcl. induction order as [|o order IH]; intros tail space nz acc rest Hok.
  - cbn [app wsum32 fold_right nzcount enc_order flat_map fill]. rewrite N.sub_0_r, N.add_0_r. reflexivity.
  - cbn [ok_space] in Hok. destruct Hok as [Hsp [Hw Hok]].
    cbn [app read_clcl enc_order flat_map wsum32 fold_right nzcount fill].
    fold (wsum32 cl order). fold (nzcount cl order). fold (enc_order cl order).
    set (v := nth (N.to_nat o) cl 0) in *.
    destruct (N.eqb_spec space 0); [contradiction|].
    rewrite <- app_assoc, read_cl_len_written by apply Hcl.
    unfold w32u in *. destruct (N.eqb_spec v 0) as [Ev|Ev].
    + rewrite IH by (rewrite N.sub_0_r in Hok; exact Hok). f_equal; lia.
    + destruct (N.ltb_spec space (N.shiftr 32 v)); [lia|].
      rewrite IH by exact Hok. f_equal; lia.
Qed.

(* ------------------------------------------------------------------ the code length symbol sequence *)
Definition extra_bits (s e : N) : bits :=
  if s =? 16 then N_to_bits 2 e else if s =? 17 then N_to_bits 3 e else [].

Lemma cl_step_literal_extra asz st s e e' : s < 16 -> cl_step asz st s e = cl_step asz st s e'.
Proof. intros H. unfold cl_step. apply N.ltb_lt in H. rewrite H. reflexivity. Qed.

Section SeqRead.
  Variable asz : N.
  Variable cl : list N.
  Variable single : option N.
  Variable enc_sym : N -> bits.
  Variable U : N -> Prop.
  Hypothesis Hsym : forall s r, U s -> read_cl_symbol cl single (enc_sym s ++ r) = Some (s, r).

  Definition enc_seq (t : list (N * N)) : bits :=
    flat_map (fun p => enc_sym (fst p) ++ extra_bits (fst p) (snd p)) t.

  Lemma seq_read : forall t st fuel rest st_f,
    (forall s e, In (s, e) t -> U s /\ (s = 16 -> e < 4) /\ (s = 17 -> e < 8)) ->
    cl_run asz st t = Some st_f ->
    (forall t1 t2 st1, t = t1 ++ t2 -> t2 <> [] -> cl_run asz st t1 = Some st1 ->
       cl_n st1 < asz /\ cl_space st1 < 32768) ->
    (length t < fuel)%nat ->
    read_cl_sequence fuel asz cl single st (enc_seq t ++ rest) =
    read_cl_sequence (fuel - length t) asz cl single st_f rest.
  Proof.
    induction t as [|[s e] t IH]; intros st fuel rest st_f Hin Hrun Hcond Hfuel.
    - cbn in Hrun. inversion Hrun. subst. cbn [enc_seq flat_map app length]. rewrite Nat.sub_0_r. reflexivity.
    - cbn [cl_run] in Hrun. destruct (cl_step asz st s e) as [st1|] eqn:Est; [|discriminate].
      destruct (Hcond [] ((s, e) :: t) st eq_refl ltac:(discriminate) eq_refl) as [C1 C2].
      destruct fuel as [|f]; [cbn in Hfuel; lia|].
      cbn [read_cl_sequence]. apply N.ltb_lt in C1, C2. rewrite C1, C2. cbn [andb].
      destruct (Hin s e ltac:(left; reflexivity)) as [HU [H16 H17]].
      cbn [enc_seq flat_map fst snd]. fold (enc_seq t). rewrite <- !app_assoc, (Hsym _ _ HU).
      assert (Hstep : forall e', (s = 16 \/ s = 17 -> e' = e) -> cl_step asz st s e' = Some st1).
      { intros e' He'. destruct (N.eq_dec s 16) as [E16|N16]; [rewrite He' by auto; exact Est|].
        destruct (N.eq_dec s 17) as [E17|N17]; [rewrite He' by auto; exact Est|].
        destruct (N.lt_ge_cases s 16) as [Hlt|Hge]; [rewrite (cl_step_literal_extra asz st s e' e Hlt); exact Est|].
        exfalso. unfold cl_step in Est. destruct (N.ltb_spec s 16); [lia|].
        destruct (N.eqb_spec s 16); [contradiction|]. destruct (N.eqb_spec s 17); [contradiction|discriminate]. }
      assert (Hrest : read_cl_sequence f asz cl single st1 (enc_seq t ++ rest) =
                      read_cl_sequence (S f - length ((s, e) :: t)) asz cl single st_f rest).
      { cbn [length]. replace (S f - S (length t))%nat with (f - length t)%nat by lia.
        apply IH; [intros s' e' H'; apply Hin; right; exact H'|exact Hrun| |cbn [length] in Hfuel; lia].
        intros t1 t2 st2 Ht Hne Hr. apply (Hcond ((s, e) :: t1) t2 st2); [rewrite Ht; reflexivity|exact Hne|].
        cbn [cl_run]. rewrite Est. exact Hr. }
      unfold extra_bits. destruct (N.eqb_spec s 16) as [E16|N16].
      + rewrite read_bits_written by (cbn; apply H16; exact E16). rewrite (Hstep e) by auto. exact Hrest.
      + destruct (N.eqb_spec s 17) as [E17|N17].
        * rewrite read_bits_written by (cbn; apply H17; exact E17). rewrite (Hstep e) by auto. exact Hrest.
        * cbn [app read_bits take_bits bits_to_N]. rewrite (Hstep 0) by (intros [?|?]; contradiction). exact Hrest.
  Qed.
End SeqRead.

(* ------------------------------------------------------------------ the histogram of code length symbols *)
Definition occ (l : list N) (s : N) : N := N.of_nat (count_occ N.eq_dec l s).

Lemma occ_snoc l x s : occ (l ++ [x]) s = occ l s + (if N.eq_dec x s then 1 else 0).
Proof.
  unfold occ. rewrite count_occ_app. cbn [count_occ]. destruct (N.eq_dec x s); lia.
Qed.

Lemma occ_le l s : occ l s <= N.of_nat (length l).
Proof. unfold occ. pose proof (count_occ_bound N.eq_dec s l). lia. Qed.

Lemma occ_pos l s : occ l s <> 0 <-> In s l.
Proof. unfold occ. rewrite (count_occ_In N.eq_dec). lia. Qed.

Lemma firstn_snoc_pair (t : list (N * N)) i d : (i < length t)%nat -> firstn (S i) t = firstn i t ++ [nth i t d].
Proof.
  revert i. induction t as [|x t IH]; intros i H; [cbn in H; lia|].
  destruct i as [|i]; [reflexivity|]. cbn [firstn nth app]. f_equal. apply IH. cbn in H. lia.
Qed.

Lemma hist_spec (t : list (N * N)) hist : N.of_nat (length t) < 2 ^ 32 ->
  for_in 0 (N.of_nat (length t)) (fun i hist =>
      '(s, _) <- getA t i ;; c <- getA hist s ;; setA hist s (wadd32 c 1)) (repeat 0 18) = Done hist ->
  length hist = 18%nat /\ (forall s, nth (N.to_nat s) hist 0 = occ (map fst t) s) /\
  (forall s, In s (map fst t) -> s < 18).
Proof.
  intros Hlen Hrun. unfold for_in in Hrun. rewrite N.sub_0_r, Nat2N.id in Hrun.
  set (P := fun (i : N) (h : list N) => length h = 18%nat /\
              (forall s, nth (N.to_nat s) h 0 = occ (map fst (firstn (N.to_nat i) t)) s) /\
              (forall s, In s (map fst (firstn (N.to_nat i) t)) -> s < 18)).
  assert (HP : P (0 + N.of_nat (length t)) hist).
  { match type of Hrun with for_range _ _ ?b _ = _ =>
      apply (for_range_inv_done P b (length t) 0 (repeat 0 18) hist); [| |exact Hrun] end.
    - split; [reflexivity|]. split; [|intros s Hs; destruct Hs].
      intros s. cbn [N.to_nat firstn map]. unfold occ. cbn [count_occ].
      destruct (Nat.lt_ge_cases (N.to_nat s) 18) as [Hlt|Hge]; [|apply nth_overflow; cbn; lia].
      apply nth_repeat.
    - intros j h h1 Hj1 Hj2 HPj Hbody. destruct HPj as [P1 [P2 P3]].
      inv_bind Hbody. destruct a as [s e]. apply (getA_done t j (s, e) (0, 0)) in E. destruct E as [Hjt Hse].
      inv_bind Hbody. rename a into c. apply (getA_done h s c 0) in E. destruct E as [Hs Hc].
      apply setA_done in Hbody. destruct Hbody as [_ ->]. unfold P.
      replace (N.to_nat (j + 1)) with (S (N.to_nat j)) by lia.
      rewrite (firstn_snoc_pair t _ (0, 0) Hjt), <- Hse, map_app. cbn [map fst].
      split; [rewrite upd_length; exact P1|]. split.
      + intros s'. rewrite occ_snoc. destruct (N.eq_dec s s') as [<-|Hne].
        * rewrite upd_nth_same by exact Hs. rewrite Hc, P2. unfold wadd32, w32. apply N.mod_small.
          pose proof (occ_le (map fst (firstn (N.to_nat j) t)) s) as Hle.
          rewrite map_length, firstn_length in Hle. lia.
        * rewrite upd_nth_other by lia. rewrite P2. lia.
      + intros s' Hs'. apply in_app_or in Hs'. destruct Hs' as [Hs'|[<-|[]]]; [apply P3; exact Hs'|lia]. }
  unfold P in HP. rewrite N.add_0_l, Nat2N.id, firstn_all in HP. exact HP.
Qed.

(* count_codes: 0, 1 or "at least 2" used code length symbols, and the first of them *)
Lemma count_codes_spec : forall hist i nc code,
  count_codes hist i 0 0 = (nc, code) ->
  (nc = 0 /\ nonzero_count hist = 0%nat) \/
  (nc = 1 /\ nonzero_count hist = 1%nat /\ i <= code /\ nth (N.to_nat (code - i)) hist 0 <> 0) \/
  (nc = 2 /\ (2 <= nonzero_count hist)%nat).
Proof.
  assert (Aux : forall hist i code0 nc code, count_codes hist i 1 code0 = (nc, code) ->
            (nc = 1 /\ code = code0 /\ nonzero_count hist = 0%nat) \/ (nc = 2 /\ (1 <= nonzero_count hist)%nat)).
  { induction hist as [|h hist IH]; intros i code0 nc code H.
    - cbn in H. inversion H. left. auto.
    - cbn [count_codes] in H. unfold nonzero_count. cbn [filter]. destruct (N.eqb_spec h 0); cbn [negb] in *.
      + apply IH in H. exact H.
      + change (1 =? 0) with false in H. change (1 =? 1) with true in H. cbv iota in H. inversion H.
        right. cbn [length]. split; [reflexivity|lia]. }
  induction hist as [|h hist IH]; intros i nc code H.
  - cbn in H. inversion H. left. auto.
  - cbn [count_codes] in H. unfold nonzero_count. cbn [filter]. destruct (N.eqb_spec h 0) as [Eh|Eh]; cbn [negb] in *.
    + apply IH in H. fold (nonzero_count hist). destruct H as [H|[[H1 [H2 [H3 H4]]]|H]]; [left; exact H| |right; right; exact H].
      right. left. split; [exact H1|]. split; [exact H2|]. split; [lia|].
      replace (N.to_nat (code - i)) with (S (N.to_nat (code - (i + 1)))) by lia. exact H4.
    + change (0 =? 0) with true in H. cbv iota in H. apply Aux in H. unfold nonzero_count in H. cbn [length].
      destruct H as [[H1 [H2 H3]]|[H1 H2]].
      * right. left. subst. split; [reflexivity|]. split; [lia|]. split; [lia|].
        rewrite N.sub_diag. exact Eh.
      * right. right. split; [exact H1|lia].
Qed.

(* ------------------------------------------------------------------ the code length code itself *)
Lemma clamped_bound counts cl M : (forall c, In c counts -> c <= M) ->
  clamped_total counts cl <= N.of_nat (length counts) * N.max M cl.
Proof.
  induction counts as [|c counts IH]; intros H; [cbn; lia|].
  cbn [clamped_total fold_right length]. fold (clamped_total counts cl).
  specialize (IH (fun x Hx => H x (or_intror Hx))). pose proof (H c (or_introl eq_refl)).
  rewrite Nat2N.inj_succ. destruct (c =? 0); lia.
Qed.

Lemma supp_single hist c : length hist = 18%nat -> nonzero_count hist = 1%nat -> (c < 18)%nat -> nth c hist 0 <> 0 ->
  supp hist 18 = [c].
Proof.
  intros Hl Hn Hc Hz.
  pose proof (supp_length hist 18 ltac:(lia)) as Hsl. rewrite firstn_all2, Hn in Hsl by lia.
  assert (Hin : In c (supp hist 18)) by (apply supp_spec; auto).
  destruct (supp hist 18) as [|x [|y l]]; cbn in Hsl; try lia. destruct Hin as [->|[]]. reflexivity.
Qed.

Lemma cl_tree_facts hist pool cl pool' rr nc code :
  length hist = 18%nat -> (forall s, nth s hist 0 <= 704) ->
  count_codes hist 0 0 0 = (nc, code) -> nc <> 0 ->
  create_huffman_tree hist cl_alphabet_size (Z.of_N cl_tree_limit) pool (repeat 0 18) = Done (cl, pool', rr) ->
  rr <= 27 ->
  length cl = 18%nat /\ (forall i, nth i cl 0 <= 5) /\
  (forall i, (i < 18)%nat -> (nth i cl 0 <> 0 <-> nth i hist 0 <> 0)) /\
  ((nc = 2 /\ kraft cl = 32768) \/
   (nc = 1 /\ code < 18 /\ cl = upd (repeat 0 18) (N.to_nat code) 1 /\ nth (N.to_nat code) hist 0 <> 0 /\
    forall i, (i < 18)%nat -> i <> N.to_nat code -> nth i hist 0 = 0)).
Proof.
  intros Hl Hb Hcc Hnc Hrun Hrr.
  change cl_alphabet_size with (N.of_nat 18) in Hrun. rewrite <- Hl in Hrun at 1.
  change (Z.of_N cl_tree_limit) with 5%Z in Hrun.
  destruct (count_codes_spec hist 0 nc code Hcc) as [[H0 _]|[[H1 [Hn1 [_ Hc1]]]|[H2 Hn2]]]; [contradiction| |].
  - (* a single used code length symbol *)
    rewrite N.sub_0_r in Hc1.
    assert (Hclt : (N.to_nat code < 18)%nat).
    { destruct (Nat.lt_ge_cases (N.to_nat code) 18) as [|Hge]; [assumption|]. rewrite nth_overflow in Hc1 by lia. contradiction. }
    pose proof (supp_single hist (N.to_nat code) Hl Hn1 Hclt Hc1) as Hs. rewrite <- Hl in Hs at 1.
    destruct (tree_one hist 5 pool (repeat 0 18) cl pool' rr (N.to_nat code) ltac:(rewrite Hl; cbn; lia) Hs Hrun) as [Ecl [_ _]].
    assert (Hothers : forall i, (i < 18)%nat -> i <> N.to_nat code -> nth i hist 0 = 0).
    { intros i Hi Hne. destruct (N.eq_dec (nth i hist 0) 0) as [|Hnz]; [assumption|]. exfalso.
      assert (Hin : In i (supp hist (length hist))) by (apply supp_spec; rewrite Hl; auto).
      rewrite Hs in Hin. destruct Hin as [<-|[]]. contradiction. }
    subst cl. split; [rewrite upd_length; reflexivity|]. split; [|split].
    + intros i. destruct (Nat.eq_dec i (N.to_nat code)) as [->|Hne].
      * rewrite upd_nth_same by (cbn; lia). lia.
      * rewrite upd_nth_other by lia.
        destruct (Nat.lt_ge_cases i 18); [rewrite nth_repeat; lia|rewrite nth_overflow by (cbn; lia); lia].
    + intros i Hi. destruct (Nat.eq_dec i (N.to_nat code)) as [->|Hne].
      * rewrite upd_nth_same by (cbn; lia). split; [intros _; exact Hc1|intros _; discriminate].
      * rewrite upd_nth_other by lia. rewrite nth_repeat, (Hothers i Hi Hne). tauto.
    + right. repeat split; auto. lia.
  - (* at least two *)
    assert (Hg : clamped_total hist (2 ^ rr) < 2 ^ 32 - 1).
    { eapply N.le_lt_trans; [apply (clamped_bound hist (2 ^ rr) 704)|].
      - intros c Hc. apply (In_nth _ _ 0) in Hc. destruct Hc as [k [_ <-]]. apply Hb.
      - rewrite Hl. assert (2 ^ rr <= 2 ^ 27) by (apply N.pow_le_mono_r; lia).
        change (2 ^ 27) with 134217728 in *. change (2 ^ 32) with 4294967296. cbn [N.of_nat Pos.of_succ_nat Pos.succ]. lia. }
    destruct (tree_partial hist 5 pool (repeat 0 18) cl pool' rr ltac:(rewrite Hl; cbn; lia) ltac:(lia) Hn2
                ltac:(rewrite Hl; reflexivity) ltac:(intros i _; destruct (Nat.lt_ge_cases i 18); [apply nth_repeat|apply nth_overflow; cbn; lia])
                Hrun ltac:(lia) Hg) as [T1 [T2 [T3 T4]]].
    split; [lia|]. split; [exact T3|]. split; [intros i Hi; apply T2; lia|]. left. auto.
Qed.

(* ------------------------------------------------------------------ writing the code length code lengths *)
Definition seg (a b : nat) : list N := firstn (b - a) (skipn a rfc_cl_order).
Definition ord (k : nat) : N := nth k rfc_cl_order 0.

Lemma nth_skipn_N (l : list N) a k : nth k (skipn a l) 0 = nth (a + k) l 0.
Proof.
  revert a. induction l as [|x l IH]; intros a; [destruct a, k; reflexivity|].
  destruct a as [|a]; [reflexivity|]. cbn [skipn plus nth]. apply IH.
Qed.

Lemma seg_snoc a i : (a <= i)%nat -> (i < 18)%nat -> seg a (S i) = seg a i ++ [ord i].
Proof.
  intros H1 H2. unfold seg, ord. replace (S i - a)%nat with (S (i - a)) by lia.
  rewrite (firstn_succ_snoc (skipn a rfc_cl_order) (i - a)) by (rewrite skipn_length; change (length rfc_cl_order) with 18%nat; lia).
  f_equal. f_equal. rewrite nth_skipn_N. f_equal. lia.
Qed.

Lemma skipn_skipn_N (l : list N) m n : skipn n (skipn m l) = skipn (m + n) l.
Proof.
  revert l. induction m as [|m IH]; intros l; [reflexivity|]. destruct l as [|x l]; [destruct n; reflexivity|].
  cbn [skipn plus]. apply IH.
Qed.

Lemma seg_split a b : (a <= b)%nat -> skipn a rfc_cl_order = seg a b ++ skipn b rfc_cl_order.
Proof.
  intros H. unfold seg. rewrite <- (firstn_skipn (b - a) (skipn a rfc_cl_order)) at 1. f_equal.
  rewrite skipn_skipn_N. f_equal. lia.
Qed.

Lemma get_order k : (k < 18)%nat -> getA kStorageOrder (N.of_nat k) = Done (ord k).
Proof.
  intros H. destruct pinned_storage_tables as [-> _]. rewrite (getA_ok rfc_cl_order _ 0) by (rewrite Nat2N.id; cbn; lia).
  rewrite Nat2N.id. reflexivity.
Qed.

Lemma ord_lt k : (k < 18)%nat -> ord k < 18.
Proof.
  intros H. assert (E : forallb (fun k => ord k <? 18) (seq 0 18) = true) by (vm_compute; reflexivity).
  rewrite forallb_forall in E. apply N.ltb_lt. apply E. apply in_seq. lia.
Qed.

Lemma enc_order_app cl a b : enc_order cl (a ++ b) = enc_order cl a ++ enc_order cl b.
Proof. unfold enc_order. apply flat_map_app. Qed.

Lemma write_cl_len l out : l <= 5 ->
  (nb <- getA kHuffmanBitLengthHuffmanCodeBitLengths l ;; v <- getA kHuffmanBitLengthHuffmanCodeSymbols l ;; write_bits nb v out)
  = Done (out ++ cl_len_bits l).
Proof.
  intros H. assert (E : l = 0 \/ l = 1 \/ l = 2 \/ l = 3 \/ l = 4 \/ l = 5) by lia.
  destruct E as [->|[->|[->|[->|[->| ->]]]]]; reflexivity.
Qed.

Lemma cts_loop_spec cl : forall fuel c cts, (N.to_nat c <= 18)%nat ->
  codes_to_store_loop fuel cl c = Done cts ->
  cts <= c /\ (forall k, (N.to_nat cts <= k)%nat -> (k < N.to_nat c)%nat -> nth (N.to_nat (ord k)) cl 0 = 0) /\
  (cts = 0 \/ nth (N.to_nat (ord (N.to_nat cts - 1))) cl 0 <> 0).
Proof.
  induction fuel as [|f IH]; intros c cts Hc Hrun; [discriminate|].
  cbn [codes_to_store_loop] in Hrun. destruct (N.ltb_spec 0 c) as [Hpos|Hz].
  2:{ inversion Hrun. subst. split; [lia|]. split; [intros; lia|left; lia]. }
  rewrite <- (N2Nat.id (c - 1)) in Hrun. rewrite get_order in Hrun by lia. cbn [bind] in Hrun.
  inv_bind Hrun. rename a into d. apply (getA_done cl _ d 0) in E. destruct E as [_ ->].
  destruct (N.eqb_spec (nth (N.to_nat (ord (N.to_nat (c - 1)))) cl 0) 0) as [Ez|Ez]; cbn [negb] in Hrun.
  - rewrite N2Nat.id in Hrun. destruct (IH (c - 1) cts ltac:(lia) Hrun) as [H1 [H2 H3]].
    split; [lia|]. split; [|exact H3]. intros k Hk1 Hk2.
    destruct (Nat.eq_dec k (N.to_nat (c - 1))) as [->|Hne]; [exact Ez|apply H2; lia].
  - inversion Hrun. subst cts. split; [lia|]. split; [intros; lia|]. right.
    replace (N.to_nat c - 1)%nat with (N.to_nat (c - 1)) by lia. exact Ez.
Qed.

Lemma store_cl_lengths nc cl out out' : length cl = 18%nat -> (forall i, nth i cl 0 <= 5) ->
  store_huffman_tree_of_huffman_tree_to_bit_mask nc cl out = Done out' ->
  exists skip cts : nat, (skip = 0 \/ skip = 2 \/ skip = 3)%nat /\ (cts <= 18)%nat /\
    out' = out ++ N_to_bits 2 (N.of_nat skip) ++ enc_order cl (seg skip cts) /\
    (forall k, (k < skip)%nat -> nth (N.to_nat (ord k)) cl 0 = 0) /\
    (skip = 0%nat -> nth (N.to_nat (ord 0)) cl 0 <> 0 \/ nth (N.to_nat (ord 1)) cl 0 <> 0) /\
    (skip = 2%nat -> nth (N.to_nat (ord 2)) cl 0 <> 0) /\
    ((1 <? nc) = true -> (forall k, (cts <= k < 18)%nat -> nth (N.to_nat (ord k)) cl 0 = 0) /\
                         (cts = 0%nat \/ nth (N.to_nat (ord (cts - 1))) cl 0 <> 0)) /\
    ((1 <? nc) = false -> cts = 18%nat).
Proof.
  intros Hl Hcl Hrun. unfold store_huffman_tree_of_huffman_tree_to_bit_mask in Hrun.
  inv_bind Hrun. rename a into ctsN.
  assert (Hcts : (N.to_nat ctsN <= 18)%nat /\
     ((1 <? nc) = true -> (forall k, (N.to_nat ctsN <= k < 18)%nat -> nth (N.to_nat (ord k)) cl 0 = 0) /\
                          (N.to_nat ctsN = 0%nat \/ nth (N.to_nat (ord (N.to_nat ctsN - 1))) cl 0 <> 0)) /\
     ((1 <? nc) = false -> N.to_nat ctsN = 18%nat)).
  { destruct (1 <? nc).
    - destruct (cts_loop_spec cl 20 18 ctsN ltac:(cbn; lia) E) as [H1 [H2 H3]].
      split; [change (N.to_nat 18) with 18%nat in *; lia|]. split; [|discriminate]. intros _. split.
      + intros k Hk. apply H2; change (N.to_nat 18) with 18%nat; lia.
      + destruct H3 as [->|H3]; [left; reflexivity|right; exact H3].
    - inversion E. subst. split; [cbn; lia|]. split; [discriminate|reflexivity]. }
  clear E. destruct Hcts as [Hc18 [HcA HcB]].
  change 0 with (N.of_nat 0) in Hrun at 1. rewrite (get_order 0) in Hrun by lia. cbn [bind] in Hrun.
  inv_bind Hrun. rename a into d0. apply (getA_done cl _ d0 0) in E. destruct E as [_ ->].
  inv_bind Hrun. rename a into skipN.
  assert (Hskip : exists skip : nat, skipN = N.of_nat skip /\ (skip = 0 \/ skip = 2 \/ skip = 3)%nat /\
            (forall k, (k < skip)%nat -> nth (N.to_nat (ord k)) cl 0 = 0) /\
            (skip = 0%nat -> nth (N.to_nat (ord 0)) cl 0 <> 0 \/ nth (N.to_nat (ord 1)) cl 0 <> 0) /\
            (skip = 2%nat -> nth (N.to_nat (ord 2)) cl 0 <> 0)).
  { destruct (N.eqb_spec (nth (N.to_nat (ord 0)) cl 0) 0) as [E0|E0].
    - change 1 with (N.of_nat 1) in E at 1. rewrite (get_order 1) in E by lia. cbn [bind] in E.
      inv_bind E. rename a into d1. apply (getA_done cl _ d1 0) in E1. destruct E1 as [_ ->].
      destruct (N.eqb_spec (nth (N.to_nat (ord 1)) cl 0) 0) as [E1|E1].
      + change 2 with (N.of_nat 2) in E at 1. rewrite (get_order 2) in E by lia. cbn [bind] in E.
        inv_bind E. rename a into d2. apply (getA_done cl _ d2 0) in E2. destruct E2 as [_ ->].
        assert (Es : (if nth (N.to_nat (ord 2)) cl 0 =? 0 then 3 else 2) = skipN) by congruence. clear E.
        destruct (N.eqb_spec (nth (N.to_nat (ord 2)) cl 0) 0) as [E2|E2]; subst skipN.
        * exists 3%nat. split; [reflexivity|]. split; [auto|]. split; [|split; intros; lia].
          intros k Hk. destruct k as [|[|[|k]]]; try assumption; lia.
        * exists 2%nat. split; [reflexivity|]. split; [auto|]. split; [|split; [intros; lia|intros _; exact E2]].
          intros k Hk. destruct k as [|[|k]]; try assumption; lia.
      + assert (Es : 0 = skipN) by congruence. subst skipN. exists 0%nat. split; [reflexivity|]. split; [auto|]. split; [intros; lia|].
        split; [intros _; right; exact E1|intros; lia].
    - assert (Es : 0 = skipN) by congruence. subst skipN. exists 0%nat. split; [reflexivity|]. split; [auto|]. split; [intros; lia|].
      split; [intros _; left; exact E0|intros; lia]. }
  try clear E. destruct Hskip as [skip [-> [Hs [Hsz [Hs0 Hs2]]]]].
  inv_bind Hrun. rename a into out1.
  assert (E1 : out1 = out ++ N_to_bits 2 (N.of_nat skip)).
  { rewrite write_bits_ok in E by (try lia; destruct Hs as [->|[->| ->]]; cbn; lia). inversion E. reflexivity. }
  subst out1. clear E.
  exists skip, (N.to_nat ctsN). split; [exact Hs|]. split; [exact Hc18|]. split; [|auto].
  unfold for_in in Hrun.
  set (P := fun (i : N) (o : bitlist) => o = (out ++ N_to_bits 2 (N.of_nat skip)) ++ enc_order cl (seg skip (N.to_nat i))).
  assert (HP : P (N.of_nat skip + N.of_nat (N.to_nat (ctsN - N.of_nat skip))) out').
  { match type of Hrun with for_range _ _ ?b _ = _ =>
      apply (for_range_inv_done P b (N.to_nat (ctsN - N.of_nat skip)) (N.of_nat skip) _ out'); [| |exact Hrun] end.
    - unfold P, seg. rewrite Nat2N.id, Nat.sub_diag. cbn [firstn enc_order flat_map]. rewrite app_nil_r. reflexivity.
    - intros j o o1 Hj1 Hj2 HPj Hbody. unfold P in *.
      rewrite <- (N2Nat.id j) in Hbody. rewrite get_order in Hbody by lia. cbn [bind] in Hbody.
      inv_bind Hbody. rename a into l. apply (getA_done cl _ l 0) in E. destruct E as [_ ->].
      rewrite write_cl_len in Hbody by apply Hcl. inversion Hbody. subst o o1.
      replace (N.to_nat (j + 1)) with (S (N.to_nat j)) by lia.
      rewrite seg_snoc by lia. rewrite enc_order_app, <- !app_assoc. cbn [enc_order flat_map]. rewrite app_nil_r. reflexivity. }
  unfold P in HP. rewrite HP, <- app_assoc. f_equal. f_equal. f_equal.
  destruct (Nat.le_gt_cases skip (N.to_nat ctsN)) as [Hle|Hgt].
  - f_equal. lia.
  - replace (N.to_nat (N.of_nat skip + N.of_nat (N.to_nat (ctsN - N.of_nat skip)))) with skip by lia.
    unfold seg. replace (skip - skip)%nat with 0%nat by lia. replace (N.to_nat ctsN - skip)%nat with 0%nat by lia. reflexivity.
Qed.
