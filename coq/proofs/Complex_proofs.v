(* C17_store, complex form (RFC 7932 section 3.5): the reader applied to what BrotliStoreHuffmanTree
   emits returns the code lengths. *)
From Coq Require Import NArith ZArith List Lia Bool Arith Permutation.
From V Require Import lib.Words lib.Finite gen.GenHuffman spec.PrefixCode model.Huffman
  proofs.Canonical_proofs proofs.Huffman_proofs proofs.Rle_proofs proofs.Store_proofs proofs.Tree_proofs.
Import ListNotations.
Open Scope N_scope.

Lemma pinned_storage_tables :
  kStorageOrder = rfc_cl_order /\ kHuffmanBitLengthHuffmanCodeSymbols = [0; 7; 3; 2; 1; 15] /\
  kHuffmanBitLengthHuffmanCodeBitLengths = [2; 4; 3; 2; 2; 4] /\ cl_alphabet_size = 18 /\ cl_tree_limit = 5.
Proof. repeat split; vm_compute; reflexivity. Qed.

(* ------------------------------------------------------------------ the code length sequence reader, in general *)
Lemma kraft_app a b : kraft (a ++ b) = kraft a + kraft b.
Proof. induction a as [|x a IH]; [reflexivity|]. cbn [app]. rewrite !kraft_cons, IH. ring. Qed.

Lemma kraft_repeat v k : kraft (repeat v k) = N.of_nat k * (if v =? 0 then 0 else 2 ^ (15 - v)).
Proof.
  induction k as [|k IH]; [reflexivity|]. cbn [repeat]. rewrite kraft_cons, IH.
  rewrite Nat2N.inj_succ. destruct (v =? 0); lia.
Qed.

(* a reader state is good when its accounting agrees with the lengths it holds *)
Definition good (st : cl_state) : Prop :=
  cl_space st = kraft (cl_rev st) /\ cl_n st = N.of_nat (length (cl_rev st)) /\ cl_prev st <> 0.

Lemma good_init : good cl_init.
Proof. repeat split. discriminate. Qed.

Lemma push_n_length k v l : length (push_n k v l) = (k + length l)%nat.
Proof. rewrite push_n_repeat, app_length, repeat_length. reflexivity. Qed.

(* one step: at least one more length, earlier lengths unchanged, goodness preserved *)
Lemma cl_step_good asz st sym extra st' : good st -> cl_step asz st sym extra = Some st' ->
  good st' /\ exists added, added <> [] /\ cl_rev st' = added ++ cl_rev st.
Proof.
  intros [G1 [G2 G3]] H. unfold cl_step in H.
  destruct (sym <? 16).
  - destruct (cl_n st <? asz); [|discriminate]. inversion H; subst st'; clear H. unfold good. cbn [cl_rev cl_n cl_prev cl_space].
    split.
    + repeat split.
      * rewrite kraft_cons, G1. destruct (sym =? 0); [reflexivity|]. apply N.add_comm.
      * cbn [length]. rewrite G2. lia.
      * destruct (N.eqb_spec sym 0); assumption.
    + exists [sym]. split; [discriminate|reflexivity].
  - destruct (sym =? 16).
    + destruct (4 <=? extra); [discriminate|].
      set (old := match cl_rep st with Some (16, c) => c | _ => 0 end) in *.
      set (new := (if old =? 0 then 0 else 4 * (old - 2)) + 3 + extra) in *.
      destruct (asz <? cl_n st + (new - old)); [discriminate|]. inversion H; subst st'; clear H.
      unfold good. cbn [cl_rev cl_n cl_prev cl_space].
      assert (Hd : 1 <= new - old) by (unfold new; destruct (N.eqb_spec old 0); lia).
      split.
      * repeat split.
        -- rewrite push_n_repeat, kraft_app, kraft_repeat, G1, N2Nat.id.
           destruct (N.eqb_spec (cl_prev st) 0); [contradiction|]. apply N.add_comm.
        -- rewrite push_n_length, G2. lia.
        -- exact G3.
      * exists (repeat (cl_prev st) (N.to_nat (new - old))). split; [|apply push_n_repeat].
        destruct (N.to_nat (new - old)) eqn:E; [lia|discriminate].
    + destruct (sym =? 17); [|discriminate].
      destruct (8 <=? extra); [discriminate|].
      set (old := match cl_rep st with Some (17, c) => c | _ => 0 end) in *.
      set (new := (if old =? 0 then 0 else 8 * (old - 2)) + 3 + extra) in *.
      destruct (asz <? cl_n st + (new - old)); [discriminate|]. inversion H; subst st'; clear H.
      unfold good. cbn [cl_rev cl_n cl_prev cl_space].
      assert (Hd : 1 <= new - old) by (unfold new; destruct (N.eqb_spec old 0); lia).
      split.
      * repeat split.
        -- rewrite push_n_repeat, kraft_app, kraft_repeat, G1. cbn [N.eqb]. lia.
        -- rewrite push_n_length, G2. lia.
        -- exact G3.
      * exists (repeat 0 (N.to_nat (new - old))). split; [|apply push_n_repeat].
        destruct (N.to_nat (new - old)) eqn:E; [lia|discriminate].
Qed.

Lemma cl_run_good asz : forall syms st st', good st -> cl_run asz st syms = Some st' ->
  good st' /\ exists added, cl_rev st' = added ++ cl_rev st /\ (syms <> [] -> added <> []).
Proof.
  induction syms as [|[s e] syms IH]; intros st st' G H.
  - inversion H; subst. split; [exact G|]. exists []. split; [reflexivity|congruence].
  - cbn [cl_run] in H. destruct (cl_step asz st s e) as [st1|] eqn:E; [|discriminate].
    destruct (cl_step_good _ _ _ _ _ G E) as [G1 [a1 [Ha1 Hr1]]].
    destruct (IH st1 st' G1 H) as [G' [a2 [Hr2 _]]].
    split; [exact G'|]. exists (a2 ++ a1). split; [rewrite Hr2, Hr1, app_assoc; reflexivity|].
    intros _ Hc. apply app_eq_nil in Hc. destruct Hc as [_ Hc]. contradiction.
Qed.

(* ------------------------------------------------------------------ the code length code lengths *)
Definition cl_len_bits (l : N) : bits :=
  N_to_bits (N.to_nat (nthN kHuffmanBitLengthHuffmanCodeBitLengths l)) (nthN kHuffmanBitLengthHuffmanCodeSymbols l).

Lemma read_cl_len_written l r : l <= 5 -> read_cl_len (cl_len_bits l ++ r) = Some (l, r).
Proof.
  intros H. assert (E : l = 0 \/ l = 1 \/ l = 2 \/ l = 3 \/ l = 4 \/ l = 5) by lia.
  destruct E as [->|[->|[->|[->|[->| ->]]]]]; reflexivity.
Qed.

Definition w32u (v : N) : N := if v =? 0 then 0 else N.shiftr 32 v.
Definition wsum32 (cl : list N) (order : list N) : N :=
  fold_right (fun o acc => w32u (nth (N.to_nat o) cl 0) + acc) 0 order.
Definition enc_order (cl : list N) (order : list N) : bits :=
  flat_map (fun o => cl_len_bits (nth (N.to_nat o) cl 0)) order.
Definition nzcount (cl : list N) (order : list N) : N :=
  fold_right (fun o acc => (if nth (N.to_nat o) cl 0 =? 0 then 0 else 1) + acc) 0 order.
(* the accumulator after reading the lengths of `order` *)
Fixpoint fill (cl : list N) (order : list N) (acc : list N) : list N :=
  match order with
  | [] => acc
  | o :: t => let v := nth (N.to_nat o) cl 0 in fill cl t (if v =? 0 then acc else set_nth acc (N.to_nat o) v)
  end.

Lemma w32u_pos v : 1 <= v <= 5 -> 1 <= w32u v.
Proof.
  intros H. unfold w32u. destruct (N.eqb_spec v 0); [lia|].
  assert (E : v = 1 \/ v = 2 \/ v = 3 \/ v = 4 \/ v = 5) by lia.
  destruct E as [->|[->|[->|[->| ->]]]]; cbn; lia.
Qed.

(* space stays positive before every length that is read *)
Fixpoint ok_space (cl : list N) (order : list N) (space : N) : Prop :=
  match order with
  | [] => True
  | o :: t => space <> 0 /\ w32u (nth (N.to_nat o) cl 0) <= space /\ ok_space cl t (space - w32u (nth (N.to_nat o) cl 0))
  end.

Lemma wsum32_in cl order x : In x order -> w32u (nth (N.to_nat x) cl 0) <= wsum32 cl order.
Proof.
  induction order as [|o t IH]; intros H; [destruct H|]. cbn [wsum32 fold_right]. fold (wsum32 cl t).
  destruct H as [->|H]; [lia|]. apply IH in H. lia.
Qed.

Lemma last_in (l : list N) : l <> [] -> In (last l 0) l.
Proof.
  induction l as [|a l IH]; intros H; [contradiction|]. destruct l as [|b l]; [left; reflexivity|].
  right. apply IH. discriminate.
Qed.

Lemma ok_space_intro cl : (forall o, nth o cl 0 <= 5) -> forall order space,
  wsum32 cl order <= space ->
  (wsum32 cl order < space \/ nth (N.to_nat (last order 0)) cl 0 <> 0) ->
  ok_space cl order space.
Proof.
  intros Hcl. induction order as [|o t IH]; intros space Hle Hpos; [exact I|].
  cbn [ok_space]. cbn [wsum32 fold_right] in *. fold (wsum32 cl t) in *.
  set (v := nth (N.to_nat o) cl 0) in *.
  assert (Hsp : space <> 0).
  { destruct Hpos as [Hlt|Hlast]; [lia|].
    assert (Hne : o :: t <> []) by discriminate.
    pose proof (wsum32_in cl (o :: t) (last (o :: t) 0) (last_in _ Hne)) as Hin.
    cbn [wsum32 fold_right] in Hin. fold (wsum32 cl t) in Hin. fold v in Hin.
    pose proof (w32u_pos (nth (N.to_nat (last (o :: t) 0)) cl 0)) as Hp.
    specialize (Hcl (N.to_nat (last (o :: t) 0))). lia. }
  split; [exact Hsp|]. split; [lia|].
  destruct t as [|o2 t]; [exact I|]. apply IH; [lia|].
  destruct Hpos as [Hlt|Hlast]; [left; lia|right; exact Hlast].
Qed.

(* reading the lengths of `order` (followed by `tail`, not written) while space lasts *)
Lemma read_clcl_enc cl : (forall o, nth o cl 0 <= 5) ->
  forall order tail space nz acc rest,
  ok_space cl order space ->
  read_clcl (order ++ tail) space nz acc (enc_order cl order ++ rest) =
  read_clcl tail (space - wsum32 cl order) (nz + nzcount cl order) (fill cl order acc) rest.
Proof.
  intros Hcl. induction order as [|o order IH]; intros tail space nz acc rest Hok.
  - cbn [app wsum32 fold_right nzcount enc_order flat_map fill]. rewrite N.sub_0_r, N.add_0_r. reflexivity.
  - cbn [ok_space] in Hok. destruct Hok as [Hsp [Hw Hok]].
    cbn [app read_clcl enc_order flat_map wsum32 fold_right nzcount fill].
    fold (wsum32 cl order). fold (nzcount cl order). fold (enc_order cl order).
    set (v := nth (N.to_nat o) cl 0) in *.
    destruct (N.eqb_spec space 0); [contradiction|].
    rewrite <- app_assoc, read_cl_len_written by apply Hcl.
    unfold w32u in *. destruct (N.eqb_spec v 0) as [Ev|Ev].
    + rewrite IH by (rewrite N.sub_0_r in Hok; exact Hok). f_equal; lia.
    + destruct (N.ltb_spec space (N.shiftr 32 v)); [lia|].
      rewrite IH by exact Hok. f_equal; lia.
Qed.

(* ------------------------------------------------------------------ the code length symbol sequence *)
Definition extra_bits (s e : N) : bits :=
  if s =? 16 then N_to_bits 2 e else if s =? 17 then N_to_bits 3 e else [].

Lemma cl_step_literal_extra asz st s e e' : s < 16 -> cl_step asz st s e = cl_step asz st s e'.
Proof. intros H. unfold cl_step. apply N.ltb_lt in H. rewrite H. reflexivity. Qed.

Section SeqRead.
  Variable asz : N.
  Variable cl : list N.
  Variable single : option N.
  Variable enc_sym : N -> bits.
  Variable U : N -> Prop.
  Hypothesis Hsym : forall s r, U s -> read_cl_symbol cl single (enc_sym s ++ r) = Some (s, r).

  Definition enc_seq (t : list (N * N)) : bits :=
    flat_map (fun p => enc_sym (fst p) ++ extra_bits (fst p) (snd p)) t.

  Lemma seq_read : forall t st fuel rest st_f,
    (forall s e, In (s, e) t -> U s /\ (s = 16 -> e < 4) /\ (s = 17 -> e < 8)) ->
    cl_run asz st t = Some st_f ->
    (forall t1 t2 st1, t = t1 ++ t2 -> t2 <> [] -> cl_run asz st t1 = Some st1 ->
       cl_n st1 < asz /\ cl_space st1 < 32768) ->
    (length t < fuel)%nat ->
    read_cl_sequence fuel asz cl single st (enc_seq t ++ rest) =
    read_cl_sequence (fuel - length t) asz cl single st_f rest.
  Proof.
    induction t as [|[s e] t IH]; intros st fuel rest st_f Hin Hrun Hcond Hfuel.
    - cbn in Hrun. inversion Hrun. subst. cbn [enc_seq flat_map app length]. rewrite Nat.sub_0_r. reflexivity.
    - cbn [cl_run] in Hrun. destruct (cl_step asz st s e) as [st1|] eqn:Est; [|discriminate].
      destruct (Hcond [] ((s, e) :: t) st eq_refl ltac:(discriminate) eq_refl) as [C1 C2].
      destruct fuel as [|f]; [cbn in Hfuel; lia|].
      cbn [read_cl_sequence]. apply N.ltb_lt in C1, C2. rewrite C1, C2. cbn [andb].
      destruct (Hin s e ltac:(left; reflexivity)) as [HU [H16 H17]].
      cbn [enc_seq flat_map fst snd]. fold (enc_seq t). rewrite <- !app_assoc, (Hsym _ _ HU).
      assert (Hstep : forall e', (s = 16 \/ s = 17 -> e' = e) -> cl_step asz st s e' = Some st1).
      { intros e' He'. destruct (N.eq_dec s 16) as [E16|N16]; [rewrite He' by auto; exact Est|].
        destruct (N.eq_dec s 17) as [E17|N17]; [rewrite He' by auto; exact Est|].
        destruct (N.lt_ge_cases s 16) as [Hlt|Hge]; [rewrite (cl_step_literal_extra asz st s e' e Hlt); exact Est|].
        exfalso. unfold cl_step in Est. destruct (N.ltb_spec s 16); [lia|].
        destruct (N.eqb_spec s 16); [contradiction|]. destruct (N.eqb_spec s 17); [contradiction|discriminate]. }
      assert (Hrest : read_cl_sequence f asz cl single st1 (enc_seq t ++ rest) =
                      read_cl_sequence (S f - length ((s, e) :: t)) asz cl single st_f rest).
      { cbn [length]. replace (S f - S (length t))%nat with (f - length t)%nat by lia.
        apply IH; [intros s' e' H'; apply Hin; right; exact H'|exact Hrun| |cbn [length] in Hfuel; lia].
        intros t1 t2 st2 Ht Hne Hr. apply (Hcond ((s, e) :: t1) t2 st2); [rewrite Ht; reflexivity|exact Hne|].
        cbn [cl_run]. rewrite Est. exact Hr. }
      unfold extra_bits. destruct (N.eqb_spec s 16) as [E16|N16].
      + rewrite read_bits_written by (cbn; apply H16; exact E16). rewrite (Hstep e) by auto. exact Hrest.
      + destruct (N.eqb_spec s 17) as [E17|N17].
        * rewrite read_bits_written by (cbn; apply H17; exact E17). rewrite (Hstep e) by auto. exact Hrest.
        * cbn [app read_bits take_bits bits_to_N]. rewrite (Hstep 0) by (intros [?|?]; contradiction). exact Hrest.
  Qed.
End SeqRead.

(* ------------------------------------------------------------------ the histogram of code length symbols *)
Definition occ (l : list N) (s : N) : N := N.of_nat (count_occ N.eq_dec l s).

Lemma occ_snoc l x s : occ (l ++ [x]) s = occ l s + (if N.eq_dec x s then 1 else 0).
Proof.
  unfold occ. rewrite count_occ_app. cbn [count_occ]. destruct (N.eq_dec x s); lia.
Qed.

Lemma occ_le l s : occ l s <= N.of_nat (length l).
Proof. unfold occ. pose proof (count_occ_bound N.eq_dec s l). lia. Qed.

Lemma occ_pos l s : occ l s <> 0 <-> In s l.
Proof. unfold occ. rewrite (count_occ_In N.eq_dec). lia. Qed.

Lemma firstn_snoc_pair (t : list (N * N)) i d : (i < length t)%nat -> firstn (S i) t = firstn i t ++ [nth i t d].
Proof.
  revert i. induction t as [|x t IH]; intros i H; [cbn in H; lia|].
  destruct i as [|i]; [reflexivity|]. cbn [firstn nth app]. f_equal. apply IH. cbn in H. lia.
Qed.

Lemma hist_spec (t : list (N * N)) hist : N.of_nat (length t) < 2 ^ 32 ->
  for_in 0 (N.of_nat (length t)) (fun i hist =>
      '(s, _) <- getA t i ;; c <- getA hist s ;; setA hist s (wadd32 c 1)) (repeat 0 18) = Done hist ->
  length hist = 18%nat /\ (forall s, nth (N.to_nat s) hist 0 = occ (map fst t) s) /\
  (forall s, In s (map fst t) -> s < 18).
Proof.
  intros Hlen Hrun. unfold for_in in Hrun. rewrite N.sub_0_r, Nat2N.id in Hrun.
  set (P := fun (i : N) (h : list N) => length h = 18%nat /\
              (forall s, nth (N.to_nat s) h 0 = occ (map fst (firstn (N.to_nat i) t)) s) /\
              (forall s, In s (map fst (firstn (N.to_nat i) t)) -> s < 18)).
  assert (HP : P (0 + N.of_nat (length t)) hist).
  { match type of Hrun with for_range _ _ ?b _ = _ =>
      apply (for_range_inv_done P b (length t) 0 (repeat 0 18) hist); [| |exact Hrun] end.
    - split; [reflexivity|]. split; [|intros s Hs; destruct Hs].
      intros s. cbn [N.to_nat firstn map]. unfold occ. cbn [count_occ].
      destruct (Nat.lt_ge_cases (N.to_nat s) 18) as [Hlt|Hge]; [|apply nth_overflow; cbn; lia].
      apply nth_repeat.
    - intros j h h1 Hj1 Hj2 HPj Hbody. destruct HPj as [P1 [P2 P3]].
      inv_bind Hbody. destruct a as [s e]. apply (getA_done t j (s, e) (0, 0)) in E. destruct E as [Hjt Hse].
      inv_bind Hbody. rename a into c. apply (getA_done h s c 0) in E. destruct E as [Hs Hc].
      apply setA_done in Hbody. destruct Hbody as [_ ->]. unfold P.
      replace (N.to_nat (j + 1)) with (S (N.to_nat j)) by lia.
      rewrite (firstn_snoc_pair t _ (0, 0) Hjt), <- Hse, map_app. cbn [map fst].
      split; [rewrite upd_length; exact P1|]. split.
      + intros s'. rewrite occ_snoc. destruct (N.eq_dec s s') as [<-|Hne].
        * rewrite upd_nth_same by exact Hs. rewrite Hc, P2. unfold wadd32, w32. apply N.mod_small.
          pose proof (occ_le (map fst (firstn (N.to_nat j) t)) s) as Hle.
          rewrite map_length, firstn_length in Hle. lia.
        * rewrite upd_nth_other by lia. rewrite P2. lia.
      + intros s' Hs'. apply in_app_or in Hs'. destruct Hs' as [Hs'|[<-|[]]]; [apply P3; exact Hs'|lia]. }
  unfold P in HP. rewrite N.add_0_l, Nat2N.id, firstn_all in HP. exact HP.
Qed.

(* count_codes: 0, 1 or "at least 2" used code length symbols, and the first of them *)
Lemma count_codes_spec : forall hist i nc code,
  count_codes hist i 0 0 = (nc, code) ->
  (nc = 0 /\ nonzero_count hist = 0%nat) \/
  (nc = 1 /\ nonzero_count hist = 1%nat /\ i <= code /\ nth (N.to_nat (code - i)) hist 0 <> 0) \/
  (nc = 2 /\ (2 <= nonzero_count hist)%nat).
Proof.
  assert (Aux : forall hist i code0 nc code, count_codes hist i 1 code0 = (nc, code) ->
            (nc = 1 /\ code = code0 /\ nonzero_count hist = 0%nat) \/ (nc = 2 /\ (1 <= nonzero_count hist)%nat)).
  { induction hist as [|h hist IH]; intros i code0 nc code H.
    - cbn in H. inversion H. left. auto.
    - cbn [count_codes] in H. unfold nonzero_count. cbn [filter]. destruct (N.eqb_spec h 0); cbn [negb] in *.
      + apply IH in H. exact H.
      + change (1 =? 0) with false in H. change (1 =? 1) with true in H. cbv iota in H. inversion H.
        right. cbn [length]. split; [reflexivity|lia]. }
  induction hist as [|h hist IH]; intros i nc code H.
  - cbn in H. inversion H. left. auto.
  - cbn [count_codes] in H. unfold nonzero_count. cbn [filter]. destruct (N.eqb_spec h 0) as [Eh|Eh]; cbn [negb] in *.
    + apply IH in H. fold (nonzero_count hist). destruct H as [H|[[H1 [H2 [H3 H4]]]|H]]; [left; exact H| |right; right; exact H].
      right. left. split; [exact H1|]. split; [exact H2|]. split; [lia|].
      replace (N.to_nat (code - i)) with (S (N.to_nat (code - (i + 1)))) by lia. exact H4.
    + change (0 =? 0) with true in H. cbv iota in H. apply Aux in H. unfold nonzero_count in H. cbn [length].
      destruct H as [[H1 [H2 H3]]|[H1 H2]].
      * right. left. subst. split; [reflexivity|]. split; [lia|]. split; [lia|].
        rewrite N.sub_diag. exact Eh.
      * right. right. split; [exact H1|lia].
Qed.

(* ------------------------------------------------------------------ the code length code itself *)
Lemma clamped_bound counts cl M : (forall c, In c counts -> c <= M) ->
  clamped_total counts cl <= N.of_nat (length counts) * N.max M cl.
Proof.
  induction counts as [|c counts IH]; intros H; [cbn; lia|].
  cbn [clamped_total fold_right length]. fold (clamped_total counts cl).
  specialize (IH (fun x Hx => H x (or_intror Hx))). pose proof (H c (or_introl eq_refl)).
  rewrite Nat2N.inj_succ. destruct (c =? 0); lia.
Qed.

Lemma supp_single hist c : length hist = 18%nat -> nonzero_count hist = 1%nat -> (c < 18)%nat -> nth c hist 0 <> 0 ->
  supp hist 18 = [c].
Proof.
  intros Hl Hn Hc Hz.
  pose proof (supp_length hist 18 ltac:(lia)) as Hsl. rewrite firstn_all2, Hn in Hsl by lia.
  assert (Hin : In c (supp hist 18)) by (apply supp_spec; auto).
  destruct (supp hist 18) as [|x [|y l]]; cbn in Hsl; try lia. destruct Hin as [->|[]]. reflexivity.
Qed.

Lemma cl_tree_facts hist pool cl pool' rr nc code :
  length hist = 18%nat -> (forall s, nth s hist 0 <= 704) ->
  count_codes hist 0 0 0 = (nc, code) -> nc <> 0 ->
  create_huffman_tree hist cl_alphabet_size (Z.of_N cl_tree_limit) pool (repeat 0 18) = Done (cl, pool', rr) ->
  rr <= 27 ->
  length cl = 18%nat /\ (forall i, nth i cl 0 <= 5) /\
  (forall i, (i < 18)%nat -> (nth i cl 0 <> 0 <-> nth i hist 0 <> 0)) /\
  ((nc = 2 /\ kraft cl = 32768) \/
   (nc = 1 /\ code < 18 /\ cl = upd (repeat 0 18) (N.to_nat code) 1 /\ nth (N.to_nat code) hist 0 <> 0 /\
    forall i, (i < 18)%nat -> i <> N.to_nat code -> nth i hist 0 = 0)).
Proof.
  intros Hl Hb Hcc Hnc Hrun Hrr.
  change cl_alphabet_size with (N.of_nat 18) in Hrun. rewrite <- Hl in Hrun at 1.
  change (Z.of_N cl_tree_limit) with 5%Z in Hrun.
  destruct (count_codes_spec hist 0 nc code Hcc) as [[H0 _]|[[H1 [Hn1 [_ Hc1]]]|[H2 Hn2]]]; [contradiction| |].
  - (* a single used code length symbol *)
    rewrite N.sub_0_r in Hc1.
    assert (Hclt : (N.to_nat code < 18)%nat).
    { destruct (Nat.lt_ge_cases (N.to_nat code) 18) as [|Hge]; [assumption|]. rewrite nth_overflow in Hc1 by lia. contradiction. }
    pose proof (supp_single hist (N.to_nat code) Hl Hn1 Hclt Hc1) as Hs. rewrite <- Hl in Hs at 1.
    destruct (tree_one hist 5 pool (repeat 0 18) cl pool' rr (N.to_nat code) ltac:(rewrite Hl; cbn; lia) Hs Hrun) as [Ecl [_ _]].
    assert (Hothers : forall i, (i < 18)%nat -> i <> N.to_nat code -> nth i hist 0 = 0).
    { intros i Hi Hne. destruct (N.eq_dec (nth i hist 0) 0) as [|Hnz]; [assumption|]. exfalso.
      assert (Hin : In i (supp hist (length hist))) by (apply supp_spec; rewrite Hl; auto).
      rewrite Hs in Hin. destruct Hin as [<-|[]]. contradiction. }
    subst cl. split; [rewrite upd_length; reflexivity|]. split; [|split].
    + intros i. destruct (Nat.eq_dec i (N.to_nat code)) as [->|Hne].
      * rewrite upd_nth_same by (cbn; lia). lia.
      * rewrite upd_nth_other by lia.
        destruct (Nat.lt_ge_cases i 18); [rewrite nth_repeat; lia|rewrite nth_overflow by (cbn; lia); lia].
    + intros i Hi. destruct (Nat.eq_dec i (N.to_nat code)) as [->|Hne].
      * rewrite upd_nth_same by (cbn; lia). split; [intros _; exact Hc1|intros _; discriminate].
      * rewrite upd_nth_other by lia. rewrite nth_repeat, (Hothers i Hi Hne). tauto.
    + right. repeat split; auto. lia.
  - (* at least two *)
    assert (Hg : clamped_total hist (2 ^ rr) < 2 ^ 32 - 1).
    { eapply N.le_lt_trans; [apply (clamped_bound hist (2 ^ rr) 704)|].
      - intros c Hc. apply (In_nth _ _ 0) in Hc. destruct Hc as [k [_ <-]]. apply Hb.
      - rewrite Hl. assert (2 ^ rr <= 2 ^ 27) by (apply N.pow_le_mono_r; lia).
        change (2 ^ 27) with 134217728 in *. change (2 ^ 32) with 4294967296. cbn [N.of_nat Pos.of_succ_nat Pos.succ]. lia. }
    destruct (tree_partial hist 5 pool (repeat 0 18) cl pool' rr ltac:(rewrite Hl; cbn; lia) ltac:(lia) Hn2
                ltac:(rewrite Hl; reflexivity) ltac:(intros i _; destruct (Nat.lt_ge_cases i 18); [apply nth_repeat|apply nth_overflow; cbn; lia])
                Hrun ltac:(lia) Hg) as [T1 [T2 [T3 T4]]].
    split; [lia|]. split; [exact T3|]. split; [intros i Hi; apply T2; lia|]. left. auto.
Qed.

(* ------------------------------------------------------------------ writing the code length code lengths *)
Definition seg (a b : nat) : list N := firstn (b - a) (skipn a rfc_cl_order).
Definition ord (k : nat) : N := nth k rfc_cl_order 0.

Lemma nth_skipn_N (l : list N) a k : nth k (skipn a l) 0 = nth (a + k) l 0.
Proof.
  revert a. induction l as [|x l IH]; intros a; [destruct a, k; reflexivity|].
  destruct a as [|a]; [reflexivity|]. cbn [skipn plus nth]. apply IH.
Qed.

Lemma seg_snoc a i : (a <= i)%nat -> (i < 18)%nat -> seg a (S i) = seg a i ++ [ord i].
Proof.
  intros H1 H2. unfold seg, ord. replace (S i - a)%nat with (S (i - a)) by lia.
  rewrite (firstn_succ_snoc (skipn a rfc_cl_order) (i - a)) by (rewrite skipn_length; change (length rfc_cl_order) with 18%nat; lia).
  f_equal. f_equal. rewrite nth_skipn_N. f_equal. lia.
Qed.

Lemma skipn_skipn_N (l : list N) m n : skipn n (skipn m l) = skipn (m + n) l.
Proof.
  revert l. induction m as [|m IH]; intros l; [reflexivity|]. destruct l as [|x l]; [destruct n; reflexivity|].
  cbn [skipn plus]. apply IH.
Qed.

Lemma seg_split a b : (a <= b)%nat -> skipn a rfc_cl_order = seg a b ++ skipn b rfc_cl_order.
Proof.
  intros H. unfold seg. rewrite <- (firstn_skipn (b - a) (skipn a rfc_cl_order)) at 1. f_equal.
  rewrite skipn_skipn_N. f_equal. lia.
Qed.

Lemma get_order k : (k < 18)%nat -> getA kStorageOrder (N.of_nat k) = Done (ord k).
Proof.
  intros H. destruct pinned_storage_tables as [-> _]. rewrite (getA_ok rfc_cl_order _ 0) by (rewrite Nat2N.id; cbn; lia).
  rewrite Nat2N.id. reflexivity.
Qed.

Lemma ord_lt k : (k < 18)%nat -> ord k < 18.
Proof.
  intros H. assert (E : forallb (fun k => ord k <? 18) (seq 0 18) = true) by (vm_compute; reflexivity).
  rewrite forallb_forall in E. apply N.ltb_lt. apply E. apply in_seq. lia.
Qed.

Lemma enc_order_app cl a b : enc_order cl (a ++ b) = enc_order cl a ++ enc_order cl b.
Proof. unfold enc_order. apply flat_map_app. Qed.

Lemma write_cl_len l out : l <= 5 ->
  (nb <- getA kHuffmanBitLengthHuffmanCodeBitLengths l ;; v <- getA kHuffmanBitLengthHuffmanCodeSymbols l ;; write_bits nb v out)
  = Done (out ++ cl_len_bits l).
Proof.
  intros H. assert (E : l = 0 \/ l = 1 \/ l = 2 \/ l = 3 \/ l = 4 \/ l = 5) by lia.
  destruct E as [->|[->|[->|[->|[->| ->]]]]]; reflexivity.
Qed.

Lemma cts_loop_spec cl : forall fuel c cts, (N.to_nat c <= 18)%nat ->
  codes_to_store_loop fuel cl c = Done cts ->
  cts <= c /\ (forall k, (N.to_nat cts <= k)%nat -> (k < N.to_nat c)%nat -> nth (N.to_nat (ord k)) cl 0 = 0) /\
  (cts = 0 \/ nth (N.to_nat (ord (N.to_nat cts - 1))) cl 0 <> 0).
Proof.
  induction fuel as [|f IH]; intros c cts Hc Hrun; [discriminate|].
  cbn [codes_to_store_loop] in Hrun. destruct (N.ltb_spec 0 c) as [Hpos|Hz].
  2:{ inversion Hrun. subst. split; [lia|]. split; [intros; lia|left; lia]. }
  rewrite <- (N2Nat.id (c - 1)) in Hrun. rewrite get_order in Hrun by lia. cbn [bind] in Hrun.
  inv_bind Hrun. rename a into d. apply (getA_done cl _ d 0) in E. destruct E as [_ ->].
  destruct (N.eqb_spec (nth (N.to_nat (ord (N.to_nat (c - 1)))) cl 0) 0) as [Ez|Ez]; cbn [negb] in Hrun.
  - rewrite N2Nat.id in Hrun. destruct (IH (c - 1) cts ltac:(lia) Hrun) as [H1 [H2 H3]].
    split; [lia|]. split; [|exact H3]. intros k Hk1 Hk2.
    destruct (Nat.eq_dec k (N.to_nat (c - 1))) as [->|Hne]; [exact Ez|apply H2; lia].
  - inversion Hrun. subst cts. split; [lia|]. split; [intros; lia|]. right.
    replace (N.to_nat c - 1)%nat with (N.to_nat (c - 1)) by lia. exact Ez.
Qed.

Lemma store_cl_lengths nc cl out out' : length cl = 18%nat -> (forall i, nth i cl 0 <= 5) ->
  store_huffman_tree_of_huffman_tree_to_bit_mask nc cl out = Done out' ->
  exists skip cts : nat, (skip = 0 \/ skip = 2 \/ skip = 3)%nat /\ (cts <= 18)%nat /\
    out' = out ++ N_to_bits 2 (N.of_nat skip) ++ enc_order cl (seg skip cts) /\
    (forall k, (k < skip)%nat -> nth (N.to_nat (ord k)) cl 0 = 0) /\
    (skip = 0%nat -> nth (N.to_nat (ord 0)) cl 0 <> 0 \/ nth (N.to_nat (ord 1)) cl 0 <> 0) /\
    (skip = 2%nat -> nth (N.to_nat (ord 2)) cl 0 <> 0) /\
    ((1 <? nc) = true -> (forall k, (cts <= k < 18)%nat -> nth (N.to_nat (ord k)) cl 0 = 0) /\
                         (cts = 0%nat \/ nth (N.to_nat (ord (cts - 1))) cl 0 <> 0)) /\
    ((1 <? nc) = false -> cts = 18%nat).
Proof.
  intros Hl Hcl Hrun. unfold store_huffman_tree_of_huffman_tree_to_bit_mask in Hrun.
  inv_bind Hrun. rename a into ctsN.
  assert (Hcts : (N.to_nat ctsN <= 18)%nat /\
     ((1 <? nc) = true -> (forall k, (N.to_nat ctsN <= k < 18)%nat -> nth (N.to_nat (ord k)) cl 0 = 0) /\
                          (N.to_nat ctsN = 0%nat \/ nth (N.to_nat (ord (N.to_nat ctsN - 1))) cl 0 <> 0)) /\
     ((1 <? nc) = false -> N.to_nat ctsN = 18%nat)).
  { destruct (1 <? nc).
    - destruct (cts_loop_spec cl 20 18 ctsN ltac:(cbn; lia) E) as [H1 [H2 H3]].
      split; [change (N.to_nat 18) with 18%nat in *; lia|]. split; [|discriminate]. intros _. split.
      + intros k Hk. apply H2; change (N.to_nat 18) with 18%nat; lia.
      + destruct H3 as [->|H3]; [left; reflexivity|right; exact H3].
    - inversion E. subst. split; [cbn; lia|]. split; [discriminate|reflexivity]. }
  clear E. destruct Hcts as [Hc18 [HcA HcB]].
  change 0 with (N.of_nat 0) in Hrun at 1. rewrite (get_order 0) in Hrun by lia. cbn [bind] in Hrun.
  inv_bind Hrun. rename a into d0. apply (getA_done cl _ d0 0) in E. destruct E as [_ ->].
  inv_bind Hrun. rename a into skipN.
  assert (Hskip : exists skip : nat, skipN = N.of_nat skip /\ (skip = 0 \/ skip = 2 \/ skip = 3)%nat /\
            (forall k, (k < skip)%nat -> nth (N.to_nat (ord k)) cl 0 = 0) /\
            (skip = 0%nat -> nth (N.to_nat (ord 0)) cl 0 <> 0 \/ nth (N.to_nat (ord 1)) cl 0 <> 0) /\
            (skip = 2%nat -> nth (N.to_nat (ord 2)) cl 0 <> 0)).
  { destruct (N.eqb_spec (nth (N.to_nat (ord 0)) cl 0) 0) as [E0|E0].
    - change 1 with (N.of_nat 1) in E at 1. rewrite (get_order 1) in E by lia. cbn [bind] in E.
      inv_bind E. rename a into d1. apply (getA_done cl _ d1 0) in E1. destruct E1 as [_ ->].
      destruct (N.eqb_spec (nth (N.to_nat (ord 1)) cl 0) 0) as [E1|E1].
      + change 2 with (N.of_nat 2) in E at 1. rewrite (get_order 2) in E by lia. cbn [bind] in E.
        inv_bind E. rename a into d2. apply (getA_done cl _ d2 0) in E2. destruct E2 as [_ ->].
        assert (Es : (if nth (N.to_nat (ord 2)) cl 0 =? 0 then 3 else 2) = skipN) by congruence. clear E.
        destruct (N.eqb_spec (nth (N.to_nat (ord 2)) cl 0) 0) as [E2|E2]; subst skipN.
        * exists 3%nat. split; [reflexivity|]. split; [auto|]. split; [|split; intros; lia].
          intros k Hk. destruct k as [|[|[|k]]]; try assumption; lia.
        * exists 2%nat. split; [reflexivity|]. split; [auto|]. split; [|split; [intros; lia|intros _; exact E2]].
          intros k Hk. destruct k as [|[|k]]; try assumption; lia.
      + assert (Es : 0 = skipN) by congruence. subst skipN. exists 0%nat. split; [reflexivity|]. split; [auto|]. split; [intros; lia|].
        split; [intros _; right; exact E1|intros; lia].
    - assert (Es : 0 = skipN) by congruence. subst skipN. exists 0%nat. split; [reflexivity|]. split; [auto|]. split; [intros; lia|].
      split; [intros _; left; exact E0|intros; lia]. }
  try clear E. destruct Hskip as [skip [-> [Hs [Hsz [Hs0 Hs2]]]]].
  inv_bind Hrun. rename a into out1.
  assert (E1 : out1 = out ++ N_to_bits 2 (N.of_nat skip)).
  { rewrite write_bits_ok in E by (try lia; destruct Hs as [->|[->| ->]]; cbn; lia). inversion E. reflexivity. }
  subst out1. clear E.
  exists skip, (N.to_nat ctsN). split; [exact Hs|]. split; [exact Hc18|]. split; [|auto].
  unfold for_in in Hrun.
  set (P := fun (i : N) (o : bitlist) => o = (out ++ N_to_bits 2 (N.of_nat skip)) ++ enc_order cl (seg skip (N.to_nat i))).
  assert (HP : P (N.of_nat skip + N.of_nat (N.to_nat (ctsN - N.of_nat skip))) out').
  { match type of Hrun with for_range _ _ ?b ?s0 = _ =>
      apply (for_range_inv_done P b (N.to_nat (ctsN - N.of_nat skip)) (N.of_nat skip) s0 out'); [| |exact Hrun] end.
    - unfold P, seg. rewrite Nat2N.id, Nat.sub_diag. cbn [firstn enc_order flat_map]. rewrite app_nil_r. reflexivity.
    - intros j o o1 Hj1 Hj2 HPj Hbody. unfold P in *.
      rewrite <- (N2Nat.id j) in Hbody. rewrite get_order in Hbody by lia. cbn [bind] in Hbody.
      inv_bind Hbody. rename a into l. apply (getA_done cl _ l 0) in E. destruct E as [_ ->].
      rewrite write_cl_len in Hbody by apply Hcl. inversion Hbody. subst o o1.
      replace (N.to_nat (j + 1)) with (S (N.to_nat j)) by lia.
      rewrite seg_snoc by lia. rewrite enc_order_app, <- !app_assoc. cbn [enc_order flat_map]. rewrite app_nil_r. reflexivity. }
  unfold P in HP. rewrite HP, <- app_assoc. f_equal. f_equal. f_equal.
  destruct (Nat.le_gt_cases skip (N.to_nat ctsN)) as [Hle|Hgt].
  - f_equal. lia.
  - replace (N.to_nat (N.of_nat skip + N.of_nat (N.to_nat (ctsN - N.of_nat skip)))) with skip by lia.
    unfold seg. replace (skip - skip)%nat with 0%nat by lia. replace (N.to_nat ctsN - skip)%nat with 0%nat by lia. reflexivity.
Qed.

(* ------------------------------------------------------------------ writing the symbol sequence *)
Lemma write_bits_done n v out o : write_bits n v out = Done o -> o = out ++ N_to_bits (N.to_nat n) v /\ v < 2 ^ n.
Proof.
  unfold write_bits. destruct (N.eqb_spec (N.shiftr v n) 0) as [E|E]; cbn [negb]; [|discriminate].
  destruct (56 <? n); [discriminate|]. intros H. inversion H. rewrite lsb_bits_eq. split; [reflexivity|].
  rewrite N.shiftr_div_pow2 in E. destruct (N.lt_ge_cases v (2 ^ n)) as [|Hge]; [assumption|].
  assert (1 <= v / 2 ^ n); [|lia]. apply N.div_le_lower_bound; [apply N.pow_nonzero; discriminate|lia].
Qed.

Definition sym_bits (cl' sym : list N) (s : N) : bits :=
  N_to_bits (N.to_nat (nth (N.to_nat s) cl' 0)) (nth (N.to_nat s) sym 0).

Lemma store_seq cl' sym : forall t out out',
  store_huffman_tree_to_bit_mask t cl' sym out = Done out' ->
  out' = out ++ enc_seq (sym_bits cl' sym) t.
Proof.
  induction t as [|[s e] t IH]; intros out out' H.
  - cbn in H. inversion H. cbn. rewrite app_nil_r. reflexivity.
  - cbn [store_huffman_tree_to_bit_mask] in H.
    inv_bind H. rename a into nb. apply (getA_done cl' s nb 0) in E. destruct E as [_ ->].
    inv_bind H. rename a into v. apply (getA_done sym s v 0) in E. destruct E as [_ ->].
    inv_bind H. rename a into o1. apply write_bits_done in E. destruct E as [-> _].
    inv_bind H. rename a into o2.
    assert (Eo2 : o2 = (out ++ sym_bits cl' sym s) ++ extra_bits s e).
    { unfold extra_bits. destruct (s =? 16).
      - apply write_bits_done in E. destruct E as [-> _]. reflexivity.
      - destruct (s =? 17).
        + apply write_bits_done in E. destruct E as [-> _]. reflexivity.
        + inversion E. rewrite app_nil_r. reflexivity. }
    apply IH in H. rewrite H, Eo2. cbn [enc_seq flat_map fst snd]. rewrite <- !app_assoc. reflexivity.
Qed.

(* ------------------------------------------------------------------ facts about the fixed order *)
Definition pos_of (p : nat) : nat :=
  match find (fun k => ord k =? N.of_nat p) (seq 0 18) with Some k => k | None => 0%nat end.

Lemma ord_pos p : (p < 18)%nat -> ord (pos_of p) = N.of_nat p /\ (pos_of p < 18)%nat.
Proof.
  intros H.
  assert (E : forallb (fun p => (ord (pos_of p) =? N.of_nat p) && (pos_of p <? 18)%nat) (seq 0 18) = true) by (vm_compute; reflexivity).
  rewrite forallb_forall in E. specialize (E p ltac:(apply in_seq; lia)).
  apply andb_true_iff in E. destruct E as [E1 E2]. apply N.eqb_eq in E1. apply Nat.ltb_lt in E2. auto.
Qed.

Lemma pos_ord k : (k < 18)%nat -> pos_of (N.to_nat (ord k)) = k.
Proof.
  intros H.
  assert (E : forallb (fun k => (pos_of (N.to_nat (ord k)) =? k)%nat) (seq 0 18) = true) by (vm_compute; reflexivity).
  rewrite forallb_forall in E. apply Nat.eqb_eq. apply E. apply in_seq. lia.
Qed.

Lemma seg_map a b : (b <= 18)%nat -> seg a b = map ord (seq a (b - a)).
Proof.
  intros Hb. remember (b - a)%nat as m. revert a b Hb Heqm. induction m as [|m IH]; intros a b Hb Hm.
  - unfold seg. rewrite <- Hm. reflexivity.
  - assert (Ha : (a < 18)%nat) by lia.
    unfold seg. rewrite <- Hm. cbn [seq map]. 
    rewrite (skipn_nth rfc_cl_order a) by (change (length rfc_cl_order) with 18%nat; lia).
    cbn [firstn]. f_equal. specialize (IH (S a) b Hb ltac:(lia)). unfold seg in IH.
    replace (b - S a)%nat with m in IH by lia. exact IH.
Qed.

Lemma in_seg a b k : (b <= 18)%nat -> (k < 18)%nat -> In (ord k) (seg a b) <-> (a <= k < b)%nat.
Proof.
  intros Hb Hk. rewrite seg_map by exact Hb. rewrite in_map_iff. split.
  - intros [k' [E Hin]]. apply in_seq in Hin. assert (Hk' : (k' < 18)%nat) by lia.
    apply (f_equal (fun x => pos_of (N.to_nat x))) in E. rewrite !pos_ord in E by assumption. lia.
  - intros H. exists k. split; [reflexivity|apply in_seq; lia].
Qed.

Lemma NoDup_map_in {A B} (f : A -> B) (l : list A) :
  (forall x y, In x l -> In y l -> f x = f y -> x = y) -> NoDup l -> NoDup (map f l).
Proof.
  intros Hinj Hnd. induction Hnd as [|x l Hx Hnd IH]; [constructor|]. cbn [map]. constructor.
  - intros Hin. apply in_map_iff in Hin. destruct Hin as [y [E Hy]].
    assert (y = x) by (apply Hinj; [right; exact Hy|left; reflexivity|exact E]). subst y. contradiction.
  - apply IH. intros a b Ha Hb. apply Hinj; right; assumption.
Qed.

Lemma seg_NoDup a b : (b <= 18)%nat -> NoDup (seg a b).
Proof.
  intros Hb. rewrite seg_map by exact Hb. apply NoDup_map_in; [|apply seq_NoDup].
  intros x y Hx Hy E. apply in_seq in Hx, Hy.
  apply (f_equal (fun x => pos_of (N.to_nat x))) in E. rewrite !pos_ord in E by lia. exact E.
Qed.

Lemma seg_app a b c : (a <= b)%nat -> (b <= c)%nat -> (c <= 18)%nat -> seg a c = seg a b ++ seg b c.
Proof.
  intros H1 H2 H3. rewrite !seg_map by lia. rewrite <- map_app. f_equal.
  replace (c - a)%nat with ((b - a) + (c - b))%nat by lia. rewrite seq_app. f_equal. f_equal. lia.
Qed.

Lemma seg_full : seg 0 18 = rfc_cl_order.
Proof. reflexivity. Qed.

Lemma wsum32_app cl a b : wsum32 cl (a ++ b) = wsum32 cl a + wsum32 cl b.
Proof. induction a as [|x a IH]; [reflexivity|]. cbn [app wsum32 fold_right]. fold (wsum32 cl (a ++ b)). fold (wsum32 cl a). rewrite IH. lia. Qed.

Lemma nzcount_app cl a b : nzcount cl (a ++ b) = nzcount cl a + nzcount cl b.
Proof. induction a as [|x a IH]; [reflexivity|]. cbn [app nzcount fold_right]. fold (nzcount cl (a ++ b)). fold (nzcount cl a). rewrite IH. lia. Qed.

Lemma wsum32_zero cl l : (forall o, In o l -> nth (N.to_nat o) cl 0 = 0) -> wsum32 cl l = 0.
Proof.
  induction l as [|x l IH]; intros H; [reflexivity|]. cbn [wsum32 fold_right]. fold (wsum32 cl l).
  rewrite IH by (intros o Ho; apply H; right; exact Ho). rewrite (H x) by (left; reflexivity). reflexivity.
Qed.

Lemma w32u_le16 v : w32u v <= 16.
Proof.
  unfold w32u. destruct (N.eqb_spec v 0); [lia|]. rewrite N.shiftr_div_pow2.
  apply N.div_le_upper_bound; [apply N.pow_nonzero; discriminate|].
  assert (2 ^ 1 <= 2 ^ v) by (apply N.pow_le_mono_r; lia). change (2 ^ 1) with 2 in *. lia.
Qed.

Lemma wsum32_le_nz cl l : wsum32 cl l <= 16 * nzcount cl l.
Proof.
  induction l as [|x l IH]; [cbn; lia|]. cbn [wsum32 nzcount fold_right]. fold (wsum32 cl l). fold (nzcount cl l).
  pose proof (w32u_le16 (nth (N.to_nat x) cl 0)) as H. unfold w32u in *.
  destruct (nth (N.to_nat x) cl 0 =? 0); lia.
Qed.

Lemma wsum32_01 cl l : (forall o, In o l -> nth (N.to_nat o) cl 0 = 0 \/ nth (N.to_nat o) cl 0 = 1) ->
  wsum32 cl l = 16 * nzcount cl l.
Proof.
  induction l as [|x l IH]; intros H; [reflexivity|]. cbn [wsum32 nzcount fold_right]. fold (wsum32 cl l). fold (nzcount cl l).
  rewrite IH by (intros o Ho; apply H; right; exact Ho).
  destruct (H x ltac:(left; reflexivity)) as [E|E]; rewrite E;
    [change (w32u 0) with 0; change (0 =? 0) with true|change (w32u 1) with 16; change (1 =? 0) with false]; cbv iota; lia.
Qed.

Lemma fill_nth cl : forall order acc p, NoDup order -> (forall o, In o order -> (N.to_nat o < length acc)%nat) ->
  nth p (fill cl order acc) 0 =
  if existsb (fun o => (N.to_nat o =? p)%nat) order && negb (nth p cl 0 =? 0) then nth p cl 0 else nth p acc 0.
Proof.
  induction order as [|o t IH]; intros acc p Hnd Hlt; [reflexivity|].
  inversion Hnd as [|? ? Hnotin Hnd']; subst. cbn [fill existsb].
  assert (Hlt' : forall acc' : list N, length acc' = length acc -> forall o', In o' t -> (N.to_nat o' < length acc')%nat).
  { intros acc' E o' Ho'. rewrite E. apply Hlt. right. exact Ho'. }
  destruct (Nat.eqb_spec (N.to_nat o) p) as [Ep|Np].
  - assert (Ex : existsb (fun o0 => (N.to_nat o0 =? p)%nat) t = false).
    { destruct (existsb _ t) eqn:E; [|reflexivity]. apply existsb_exists in E. destruct E as [o' [Ho' Eo']].
      apply Nat.eqb_eq in Eo'. exfalso. apply Hnotin. replace o with o' by lia. exact Ho'. }
    cbn [orb]. subst p. destruct (N.eqb_spec (nth (N.to_nat o) cl 0) 0) as [Ez|Ez]; cbn [negb andb].
    + rewrite IH by (try assumption; apply Hlt'; reflexivity). rewrite Ex. reflexivity.
    + rewrite IH by (try assumption; apply Hlt'; rewrite set_nth_length; reflexivity). rewrite Ex. cbn [andb].
      rewrite set_nth_upd. apply upd_nth_same. apply Hlt. left. reflexivity.
  - cbn [orb]. destruct (N.eqb_spec (nth (N.to_nat o) cl 0) 0) as [Ez|Ez].
    + apply IH; [assumption|apply Hlt'; reflexivity].
    + rewrite IH by (try assumption; apply Hlt'; rewrite set_nth_length; reflexivity).
      rewrite set_nth_upd, upd_nth_other by exact Np. reflexivity.
Qed.

(* Kraft sum of the 18 code length code lengths in units of 1/32 *)
Lemma sum18 (f g : N -> N) (cl : list N) : length cl = 18%nat -> (forall i, nth i cl 0 <= 5) ->
  (forall c, c <= 5 -> g c = 1024 * f c) ->
  fold_right (fun c acc => g c + acc) 0 cl = 1024 * fold_right (fun o acc => f (nth (N.to_nat o) cl 0) + acc) 0 rfc_cl_order.
Proof.
  intros Hl Hcl Hfg.
  do 18 (destruct cl as [|? cl]; [discriminate|]). destruct cl; [|discriminate].
  pose proof (Hcl 0%nat) as H0. pose proof (Hcl 1%nat) as H1. pose proof (Hcl 2%nat) as H2. pose proof (Hcl 3%nat) as H3.
  pose proof (Hcl 4%nat) as H4. pose proof (Hcl 5%nat) as H5. pose proof (Hcl 6%nat) as H6. pose proof (Hcl 7%nat) as H7.
  pose proof (Hcl 8%nat) as H8. pose proof (Hcl 9%nat) as H9. pose proof (Hcl 10%nat) as H10. pose proof (Hcl 11%nat) as H11.
  pose proof (Hcl 12%nat) as H12. pose proof (Hcl 13%nat) as H13. pose proof (Hcl 14%nat) as H14. pose proof (Hcl 15%nat) as H15.
  pose proof (Hcl 16%nat) as H16. pose proof (Hcl 17%nat) as H17.
  cbn [nth] in H0, H1, H2, H3, H4, H5, H6, H7, H8, H9, H10, H11, H12, H13, H14, H15, H16, H17.
  unfold rfc_cl_order. cbn [fold_right].
  repeat match goal with |- context [N.to_nat ?k] =>
    let v := eval cbv in (N.to_nat k) in change (N.to_nat k) with v end.
  cbn [nth]. rewrite !Hfg by assumption. lia.
Qed.

Lemma term_w32u c : c <= 5 -> (if c =? 0 then 0 else 2 ^ (15 - c)) = 1024 * w32u c.
Proof.
  intros H. assert (E : c = 0 \/ c = 1 \/ c = 2 \/ c = 3 \/ c = 4 \/ c = 5) by lia.
  destruct E as [->|[->|[->|[->|[->| ->]]]]]; reflexivity.
Qed.

Lemma kraft_wsum cl : length cl = 18%nat -> (forall i, nth i cl 0 <= 5) -> kraft cl = 1024 * wsum32 cl rfc_cl_order.
Proof.
  intros Hl Hcl. unfold wsum32.
  rewrite <- (sum18 w32u (fun c => if c =? 0 then 0 else 2 ^ (15 - c)) cl Hl Hcl term_w32u).
  unfold kraft, MAX_BITS. clear. induction cl as [|c cl IH]; [reflexivity|]. cbn [fold_right]. rewrite IH.
  destruct (c =? 0); reflexivity.
Qed.

Lemma read_clcl_zero l nz acc bs : read_clcl l 0 nz acc bs = Some (acc, nz, 0, bs).
Proof. destruct l; reflexivity. Qed.

Lemma last_snoc (l : list N) x : last (l ++ [x]) 0 = x.
Proof. induction l as [|a l IH]; [reflexivity|]. cbn [app]. destruct (l ++ [x]) eqn:E; [destruct l; discriminate|]. exact IH. Qed.

(* reading back the code length code lengths *)
Lemma read_cl_part cl (skip cts : nat) rest :
  length cl = 18%nat -> (forall i, nth i cl 0 <= 5) ->
  (skip <= 3)%nat -> (cts <= 18)%nat ->
  (forall k, (k < skip)%nat -> nth (N.to_nat (ord k)) cl 0 = 0) ->
  (forall k, (cts <= k < 18)%nat -> nth (N.to_nat (ord k)) cl 0 = 0) ->
  ((wsum32 cl rfc_cl_order = 32 /\ (cts = 0%nat \/ nth (N.to_nat (ord (cts - 1))) cl 0 <> 0)) \/
   (wsum32 cl rfc_cl_order = 16 /\ cts = 18%nat /\ forall i, nth i cl 0 = 0 \/ nth i cl 0 = 1)) ->
  exists nz space,
    read_clcl (skipn skip rfc_cl_order) 32 0 (repeat 0 18) (enc_order cl (seg skip cts) ++ rest) = Some (cl, nz, space, rest) /\
    ((wsum32 cl rfc_cl_order = 32 /\ space = 0 /\ 2 <= nz) \/ (wsum32 cl rfc_cl_order = 16 /\ space = 16 /\ nz = 1)).
Proof.
  intros Hl Hcl Hs3 Hc18 Hz1 Hz2 HS.
  assert (Hz1' : wsum32 cl (seg 0 skip) = 0).
  { apply wsum32_zero. intros o Ho. rewrite seg_map in Ho by lia. apply in_map_iff in Ho. destruct Ho as [k [<- Hk]].
    apply in_seq in Hk. apply Hz1. lia. }
  assert (Hz2' : wsum32 cl (seg cts 18) = 0).
  { apply wsum32_zero. intros o Ho. rewrite seg_map in Ho by lia. apply in_map_iff in Ho. destruct Ho as [k [<- Hk]].
    apply in_seq in Hk. apply Hz2. lia. }
  assert (Hsc : (skip <= cts)%nat).
  { destruct HS as [[HS [->|Hlast]]|[_ [-> _]]]; [| |lia].
    - exfalso. rewrite <- seg_full in HS. rewrite Hz2' in HS. discriminate.
    - destruct (Nat.le_gt_cases skip cts) as [|Hgt]; [assumption|]. exfalso.
      destruct (Nat.eq_dec cts 0) as [->|Hc0].
      + rewrite <- seg_full in HS. rewrite Hz2' in HS. discriminate.
      + apply Hlast. apply Hz1. lia. }
  set (S := wsum32 cl (seg skip cts)).
  assert (HSeq : wsum32 cl rfc_cl_order = S).
  { rewrite <- seg_full. rewrite (seg_app 0 skip 18), (seg_app skip cts 18) by lia.
    rewrite !wsum32_app, Hz1', Hz2'. unfold S. lia. }
  assert (Hok : ok_space cl (seg skip cts) 32).
  { apply ok_space_intro; [exact Hcl| |].
    - fold S. rewrite <- HSeq. destruct HS as [[-> _]|[-> _]]; lia.
    - fold S. rewrite <- HSeq. destruct HS as [[HS [->|Hlast]]|[-> _]]; [| |left; lia].
      + exfalso. rewrite <- seg_full in HS. rewrite Hz2' in HS. discriminate.
      + right. destruct (Nat.eq_dec cts 0) as [->|Hc0].
        * exfalso. rewrite <- seg_full in HS. rewrite Hz2' in HS. discriminate.
        * assert (Hsk1 : (skip <= cts - 1)%nat).
          { destruct (Nat.le_gt_cases skip (cts - 1)) as [|Hgt]; [assumption|]. exfalso. apply Hlast. apply Hz1. lia. }
          replace cts with (Datatypes.S (cts - 1)) at 1 by lia. rewrite seg_snoc by lia. rewrite last_snoc. exact Hlast. }
  rewrite (seg_split skip cts Hsc).
  rewrite (read_clcl_enc cl Hcl _ _ _ _ _ _ Hok). fold S. rewrite N.add_0_l.
  assert (Hfill : fill cl (seg skip cts) (repeat 0 18) = cl).
  { apply list_ext; [|intros p Hp].
    - assert (Hfl : forall order acc, length (fill cl order acc) = length acc).
      { induction order as [|o t IH]; intros acc; [reflexivity|]. cbn [fill].
        destruct (nth (N.to_nat o) cl 0 =? 0); rewrite IH; [reflexivity|apply set_nth_length]. }
      rewrite Hfl, Hl. reflexivity.
    - assert (Hfl : length (fill cl (seg skip cts) (repeat 0 18)) = 18%nat).
      { assert (Hfl : forall order acc, length (fill cl order acc) = length acc).
        { induction order as [|o t IH]; intros acc; [reflexivity|]. cbn [fill].
          destruct (nth (N.to_nat o) cl 0 =? 0); rewrite IH; [reflexivity|apply set_nth_length]. }
        rewrite Hfl. reflexivity. }
      rewrite Hfl in Hp.
      rewrite fill_nth.
      + destruct (ord_pos p Hp) as [Eo Hk]. set (k := pos_of p) in *.
        destruct (existsb (fun o => (N.to_nat o =? p)%nat) (seg skip cts)) eqn:Ex.
        * cbn [andb]. destruct (N.eqb_spec (nth p cl 0) 0) as [E|E]; cbn [negb]; [|reflexivity].
          rewrite nth_repeat. symmetry. exact E.
        * cbn [andb]. rewrite nth_repeat. symmetry.
          assert (Hnin : ~ (skip <= k < cts)%nat).
          { intros Hin. apply (in_seg skip cts k Hc18 Hk) in Hin.
            assert (existsb (fun o => (N.to_nat o =? p)%nat) (seg skip cts) = true); [|congruence].
            apply existsb_exists. exists (ord k). split; [exact Hin|]. apply Nat.eqb_eq. rewrite Eo. lia. }
          replace p with (N.to_nat (ord k)) by (rewrite Eo; lia).
          destruct (Nat.lt_ge_cases k skip); [apply Hz1; assumption|apply Hz2; lia].
      + apply seg_NoDup. exact Hc18.
      + intros o Ho. rewrite repeat_length. rewrite seg_map in Ho by exact Hc18. apply in_map_iff in Ho.
        destruct Ho as [k [<- Hk]]. apply in_seq in Hk. pose proof (ord_lt k ltac:(lia)). lia. }
  rewrite Hfill.
  destruct HS as [[HS32 _]|[HS16 [Ec18 H01]]].
  - exists (nzcount cl (seg skip cts)), 0. rewrite <- HSeq, HS32. change (32 - 32) with 0. rewrite read_clcl_zero.
    split; [reflexivity|]. left. split; [reflexivity|]. split; [reflexivity|].
    pose proof (wsum32_le_nz cl (seg skip cts)) as Hle. fold S in Hle. rewrite <- HSeq, HS32 in Hle. lia.
  - exists (nzcount cl (seg skip cts)), 16. rewrite <- HSeq, HS16. change (32 - 16) with 16. subst cts.
    change (skipn 18 rfc_cl_order) with (@nil N). cbn [read_clcl]. split; [reflexivity|]. right. split; [reflexivity|]. split; [reflexivity|].
    pose proof (wsum32_01 cl (seg skip 18) ltac:(intros o _; apply H01)) as He. fold S in He. rewrite <- HSeq, HS16 in He. lia.
Qed.

(* ------------------------------------------------------------------ more about runs of the sequence reader *)
Lemma cl_step_mono asz asz' st s e st' : asz <= asz' -> cl_step asz st s e = Some st' -> cl_step asz' st s e = Some st'.
Proof.
  intros Hle H. unfold cl_step in *. destruct (s <? 16).
  - destruct (N.ltb_spec (cl_n st) asz); [|discriminate]. destruct (N.ltb_spec (cl_n st) asz'); [exact H|lia].
  - destruct (s =? 16).
    + destruct (4 <=? e); [discriminate|].
      match type of H with (if asz <? ?x then _ else _) = _ =>
        destruct (N.ltb_spec asz x); [discriminate|]; destruct (N.ltb_spec asz' x); [lia|exact H] end.
    + destruct (s =? 17); [|discriminate]. destruct (8 <=? e); [discriminate|].
      match type of H with (if asz <? ?x then _ else _) = _ =>
        destruct (N.ltb_spec asz x); [discriminate|]; destruct (N.ltb_spec asz' x); [lia|exact H] end.
Qed.

Lemma cl_run_mono asz asz' : asz <= asz' -> forall t st st', cl_run asz st t = Some st' -> cl_run asz' st t = Some st'.
Proof.
  intros Hle. induction t as [|[s e] t IH]; intros st st' H; [exact H|]. cbn [cl_run] in *.
  destruct (cl_step asz st s e) as [st1|] eqn:E; [|discriminate]. rewrite (cl_step_mono _ _ _ _ _ _ Hle E). apply IH. exact H.
Qed.

Lemma cl_run_extras asz : forall t st st', cl_run asz st t = Some st' ->
  forall s e, In (s, e) t -> s < 18 /\ (s = 16 -> e < 4) /\ (s = 17 -> e < 8).
Proof.
  induction t as [|[s0 e0] t IH]; intros st st' H s e Hin; [destruct Hin|]. cbn [cl_run] in H.
  destruct (cl_step asz st s0 e0) as [st1|] eqn:E; [|discriminate]. destruct Hin as [Heq|Hin]; [|apply (IH st1 st' H s e Hin)].
  inversion Heq; subst. unfold cl_step in E. destruct (N.ltb_spec s 16).
  - split; [lia|]. split; intros; lia.
  - destruct (N.eqb_spec s 16) as [->|N16].
    + destruct (N.leb_spec 4 e); [discriminate|]. split; [lia|]. split; [intros; assumption|intros; lia].
    + destruct (N.eqb_spec s 17) as [->|N17]; [|discriminate].
      destruct (N.leb_spec 8 e); [discriminate|]. split; [lia|]. split; [intros; lia|intros; assumption].
Qed.

Lemma cl_run_length asz : forall t st st', good st -> cl_run asz st t = Some st' ->
  cl_n st + N.of_nat (length t) <= cl_n st'.
Proof.
  induction t as [|[s e] t IH]; intros st st' G H; [inversion H; cbn; lia|]. cbn [cl_run] in H.
  destruct (cl_step asz st s e) as [st1|] eqn:E; [|discriminate].
  destruct (cl_step_good _ _ _ _ _ G E) as [G1 [added [Hne Hrev]]].
  specialize (IH st1 st' G1 H). destruct G as [_ [Gn _]]. destruct G1 as [_ [G1n _]].
  rewrite Hrev, app_length in G1n. destruct added; [contradiction|]. cbn [length] in *. lia.
Qed.

Lemma kraft_rev l : kraft (rev l) = kraft l.
Proof. induction l as [|x l IH]; [reflexivity|]. cbn [rev]. rewrite kraft_app, IH, !kraft_cons. cbn [kraft fold_right]. lia. Qed.

Lemma strip_cases d : strip_trailing_zeros d = [] \/ exists x v, strip_trailing_zeros d = x ++ [v] /\ v <> 0.
Proof.
  induction d as [|a d IH]; [left; reflexivity|]. cbn [strip_trailing_zeros].
  destruct IH as [E|[x [v [E Hv]]]].
  - rewrite E. destruct (N.eqb_spec a 0); [left; reflexivity|right; exists [], a; auto].
  - rewrite E. right. destruct (x ++ [v]) eqn:E2; [destruct x; discriminate|]. exists (a :: x), v. rewrite <- E2. auto.
Qed.

Lemma strip_decomp d : exists k, d = strip_trailing_zeros d ++ repeat 0 k.
Proof.
  induction d as [|a d IH]; [exists 0%nat; reflexivity|]. destruct IH as [k Hk]. cbn [strip_trailing_zeros].
  destruct (strip_trailing_zeros d) eqn:E.
  - destruct (N.eqb_spec a 0) as [->|Ha].
    + exists (S k). cbn [app repeat]. f_equal. exact Hk.
    + exists k. cbn [app]. f_equal. exact Hk.
  - exists k. cbn [app]. f_equal. exact Hk.
Qed.

Lemma kraft_strip d : kraft (strip_trailing_zeros d) = kraft d.
Proof.
  destruct (strip_decomp d) as [k Hk]. rewrite Hk at 2. rewrite kraft_app, kraft_repeat. cbn [N.eqb]. lia.
Qed.

Lemma prefix_cond asz t st_f : cl_run asz cl_init t = Some st_f -> cl_space st_f = 32768 -> cl_n st_f <= asz ->
  (exists x l, cl_rev st_f = x :: l /\ x <> 0 /\ x <= 15) ->
  forall t1 t2 st1, t = t1 ++ t2 -> t2 <> [] -> cl_run asz cl_init t1 = Some st1 -> cl_n st1 < asz /\ cl_space st1 < 32768.
Proof.
  intros Hrun Hsp Hn [x [l [Hrev [Hx Hx15]]]] t1 t2 st1 -> Hne H1.
  rewrite cl_run_app, H1 in Hrun.
  destruct (cl_run_good asz t1 cl_init st1 good_init H1) as [G1 _].
  destruct (cl_run_good asz t2 st1 st_f G1 Hrun) as [Gf [added [Hadd Hnz]]].
  specialize (Hnz Hne). destruct added as [|y added]; [contradiction|].
  rewrite Hrev in Hadd. cbn [app] in Hadd. inversion Hadd; subst y.
  destruct G1 as [G1s [G1n _]]. destruct Gf as [Gfs [Gfn _]].
  rewrite Hrev in Gfs, Gfn. rewrite kraft_cons in Gfs.
  assert (Hl : l = added ++ cl_rev st1) by congruence. rewrite Hl, kraft_app in Gfs. rewrite Hl in Gfn. cbn [length] in Gfn. rewrite app_length in Gfn.
  destruct (N.eqb_spec x 0); [contradiction|].
  assert (Hp : 2 ^ (15 - x) <> 0) by (apply N.pow_nonzero; discriminate).
  remember (2 ^ (15 - x)) as w. split; lia.
Qed.

Lemma first_nonzero_single code : code < 18 -> first_nonzero (upd (repeat 0 18) (N.to_nat code) 1) 0 = Some code.
Proof.
  intros H. assert (E : forallb (fun c => match first_nonzero (upd (repeat 0 18) (N.to_nat c) 1) 0 with Some x => x =? c | None => false end)
                                (range_nat 0 18) = true) by (vm_compute; reflexivity).
  rewrite forallb_forall in E. specialize (E code ltac:(apply range_nat_In; lia)).
  destruct (first_nonzero _ 0); [apply N.eqb_eq in E; subst; reflexivity|discriminate].
Qed.

Lemma strip_pad d asz : N.of_nat (length d) <= asz ->
  strip_trailing_zeros d ++ zeros (asz - N.of_nat (length (strip_trailing_zeros d))) = d ++ zeros (asz - N.of_nat (length d)).
Proof.
  intros H. destruct (strip_decomp d) as [k Hk]. remember (strip_trailing_zeros d) as s eqn:Es. clear Es. subst d.
  rewrite app_length, repeat_length in *. rewrite <- app_assoc. f_equal.
  unfold zeros. rewrite <- repeat_app. f_equal. lia.
Qed.

(* ------------------------------------------------------------------ C17_store, complex form *)
Theorem store_complex depths asz pool out out' pool' rr r :
  wf_depths depths -> kraft depths = 32768 ->
  N.of_nat (length depths) <= 704 -> N.of_nat (length depths) <= asz ->
  store_huffman_tree depths (N.of_nat (length depths)) pool out = Done (out', pool', rr) -> rr <= 27 ->
  exists bs, out' = out ++ bs /\
    rfc_read_prefix_code asz (bs ++ r) =
    Some ({| pc_lengths := depths ++ zeros (asz - N.of_nat (length depths)); pc_single := None |}, r).
Proof.
  intros Hwf Hk H704 Hasz Hrun Hrr. unfold store_huffman_tree in Hrun.
  set (len := N.of_nat (length depths)) in *.
  (* the run-length coded lengths *)
  inv_bind Hrun. rename a into t.
  destruct (rle_expand depths 704 Hwf) as [t' [Et' Hexp]];
    [eapply N.le_lt_trans; [exact H704|]; apply (N.pow_lt_mono_r 2 10 63); lia|exact H704|].
  fold len in Et', Hexp. rewrite E in Et'. inversion Et'. subst t'. clear Et'.
  unfold rfc_expand in Hexp. destruct (cl_run len cl_init t) as [st_f|] eqn:Erun0; [|discriminate].
  inversion Hexp as [Hrevf]. clear Hexp.
  assert (Erun : cl_run asz cl_init t = Some st_f) by (apply (cl_run_mono len asz Hasz); exact Erun0).
  destruct (cl_run_good asz t cl_init st_f good_init Erun) as [[Gs [Gn Gp]] _].
  assert (Hrevf' : cl_rev st_f = rev (strip_trailing_zeros depths)) by (rewrite <- Hrevf, rev_involutive; reflexivity).
  assert (Hspace : cl_space st_f = 32768) by (rewrite Gs, Hrevf', kraft_rev, kraft_strip; exact Hk).
  assert (Hnf : cl_n st_f = N.of_nat (length (strip_trailing_zeros depths))) by (rewrite Gn, Hrevf', rev_length; reflexivity).
  assert (Hstriplen : N.of_nat (length (strip_trailing_zeros depths)) <= len).
  { destruct (strip_decomp depths) as [k Hd]. unfold len. rewrite Hd at 2. rewrite app_length. lia. }
  assert (Hhead : exists x l, cl_rev st_f = x :: l /\ x <> 0 /\ x <= 15).
  { destruct (strip_cases depths) as [E0|[x [v [Ex Hv]]]].
    - exfalso. rewrite <- kraft_strip, E0 in Hk. discriminate.
    - rewrite Hrevf', Ex, rev_app_distr. cbn [rev app]. exists v, (rev x). split; [reflexivity|]. split; [exact Hv|].
      apply Hwf. destruct (strip_decomp depths) as [k Hd]. rewrite Hd, Ex. apply in_or_app. left. apply in_or_app. right. left. reflexivity. }
  assert (Htlen : N.of_nat (length t) <= 704).
  { pose proof (cl_run_length asz t cl_init st_f good_init Erun) as Hlen. cbn [cl_init cl_n] in Hlen. lia. }
  (* histogram and the code length code *)
  inv_bind Hrun. rename a into hist.
  destruct (hist_spec t hist ltac:(change (2 ^ 32) with 4294967296; lia) E0) as [Hhl [Hhocc Hh18]].
  destruct (count_codes hist 0 0 0) as [nc code] eqn:Ecc.
  inv_bind Hrun. destruct a as [[cl pool1] rr1].
  inv_bind Hrun. rename a into sym.
  inv_bind Hrun. rename a into out1.
  inv_bind Hrun. rename a into cl'.
  inv_bind Hrun. rename a into out2. inversion Hrun. subst out' pool' rr. clear Hrun.
  assert (Hhb : forall s, nth s hist 0 <= 704).
  { intros s. destruct (Nat.lt_ge_cases s 18) as [Hs|Hs]; [|rewrite nth_overflow by lia; lia].
    rewrite <- (Nat2N.id s), Hhocc. pose proof (occ_le (map fst t) (N.of_nat s)) as Ho. rewrite map_length in Ho. lia. }
  assert (Hnc : nc <> 0).
  { destruct (count_codes_spec hist 0 nc code Ecc) as [[_ Hz]|[[-> _]|[-> _]]]; try discriminate. exfalso.
    destruct t as [|[s e] t].
    - cbn in Erun. inversion Erun. subst st_f. cbn in Hspace. discriminate.
    - assert (Hs : nth (N.to_nat s) hist 0 <> 0) by (rewrite Hhocc; apply occ_pos; left; reflexivity).
      assert (Hs18 : s < 18) by (apply Hh18; left; reflexivity).
      assert (Hin : In (N.to_nat s) (supp hist 18)) by (apply supp_spec; split; [lia|exact Hs]).
      pose proof (supp_length hist 18 ltac:(lia)) as Hsl. rewrite firstn_all2, Hz in Hsl by lia.
      destruct (supp hist 18); [destruct Hin|discriminate]. }
  destruct (cl_tree_facts hist pool cl pool1 rr1 nc code Hhl Hhb Ecc Hnc E1 Hrr) as [Hcl18 [Hcl5 [Hclsupp Hcases]]].
  (* canonical symbols of the code length code *)
  assert (Hwfcl : wf_depths cl).
  { intros l Hl. apply (In_nth _ _ 0) in Hl. destruct Hl as [k [_ <-]]. pose proof (Hcl5 k). unfold MAX_BITS. lia. }
  assert (Hkcl : kraft cl <= 32768).
  { destruct Hcases as [[_ ->]|[_ [Hc18 [-> _]]]]; [lia|].
    change (repeat 0 18) with (zeros 18). rewrite <- set_nth_upd, kraft_set_nth, kraft_zeros;
      [unfold term; cbn; lia|rewrite zeros_length; lia|apply nth_zeros|discriminate]. }
  destruct (canonical_all cl (repeat 0 18) Hwfcl Hkcl ltac:(rewrite Hcl18; reflexivity)) as [[sym' [Esym [Hsyml Hsymp]]] [_ Hdec]].
  rewrite Hcl18 in Esym. change (N.of_nat 18) with 18 in Esym. rewrite E2 in Esym. inversion Esym. subst sym'. clear Esym.
  destruct (store_cl_lengths nc cl out out1 Hcl18 Hcl5 E3) as [skip [cts [Hs [Hc18 [-> [Hz1 [Hs0 [Hs2 [HA HB]]]]]]]]].
  apply store_seq in E5. subst out2.
  eexists. split; [rewrite <- !app_assoc; reflexivity|].
  unfold rfc_read_prefix_code. rewrite <- !app_assoc.
  rewrite read_bits_written by (destruct Hs as [->|[->| ->]]; cbn; lia).
  assert (Hs1 : (N.of_nat skip =? 1) = false) by (destruct Hs as [->|[->| ->]]; reflexivity). rewrite Hs1.
  unfold rfc_read_complex. rewrite Nat2N.id.
  assert (Hs3 : (skip <= 3)%nat) by lia.
  assert (Hstop : forall fuel single bs, read_cl_sequence fuel asz cl single st_f bs = Some (st_f, bs)).
  { intros fuel single bs. destruct fuel; cbn [read_cl_sequence]; rewrite Hspace; change (32768 <? 32768) with false;
      rewrite andb_false_r; reflexivity. }
  assert (Hfuel : (length t < S (N.to_nat asz))%nat).
  { pose proof (cl_run_length asz t cl_init st_f good_init Erun) as Hlen. cbn [cl_init cl_n] in Hlen. lia. }
  assert (Hpre := prefix_cond asz t st_f Erun Hspace ltac:(lia) Hhead).
  assert (Hex := cl_run_extras asz t cl_init st_f Erun).
  assert (Hfinal : Some ({| pc_lengths := rev (cl_rev st_f) ++ zeros (asz - cl_n st_f); pc_single := None |}, r)
                   = Some ({| pc_lengths := depths ++ zeros (asz - len); pc_single := None |}, r)).
  { rewrite Hrevf, Hnf, strip_pad by exact Hasz. reflexivity. }
  destruct Hcases as [[-> Hkr]|[-> [Hc18' [Ecl [Hcode Hothers]]]]].
  - (* at least two code length symbols in use: a canonical code *)
    assert (HS : wsum32 cl rfc_cl_order = 32).
    { pose proof (kraft_wsum cl Hcl18 Hcl5) as Hkw. rewrite Hkr in Hkw. lia. }
    destruct (HA eq_refl) as [Hz2 Hlast].
    destruct (read_cl_part cl skip cts (enc_seq (sym_bits cl' sym) t ++ r) Hcl18 Hcl5 Hs3 Hc18 Hz1 Hz2
                ltac:(left; split; [exact HS|exact Hlast])) as [nz [space [Ercl [[_ [-> Hnz]]|[HS16 _]]]]];
      [|rewrite HS in HS16; discriminate].
    rewrite Ercl. destruct (N.eqb_spec nz 1) as [|_]; [lia|]. cbn [orb negb N.eqb].
    change (2 =? 1) with false in E4. inversion E4. subst cl'.
    rewrite (seq_read asz cl None (sym_bits cl sym) (fun s => In s (map fst t))) with (st_f := st_f).
    + rewrite Hstop, Hspace. change (32768 =? 32768) with true. exact Hfinal.
    + intros s r0 Hs'. unfold read_cl_symbol, sym_bits.
      assert (Hs18 : s < 18) by (apply Hh18; exact Hs').
      assert (Hnzs : nth (N.to_nat s) cl 0 <> 0).
      { apply Hclsupp; [lia|]. rewrite Hhocc. apply occ_pos. exact Hs'. }
      destruct (Hsymp (N.to_nat s) ltac:(lia) Hnzs) as [_ Hbits]. rewrite Hbits.
      rewrite (Hdec (N.to_nat s) r0 ltac:(lia) Hnzs), N2Nat.id. reflexivity.
    + intros s e Hin. destruct (Hex s e Hin) as [_ [H16 H17]]. split; [|split; assumption].
      apply in_map_iff. exists (s, e). auto.
    + exact Erun.
    + exact Hpre.
    + exact Hfuel.
  - (* a single code length symbol in use: it is coded with zero bits *)
    assert (Hcl01 : forall i, nth i cl 0 = 0 \/ nth i cl 0 = 1).
    { intros i. rewrite Ecl. destruct (Nat.eq_dec i (N.to_nat code)) as [->|Hne].
      - right. apply upd_nth_same. cbn. lia.
      - left. rewrite upd_nth_other by lia.
        destruct (Nat.lt_ge_cases i 18); [apply nth_repeat|apply nth_overflow; cbn; lia]. }
    assert (HS : wsum32 cl rfc_cl_order = 16).
    { pose proof (kraft_wsum cl Hcl18 Hcl5) as Hkw.
      assert (Hk16 : kraft cl = 16384).
      { rewrite Ecl. change (repeat 0 18) with (zeros 18). rewrite <- set_nth_upd, kraft_set_nth, kraft_zeros;
          [reflexivity|rewrite zeros_length; lia|apply nth_zeros|discriminate]. }
      rewrite Hk16 in Hkw. lia. }
    assert (Hcts : cts = 18%nat) by (apply HB; reflexivity).
    assert (Hz2 : forall k, (cts <= k < 18)%nat -> nth (N.to_nat (ord k)) cl 0 = 0) by (intros k Hkk; lia).
    destruct (read_cl_part cl skip cts (enc_seq (sym_bits cl' sym) t ++ r) Hcl18 Hcl5 Hs3 Hc18 Hz1 Hz2
                ltac:(right; split; [exact HS|split; [exact Hcts|exact Hcl01]])) as [nz [space [Ercl [[HS32 _]|[_ [-> ->]]]]]];
      [rewrite HS in HS32; discriminate|].
    rewrite Ercl. change (1 =? 1) with true. cbn [orb negb].
    rewrite Ecl, first_nonzero_single by exact Hc18'. rewrite <- Ecl.
    apply setA_done in E4. destruct E4 as [_ ->].
    rewrite (seq_read asz cl (Some code) (sym_bits (upd cl (N.to_nat code) 0) sym) (fun s => s = code)) with (st_f := st_f).
    + rewrite Hstop, Hspace. change (32768 =? 32768) with true. exact Hfinal.
    + intros s r0 ->. unfold read_cl_symbol, sym_bits. rewrite upd_nth_same by lia. reflexivity.
    + intros s e Hin. destruct (Hex s e Hin) as [Hs18 [H16 H17]]. split; [|split; assumption].
      assert (Hocc : nth (N.to_nat s) hist 0 <> 0).
      { rewrite Hhocc. apply occ_pos. apply in_map_iff. exists (s, e). auto. }
      destruct (N.eq_dec s code) as [|Hne]; [assumption|]. exfalso. apply Hocc. apply Hothers; lia.
    + exact Erun.
    + exact Hpre.
    + exact Hfuel.
Qed.
