(* C17_store, complex form, without the premise on the retries of the code length code's own tree:
   with the caller's scratch array (at least 2 * 18 + 1 nodes) BrotliCreateHuffmanTree on the
   18-symbol histogram returns after at most 10 doublings (C17_tree), so the premise `rr <= 27` of
   store_complex follows. *)
From Coq Require Import NArith ZArith List Lia Bool Arith Permutation.
From V Require Import lib.Words lib.Finite gen.GenHuffman spec.PrefixCode model.Huffman
  proofs.Canonical_proofs proofs.Huffman_proofs proofs.Rle_proofs proofs.Store_proofs proofs.Tree_proofs
  proofs.Complex_proofs proofs.Tree_termination.
Import ListNotations.
Open Scope N_scope.

Lemma max_le_bound (l : list N) M : 1 <= M -> (forall c, In c l -> c <= M) -> fold_right N.max 1 l <= M.
Proof.
  intros HM. induction l as [|x l IH]; intros H; [cbn; exact HM|]. cbn [fold_right].
  pose proof (H x ltac:(left; reflexivity)). pose proof (IH ltac:(intros c Hc; apply H; right; exact Hc)). lia.
Qed.

Lemma cl_tree_retries hist pool cl pool' rr nc code :
  length hist = 18%nat -> (forall s, nth s hist 0 <= 704) ->
  count_codes hist 0 0 0 = (nc, code) -> nc <> 0 -> (37 <= length pool)%nat ->
  create_huffman_tree hist cl_alphabet_size (Z.of_N cl_tree_limit) pool (repeat 0 18) = Done (cl, pool', rr) ->
  rr <= 10.
Proof.
  intros Hl Hb Hcc Hnc Hpool Hrun.
  change cl_alphabet_size with (N.of_nat 18) in Hrun. rewrite <- Hl in Hrun at 1.
  change (Z.of_N cl_tree_limit) with 5%Z in Hrun.
  assert (HbIn : forall c, In c hist -> c <= 704).
  { intros c Hc. apply (In_nth _ _ 0) in Hc. destruct Hc as [k [_ <-]]. apply Hb. }
  pose proof (max_le_bound hist 704 ltac:(lia) HbIn) as HM.
  destruct (count_codes_spec hist 0 nc code Hcc) as [[H0 _]|[[H1 [Hn1 [_ Hc1]]]|[H2 Hn2]]]; [contradiction| |].
  - rewrite N.sub_0_r in Hc1.
    assert (Hclt : (N.to_nat code < 18)%nat).
    { destruct (Nat.lt_ge_cases (N.to_nat code) 18) as [|Hge]; [assumption|]. rewrite nth_overflow in Hc1 by lia. contradiction. }
    pose proof (supp_single hist (N.to_nat code) Hl Hn1 Hclt Hc1) as Hs. rewrite <- Hl in Hs at 1.
    destruct (tree_one hist 5 pool (repeat 0 18) cl pool' rr (N.to_nat code) ltac:(rewrite Hl; cbn; lia) Hs Hrun) as [_ [_ ->]].
    lia.
  - assert (A1 : (0 <= 5 <= 15)%Z) by lia.
    assert (A2 : 2 * N.of_nat (length hist) + 1 <= 32768) by (rewrite Hl; cbn; lia).
    assert (A3 : N.of_nat (length hist) <= 2 ^ Z.to_N 5) by (rewrite Hl; cbn; lia).
    assert (A4 : 2 * N.of_nat (length hist) + 1 <= N.of_nat (length pool)) by (rewrite Hl; lia).
    assert (A5 : N.of_nat (length hist) * (2 * fold_right N.max 1 hist) < 2 ^ 32 - 1).
    { rewrite Hl. remember (fold_right N.max 1 hist) as M. change (N.of_nat 18) with 18. change (2 ^ 32) with 4294967296. lia. }
    assert (A6 : length (repeat 0 18) = length hist) by (rewrite Hl; reflexivity).
    assert (A7 : forall i, nth i hist 0 = 0 -> nth i (repeat 0 18) 0 = 0).
    { intros i _. destruct (Nat.lt_ge_cases i 18); [apply nth_repeat|apply nth_overflow; cbn; lia]. }
    destruct (tree_total hist 5 pool (repeat 0 18) A1 Hn2 A2 A3 A4 A5 A6 A7) as [d [p [r [Hrun' [Hr _]]]]].
    rewrite Hrun in Hrun'. inversion Hrun'. subst r.
    eapply N.le_trans; [exact Hr|]. eapply N.le_trans; [apply N.log2_up_le_mono; exact HM|]. vm_compute. discriminate.
Qed.

Theorem store_complex_pool depths asz pool out out' pool' rr r :
  wf_depths depths -> kraft depths = 32768 ->
  N.of_nat (length depths) <= 704 -> N.of_nat (length depths) <= asz ->
  (37 <= length pool)%nat ->
  store_huffman_tree depths (N.of_nat (length depths)) pool out = Done (out', pool', rr) ->
  exists bs, out' = out ++ bs /\
    rfc_read_prefix_code asz (bs ++ r) =
    Some ({| pc_lengths := depths ++ zeros (asz - N.of_nat (length depths)); pc_single := None |}, r).
Proof.
  intros Hwf Hk H704 Hasz Hpool Hrun0. apply (store_complex depths asz pool out out' pool' rr r Hwf Hk H704 Hasz Hrun0).
  pose proof Hrun0 as Hrun. unfold store_huffman_tree in Hrun.
  set (len := N.of_nat (length depths)) in *.
  (* the run-length coded lengths *)
  inv_bind Hrun. rename a into t.
  destruct (rle_expand depths 704 Hwf) as [t' [Et' Hexp]];
    [eapply N.le_lt_trans; [exact H704|]; apply (N.pow_lt_mono_r 2 10 63); lia|exact H704|].
  fold len in Et', Hexp. rewrite E in Et'. inversion Et'. subst t'. clear Et'.
  unfold rfc_expand in Hexp. destruct (cl_run len cl_init t) as [st_f|] eqn:Erun0; [|discriminate].
  inversion Hexp as [Hrevf]. clear Hexp.
  assert (Erun : cl_run asz cl_init t = Some st_f) by (apply (cl_run_mono len asz Hasz); exact Erun0).
  destruct (cl_run_good asz t cl_init st_f good_init Erun) as [[Gs [Gn Gp]] _].
  assert (Hrevf' : cl_rev st_f = rev (strip_trailing_zeros depths)) by (rewrite <- Hrevf, rev_involutive; reflexivity).
  assert (Hspace : cl_space st_f = 32768) by (rewrite Gs, Hrevf', kraft_rev, kraft_strip; exact Hk).
  assert (Hnf : cl_n st_f = N.of_nat (length (strip_trailing_zeros depths))) by (rewrite Gn, Hrevf', rev_length; reflexivity).
  assert (Hstriplen : N.of_nat (length (strip_trailing_zeros depths)) <= len).
  { destruct (strip_decomp depths) as [k Hd]. unfold len. rewrite Hd at 2. rewrite app_length. lia. }
  assert (Hhead : exists x l, cl_rev st_f = x :: l /\ x <> 0 /\ x <= 15).
  { destruct (strip_cases depths) as [E0|[x [v [Ex Hv]]]].
    - exfalso. rewrite <- kraft_strip, E0 in Hk. discriminate.
    - rewrite Hrevf', Ex, rev_app_distr. cbn [rev app]. exists v, (rev x). split; [reflexivity|]. split; [exact Hv|].
      apply Hwf. destruct (strip_decomp depths) as [k Hd]. rewrite Hd, Ex. apply in_or_app. left. apply in_or_app. right. left. reflexivity. }
  assert (Htlen : N.of_nat (length t) <= 704).
  { pose proof (cl_run_length asz t cl_init st_f good_init Erun) as Hlen. cbn [cl_init cl_n] in Hlen. lia. }
  (* histogram and the code length code *)
  inv_bind Hrun. rename a into hist.
  destruct (hist_spec t hist ltac:(change (2 ^ 32) with 4294967296; lia) E0) as [Hhl [Hhocc Hh18]].
  destruct (count_codes hist 0 0 0) as [nc code] eqn:Ecc.
  inv_bind Hrun. destruct a as [[cl pool1] rr1].
  inv_bind Hrun. rename a into sym.
  inv_bind Hrun. rename a into out1.
  inv_bind Hrun. rename a into cl'.
  inv_bind Hrun. rename a into out2. inversion Hrun. subst out' pool' rr. clear Hrun.
  assert (Hhb : forall s, nth s hist 0 <= 704).
  { intros s. destruct (Nat.lt_ge_cases s 18) as [Hs|Hs]; [|rewrite nth_overflow by lia; lia].
    rewrite <- (Nat2N.id s), Hhocc. pose proof (occ_le (map fst t) (N.of_nat s)) as Ho. rewrite map_length in Ho. lia. }
  assert (Hnc : nc <> 0).
  { destruct (count_codes_spec hist 0 nc code Ecc) as [[_ Hz]|[[-> _]|[-> _]]]; try discriminate. exfalso.
    destruct t as [|[s e] t].
    - cbn in Erun. inversion Erun. subst st_f. cbn in Hspace. discriminate.
    - assert (Hs : nth (N.to_nat s) hist 0 <> 0) by (rewrite Hhocc; apply occ_pos; left; reflexivity).
      assert (Hs18 : s < 18) by (apply Hh18; left; reflexivity).
      assert (Hin : In (N.to_nat s) (supp hist 18)) by (apply supp_spec; split; [lia|exact Hs]).
      pose proof (supp_length hist 18 ltac:(lia)) as Hsl. rewrite firstn_all2, Hz in Hsl by lia.
      destruct (supp hist 18); [destruct Hin|discriminate]. }
  pose proof (cl_tree_retries hist pool cl pool1 rr1 nc code Hhl Hhb Ecc Hnc Hpool E1). lia.
Qed.
