(* C03: the bit-level theorem for EVERY slicing (one-shot theorem + C12 slicing independence), the
   refutation of the statement without the end-marker side condition, and facts about that side
   condition (spec/ConcatMarker.v). *)
From Coq Require Import NArith ZArith List Bool Lia Arith PeanoNat.
From V Require Import lib.Words lib.Finite proofs.Bitops model.Concat model.ConcatRun spec.ConcatSpec spec.ConcatMarker
  proofs.Concat_proofs proofs.Concat_inv proofs.Concat_run proofs.Concat_findings proofs.Concat_tail proofs.Concat_delay
  proofs.Concat_slicing proofs.Concat_glue
  proofs.Concat_bitlib proofs.Concat_hdr proofs.Concat_strip proofs.Concat_oneshot proofs.Concat_bits proofs.Concat_member
  proofs.Concat_later proofs.Concat_final.
Import ListNotations.
Open Scope N_scope.

(* ------------------------------------------------------------------ the statement without the side condition is false *)
Definition bits_stmt : Prop :=
  forall (override : option N) (ms : list (list N)) (expected : list N) (fuel : nat) (cap : N),
    Forall bytes_ok ms -> (forall w, override = Some w -> 10 <= w /\ w <= 30) ->
    concat_spec override ms = Some expected ->
    lenN expected + 16 <= cap -> (4 * length ms + 8 <= fuel)%nat ->
    let r := run_native fuel [cap] false false [] (oneshot_tasks ms) (init override) in
    rr_final r = Done Success /\ rr_emitted r = expected.

(* a five-byte string whose "end marker" straddles bytes 3 and 4, followed by any member: the
   specification is defined, the concatenator answers BrotliFileNotCraftedForAppend (only one byte
   of such a member is held back, the ISLAST bit has already been written) *)
Definition ms_straddle5 : list (list N) := [[11; 0; 128; 128; 1]; [59]].
Lemma straddle5_facts :
  concat_spec None ms_straddle5 = Some [11; 0; 128; 128; 1] /\
  rr_final (run_native 16 [21] false false [] (oneshot_tasks ms_straddle5) (init None)) = Done BrotliFileNotCraftedForAppend /\
  markers_ok None ms_straddle5 = false.
Proof. vm_compute. repeat split; reflexivity. Qed.

Theorem bits_stmt_refuted : ~ bits_stmt.
Proof.
  intros H. destruct straddle5_facts as (Hs & Hr & _).
  specialize (H None ms_straddle5 [11; 0; 128; 128; 1] 16%nat 21).
  cbv zeta in H. rewrite Hr in H.
  assert (Hb : Forall bytes_ok ms_straddle5).
  { unfold ms_straddle5, bytes_ok. repeat (apply Forall_cons; [repeat (apply Forall_cons; [reflexivity|]); apply Forall_nil|]). apply Forall_nil. }
  destruct (H Hb ltac:(intros w Hw; discriminate Hw) Hs ltac:(cbn; lia) ltac:(cbn; lia)) as [H1 _].
  discriminate H1.
Qed.

(* the two other ways a marker inside the look-ahead bytes goes wrong (Success, other bytes) *)
Lemma marker_in_header_witnesses :
  (concat_spec None [m_large_first; [17; 22; 0; 0; 194]] = Some [17; 22; 2; 0; 2; 97; 0; 0; 8; 3] /\
   result (run_native 16 [30] false false [] (oneshot_tasks [m_large_first; [17; 22; 0; 0; 194]]) (init None))
     = (Done Success, [17; 22; 2; 0; 2; 97; 0; 0; 8]) /\
   markers_ok None [m_large_first; [17; 22; 0; 0; 194]] = false) /\
  (concat_spec (Some 22) [[17; 150; 0; 0; 160; 1]] = Some [43; 0; 0; 8; 3] /\
   result (run_native 16 [30] false false [] (oneshot_tasks [[17; 150; 0; 0; 160; 1]]) (init (Some 22)))
     = (Done Success, [43; 0; 0; 8; 1]) /\
   markers_ok (Some 22) [[17; 150; 0; 0; 160; 1]] = false).
Proof. vm_compute. repeat split; reflexivity. Qed.

(* ------------------------------------------------------------------ the side condition only concerns strings of 5 or 6 bytes *)
Theorem marker_ok_long later m : 7 <= lenN m -> member_marker_ok later m = true.
Proof.
  intros Hm. unfold member_marker_ok, LOOKAHEAD.
  replace (lenN m <? 5) with false by (symmetry; apply N.ltb_ge; lia).
  destruct (rfc_wbits _) as [[lgwin wlen]|]; [|reflexivity].
  destruct (strip_end_marker (bits_of_bytes m)) as [body|] eqn:Hs; [|reflexivity].
  pose proof (member_bits_len m body Hs) as Hb. cbv zeta. apply N.leb_le.
  destruct later; [|lia].
  destruct (first_header_len _) as [hlen|]; [|lia].
  destruct (N.ltb_spec 5 ((wlen + hlen + 7) / 8)); lia.
Qed.

(* why streams satisfy it: a shifted first header (metadata or uncompressed) is followed by
   byte-aligned content and by the final empty meta-block, so a stream of six or more bytes has at
   least two bytes after the header's source bytes ... *)
Theorem marker_ok_room later m : 6 <= lenN m ->
  (forall lgwin wlen hlen, rfc_wbits (byte_at m 0 + 256 * byte_at m 1) = Some (lgwin, wlen) ->
     first_header_len (skipn (N.to_nat wlen) (bits_of_bytes (takeN 6 m))) = Some hlen ->
     (wlen + hlen + 7) / 8 + 2 <= lenN m) ->
  member_marker_ok later m = true.
Proof.
  intros Hm Hroom. unfold member_marker_ok, LOOKAHEAD.
  replace (lenN m <? 5) with false by (symmetry; apply N.ltb_ge; lia).
  destruct (rfc_wbits _) as [[lgwin wlen]|] eqn:Hr; [|reflexivity].
  destruct (strip_end_marker (bits_of_bytes m)) as [body|] eqn:Hs; [|reflexivity].
  pose proof (member_bits_len m body Hs) as Hb. cbv zeta. apply N.leb_le.
  destruct later; [|lia].
  destruct (first_header_len _) as [hlen|] eqn:Hf; [|lia].
  specialize (Hroom lgwin wlen hlen eq_refl Hf).
  destruct (N.ltb_spec 5 ((wlen + hlen + 7) / 8)); lia.
Qed.

(* ... and in a stream of exactly five bytes the marker lies inside the last byte (that byte is not
   1) behind a header of at most four bytes *)
Theorem marker_ok_five later m : lenN m = 5 -> byte_at m 4 <> 1 -> bytes_ok m ->
  (forall lgwin wlen hlen, rfc_wbits (byte_at m 0 + 256 * byte_at m 1) = Some (lgwin, wlen) ->
     first_header_len (skipn (N.to_nat wlen) (bits_of_bytes (takeN 6 m))) = Some hlen ->
     (wlen + hlen + 7) / 8 <= 4) ->
  member_marker_ok later m = true.
Proof.
  intros Hm Hlast Hok Hroom. unfold member_marker_ok, LOOKAHEAD.
  replace (lenN m <? 5) with false by (symmetry; apply N.ltb_ge; lia).
  destruct (rfc_wbits _) as [[lgwin wlen]|] eqn:Hr; [|reflexivity].
  destruct (strip_end_marker (bits_of_bytes m)) as [body|] eqn:Hs; [|reflexivity].
  destruct (strip_some _ _ Hs) as (k & Hk & HL).
  assert (Hk6 : (k <= 6)%nat).
  { destruct (Nat.eq_dec k 7) as [->|]; [|lia]. exfalso. apply Hlast.
    destruct m as [|b0 [|b1 [|b2 [|b3 [|b4 [|b5 rest]]]]]]; cbn [lenN] in Hm; try lia.
    change (byte_at [b0; b1; b2; b3; b4] 4) with b4.
    change (bits_of_bytes [b0; b1; b2; b3; b4]) with (bits_of_bytes [b0; b1; b2; b3] ++ byte_bits 8 b4 ++ []) in HL.
    rewrite app_nil_r in HL.
    change ([true; true] ++ repeat false 7) with ([true] ++ ([true] ++ repeat false 7)) in HL.
    rewrite (app_assoc body) in HL.
    destruct (app_inv_len _ _ _ _ HL) as [_ H8].
    { apply (f_equal (@length bool)) in HL. rewrite !app_length, bits_of_bytes_length, byte_bits_length, repeat_length in HL.
      rewrite app_length, bits_of_bytes_length. cbn [length] in *. lia. }
    assert (Hb4 : b4 < 256).
    { unfold bytes_ok in Hok. rewrite Forall_forall in Hok. apply Hok. cbn. auto 10. }
    rewrite <- (byte_bits_small 8 b4 Hb4), H8. reflexivity. }
  assert (Lb : (40 = length body + (2 + k))%nat).
  { apply (f_equal (@length bool)) in HL. rewrite bits_of_bytes_length, !app_length, repeat_length in HL.
    cbn [length] in HL. rewrite lenN_length in Hm. lia. }
  cbv zeta. apply N.leb_le.
  destruct later; [|lia].
  destruct (first_header_len _) as [hlen|] eqn:Hf; [|lia].
  specialize (Hroom lgwin wlen hlen eq_refl Hf).
  destruct (N.ltb_spec 5 ((wlen + hlen + 7) / 8)); lia.
Qed.

(* ------------------------------------------------------------------ every slicing *)
Lemma one_shot_script ms : Forall bytes_ok ms -> script_of ms (oneshot_tasks ms).
Proof.
  intros H. induction H as [|m ms Hm Hms IH]; [constructor|].
  rewrite one_shot_cons. cbn [app]. apply (so_member m ms (oneshot_tasks ms)); [exact IH|].
  destruct m as [|b m']; [constructor|].
  cbn [app]. rewrite <- (app_nil_r (b :: m')) at 1.
  constructor; [discriminate|exact Hm|constructor].
Qed.

Lemma chunks_tasks_ok m after ts : chunks_of m after ts -> tasks_ok True after -> tasks_ok True ts.
Proof.
  intros H. induction H as [after|c m after ts Hc Hb Hch IH]; intros Ha; [exact Ha|].
  cbn [tasks_ok]. split; [exact I|]. split; [exact Hb|]. apply IH. exact Ha.
Qed.
Lemma script_tasks_ok ms ts : script_of ms ts -> forall P : Prop, tasks_ok P ts.
Proof.
  intros H. induction H as [|m ms ts ts' Hs IH Hch]; intros P; [exact I|].
  cbn [tasks_ok]. eapply chunks_tasks_ok; [exact Hch|apply IH].
Qed.

Lemma Inv_init override : (forall w, override = Some w -> 10 <= w /\ w <= 30) -> Inv (init override).
Proof.
  intros Hov. destruct override as [w|]; cbn [init]; [|apply Inv_new].
  destruct (Hov w eq_refl) as [H1 H2]. destruct (Inv_new_with_window_size w H1 H2) as (s & Es & Hs & _).
  rewrite Es. exact Hs.
Qed.

(* the members cut into input buffers in any way, output buffers of any sizes (one kept until full
   or a fresh one per call), any save/restore schedule, any call budget that is not exhausted *)
Theorem bits_any_slicing : forall override ms expected ts fuel caps pc rall rs,
  Forall bytes_ok ms -> (forall w, override = Some w -> 10 <= w /\ w <= 30) ->
  markers_ok override ms = true -> concat_spec override ms = Some expected ->
  script_of ms ts ->
  rr_final (run_native fuel caps pc rall rs ts (init override)) <> Looped ->
  rr_final (run_native fuel caps pc rall rs ts (init override)) = Done Success /\
  rr_emitted (run_native fuel caps pc rall rs ts (init override)) = expected.
Proof.
  intros override ms expected ts fuel caps pc rall rs Hms Hov Hmark Hspec Hts Hfin.
  pose proof (Inv_init override Hov) as HI.
  rewrite (run_restore_irrelevant fuel caps pc rall rs ts (init override) HI (script_tasks_ok ms ts Hts _)) in *.
  destruct (one_shot_bits override ms expected (4 * length ms + 8) (lenN expected + 16) Hms Hov Hmark Hspec
              ltac:(lia) ltac:(lia)) as [O1 O2]. cbv zeta in O1, O2.
  destruct (run_native_slicing_independent ms ts (oneshot_tasks ms) fuel (4 * length ms + 8) caps [lenN expected + 16] pc false
              (init override) HI Hms Hts (one_shot_script ms Hms) Hfin ltac:(rewrite O1; discriminate)) as [S1 S2].
  rewrite S1, S2. split; assumption.
Qed.

(* ------------------------------------------------------------------ non-vacuity *)
(* three real members (lgwin 22 appendable "hello"-style stream, then two catable ones), an empty
   member in between; the specification is defined, the side condition holds *)
Definition ms_ex : list (list N) := [m_first_ex; m_second_ex; [59]; [11; 0; 128; 97; 3]].
Example bits_hypotheses_satisfiable :
  Forall bytes_ok ms_ex /\ markers_ok None ms_ex = true /\
  concat_spec None ms_ex = Some [139; 2; 128; 72; 46; 21; 202; 231; 80; 88; 0; 8; 104; 101; 108; 108; 111; 0; 0; 8; 97; 3] /\
  result (run_native 24 [38] false false [] (oneshot_tasks ms_ex) (init None)) =
    (Done Success, [139; 2; 128; 72; 46; 21; 202; 231; 80; 88; 0; 8; 104; 101; 108; 108; 111; 0; 0; 8; 97; 3]).
Proof.
  split; [|vm_compute; repeat split; reflexivity].
  unfold ms_ex, bytes_ok. repeat (apply Forall_cons; [repeat (apply Forall_cons; [reflexivity|]); apply Forall_nil|]). apply Forall_nil.
Qed.
