(* C03, bit-level library: the bit-list vocabulary of spec/ConcatSpec.v (byte_bits, bits_of_bytes,
   bits_val, pack, strip_end_marker) related to numbers (little-endian values, div/mod by powers of
   two).  Pure list/arithmetic facts, no model function occurs here. *)
From Coq Require Import NArith List Bool Lia Arith PeanoNat.
From V Require Import lib.Words lib.Finite proofs.Bitops model.Concat model.ConcatRun spec.ConcatSpec
  proofs.Concat_proofs proofs.Concat_inv.
Import ListNotations.
Open Scope N_scope.

(* little-endian value of a byte list *)
Fixpoint le_val (l : list N) : N := match l with [] => 0 | b :: t => b + 256 * le_val t end.

(* n little-endian bytes of v *)
Fixpoint le_bytes (n : nat) (v : N) : list N :=
  match n with O => [] | S n' => v mod 256 :: le_bytes n' (v / 256) end.

Definition bb (b : bool) : N := if b then 1 else 0.

(* ------------------------------------------------------------------ lengths *)
Lemma byte_bits_length n : forall b, length (byte_bits n b) = n.
Proof. induction n as [|n IH]; intros b; cbn [byte_bits length]; [reflexivity|]. rewrite IH. reflexivity. Qed.

Lemma bits_of_bytes_length l : length (bits_of_bytes l) = (8 * length l)%nat.
Proof.
  induction l as [|b t IH]; [reflexivity|]. cbn [bits_of_bytes]. rewrite app_length, byte_bits_length, IH.
  cbn [length]. lia.
Qed.

Lemma bits_of_bytes_app a b : bits_of_bytes (a ++ b) = bits_of_bytes a ++ bits_of_bytes b.
Proof. induction a as [|x a IH]; [reflexivity|]. cbn [app bits_of_bytes]. rewrite IH, app_assoc. reflexivity. Qed.

Lemma le_bytes_length n : forall v, length (le_bytes n v) = n.
Proof. induction n as [|n IH]; intros v; cbn [le_bytes length]; [reflexivity|]. rewrite IH. reflexivity. Qed.

Lemma bytes_ok_le_bytes n : forall v, bytes_ok (le_bytes n v).
Proof.
  induction n as [|n IH]; intros v; cbn [le_bytes]; [constructor|].
  apply bytes_ok_cons; [apply N.mod_lt; discriminate|apply IH].
Qed.

(* ------------------------------------------------------------------ bits_val *)
Lemma bits_val_cons b t : bits_val (b :: t) = bb b + 2 * bits_val t.
Proof. reflexivity. Qed.

Lemma pow2_S n : 2 ^ N.of_nat (S n) = 2 * 2 ^ N.of_nat n.
Proof. rewrite Nat2N.inj_succ, N.pow_succ_r'. reflexivity. Qed.

Lemma bits_val_app a b : bits_val (a ++ b) = bits_val a + 2 ^ N.of_nat (length a) * bits_val b.
Proof.
  induction a as [|x a IH]; [cbn [app bits_val length]; change (2 ^ N.of_nat 0) with 1; lia|].
  cbn [app length]. rewrite !bits_val_cons, IH, pow2_S. lia.
Qed.

Lemma bits_val_lt l : bits_val l < 2 ^ N.of_nat (length l).
Proof.
  induction l as [|x l IH]; [cbn; lia|].
  cbn [length]. rewrite bits_val_cons, pow2_S. destruct x; cbn [bb]; lia.
Qed.

Lemma bits_val_repeat_false k : bits_val (repeat false k) = 0.
Proof. induction k as [|k IH]; [reflexivity|]. cbn [repeat]. rewrite bits_val_cons, IH. reflexivity. Qed.

Lemma bb_odd b : bb (N.odd b) = b mod 2.
Proof. rewrite <- N.bit0_odd. unfold bb. pose proof (N.bit0_mod b) as H. destruct (N.testbit b 0); exact H. Qed.

Lemma bits_val_byte_bits n : forall b, bits_val (byte_bits n b) = b mod 2 ^ N.of_nat n.
Proof.
  induction n as [|n IH]; intros b.
  - cbn [byte_bits bits_val]. change (2 ^ N.of_nat 0) with 1. rewrite N.mod_1_r. reflexivity.
  - cbn [byte_bits]. rewrite bits_val_cons, IH, pow2_S, bb_odd, N.div2_div.
    rewrite N.mod_mul_r by (try discriminate; apply N.pow_nonzero; discriminate). reflexivity.
Qed.

Lemma byte_bits_small n b : b < 2 ^ N.of_nat n -> bits_val (byte_bits n b) = b.
Proof. intros H. rewrite bits_val_byte_bits. apply N.mod_small. exact H. Qed.

(* a bit list is the bit expansion of its value *)
Lemma byte_bits_bits_val l : byte_bits (length l) (bits_val l) = l.
Proof.
  induction l as [|x l IH]; [reflexivity|].
  cbn [length byte_bits]. rewrite bits_val_cons. f_equal.
  - rewrite N.odd_add_mul_2. destruct x; reflexivity.
  - rewrite N.div2_div. replace (bb x + 2 * bits_val l) with (bits_val l * 2 + bb x) by lia.
    rewrite N.div_add_l by discriminate. rewrite N.div_small by (destruct x; cbn; lia).
    rewrite N.add_0_r. exact IH.
Qed.

Lemma byte_bits_inj n a b : a < 2 ^ N.of_nat n -> b < 2 ^ N.of_nat n -> byte_bits n a = byte_bits n b -> a = b.
Proof. intros Ha Hb H. rewrite <- (byte_bits_small n a Ha), <- (byte_bits_small n b Hb), H. reflexivity. Qed.

Lemma le_val_lt l : bytes_ok l -> le_val l < 2 ^ N.of_nat (length (bits_of_bytes l)).
Proof.
  intros H. induction H as [|x l Hx Hl IH]; [cbn; lia|].
  rewrite bits_of_bytes_length in *. cbn [le_val length].
  replace (8 * S (length l))%nat with (8 + 8 * length l)%nat by lia.
  rewrite Nat2N.inj_add, N.pow_add_r. change (2 ^ N.of_nat 8) with 256. lia.
Qed.

Lemma bits_val_bits_of_bytes l : bytes_ok l -> bits_val (bits_of_bytes l) = le_val l.
Proof.
  intros H. induction H as [|x l Hx Hl IH]; [reflexivity|].
  cbn [bits_of_bytes le_val]. rewrite bits_val_app, byte_bits_length, IH.
  rewrite byte_bits_small by exact Hx. reflexivity.
Qed.

(* value of a window of a bit list *)
Lemma bits_val_skipn l : forall k, bits_val (skipn k l) = bits_val l / 2 ^ N.of_nat k.
Proof.
  induction l as [|x l IH]; intros k.
  - rewrite skipn_nil. cbn [bits_val]. symmetry. apply N.div_0_l. apply N.pow_nonzero. discriminate.
  - destruct k as [|k]; [cbn [skipn]; change (2 ^ N.of_nat 0) with 1; rewrite N.div_1_r; reflexivity|].
    cbn [skipn]. rewrite IH, bits_val_cons, pow2_S.
    rewrite <- N.div_div by (try discriminate; apply N.pow_nonzero; discriminate).
    f_equal. replace (bb x + 2 * bits_val l) with (bits_val l * 2 + bb x) by lia.
    rewrite N.div_add_l by discriminate. rewrite N.div_small by (destruct x; cbn; lia). lia.
Qed.

Lemma bits_val_firstn l : forall k, bits_val (firstn k l) = bits_val l mod 2 ^ N.of_nat k.
Proof.
  intros k. destruct (Nat.le_gt_cases (length l) k) as [Hk|Hk].
  - rewrite firstn_all2 by exact Hk. symmetry. apply N.mod_small.
    eapply N.lt_le_trans; [apply bits_val_lt|]. apply N.pow_le_mono_r; [discriminate|lia].
  - rewrite <- (firstn_skipn k l) at 2. rewrite bits_val_app, firstn_length, Nat.min_l by lia.
    rewrite (N.mul_comm (2 ^ N.of_nat k)), N.mod_add by (apply N.pow_nonzero; discriminate).
    symmetry. apply N.mod_small. pose proof (bits_val_lt (firstn k l)) as H.
    rewrite firstn_length, Nat.min_l in H by lia. exact H.
Qed.

Lemma bits_val_window l k n : bits_val (firstn n (skipn k l)) = (bits_val l / 2 ^ N.of_nat k) mod 2 ^ N.of_nat n.
Proof. rewrite bits_val_firstn, bits_val_skipn. reflexivity. Qed.

(* single bits *)
Lemma odd_bits_val l : N.odd (bits_val l) = hd false l.
Proof.
  destruct l as [|x l]; [reflexivity|]. rewrite bits_val_cons. cbn [hd].
  rewrite N.odd_add_mul_2. destruct x; reflexivity.
Qed.

Lemma hd_skipn_nth (l : list bool) : forall k, hd false (skipn k l) = nth k l false.
Proof.
  induction l as [|x l IH]; intros k; [rewrite skipn_nil; destruct k; reflexivity|].
  destruct k as [|k]; [reflexivity|]. cbn [skipn nth]. apply IH.
Qed.

Lemma shiftr_bits_val l k : N.shiftr (bits_val l) (N.of_nat k) = bits_val (skipn k l).
Proof. rewrite N.shiftr_div_pow2, bits_val_skipn. reflexivity. Qed.

Lemma odd_shiftr_bits_val l k : N.odd (N.shiftr (bits_val l) (N.of_nat k)) = nth k l false.
Proof. rewrite shiftr_bits_val, odd_bits_val. apply hd_skipn_nth. Qed.

Lemma land3_bits_val l : N.land (bits_val l) 3 = bits_val (firstn 2 l).
Proof. change 3 with (2 ^ 2 - 1). rewrite land_ones_mod. rewrite bits_val_firstn. reflexivity. Qed.

(* ------------------------------------------------------------------ pack *)
Lemma bytes_of_bits_nil f : bytes_of_bits f [] = [].
Proof. destruct f; reflexivity. Qed.

Lemma bytes_of_bits_cons f b r : b < 256 -> bytes_of_bits (S f) (byte_bits 8 b ++ r) = b :: bytes_of_bits f r.
Proof.
  intros Hb. cbn [bytes_of_bits].
  change (firstn 8 (byte_bits 8 b ++ r)) with (byte_bits 8 b).
  change (skipn 8 (byte_bits 8 b ++ r)) with r.
  rewrite (byte_bits_small 8 b Hb). reflexivity.
Qed.

Lemma bytes_of_bits_app x : forall f r, bytes_ok x ->
  bytes_of_bits (length x + f) (bits_of_bytes x ++ r) = x ++ bytes_of_bits f r.
Proof.
  induction x as [|b x IH]; intros f r H; [reflexivity|].
  inversion H as [|? ? Hb Hx]; subst. cbn [length Nat.add bits_of_bytes app].
  rewrite <- app_assoc, bytes_of_bits_cons by exact Hb. f_equal. apply IH. exact Hx.
Qed.

Lemma bytes_of_bits_fuel f1 : forall f2 l, (length l <= 8 * f1)%nat -> (length l <= 8 * f2)%nat ->
  bytes_of_bits f1 l = bytes_of_bits f2 l.
Proof.
  induction f1 as [|f1 IH]; intros f2 l H1 H2.
  - destruct l; [|cbn in H1; lia]. rewrite !bytes_of_bits_nil. reflexivity.
  - destruct l as [|x l]; [rewrite !bytes_of_bits_nil; reflexivity|].
    destruct f2 as [|f2]; [cbn in H2; lia|].
    cbn [bytes_of_bits]. f_equal. apply IH; rewrite skipn_length; lia.
Qed.

Lemma pack_nil : pack [] = [].
Proof. reflexivity. Qed.

Lemma pack_app x r : bytes_ok x -> pack (bits_of_bytes x ++ r) = x ++ pack r.
Proof.
  intros H. unfold pack.
  rewrite (bytes_of_bits_fuel _ (length x + S (length r)))
    by (rewrite ?app_length, ?bits_of_bytes_length; lia).
  apply bytes_of_bits_app. exact H.
Qed.

Lemma pack_bytes x : bytes_ok x -> pack (bits_of_bytes x) = x.
Proof. intros H. rewrite <- (app_nil_r (bits_of_bytes x)), pack_app, pack_nil, app_nil_r by exact H. reflexivity. Qed.

Lemma pack_short r : (0 < length r <= 8)%nat -> pack r = [bits_val r].
Proof.
  intros H. unfold pack. destruct r as [|x r]; [cbn in H; lia|].
  cbn [bytes_of_bits]. rewrite firstn_all2 by lia. rewrite skipn_all2 by lia.
  rewrite bytes_of_bits_nil. reflexivity.
Qed.

Lemma firstn8_byte_bits (X : list bool) : (8 <= length X)%nat -> firstn 8 X = byte_bits 8 (bits_val (firstn 8 X)).
Proof.
  intros H. pose proof (byte_bits_bits_val (firstn 8 X)) as E.
  rewrite firstn_length, Nat.min_l in E by exact H. symmetry. exact E.
Qed.

(* a whole number of bytes: pack gives the little-endian bytes of the value *)
Lemma pack_le n : forall X, length X = (8 * n)%nat -> pack X = le_bytes n (bits_val X).
Proof.
  induction n as [|n IH]; intros X H.
  - destruct X; [reflexivity|cbn in H; lia].
  - rewrite <- (firstn_skipn 8 X) at 1. rewrite firstn8_byte_bits by lia.
    set (b := bits_val (firstn 8 X)).
    assert (Hb : b < 256).
    { subst b. pose proof (bits_val_lt (firstn 8 X)) as Hl. rewrite firstn_length, Nat.min_l in Hl by lia. exact Hl. }
    change (byte_bits 8 b ++ skipn 8 X) with (bits_of_bytes [b] ++ skipn 8 X).
    rewrite pack_app by (apply bytes_ok_cons; [exact Hb|constructor]).
    cbn [app le_bytes].
    assert (Hv : bits_val X = b + 256 * bits_val (skipn 8 X)).
    { rewrite <- (firstn_skipn 8 X) at 1. rewrite bits_val_app, firstn_length, Nat.min_l by lia. reflexivity. }
    rewrite Hv. f_equal.
    + rewrite (N.mul_comm 256), N.mod_add by discriminate. symmetry. apply N.mod_small. exact Hb.
    + rewrite IH by (rewrite skipn_length; lia). f_equal.
      rewrite (N.mul_comm 256), N.div_add by discriminate. rewrite N.div_small by exact Hb. lia.
Qed.

Lemma nth_le_bytes n : forall v j, (j < n)%nat -> nth j (le_bytes n v) 0 = (v / 2 ^ (8 * N.of_nat j)) mod 256.
Proof.
  induction n as [|n IH]; intros v j H; [lia|].
  destruct j as [|j]; cbn [le_bytes nth].
  - change (8 * N.of_nat 0) with 0. change (2 ^ 0) with 1. rewrite N.div_1_r. reflexivity.
  - rewrite IH by lia. f_equal. rewrite N.div_div by (try discriminate; apply N.pow_nonzero; discriminate).
    f_equal. rewrite Nat2N.inj_succ. replace (8 * N.succ (N.of_nat j)) with (8 + 8 * N.of_nat j) by lia.
    rewrite N.pow_add_r. reflexivity.
Qed.

(* ------------------------------------------------------------------ strip_end_marker *)
Lemma rev_repeat {A} (x : A) k : rev (repeat x k) = repeat x k.
Proof.
  induction k as [|k IH]; [reflexivity|]. cbn [repeat rev]. rewrite IH.
  clear IH. induction k as [|k IH]; [reflexivity|]. cbn [repeat app]. rewrite IH. reflexivity.
Qed.

Lemma strip_end_marker_unfold bits :
  strip_end_marker bits =
    if negb (existsb (fun b => b) (firstn 8 (rev bits))) then None else
    match strip_zeros (rev bits) with true :: true :: t => Some (rev t) | _ => None end.
Proof.
  unfold strip_end_marker. rewrite !rev_append_rev, !app_nil_r.
  destruct (rev bits) as [|x r]; [reflexivity|].
  destruct (strip_zeros (x :: r)) as [|[|] [|[|] t]]; try reflexivity.
  rewrite rev_append_rev, app_nil_r. reflexivity.
Qed.

Lemma strip_zeros_split r : exists k, r = repeat false k ++ strip_zeros r.
Proof.
  induction r as [|x r (k & IH)]; [exists 0%nat; reflexivity|].
  destruct x; [exists 0%nat; reflexivity|].
  exists (S k). cbn [strip_zeros repeat app]. f_equal. exact IH.
Qed.

Lemma existsb_repeat_false k : existsb (fun b : bool => b) (repeat false k) = false.
Proof. induction k as [|k IH]; [reflexivity|]. cbn [repeat existsb]. exact IH. Qed.

Lemma existsb_firstn_repeat_false n : forall k, existsb (fun b : bool => b) (firstn n (repeat false k)) = false.
Proof.
  induction n as [|n IH]; intros k; [reflexivity|]. destruct k as [|k]; [reflexivity|].
  cbn [repeat firstn existsb]. apply IH.
Qed.

Lemma strip_zeros_repeat k t : strip_zeros (repeat false k ++ true :: t) = true :: t.
Proof. induction k as [|k IH]; [reflexivity|]. cbn [repeat app strip_zeros]. exact IH. Qed.

Lemma existsb_firstn_zeros k t : (k < 8)%nat -> existsb (fun b : bool => b) (firstn 8 (repeat false k ++ true :: t)) = true.
Proof.
  intros H. rewrite firstn_app, repeat_length, firstn_all2 by (rewrite repeat_length; lia).
  rewrite existsb_app, existsb_repeat_false. destruct (8 - k)%nat as [|j] eqn:E; [lia|]. reflexivity.
Qed.

(* the meaning of strip_end_marker: the bits end in ISLAST, ISLASTEMPTY and fewer than 8 zeros *)
Lemma strip_some L B : strip_end_marker L = Some B ->
  exists k, (k < 8)%nat /\ L = B ++ [true; true] ++ repeat false k.
Proof.
  rewrite strip_end_marker_unfold. intros H.
  destruct (existsb (fun b => b) (firstn 8 (rev L))) eqn:Ee; [|discriminate]. cbn [negb] in H.
  destruct (strip_zeros_split (rev L)) as (k & Hk).
  destruct (strip_zeros (rev L)) as [|[|] [|[|] t]]; try discriminate. injection H as <-.
  exists k. split.
  - destruct (Nat.lt_ge_cases k 8) as [Hlt|Hge]; [exact Hlt|exfalso].
    rewrite Hk in Ee. rewrite firstn_app, repeat_length in Ee.
    replace (8 - k)%nat with 0%nat in Ee by lia. rewrite firstn_O, app_nil_r in Ee.
    rewrite existsb_firstn_repeat_false in Ee. discriminate.
  - rewrite <- (rev_involutive L), Hk, rev_app_distr, rev_repeat. cbn [rev]. rewrite <- !app_assoc. reflexivity.
Qed.

Lemma strip_intro B k : (k < 8)%nat -> strip_end_marker (B ++ [true; true] ++ repeat false k) = Some B.
Proof.
  intros H. rewrite strip_end_marker_unfold.
  assert (E : rev (B ++ [true; true] ++ repeat false k) = repeat false k ++ true :: true :: rev B).
  { rewrite !rev_app_distr, rev_repeat. cbn [rev app]. rewrite <- app_assoc. reflexivity. }
  rewrite E, existsb_firstn_zeros by exact H. cbn [negb]. rewrite strip_zeros_repeat, rev_involutive. reflexivity.
Qed.

(* ------------------------------------------------------------------ list splitting *)
Lemma app_split_tail {A} (P Q B T : list A) : P ++ Q = B ++ T -> (length T <= length Q)%nat ->
  exists X, Q = X ++ T /\ B = P ++ X.
Proof.
  revert B. induction P as [|p P IH]; intros B H HL.
  - cbn [app] in H. exists B. split; [exact H|reflexivity].
  - destruct B as [|b B].
    + cbn [app] in H. apply (f_equal (@length A)) in H. cbn [length] in H. rewrite app_length in H. lia.
    + cbn [app] in H. injection H as <- H. destruct (IH B H HL) as (X & H1 & H2).
      exists X. split; [exact H1|]. cbn [app]. f_equal. exact H2.
Qed.

Lemma app_inv_len {A} (a b c d : list A) : a ++ b = c ++ d -> length a = length c -> a = c /\ b = d.
Proof.
  revert c. induction a as [|x a IH]; intros [|y c] H L; try discriminate L.
  - auto.
  - cbn [app] in H. injection H as -> H. cbn [length] in L. destruct (IH c H ltac:(lia)) as [-> ->]. auto.
Qed.

Lemma firstn_app_le {A} (a b : list A) n : (n <= length a)%nat -> firstn n (a ++ b) = firstn n a.
Proof. intros H. rewrite firstn_app. replace (n - length a)%nat with 0%nat by lia. cbn [firstn]. apply app_nil_r. Qed.

Lemma skipn_app_le {A} (a b : list A) n : (n <= length a)%nat -> skipn n (a ++ b) = skipn n a ++ b.
Proof. intros H. rewrite skipn_app. replace (n - length a)%nat with 0%nat by lia. reflexivity. Qed.

Lemma skipn_bits_of_bytes l : forall n, skipn (8 * n) (bits_of_bytes l) = bits_of_bytes (skipn n l).
Proof.
  induction l as [|b l IH]; intros n; [rewrite !skipn_nil; reflexivity|].
  destruct n as [|n]; [reflexivity|].
  replace (8 * S n)%nat with (8 + 8 * n)%nat by lia. cbn [bits_of_bytes].
  rewrite skipn_app, byte_bits_length. rewrite skipn_all2 by (rewrite byte_bits_length; lia).
  replace (8 + 8 * n - 8)%nat with (8 * n)%nat by lia. cbn [app]. apply IH.
Qed.

Lemma firstn_bits_of_bytes l : forall n, firstn (8 * n) (bits_of_bytes l) = bits_of_bytes (firstn n l).
Proof.
  induction l as [|b l IH]; intros n; [rewrite !firstn_nil; reflexivity|].
  destruct n as [|n]; [reflexivity|].
  replace (8 * S n)%nat with (8 + 8 * n)%nat by lia. cbn [bits_of_bytes firstn].
  rewrite firstn_app, byte_bits_length. rewrite firstn_all2 by (rewrite byte_bits_length; lia).
  replace (8 + 8 * n - 8)%nat with (8 * n)%nat by lia. rewrite IH. reflexivity.
Qed.
