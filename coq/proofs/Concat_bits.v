(* C03, the bit-level theorem for the one-shot run: the relation between the concatenator's state
   (bytes emitted so far, held-back tail) and the specification's accumulated bit list, its
   preservation by every kind of member, and `finish`. *)
From Coq Require Import NArith ZArith List Bool Lia Arith PeanoNat.
From V Require Import lib.Words lib.Finite proofs.Bitops model.Concat model.ConcatRun spec.ConcatSpec spec.ConcatMarker
  proofs.Concat_proofs proofs.Concat_inv proofs.Concat_run proofs.Concat_findings proofs.Concat_tail proofs.Concat_delay
  proofs.Concat_bitlib proofs.Concat_hdr proofs.Concat_strip proofs.Concat_oneshot.
Import ListNotations.
Open Scope N_scope.

(* ------------------------------------------------------------------ the relation *)
(* acc = the specification's accumulator (window, bits so far without end marker);
   E = all bytes written to the output so far *)
Inductive Rel : option (N * list bool) -> list N -> BroCatli -> Prop :=
  | RelZ : forall s,                                (* nothing but empty members so far *)
      window_size s = 0 -> last_bytes_len s = 0 -> last_byte_bit_offset s = 0 -> any_bytes_emitted s = false ->
      Rel None [] s
  | RelU : forall w B E s,                          (* a member's tail is held back with its end marker *)
      window_size s = w -> 10 <= w -> w <= 30 -> last_byte_sanitized s = false -> bytes_ok E ->
      lb0 s < 256 -> lb1 s < 256 ->
      (last_bytes_len s = 2 \/ (last_bytes_len s = 1 /\ lb1 s = 0 /\ N.of_nat (length B) mod 8 <> 7)) ->
      strip_end_marker (bits_of_bytes (E ++ held s)) = Some B ->
      Rel (Some (w, B)) E s
  | RelS : forall w B E s,                          (* end marker stripped: a partial byte is held *)
      window_size s = w -> 10 <= w -> w <= 30 -> last_byte_sanitized s = true -> bytes_ok E ->
      last_bytes_len s = 1 ->
      san_ok (lb0 s) (lb1 s) (last_byte_bit_offset s) = true ->
      bits_of_bytes E ++ byte_bits (N.to_nat (last_byte_bit_offset s)) (lb0 s) = B ->
      Rel (Some (w, B)) E s.

Definition expected_of (acc : option (N * list bool)) : list N :=
  match acc with None => [59] | Some (_, bits) => pack (bits ++ [true; true]) end.

Definition blen (acc : option (N * list bool)) : nat :=
  match acc with None => 0%nat | Some (_, B) => length B end.

Lemma held_set_pending s p : held (set_pending s p) = held s.
Proof. destruct s; reflexivity. Qed.

Lemma Rel_set_pending acc E s p : Rel acc E s -> Rel acc E (set_pending s p).
Proof.
  intros H. destruct H as [s H1 H2 H3 H4|w B E s H1 H2 H3 H4 H5 H6 H7 H8 H9|w B E s H1 H2 H3 H4 H5 H6 H7 H8];
    destruct s as [a0 a1 len san any bo ws pend]; fields.
  - apply RelZ; fields; assumption.
  - apply RelU; fields; try assumption.
  - apply RelS; fields; try assumption.
Qed.

Lemma length_held s : last_bytes_len s = 1 \/ last_bytes_len s = 2 -> lenN (held s) = last_bytes_len s.
Proof. intros [H|H]; unfold held; rewrite H; reflexivity. Qed.

Ltac Zify.zify_post_hook ::= Z.to_euclidean_division_equations.
Lemma no_straddle_k (e b k : nat) : (8 * e + 8 = b + (2 + k))%nat -> (k < 8)%nat -> N.of_nat b mod 8 <> 7 -> (k <= 6)%nat.
Proof. intros H1 H2 H3. destruct (Nat.eq_dec k 7) as [->|]; [|lia]. exfalso. apply H3. lia. Qed.
Ltac Zify.zify_post_hook ::= idtac.

(* the bytes already written never exceed the bits accumulated *)
Lemma Rel_len acc E s : Rel acc E s -> (8 * length E <= blen acc)%nat.
Proof.
  intros H. destruct H as [s H1 H2 H3 H4|w B E s H1 H2 H3 H4 H5 H6 H7 H8 H9|w B E s H1 H2 H3 H4 H5 H6 H7 H8]; cbn [blen length].
  - lia.
  - destruct (strip_some _ _ H9) as (k & Hk & HL).
    apply (f_equal (@length bool)) in HL. rewrite bits_of_bytes_length, !app_length, repeat_length in HL.
    cbn [length] in HL.
    assert (Hh : (length (held s) = 2)%nat \/ ((length (held s) = 1)%nat /\ N.of_nat (length B) mod 8 <> 7)).
    { destruct H8 as [H8|(H8 & _ & H8')]; unfold held; rewrite H8; [left|right]; auto. }
    destruct Hh as [Hh|[Hh Hm]]; rewrite Hh in HL; [lia|].
    pose proof (no_straddle_k (length E) (length B) k ltac:(lia) Hk Hm). lia.
  - subst B. rewrite app_length, bits_of_bytes_length. lia.
Qed.

(* ------------------------------------------------------------------ flush *)
Lemma bytes_ok_two a b : a < 256 -> b < 256 -> bytes_ok [a; b].
Proof. intros. apply bytes_ok_cons; [assumption|]. apply bytes_ok_cons; [assumption|constructor]. Qed.
Lemma bytes_ok_one a : a < 256 -> bytes_ok [a].
Proof. intros. apply bytes_ok_cons; [assumption|constructor]. Qed.

(* a held-back tail with its end marker: the marker is stripped, at most one byte is written *)
Lemma flush_U w B E s out :
  Rel (Some (w, B)) E s -> last_byte_sanitized s = false -> lenN E + 1 <= lenN out ->
  exists s' e, flush_previous_stream s out (lenN E) = Val (mkF s' (blit out (lenN E) e) (lenN E + lenN e) Success) /\
    Rel (Some (w, B)) (E ++ e) s' /\ last_byte_sanitized s' = true /\ bytes_ok e /\ lenN e <= 1 /\
    new_stream_pending s' = new_stream_pending s.
Proof.
  intros HR Hsan Hroom. inversion HR as [|w' B' E' s' H1 H2 H3 H4 H5 H6 H7 H8 H9|w' B' E' s' H1 H2 H3 H4 H5 H6 H7 H8]; subst; [|congruence].
  destruct s as [a b len san any bo0 ws pend]. fields. subst san.
  destruct (strip_some _ _ H9) as (k & Hk & HL).
  rewrite bits_of_bytes_app in HL.
  destruct H8 as [Hlen|(Hlen & Hb0 & Hmod)]; subst len.
  - (* two bytes held *)
    change (held (mkBC a b 2 false any bo0 ws pend)) with [a; b] in *.
    destruct (app_split_tail _ _ _ _ HL) as (X & HX & HB).
    { rewrite bits_of_bytes_length, app_length, repeat_length. cbn [length]. lia. }
    assert (HS : strip_end_marker (bits_of_bytes [a; b]) = Some X) by (rewrite HX; apply strip_intro; exact Hk).
    destruct (strip2_bits a b X H6 H7 HS) as (e & l0 & l1 & bo & Es & Eb & Hok & He & Hle).
    destruct (san_ok_P _ _ _ Hok) as (P1 & P2 & P3).
    destruct (flush_strip2 a b any bo0 ws pend out (lenN E) e l0 l1 bo Es ltac:(lia) P2) as (any' & Ef).
    exists (mkBC l0 l1 1 true any' bo ws pend), e. split; [exact Ef|].
    split; [|split; [reflexivity|split; [exact He|split; [exact Hle|reflexivity]]]].
    apply RelS; fields; try assumption; try reflexivity.
    + apply bytes_ok_app; assumption.
    + rewrite bits_of_bytes_app, <- app_assoc, Eb. symmetry. exact HB.
  - (* one byte held *)
    subst b. change (held (mkBC a 0 1 false any bo0 ws pend)) with [a] in *.
    assert (Hk6 : (k <= 6)%nat).
    { pose proof (f_equal (@length bool) HL) as HL'. rewrite !app_length, !bits_of_bytes_length, repeat_length in HL'.
      cbn [length] in HL'. apply (no_straddle_k (length E) (length B) k); [lia|exact Hk|exact Hmod]. }
    destruct (app_split_tail _ _ _ _ HL) as (X & HX & HB).
    { rewrite bits_of_bytes_length, app_length, repeat_length. cbn [length]. lia. }
    assert (HS : strip_end_marker (bits_of_bytes [a]) = Some X) by (rewrite HX; apply strip_intro; exact Hk).
    destruct (strip1_bits a X H6 HS) as (l0 & l1 & bo & Es & Eb & Hok).
    pose proof (flush_strip1 a any bo0 ws pend out (lenN E) l0 l1 bo Es) as Ef.
    exists (mkBC l0 l1 1 true any bo ws pend), []. split.
    { rewrite Ef. f_equal. f_equal; [|cbn [lenN]; lia].
      unfold blit. cbn [app lenN]. rewrite N.add_0_r. symmetry. apply take_drop. }
    split; [|split; [reflexivity|split; [constructor|split; [cbn; lia|reflexivity]]]].
    rewrite app_nil_r. apply RelS; fields; try assumption; try reflexivity.
    rewrite Eb. symmetry. exact HB.
Qed.

(* ------------------------------------------------------------------ finish *)
Lemma bits_pack n : forall X, length X = (8 * n)%nat -> bits_of_bytes (pack X) = X /\ bytes_ok (pack X).
Proof.
  intros X H. rewrite (pack_le n X H). split; [|apply bytes_ok_le_bytes].
  revert X H. induction n as [|n IH]; intros X H.
  - destruct X; [reflexivity|cbn in H; lia].
  - cbn [le_bytes bits_of_bytes].
    assert (Hv : bits_val X = bits_val (firstn 8 X) + 256 * bits_val (skipn 8 X)).
    { rewrite <- (firstn_skipn 8 X) at 1. rewrite bits_val_app, firstn_length, Nat.min_l by lia. reflexivity. }
    assert (Hb : bits_val (firstn 8 X) < 256).
    { pose proof (bits_val_lt (firstn 8 X)) as Hl. rewrite firstn_length, Nat.min_l in Hl by lia. exact Hl. }
    rewrite Hv. rewrite (N.mul_comm 256), N.mod_add, N.div_add by discriminate.
    rewrite N.mod_small, N.div_small, N.add_0_l by exact Hb.
    rewrite IH by (rewrite skipn_length; lia).
    rewrite <- firstn8_byte_bits by lia. apply firstn_skipn.
Qed.

(* trailing zero bits inside the last byte do not change the packed bytes *)
Lemma pack_trailing_zeros Y k n : (k < 8)%nat -> (1 <= length Y)%nat -> length (Y ++ repeat false k) = (8 * n)%nat ->
  pack (Y ++ repeat false k) = pack Y.
Proof.
  intros Hk HY HL. rewrite app_length, repeat_length in HL.
  destruct n as [|n]; [lia|].
  set (L := Y ++ repeat false k).
  assert (HLl : length L = (8 * S n)%nat) by (subst L; rewrite app_length, repeat_length; lia).
  assert (E1 : firstn (8 * n) L ++ skipn (8 * n) L = Y ++ repeat false k) by (subst L; apply firstn_skipn).
  destruct (app_split_tail _ _ _ _ E1) as (Y2 & HY2 & HYY).
  { rewrite skipn_length, repeat_length. lia. }
  assert (L1 : length (firstn (8 * n) L) = (8 * n)%nat) by (rewrite firstn_length; lia).
  destruct (bits_pack n _ L1) as (Eb & Hb).
  assert (LY2 : (length Y2 + k = 8)%nat).
  { apply (f_equal (@length bool)) in HY2. rewrite skipn_length, app_length, repeat_length in HY2. lia. }
  rewrite <- (firstn_skipn (8 * n) L), HYY, HY2, <- Eb.
  rewrite !pack_app by exact Hb. f_equal.
  rewrite !pack_short by (rewrite ?app_length, ?repeat_length; lia).
  rewrite bits_val_app, bits_val_repeat_false. f_equal. lia.
Qed.

Lemma finish_loop_two a b any bo ws pend out off : off + 2 <= lenN out ->
  finish_loop 256 (mkBC a b 2 false any bo ws pend) out off =
    Val (mkF (mkBC b b 0 false true bo ws pend) (blit out off [a; b]) (off + 2) Success).
Proof.
  intros H. change 256%nat with (S (S 254)).
  rewrite finish_loop_step by (fields; lia). fields.
  rewrite finish_loop_step by (fields; rewrite ?lenN_setN by lia; lia). fields.
  change (2 - 1 - 1) with 0. rewrite (finish_loop_empty 253) by reflexivity.
  rewrite setN_setN_blit by lia. replace (off + 1 + 1) with (off + 2) by lia. reflexivity.
Qed.

Lemma finish_loop_one a b any bo ws pend out off : off + 1 <= lenN out ->
  finish_loop 256 (mkBC a b 1 false any bo ws pend) out off =
    Val (mkF (mkBC b b 0 false true bo ws pend) (blit out off [a]) (off + 1) Success).
Proof.
  intros H. change 256%nat with (S 255).
  rewrite finish_loop_step by (fields; lia). fields.
  change (1 - 1) with 0. rewrite (finish_loop_empty 254) by reflexivity. reflexivity.
Qed.

Theorem finish_Rel acc E s out :
  Rel acc E s -> takeN (lenN E) out = E -> lenN E + 2 <= lenN out ->
  exists f, finish s out (lenN E) = Val f /\ f_rc f = Success /\ takeN (f_off f) (f_out f) = expected_of acc.
Proof.
  intros HR HE Hroom.
  destruct HR as [s H1 H2 H3 H4|w B E s H1 H2 H3 H4 H5 H6 H7 H8 H9|w B E s H1 H2 H3 H4 H5 H6 H7 H8];
    destruct s as [a b len san any bo ws pend]; fields.
  - (* nothing was ever written: ';' *)
    subst. unfold finish. fields. change (0 =? 0) with true. rewrite andb_false_r.
    change 256%nat with (S 255). rewrite finish_loop_empty by reflexivity. fields. cbn [negb].
    cbn [lenN] in *. replace (lenN out =? 0) with false by (symmetry; apply N.eqb_neq; lia).
    rewrite updN_ok by lia. eexists. split; [reflexivity|]. fields. split; [reflexivity|].
    change (setN out 0 59) with (blit out 0 [59]). change (0 + 1) with (0 + lenN [59]).
    rewrite takeN_blit_all by (cbn [lenN]; lia). reflexivity.
  - (* tail with its own end marker: written out as it is *)
    subst san. unfold finish. fields. cbn [andb].
    destruct (strip_some _ _ H9) as (k & Hk & HL).
    assert (Hexp : E ++ held (mkBC a b len false any bo ws pend) = pack (B ++ [true; true])).
    { set (T := held (mkBC a b len false any bo ws pend)) in *.
      assert (HT : bytes_ok (E ++ T)).
      { apply bytes_ok_app; [exact H5|]. subst T. destruct H8 as [Hl|(Hl & _)]; subst len; [apply bytes_ok_two|apply bytes_ok_one]; assumption. }
      rewrite <- (pack_bytes (E ++ T) HT), HL.
      rewrite (app_assoc B). apply (pack_trailing_zeros _ k (length (E ++ T))); [exact Hk|rewrite app_length; cbn; lia|].
      rewrite <- app_assoc, <- HL. apply bits_of_bytes_length. }
    destruct H8 as [Hl|(Hl & _ & _)]; subst len.
    + change (held (mkBC a b 2 false any bo ws pend)) with [a; b] in Hexp.
      rewrite finish_loop_two by lia. fields. cbn [negb].
      eexists. split; [reflexivity|]. fields. split; [reflexivity|].
      change (lenN E + 2) with (lenN E + lenN [a; b]). rewrite takeN_blit_all by (cbn [lenN]; lia).
      rewrite HE. exact Hexp.
    + change (held (mkBC a b 1 false any bo ws pend)) with [a] in Hexp.
      rewrite finish_loop_one by lia. fields. cbn [negb].
      eexists. split; [reflexivity|]. fields. split; [reflexivity|].
      change (lenN E + 1) with (lenN E + lenN [a]). rewrite takeN_blit_all by (cbn [lenN]; lia).
      rewrite HE. exact Hexp.
  - (* stripped tail: the end marker is put back *)
    subst san len. destruct (san_ok_P _ _ _ H7) as (P1 & P2 & P3).
    assert (Ha : a < 256).
    { eapply N.lt_le_trans; [exact P1|]. change 256 with (2 ^ 8). apply N.pow_le_mono_r; [discriminate|lia]. }
    assert (Hrl : lenN (reappend a b bo) <= 2) by (unfold reappend; destruct (8 <? bo + 2); cbn [lenN]; lia).
    destruct (finish_reappend a b bo any ws pend out (lenN E) P2 Ha ltac:(lia)) as (s' & Ef).
    exists (mkF s' (blit out (lenN E) (reappend a b bo)) (lenN E + lenN (reappend a b bo)) Success).
    split; [exact Ef|]. fields. split; [reflexivity|].
    rewrite takeN_blit_all by lia. rewrite HE, P3. cbn [expected_of]. subst B.
    rewrite <- app_assoc. symmetry. apply pack_app. exact H5.
Qed.
