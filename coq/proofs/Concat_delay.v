(* C12, phase B (the body of every member): the two-byte delay line.  Whatever the input buffer,
   the cursors and the free output space, one call of the body copy satisfies
        bytes written by the call ++ held-back bytes afterwards
      = held-back bytes before ++ input bytes consumed by the call
   and leaves the output buffer outside [off, r_off) untouched.  Since the right-hand side does not
   depend on how the calls are cut, neither does "everything emitted ++ what is still held". *)
From Coq Require Import NArith List Bool Lia Arith PeanoNat.
From V Require Import lib.Words lib.Finite proofs.Bitops model.Concat model.ConcatRun spec.ConcatSpec
  proofs.Concat_proofs proofs.Concat_inv.
Import ListNotations.
Open Scope N_scope.

(* the bytes a state holds back in the body phase *)
Definition held (s : BroCatli) : list N :=
  if last_bytes_len s =? 0 then [] else if last_bytes_len s =? 1 then [lb0 s] else [lb0 s; lb1 s].

(* out[a..b) and in[a..b) *)
Definition span (l : list N) (a b : N) : list N := takeN (b - a) (dropN a l).

Definition delay_post (s : BroCatli) (input : list N) (in_off : N) (out : list N) (off : N) (r : sret) : Prop :=
  span (r_out r) off (r_off r) ++ held (r_s r) = held s ++ span input in_off (r_in r) /\
  takeN off (r_out r) = takeN off out /\ dropN (r_off r) (r_out r) = dropN (r_off r) out.

Lemma span_nil l a : span l a a = [].
Proof. unfold span. rewrite N.sub_diag. reflexivity. Qed.

Lemma takeN_app_exact (a b : list N) n : lenN a = n -> takeN n (a ++ b) = a.
Proof.
  intros H. unfold takeN. rewrite lenN_length in H. rewrite firstn_app.
  replace (N.to_nat n - length a)%nat with 0%nat by lia. cbn [firstn]. rewrite app_nil_r.
  apply firstn_all2. lia.
Qed.
Lemma dropN_app_exact (a b : list N) n : lenN a = n -> dropN n (a ++ b) = b.
Proof.
  intros H. unfold dropN. rewrite lenN_length in H. rewrite skipn_app.
  rewrite skipn_all2 by lia. replace (N.to_nat n - length a)%nat with 0%nat by lia. reflexivity.
Qed.

(* reading back what a blit wrote *)
Lemma span_blit out off src : off + lenN src <= lenN out ->
  span (takeN off out ++ src ++ dropN (off + lenN src) out) off (off + lenN src) = src.
Proof.
  intros H. unfold span. replace (off + lenN src - off) with (lenN src) by lia.
  rewrite dropN_app_exact by (apply lenN_takeN; lia).
  apply takeN_app_exact. reflexivity.
Qed.
Lemma take_blit out off src : off + lenN src <= lenN out ->
  takeN off (takeN off out ++ src ++ dropN (off + lenN src) out) = takeN off out.
Proof. intros H. apply takeN_app_exact. apply lenN_takeN. lia. Qed.
Lemma drop_blit out off src : off + lenN src <= lenN out ->
  dropN (off + lenN src) (takeN off out ++ src ++ dropN (off + lenN src) out) = dropN (off + lenN src) out.
Proof.
  intros H. rewrite app_assoc. apply dropN_app_exact. rewrite lenN_app, lenN_takeN by lia. reflexivity.
Qed.

Lemma setN_as_blit out off v : setN out off v = takeN off out ++ [v] ++ dropN (off + lenN [v]) out.
Proof. reflexivity. Qed.

Lemma held_len2 s : last_bytes_len s = 2 -> held s = [lb0 s; lb1 s].
Proof. intros H. unfold held. rewrite H. reflexivity. Qed.

Lemma skipn_plus (l : list N) : forall a b, skipn a (skipn b l) = skipn (b + a) l.
Proof.
  induction l as [|x l IH]; intros a b; [rewrite !skipn_nil; reflexivity|].
  destruct b as [|b]; [reflexivity|]. cbn [skipn Nat.add]. apply IH.
Qed.
Lemma dropN_dropN l a b : dropN a (dropN b l) = dropN (b + a) l.
Proof. unfold dropN. rewrite skipn_plus. f_equal. lia. Qed.

Lemma dropN_app_more (a b : list N) n k : lenN a = n -> dropN (n + k) (a ++ b) = dropN k b.
Proof. intros H. rewrite <- dropN_dropN. rewrite (dropN_app_exact a b n H). reflexivity. Qed.

Definition blit (out : list N) (off : N) (src : list N) : list N :=
  takeN off out ++ src ++ dropN (off + lenN src) out.

Lemma blit_len out off src : off + lenN src <= lenN out -> lenN (blit out off src) = lenN out.
Proof. apply lenN_blit. Qed.

Lemma blit_blit out off e r : off + lenN e + lenN r <= lenN out ->
  blit (blit out off e) (off + lenN e) r = blit out off (e ++ r).
Proof.
  intros H. unfold blit at 1 3.
  replace (takeN (off + lenN e) (blit out off e)) with (takeN off out ++ e).
  2: { unfold blit. rewrite app_assoc. symmetry. apply takeN_app_exact. rewrite lenN_app, lenN_takeN by lia. reflexivity. }
  replace (dropN (off + lenN e + lenN r) (blit out off e)) with (dropN (off + lenN (e ++ r)) out).
  2: { unfold blit. rewrite app_assoc.
       rewrite (dropN_app_more (takeN off out ++ e) _ (off + lenN e) (lenN r)) by (rewrite lenN_app, lenN_takeN by lia; reflexivity).
       rewrite dropN_dropN, lenN_app. f_equal. lia. }
  rewrite <- !app_assoc. reflexivity.
Qed.

Lemma nth_skipn_own (l : list N) : forall n k d, nth k (skipn n l) d = nth (n + k) l d.
Proof.
  induction l as [|x l IH]; intros n k d; [rewrite skipn_nil; destruct k, n; reflexivity|].
  destruct n as [|n]; [reflexivity|]. cbn [skipn Nat.add nth]. apply IH.
Qed.

Lemma span_one l i : i < lenN l -> span l i (i + 1) = [byte_at l i].
Proof.
  intros H. unfold span, takeN, dropN, byte_at. replace (i + 1 - i) with 1 by lia. change (N.to_nat 1) with 1%nat.
  rewrite lenN_length in H.
  destruct (skipn (N.to_nat i) l) as [|x t] eqn:Es.
  - exfalso. assert (Hl : length (skipn (N.to_nat i) l) = 0%nat) by (rewrite Es; reflexivity).
    rewrite skipn_length in Hl. lia.
  - cbn [firstn]. f_equal.
    assert (Hn : nth (N.to_nat i) l 0 = nth 0 (skipn (N.to_nat i) l) 0).
    { rewrite nth_skipn_own. f_equal. lia. }
    rewrite Hn, Es. reflexivity.
Qed.

Lemma stream_copy_delay s input in_off out off r :
  last_bytes_len s = 2 -> in_off <= lenN input -> off <= lenN out ->
  stream_copy s input in_off out off = Val r ->
  delay_post s input in_off out off r /\ last_bytes_len (r_s r) = 2.
Proof.
  intros Hl Hio Hoo. unfold stream_copy.
  destruct (N.eqb_spec (lenN out) off) as [E1|E1].
  { intros H. injection H as <-. unfold delay_post. cbn [r_s r_in r_out r_off r_rc]. rewrite !span_nil, app_nil_r. auto. }
  destruct (N.eqb_spec (lenN input) in_off) as [E2|E2].
  { intros H. injection H as <-. unfold delay_post. cbn [r_s r_in r_out r_off r_rc]. rewrite !span_nil, app_nil_r. auto. }
  unfold sub_u. replace (lenN out <? off) with false by (symmetry; apply N.ltb_ge; lia).
  replace (lenN input <? in_off) with false by (symmetry; apply N.ltb_ge; lia).
  cbv zeta. set (tc := N.min (lenN out - off) (lenN input - in_off)).
  assert (T1 : tc <= lenN out - off) by (subst tc; lia).
  assert (T2 : tc <= lenN input - in_off) by (subst tc; lia).
  assert (T3 : 1 <= tc) by (subst tc; lia).
  replace (tc =? 0) with false by (symmetry; apply N.eqb_neq; lia).
  destruct (N.eqb_spec tc 1) as [Et|Et].
  - rewrite updN_ok by lia. rewrite (getN_byte_at input in_off) by lia.
    intros H. injection H as <-. unfold delay_post. cbn [r_s r_in r_out r_off r_rc].
    assert (Hl' : last_bytes_len (set_lbs s (lb1 s) (byte_at input in_off)) = 2) by (destruct s; fields; exact Hl).
    split; [|exact Hl']. rewrite (held_len2 _ Hl'), (held_len2 s Hl).
    rewrite setN_as_blit.
    pose proof (span_blit out off [lb0 s] ltac:(cbn [lenN]; lia)) as H1.
    pose proof (take_blit out off [lb0 s] ltac:(cbn [lenN]; lia)) as H2.
    pose proof (drop_blit out off [lb0 s] ltac:(cbn [lenN]; lia)) as H3.
    cbn [lenN] in *. replace (off + N.succ 0) with (off + 1) in * by lia.
    rewrite H1, H2, H3.
    rewrite span_one by lia. destruct s; fields. auto.
  - assert (T4 : 2 <= tc) by lia.
    rewrite blitN_ok by (cbn [lenN]; lia).
    destruct (subN_ok input in_off tc ltac:(lia)) as [Es Ls]. rewrite Es.
    replace (tc <? 2) with false by (symmetry; apply N.ltb_ge; lia).
    set (chunk := takeN tc (dropN in_off input)) in *.
    destruct (list_len2 (dropN (tc - 2) chunk)) as (a & b & Eab); [rewrite lenN_dropN, Ls; lia|].
    rewrite Eab.
    assert (Lb : lenN (takeN (tc - 2) chunk) = tc - 2) by (apply lenN_takeN; rewrite Ls; lia).
    fold (blit out off [lb0 s; lb1 s]).
    rewrite blitN_ok by (rewrite Lb, blit_len by (cbn [lenN]; lia); lia).
    intros H. injection H as <-. unfold delay_post. cbn [r_s r_in r_out r_off r_rc].
    assert (Hl' : last_bytes_len (set_lbs s a b) = 2) by (destruct s; fields; exact Hl).
    split; [|exact Hl']. rewrite (held_len2 _ Hl'), (held_len2 s Hl).
    assert (Hch : chunk = takeN (tc - 2) chunk ++ [a; b]).
    { rewrite <- Eab. unfold takeN, dropN. symmetry. apply firstn_skipn. }
    pose proof (blit_blit out off [lb0 s; lb1 s] (takeN (tc - 2) chunk) ltac:(cbn [lenN]; rewrite Lb; lia)) as HB.
    cbn [lenN] in HB. replace (off + N.succ (N.succ 0)) with (off + 2) in HB by lia.
    fold (blit (blit out off [lb0 s; lb1 s]) (off + 2) (takeN (tc - 2) chunk)). rewrite HB.
    set (w := [lb0 s; lb1 s] ++ takeN (tc - 2) chunk).
    assert (Lw : lenN w = tc) by (subst w; rewrite lenN_app, Lb; cbn [lenN]; lia).
    replace (off + 2 + (tc - 2)) with (off + lenN w) by lia.
    unfold blit. rewrite span_blit, take_blit, drop_blit by lia.
    replace (in_off + 2 + (tc - 2)) with (in_off + tc) by lia.
    assert (Hsp : span input in_off (in_off + tc) = chunk).
    { unfold span. replace (in_off + tc - in_off) with tc by lia. reflexivity. }
    rewrite Hsp. destruct s; fields. split; [|auto].
    subst w. rewrite <- app_assoc. cbn [app]. f_equal. f_equal. symmetry. exact Hch.
Qed.

Lemma firstn_add_own (l : list N) : forall a b, firstn (a + b) l = firstn a l ++ firstn b (skipn a l).
Proof.
  induction l as [|x l IH]; intros a b; [rewrite !firstn_nil, skipn_nil, firstn_nil; reflexivity|].
  destruct a as [|a]; [reflexivity|]. cbn [Nat.add firstn skipn app]. f_equal. apply IH.
Qed.

Lemma span_split l a b c : a <= b -> b <= c -> c <= lenN l -> span l a c = span l a b ++ span l b c.
Proof.
  intros H1 H2 H3. unfold span, takeN, dropN. rewrite lenN_length in H3.
  replace (N.to_nat (c - a)) with (N.to_nat (b - a) + N.to_nat (c - b))%nat by lia.
  rewrite firstn_add_own. f_equal. rewrite skipn_plus. f_equal. f_equal. lia.
Qed.

Lemma delay_shift s s1 input in_off in1 out off r :
  in_off <= in1 -> in1 <= r_in r -> r_in r <= lenN input ->
  held s1 = held s ++ span input in_off in1 ->
  delay_post s1 input in1 out off r -> delay_post s input in_off out off r.
Proof.
  unfold delay_post. intros H1 H2 H3 Hh (A & B & C). split; [|split; assumption].
  rewrite A, Hh, <- app_assoc. f_equal. symmetry. apply span_split; assumption.
Qed.

Lemma fill_one_held s input in_off s1 in1 : last_bytes_len s <> 2 -> last_bytes_len s <= 2 -> in_off < lenN input ->
  fill_one s input in_off = Val (s1, in1) ->
  in1 = in_off + 1 /\ held s1 = held s ++ span input in_off in1 /\ last_bytes_len s1 = last_bytes_len s + 1 /\
  new_stream_pending s1 = new_stream_pending s.
Proof.
  intros Hl Hl2 Hi. unfold fill_one. rewrite (getN_byte_at input in_off Hi).
  assert (Hc : last_bytes_len s = 0 \/ last_bytes_len s = 1) by lia.
  unfold set_lb_at, held. destruct s as [a0 a1 len san any bo ws pend]. fields.
  destruct Hc as [-> | ->]; cbn [N.eqb Pos.eqb]; fields; unfold add_u8;
    intros H; injection H as <- <-; fields; (split; [reflexivity|]); rewrite span_one by exact Hi; cbn; auto.
Qed.

Theorem stream_body_delay s input in_off out off r :
  new_stream_pending s = None -> last_bytes_len s <= 2 -> in_off <= lenN input -> off <= lenN out ->
  stream_body s input in_off out off = Val r ->
  delay_post s input in_off out off r.
Proof.
  intros Hn Hl2 Hio Hoo. unfold stream_body. rewrite Hn.
  assert (Hnil : forall rc, delay_post s input in_off out off (mkS s in_off out off rc)).
  { intros rc. unfold delay_post. cbn [r_s r_in r_out r_off r_rc]. rewrite !span_nil, app_nil_r. auto. }
  destruct (N.eqb_spec (last_bytes_len s) 2) as [El|El]; cbn [negb].
  { intros H. apply (stream_copy_delay s input in_off out off r El Hio Hoo H). }
  destruct (N.eqb_spec (lenN out) off) as [E1|E1]; [intros H; injection H as <-; apply Hnil|].
  destruct (N.eqb_spec (lenN input) in_off) as [E2|E2]; [intros H; injection H as <-; apply Hnil|].
  destruct (fill_one s input in_off) as [[s1 in1]|] eqn:F1; [|discriminate].
  destruct (fill_one_held s input in_off s1 in1 El Hl2 ltac:(lia) F1) as (I1 & Hh1 & L1 & P1). subst in1.
  destruct (N.eqb_spec (last_bytes_len s1) 2) as [El1|El1]; cbn [negb].
  { intros H. destruct (stream_copy_delay s1 input (in_off + 1) out off r El1 ltac:(lia) Hoo H) as [D _].
    assert (Hr : in_off + 1 <= r_in r /\ r_in r <= lenN input).
    { clear - H Hio E2. unfold stream_copy in H.
      destruct (lenN out =? off); [injection H as <-; cbn; lia|].
      destruct (N.eqb_spec (lenN input) (in_off + 1)); [injection H as <-; cbn; lia|].
      unfold sub_u in H. destruct (lenN out <? off); [discriminate|]. destruct (lenN input <? in_off + 1) eqn:E; [discriminate|].
      apply N.ltb_ge in E. cbv zeta in H.
      set (tc := N.min (lenN out - off) (lenN input - (in_off + 1))) in *.
      assert (tc <= lenN input - (in_off + 1)) by (subst tc; lia).
      destruct (tc =? 0); [discriminate|]. destruct (N.eqb_spec tc 1).
      - destruct (updN _ _ _); [|discriminate]. destruct (getN _ _); [|discriminate]. injection H as <-. cbn. lia.
      - destruct (blitN _ _ _); [|discriminate]. destruct (subN _ _ _); [|discriminate].
        destruct (tc <? 2) eqn:E2'; [discriminate|]. apply N.ltb_ge in E2'.
        destruct (dropN _ _) as [|? [|? [|? ?]]]; try discriminate.
        destruct (blitN _ _ _); [|discriminate]. injection H as <-. cbn. lia. }
    eapply delay_shift; [| | |exact Hh1|exact D]; lia. }
  replace (lenN out =? off) with false by (symmetry; apply N.eqb_neq; exact E1).
  assert (Hone : forall rc, delay_post s input in_off out off (mkS s1 (in_off + 1) out off rc)).
  { intros rc. unfold delay_post. cbn [r_s r_in r_out r_off r_rc]. rewrite span_nil. cbn [app]. auto. }
  destruct (N.eqb_spec (lenN input) (in_off + 1)) as [E3|E3]; [intros H; injection H as <-; apply Hone|].
  destruct (fill_one s1 input (in_off + 1)) as [[s2 in2]|] eqn:F2; [|discriminate].
  destruct (fill_one_held s1 input (in_off + 1) s2 in2 El1 ltac:(lia) ltac:(lia) F2) as (I2 & Hh2 & L2 & P2). subst in2.
  assert (El2 : last_bytes_len s2 = 2) by lia.
  intros H. destruct (stream_copy_delay s2 input (in_off + 1 + 1) out off r El2 ltac:(lia) Hoo H) as [D _].
  assert (Hr : in_off + 1 + 1 <= r_in r /\ r_in r <= lenN input).
  { clear - H Hio E2 E3. unfold stream_copy in H.
    destruct (lenN out =? off); [injection H as <-; cbn; lia|].
    destruct (N.eqb_spec (lenN input) (in_off + 1 + 1)); [injection H as <-; cbn; lia|].
    unfold sub_u in H. destruct (lenN out <? off); [discriminate|]. destruct (lenN input <? in_off + 1 + 1) eqn:E; [discriminate|].
    apply N.ltb_ge in E. cbv zeta in H.
    set (tc := N.min (lenN out - off) (lenN input - (in_off + 1 + 1))) in *.
    assert (tc <= lenN input - (in_off + 1 + 1)) by (subst tc; lia).
    destruct (tc =? 0); [discriminate|]. destruct (N.eqb_spec tc 1).
    - destruct (updN _ _ _); [|discriminate]. destruct (getN _ _); [|discriminate]. injection H as <-. cbn. lia.
    - destruct (blitN _ _ _); [|discriminate]. destruct (subN _ _ _); [|discriminate].
      destruct (tc <? 2) eqn:E2'; [discriminate|]. apply N.ltb_ge in E2'.
      destruct (dropN _ _) as [|? [|? [|? ?]]]; try discriminate.
      destruct (blitN _ _ _); [|discriminate]. injection H as <-. cbn. lia. }
  eapply delay_shift; [| | | |exact D]; try lia.
  rewrite Hh2, Hh1, <- app_assoc. f_equal. symmetry. apply span_split; lia.
Qed.

(* ------------------------------------------------------------------ any sequence of body calls *)
(* body_calls s c e s': some sequence of stream calls in the body phase (arbitrary buffers, cursors
   and free space per call) leads from s to s', consuming the bytes c and writing the bytes e *)
Inductive body_calls : BroCatli -> list N -> list N -> BroCatli -> Prop :=
  | bc_done : forall s, body_calls s [] [] s
  | bc_call : forall s input in_off out off r c e s',
      in_off <= lenN input -> off <= lenN out -> bytes_ok input -> bytes_ok out ->
      stream_body s input in_off out off = Val r ->
      body_calls (r_s r) c e s' ->
      body_calls s (span input in_off (r_in r) ++ c) (span (r_out r) off (r_off r) ++ e) s'.

Theorem body_calls_delay s c e s' : BI s -> body_calls s c e s' -> e ++ held s' = held s ++ c /\ BI s'.
Proof.
  intros HB H. induction H as [s|s input in_off out off r c e s' Hio Hoo Hbi Hbo Hr Hrest IH].
  - rewrite app_nil_r. auto.
  - pose proof HB as (HI & Hn & Hw). pose proof HI as [_ _ Hl _ _ _ _ _ _].
    destruct (stream_body_ok s input in_off out off HB Hbi Hbo Hio Hoo) as (r' & Er & Pr).
    rewrite Hr in Er. injection Er as <-. destruct Pr as (HB' & _).
    destruct (stream_body_delay s input in_off out off r Hn Hl Hio Hoo Hr) as (D & _ & _).
    destruct (IH HB') as (IH1 & IH2). split; [|exact IH2].
    rewrite <- app_assoc, IH1, app_assoc, D, <- app_assoc. reflexivity.
Qed.

Lemma app_same_tail_len (e1 e2 h1 h2 : list N) : e1 ++ h1 = e2 ++ h2 -> length h1 = length h2 -> e1 = e2 /\ h1 = h2.
Proof.
  intros H L. assert (Le : length e1 = length e2).
  { apply (f_equal (@length N)) in H. rewrite !app_length in H. lia. }
  revert e2 H Le. induction e1 as [|x e1 IH]; intros [|y e2] H Le; try discriminate Le.
  - auto.
  - cbn in H. injection H as -> H. destruct (IH e2 H ltac:(cbn in Le; lia)) as [-> ->]. auto.
Qed.

(* slicing independence of the body phase: two arbitrary call sequences from the same state that
   consume the same bytes and both hold two bytes at the end have written the same bytes and hold
   the same two bytes *)
Theorem body_slicing_independent s c e1 e2 s1 s2 :
  BI s -> body_calls s c e1 s1 -> body_calls s c e2 s2 ->
  last_bytes_len s1 = 2 -> last_bytes_len s2 = 2 ->
  e1 = e2 /\ lb0 s1 = lb0 s2 /\ lb1 s1 = lb1 s2.
Proof.
  intros HB H1 H2 L1 L2.
  destruct (body_calls_delay s c e1 s1 HB H1) as (D1 & _).
  destruct (body_calls_delay s c e2 s2 HB H2) as (D2 & _).
  rewrite (held_len2 s1 L1) in D1. rewrite (held_len2 s2 L2) in D2.
  destruct (app_same_tail_len e1 e2 [lb0 s1; lb1 s1] [lb0 s2; lb1 s2]) as (E & Hh); [congruence|reflexivity|].
  injection Hh as A B. auto.
Qed.

(* ------------------------------------------------------------------ phase H and phase E in the same style *)
(* look-ahead collection: the valid prefix of bytes_so_far grows by exactly the bytes consumed *)
Lemma collect_append s p input in_off s1 p1 in1 :
  lenN (bytes_so_far p) = 5 -> num_bytes_read p <= 5 -> in_off <= lenN input ->
  collect_header s p input in_off = Val (s1, p1, in1) ->
  takeN (num_bytes_read p1) (bytes_so_far p1) = takeN (num_bytes_read p) (bytes_so_far p) ++ span input in_off in1 /\
  num_bytes_read p1 = N.min 5 (num_bytes_read p + (lenN input - in_off)) /\
  in1 = in_off + (num_bytes_read p1 - num_bytes_read p) /\ num_bytes_written p1 = num_bytes_written p.
Proof.
  intros Hl Hr Hio. destruct p as [bsf nr nw]. cbn [bytes_so_far num_bytes_read num_bytes_written] in *.
  unfold collect_header. cbn [bytes_so_far num_bytes_read num_bytes_written]. rewrite Hl.
  destruct (N.ltb_spec nr 5) as [Hlt|Hge].
  - unfold sub_u. replace (5 <? nr) with false by (symmetry; apply N.ltb_ge; lia).
    replace (lenN input <? in_off) with false by (symmetry; apply N.ltb_ge; lia).
    set (tc := N.min (5 - nr) (lenN input - in_off)).
    assert (Htc1 : tc <= 5 - nr) by (subst tc; lia).
    assert (Htc2 : tc <= lenN input - in_off) by (subst tc; lia).
    destruct (subN_ok input in_off tc ltac:(lia)) as [E1 L1]. rewrite E1.
    rewrite blitN_ok by (rewrite L1, Hl; lia).
    unfold add_u8. rewrite (w8_small tc) by lia.
    replace (nr + tc <? 256) with true by (symmetry; apply N.ltb_lt; lia).
    intros H. injection H as <- <- <-. cbn [bytes_so_far num_bytes_read num_bytes_written].
    split; [|split; [subst tc; lia|split; [lia|reflexivity]]].
    rewrite app_assoc. rewrite takeN_app_exact.
    + f_equal. unfold span. replace (in_off + tc - in_off) with tc by lia. reflexivity.
    + rewrite lenN_app, lenN_takeN, L1 by lia. reflexivity.
  - intros H. injection H as <- <- <-. cbn [bytes_so_far num_bytes_read num_bytes_written].
    rewrite span_nil, app_nil_r. repeat split; lia.
Qed.

(* the header bytes still to be written *)
Definition owed (p : NewStreamData) : list N :=
  match num_bytes_written p with
  | Some w => span (bytes_so_far p) w (num_bytes_read p)
  | None => []
  end.

(* header emission: what the call wrote, followed by what is still owed (or, when the header is
   complete, by the single byte taken back into the held tail), is what was owed before *)
Lemma shift_emit_delay s p out off f :
  lenN (bytes_so_far p) = 5 -> num_bytes_read p <= 5 -> off <= lenN out ->
  (exists w, num_bytes_written p = Some w /\ w <= num_bytes_read p) ->
  shift_emit s p out off = Val f ->
  takeN off (f_out f) = takeN off out /\
  ((f_rc f = NeedsMoreOutput /\ exists p', new_stream_pending (f_s f) = Some p' /\
      span (f_out f) off (f_off f) ++ owed p' = owed p) \/
   (f_rc f = Success /\ new_stream_pending (f_s f) = None /\ last_bytes_len (f_s f) = 1 /\
      exists k, span (f_out f) off k = owed p /\ f_off f + 1 = k /\
                (1 <= lenN (owed p) -> [lb0 (f_s f)] = span (f_out f) (f_off f) k))).
Proof.
  intros Hl Hr Hoo (w & Ew & Hw). destruct p as [bsf nr nw]. cbn [bytes_so_far num_bytes_read num_bytes_written] in *. subst nw.
  unfold shift_emit, owed. cbn [bytes_so_far num_bytes_read num_bytes_written].
  unfold sub_u. replace (lenN out <? off) with false by (symmetry; apply N.ltb_ge; lia).
  replace (nr <? w) with false by (symmetry; apply N.ltb_ge; lia).
  cbv zeta. set (tc := N.min (lenN out - off) (nr - w)).
  assert (T1 : tc <= lenN out - off) by (subst tc; lia).
  assert (T2 : tc <= nr - w) by (subst tc; lia).
  replace (lenN bsf <? w) with false by (symmetry; apply N.ltb_ge; lia).
  destruct (subN_ok bsf w tc ltac:(lia)) as [Es Ls]. rewrite Es.
  rewrite blitN_ok by (rewrite Ls; lia).
  unfold add_u8. rewrite (w8_small tc) by lia.
  replace (w + tc <? 256) with true by (symmetry; apply N.ltb_lt; lia).
  set (src := takeN tc (dropN w bsf)) in *.
  assert (Hspan : span (takeN off out ++ src ++ dropN (off + lenN src) out) off (off + tc) = src).
  { pose proof (span_blit out off src ltac:(rewrite Ls; lia)) as Hx. rewrite Ls in Hx at 2. exact Hx. }
  assert (Hsrc : src = span bsf w (w + tc)).
  { unfold span. replace (w + tc - w) with tc by lia. reflexivity. }
  destruct (N.eqb_spec (w + tc) nr) as [Heq|Hne]; cbn [negb].
  - destruct (N.ltb_spec (off + tc) 1) as [Hz|Hz]; [discriminate|].
    set (out' := takeN off out ++ src ++ dropN (off + lenN src) out) in *.
    assert (Lo : lenN out' = lenN out) by (subst out'; apply lenN_blit; rewrite Ls; lia).
    rewrite (getN_byte_at out' (off + tc - 1)) by lia.
    intros H. injection H as <-. fields. split; [apply take_blit; rewrite Ls; lia|].
    right. repeat split.
    exists (off + tc). split; [rewrite Hspan, Hsrc, Heq; reflexivity|]. split; [lia|].
    intros Hpos. rewrite <- Heq, <- Hsrc in Hpos.
    assert (tc >= 1) by (rewrite Ls in Hpos; lia).
    remember (off + tc - 1) as j eqn:Ej. replace (off + tc) with (j + 1) by lia.
    rewrite span_one by lia. reflexivity.
  - intros H. injection H as <-. fields. split; [apply take_blit; rewrite Ls; lia|].
    left. split; [reflexivity|].
    eexists. split; [destruct (tc =? 0); destruct s; reflexivity|].
    cbn [num_bytes_written bytes_so_far num_bytes_read].
    rewrite Hspan, Hsrc. symmetry. apply span_split; lia.
Qed.
