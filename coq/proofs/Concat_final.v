(* C03, the bit-level theorem: every member preserves the relation of proofs/Concat_bits.v, the
   caller-protocol driver is followed through the whole one-shot script, and the emitted bytes are
   spec/ConcatSpec.concat_spec. *)
From Coq Require Import NArith ZArith List Bool Lia Arith PeanoNat.
From V Require Import lib.Words lib.Finite proofs.Bitops model.Concat model.ConcatRun spec.ConcatSpec spec.ConcatMarker
  proofs.Concat_proofs proofs.Concat_inv proofs.Concat_run proofs.Concat_findings proofs.Concat_tail proofs.Concat_delay
  proofs.Concat_bitlib proofs.Concat_hdr proofs.Concat_strip proofs.Concat_oneshot proofs.Concat_bits proofs.Concat_member
  proofs.Concat_later.
Import ListNotations.
Open Scope N_scope.

Definition later_of (acc : option (N * list bool)) : bool := match acc with Some _ => true | None => false end.

(* ------------------------------------------------------------------ growth of the accumulated bits *)
Lemma member_bits_len m body : strip_end_marker (bits_of_bytes m) = Some body ->
  8 * lenN m <= N.of_nat (length body) + 9.
Proof.
  intros H. destruct (strip_some _ _ H) as (k & Hk & HL).
  apply (f_equal (@length bool)) in HL. rewrite bits_of_bytes_length, !app_length, repeat_length in HL.
  cbn [length] in HL. rewrite lenN_length. lia.
Qed.

Lemma add_member_grow acc m acc' : add_member acc m = Some acc' ->
  N.of_nat (blen acc) + 8 * lenN m <= N.of_nat (blen acc') + 49 /\ (blen acc <= blen acc')%nat /\
  later_of acc' = later_of acc || (5 <=? lenN m).
Proof.
  unfold add_member, LOOKAHEAD. destruct (N.ltb_spec (lenN m) 5) as [Hs|Hl].
  { intros H. apply Some_inj in H. subst acc'. replace (5 <=? lenN m) with false by (symmetry; apply N.leb_gt; lia).
    rewrite orb_false_r. repeat split; lia. }
  replace (5 <=? lenN m) with true by (symmetry; apply N.leb_le; lia). rewrite orb_true_r.
  destruct (rfc_wbits _) as [[lgwin wlen]|]; [|discriminate].
  destruct (strip_end_marker (bits_of_bytes m)) as [body|] eqn:Hstrip; [|discriminate].
  pose proof (member_bits_len m body Hstrip) as Hb.
  destruct acc as [[w0 prev]|].
  - destruct (w0 <? lgwin); [discriminate|].
    destruct (first_header_len _) as [hlen|]; [|discriminate]. cbv zeta.
    destruct (N.ltb_spec 5 ((wlen + hlen + 7) / 8)) as [Hbig|Hsrc]; [discriminate|].
    intros H. apply Some_inj in H. subst acc'. cbn [blen later_of].
    rewrite !app_length, skipn_length. repeat split; lia.
  - intros H. apply Some_inj in H. subst acc'. cbn [blen later_of]. repeat split; lia.
Qed.

Lemma add_members_mono ms : forall acc accf, add_members acc ms = Some accf -> (blen acc <= blen accf)%nat.
Proof.
  induction ms as [|m ms IH]; intros acc accf H; cbn [add_members] in H.
  - apply Some_inj in H. subst. lia.
  - destruct (add_member acc m) as [acc'|] eqn:E; [|discriminate].
    destruct (add_member_grow _ _ _ E) as (_ & H1 & _). specialize (IH _ _ H). lia.
Qed.

Lemma bytes_of_bits_len f : forall l, (length l <= 8 * f)%nat -> (length l <= 8 * length (bytes_of_bits f l))%nat.
Proof.
  induction f as [|f IH]; intros l H.
  - destruct l; cbn in *; lia.
  - destruct l as [|x l]; [cbn; lia|]. cbn [bytes_of_bits length].
    specialize (IH (skipn 8 (x :: l))). rewrite skipn_length in IH. cbn [length] in IH, H. lia.
Qed.

Lemma expected_len accf : N.of_nat (blen accf) <= 8 * lenN (expected_of accf).
Proof.
  destruct accf as [[w B]|]; cbn [blen expected_of]; [|cbn; lia].
  unfold pack. pose proof (bytes_of_bits_len (S (length (B ++ [true; true]))) (B ++ [true; true]) ltac:(lia)) as H.
  rewrite lenN_length. rewrite app_length in H at 1. lia.
Qed.

(* ------------------------------------------------------------------ one member through `stream` *)
Lemma flush_Z s out off : last_bytes_len s = 0 ->
  exists s1, flush_previous_stream s out off = Val (mkF s1 out off Success) /\
    window_size s1 = window_size s /\ last_bytes_len s1 = 0 /\ last_byte_bit_offset s1 = last_byte_bit_offset s /\
    any_bytes_emitted s1 = any_bytes_emitted s /\ new_stream_pending s1 = new_stream_pending s.
Proof.
  intros Hl. unfold flush_previous_stream. destruct (last_byte_sanitized s).
  - exists s. repeat split; assumption.
  - rewrite Hl. change (0 =? 0) with true. cbv iota. exists (set_sanitized s true).
    destruct s; fields. repeat split; assumption.
Qed.

(* a member after the marker has been stripped (or after earlier empty members) *)
Lemma member_S w B E s1 m out acc' :
  Rel (Some (w, B)) E s1 -> last_byte_sanitized s1 = true ->
  bytes_ok m -> add_member (Some (w, B)) m = Some acc' -> member_marker_ok true m = true ->
  bytes_ok out -> takeN (lenN E) out = E -> lenN E + lenN m + 8 <= lenN out ->
  exists r E', after_flush s1 m out (lenN E) = Val r /\ r_rc r = NeedsMoreInput /\
    lenN (r_out r) = lenN out /\ bytes_ok (r_out r) /\ r_off r = lenN E' /\ takeN (lenN E') (r_out r) = E' /\
    Rel acc' E' (r_s r).
Proof.
  intros HR Hsan Hm Hadd Hmark Hout HE Hroom.
  destruct (N.ltb_spec (lenN m) 5) as [Hshort|Hlong].
  - (* shorter than the look-ahead: swallowed *)
    unfold add_member, LOOKAHEAD in Hadd. replace (lenN m <? 5) with true in Hadd by (symmetry; apply N.ltb_lt; exact Hshort).
    apply Some_inj in Hadd. subst acc'.
    destruct (after_flush_short s1 m out (lenN E) Hshort) as (p1 & Ea).
    eexists. exists E. split; [exact Ea|]. cbn [r_rc r_out r_off r_s].
    repeat split; try assumption; try reflexivity. apply Rel_set_pending. exact HR.
  - inversion HR as [|w' B0 E0 s0 H1 H2 H3 H4 H5 H6 H7 H8 H9|w' B0 E0 s0 H1 H2 H3 H4 H5 H6 H7 H8]; subst; [congruence|].
    destruct s1 as [l0 l1 len san any bo ws pend]. fields. subst san len.
    destruct acc' as [[w' B']|].
    2: { exfalso. destruct (add_member_grow _ _ _ Hadd) as (_ & _ & Hl). cbn [later_of] in Hl. discriminate Hl. }
    destruct (later_member l0 l1 any bo ws pend E w' B' m out H7 H2 H3 H5 Hm Hlong Hadd Hmark Hout HE Hroom)
      as (r & Er & R1 & R2 & R3 & R4 & R5 & R6 & R7 & R8 & R9 & R10 & R11).
    subst w'.
    exists r, (takeN (r_off r) (r_out r)). split; [exact Er|]. split; [exact R1|]. split; [exact R2|]. split; [exact R3|].
    assert (LE' : lenN (takeN (r_off r) (r_out r)) = r_off r) by (apply lenN_takeN; lia).
    split; [symmetry; exact LE'|]. split; [rewrite LE'; reflexivity|].
    apply RelU; try assumption. apply bytes_ok_takeN. exact R3.
Qed.

Theorem stream_member acc E s m out acc' :
  Rel acc E s -> bytes_ok m -> m <> [] -> add_member acc m = Some acc' -> member_marker_ok (later_of acc) m = true ->
  bytes_ok out -> takeN (lenN E) out = E -> N.of_nat (blen acc) / 8 + lenN m + 8 <= lenN out ->
  exists r E', stream (new_brotli_file s) m 0 out (lenN E) = Val r /\ r_rc r = NeedsMoreInput /\
    lenN (r_out r) = lenN out /\ bytes_ok (r_out r) /\ r_off r = lenN E' /\ takeN (lenN E') (r_out r) = E' /\
    Rel acc' E' (r_s r).
Proof.
  intros HR Hm Hne Hadd Hmark Hout HE Hroom.
  assert (Hpend : new_stream_pending (new_brotli_file s) = Some nsd_new) by (destruct s; reflexivity).
  pose proof (Rel_set_pending acc E s (Some nsd_new) HR) as HR'. fold (new_brotli_file s) in HR'.
  assert (HlenE : forall E1 s1, Rel acc E1 s1 -> lenN E1 <= N.of_nat (blen acc) / 8).
  { intros E1 s1 H1. pose proof (Rel_len _ _ _ H1) as HL. rewrite lenN_length.
    apply N.div_le_lower_bound; [discriminate|]. lia. }
  destruct acc as [[w B]|]; [destruct (last_byte_sanitized (new_brotli_file s)) eqn:H4|].
  3: inversion HR' as [s0 H1 H2 H3 H4| |]; subst.
  3: { (* nothing but empty members so far *)
    destruct (flush_Z (new_brotli_file s) out (lenN []) H2) as (s1 & Ef & F1 & F2 & F3 & F4 & F5).
    rewrite (stream_after_flush _ m out _ s1 out _ Hpend Ef). cbn [lenN blen] in *.
    change (N.of_nat 0 / 8) with 0 in Hroom.
    unfold add_member, LOOKAHEAD in Hadd. unfold member_marker_ok, LOOKAHEAD in Hmark. cbn [later_of] in Hmark.
    destruct (N.ltb_spec (lenN m) 5) as [Hshort|Hlong].
    + apply Some_inj in Hadd. subst acc'.
      destruct (after_flush_short s1 m out 0 Hshort) as (p1 & Ea).
      eexists. exists []. split; [exact Ea|]. cbn [r_rc r_out r_off r_s lenN].
      repeat split; try assumption; try reflexivity.
      apply Rel_set_pending. apply RelZ; congruence.
    + destruct (rfc_wbits (byte_at m 0 + 256 * byte_at m 1)) as [[lgwin wlen]|] eqn:Hrfc; [|discriminate].
      destruct (strip_end_marker (bits_of_bytes m)) as [body|] eqn:Hstrip; [|discriminate].
      apply Some_inj in Hadd. subst acc'. cbv zeta in Hmark. apply N.leb_le in Hmark.
      destruct (first_member s1 m out lgwin wlen ltac:(congruence) ltac:(congruence) Hm Hlong Hrfc Hout ltac:(lia))
        as (r & Er & R1 & R2 & R3 & R4 & R5 & R6 & R7 & R8 & R9 & R10 & R11 & R12).
      exists r, (takeN (r_off r) (r_out r)). split; [exact Er|]. split; [exact R1|]. split; [exact R2|]. split; [exact R3|].
      assert (LE' : lenN (takeN (r_off r) (r_out r)) = r_off r) by (apply lenN_takeN; lia).
      split; [symmetry; exact LE'|]. split; [rewrite LE'; reflexivity|].
      apply RelU; try assumption.
      * apply bytes_ok_takeN. exact R3.
      * destruct R12 as [R12|(Rm & Rl & Rb)]; [left; exact R12|right]. split; [exact Rl|]. split; [exact Rb|].
        destruct (strip_some _ _ Hstrip) as (k & Hk & HL).
        apply (f_equal (@length bool)) in HL. rewrite bits_of_bytes_length, !app_length, repeat_length in HL.
        cbn [length] in HL. rewrite lenN_length in Rm.
        apply (body_mod_5 (N.of_nat (length body)) (N.of_nat k)); lia.
      * rewrite R5. exact Hstrip. }
  - (* already stripped *)
    specialize (HlenE _ _ HR'). cbn [blen later_of] in *.
    rewrite (stream_after_flush _ m out _ (new_brotli_file s) out _ Hpend (flush_sanitized _ _ _ H4)).
    apply (member_S _ B E (new_brotli_file s) m out acc' HR' H4 Hm Hadd Hmark Hout HE). lia.
  - (* the previous member's tail is still held back with its marker *)
    specialize (HlenE _ _ HR'). cbn [blen later_of] in *.
    destruct (flush_U _ _ _ _ out HR' H4 ltac:(lia)) as (s1 & e & Ef & HR1 & Hs1 & He & Hle & Hp1).
    rewrite (stream_after_flush _ m out _ s1 _ _ Hpend Ef).
    assert (HlenE1 : lenN (E ++ e) <= N.of_nat (length B) / 8).
    { pose proof (Rel_len _ _ _ HR1) as HL. cbn [blen] in HL. rewrite lenN_length.
      apply N.div_le_lower_bound; [discriminate|]. lia. }
    rewrite <- lenN_app.
    destruct (member_S _ B (E ++ e) s1 m (blit out (lenN E) e) acc' HR1 Hs1 Hm Hadd Hmark) as (r & E' & Hr).
    + apply bytes_ok_blit; assumption.
    + rewrite lenN_app. rewrite takeN_blit_all by lia. rewrite HE. reflexivity.
    + rewrite blit_len by lia. lia.
    + exists r, E'. rewrite blit_len in Hr by lia. exact Hr.
Qed.

(* ------------------------------------------------------------------ the driver *)
Lemma go_file fuel caps pc rall rs rest io (d : drv BroCatli) :
  go_nat (S fuel) caps pc rall rs (TFile :: rest) io d =
  go_nat fuel caps pc rall rs rest 0
    (mkD BroCatli (new_brotli_file (d_s _ d)) (d_buf _ d) (d_off _ d) (d_capidx _ d) (d_emitted _ d) (d_calls _ d) (d_trace _ d)).
Proof. reflexivity. Qed.

Lemma go_chunk fuel caps c rest io (d : drv BroCatli) r :
  stream (d_s _ d) c io (d_buf _ d) (d_off _ d) = Val r -> r_rc r = NeedsMoreInput ->
  exists tr, go_nat (S fuel) caps false false [] (TChunk c :: rest) io d =
    go_nat fuel caps false false [] rest 0
      (mkD BroCatli (r_s r) (r_out r) (r_off r) (d_capidx _ d) (d_emitted _ d) (d_calls _ d + 1) tr).
Proof.
  intros Hs Hrc. cbn [go]. unfold maybe_restore. cbn [orb memN existsb]. unfold nat_stream. rewrite Hs.
  cbn [o_rc o_s o_in o_out o_off]. rewrite Hrc. eexists. reflexivity.
Qed.

Lemma go_finish fuel caps rest io (d : drv BroCatli) f :
  finish (d_s _ d) (d_buf _ d) (d_off _ d) = Val f -> f_rc f = Success ->
  rr_final (go_nat (S fuel) caps false false [] (TFinish :: rest) io d) = Done Success /\
  rr_emitted (go_nat (S fuel) caps false false [] (TFinish :: rest) io d) = d_emitted _ d ++ takeN (f_off f) (f_out f).
Proof.
  intros Hf Hrc. cbn [go]. unfold maybe_restore. cbn [orb memN existsb]. unfold nat_finish. rewrite Hf.
  cbn [o_rc o_s o_in o_out o_off]. rewrite Hrc. split; reflexivity.
Qed.

(* the script of props/C03.one_shot (same body; the property file states the theorem with its own name) *)
Definition oneshot_tasks (ms : list (list N)) : list task :=
  flat_map (fun m => TFile :: match m with [] => [] | _ => [TChunk m] end) ms ++ [TFinish].

Lemma one_shot_cons m ms :
  oneshot_tasks (m :: ms) = (TFile :: match m with [] => [] | _ => [TChunk m] end) ++ oneshot_tasks ms.
Proof. unfold oneshot_tasks. cbn [flat_map]. rewrite <- app_assoc. reflexivity. Qed.

Theorem go_members : forall ms fuel acc accf E s out ci calls trace,
  Forall bytes_ok ms -> members_marker_ok (later_of acc) ms = true -> add_members acc ms = Some accf ->
  Rel acc E s -> bytes_ok out -> takeN (lenN E) out = E ->
  lenN (expected_of accf) + 16 <= lenN out -> (2 * length ms + 1 <= fuel)%nat ->
  let r := go_nat fuel [lenN out] false false [] (oneshot_tasks ms) 0 (mkD BroCatli s out (lenN E) ci [] calls trace) in
  rr_final r = Done Success /\ rr_emitted r = expected_of accf.
Proof.
  induction ms as [|m ms IH]; intros fuel acc accf E s out ci calls trace Hms Hmark Hadd HR Hout HE Hcap Hfuel.
  - (* finish *)
    cbn [add_members] in Hadd. apply Some_inj in Hadd. subst accf.
    destruct fuel as [|fuel]; [cbn in Hfuel; lia|].
    pose proof (Rel_len _ _ _ HR) as HL. pose proof (expected_len acc) as HX.
    assert (HlE : lenN E + 2 <= lenN out) by (rewrite lenN_length in *; lia).
    destruct (finish_Rel acc E s out HR HE HlE) as (f & Ef & Frc & Fout).
    change (oneshot_tasks []) with [TFinish].
    destruct (go_finish fuel [lenN out] [] 0 (mkD BroCatli s out (lenN E) ci [] calls trace) f Ef Frc) as (G1 & G2).
    cbv zeta. split; [exact G1|]. rewrite G2. cbn [d_emitted app]. exact Fout.
  - (* one member *)
    inversion Hms as [|? ? Hm Hms']; subst.
    cbn [add_members] in Hadd. destruct (add_member acc m) as [acc'|] eqn:Eadd; [|discriminate].
    cbn [members_marker_ok] in Hmark. apply andb_true_iff in Hmark. destruct Hmark as [Hmk Hmks].
    destruct (add_member_grow _ _ _ Eadd) as (Hg1 & Hg2 & Hg3). unfold LOOKAHEAD in Hmks. rewrite <- Hg3 in Hmks.
    pose proof (add_members_mono _ _ _ Hadd) as Hmono. pose proof (expected_len accf) as HX.
    destruct fuel as [|[|fuel]]; [cbn [length] in Hfuel; lia|cbn [length] in Hfuel; lia|].
    rewrite one_shot_cons. cbn [app]. cbv zeta. rewrite go_file. cbn [d_s d_buf d_off d_capidx d_emitted d_calls d_trace].
    destruct m as [|b m'].
    + (* an empty buffer is not streamed at all *)
      cbn [app]. unfold add_member in Eadd. cbn [lenN] in Eadd. change (0 <? LOOKAHEAD) with true in Eadd.
      apply Some_inj in Eadd. subst acc'.
      apply (IH (S fuel) acc accf E (new_brotli_file s) out ci calls trace Hms' Hmks Hadd); try assumption.
      * apply Rel_set_pending. exact HR.
      * cbn [length] in Hfuel. lia.
    + set (m := b :: m') in *.
      assert (Hroom : N.of_nat (blen acc) / 8 + lenN m + 8 <= lenN out).
      { assert (Hd : 8 * (N.of_nat (blen acc) / 8) <= N.of_nat (blen acc)) by (apply N.mul_div_le; discriminate). lia. }
      destruct (stream_member acc E s m out acc' HR Hm ltac:(discriminate) Eadd Hmk Hout HE Hroom)
        as (r & E' & Er & R1 & R2 & R3 & R4 & R5 & R6).
      cbn [app].
      destruct (go_chunk fuel [lenN out] m (oneshot_tasks ms) 0
                  (mkD BroCatli (new_brotli_file s) out (lenN E) ci [] calls trace) r Er R1) as (tr & Eg).
      rewrite Eg. cbn [d_capidx d_emitted d_calls]. rewrite R4, <- R2.
      apply (IH fuel acc' accf E' (r_s r) (r_out r) ci (calls + 1) tr Hms' Hmks Hadd R6 R3 R5).
      * rewrite R2. exact Hcap.
      * cbn [length] in Hfuel. lia.
Qed.

(* ------------------------------------------------------------------ the initial states *)
Definition acc0 (override : option N) : option (N * list bool) :=
  match override with None => None | Some w => Some (w, wbits_field w) end.

Definition init_chk (w : N) : bool :=
  let s := init (Some w) in
  (window_size s =? w) && negb (last_byte_sanitized s) && (lb0 s <? 256) && (lb1 s <? 256) &&
  ((last_bytes_len s =? 2) ||
   ((last_bytes_len s =? 1) && (lb1 s =? 0) && negb (N.of_nat (length (wbits_field w)) mod 8 =? 7))) &&
  match strip_end_marker (bits_of_bytes (held s)) with Some B => bl_eqb B (wbits_field w) | None => false end.
Lemma init_chk_all : all_between init_chk 10 21 = true.
Proof. vm_compute. reflexivity. Qed.

Lemma Rel_init override : (forall w, override = Some w -> 10 <= w /\ w <= 30) ->
  Rel (acc0 override) [] (init override).
Proof.
  intros Hov. destruct override as [w|]; cbn [acc0].
  - destruct (Hov w eq_refl) as [H1 H2].
    pose proof (all_between_spec _ _ _ init_chk_all w H1 ltac:(lia)) as H. unfold init_chk in H. cbv zeta in H.
    set (s := init (Some w)) in *.
    destruct (strip_end_marker (bits_of_bytes (held s))) as [B|] eqn:Es; [|rewrite andb_false_r in H; discriminate].
    apply andb_true_iff in H; destruct H as [H HB]. apply andb_true_iff in H; destruct H as [H Ho].
    apply andb_true_iff in H; destruct H as [H Hb1]. apply andb_true_iff in H; destruct H as [H Hb0].
    apply andb_true_iff in H; destruct H as [Hw Hn].
    apply bl_eqb_eq in HB. subst B. apply N.eqb_eq in Hw. apply negb_true_iff in Hn.
    apply N.ltb_lt in Hb0, Hb1.
    apply RelU; try assumption; [constructor|].
    apply orb_true_iff in Ho. destruct Ho as [Ho|Ho].
    + left. apply N.eqb_eq. exact Ho.
    + right. apply andb_true_iff in Ho; destruct Ho as [Ho Hm7]. apply andb_true_iff in Ho; destruct Ho as [Hl1 Hz].
      split; [apply N.eqb_eq; exact Hl1|]. split; [apply N.eqb_eq; exact Hz|].
      apply negb_true_iff, N.eqb_neq in Hm7. exact Hm7.
  - apply RelZ; reflexivity.
Qed.

Lemma lenN_pattern n : forall i, lenN (pattern_from n i) = N.of_nat n.
Proof. induction n as [|n IH]; intros i; cbn [pattern_from lenN]; [reflexivity|]. rewrite IH. lia. Qed.
Lemma lenN_fresh cap : lenN (fresh_buf cap) = cap.
Proof. unfold fresh_buf. rewrite lenN_pattern. lia. Qed.

(* ------------------------------------------------------------------ the theorem *)
Theorem one_shot_bits : forall (override : option N) (ms : list (list N)) (expected : list N) (fuel : nat) (cap : N),
  Forall bytes_ok ms -> (forall w, override = Some w -> 10 <= w /\ w <= 30) ->
  markers_ok override ms = true ->
  concat_spec override ms = Some expected ->
  lenN expected + 16 <= cap -> (4 * length ms + 8 <= fuel)%nat ->
  let r := run_native fuel [cap] false false [] (oneshot_tasks ms) (init override) in
  rr_final r = Done Success /\ rr_emitted r = expected.
Proof.
  intros override ms expected fuel cap Hms Hov Hmark Hspec Hcap Hfuel.
  unfold concat_spec in Hspec. fold (acc0 override) in Hspec.
  destruct (add_members (acc0 override) ms) as [accf|] eqn:Eadd; [|discriminate].
  assert (Hexp : expected = expected_of accf).
  { destruct accf as [[w B]|]; apply Some_inj in Hspec; subst; reflexivity. }
  subst expected.
  unfold run_native, run_from. change (nth_cap [cap] 0) with cap.
  pose proof (lenN_fresh cap) as Lf.
  pose proof (go_members ms fuel (acc0 override) accf [] (init override) (fresh_buf cap) 0 0 []) as G.
  rewrite Lf in G. cbn [lenN] in G. apply G; try assumption.
  - unfold markers_ok in Hmark. destruct override; exact Hmark.
  - apply Rel_init. exact Hov.
  - apply bytes_ok_fresh.
  - reflexivity.
  - lia.
Qed.
