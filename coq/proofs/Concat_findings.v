(* Machine-checked witnesses of the defects of the concatenator as it was BEFORE the repairs
   (model/ConcatOrig.v), each replayed on the real pre-fix code during the build of the checks
   and each gone on the repaired model (the `_fixed` twin evaluates the same witness on
   model/Concat.v).  All by vm_compute. *)
From Coq Require Import NArith List Bool.
From V Require Import lib.Words model.Concat model.ConcatRun spec.ConcatSpec.
From V Require model.ConcatOrig.
Import ListNotations.
Open Scope N_scope.

Module O := ConcatOrig.

Definition conv_rc (r : O.rcode) : rcode :=
  match r with
  | O.Success => Success | O.NeedsMoreInput => NeedsMoreInput | O.NeedsMoreOutput => NeedsMoreOutput
  | O.BrotliFileNotCraftedForAppend => BrotliFileNotCraftedForAppend | O.InvalidWindowSize => InvalidWindowSize
  | O.WindowSizeLargerThanPreviousFile => WindowSizeLargerThanPreviousFile
  | O.BrotliFileNotCraftedForConcatenation => BrotliFileNotCraftedForConcatenation
  end.
Definition o_stream (s : O.BroCatli) i io o oo : res (oret O.BroCatli) :=
  match O.stream s i io o oo with
  | O.Panic => Panic
  | O.Val r => Val (mkO (O.r_s r) (O.r_in r) (O.r_out r) (O.r_off r) (conv_rc (O.r_rc r)))
  end.
Definition o_finish (s : O.BroCatli) o oo : res (oret O.BroCatli) :=
  match O.finish s o oo with
  | O.Panic => Panic
  | O.Val f => Val (mkO (O.f_s f) 0 (O.f_out f) (O.f_off f) (conv_rc (O.f_rc f)))
  end.
Definition o_show (s : O.BroCatli) : list N :=
  match O.serialize_to_buffer s (O.zeros 24) with Some b => b | None => [] end.
(* the caller-protocol driver of model/ConcatRun.v over the pre-fix functions *)
Definition run_orig := run_from O.BroCatli o_stream o_finish (fun s => Val (O.new_brotli_file s)) o_show (fun s => Val s).
Definition o_init (w : option N) : O.BroCatli :=
  match w with None => O.bc_new | Some k => match O.new_with_window_size k with O.Val s => s | O.Panic => O.bc_new end end.
Definition init (w : option N) : BroCatli :=
  match w with None => bc_new | Some k => match new_with_window_size k with Val s => s | Panic => bc_new end end.

Definition result (r : run_result) : outcome * list N := (rr_final r, rr_emitted r).

(* a valid first member (lgwin 22, one uncompressed block "a") *)
Definition m_a : list N := [11; 0; 128; 97; 3].
(* a valid catable member whose first block is metadata with MSKIPBYTES = 3 (65 537 bytes would
   follow; the header alone is enough to trigger the defect) fed 4 bytes first *)
Definition m_meta3_hdr : list N := [107; 3; 0; 0; 1; 0; 0; 0].

(* ---- C16: a protocol-following call sequence panics (attempt to subtract with overflow) *)
Definition t_meta3 : list task := [TFile; TChunk m_a; TFile; TChunk [107; 3; 0; 0]; TChunk [1; 0; 0; 0]].
Lemma C16_total_refuted_orig : rr_final (run_orig 100 [64] false false [] t_meta3 (o_init None)) = Panicked.
Proof. vm_compute. reflexivity. Qed.
Lemma C16_witness_fixed :
  rr_final (run_native 100 [64] false false [] t_meta3 (init None)) = Done Success.
Proof. vm_compute. reflexivity. Qed.

(* ---- C12 (a): the same member is accepted when 5 header bytes arrive together and panics when 4 do *)
Lemma C12_slicing_refuted_orig_lookahead :
  rr_final (run_orig 100 [64] false false [] [TFile; TChunk m_a; TFile; TChunk m_meta3_hdr] (o_init None)) = Done Success /\
  rr_final (run_orig 100 [64] false false [] t_meta3 (o_init None)) = Panicked.
Proof. vm_compute. split; reflexivity. Qed.

(* ---- C12 (b): one call with no free output space at the member boundary corrupts the tail.
   members: "hello world" style 10-byte appendable stream, then a catable one *)
Definition m_first : list N := [139; 2; 128; 72; 46; 21; 202; 231; 80; 3].
Definition m_second : list N := [176; 0; 16; 104; 101; 108; 108; 111; 3].
Definition t_two : list task := [TFile; TChunk m_first; TFile; TChunk m_second; TFinish].
Lemma C12_slicing_refuted_orig_zero_space :
  result (run_orig 200 [64] true false [] t_two (o_init None)) <> result (run_orig 200 [64; 0; 64] true false [] t_two (o_init None)).
Proof. vm_compute. intros H. discriminate H. Qed.
Lemma C12_zero_space_fixed :
  result (run_native 200 [64] true false [] t_two (init None)) = result (run_native 200 [64; 0; 64] true false [] t_two (init None)).
Proof. vm_compute. reflexivity. Qed.

(* ---- C12 (c): with one-byte output buffers the realigned header of a short member is lost *)
Definition t_short : list task := [TFile; TChunk m_a; TFile; TChunk [44; 0; 77; 3; 3]; TFinish].
Lemma C12_slicing_refuted_orig_emission :
  result (run_orig 300 [64] false false [] [TFile; TChunk m_a; TFile; TChunk [44; 0; 77; 3]; TFinish] (o_init None))
  <> result (run_orig 300 [1] true false [] [TFile; TChunk m_a; TFile; TChunk [44; 0; 77; 3]; TFinish] (o_init None)).
Proof. vm_compute. intros H. discriminate H. Qed.

(* ---- C03 (a): straddling end marker, then an empty member: finish emits 71 80 80 *)
Lemma C03_bits_refuted_orig_straddle :
  result (run_orig 100 [64] false false [] [TFile; TChunk [59]; TFinish] (o_init (Some 15))) = (Done Success, [113; 128; 128]) /\
  concat_spec (Some 15) [[59]] = Some [241; 1].
Proof. vm_compute. split; reflexivity. Qed.
Lemma C03_straddle_fixed :
  Some (rr_emitted (run_native 100 [64] false false [] [TFile; TChunk [59]; TFinish] (init (Some 15)))) = concat_spec (Some 15) [[59]].
Proof. vm_compute. reflexivity. Qed.

(* ---- C03 (b): new_with_window_size(16) starts from 0x07, which declares window 20 *)
Lemma C03_bits_refuted_orig_w16 :
  result (run_orig 100 [64] false false [] [TFinish] (o_init (Some 16))) = (Done Success, [7]) /\
  concat_spec (Some 16) [] = Some [6] /\ rfc_wbits 7 = Some (20, 4).
Proof. vm_compute. repeat split; reflexivity. Qed.

(* ---- C03 (c): marker re-appended at bits 6,7: a trailing byte that holds no stream bits is emitted *)
Lemma C03_bits_refuted_orig_trailing :
  result (run_orig 100 [64] false false [] [TFile; TChunk [129; 1]; TFinish] (o_init (Some 30))) = (Done Success, [17; 222; 30]) /\
  concat_spec (Some 30) [[129; 1]] = Some [17; 222].
Proof. vm_compute. repeat split; reflexivity. Qed.
Lemma C03_trailing_fixed :
  Some (rr_emitted (run_native 100 [64] false false [] [TFile; TChunk [129; 1]; TFinish] (init (Some 30)))) = concat_spec (Some 30) [[129; 1]].
Proof. vm_compute. reflexivity. Qed.

(* ------------------------------------------------------------------ the two known (unrepaired) classes of C03, on the current model *)
(* (1) a later member in the large-window format whose window field + first header need 6 bytes:
   the bit-level specification does not apply (concat_spec = None, the header does not end inside
   the 5 look-ahead bytes) and the concatenator answers BrotliFileNotCraftedForConcatenation. *)
Definition KnownClass_header_exceeds_lookahead (override : option N) (ms : list (list N)) : Prop :=
  concat_spec override ms = None.
Definition m_large_meta3 : list N := [17; 22; 59; 0; 0; 1; 0; 0].     (* 14-bit WBITS (22), metadata, MSKIPBYTES = 3 *)
Definition m_large_first : list N := [17; 22; 2; 0; 2; 97; 3].        (* large-window lgwin 22, uncompressed "a" *)
Lemma known_header_exceeds_lookahead :
  KnownClass_header_exceeds_lookahead None [m_large_first; m_large_meta3] /\
  rr_final (run_native 100 [64] false false [] [TFile; TChunk m_large_first; TFile; TChunk m_large_meta3; TFinish] (init None))
    = Done BrotliFileNotCraftedForConcatenation.
Proof. vm_compute. split; reflexivity. Qed.

(* (2) members of the large-window stream format mixed with RFC 7932 ones (or a window override
   above 24 with RFC 7932 members): the class is inhabited and the concatenator reports Success;
   that the result is not decodable is a fact about the two formats' distance alphabets, shown by
   the check with two decoders, not in Coq. *)
Definition large_format (m : list N) : bool :=
  match rfc_wbits (byte_at m 0 + 256 * byte_at m 1) with Some (_, 14) => true | _ => false end.
Definition KnownClass_mixed_formats (override : option N) (ms : list (list N)) : Prop :=
  exists a b, In a ((match override with Some w => [24 <? w] | None => [] end) ++
                   map large_format (filter (fun m => 5 <=? lenN m) ms)) /\
              In b ((match override with Some w => [24 <? w] | None => [] end) ++
                   map large_format (filter (fun m => 5 <=? lenN m) ms)) /\ a <> b.
Lemma known_mixed_formats :
  KnownClass_mixed_formats (Some 30) [[11; 0; 128; 97; 3]] /\
  rr_final (run_native 100 [64] false false [] [TFile; TChunk [11; 0; 128; 97; 3]; TFinish] (init (Some 30))) = Done Success.
Proof.
  split; [|vm_compute; reflexivity].
  exists true, false. vm_compute. repeat split; auto. discriminate.
Qed.
