(* The executable protocol driver of model/ConcatRun.v (the one the correspondence check runs, and
   whose Rust twin is harness/src/bin/concat.rs) is an instance of the protocol relation
   run_calls of proofs/Concat_slicing.v: whenever a run of a script over the members ms does not run
   out of call budget, what it emitted and how it ended is a run_calls derivation.  With
   run_slicing_independent this gives C12_slicing for run_native. *)
From Coq Require Import NArith List Bool Lia Arith PeanoNat.
From V Require Import lib.Words lib.Finite proofs.Bitops model.Concat model.ConcatRun spec.ConcatSpec
  proofs.Concat_proofs proofs.Concat_inv proofs.Concat_run proofs.Concat_delay proofs.Concat_slicing.
Import ListNotations.
Open Scope N_scope.

(* a member cut into non-empty input buffers, followed by the tasks `after` *)
Inductive chunks_of : list N -> list task -> list task -> Prop :=
  | co_nil : forall after, chunks_of [] after after
  | co_cons : forall c m after ts, c <> [] -> bytes_ok c -> chunks_of m after ts -> chunks_of (c ++ m) after (TChunk c :: ts).
(* a script over the members ms: new_brotli_file + chunks for each member, then finish *)
Inductive script_of : list (list N) -> list task -> Prop :=
  | so_end : script_of [] [TFinish]
  | so_member : forall m ms ts ts', script_of ms ts -> chunks_of m ts ts' -> script_of (m :: ms) (TFile :: ts').

Notation D := (drv BroCatli).
Definition Eof (d : D) : list N := d_emitted BroCatli d ++ takeN (d_off BroCatli d) (d_buf BroCatli d).
Definition dok (d : D) : Prop :=
  InvP (d_s BroCatli d) /\ bytes_ok (d_buf BroCatli d) /\ d_off BroCatli d <= lenN (d_buf BroCatli d).

Notation gon := (go BroCatli nat_stream nat_finish (fun s => Val (new_brotli_file s)) show_state nat_restore).

Lemma Eof_stop d o : rr_emitted (stop BroCatli d o) = Eof d.
Proof. reflexivity. Qed.
Lemma Eof_drain caps d : Eof (drain BroCatli caps d) = Eof d.
Proof. unfold Eof, drain. cbn [d_emitted d_off d_buf]. change (takeN 0 ?l) with (@nil N). rewrite app_nil_r. reflexivity. Qed.
Lemma dok_drain caps d : InvP (d_s BroCatli d) -> dok (drain BroCatli caps d).
Proof. intros H. unfold dok, drain. cbn [d_s d_buf d_off]. split; [exact H|split; [apply bytes_ok_fresh|lia]]. Qed.

Lemma take_span l a b : a <= b -> b <= lenN l -> takeN b l = takeN a l ++ span l a b.
Proof.
  intros H1 H2. unfold span, takeN, dropN. rewrite lenN_length in H2.
  replace (N.to_nat b) with (N.to_nat a + N.to_nat (b - a))%nat by lia. apply firstn_add_own.
Qed.

Lemma no_restore d : maybe_restore BroCatli nat_restore false [] d = Val (d_s BroCatli d).
Proof. reflexivity. Qed.

(* where a run stands inside the current member: rest = bytes not yet consumed; need = a call is
   due because the previous one answered NeedsMoreOutput *)
Inductive in_member : bool -> list N -> list task -> N -> list task -> Prop :=
  | im_end : forall after, in_member false [] after 0 after
  | im_chunk : forall need c in_off m1 ts1 after, in_off <= lenN c -> bytes_ok c -> c <> [] -> chunks_of m1 after ts1 ->
      (need = true \/ in_off = 0) ->
      in_member need (dropN in_off c ++ m1) (TChunk c :: ts1) in_off after.

Lemma chunks_in_member m after ts : chunks_of m after ts -> in_member false m ts 0 after.
Proof.
  intros H. destruct H as [after|c m after ts Hc Hb H].
  - constructor.
  - change (c ++ m) with (dropN 0 c ++ m). constructor; try assumption; [lia|right; reflexivity].
Qed.

Lemma dropN_all_app (c m1 : list N) i : i <= lenN c -> dropN (lenN c - i) (dropN i c ++ m1) = m1.
Proof. intros H. apply dropN_app_exact. rewrite lenN_dropN. reflexivity. Qed.

Lemma lenN_zero_nil (l : list N) : lenN l = 0 -> l = [].
Proof. destruct l; [reflexivity|cbn [lenN]; lia]. Qed.

Theorem go_member caps pc : forall fuel need rest ts in_off after d,
  in_member need rest ts in_off after -> dok d -> phase_inv (d_s BroCatli d) ->
  rr_final (gon fuel caps pc false [] ts in_off d) <> Looped ->
  exists e s' rc, member_calls need (d_s BroCatli d) rest e s' rc /\
    ((rc = NeedsMoreInput /\ exists fuel' d', gon fuel caps pc false [] ts in_off d = gon fuel' caps pc false [] after 0 d' /\
         d_s BroCatli d' = s' /\ Eof d' = Eof d ++ e /\ dok d') \/
     (rc <> NeedsMoreInput /\ rr_final (gon fuel caps pc false [] ts in_off d) = Done rc /\
      rr_emitted (gon fuel caps pc false [] ts in_off d) = Eof d ++ e)).
Proof.
  induction fuel as [|f IH]; intros need rest ts in_off after d Him (HI & Hbo & Hoo) Hph Hfin.
  { cbn in Hfin. congruence. }
  destruct Him as [after|need c in_off m1 ts1 after Hio Hbc Hc Hch Hn0].
  - (* the member is consumed *)
    exists [], (d_s BroCatli d), NeedsMoreInput. split; [constructor|]. left. split; [reflexivity|].
    exists (S f), d. rewrite app_nil_r. split; [reflexivity|]. split; [reflexivity|]. split; [reflexivity|]. split; [exact HI|split; assumption].
  - (* one more call on the current buffer *)
    cbn [go] in Hfin |- *. rewrite no_restore in Hfin |- *.
    pose proof Hph as (_ & HS & _).
    destruct (stream_total (d_s BroCatli d) c in_off (d_buf BroCatli d) (d_off BroCatli d) HI HS Hbc Hbo Hio Hoo) as (r & Er & Pr).
    assert (En : nat_stream (d_s BroCatli d) c in_off (d_buf BroCatli d) (d_off BroCatli d) = Val (mkO (r_s r) (r_in r) (r_out r) (r_off r) (r_rc r)))
      by (unfold nat_stream; rewrite Er; reflexivity).
    rewrite En in Hfin |- *. cbn [o_rc o_s o_in o_out o_off] in Hfin |- *.
    destruct Pr as (T1 & T2 & T3 & T4 & T5 & T6 & T7 & T8 & T9 & T10 & T11 & T12).
    pose proof (stream_step (d_s BroCatli d) c in_off (d_buf BroCatli d) (d_off BroCatli d) r m1 Hph Hbc Hbo Hio Hoo Er) as Hst.
    unfold step_ok in Hst. cbv zeta in Hst. destruct Hst as (S0 & _ & _ & S3).
    set (wr := span (r_out r) (d_off BroCatli d) (r_off r)) in *.
    (* the accounting of emitted bytes *)
    assert (HE : forall ci em ca tr, Eof (mkD BroCatli (r_s r) (r_out r) (r_off r) ci em ca tr) = em ++ takeN (d_off BroCatli d) (d_buf BroCatli d) ++ wr).
    { intros. unfold Eof. cbn [d_emitted d_off d_buf]. rewrite (take_span (r_out r) (d_off BroCatli d) (r_off r)) by lia. rewrite S0. reflexivity. }
    assert (Hrestne : need = true \/ dropN in_off c ++ m1 <> []).
    { destruct Hn0 as [Hn|Hn]; [left; exact Hn|right]. subst in_off. change (dropN 0 c) with c. destruct c; [congruence|discriminate]. }
    destruct (r_rc r) eqn:Erc; cbv beta iota in Hfin |- *.
    + exfalso. apply T9. reflexivity.
    + (* NeedsMoreInput: the buffer is consumed *)
      cbn [rcode_eqb rcode_num N.eqb Pos.eqb orb] in S3. destruct S3 as (_ & Sph & _).
      pose proof (T10 eq_refl) as Hin.
      set (d1 := mkD BroCatli (r_s r) (r_out r) (r_off r) (d_capidx BroCatli d) (d_emitted BroCatli d) (d_calls BroCatli d + 1)
                      (mkCR 0 (Some NeedsMoreInput) (lenN c) in_off (r_in r) (lenN (d_buf BroCatli d)) (d_off BroCatli d) (r_off r) (r_out r) (show_state (r_s r)) :: d_trace BroCatli d)) in *.
      set (d2 := if pc then drain BroCatli caps d1 else d1) in *.
      assert (Hd2s : d_s BroCatli d2 = r_s r) by (subst d2; destruct pc; reflexivity).
      assert (Hd2E : Eof d2 = Eof d ++ wr).
      { subst d2. destruct pc; [rewrite Eof_drain|]; subst d1; rewrite HE; unfold Eof; rewrite <- app_assoc; reflexivity. }
      assert (Hd2ok : dok d2).
      { subst d2. destruct pc; [apply dok_drain; exact T1|]. subst d1. unfold dok. cbn [d_s d_buf d_off]. split; [exact T1|split; [exact T8|lia]]. }
      destruct (IH false m1 ts1 0 after d2 (chunks_in_member _ _ _ Hch) Hd2ok ltac:(rewrite Hd2s; exact Sph) Hfin)
        as (e & s' & rc & Hmc & Hres).
      rewrite Hd2s in Hmc.
      exists (wr ++ e), s', rc. split.
      { eapply (mc_input need (d_s BroCatli d) (dropN in_off c ++ m1) c in_off (d_buf BroCatli d) (d_off BroCatli d) r m1 e s' rc);
          try eassumption; try reflexivity.
        rewrite Hin. rewrite dropN_all_app by exact Hio. exact Hmc. }
      destruct Hres as [(-> & fuel' & d' & Hgo & Hs' & HE' & Hok')|(Hne & Hf' & He')].
      * left. split; [reflexivity|]. exists fuel', d'. split; [exact Hgo|]. split; [exact Hs'|]. split; [|exact Hok'].
        rewrite HE', Hd2E, <- app_assoc. reflexivity.
      * right. split; [exact Hne|]. split; [exact Hf'|]. rewrite He', Hd2E, <- app_assoc. reflexivity.
    + (* NeedsMoreOutput: same buffer, next output buffer *)
      cbn [rcode_eqb rcode_num N.eqb Pos.eqb orb] in S3. destruct S3 as (_ & Sph & _).
      set (d1 := mkD BroCatli (r_s r) (r_out r) (r_off r) (d_capidx BroCatli d) (d_emitted BroCatli d) (d_calls BroCatli d + 1)
                      (mkCR 0 (Some NeedsMoreOutput) (lenN c) in_off (r_in r) (lenN (d_buf BroCatli d)) (d_off BroCatli d) (r_off r) (r_out r) (show_state (r_s r)) :: d_trace BroCatli d)) in *.
      assert (Hd2E : Eof (drain BroCatli caps d1) = Eof d ++ wr).
      { rewrite Eof_drain. subst d1. rewrite HE. unfold Eof. rewrite <- app_assoc. reflexivity. }
      destruct (span_whole_prefix c m1 in_off (r_in r) T3 T4) as (R1 & _).
      destruct (IH true (dropN (r_in r) c ++ m1) (TChunk c :: ts1) (r_in r) after (drain BroCatli caps d1)
                  ltac:(constructor; try assumption; left; reflexivity) ltac:(apply dok_drain; exact T1) Sph Hfin)
        as (e & s' & rc & Hmc & Hres).
      cbn [drain d_s] in Hmc.
      exists (wr ++ e), s', rc. split.
      { eapply (mc_output need (d_s BroCatli d) (dropN in_off c ++ m1) c in_off (d_buf BroCatli d) (d_off BroCatli d) r m1 e s' rc);
          try eassumption; try reflexivity.
        rewrite R1. exact Hmc. }
      destruct Hres as [(-> & fuel' & d' & Hgo & Hs' & HE' & Hok')|(Hne & Hf' & He')].
      * left. split; [reflexivity|]. exists fuel', d'. split; [exact Hgo|]. split; [exact Hs'|]. split; [|exact Hok'].
        rewrite HE', Hd2E, <- app_assoc. reflexivity.
      * right. split; [exact Hne|]. split; [exact Hf'|]. rewrite He', Hd2E, <- app_assoc. reflexivity.
    + exists wr, (r_s r), BrotliFileNotCraftedForAppend. split.
      { rewrite <- Erc. apply (mc_error need (d_s BroCatli d) _ c in_off (d_buf BroCatli d) (d_off BroCatli d) r m1 Hrestne Hio Hoo Hbc Hbo eq_refl Er); rewrite Erc; discriminate. }
      right. split; [discriminate|]. split; [reflexivity|]. rewrite Eof_stop, HE. unfold Eof. rewrite <- app_assoc. reflexivity.
    + exists wr, (r_s r), InvalidWindowSize. split.
      { rewrite <- Erc. apply (mc_error need (d_s BroCatli d) _ c in_off (d_buf BroCatli d) (d_off BroCatli d) r m1 Hrestne Hio Hoo Hbc Hbo eq_refl Er); rewrite Erc; discriminate. }
      right. split; [discriminate|]. split; [reflexivity|]. rewrite Eof_stop, HE. unfold Eof. rewrite <- app_assoc. reflexivity.
    + exists wr, (r_s r), WindowSizeLargerThanPreviousFile. split.
      { rewrite <- Erc. apply (mc_error need (d_s BroCatli d) _ c in_off (d_buf BroCatli d) (d_off BroCatli d) r m1 Hrestne Hio Hoo Hbc Hbo eq_refl Er); rewrite Erc; discriminate. }
      right. split; [discriminate|]. split; [reflexivity|]. rewrite Eof_stop, HE. unfold Eof. rewrite <- app_assoc. reflexivity.
    + exists wr, (r_s r), BrotliFileNotCraftedForConcatenation. split.
      { rewrite <- Erc. apply (mc_error need (d_s BroCatli d) _ c in_off (d_buf BroCatli d) (d_off BroCatli d) r m1 Hrestne Hio Hoo Hbc Hbo eq_refl Er); rewrite Erc; discriminate. }
      right. split; [discriminate|]. split; [reflexivity|]. rewrite Eof_stop, HE. unfold Eof. rewrite <- app_assoc. reflexivity.
Qed.

Theorem go_finish caps pc : forall fuel tl d,
  dok d -> rr_final (gon fuel caps pc false [] (TFinish :: tl) 0 d) <> Looped ->
  exists e, finish_calls (d_s BroCatli d) e /\
    rr_final (gon fuel caps pc false [] (TFinish :: tl) 0 d) = Done Success /\
    rr_emitted (gon fuel caps pc false [] (TFinish :: tl) 0 d) = Eof d ++ e.
Proof.
  induction fuel as [|f IH]; intros tl d (HI & Hbo & Hoo) Hfin.
  { cbn in Hfin. congruence. }
  cbn [go] in Hfin |- *. rewrite no_restore in Hfin |- *.
  destruct (finish_total (d_s BroCatli d) (d_buf BroCatli d) (d_off BroCatli d) HI Hbo Hoo) as (g & Eg & Pg).
  assert (En : nat_finish (d_s BroCatli d) (d_buf BroCatli d) (d_off BroCatli d) = Val (mkO (f_s g) 0 (f_out g) (f_off g) (f_rc g)))
    by (unfold nat_finish; rewrite Eg; reflexivity).
  rewrite En in Hfin |- *. cbn [o_rc o_s o_in o_out o_off] in Hfin |- *.
  destruct Pg as (G1 & _ & _ & G4 & G5 & G6 & G7 & G8 & _).
  destruct (finish_step (d_s BroCatli d) (d_buf BroCatli d) (d_off BroCatli d) g HI Hbo Hoo Eg) as (_ & S0 & _).
  set (wr := span (f_out g) (d_off BroCatli d) (f_off g)) in *.
  assert (HE : forall ci em ca tr, Eof (mkD BroCatli (f_s g) (f_out g) (f_off g) ci em ca tr) = em ++ takeN (d_off BroCatli d) (d_buf BroCatli d) ++ wr).
  { intros. unfold Eof. cbn [d_emitted d_off d_buf]. rewrite (take_span (f_out g) (d_off BroCatli d) (f_off g)) by lia. rewrite S0. reflexivity. }
  destruct G8 as [Erc|Erc]; rewrite Erc in Hfin |- *; cbv beta iota in Hfin |- *.
  - exists wr. split; [eapply fc_last; eassumption|]. split; [reflexivity|].
    rewrite Eof_stop, HE. unfold Eof. rewrite <- app_assoc. reflexivity.
  - set (d1 := mkD BroCatli (f_s g) (f_out g) (f_off g) (d_capidx BroCatli d) (d_emitted BroCatli d) (d_calls BroCatli d + 1)
                   (mkCR 1 (Some NeedsMoreOutput) 0 0 0 (lenN (d_buf BroCatli d)) (d_off BroCatli d) (f_off g) (f_out g) (show_state (f_s g)) :: d_trace BroCatli d)) in *.
    destruct (IH tl (drain BroCatli caps d1) ltac:(apply dok_drain; exact G1) Hfin) as (e & Hfc & Hf1 & Hf2).
    exists (wr ++ e). split; [eapply fc_more; eassumption|]. split; [exact Hf1|].
    rewrite Hf2, Eof_drain. subst d1. rewrite HE. unfold Eof. rewrite <- !app_assoc. reflexivity.
Qed.

(* a whole script *)
Theorem go_script caps pc : forall ms ts, script_of ms ts -> Forall bytes_ok ms ->
  forall fuel d, dok d ->
  rr_final (gon fuel caps pc false [] ts 0 d) <> Looped ->
  exists e rc, run_calls (d_s BroCatli d) ms e rc /\
    rr_final (gon fuel caps pc false [] ts 0 d) = Done rc /\
    rr_emitted (gon fuel caps pc false [] ts 0 d) = Eof d ++ e.
Proof.
  intros ms ts Hs. induction Hs as [|m ms ts ts' Hs IH Hch]; intros Hbs fuel d Hok Hfin.
  - destruct (go_finish caps pc fuel [] d Hok Hfin) as (e & Hfc & Hf1 & Hf2).
    exists e, Success. split; [constructor; exact Hfc|]. split; assumption.
  - destruct fuel as [|f]; [cbn in Hfin; congruence|].
    cbn [go] in Hfin |- *.
    destruct Hok as (HI & Hbo & Hoo).
    set (d0 := mkD BroCatli (new_brotli_file (d_s BroCatli d)) (d_buf BroCatli d) (d_off BroCatli d) (d_capidx BroCatli d)
                   (d_emitted BroCatli d) (d_calls BroCatli d) (d_trace BroCatli d)) in *.
    assert (Hok0 : dok d0) by (subst d0; unfold dok; cbn [d_s d_buf d_off]; split; [apply InvP_new_brotli_file; exact HI|split; assumption]).
    destruct (go_member caps pc f false m ts' 0 ts d0 (chunks_in_member _ _ _ Hch) Hok0
                ltac:(subst d0; cbn [d_s]; apply phase_inv_new_file; exact HI) Hfin) as (e & s' & rc & Hmc & Hres).
    subst d0. cbn [d_s] in Hmc.
    inversion Hbs as [|? ? Hbm Hbms]; subst.
    destruct Hres as [(-> & fuel' & d' & Hgo & Hs' & HE' & Hok')|(Hne & Hf' & He')].
    + rewrite Hgo in Hfin |- *.
      destruct (IH Hbms fuel' d' Hok' Hfin) as (e' & rc' & Hrun & Hf1 & Hf2).
      exists (e ++ e'), rc'. split; [eapply rc_member; [exact Hmc|rewrite <- Hs'; exact Hrun]|]. split; [exact Hf1|].
      rewrite Hf2, HE'. unfold Eof. cbn [d_emitted d_off d_buf]. rewrite <- !app_assoc. reflexivity.
    + exists e, rc. split; [eapply rc_stopped; eassumption|]. split; [exact Hf'|].
      rewrite He'. unfold Eof. reflexivity.
Qed.

(* C12_slicing for the executable driver: two scripts over the same members, any buffer sizes, any
   per-call/persistent buffer mode, enough call budget *)
Theorem run_native_slicing_independent ms ts1 ts2 fuel1 fuel2 caps1 caps2 pc1 pc2 s0 :
  Inv s0 -> Forall bytes_ok ms -> script_of ms ts1 -> script_of ms ts2 ->
  rr_final (run_native fuel1 caps1 pc1 false [] ts1 s0) <> Looped ->
  rr_final (run_native fuel2 caps2 pc2 false [] ts2 s0) <> Looped ->
  rr_final (run_native fuel1 caps1 pc1 false [] ts1 s0) = rr_final (run_native fuel2 caps2 pc2 false [] ts2 s0) /\
  rr_emitted (run_native fuel1 caps1 pc1 false [] ts1 s0) = rr_emitted (run_native fuel2 caps2 pc2 false [] ts2 s0).
Proof.
  intros HI Hb H1 H2 F1 F2. apply Inv_P in HI.
  unfold run_native, run_from in *.
  set (d1 := mkD BroCatli s0 (fresh_buf (nth_cap caps1 0)) 0 0 [] 0 []) in *.
  set (d2 := mkD BroCatli s0 (fresh_buf (nth_cap caps2 0)) 0 0 [] 0 []) in *.
  assert (Hok1 : dok d1) by (subst d1; unfold dok; cbn [d_s d_buf d_off]; split; [exact HI|split; [apply bytes_ok_fresh|lia]]).
  assert (Hok2 : dok d2) by (subst d2; unfold dok; cbn [d_s d_buf d_off]; split; [exact HI|split; [apply bytes_ok_fresh|lia]]).
  destruct (go_script caps1 pc1 ms ts1 H1 Hb fuel1 d1 Hok1 F1) as (e1 & rc1 & R1 & A1 & B1).
  destruct (go_script caps2 pc2 ms ts2 H2 Hb fuel2 d2 Hok2 F2) as (e2 & rc2 & R2 & A2 & B2).
  subst d1 d2. cbn [d_s] in R1, R2.
  destruct (run_slicing_independent s0 ms e1 rc1 R1 HI e2 rc2 R2) as (-> & ->).
  split; [rewrite A1, A2; reflexivity|]. rewrite B1, B2. reflexivity.
Qed.

(* non-vacuity: two different slicings of the same two members are both scripts of them, and both
   runs (one-shot with an ample buffer; cut input, 1-byte and 0-byte output buffers) end normally *)
Definition m_first_ex : list N := [139; 2; 128; 72; 46; 21; 202; 231; 80; 3].
Definition m_second_ex : list N := [176; 0; 16; 104; 101; 108; 108; 111; 3].
Definition script_a : list task := [TFile; TChunk m_first_ex; TFile; TChunk m_second_ex; TFinish].
Definition script_b : list task :=
  [TFile; TChunk [139; 2; 128]; TChunk [72; 46; 21; 202; 231; 80; 3]; TFile; TChunk [176]; TChunk [0; 16; 104; 101; 108; 108; 111; 3]; TFinish].

Ltac bytes_list := repeat (apply Forall_cons; [reflexivity|]); apply Forall_nil.

Example two_scripts :
  script_of [m_first_ex; m_second_ex] script_a /\ script_of [m_first_ex; m_second_ex] script_b /\
  Forall bytes_ok [m_first_ex; m_second_ex] /\ Inv bc_new /\
  rr_final (run_native 100 [64] false false [] script_a bc_new) <> Looped /\
  rr_final (run_native 400 [1; 0] true false [] script_b bc_new) <> Looped.
Proof.
  split; [|split; [|split; [|split; [|split]]]].
  - unfold script_a. apply (so_member m_first_ex [m_second_ex] [TFile; TChunk m_second_ex; TFinish]).
    + apply (so_member m_second_ex [] [TFinish]); [constructor|].
      rewrite <- (app_nil_r m_second_ex) at 1. constructor; [discriminate|unfold bytes_ok, m_second_ex; bytes_list|constructor].
    + rewrite <- (app_nil_r m_first_ex) at 1. constructor; [discriminate|unfold bytes_ok, m_first_ex; bytes_list|constructor].
  - unfold script_b.
    apply (so_member m_first_ex [m_second_ex] [TFile; TChunk [176]; TChunk [0; 16; 104; 101; 108; 108; 111; 3]; TFinish]).
    + apply (so_member m_second_ex [] [TFinish]); [constructor|].
      change m_second_ex with ([176] ++ [0; 16; 104; 101; 108; 108; 111; 3] ++ []).
      constructor; [discriminate|unfold bytes_ok; bytes_list|].
      constructor; [discriminate|unfold bytes_ok; bytes_list|constructor].
    + change m_first_ex with ([139; 2; 128] ++ [72; 46; 21; 202; 231; 80; 3] ++ []).
      constructor; [discriminate|unfold bytes_ok; bytes_list|].
      constructor; [discriminate|unfold bytes_ok; bytes_list|constructor].
  - repeat constructor; unfold bytes_ok, m_first_ex, m_second_ex; bytes_list.
  - vm_compute. reflexivity.
  - vm_compute. discriminate.
  - vm_compute. discriminate.
Qed.
