(* C03, the header of a later member: what detect_varlen_offset reads (= the spec's
   first_header_len on the bit list), and the bit-shifting lemma for realign / copy_whole: the
   realigned header is the little-endian byte expansion of
        (previous partial byte) + (header bits) * 2^last_byte_bit_offset
   followed by the whole bytes of the look-ahead. *)
From Coq Require Import NArith List Bool Lia Arith PeanoNat.
From V Require Import lib.Words lib.Finite proofs.Bitops model.Concat model.ConcatRun spec.ConcatSpec
  proofs.Concat_proofs proofs.Concat_inv proofs.Concat_delay proofs.Concat_bitlib.
Import ListNotations.
Open Scope N_scope.

(* ------------------------------------------------------------------ le_u64 *)
Lemma le_u64_val l : forall idx acc, bytes_ok l -> lenN l + idx <= 8 -> acc < 2 ^ (8 * idx) ->
  le_u64 l idx acc = Val (acc + 2 ^ (8 * idx) * le_val l).
Proof.
  induction l as [|x l IH]; intros idx acc Hb Hl Ha.
  - cbn [le_u64 le_val]. f_equal. lia.
  - inversion Hb as [|? ? Hx Hb']; subst. cbn [le_u64 lenN le_val] in *.
    replace (64 <=? idx * 8) with false by (symmetry; apply N.leb_gt; lia).
    assert (Hsh : N.shiftl x (idx * 8) = x * 2 ^ (8 * idx)).
    { rewrite N.shiftl_mul_pow2. f_equal. f_equal. lia. }
    assert (Hlt : x * 2 ^ (8 * idx) < 2 ^ 64).
    { apply N.lt_le_trans with (256 * 2 ^ (8 * idx)).
      - apply N.mul_lt_mono_pos_r; [apply N.neq_0_lt_0, N.pow_nonzero; discriminate|exact Hx].
      - change 256 with (2 ^ 8). rewrite <- N.pow_add_r. apply N.pow_le_mono_r; [discriminate|lia]. }
    assert (Hw : w64 (N.shiftl x (idx * 8)) = x * 2 ^ (8 * idx)).
    { unfold w64. rewrite Hsh. apply N.mod_small. exact Hlt. }
    rewrite Hw. rewrite <- N.shiftl_mul_pow2.
    rewrite (lor_small_shiftl x (8 * idx) acc Ha).
    rewrite IH; [| exact Hb' | lia |].
    + f_equal. replace (8 * (idx + 1)) with (8 * idx + 8) by lia. rewrite N.pow_add_r. change (2 ^ 8) with 256. lia.
    + replace (8 * (idx + 1)) with (8 * idx + 8) by lia. rewrite N.pow_add_r. change (2 ^ 8) with 256.
      assert (0 < 2 ^ (8 * idx)) by (apply N.neq_0_lt_0, N.pow_nonzero; discriminate). nia.
Qed.

Lemma le_u64_le_val l : bytes_ok l -> lenN l <= 8 -> le_u64 l 0 0 = Val (le_val l).
Proof.
  intros Hb Hl. rewrite le_u64_val; [|exact Hb|lia|cbn; lia].
  f_equal. change (2 ^ (8 * 0)) with 1. lia.
Qed.

(* ------------------------------------------------------------------ shifts of bit lists by constants *)
Lemma shiftr_bits_val_N l k : N.shiftr (bits_val l) k = bits_val (skipn (N.to_nat k) l).
Proof. rewrite <- shiftr_bits_val, N2Nat.id. reflexivity. Qed.

Lemma odd_shiftr_bits_val_N l k : N.odd (N.shiftr (bits_val l) k) = nth (N.to_nat k) l false.
Proof. rewrite <- odd_shiftr_bits_val, N2Nat.id. reflexivity. Qed.

Lemma bits_val_two a b : bits_val [a; b] = bb a + 2 * bb b.
Proof. cbn [bits_val bb]. destruct a, b; reflexivity. Qed.

Lemma bits_val_two_3 a b : (bits_val [a; b] =? 3) = a && b.
Proof. destruct a, b; reflexivity. Qed.

(* ------------------------------------------------------------------ detect_varlen_offset = first_header_len *)
Lemma Some_inj {A} (a b : A) : Some a = Some b -> a = b.
Proof. intros H. injection H as H. exact H. Qed.

Lemma fhl_last t : first_header_len (true :: t) = None.
Proof. reflexivity. Qed.
Lemma fhl_meta h3 k0 k1 r : first_header_len (false :: true :: true :: h3 :: k0 :: k1 :: r) =
  if h3 then None else Some (6 + 8 * bits_val [k0; k1]).
Proof. destruct h3; reflexivity. Qed.
Lemma fhl_unc m0 m1 rest : m0 && m1 = false ->
  first_header_len (false :: m0 :: m1 :: rest) =
    if nth (N.to_nat (4 * (4 + bits_val [m0; m1]))) rest false then Some (3 + 4 * (4 + bits_val [m0; m1]) + 1) else None.
Proof. intros H. cbn [first_header_len]. rewrite H. reflexivity. Qed.

(* h = the look-ahead bits after the window field (at least 26 of them), tl = what the spec sees
   beyond the look-ahead *)
Lemma detect_on_bits sl pw wo h tl hlen :
  bytes_ok sl -> lenN sl <= 8 ->
  parse_window_size sl = Val (Some (pw, wo)) ->
  h = skipn (N.to_nat wo) (bits_of_bytes sl) -> (26 <= length h)%nat ->
  first_header_len (h ++ tl) = Some hlen -> hlen <= N.of_nat (length h) ->
  detect_varlen_offset sl = Val (Some (wo + hlen)).
Proof.
  intros Hb Hl Hp Hh Hlen Hf Hfit.
  unfold detect_varlen_offset. rewrite Hp, (le_u64_le_val sl Hb Hl). cbv zeta.
  rewrite <- (bits_val_bits_of_bytes sl Hb), shiftr_bits_val_N, <- Hh.
  destruct h as [|h0 [|h1 [|h2 [|h3 [|h4 [|h5 rest]]]]]]; try (cbn [length] in Hlen; lia).
  cbn [app] in Hf.
  destruct h0; [rewrite fhl_last in Hf; discriminate|].
  rewrite odd_bits_val. cbn [hd andb].
  rewrite (shiftr_bits_val_N _ 1). change (skipn (N.to_nat 1) (false :: h1 :: h2 :: h3 :: h4 :: h5 :: rest)) with (h1 :: h2 :: h3 :: h4 :: h5 :: rest).
  rewrite land3_bits_val. change (firstn 2 (h1 :: h2 :: h3 :: h4 :: h5 :: rest)) with [h1; h2].
  rewrite (shiftr_bits_val_N _ 2). change (skipn (N.to_nat 2) (h1 :: h2 :: h3 :: h4 :: h5 :: rest)) with (h3 :: h4 :: h5 :: rest).
  rewrite bits_val_two_3.
  destruct (h1 && h2) eqn:E12.
  - (* metadata block *)
    apply andb_true_iff in E12. destruct E12 as [-> ->]. rewrite fhl_meta in Hf.
    destruct h3; [discriminate|]. apply Some_inj in Hf. rewrite <- Hf.
    rewrite odd_bits_val. cbn [hd].
    rewrite (shiftr_bits_val_N _ 1). change (skipn (N.to_nat 1) (false :: h4 :: h5 :: rest)) with (h4 :: h5 :: rest).
    rewrite land3_bits_val. change (firstn 2 (h4 :: h5 :: rest)) with [h4; h5].
    f_equal. f_equal. lia.
  - (* uncompressed block *)
    rewrite (fhl_unc h1 h2 _ E12) in Hf.
    set (nib := 4 + bits_val [h1; h2]) in *.
    assert (Hnib : nib <= 7).
    { subst nib. rewrite bits_val_two. destruct h1, h2; cbn [bb andb] in *; try discriminate; lia. }
    destruct (nth (N.to_nat (4 * nib)) (h3 :: h4 :: h5 :: rest ++ tl) false) eqn:En; [|discriminate Hf].
    change (h3 :: h4 :: h5 :: rest ++ tl) with ((h3 :: h4 :: h5 :: rest) ++ tl) in En.
    apply Some_inj in Hf. rewrite <- Hf in *. cbn [length] in Hfit.
    rewrite odd_shiftr_bits_val_N.
    replace ((bits_val [h1; h2] + 4) * 4) with (4 * nib) by (subst nib; lia).
    rewrite app_nth1 in En by (cbn [length]; lia). rewrite En.
    f_equal. f_equal. lia.
Qed.

(* ------------------------------------------------------------------ realign, numerically *)
Section Realign.
  Variables (c l0 bo : N).
  Hypothesis Hbo : bo < 8.
  Hypothesis Hl0 : l0 < 2 ^ bo.

  Definition Vb (j : N) : N := ((l0 + c * 2 ^ bo) / 2 ^ (8 * j)) mod 256.

  Lemma pow2_pos k : 0 < 2 ^ k.
  Proof. apply N.neq_0_lt_0, N.pow_nonzero. discriminate. Qed.

  (* for j >= 1 the partial byte l0 is out of sight *)
  Lemma Vb_high j : 1 <= j -> Vb j = (c / 2 ^ (8 * j - bo)) mod 256.
  Proof.
    intros Hj. unfold Vb. f_equal.
    replace (8 * j) with (bo + (8 * j - bo)) at 1 by lia.
    rewrite N.pow_add_r, <- N.div_div by (apply N.pow_nonzero; discriminate).
    f_equal. rewrite N.div_add by (apply N.pow_nonzero; discriminate).
    rewrite N.div_small by exact Hl0. reflexivity.
  Qed.

  Lemma hi_byte bi : w8 (N.shiftr (N.shiftr c (bi * 8)) (8 - bo)) = Vb (bi + 1).
  Proof.
    rewrite Vb_high by lia. unfold w8. change (2 ^ 8) with 256. f_equal.
    rewrite !N.shiftr_div_pow2, N.div_div by (apply N.pow_nonzero; discriminate).
    rewrite <- N.pow_add_r. f_equal. f_equal. lia.
  Qed.

  Lemma lo_value x : w8 (w64 (N.shiftl (N.land x (2 ^ (8 - bo) - 1)) bo)) = (x mod 2 ^ (8 - bo)) * 2 ^ bo.
  Proof.
    rewrite land_ones_mod, N.shiftl_mul_pow2.
    assert (Hlt : (x mod 2 ^ (8 - bo)) * 2 ^ bo < 256).
    { change 256 with (2 ^ 8). replace 8 with ((8 - bo) + bo) at 2 by lia. rewrite N.pow_add_r.
      apply N.mul_lt_mono_pos_r; [apply pow2_pos|]. apply N.mod_lt. apply N.pow_nonzero. discriminate. }
    unfold w8, w64. rewrite (N.mod_small _ (2 ^ 64)) by (eapply N.lt_trans; [exact Hlt|reflexivity]).
    apply N.mod_small. exact Hlt.
  Qed.

  (* d mod 256 split at bit bo *)
  Lemma mod256_split d : d mod 256 = d mod 2 ^ bo + (d / 2 ^ bo) mod 2 ^ (8 - bo) * 2 ^ bo.
  Proof.
    change 256 with (2 ^ 8). replace 8 with (bo + (8 - bo)) at 1 by lia. rewrite N.pow_add_r.
    rewrite N.mod_mul_r by (apply N.pow_nonzero; discriminate). lia.
  Qed.

  Lemma lo_first : N.lor l0 (w8 (w64 (N.shiftl (N.land (N.shiftr c (0 * 8)) (2 ^ (8 - bo) - 1)) bo))) = Vb 0.
  Proof.
    rewrite lo_value. change (0 * 8) with 0. rewrite N.shiftr_0_r.
    rewrite <- N.shiftl_mul_pow2, (lor_small_shiftl _ bo l0 Hl0).
    unfold Vb. change (8 * 0) with 0. change (2 ^ 0) with 1. rewrite N.div_1_r.
    rewrite mod256_split.
    rewrite N.div_add by (apply N.pow_nonzero; discriminate). rewrite (N.div_small l0) by exact Hl0.
    rewrite N.add_0_l.
    rewrite N.mod_add by (apply N.pow_nonzero; discriminate). rewrite (N.mod_small l0) by exact Hl0. lia.
  Qed.

  Lemma lo_absorb bi : 1 <= bi ->
    N.lor (Vb bi) (w8 (w64 (N.shiftl (N.land (N.shiftr c (bi * 8)) (2 ^ (8 - bo) - 1)) bo))) = Vb bi.
  Proof.
    intros Hbi. rewrite lo_value, (Vb_high bi Hbi).
    set (d := c / 2 ^ (8 * bi - bo)).
    assert (Hc : N.shiftr c (bi * 8) = d / 2 ^ bo).
    { subst d. rewrite N.shiftr_div_pow2, N.div_div by (apply N.pow_nonzero; discriminate).
      rewrite <- N.pow_add_r. f_equal. f_equal. lia. }
    rewrite Hc, mod256_split.
    set (q := (d / 2 ^ bo) mod 2 ^ (8 - bo)). set (r := d mod 2 ^ bo).
    assert (Hr : r < 2 ^ bo) by (subst r; apply N.mod_lt, N.pow_nonzero; discriminate).
    rewrite (N.add_comm r), <- (lor_small_shiftl q bo r Hr), <- N.shiftl_mul_pow2.
    rewrite <- N.lor_assoc, N.lor_diag. reflexivity.
  Qed.
End Realign.

Lemma byte_at_nil i : byte_at [] i = 0.
Proof. unfold byte_at. destruct (N.to_nat i); reflexivity. Qed.

(* the loop from byte_index bi >= 1: bytes 0..bi are final, the next iteration only adds byte bi+1 *)
Lemma realign_from c l0 bo (Hbo : bo < 8) (Hl0 : l0 < 2 ^ bo) : forall n bi rh,
  1 <= bi -> bi + N.of_nat n + 1 <= lenN rh ->
  (forall j, j <= bi -> byte_at rh j = Vb c l0 bo j) ->
  exists rh', realign n bi c bo rh = Val rh' /\ lenN rh' = lenN rh /\
    forall j, j <= bi + N.of_nat n -> byte_at rh' j = Vb c l0 bo j.
Proof.
  induction n as [|n IH]; intros bi rh Hbi Hlen Hinv.
  - exists rh. split; [reflexivity|]. split; [reflexivity|]. intros j Hj. apply Hinv. lia.
  - cbn [realign]. cbv zeta. unfold sub_u. replace (8 <? bo) with false by (symmetry; apply N.ltb_ge; lia).
    rewrite (getN_byte_at rh bi) by lia.
    rewrite updN_ok by lia. rewrite updN_ok by (rewrite lenN_setN by lia; lia).
    rewrite (Hinv bi ltac:(lia)), (lo_absorb c l0 bo Hbo Hl0 bi Hbi), (hi_byte c l0 bo Hbo Hl0 bi).
    destruct (IH (bi + 1) (setN (setN rh bi (Vb c l0 bo bi)) (bi + 1) (Vb c l0 bo (bi + 1)))) as (rh' & E & L & P).
    + lia.
    + rewrite !lenN_setN by (rewrite ?lenN_setN by lia; lia). lia.
    + intros j Hj. rewrite byte_at_setN by (rewrite lenN_setN by lia; lia).
      destruct (N.eqb_spec j (bi + 1)) as [->|Hne]; [reflexivity|].
      rewrite byte_at_setN by lia. destruct (N.eqb_spec j bi) as [->|Hne2]; [reflexivity|]. apply Hinv. lia.
    + exists rh'. split; [exact E|]. split.
      * rewrite L. rewrite !lenN_setN by (rewrite ?lenN_setN by lia; lia). reflexivity.
      * intros j Hj. apply P. lia.
Qed.

(* the bit-shifting lemma for the header register *)
Lemma realign_val c l0 bo n : bo < 8 -> l0 < 2 ^ bo -> (1 <= n <= 5)%nat ->
  exists rh, realign n 0 c bo [l0; 0; 0; 0; 0; 0] = Val rh /\ lenN rh = 6 /\
    forall j, j <= N.of_nat n -> byte_at rh j = Vb c l0 bo j.
Proof.
  intros Hbo Hl0 Hn. destruct n as [|n]; [lia|].
  cbn [realign]. cbv zeta. unfold sub_u. replace (8 <? bo) with false by (symmetry; apply N.ltb_ge; lia).
  change (getN [l0; 0; 0; 0; 0; 0] 0) with (Val l0). cbv beta iota.
  rewrite (lo_first c l0 bo Hbo Hl0), (hi_byte c l0 bo Hbo Hl0 0).
  change (updN [l0; 0; 0; 0; 0; 0] 0 (Vb c l0 bo 0)) with (Val [Vb c l0 bo 0; 0; 0; 0; 0; 0]). cbv beta iota.
  change (0 + 1) with 1.
  change (updN [Vb c l0 bo 0; 0; 0; 0; 0; 0] 1 (Vb c l0 bo 1)) with (Val [Vb c l0 bo 0; Vb c l0 bo 1; 0; 0; 0; 0]). cbv beta iota.
  destruct (realign_from c l0 bo Hbo Hl0 n 1 [Vb c l0 bo 0; Vb c l0 bo 1; 0; 0; 0; 0]) as (rh & E & L & P).
  - lia.
  - cbn [lenN]. lia.
  - intros j Hj. assert (Hc : j = 0 \/ j = 1) by lia. destruct Hc as [-> | ->]; reflexivity.
  - exists rh. split; [exact E|]. split; [rewrite L; reflexivity|]. intros j Hj. apply P. lia.
Qed.

(* ------------------------------------------------------------------ copy_whole *)
Lemma copy_whole_val wbd wbs bsf : forall n i rh,
  wbs + i + N.of_nat n <= lenN bsf -> wbd + i + N.of_nat n <= lenN rh ->
  exists rh', copy_whole n i wbd wbs bsf rh = Val rh' /\ lenN rh' = lenN rh /\
    forall j, byte_at rh' j =
      if (wbd + i <=? j) && (j <? wbd + i + N.of_nat n) then byte_at bsf (wbs + (j - wbd)) else byte_at rh j.
Proof.
  induction n as [|n IH]; intros i rh H1 H2.
  - exists rh. split; [reflexivity|]. split; [reflexivity|]. intros j.
    replace ((wbd + i <=? j) && (j <? wbd + i + N.of_nat 0)) with false; [reflexivity|].
    symmetry. apply andb_false_iff. destruct (N.leb_spec (wbd + i) j); [right; apply N.ltb_ge; lia|left; reflexivity].
  - cbn [copy_whole]. rewrite (getN_byte_at bsf (wbs + i)) by lia. rewrite updN_ok by lia.
    destruct (IH (i + 1) (setN rh (wbd + i) (byte_at bsf (wbs + i)))) as (rh' & E & L & P).
    + lia.
    + rewrite lenN_setN by lia. lia.
    + exists rh'. split; [exact E|]. split; [rewrite L; apply lenN_setN; lia|].
      intros j. rewrite P. rewrite byte_at_setN by lia.
      set (c1 := (wbd + (i + 1) <=? j) && (j <? wbd + (i + 1) + N.of_nat n)).
      set (c2 := (wbd + i <=? j) && (j <? wbd + i + N.of_nat (S n))).
      destruct (N.eqb_spec j (wbd + i)) as [Ej|Hne].
      * assert (H1' : c1 = false) by (subst c1; apply andb_false_iff; left; apply N.leb_gt; lia).
        assert (H2' : c2 = true) by (subst c2; apply andb_true_iff; split; [apply N.leb_le|apply N.ltb_lt]; lia).
        rewrite H1', H2'. subst j. f_equal. lia.
      * assert (H12 : c1 = c2).
        { subst c1 c2. apply eq_true_iff_eq. rewrite !andb_true_iff, !N.leb_le, !N.ltb_lt. lia. }
        rewrite H12. reflexivity.
Qed.

(* ------------------------------------------------------------------ lists from their bytes *)
Lemma list_ext_byte_at (a b : list N) : lenN a = lenN b -> (forall j, j < lenN a -> byte_at a j = byte_at b j) -> a = b.
Proof.
  intros HL H. apply (nth_ext a b 0 0).
  - rewrite !lenN_length in HL. lia.
  - intros n Hn. specialize (H (N.of_nat n)). unfold byte_at in H. rewrite Nat2N.id in H. apply H.
    rewrite lenN_length. lia.
Qed.

Lemma byte_at_takeN l n j : j < n -> byte_at (takeN n l) j = byte_at l j.
Proof. intros H. unfold byte_at, takeN. apply nth_firstn_lt. lia. Qed.

Lemma byte_at_dropN l n j : byte_at (dropN n l) j = byte_at l (n + j).
Proof. unfold byte_at, dropN. rewrite nth_skipn_own. f_equal. lia. Qed.
