(* The state invariant of the concatenator as a proposition, its reflection from the boolean
   spec/ConcatSpec.invb, and the per-phase lemmas of `stream` / `finish` that give C16_total,
   C16_finish and C16_reach. *)
From Coq Require Import NArith List Bool Lia Arith PeanoNat.
From V Require Import lib.Words lib.Finite proofs.Bitops model.Concat model.ConcatRun spec.ConcatSpec proofs.Concat_proofs.
Import ListNotations.
Open Scope N_scope.

Definition bytes_ok (l : list N) : Prop := Forall (fun x => x < 256) l.

Record NsdP (ws : N) (san : bool) (p : NewStreamData) : Prop := mkNsdP {
  np_len : lenN (bytes_so_far p) = 5;
  np_bytes : bytes_ok (bytes_so_far p);
  np_read : num_bytes_read p <= 5;
  np_written : forall k, num_bytes_written p = Some k -> k < num_bytes_read p /\ ws <> 0
}.

Record InvP (s : BroCatli) : Prop := mkInvP {
  i_lb0 : lb0 s < 256;
  i_lb1 : lb1 s < 256;
  i_len : last_bytes_len s <= 2;
  i_bo : last_byte_bit_offset s < 8;
  i_ws : window_size s = 0 \/ (10 <= window_size s /\ window_size s <= 30);
  i_ws0 : window_size s = 0 -> last_bytes_len s = 0 /\ last_byte_bit_offset s = 0;
  i_san : last_byte_sanitized s = true ->
          last_bytes_len s <= 1 /\ (last_bytes_len s = 0 \/ lb0 s < 2 ^ last_byte_bit_offset s);
  i_none : new_stream_pending s = None -> last_byte_sanitized s = false;
  i_pend : forall p, new_stream_pending s = Some p -> NsdP (window_size s) (last_byte_sanitized s) p
}.

Lemma forallb_bytes l : forallb is_byte l = true <-> bytes_ok l.
Proof.
  unfold bytes_ok. rewrite forallb_forall, Forall_forall. unfold is_byte.
  split; intros H x Hx; specialize (H x Hx); [apply N.ltb_lt|apply N.ltb_lt]; exact H.
Qed.

Ltac b2p :=
  repeat match goal with
  | H : _ && _ = true |- _ => apply andb_true_iff in H; destruct H
  | H : _ || _ = true |- _ => apply orb_true_iff in H
  | H : negb _ = true |- _ => apply negb_true_iff in H
  | H : (_ =? _) = true |- _ => apply N.eqb_eq in H
  | H : (_ =? _) = false |- _ => apply N.eqb_neq in H
  | H : (_ <? _) = true |- _ => apply N.ltb_lt in H
  | H : (_ <? _) = false |- _ => apply N.ltb_ge in H
  | H : (_ <=? _) = true |- _ => apply N.leb_le in H
  | H : (_ <=? _) = false |- _ => apply N.leb_gt in H
  | H : is_byte _ = true |- _ => unfold is_byte in H
  end.

Lemma nsd_invb_P ws san p : nsd_invb ws san p = true <-> NsdP ws san p.
Proof.
  unfold nsd_invb. split.
  - intros H. b2p. split; try assumption.
    + apply forallb_bytes. assumption.
    + intros k Hk. rewrite Hk in *. b2p. repeat split; assumption.
  - intros [H1 H2 H3 H4]. apply forallb_bytes in H2.
    rewrite (proj2 (N.eqb_eq _ _) H1), H2, (proj2 (N.leb_le _ _) H3). cbn [andb].
    destruct (num_bytes_written p) as [k|]; [|reflexivity].
    destruct (H4 k eq_refl) as (Ha & Hb).
    rewrite (proj2 (N.ltb_lt _ _) Ha), (proj2 (N.eqb_neq _ _) Hb). reflexivity.
Qed.

Lemma Inv_P s : Inv s <-> InvP s.
Proof.
  unfold Inv, invb. split.
  - intros H. b2p.
    split; try assumption.
    + match goal with H : _ \/ _ |- _ => destruct H as [H|H]; b2p; [left|right; split]; assumption end.
    + intros Hw.
      match goal with H : (negb (window_size s =? 0) = true) \/ _ |- _ => destruct H as [H|H]; b2p; [contradiction|split; assumption] end.
    + intros Hs.
      match goal with H : (negb (last_byte_sanitized s) = true) \/ _ |- _ => destruct H as [H|H]; b2p; [congruence|] end.
      split; [assumption|].
      match goal with H : _ \/ _ |- _ => destruct H as [H|H]; b2p; [left|right]; assumption end.
    + intros Hn. rewrite Hn in *. b2p. assumption.
    + intros p Hp. rewrite Hp in *. apply nsd_invb_P. assumption.
  - intros [H1 H2 H3 H4 H5 H6 H7 H8 H9].
    unfold is_byte.
    rewrite (proj2 (N.ltb_lt _ _) H1), (proj2 (N.ltb_lt _ _) H2), (proj2 (N.leb_le _ _) H3), (proj2 (N.ltb_lt _ _) H4).
    cbn [andb].
    assert (E5 : (window_size s =? 0) || (10 <=? window_size s) && (window_size s <=? 30) = true).
    { destruct H5 as [H5|[H5 H5']]; [rewrite (proj2 (N.eqb_eq _ _) H5); reflexivity|].
      rewrite (proj2 (N.leb_le _ _) H5), (proj2 (N.leb_le _ _) H5'). apply orb_true_r. }
    rewrite E5. cbn [andb].
    assert (E6 : negb (window_size s =? 0) || (last_bytes_len s =? 0) && (last_byte_bit_offset s =? 0) = true).
    { destruct (N.eqb_spec (window_size s) 0) as [E|E]; [|reflexivity].
      destruct (H6 E) as [Ha Hb]. rewrite Ha, Hb. reflexivity. }
    rewrite E6. cbn [andb].
    assert (E7 : negb (last_byte_sanitized s) || (last_bytes_len s <=? 1) && ((last_bytes_len s =? 0) || (lb0 s <? 2 ^ last_byte_bit_offset s)) = true).
    { destruct (last_byte_sanitized s) eqn:Es; [|reflexivity].
      destruct (H7 eq_refl) as [Ha Hb]. rewrite (proj2 (N.leb_le _ _) Ha). cbn [negb orb andb].
      destruct Hb as [Hb|Hb]; [rewrite (proj2 (N.eqb_eq _ _) Hb); reflexivity|].
      rewrite (proj2 (N.ltb_lt _ _) Hb). apply orb_true_r. }
    rewrite E7. cbn [andb].
    destruct (new_stream_pending s) as [p|] eqn:Ep.
    + apply nsd_invb_P. apply H9. reflexivity.
    + rewrite (H8 eq_refl). reflexivity.
Qed.

(* ------------------------------------------------------------------ C16_reach *)
Lemma Inv_new : Inv bc_new.
Proof. vm_compute. reflexivity. Qed.

Definition nw_ok (w : N) : bool :=
  match new_with_window_size w with Val s => invb s && negb (window_size s =? 0) | Panic => false end.
Lemma nw_ok_all : all_between nw_ok 10 21 = true.
Proof. vm_compute. reflexivity. Qed.

Lemma Inv_new_with_window_size w : 10 <= w -> w <= 30 ->
  exists s, new_with_window_size w = Val s /\ Inv s /\ Started s.
Proof.
  intros H1 H2. pose proof (all_between_spec _ _ _ nw_ok_all w H1 ltac:(lia)) as H.
  unfold nw_ok in H. destruct (new_with_window_size w) as [s|]; [|discriminate].
  apply andb_true_iff in H. destruct H as [Ha Hb].
  exists s. repeat split; [exact Ha|]. unfold Started, startedb. rewrite Hb. reflexivity.
Qed.

Lemma nsd_new_P ws san : NsdP ws san nsd_new.
Proof.
  split; cbn; [reflexivity| |lia|discriminate].
  repeat constructor.
Qed.

Lemma InvP_new_brotli_file s : InvP s -> InvP (new_brotli_file s) /\ Started (new_brotli_file s).
Proof.
  intros [H1 H2 H3 H4 H5 H6 H7 H8 H9]. destruct s as [a0 a1 len san any bo ws pend].
  unfold new_brotli_file, set_pending. cbn [lb0 lb1 last_bytes_len last_byte_sanitized any_bytes_emitted
    last_byte_bit_offset window_size new_stream_pending] in *.
  split.
  - split; cbn [lb0 lb1 last_bytes_len last_byte_sanitized any_bytes_emitted last_byte_bit_offset window_size new_stream_pending];
      try assumption; [discriminate|].
    intros p Hp. injection Hp as <-. apply nsd_new_P.
  - unfold Started, startedb. cbn. apply orb_true_r.
Qed.

Lemma Inv_new_brotli_file s : Inv s -> Inv (new_brotli_file s) /\ Started (new_brotli_file s).
Proof. intros H. apply Inv_P in H. destruct (InvP_new_brotli_file s H) as [Ha Hb]. split; [apply Inv_P; exact Ha|exact Hb]. Qed.

Lemma Inv_restore s : Inv s -> nat_restore s = Val s.
Proof. exact (nat_restore_id s). Qed.

(* ------------------------------------------------------------------ slices: success conditions *)
Lemma bytes_ok_firstn n l : bytes_ok l -> bytes_ok (firstn n l).
Proof. unfold bytes_ok. revert n. induction l as [|x l IH]; intros n H; destruct n; cbn; try constructor; inversion H; subst; auto. Qed.
Lemma bytes_ok_skipn n l : bytes_ok l -> bytes_ok (skipn n l).
Proof. unfold bytes_ok. revert n. induction l as [|x l IH]; intros n H; destruct n; cbn; auto. inversion H; subst; auto. Qed.
Lemma bytes_ok_takeN n l : bytes_ok l -> bytes_ok (takeN n l).
Proof. apply bytes_ok_firstn. Qed.
Lemma bytes_ok_dropN n l : bytes_ok l -> bytes_ok (dropN n l).
Proof. apply bytes_ok_skipn. Qed.
Lemma bytes_ok_app a b : bytes_ok a -> bytes_ok b -> bytes_ok (a ++ b).
Proof. unfold bytes_ok. intros. apply Forall_app. split; assumption. Qed.
Lemma bytes_ok_cons x l : x < 256 -> bytes_ok l -> bytes_ok (x :: l).
Proof. unfold bytes_ok. intros. constructor; assumption. Qed.
Lemma bytes_ok_setN l i v : bytes_ok l -> v < 256 -> bytes_ok (setN l i v).
Proof. intros H Hv. unfold setN. apply bytes_ok_app; [apply bytes_ok_takeN; exact H|]. apply bytes_ok_cons; [exact Hv|apply bytes_ok_dropN; exact H]. Qed.

Lemma getN_ok l i : i < lenN l -> exists v, getN l i = Val v /\ (bytes_ok l -> v < 256).
Proof.
  intros H. unfold getN. destruct (nth_error l (N.to_nat i)) as [v|] eqn:E.
  - exists v. split; [reflexivity|]. intros Hb. unfold bytes_ok in Hb. rewrite Forall_forall in Hb. apply Hb.
    eapply nth_error_In. exact E.
  - apply nth_error_None in E. apply lt_lenN_nat in H. lia.
Qed.

Lemma getN_byte_at l i : i < lenN l -> getN l i = Val (byte_at l i).
Proof.
  intros H. unfold getN, byte_at. destruct (nth_error l (N.to_nat i)) as [v|] eqn:E.
  - rewrite (nth_error_nth _ _ 0 E). reflexivity.
  - apply nth_error_None in E. apply lt_lenN_nat in H. lia.
Qed.

Lemma updN_ok l i v : i < lenN l -> updN l i v = Val (setN l i v).
Proof. intros H. unfold updN, setN. apply N.ltb_lt in H. rewrite H. reflexivity. Qed.

Lemma subN_ok src off n : off + n <= lenN src ->
  subN src off n = Val (takeN n (dropN off src)) /\ lenN (takeN n (dropN off src)) = n.
Proof.
  intros H. unfold subN. rewrite (proj2 (N.leb_le _ _) H). split; [reflexivity|].
  apply lenN_takeN. rewrite lenN_dropN. lia.
Qed.

Lemma bytes_ok_blit dst off src : bytes_ok dst -> bytes_ok src ->
  bytes_ok (takeN off dst ++ src ++ dropN (off + lenN src) dst).
Proof. intros. apply bytes_ok_app; [apply bytes_ok_takeN; assumption|]. apply bytes_ok_app; [assumption|apply bytes_ok_dropN; assumption]. Qed.

Lemma byte_lor a b : a < 256 -> b < 256 -> N.lor a b < 256.
Proof.
  intros Ha Hb. change 256 with (2 ^ 8).
  destruct (N.eq_dec (N.lor a b) 0) as [E|E]; [rewrite E; reflexivity|].
  apply N.log2_lt_pow2; [lia|]. rewrite N.log2_lor.
  apply N.max_lub_lt.
  - destruct (N.eq_dec a 0) as [->|Ea]; [reflexivity|]. apply N.log2_lt_pow2; [lia|exact Ha].
  - destruct (N.eq_dec b 0) as [->|Eb]; [reflexivity|]. apply N.log2_lt_pow2; [lia|exact Hb].
Qed.

Lemma w8_lt x : w8 x < 256.
Proof. unfold w8. apply N.mod_lt. discriminate. Qed.
Lemma w8_small x : x < 256 -> w8 x = x.
Proof. intros H. unfold w8. apply N.mod_small. exact H. Qed.

(* ------------------------------------------------------------------ phase F: flush_previous_stream *)
Lemma find_high_ok lbs max : max <= 16 -> forall n i index0, i + N.of_nat n = max -> index0 < max ->
  exists ix, find_high n lbs max i index0 = Val ix /\ ix < max.
Proof.
  intros Hmax. induction n as [|n IH]; intros i index0 Hi H0.
  - exists index0. split; [reflexivity|exact H0].
  - cbn [find_high]. cbv zeta.
    assert (Hlt : max - 1 - i < max) by lia.
    replace (16 <=? max - 1 - i) with false by (symmetry; apply N.leb_gt; lia).
    destruct (N.testbit lbs (max - 1 - i)).
    + eexists. split; [reflexivity|exact Hlt].
    + apply IH; [lia|exact Hlt].
Qed.

Ltac fields := cbn [lb0 lb1 last_bytes_len last_byte_sanitized any_bytes_emitted last_byte_bit_offset
                    window_size new_stream_pending set_lbs set_len set_sanitized set_any set_bit_offset
                    set_window set_pending f_s f_out f_off f_rc] in *.

Lemma flush_sanitized s out off : last_byte_sanitized s = true ->
  flush_previous_stream s out off = Val (mkF s out off Success).
Proof. intros H. unfold flush_previous_stream. rewrite H. reflexivity. Qed.

Lemma pow2_div256 x k : 8 <= k -> x < 2 ^ k -> x / 256 < 2 ^ (k - 8).
Proof.
  intros Hk Hx. apply N.div_lt_upper_bound; [discriminate|].
  change 256 with (2 ^ 8). rewrite <- N.pow_add_r. replace (8 + (k - 8)) with k by lia. exact Hx.
Qed.

Ltac fin :=
  first [ assumption | reflexivity | lia | apply w8_lt | discriminate | congruence
        | (intros; first [assumption | lia | discriminate | congruence]) ].
Ltac conj := repeat match goal with |- _ /\ _ => split end.
Ltac post8 := split; [|split; [|split; [|split; [|split; [|split; [|split]]]]]].
Ltac pend_goal HP := let q := fresh "q" in let Hq := fresh "Hq" in intros q Hq; injection Hq as <-; exact HP.

Lemma NsdP_sanitize ws san san' p : NsdP ws san p -> NsdP ws san' p.
Proof. intros [P1 P2 P3 P4]. split; assumption. Qed.

Lemma flush_ok s out off : InvP s -> new_stream_pending s <> None -> bytes_ok out -> off <= lenN out ->
  exists f, flush_previous_stream s out off = Val f /\
    lenN (f_out f) = lenN out /\ bytes_ok (f_out f) /\ off <= f_off f /\ f_off f <= lenN out /\
    new_stream_pending (f_s f) = new_stream_pending s /\ window_size (f_s f) = window_size s /\
    (f_rc f = Success -> InvP (f_s f) /\ last_byte_sanitized (f_s f) = true) /\
    (f_rc f <> Success -> f_s f = s /\ f_off f = off /\ f_out f = out /\
       (f_rc f = NeedsMoreOutput -> off = lenN out) /\ f_rc f <> NeedsMoreInput).
Proof.
  intros [H1 H2 H3 H4 H5 H6 H7 H8 H9] Hpend Hout Hoff.
  destruct s as [a0 a1 len san any bo ws pend]. fields.
  destruct pend as [p|]; [|congruence]. clear Hpend H8.
  pose proof (H9 p eq_refl) as HP0. pose proof (NsdP_sanitize _ _ true _ HP0) as HP.
  unfold flush_previous_stream. fields.
  destruct san.
  { (* already sanitized *)
    eexists. split; [reflexivity|]. fields. post8; try fin.
    - intros _. split; [|reflexivity]. constructor; fields; try fin; try (pend_goal HP). }
  destruct (N.eqb_spec len 0) as [Hl0|Hl0].
  { (* nothing held back *)
    subst len. eexists. split; [reflexivity|]. fields. post8; try fin.
    - intros _. split; [|reflexivity]. constructor; fields; try fin; try (pend_goal HP).
      all: try solve [intros _; split; [lia|left; reflexivity]]. }
  assert (Hws : ws <> 0) by (intros E; destruct (H6 E) as [E1 _]; contradiction).
  assert (Hlen : len = 1 \/ len = 2) by lia.
  unfold mul_u8. replace (len * 8 <? 256) with true by (symmetry; apply N.ltb_lt; lia).
  set (lbs := a0 + N.shiftl a1 8).
  destruct (find_high_ok lbs (len * 8) ltac:(lia) (N.to_nat (len * 8)) 0 (len * 8 - 1) ltac:(lia) ltac:(lia)) as (ix & Eix & Hix).
  rewrite Eix.
  destruct (N.eqb_spec ix 0) as [Hix0|Hix0].
  { eexists. split; [reflexivity|]. fields. post8; try fin; try (intros _; repeat split; fin). }
  destruct (negb (N.shiftr lbs (ix - 1) =? 3)).
  { eexists. split; [reflexivity|]. fields. post8; try fin; try (intros _; repeat split; fin). }
  set (m := N.land lbs (2 ^ (ix - 1) - 1)).
  assert (Hm : m < 2 ^ (ix - 1)).
  { subst m. rewrite land_ones_mod. apply N.mod_lt. apply N.pow_nonzero. discriminate. }
  destruct (N.leb_spec 8 (ix - 1)) as [Hge|Hlt]; cbn [andb].
  - (* a whole byte has to be written *)
    destruct (N.leb_spec (lenN out) off) as [Hfull|Hroom].
    { eexists. split; [reflexivity|]. fields. post8; try fin; try (intros _; repeat split; fin). }
    assert (Hlen2 : len = 2) by lia. subst len.
    rewrite updN_ok by exact Hroom.
    unfold sub_u. fields. change (2 <? 1) with false. cbv iota.
    replace (ix - 1 - 8 <? 8) with true by (symmetry; apply N.ltb_lt; lia).
    eexists. split; [reflexivity|]. fields.
    assert (Hsan : w8 (N.shiftr m 8) < 2 ^ (ix - 1 - 8)).
    { rewrite N.shiftr_div_pow2. change (2 ^ 8) with 256.
      eapply N.le_lt_trans; [apply N.mod_le; discriminate|]. apply pow2_div256; [lia|exact Hm]. }
    post8; try fin.
    + apply lenN_setN. exact Hroom.
    + apply bytes_ok_setN; [exact Hout|apply w8_lt].
    + intros _. split; [|reflexivity]. constructor; fields; try fin; try (pend_goal HP).
      all: try solve [intros _; split; [lia|right; exact Hsan]].
  - (* the marker and everything above it is dropped in place *)
    eexists. split; [reflexivity|]. fields.
    assert (Hsan : w8 m < 2 ^ (ix - 1)).
    { eapply N.le_lt_trans; [apply N.mod_le; discriminate|exact Hm]. }
    post8; try fin.
    + intros _. split; [|reflexivity]. constructor; fields; try fin; try (pend_goal HP).
      all: try solve [intros _; split; [lia|right; exact Hsan]].
Qed.

(* ------------------------------------------------------------------ phase H: collecting the look-ahead *)
Lemma collect_ok s p input in_off :
  lenN (bytes_so_far p) = 5 -> bytes_ok (bytes_so_far p) -> num_bytes_read p <= 5 ->
  bytes_ok input -> in_off <= lenN input ->
  exists s1 p1 in1, collect_header s p input in_off = Val (s1, p1, in1) /\
    in_off <= in1 /\ in1 <= lenN input /\
    lenN (bytes_so_far p1) = 5 /\ bytes_ok (bytes_so_far p1) /\ num_bytes_read p1 <= 5 /\
    num_bytes_written p1 = num_bytes_written p /\
    (num_bytes_read p1 < 5 -> in1 = lenN input) /\
    (num_bytes_read p < 5 -> in_off < lenN input -> in_off < in1) /\
    ((s1 = s /\ p1 = p) \/ s1 = set_pending s (Some p1)).
Proof.
  intros Hl Hb Hr Hin Hoff. destruct p as [bsf nr nw]. cbn [bytes_so_far num_bytes_read num_bytes_written] in *.
  unfold collect_header. cbn [bytes_so_far num_bytes_read num_bytes_written]. rewrite Hl.
  destruct (N.ltb_spec nr 5) as [Hlt|Hge].
  - unfold sub_u. replace (5 <? nr) with false by (symmetry; apply N.ltb_ge; lia).
    replace (lenN input <? in_off) with false by (symmetry; apply N.ltb_ge; lia).
    set (tc := N.min (5 - nr) (lenN input - in_off)).
    assert (Htc1 : tc <= 5 - nr) by (subst tc; lia).
    assert (Htc2 : tc <= lenN input - in_off) by (subst tc; lia).
    destruct (subN_ok input in_off tc ltac:(lia)) as [E1 L1]. rewrite E1.
    rewrite blitN_ok by (rewrite L1, Hl; lia).
    unfold add_u8. rewrite (w8_small tc) by lia.
    replace (nr + tc <? 256) with true by (symmetry; apply N.ltb_lt; lia).
    assert (A1 : lenN (takeN nr bsf ++ takeN tc (dropN in_off input) ++ dropN (nr + lenN (takeN tc (dropN in_off input))) bsf) = 5).
    { rewrite lenN_blit by (rewrite L1, Hl; lia). exact Hl. }
    assert (A2 : bytes_ok (takeN nr bsf ++ takeN tc (dropN in_off input) ++ dropN (nr + lenN (takeN tc (dropN in_off input))) bsf)).
    { apply bytes_ok_blit; [exact Hb|]. apply bytes_ok_takeN. apply bytes_ok_dropN. exact Hin. }
    do 3 eexists. split; [reflexivity|]. cbn [bytes_so_far num_bytes_read num_bytes_written].
    conj; try assumption; try reflexivity; try lia; try (subst tc; lia).
    right. reflexivity.
  - do 3 eexists. split; [reflexivity|]. cbn [bytes_so_far num_bytes_read num_bytes_written].
    conj; try assumption; try reflexivity; try lia.
    left. split; reflexivity.
Qed.

(* ------------------------------------------------------------------ header parsing facts *)
Lemma wbits4_range x w : wbits4 x = Some w -> 18 <= w /\ w <= 24.
Proof. unfold wbits4. repeat (destruct (_ =? _); [intros H; injection H as <-; lia|]). discriminate. Qed.
Lemma wbits7_range x w : wbits7 x = Some w -> 10 <= w /\ w <= 17.
Proof. unfold wbits7. repeat (destruct (_ =? _); [intros H; injection H as <-; lia|]). discriminate. Qed.

Lemma parse_window_size_cases sl : 2 <= lenN sl ->
  parse_window_size sl = Val None \/
  exists ws wo, parse_window_size sl = Val (Some (ws, wo)) /\ 10 <= ws /\ ws <= 30 /\ (wo = 1 \/ wo = 4 \/ wo = 7 \/ wo = 14).
Proof.
  intros Hl. unfold parse_window_size.
  destruct (getN_ok sl 0 ltac:(lia)) as (b0 & E0 & _). rewrite E0.
  destruct (getN_ok sl 1 ltac:(lia)) as (b1 & E1 & _). rewrite E1.
  destruct (N.land b0 1 =? 0); [right; exists 16, 1; repeat split; try lia; auto|].
  destruct (wbits4 (N.land b0 15)) as [w|] eqn:E4.
  { apply wbits4_range in E4. right. exists w, 4. repeat split; try lia; auto. }
  destruct (wbits7 (N.land b0 127)) as [w|] eqn:E7.
  { apply wbits7_range in E7. right. exists w, 7. repeat split; try lia; auto. }
  destruct (negb (N.land b0 128 =? 0)); [left; reflexivity|].
  destruct ((10 <=? N.land b1 63) && (N.land b1 63 <=? 30)) eqn:E; [|left; reflexivity].
  apply andb_true_iff in E. destruct E as [Ea Eb]. apply N.leb_le in Ea, Eb.
  right. exists (N.land b1 63), 14. repeat split; try lia; auto.
Qed.

Lemma le_u64_ok l : forall idx acc, lenN l + idx <= 8 -> exists r, le_u64 l idx acc = Val r.
Proof.
  induction l as [|x l IH]; intros idx acc H; [eexists; reflexivity|].
  cbn [le_u64 lenN] in *. replace (64 <=? idx * 8) with false by (symmetry; apply N.leb_gt; lia).
  apply IH. lia.
Qed.

Lemma land3_le x : N.land x 3 <= 3.
Proof. change 3 with (2 ^ 2 - 1) at 1. rewrite land_ones_mod. pose proof (N.mod_lt x (2 ^ 2)) as H. cbn in H. specialize (H ltac:(discriminate)). change (2 ^ 2) with 4 in *. lia. Qed.

Lemma detect_varlen_offset_range sl ws wo : lenN sl <= 8 ->
  parse_window_size sl = Val (Some (ws, wo)) ->
  detect_varlen_offset sl = Val None \/
  exists v, detect_varlen_offset sl = Val (Some v) /\ wo + 2 <= v /\ v <= wo + 31.
Proof.
  intros Hl Hp. unfold detect_varlen_offset. rewrite Hp.
  destruct (le_u64_ok sl 0 0 ltac:(lia)) as (raw & Er). rewrite Er.
  cbv zeta.
  destruct (N.odd (N.shiftr raw wo)) eqn:E1; cbn [andb].
  - destruct (N.odd (N.shiftr (N.shiftr raw wo) 1)) eqn:E2.
    { right. eexists. split; [reflexivity|]. lia. }
    set (bytes1 := N.shiftr (N.shiftr raw wo) 1).
    pose proof (land3_le (N.shiftr bytes1 1)) as Hm3.
    pose proof (land3_le (N.shiftr (N.shiftr (N.shiftr bytes1 1) 2) 1)) as Hk3.
    destruct (N.eqb_spec (N.land (N.shiftr bytes1 1) 3) 3) as [Em|Em].
    + destruct (N.odd (N.shiftr (N.shiftr bytes1 1) 2)); [left; reflexivity|]. right. eexists. split; [reflexivity|]. lia.
    + match goal with |- context [if N.odd ?x then _ else _] => destruct (N.odd x) end; [|left; reflexivity].
      right. eexists. split; [reflexivity|]. lia.
  - set (bytes1 := N.shiftr raw wo).
    pose proof (land3_le (N.shiftr bytes1 1)) as Hm3.
    pose proof (land3_le (N.shiftr (N.shiftr (N.shiftr bytes1 1) 2) 1)) as Hk3.
    destruct (N.eqb_spec (N.land (N.shiftr bytes1 1) 3) 3) as [Em|Em].
    + destruct (N.odd (N.shiftr (N.shiftr bytes1 1) 2)); [left; reflexivity|]. right. eexists. split; [reflexivity|]. lia.
    + match goal with |- context [if N.odd ?x then _ else _] => destruct (N.odd x) end; [|left; reflexivity].
      right. eexists. split; [reflexivity|]. lia.
Qed.

(* ------------------------------------------------------------------ the two loops of the header shift *)
Lemma realign_ok b lbbo : lbbo <= 8 -> forall n bi rh, bi + N.of_nat n + 1 <= lenN rh \/ n = O -> bytes_ok rh ->
  exists rh', realign n bi b lbbo rh = Val rh' /\ lenN rh' = lenN rh /\ bytes_ok rh'.
Proof.
  intros Hb. induction n as [|n IH]; intros bi rh Hn Hok.
  - exists rh. conj; try reflexivity; exact Hok.
  - destruct Hn as [Hn|Hn]; [|discriminate].
    cbn [realign]. cbv zeta. unfold sub_u. replace (8 <? lbbo) with false by (symmetry; apply N.ltb_ge; lia).
    destruct (getN_ok rh bi ltac:(lia)) as (old & Eo & Hold). rewrite Eo.
    rewrite updN_ok by lia.
    rewrite updN_ok by (rewrite lenN_setN by lia; lia).
    match goal with |- context [realign n (bi + 1) b lbbo ?r] => set (rh2 := r) end.
    assert (L2 : lenN rh2 = lenN rh).
    { subst rh2. rewrite lenN_setN by (rewrite lenN_setN by lia; lia). apply lenN_setN. lia. }
    assert (B2 : bytes_ok rh2).
    { subst rh2. apply bytes_ok_setN; [|apply w8_lt]. apply bytes_ok_setN; [exact Hok|].
      apply byte_lor; [apply Hold; exact Hok|apply w8_lt]. }
    destruct (IH (bi + 1) rh2) as (rh' & E & L & B); [|exact B2|].
    + destruct n; [right; reflexivity|left; rewrite L2; lia].
    + exists rh'. conj; [exact E|rewrite L; exact L2|exact B].
Qed.

Lemma copy_whole_ok wbd wbs bsf : bytes_ok bsf -> forall n i rh,
  wbs + i + N.of_nat n <= lenN bsf -> wbd + i + N.of_nat n <= lenN rh -> bytes_ok rh ->
  exists rh', copy_whole n i wbd wbs bsf rh = Val rh' /\ lenN rh' = lenN rh /\ bytes_ok rh'.
Proof.
  intros Hbsf. induction n as [|n IH]; intros i rh H1 H2 Hok.
  - exists rh. conj; try reflexivity; exact Hok.
  - cbn [copy_whole].
    destruct (getN_ok bsf (wbs + i) ltac:(lia)) as (v & Ev & Hv). rewrite Ev.
    rewrite updN_ok by lia.
    destruct (IH (i + 1) (setN rh (wbd + i) v)) as (rh' & E & L & B).
    + lia.
    + rewrite lenN_setN by lia. lia.
    + apply bytes_ok_setN; [exact Hok|apply Hv; exact Hbsf].
    + exists rh'. conj; [exact E| |exact B]. rewrite L. apply lenN_setN. lia.
Qed.

(* ------------------------------------------------------------------ phase E: shift_and_check_new_stream_header *)
Definition emit_ready (s : BroCatli) (p : NewStreamData) (out : list N) (off : N) : Prop :=
  lenN (bytes_so_far p) = 5 /\ bytes_ok (bytes_so_far p) /\ num_bytes_read p <= 5 /\
  (exists w, num_bytes_written p = Some w /\ w <= num_bytes_read p /\
             (1 <= off \/ (w < num_bytes_read p /\ off < lenN out))) /\
  off <= lenN out /\ bytes_ok out /\ window_size s <> 0.

Definition is_header_error (rc : rcode) : Prop :=
  rc = InvalidWindowSize \/ rc = WindowSizeLargerThanPreviousFile \/ rc = BrotliFileNotCraftedForConcatenation.

Lemma div8_le a b : a <= b -> (a + 7) / 8 <= (b + 7) / 8.
Proof. intros H. apply N.div_le_mono; [discriminate|lia]. Qed.

Lemma ceil8_bound a k : a <= 8 * k -> (a + 7) / 8 <= k.
Proof.
  intros H. apply N.lt_succ_r. apply N.div_lt_upper_bound; [discriminate|]. lia.
Qed.

Lemma ceil8_pos a : 1 <= a -> 1 <= (a + 7) / 8.
Proof. intros H. apply N.div_le_lower_bound; [discriminate|lia]. Qed.

Lemma ceil8_add8 a : (a + 8 + 7) / 8 = (a + 7) / 8 + 1.
Proof. replace (a + 8 + 7) with (a + 7 + 1 * 8) by lia. rewrite N.div_add by discriminate. reflexivity. Qed.

Lemma shift_prepare_ok s p out off :
  InvP s -> last_byte_sanitized s = true -> NsdP (window_size s) true p ->
  (num_bytes_written p = None -> num_bytes_read p = 5) ->
  bytes_ok out -> off < lenN out ->
  exists r, shift_prepare s p out off = Val r /\
  match r with
  | inr rc => is_header_error rc
  | inl q =>
     InvP (set_pending (p_s q) (new_stream_pending s)) /\ last_byte_sanitized (p_s q) = true /\
     new_stream_pending (p_s q) = new_stream_pending s /\
     emit_ready (p_s q) (p_nsp q) (p_out q) (p_off q) /\ lenN (p_out q) = lenN out /\
     off <= p_off q /\ p_off q <= off + 1 /\
     (num_bytes_written p = None -> p_off q = off + 1) /\
     (num_bytes_written p <> None -> p_off q = off /\ exists w, num_bytes_written p = Some w /\ w < num_bytes_read p) /\
     (exists w, num_bytes_written (p_nsp q) = Some w /\ w < num_bytes_read (p_nsp q))
  end.
Proof.
  intros HI Hsan [P1 P2 P3 P4] Hsuf Hout Hoff.
  pose proof HI as [H1 H2 H3 H4 H5 H6 H7 H8 H9].
  destruct s as [a0 a1 len san any bo ws pend]. fields. subst san.
  destruct p as [bsf nr nw]. cbn [bytes_so_far num_bytes_read num_bytes_written] in *.
  unfold shift_prepare. cbn [bytes_so_far num_bytes_read num_bytes_written]. fields.
  destruct nw as [w|].
  { (* the header has been realigned already *)
    destruct (P4 w eq_refl) as (A & B).
    replace (ws =? 0) with false by (symmetry; apply N.eqb_neq; exact B).
    eexists. split; [reflexivity|]. cbn [p_s p_nsp p_out p_off]. fields.
    assert (HE : emit_ready (mkBC a0 a1 len true any bo ws pend) (mkNSD bsf nr (Some w)) out off).
    { unfold emit_ready. cbn [bytes_so_far num_bytes_read num_bytes_written]. fields. conj; try fin.
      exists w. conj; fin. }
    assert (HW : Some w <> None -> off = off /\ exists w0, Some w = Some w0 /\ w0 < nr).
    { intros _. split; [reflexivity|]. exists w. split; [reflexivity|exact A]. }
    assert (HX : exists w0, Some w = Some w0 /\ w0 < nr) by (exists w; split; [reflexivity|exact A]).
    conj; fin. }
  specialize (Hsuf eq_refl). subst nr.
  unfold slice_to. rewrite P1. cbn [N.leb N.compare Pos.compare Pos.compare_cont].
  change (5 <=? 5) with true. cbv iota.
  assert (Esl : takeN 5 bsf = bsf).
  { unfold takeN. apply firstn_all2. rewrite lenN_length in P1. lia. }
  rewrite Esl.
  destruct (parse_window_size_cases bsf ltac:(lia)) as [Ep|(pw & wo & Ep & Hpw1 & Hpw2 & Hwo)]; rewrite Ep.
  { eexists. split; [reflexivity|]. left. reflexivity. }
  destruct (N.eqb_spec ws 0) as [Hws|Hws].
  { (* first member: its header is copied as it is *)
    destruct (H6 Hws) as [Hl0 Hb0]. subst bo. cbn [N.eqb negb].
    destruct (getN_ok bsf 0 ltac:(lia)) as (b0 & E0 & Hb0). rewrite E0.
    rewrite updN_ok by exact Hoff.
    eexists. split; [reflexivity|]. cbn [p_s p_nsp p_out p_off]. fields.
    assert (HI' : InvP (mkBC a0 a1 len true true 0 pw pend)).
    { constructor; fields; try fin.
      intros q Hq. specialize (H9 q Hq). destruct H9 as [Q1 Q2 Q3 Q4]. split; try assumption.
      intros k Hk. destruct (Q4 k Hk) as (_ & B). contradiction. }
    assert (HE : emit_ready (mkBC a0 a1 len true true 0 pw pend) (mkNSD bsf 5 (Some 1)) (setN out off b0) (off + 1)).
    { unfold emit_ready. cbn [bytes_so_far num_bytes_read num_bytes_written]. fields. conj; try fin.
      + exists 1. conj; fin.
      + rewrite lenN_setN by exact Hoff. lia.
      + apply bytes_ok_setN; [exact Hout|apply Hb0; exact P2]. }
    assert (HL : lenN (setN out off b0) = lenN out) by (apply lenN_setN; exact Hoff).
    assert (HX : exists w0, Some 1 = Some w0 /\ w0 < 5) by (exists 1; split; [reflexivity|lia]).
    conj; fin. }
  destruct (N.ltb_spec ws pw) as [Hgt|Hle].
  { eexists. split; [reflexivity|]. right. left. reflexivity. }
  destruct (detect_varlen_offset_range bsf pw wo ltac:(lia) Ep) as [Ed|(v & Ed & Hv1 & Hv2)]; rewrite Ed.
  { eexists. split; [reflexivity|]. right. right. reflexivity. }
  destruct (le_u64_ok bsf 0 0 ltac:(lia)) as (raw & Er). rewrite Er.
  unfold sub_u at 1. replace (v <? wo) with false by (symmetry; apply N.ltb_ge; lia).
  replace (64 <=? v - wo) with false by (symmetry; apply N.leb_gt; lia).
  cbv zeta.
  assert (Hvlb : (v - wo + 7) / 8 <= 4) by (apply ceil8_bound; lia).
  destruct (realign_ok (N.land (N.shiftr raw wo) (2 ^ (v - wo) - 1)) bo ltac:(lia)
              (N.to_nat ((v - wo + 7) / 8)) 0 [a0; 0; 0; 0; 0; 0]) as (rh & Erh & Lrh & Brh).
  { left. cbn [lenN]. lia. }
  { repeat (apply bytes_ok_cons; [lia|]). constructor. }
  rewrite Erh. cbn [lenN] in Lrh.
  unfold sub_u at 1. replace (bo + v <? wo) with false by (symmetry; apply N.ltb_ge; lia).
  set (wbd := (bo + v - wo + 7) / 8). set (wbs := (v + 7) / 8).
  assert (Hwbd1 : 1 <= wbd) by (subst wbd; apply ceil8_pos; lia).
  assert (Hwbd2 : wbd <= wbs + 1).
  { subst wbd wbs. rewrite <- ceil8_add8. apply div8_le. lia. }
  destruct (N.ltb_spec 5 wbs) as [Hbig|Hfit].
  { eexists. split; [reflexivity|]. right. right. reflexivity. }
  unfold sub_u at 1. replace (5 <? wbs) with false by (symmetry; apply N.ltb_ge; lia).
  destruct (copy_whole_ok wbd wbs bsf P2 (N.to_nat (5 - wbs)) 0 rh) as (rh' & Ec & Lc & Bc); try lia; try assumption.
  rewrite Ec.
  destruct (getN_ok rh' 0 ltac:(lia)) as (r0 & E0 & Hr0). rewrite E0.
  rewrite updN_ok by exact Hoff.
  rewrite (w8_small (wbd + (5 - wbs))) by lia.
  unfold sub_u. replace (wbd + (5 - wbs) <? 1) with false by (symmetry; apply N.ltb_ge; lia).
  eexists. split; [reflexivity|]. cbn [p_s p_nsp p_out p_off]. fields.
  assert (HI' : InvP (mkBC a0 a1 len true true bo ws pend)).
  { constructor; fields; fin. }
  assert (HE : emit_ready (mkBC a0 a1 len true true bo ws pend) (mkNSD (dropN 1 rh') (wbd + (5 - wbs) - 1) (Some 0)) (setN out off r0) (off + 1)).
  { unfold emit_ready. cbn [bytes_so_far num_bytes_read num_bytes_written]. fields. conj; try fin.
    + rewrite lenN_dropN. lia.
    + apply bytes_ok_dropN. exact Bc.
    + exists 0. conj; fin.
    + rewrite lenN_setN by exact Hoff. lia.
    + apply bytes_ok_setN; [exact Hout|apply Hr0; exact Bc]. }
  assert (HL : lenN (setN out off r0) = lenN out) by (apply lenN_setN; exact Hoff).
  assert (Hwbd3 : wbs <= wbd + 2).
  { subst wbd wbs. replace ((bo + v - wo + 7) / 8 + 2) with ((bo + v - wo + 7) / 8 + 1 + 1) by lia.
    rewrite <- !ceil8_add8. apply div8_le. lia. }
  assert (HX : exists w0, Some 0 = Some w0 /\ w0 < wbd + (5 - wbs) - 1) by (exists 0; split; [reflexivity|lia]).
  conj; fin.
Qed.

Lemma InvP_set_pending s a b : InvP (set_pending s (Some a)) ->
  NsdP (window_size s) (last_byte_sanitized s) b -> InvP (set_pending s (Some b)).
Proof.
  intros [H1 H2 H3 H4 H5 H6 H7 H8 H9] Hb. destruct s as [a0 a1 len san any bo ws pend]. fields.
  constructor; fields; try fin. all: try (intros q Hq; injection Hq as <-; exact Hb).
Qed.

Lemma InvP_set_any s v : InvP s -> InvP (set_any s v).
Proof.
  intros [H1 H2 H3 H4 H5 H6 H7 H8 H9]. destruct s as [a0 a1 len san any bo ws pend]. fields.
  constructor; fields; fin.
Qed.

Lemma shift_emit_ok s p0 p out off :
  InvP (set_pending s (Some p0)) -> last_byte_sanitized s = true -> emit_ready s p out off ->
  exists f, shift_emit s p out off = Val f /\
    lenN (f_out f) = lenN out /\ bytes_ok (f_out f) /\ f_off f <= lenN out /\ off <= f_off f + 1 /\
    ((f_rc f = NeedsMoreOutput /\ f_off f = lenN out /\ off <= f_off f /\ InvP (f_s f) /\
      new_stream_pending (f_s f) <> None) \/
     (f_rc f = Success /\ InvP (f_s f) /\ new_stream_pending (f_s f) = None /\ window_size (f_s f) <> 0 /\
      f_off f < lenN out /\
      (forall w, num_bytes_written p = Some w -> w < num_bytes_read p -> off < lenN out -> off <= f_off f))).
Proof.
  intros HI Hsan (E1 & E2 & E3 & (w & Ew & Hw & Hpos) & Eoff & Eout & Ews).
  destruct p as [bsf nr nw]. cbn [bytes_so_far num_bytes_read num_bytes_written] in *. subst nw.
  unfold shift_emit. cbn [bytes_so_far num_bytes_read num_bytes_written].
  unfold sub_u. replace (lenN out <? off) with false by (symmetry; apply N.ltb_ge; lia).
  replace (nr <? w) with false by (symmetry; apply N.ltb_ge; lia).
  cbv zeta. set (tc := N.min (lenN out - off) (nr - w)).
  assert (T1 : tc <= lenN out - off) by (subst tc; lia).
  assert (T2 : tc <= nr - w) by (subst tc; lia).
  replace (lenN bsf <? w) with false by (symmetry; apply N.ltb_ge; lia).
  destruct (subN_ok bsf w tc ltac:(lia)) as [Es Ls]. rewrite Es.
  rewrite blitN_ok by (rewrite Ls; lia).
  set (out' := takeN off out ++ takeN tc (dropN w bsf) ++ dropN (off + lenN (takeN tc (dropN w bsf))) out).
  assert (Lo : lenN out' = lenN out) by (subst out'; apply lenN_blit; rewrite Ls; lia).
  assert (Bo : bytes_ok out').
  { subst out'. apply bytes_ok_blit; [exact Eout|]. apply bytes_ok_takeN. apply bytes_ok_dropN. exact E2. }
  unfold add_u8. rewrite (w8_small tc) by lia.
  replace (w + tc <? 256) with true by (symmetry; apply N.ltb_lt; lia).
  pose proof HI as [H1 H2 H3 H4 H5 H6 H7 H8 H9].
  destruct (N.eqb_spec (w + tc) nr) as [Heq|Hne]; cbn [negb].
  - (* everything written: take the last byte back *)
    assert (Hoff1 : 1 <= off + tc) by lia.
    replace (off + tc <? 1) with false by (symmetry; apply N.ltb_ge; lia).
    destruct (getN_ok out' (off + tc - 1) ltac:(lia)) as (b & Eb & Hb). rewrite Eb.
    eexists. split; [reflexivity|]. fields.
    conj; try fin. right.
    assert (Hws' : window_size (if tc =? 0 then s else set_any s true) = window_size s)
      by (destruct (tc =? 0); destruct s; reflexivity).
    rewrite Hws'.
    assert (HI2 : InvP (mkBC b 0 1 false (any_bytes_emitted (if tc =? 0 then s else set_any s true)) 0 (window_size s) None)).
    { destruct s as [a0 a1 len san any bo ws pend]. fields. constructor; fields; try fin. apply Hb. exact Bo. }
    conj; try fin. intros w0 Hw0 Hlt Hroom. injection Hw0 as <-. lia.
  - (* output full *)
    eexists. split; [reflexivity|]. fields.
    conj; try fin. left.
    assert (Hfull : off + tc = lenN out) by (subst tc; lia).
    conj; try fin.
    + assert (HN : NsdP (window_size s) (last_byte_sanitized s) (mkNSD bsf nr (Some (w + tc)))).
      { split; cbn [bytes_so_far num_bytes_read num_bytes_written]; try fin.
        intros k Hk. injection Hk as <-. conj; fin. }
      destruct (tc =? 0).
      * eapply InvP_set_pending; [exact HI|exact HN].
      * destruct s as [a0 a1 len san any bo ws pend]. fields.
        apply (InvP_set_pending (mkBC a0 a1 len san true bo ws pend) p0); [|exact HN].
        apply (InvP_set_any (mkBC a0 a1 len san any bo ws (Some p0)) true). exact HI.
Qed.

(* ------------------------------------------------------------------ phase B: the two-byte-delayed body copy *)
Definition BI (s : BroCatli) : Prop := InvP s /\ new_stream_pending s = None /\ window_size s <> 0.

Definition body_post (s : BroCatli) (input : list N) (in_off : N) (out : list N) (off : N) (r : sret) : Prop :=
  BI (r_s r) /\ window_size (r_s r) = window_size s /\
  in_off <= r_in r /\ r_in r <= lenN input /\ off <= r_off r /\ r_off r <= lenN out /\
  lenN (r_out r) = lenN out /\ bytes_ok (r_out r) /\
  (r_rc r = NeedsMoreInput \/ r_rc r = NeedsMoreOutput) /\
  (r_rc r = NeedsMoreInput -> r_in r = lenN input) /\
  (r_rc r = NeedsMoreOutput -> r_off r = lenN out) /\
  (off < lenN out -> in_off < lenN input -> in_off < r_in r).

Lemma BI_set_lbs s a b : BI s -> a < 256 -> b < 256 -> BI (set_lbs s a b).
Proof.
  intros ([H1 H2 H3 H4 H5 H6 H7 H8 H9] & Hn & Hw) Ha Hb. destruct s as [a0 a1 len san any bo ws pend]. fields. subst pend.
  pose proof (H8 eq_refl) as Hs. subst san.
  repeat split; fields; try fin.
Qed.

Lemma fill_one_ok s input in_off : BI s -> last_bytes_len s <> 2 -> in_off < lenN input -> bytes_ok input ->
  exists s1, fill_one s input in_off = Val (s1, in_off + 1) /\ BI s1 /\ window_size s1 = window_size s /\
             last_bytes_len s1 = last_bytes_len s + 1.
Proof.
  intros ([H1 H2 H3 H4 H5 H6 H7 H8 H9] & Hn & Hw) Hl Hi Hb.
  destruct s as [a0 a1 len san any bo ws pend]. fields. subst pend. pose proof (H8 eq_refl) as Hs. subst san.
  unfold fill_one. destruct (getN_ok input in_off Hi) as (b & Eb & Hbb). rewrite Eb. specialize (Hbb Hb).
  unfold set_lb_at. fields.
  assert (Hlen : len = 0 \/ len = 1) by lia.
  destruct Hlen as [-> | ->]; cbn [N.eqb Pos.eqb]; fields; unfold add_u8; cbn [N.add N.ltb N.compare Pos.compare Pos.compare_cont Pos.add];
    (eexists; split; [reflexivity|]; unfold BI; fields; repeat split; fields; try fin).
Qed.

Lemma list_len2 (l : list N) : lenN l = 2 -> exists a b, l = [a; b].
Proof.
  destruct l as [|a [|b [|c l]]]; cbn [lenN]; intros H; try lia. exists a, b. reflexivity.
Qed.

Lemma stream_copy_ok s input in_off out off :
  BI s -> bytes_ok input -> bytes_ok out -> in_off <= lenN input -> off <= lenN out ->
  exists r, stream_copy s input in_off out off = Val r /\ body_post s input in_off out off r.
Proof.
  intros HB Hin Hout Hio Hoo. pose proof HB as (HI & Hn & Hw). pose proof HI as [H1 H2 H3 H4 H5 H6 H7 H8 H9].
  unfold stream_copy.
  destruct (N.eqb_spec (lenN out) off) as [E1|E1].
  { eexists. split; [reflexivity|]. unfold body_post. cbn [r_s r_in r_out r_off r_rc]. conj; try fin; try (right; reflexivity). }
  destruct (N.eqb_spec (lenN input) in_off) as [E2|E2].
  { eexists. split; [reflexivity|]. unfold body_post. cbn [r_s r_in r_out r_off r_rc]. conj; try fin; try (left; reflexivity). }
  unfold sub_u. replace (lenN out <? off) with false by (symmetry; apply N.ltb_ge; lia).
  replace (lenN input <? in_off) with false by (symmetry; apply N.ltb_ge; lia).
  cbv zeta. set (tc := N.min (lenN out - off) (lenN input - in_off)).
  assert (T1 : tc <= lenN out - off) by (subst tc; lia).
  assert (T2 : tc <= lenN input - in_off) by (subst tc; lia).
  assert (T3 : 1 <= tc) by (subst tc; lia).
  replace (tc =? 0) with false by (symmetry; apply N.eqb_neq; lia).
  destruct (N.eqb_spec tc 1) as [Et|Et].
  - rewrite updN_ok by lia.
    destruct (getN_ok input in_off ltac:(lia)) as (b & Eb & Hb). rewrite Eb. specialize (Hb Hin).
    eexists. split; [reflexivity|]. unfold body_post. cbn [r_s r_in r_out r_off r_rc].
    assert (HB' : BI (set_lbs s (lb1 s) b)) by (apply BI_set_lbs; assumption).
    assert (HL : lenN (setN out off (lb0 s)) = lenN out) by (apply lenN_setN; lia).
    assert (HO : bytes_ok (setN out off (lb0 s))) by (apply bytes_ok_setN; assumption).
    assert (HW : window_size (set_lbs s (lb1 s) b) = window_size s) by (destruct s; reflexivity).
    destruct (N.eqb_spec (off + 1) (lenN out)) as [E3|E3]; conj; try fin;
      try (left; reflexivity); try (right; reflexivity); try (intros; subst tc; lia).
  - assert (T4 : 2 <= tc) by lia.
    rewrite blitN_ok by (cbn [lenN]; lia).
    destruct (subN_ok input in_off tc ltac:(lia)) as [Es Ls]. rewrite Es.
    replace (tc <? 2) with false by (symmetry; apply N.ltb_ge; lia).
    set (chunk := takeN tc (dropN in_off input)) in *.
    assert (Bc : bytes_ok chunk) by (subst chunk; apply bytes_ok_takeN; apply bytes_ok_dropN; exact Hin).
    destruct (list_len2 (dropN (tc - 2) chunk)) as (a & b & Eab); [rewrite lenN_dropN, Ls; lia|].
    rewrite Eab.
    assert (Bab : bytes_ok [a; b]) by (rewrite <- Eab; apply bytes_ok_dropN; exact Bc).
    assert (Ha : a < 256) by (inversion Bab; assumption).
    assert (Hb : b < 256) by (inversion Bab as [|? ? ? Hr]; inversion Hr; assumption).
    set (out1 := takeN off out ++ [lb0 s; lb1 s] ++ dropN (off + lenN [lb0 s; lb1 s]) out).
    assert (L1 : lenN out1 = lenN out) by (subst out1; apply lenN_blit; cbn [lenN]; lia).
    assert (B1 : bytes_ok out1).
    { subst out1. apply bytes_ok_blit; [exact Hout|]. repeat (apply bytes_ok_cons; [assumption|]). constructor. }
    assert (Lb : lenN (takeN (tc - 2) chunk) = tc - 2) by (apply lenN_takeN; rewrite Ls; lia).
    rewrite blitN_ok by (rewrite Lb, L1; lia).
    eexists. split; [reflexivity|]. unfold body_post. cbn [r_s r_in r_out r_off r_rc].
    assert (HB' : BI (set_lbs s a b)) by (apply BI_set_lbs; assumption).
    assert (HW : window_size (set_lbs s a b) = window_size s) by (destruct s; reflexivity).
    assert (L2 : lenN (takeN (off + 2) out1 ++ takeN (tc - 2) chunk ++ dropN (off + 2 + lenN (takeN (tc - 2) chunk)) out1) = lenN out).
    { rewrite lenN_blit by (rewrite Lb, L1; lia). exact L1. }
    assert (B2 : bytes_ok (takeN (off + 2) out1 ++ takeN (tc - 2) chunk ++ dropN (off + 2 + lenN (takeN (tc - 2) chunk)) out1)).
    { apply bytes_ok_blit; [exact B1|apply bytes_ok_takeN; exact Bc]. }
    destruct (N.eqb_spec (off + 2 + (tc - 2)) (lenN out)) as [E3|E3]; conj; try fin;
      try (left; reflexivity); try (right; reflexivity); try (intros; subst tc; lia).
Qed.

Lemma body_post_weaken s s' input in_off in' out off r :
  body_post s' input in' out off r -> window_size s' = window_size s -> in_off < in' ->
  body_post s input in_off out off r.
Proof.
  unfold body_post. intros (A & B & C & D & E & F & G & H & I & J & K & L) Hw Hlt.
  conj; try fin.
Qed.

Lemma stream_body_ok s input in_off out off :
  BI s -> bytes_ok input -> bytes_ok out -> in_off <= lenN input -> off <= lenN out ->
  exists r, stream_body s input in_off out off = Val r /\ body_post s input in_off out off r.
Proof.
  intros HB Hin Hout Hio Hoo. pose proof HB as (HI & Hn & Hw).
  unfold stream_body. rewrite Hn.
  destruct (N.eqb_spec (last_bytes_len s) 2) as [El|El]; cbn [negb].
  { apply stream_copy_ok; assumption. }
  destruct (N.eqb_spec (lenN out) off) as [E1|E1].
  { eexists. split; [reflexivity|]. unfold body_post. cbn [r_s r_in r_out r_off r_rc]. conj; try fin; try (right; reflexivity). }
  destruct (N.eqb_spec (lenN input) in_off) as [E2|E2].
  { eexists. split; [reflexivity|]. unfold body_post. cbn [r_s r_in r_out r_off r_rc]. conj; try fin; try (left; reflexivity). }
  destruct (fill_one_ok s input in_off HB El ltac:(lia) Hin) as (s1 & F1 & HB1 & W1 & L1). rewrite F1.
  destruct (N.eqb_spec (last_bytes_len s1) 2) as [El1|El1]; cbn [negb].
  { destruct (stream_copy_ok s1 input (in_off + 1) out off HB1 Hin Hout ltac:(lia) Hoo) as (r & Er & Pr).
    exists r. split; [exact Er|]. eapply body_post_weaken; [exact Pr|exact W1|lia]. }
  replace (lenN out =? off) with false by (symmetry; apply N.eqb_neq; exact E1).
  destruct (N.eqb_spec (lenN input) (in_off + 1)) as [E3|E3].
  { eexists. split; [reflexivity|]. unfold body_post. cbn [r_s r_in r_out r_off r_rc]. conj; try fin; try (left; reflexivity). }
  destruct (fill_one_ok s1 input (in_off + 1) HB1 El1 ltac:(lia) Hin) as (s2 & F2 & HB2 & W2 & L2). rewrite F2.
  destruct (stream_copy_ok s2 input (in_off + 1 + 1) out off HB2 Hin Hout ltac:(lia) Hoo) as (r & Er & Pr).
  exists r. split; [exact Er|]. eapply body_post_weaken; [exact Pr|congruence|lia].
Qed.

(* ------------------------------------------------------------------ stream: all phases together *)
Definition stream_post (s : BroCatli) (input : list N) (in_off : N) (out : list N) (off : N) (r : sret) : Prop :=
  InvP (r_s r) /\ Started (r_s r) /\
  in_off <= r_in r /\ r_in r <= lenN input /\ off <= r_off r /\ r_off r <= lenN out /\
  lenN (r_out r) = lenN out /\ bytes_ok (r_out r) /\
  r_rc r <> Success /\
  (r_rc r = NeedsMoreInput -> r_in r = lenN input) /\
  (r_rc r = NeedsMoreOutput -> r_off r = lenN out) /\
  (r_rc r = NeedsMoreInput \/ r_rc r = NeedsMoreOutput -> off < lenN out -> in_off < lenN input ->
     in_off < r_in r \/ off < r_off r).

Lemma Started_ws s : window_size s <> 0 -> Started s.
Proof. intros H. unfold Started, startedb. apply N.eqb_neq in H. rewrite H. reflexivity. Qed.
Lemma Started_pending s : new_stream_pending s <> None -> Started s.
Proof. intros H. unfold Started, startedb. destruct (new_stream_pending s); [apply orb_true_r|congruence]. Qed.

Lemma body_to_stream_post s0 s input in_off in1 out0 out off0 off r :
  body_post s input in1 out off r -> in_off <= in1 -> off0 <= off -> lenN out = lenN out0 -> window_size s <> 0 ->
  (off0 < lenN out0 -> off < lenN out) ->
  stream_post s0 input in_off out0 off0 r.
Proof.
  unfold body_post, stream_post. intros ((HI & Hn & Hw) & B & C & D & E & F & G & H & I & J & K & L) H1 H2 H3 H4 H5.
  assert (S1 : Started (r_s r)) by (apply Started_ws; exact Hw).
  assert (S2 : r_rc r <> Success) by (destruct I as [I|I]; rewrite I; discriminate).
  assert (S3 : r_rc r = NeedsMoreInput \/ r_rc r = NeedsMoreOutput -> off0 < lenN out0 -> in_off < lenN input ->
               in_off < r_in r \/ off0 < r_off r).
  { intros _ Ha Hb. destruct (N.eq_dec in_off in1) as [<-|Hne]; [|left; lia].
    left. apply L; [apply H5; exact Ha|exact Hb]. }
  conj; try fin. intros X. rewrite <- H3. apply K. exact X.
Qed.

Theorem stream_total s input in_off out off :
  InvP s -> Started s -> bytes_ok input -> bytes_ok out -> in_off <= lenN input -> off <= lenN out ->
  exists r, stream s input in_off out off = Val r /\ stream_post s input in_off out off r.
Proof.
  intros HI HS Hin Hout Hio Hoo. unfold stream.
  destruct (new_stream_pending s) as [p|] eqn:Ep.
  2: { (* body only *)
    assert (Hw : window_size s <> 0).
    { unfold Started, startedb in HS. rewrite Ep in HS. cbn in HS. rewrite orb_false_r in HS.
      apply negb_true_iff in HS. apply N.eqb_neq. exact HS. }
    destruct (stream_body_ok s input in_off out off (conj HI (conj Ep Hw)) Hin Hout Hio Hoo) as (r & Er & Pr).
    exists r. split; [exact Er|]. eapply body_to_stream_post; try exact Pr; try fin. }
  destruct (flush_ok s out off HI ltac:(congruence) Hout Hoo) as (f & Ef & FL & FB & F1 & F2 & FP & FW & FS & FN).
  rewrite Ef. rewrite Ep in FP.
  destruct (f_rc f) eqn:Erc.
  2-7: (destruct (FN ltac:(discriminate)) as (N1 & N2 & N3 & N4 & N5);
        eexists; split; [reflexivity|]; unfold stream_post; cbn [r_s r_in r_out r_off r_rc];
        rewrite N1, N2, N3; conj; try fin; try (apply Started_pending; congruence);
        try (intros [X|X]; try discriminate X; intros; exfalso; specialize (N4 eq_refl); lia)).
  destruct (FS eq_refl) as (HIf & Hsf). clear FN FS.
  assert (HPf : NsdP (window_size (f_s f)) true p).
  { destruct HIf as [_ _ _ _ _ _ _ _ H9]. rewrite Hsf in H9. apply H9. exact FP. }
  (* the look-ahead *)
  assert (Hcol : exists s1 p1 in1,
     (if is_none (num_bytes_written p) then collect_header (f_s f) p input in_off else Val (f_s f, p, in_off)) = Val (s1, p1, in1) /\
     in_off <= in1 /\ in1 <= lenN input /\ InvP s1 /\ last_byte_sanitized s1 = true /\ new_stream_pending s1 = Some p1 /\
     window_size s1 = window_size (f_s f) /\ NsdP (window_size s1) true p1 /\
     num_bytes_written p1 = num_bytes_written p /\
     (num_bytes_written p = None -> (num_bytes_read p1 < 5 -> in1 = lenN input) /\ (num_bytes_read p1 = 5 \/ num_bytes_read p1 < 5)) /\
     (num_bytes_written p <> None -> in1 = in_off)).
  { pose proof HPf as [P1 P2 P3 P4].
    destruct (num_bytes_written p) as [k|] eqn:Ek; cbn [is_none].
    - do 3 eexists. split; [reflexivity|]. conj; try fin.
    - destruct (collect_ok (f_s f) p input in_off P1 P2 P3 Hin Hio) as (s1 & p1 & in1 & Ec & C1 & C2 & C3 & C4 & C5 & C6 & C7 & C8 & C9).
      exists s1, p1, in1. split; [exact Ec|].
      assert (HN1 : NsdP (window_size (f_s f)) (last_byte_sanitized (f_s f)) p1).
      { split; try assumption. intros k Hk. rewrite C6, Ek in Hk. discriminate. }
      destruct C9 as [[-> ->] | ->].
      + conj; try fin.
      + assert (HI1 : InvP (set_pending (f_s f) (Some p1))).
        { apply (InvP_set_pending (f_s f) p); [|exact HN1]. destruct (f_s f); fields. subst. exact HIf. }
        destruct (f_s f) as [a0 a1 len san any bo ws pend]; fields. subst san.
        conj; try fin. }
  destruct Hcol as (s1 & p1 & in1 & Ec & C1 & C2 & HI1 & Hs1 & Hp1 & Hw1 & HN1 & Cw & Cn & Cs). rewrite Ec.
  assert (HSt1 : Started s1) by (apply Started_pending; congruence).
  destruct (is_none (num_bytes_written p) && negb (sufficient p1)) eqn:Esuf.
  { (* more look-ahead needed *)
    apply andb_true_iff in Esuf. destruct Esuf as [En Es].
    assert (Ew : num_bytes_written p = None) by (destruct (num_bytes_written p); [discriminate|reflexivity]).
    destruct (Cn Ew) as [Cn1 Cn2]. unfold sufficient, NUM_STREAM_HEADER_BYTES in Es. apply negb_true_iff, N.eqb_neq in Es.
    assert (Hin1 : in1 = lenN input) by (apply Cn1; lia).
    eexists. split; [reflexivity|]. unfold stream_post. cbn [r_s r_in r_out r_off r_rc].
    conj; try fin; try (intros _ _ Hlt; left; lia). }
  destruct (N.eqb_spec (lenN (f_out f)) (f_off f)) as [Efull|Eroom].
  { eexists. split; [reflexivity|]. unfold stream_post. cbn [r_s r_in r_out r_off r_rc].
    conj; try fin; try (intros _ Hlt _; right; lia). }
  (* the header shift *)
  assert (Hsuf : num_bytes_written p1 = None -> num_bytes_read p1 = 5).
  { intros Hn. rewrite Cw in Hn. rewrite Hn in Esuf. cbn [is_none andb] in Esuf.
    apply negb_false_iff in Esuf. unfold sufficient, NUM_STREAM_HEADER_BYTES in Esuf. apply N.eqb_eq in Esuf. exact Esuf. }
  destruct (shift_prepare_ok s1 p1 (f_out f) (f_off f) HI1 Hs1 HN1 Hsuf FB ltac:(lia)) as (pr & Epr & Ppr).
  unfold shift_and_check_new_stream_header. rewrite Epr.
  destruct pr as [q|rc].
  2: { (* header rejected *)
    cbn [f_rc f_s f_out f_off].
    assert (Hrc : rc <> Success /\ rc <> NeedsMoreInput /\ rc <> NeedsMoreOutput)
      by (destruct Ppr as [-> | [-> | ->]]; repeat split; discriminate).
    destruct Hrc as (R1 & R2 & R3).
    destruct rc; try congruence;
      (eexists; split; [reflexivity|]; unfold stream_post; cbn [r_s r_in r_out r_off r_rc];
       conj; try fin; intros [X|X]; discriminate X). }
  destruct Ppr as (Q1 & Q2 & Q3 & Q4 & Q5 & Q6 & Q7 & Q8 & Q9 & _).
  rewrite Hp1 in Q1.
  destruct (shift_emit_ok (p_s q) p1 (p_nsp q) (p_out q) (p_off q) Q1 Q2 Q4) as (g & Eg & G1 & G2 & G3 & G4 & G5).
  rewrite Eg.
  destruct G5 as [(R1 & R2 & R3 & R4 & R5)|(R1 & R2 & R3 & R4 & R5 & R6)]; rewrite R1.
  - (* output full while emitting the header *)
    eexists. split; [reflexivity|]. unfold stream_post. cbn [r_s r_in r_out r_off r_rc].
    conj; try fin; try (apply Started_pending; exact R5); try (intros _ Hlt _; right; lia).
  - (* header done: continue with the body *)
    replace (f_off g =? lenN (f_out g)) with false by (symmetry; apply N.eqb_neq; lia).
    assert (Hoffg : f_off f <= f_off g).
    { destruct (num_bytes_written p) as [k|] eqn:Ek.
      - destruct (Q9 ltac:(rewrite Cw; discriminate)) as (Qa & w & Qb & Qc).
        destruct Q4 as (_ & _ & _ & (w' & Qw & _) & _).
        assert (Hq : p_nsp q = p1 /\ True).
        { split; [|exact I]. clear - Epr Cw Ek. unfold shift_prepare in Epr. rewrite Cw in Epr.
          destruct (window_size s1 =? 0); [discriminate|]. injection Epr as <-. reflexivity. }
        destruct Hq as [Hq _]. rewrite Hq in *.
        rewrite Qa in *. apply (R6 w Qb Qc). lia.
      - specialize (Q8 ltac:(rewrite Cw; reflexivity)). lia. }
    destruct (stream_body_ok (f_s g) input in1 (f_out g) (f_off g) (conj R2 (conj R3 R4)) Hin G2 C2 ltac:(lia)) as (r & Er & Pr).
    exists r. split; [exact Er|].
    eapply body_to_stream_post; try exact Pr; try fin.
Qed.

(* ------------------------------------------------------------------ finish *)
Lemma append_eof_ok s : InvP s -> last_byte_sanitized s = true -> last_bytes_len s <> 0 ->
  exists s1, append_eof_metablock_to_last_bytes s = Val s1 /\ InvP s1 /\ last_byte_sanitized s1 = false /\
             new_stream_pending s1 = new_stream_pending s /\ window_size s1 = window_size s.
Proof.
  intros [H1 H2 H3 H4 H5 H6 H7 H8 H9] Hs Hl. destruct s as [a0 a1 len san any bo ws pend]. fields. subst san.
  destruct (H7 eq_refl) as [L1 L2]. assert (len = 1) by lia. subst len.
  assert (Hws : ws <> 0) by (intros E; destruct (H6 E); lia).
  unfold append_eof_metablock_to_last_bytes. fields. cbn [negb].
  unfold sub_u, mul_u8, add_u8.
  change (1 <? 1) with false. cbv iota. change (1 - 1) with 0. change (0 * 8) with 0. change (0 <? 256) with true. cbv iota.
  replace (0 + bo <? 256) with true by (symmetry; apply N.ltb_lt; lia). replace (0 + bo) with bo by lia.
  replace (16 <=? bo) with false by (symmetry; apply N.leb_gt; lia).
  fields. replace (bo + 2 <? 256) with true by (symmetry; apply N.ltb_lt; lia).
  assert (Hmod : (bo + 2) mod 8 < 8) by (apply N.mod_lt; discriminate).
  destruct (N.ltb_spec 8 (bo + 2)) as [Hb|Hb].
  - fields. change (1 + 1 <? 256) with true. cbv iota.
    eexists. split; [reflexivity|]. fields. conj; try fin.
    constructor; fields; try fin.
    intros q Hq. apply (NsdP_sanitize ws true false). apply H9. exact Hq.
  - eexists. split; [reflexivity|]. fields. conj; try fin.
    constructor; fields; try fin.
    intros q Hq. apply (NsdP_sanitize ws true false). apply H9. exact Hq.
Qed.

Lemma finish_loop_ok : forall n s out off,
  InvP s -> last_byte_sanitized s = false -> bytes_ok out -> off <= lenN out -> last_bytes_len s <= N.of_nat n ->
  exists f, finish_loop n s out off = Val f /\ InvP (f_s f) /\ last_byte_sanitized (f_s f) = false /\
    new_stream_pending (f_s f) = new_stream_pending s /\ window_size (f_s f) = window_size s /\
    lenN (f_out f) = lenN out /\ bytes_ok (f_out f) /\ off <= f_off f /\ f_off f <= lenN out /\
    ((f_rc f = Success /\ last_bytes_len (f_s f) = 0 /\ (last_bytes_len s = 0 -> any_bytes_emitted (f_s f) = any_bytes_emitted s)) \/
     (f_rc f = NeedsMoreOutput /\ f_off f = lenN out)) /\
    (off < lenN out -> last_bytes_len s <> 0 -> off < f_off f).
Proof.
  induction n as [|n IH]; intros s out off HI Hs Hout Hoff Hn.
  - cbn [finish_loop]. eexists. split; [reflexivity|]. fields. conj; try fin; try (left; conj; fin).
  - cbn [finish_loop]. destruct (N.eqb_spec (last_bytes_len s) 0) as [E0|E0].
    { eexists. split; [reflexivity|]. fields. conj; try fin; try (left; conj; fin). }
    destruct (N.eqb_spec off (lenN out)) as [E1|E1].
    { eexists. split; [reflexivity|]. fields. conj; try fin; try (right; conj; fin). }
    rewrite updN_ok by lia.
    unfold sub_u. replace (last_bytes_len s <? 1) with false by (symmetry; apply N.ltb_ge; lia).
    pose proof HI as [H1 H2 H3 H4 H5 H6 H7 H8 H9].
    set (s' := set_any (set_lbs (set_len s (last_bytes_len s - 1)) (lb1 s) (lb1 s)) true).
    assert (HI' : InvP s').
    { subst s'. destruct s as [a0 a1 len san any bo ws pend]. fields. subst san.
      assert (Hws : ws <> 0) by (intros E; destruct (H6 E); lia).
      constructor; fields; fin. }
    destruct (IH s' (setN out off (lb0 s)) (off + 1) HI') as (f & Ef & F1 & F2 & F3 & F4 & F5 & F6 & F7 & F8 & F9 & F10).
    + subst s'. destruct s; fields. exact Hs.
    + apply bytes_ok_setN; assumption.
    + rewrite lenN_setN by lia. lia.
    + subst s'. destruct s; fields. lia.
    + exists f. split; [exact Ef|].
      rewrite lenN_setN in * by lia.
      assert (Ep : new_stream_pending s' = new_stream_pending s) by (subst s'; destruct s; reflexivity).
      assert (Ew : window_size s' = window_size s) by (subst s'; destruct s; reflexivity).
      conj; try fin.
      destruct F9 as [(A & B & C)|(A & B)]; [left|right]; conj; fin.
Qed.

Lemma finish_loop_empty n s out off : last_bytes_len s = 0 ->
  finish_loop (S n) s out off = Val (mkF s out off Success).
Proof. intros H. cbn [finish_loop]. rewrite H. reflexivity. Qed.

Lemma of_nat_256 : N.of_nat 256 = 256.
Proof. vm_compute. reflexivity. Qed.

Definition finish_post (s : BroCatli) (out : list N) (off : N) (f : fret) : Prop :=
  InvP (f_s f) /\ new_stream_pending (f_s f) = new_stream_pending s /\ window_size (f_s f) = window_size s /\
  off <= f_off f /\ f_off f <= lenN out /\ lenN (f_out f) = lenN out /\ bytes_ok (f_out f) /\
  (f_rc f = Success \/ f_rc f = NeedsMoreOutput) /\
  (f_rc f = NeedsMoreOutput -> f_off f = lenN out) /\
  (off < lenN out -> f_rc f = Success \/ off < f_off f).

Theorem finish_total s out off : InvP s -> bytes_ok out -> off <= lenN out ->
  exists f, finish s out off = Val f /\ finish_post s out off f.
Proof.
  intros HI Hout Hoff. unfold finish.
  assert (Hpre : exists s1, (if last_byte_sanitized s && negb (last_bytes_len s =? 0)
                             then append_eof_metablock_to_last_bytes s else Val s) = Val s1 /\
                 InvP s1 /\ new_stream_pending s1 = new_stream_pending s /\ window_size s1 = window_size s /\
                 (last_byte_sanitized s1 = false \/ last_bytes_len s1 = 0)).
  { destruct (last_byte_sanitized s) eqn:Es; cbn [andb].
    - destruct (N.eqb_spec (last_bytes_len s) 0) as [E0|E0]; cbn [negb].
      + exists s. conj; try fin; try (right; exact E0).
      + destruct (append_eof_ok s HI Es E0) as (s1 & E1 & A & B & C & D).
        exists s1. conj; try fin; try (left; exact B).
    - exists s. conj; try fin; try (left; exact Es). }
  destruct Hpre as (s1 & E1 & HI1 & P1 & W1 & Hc). rewrite E1.
  assert (Hloop : exists f, finish_loop 256 s1 out off = Val f /\ InvP (f_s f) /\
    new_stream_pending (f_s f) = new_stream_pending s1 /\ window_size (f_s f) = window_size s1 /\
    lenN (f_out f) = lenN out /\ bytes_ok (f_out f) /\ off <= f_off f /\ f_off f <= lenN out /\
    (f_rc f = Success \/ (f_rc f = NeedsMoreOutput /\ f_off f = lenN out)) /\
    (off < lenN out -> f_rc f = Success \/ off < f_off f)).
  { destruct Hc as [Hc|Hc].
    - pose proof HI1 as [H1 H2 H3 H4 H5 H6 H7 H8 H9].
      destruct (finish_loop_ok 256 s1 out off HI1 Hc Hout Hoff ltac:(rewrite of_nat_256; lia)) as (f & Ef & F1 & F2 & F3 & F4 & F5 & F6 & F7 & F8 & F9 & F10).
      exists f. conj; try fin.
      + destruct F9 as [(A & _)|(A & B)]; [left; exact A|right; split; assumption].
      + intros Hlt. destruct (N.eq_dec (last_bytes_len s1) 0) as [E0|E0]; [|right; apply F10; assumption].
        destruct F9 as [(A & _)|(A & B)]; [left; exact A|right; lia].
    - (* nothing held back: the loop does not run *)
      exists (mkF s1 out off Success). change 256%nat with (S 255). rewrite (finish_loop_empty 255 s1 out off Hc). fields.
      conj; try fin; try (left; reflexivity). }
  destruct Hloop as (f & Ef & F1 & F3 & F4 & F5 & F6 & F7 & F8 & F9 & F10). rewrite Ef.
  destruct F9 as [F9|[F9 F9']].
  - rewrite F9. destruct (any_bytes_emitted (f_s f)) eqn:Ea; cbn [negb].
    + exists f. split; [reflexivity|]. unfold finish_post. conj; try fin; try (left; exact F9).
    + destruct (N.eqb_spec (lenN (f_out f)) (f_off f)) as [E2|E2].
      * eexists. split; [reflexivity|]. unfold finish_post. fields. conj; try fin; try (right; reflexivity).
      * rewrite updN_ok by lia. eexists. split; [reflexivity|]. unfold finish_post. fields.
        assert (HI2 : InvP (set_any (f_s f) true)) by (apply InvP_set_any; exact F1).
        assert (P2 : new_stream_pending (set_any (f_s f) true) = new_stream_pending s) by (destruct (f_s f); fields; congruence).
        assert (W2 : window_size (set_any (f_s f) true) = window_size s) by (destruct (f_s f); fields; congruence).
        assert (L2 : lenN (setN (f_out f) (f_off f) 59) = lenN out) by (rewrite lenN_setN by lia; exact F5).
        assert (B2 : bytes_ok (setN (f_out f) (f_off f) 59)) by (apply bytes_ok_setN; [exact F6|lia]).
        conj; try fin; try (left; reflexivity).
  - rewrite F9. exists f. split; [reflexivity|]. unfold finish_post. conj; try fin; try (right; exact F9).
Qed.

(* ------------------------------------------------------------------ statements over the boolean invariant *)
Theorem stream_total_inv s input in_off out off :
  Inv s -> Started s -> bytes_ok input -> bytes_ok out -> in_off <= lenN input -> off <= lenN out ->
  match stream s input in_off out off with
  | Panic => False
  | Val r =>
      Inv (r_s r) /\ Started (r_s r) /\
      in_off <= r_in r /\ r_in r <= lenN input /\ off <= r_off r /\ r_off r <= lenN out /\
      lenN (r_out r) = lenN out /\ bytes_ok (r_out r) /\
      r_rc r <> Success /\
      (r_rc r = NeedsMoreInput -> r_in r = lenN input) /\
      (r_rc r = NeedsMoreOutput -> r_off r = lenN out) /\
      (r_rc r = NeedsMoreInput \/ r_rc r = NeedsMoreOutput -> off < lenN out -> in_off < lenN input ->
         in_off < r_in r \/ off < r_off r)
  end.
Proof.
  intros HI HS Hin Hout Hio Hoo. apply Inv_P in HI.
  destruct (stream_total s input in_off out off HI HS Hin Hout Hio Hoo) as (r & Er & Pr). rewrite Er.
  unfold stream_post in Pr. destruct Pr as (A & B). split; [apply Inv_P; exact A|exact B].
Qed.

Theorem finish_total_inv s out off : Inv s -> bytes_ok out -> off <= lenN out ->
  match finish s out off with
  | Panic => False
  | Val f =>
      Inv (f_s f) /\ new_stream_pending (f_s f) = new_stream_pending s /\ window_size (f_s f) = window_size s /\
      off <= f_off f /\ f_off f <= lenN out /\ lenN (f_out f) = lenN out /\ bytes_ok (f_out f) /\
      (f_rc f = Success \/ f_rc f = NeedsMoreOutput) /\
      (f_rc f = NeedsMoreOutput -> f_off f = lenN out) /\
      (off < lenN out -> f_rc f = Success \/ off < f_off f)
  end.
Proof.
  intros HI Hout Hoo. apply Inv_P in HI.
  destruct (finish_total s out off HI Hout Hoo) as (f & Ef & Pf). rewrite Ef.
  unfold finish_post in Pf. destruct Pf as (A & B). split; [apply Inv_P; exact A|exact B].
Qed.

(* the C ABI wrapper on a state that satisfies the invariant is the native operation *)
Lemma ffi_stream_is_native s input out : Inv s ->
  exists st, to_state s = Val st /\
    broccoli_concat_stream st input out =
      match stream s input 0 out 0 with
      | Panic => Panic
      | Val r => match to_state (r_s r) with
                 | Panic => Panic
                 | Val st' => Val (mkC st' (r_in r) (r_out r) (r_off r) (r_rc r))
                 end
      end.
Proof.
  intros HI. destruct (of_to_state_id s HI) as (st & E1 & _ & E2). exists st. split; [exact E1|].
  unfold broccoli_concat_stream. rewrite E2. reflexivity.
Qed.

(* a non-trivial state that satisfies every hypothesis: in the middle of emitting a realigned
   header (3 of 4 bytes still to write), tail bit offset 5 *)
Definition example_state : BroCatli :=
  mkBC 21 0 1 true true 5 22 (Some (mkNSD [1; 2; 3; 4; 0] 4 (Some 1))).
Example example_state_ok :
  Inv example_state /\ Started example_state /\
  match stream example_state [7; 8; 9] 0 [0; 0] 0 with
  | Val r => r_rc r = NeedsMoreOutput /\ r_off r = 2 /\ r_in r = 0
  | Panic => False
  end.
Proof. vm_compute. repeat split; reflexivity. Qed.
