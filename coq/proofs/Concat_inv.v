(* The state invariant of the concatenator as a proposition, its reflection from the boolean
   spec/ConcatSpec.invb, and the per-phase lemmas of `stream` / `finish` that give C16_total,
   C16_finish and C16_reach. *)
From Coq Require Import NArith List Bool Lia Arith PeanoNat.
From V Require Import lib.Words lib.Finite proofs.Bitops model.Concat model.ConcatRun spec.ConcatSpec proofs.Concat_proofs.
Import ListNotations.
Open Scope N_scope.

Definition bytes_ok (l : list N) : Prop := Forall (fun x => x < 256) l.

Record NsdP (ws : N) (san : bool) (p : NewStreamData) : Prop := mkNsdP {
  np_len : lenN (bytes_so_far p) = 5;
  np_bytes : bytes_ok (bytes_so_far p);
  np_read : num_bytes_read p <= 5;
  np_written : forall k, num_bytes_written p = Some k -> k < num_bytes_read p /\ ws <> 0 /\ san = true
}.

Record InvP (s : BroCatli) : Prop := mkInvP {
  i_lb0 : lb0 s < 256;
  i_lb1 : lb1 s < 256;
  i_len : last_bytes_len s <= 2;
  i_bo : last_byte_bit_offset s < 8;
  i_ws : window_size s = 0 \/ (10 <= window_size s /\ window_size s <= 30);
  i_ws0 : window_size s = 0 -> last_bytes_len s = 0 /\ last_byte_bit_offset s = 0;
  i_san : last_byte_sanitized s = true ->
          last_bytes_len s <= 1 /\ (last_bytes_len s = 0 \/ lb0 s < 2 ^ last_byte_bit_offset s);
  i_none : new_stream_pending s = None -> last_byte_sanitized s = false;
  i_pend : forall p, new_stream_pending s = Some p -> NsdP (window_size s) (last_byte_sanitized s) p
}.

Lemma forallb_bytes l : forallb is_byte l = true <-> bytes_ok l.
Proof.
  unfold bytes_ok. rewrite forallb_forall, Forall_forall. unfold is_byte.
  split; intros H x Hx; specialize (H x Hx); [apply N.ltb_lt|apply N.ltb_lt]; exact H.
Qed.

Ltac b2p :=
  repeat match goal with
  | H : _ && _ = true |- _ => apply andb_true_iff in H; destruct H
  | H : _ || _ = true |- _ => apply orb_true_iff in H
  | H : negb _ = true |- _ => apply negb_true_iff in H
  | H : (_ =? _) = true |- _ => apply N.eqb_eq in H
  | H : (_ =? _) = false |- _ => apply N.eqb_neq in H
  | H : (_ <? _) = true |- _ => apply N.ltb_lt in H
  | H : (_ <? _) = false |- _ => apply N.ltb_ge in H
  | H : (_ <=? _) = true |- _ => apply N.leb_le in H
  | H : (_ <=? _) = false |- _ => apply N.leb_gt in H
  | H : is_byte _ = true |- _ => unfold is_byte in H
  end.

Lemma nsd_invb_P ws san p : nsd_invb ws san p = true <-> NsdP ws san p.
Proof.
  unfold nsd_invb. split.
  - intros H. b2p. split; try assumption.
    + apply forallb_bytes. assumption.
    + intros k Hk. rewrite Hk in *. b2p. repeat split; assumption.
  - intros [H1 H2 H3 H4]. apply forallb_bytes in H2.
    rewrite (proj2 (N.eqb_eq _ _) H1), H2, (proj2 (N.leb_le _ _) H3). cbn [andb].
    destruct (num_bytes_written p) as [k|]; [|reflexivity].
    destruct (H4 k eq_refl) as (Ha & Hb & Hc).
    rewrite (proj2 (N.ltb_lt _ _) Ha), (proj2 (N.eqb_neq _ _) Hb), Hc. reflexivity.
Qed.

Lemma Inv_P s : Inv s <-> InvP s.
Proof.
  unfold Inv, invb. split.
  - intros H. b2p.
    split; try assumption.
    + match goal with H : _ \/ _ |- _ => destruct H as [H|H]; b2p; [left|right; split]; assumption end.
    + intros Hw.
      match goal with H : (negb (window_size s =? 0) = true) \/ _ |- _ => destruct H as [H|H]; b2p; [contradiction|split; assumption] end.
    + intros Hs.
      match goal with H : (negb (last_byte_sanitized s) = true) \/ _ |- _ => destruct H as [H|H]; b2p; [congruence|] end.
      split; [assumption|].
      match goal with H : _ \/ _ |- _ => destruct H as [H|H]; b2p; [left|right]; assumption end.
    + intros Hn. rewrite Hn in *. b2p. assumption.
    + intros p Hp. rewrite Hp in *. apply nsd_invb_P. assumption.
  - intros [H1 H2 H3 H4 H5 H6 H7 H8 H9].
    unfold is_byte.
    rewrite (proj2 (N.ltb_lt _ _) H1), (proj2 (N.ltb_lt _ _) H2), (proj2 (N.leb_le _ _) H3), (proj2 (N.ltb_lt _ _) H4).
    cbn [andb].
    assert (E5 : (window_size s =? 0) || (10 <=? window_size s) && (window_size s <=? 30) = true).
    { destruct H5 as [H5|[H5 H5']]; [rewrite (proj2 (N.eqb_eq _ _) H5); reflexivity|].
      rewrite (proj2 (N.leb_le _ _) H5), (proj2 (N.leb_le _ _) H5'). apply orb_true_r. }
    rewrite E5. cbn [andb].
    assert (E6 : negb (window_size s =? 0) || (last_bytes_len s =? 0) && (last_byte_bit_offset s =? 0) = true).
    { destruct (N.eqb_spec (window_size s) 0) as [E|E]; [|reflexivity].
      destruct (H6 E) as [Ha Hb]. rewrite Ha, Hb. reflexivity. }
    rewrite E6. cbn [andb].
    assert (E7 : negb (last_byte_sanitized s) || (last_bytes_len s <=? 1) && ((last_bytes_len s =? 0) || (lb0 s <? 2 ^ last_byte_bit_offset s)) = true).
    { destruct (last_byte_sanitized s) eqn:Es; [|reflexivity].
      destruct (H7 eq_refl) as [Ha Hb]. rewrite (proj2 (N.leb_le _ _) Ha). cbn [negb orb andb].
      destruct Hb as [Hb|Hb]; [rewrite (proj2 (N.eqb_eq _ _) Hb); reflexivity|].
      rewrite (proj2 (N.ltb_lt _ _) Hb). apply orb_true_r. }
    rewrite E7. cbn [andb].
    destruct (new_stream_pending s) as [p|] eqn:Ep.
    + apply nsd_invb_P. apply H9. reflexivity.
    + rewrite (H8 eq_refl). reflexivity.
Qed.

(* ------------------------------------------------------------------ C16_reach *)
Lemma Inv_new : Inv bc_new.
Proof. vm_compute. reflexivity. Qed.

Definition nw_ok (w : N) : bool :=
  match new_with_window_size w with Val s => invb s && negb (window_size s =? 0) | Panic => false end.
Lemma nw_ok_all : all_between nw_ok 10 21 = true.
Proof. vm_compute. reflexivity. Qed.

Lemma Inv_new_with_window_size w : 10 <= w -> w <= 30 ->
  exists s, new_with_window_size w = Val s /\ Inv s /\ Started s.
Proof.
  intros H1 H2. pose proof (all_between_spec _ _ _ nw_ok_all w H1 ltac:(lia)) as H.
  unfold nw_ok in H. destruct (new_with_window_size w) as [s|]; [|discriminate].
  apply andb_true_iff in H. destruct H as [Ha Hb].
  exists s. repeat split; [exact Ha|]. unfold Started, startedb. rewrite Hb. reflexivity.
Qed.

Lemma nsd_new_P ws san : NsdP ws san nsd_new.
Proof.
  split; cbn; [reflexivity| |lia|discriminate].
  repeat constructor.
Qed.

Lemma InvP_new_brotli_file s : InvP s -> InvP (new_brotli_file s) /\ Started (new_brotli_file s).
Proof.
  intros [H1 H2 H3 H4 H5 H6 H7 H8 H9]. destruct s as [a0 a1 len san any bo ws pend].
  unfold new_brotli_file, set_pending. cbn [lb0 lb1 last_bytes_len last_byte_sanitized any_bytes_emitted
    last_byte_bit_offset window_size new_stream_pending] in *.
  split.
  - split; cbn [lb0 lb1 last_bytes_len last_byte_sanitized any_bytes_emitted last_byte_bit_offset window_size new_stream_pending];
      try assumption; [discriminate|].
    intros p Hp. injection Hp as <-. apply nsd_new_P.
  - unfold Started, startedb. cbn. apply orb_true_r.
Qed.

Lemma Inv_new_brotli_file s : Inv s -> Inv (new_brotli_file s) /\ Started (new_brotli_file s).
Proof. intros H. apply Inv_P in H. destruct (InvP_new_brotli_file s H) as [Ha Hb]. split; [apply Inv_P; exact Ha|exact Hb]. Qed.

Lemma Inv_restore s : Inv s -> nat_restore s = Val s.
Proof. exact (nat_restore_id s). Qed.

(* ------------------------------------------------------------------ slices: success conditions *)
Lemma bytes_ok_firstn n l : bytes_ok l -> bytes_ok (firstn n l).
Proof. unfold bytes_ok. revert n. induction l as [|x l IH]; intros n H; destruct n; cbn; try constructor; inversion H; subst; auto. Qed.
Lemma bytes_ok_skipn n l : bytes_ok l -> bytes_ok (skipn n l).
Proof. unfold bytes_ok. revert n. induction l as [|x l IH]; intros n H; destruct n; cbn; auto. inversion H; subst; auto. Qed.
Lemma bytes_ok_takeN n l : bytes_ok l -> bytes_ok (takeN n l).
Proof. apply bytes_ok_firstn. Qed.
Lemma bytes_ok_dropN n l : bytes_ok l -> bytes_ok (dropN n l).
Proof. apply bytes_ok_skipn. Qed.
Lemma bytes_ok_app a b : bytes_ok a -> bytes_ok b -> bytes_ok (a ++ b).
Proof. unfold bytes_ok. intros. apply Forall_app. split; assumption. Qed.
Lemma bytes_ok_cons x l : x < 256 -> bytes_ok l -> bytes_ok (x :: l).
Proof. unfold bytes_ok. intros. constructor; assumption. Qed.
Lemma bytes_ok_setN l i v : bytes_ok l -> v < 256 -> bytes_ok (setN l i v).
Proof. intros H Hv. unfold setN. apply bytes_ok_app; [apply bytes_ok_takeN; exact H|]. apply bytes_ok_cons; [exact Hv|apply bytes_ok_dropN; exact H]. Qed.

Lemma getN_ok l i : i < lenN l -> exists v, getN l i = Val v /\ (bytes_ok l -> v < 256).
Proof.
  intros H. unfold getN. destruct (nth_error l (N.to_nat i)) as [v|] eqn:E.
  - exists v. split; [reflexivity|]. intros Hb. unfold bytes_ok in Hb. rewrite Forall_forall in Hb. apply Hb.
    eapply nth_error_In. exact E.
  - apply nth_error_None in E. apply lt_lenN_nat in H. lia.
Qed.

Lemma getN_byte_at l i : i < lenN l -> getN l i = Val (byte_at l i).
Proof.
  intros H. unfold getN, byte_at. destruct (nth_error l (N.to_nat i)) as [v|] eqn:E.
  - rewrite (nth_error_nth _ _ 0 E). reflexivity.
  - apply nth_error_None in E. apply lt_lenN_nat in H. lia.
Qed.

Lemma updN_ok l i v : i < lenN l -> updN l i v = Val (setN l i v).
Proof. intros H. unfold updN, setN. apply N.ltb_lt in H. rewrite H. reflexivity. Qed.

Lemma subN_ok src off n : off + n <= lenN src ->
  subN src off n = Val (takeN n (dropN off src)) /\ lenN (takeN n (dropN off src)) = n.
Proof.
  intros H. unfold subN. rewrite (proj2 (N.leb_le _ _) H). split; [reflexivity|].
  apply lenN_takeN. rewrite lenN_dropN. lia.
Qed.

Lemma bytes_ok_blit dst off src : bytes_ok dst -> bytes_ok src ->
  bytes_ok (takeN off dst ++ src ++ dropN (off + lenN src) dst).
Proof. intros. apply bytes_ok_app; [apply bytes_ok_takeN; assumption|]. apply bytes_ok_app; [assumption|apply bytes_ok_dropN; assumption]. Qed.

Lemma byte_lor a b : a < 256 -> b < 256 -> N.lor a b < 256.
Proof.
  intros Ha Hb. change 256 with (2 ^ 8).
  destruct (N.eq_dec (N.lor a b) 0) as [E|E]; [rewrite E; reflexivity|].
  apply N.log2_lt_pow2; [lia|]. rewrite N.log2_lor.
  apply N.max_lub_lt.
  - destruct (N.eq_dec a 0) as [->|Ea]; [reflexivity|]. apply N.log2_lt_pow2; [lia|exact Ha].
  - destruct (N.eq_dec b 0) as [->|Eb]; [reflexivity|]. apply N.log2_lt_pow2; [lia|exact Hb].
Qed.

Lemma w8_lt x : w8 x < 256.
Proof. unfold w8. apply N.mod_lt. discriminate. Qed.
Lemma w8_small x : x < 256 -> w8 x = x.
Proof. intros H. unfold w8. apply N.mod_small. exact H. Qed.

(* ------------------------------------------------------------------ phase F: flush_previous_stream *)
Lemma find_high_ok lbs max : max <= 16 -> forall n i index0, i + N.of_nat n = max -> index0 < max ->
  exists ix, find_high n lbs max i index0 = Val ix /\ ix < max.
Proof.
  intros Hmax. induction n as [|n IH]; intros i index0 Hi H0.
  - exists index0. split; [reflexivity|exact H0].
  - cbn [find_high]. cbv zeta.
    assert (Hlt : max - 1 - i < max) by lia.
    replace (16 <=? max - 1 - i) with false by (symmetry; apply N.leb_gt; lia).
    destruct (N.testbit lbs (max - 1 - i)).
    + eexists. split; [reflexivity|exact Hlt].
    + apply IH; [lia|exact Hlt].
Qed.

Ltac fields := cbn [lb0 lb1 last_bytes_len last_byte_sanitized any_bytes_emitted last_byte_bit_offset
                    window_size new_stream_pending set_lbs set_len set_sanitized set_any set_bit_offset
                    set_window set_pending f_s f_out f_off f_rc] in *.

Lemma flush_sanitized s out off : last_byte_sanitized s = true ->
  flush_previous_stream s out off = Val (mkF s out off Success).
Proof. intros H. unfold flush_previous_stream. rewrite H. reflexivity. Qed.

Lemma pow2_div256 x k : 8 <= k -> x < 2 ^ k -> x / 256 < 2 ^ (k - 8).
Proof.
  intros Hk Hx. apply N.div_lt_upper_bound; [discriminate|].
  change 256 with (2 ^ 8). rewrite <- N.pow_add_r. replace (8 + (k - 8)) with k by lia. exact Hx.
Qed.

Ltac fin :=
  first [ assumption | reflexivity | lia | apply w8_lt | discriminate | congruence
        | (intros; first [assumption | lia | discriminate | congruence]) ].
Ltac post8 := split; [|split; [|split; [|split; [|split; [|split; [|split]]]]]].
Ltac pend_goal HP := let q := fresh "q" in let Hq := fresh "Hq" in intros q Hq; injection Hq as <-; exact HP.

Lemma NsdP_sanitize ws san p : NsdP ws san p -> NsdP ws true p.
Proof.
  intros [P1 P2 P3 P4]. split; try assumption.
  intros k Hk. destruct (P4 k Hk) as (A & B & _). repeat split; assumption.
Qed.

Lemma flush_ok s out off : InvP s -> new_stream_pending s <> None -> bytes_ok out -> off <= lenN out ->
  exists f, flush_previous_stream s out off = Val f /\
    lenN (f_out f) = lenN out /\ bytes_ok (f_out f) /\ off <= f_off f /\ f_off f <= lenN out /\
    new_stream_pending (f_s f) = new_stream_pending s /\ window_size (f_s f) = window_size s /\
    (f_rc f = Success -> InvP (f_s f) /\ last_byte_sanitized (f_s f) = true) /\
    (f_rc f <> Success -> f_s f = s /\ f_off f = off /\ f_out f = out /\
       (f_rc f = NeedsMoreOutput -> off = lenN out) /\ f_rc f <> NeedsMoreInput).
Proof.
  intros [H1 H2 H3 H4 H5 H6 H7 H8 H9] Hpend Hout Hoff.
  destruct s as [a0 a1 len san any bo ws pend]. fields.
  destruct pend as [p|]; [|congruence]. clear Hpend H8.
  pose proof (H9 p eq_refl) as HP0. pose proof (NsdP_sanitize _ _ _ HP0) as HP.
  unfold flush_previous_stream. fields.
  destruct san.
  { (* already sanitized *)
    eexists. split; [reflexivity|]. fields. post8; try fin.
    - intros _. split; [|reflexivity]. constructor; fields; try fin; try (pend_goal HP). }
  destruct (N.eqb_spec len 0) as [Hl0|Hl0].
  { (* nothing held back *)
    subst len. eexists. split; [reflexivity|]. fields. post8; try fin.
    - intros _. split; [|reflexivity]. constructor; fields; try fin; try (pend_goal HP).
      all: try solve [intros _; split; [lia|left; reflexivity]]. }
  assert (Hws : ws <> 0) by (intros E; destruct (H6 E) as [E1 _]; contradiction).
  assert (Hlen : len = 1 \/ len = 2) by lia.
  unfold mul_u8. replace (len * 8 <? 256) with true by (symmetry; apply N.ltb_lt; lia).
  set (lbs := a0 + N.shiftl a1 8).
  destruct (find_high_ok lbs (len * 8) ltac:(lia) (N.to_nat (len * 8)) 0 (len * 8 - 1) ltac:(lia) ltac:(lia)) as (ix & Eix & Hix).
  rewrite Eix.
  destruct (N.eqb_spec ix 0) as [Hix0|Hix0].
  { eexists. split; [reflexivity|]. fields. post8; try fin; try (intros _; repeat split; fin). }
  destruct (negb (N.shiftr lbs (ix - 1) =? 3)).
  { eexists. split; [reflexivity|]. fields. post8; try fin; try (intros _; repeat split; fin). }
  set (m := N.land lbs (2 ^ (ix - 1) - 1)).
  assert (Hm : m < 2 ^ (ix - 1)).
  { subst m. rewrite land_ones_mod. apply N.mod_lt. apply N.pow_nonzero. discriminate. }
  destruct (N.leb_spec 8 (ix - 1)) as [Hge|Hlt]; cbn [andb].
  - (* a whole byte has to be written *)
    destruct (N.leb_spec (lenN out) off) as [Hfull|Hroom].
    { eexists. split; [reflexivity|]. fields. post8; try fin; try (intros _; repeat split; fin). }
    assert (Hlen2 : len = 2) by lia. subst len.
    rewrite updN_ok by exact Hroom.
    unfold sub_u. fields. change (2 <? 1) with false. cbv iota.
    replace (ix - 1 - 8 <? 8) with true by (symmetry; apply N.ltb_lt; lia).
    eexists. split; [reflexivity|]. fields.
    assert (Hsan : w8 (N.shiftr m 8) < 2 ^ (ix - 1 - 8)).
    { rewrite N.shiftr_div_pow2. change (2 ^ 8) with 256.
      eapply N.le_lt_trans; [apply N.mod_le; discriminate|]. apply pow2_div256; [lia|exact Hm]. }
    post8; try fin.
    + apply lenN_setN. exact Hroom.
    + apply bytes_ok_setN; [exact Hout|apply w8_lt].
    + intros _. split; [|reflexivity]. constructor; fields; try fin; try (pend_goal HP).
      all: try solve [intros _; split; [lia|right; exact Hsan]].
  - (* the marker and everything above it is dropped in place *)
    eexists. split; [reflexivity|]. fields.
    assert (Hsan : w8 m < 2 ^ (ix - 1)).
    { eapply N.le_lt_trans; [apply N.mod_le; discriminate|exact Hm]. }
    post8; try fin.
    + intros _. split; [|reflexivity]. constructor; fields; try fin; try (pend_goal HP).
      all: try solve [intros _; split; [lia|right; exact Hsan]].
Qed.
