(* C03, a later member: shift_prepare in closed form (the realigned header is the byte expansion of
   partial byte + header bits * 2^offset, followed by the whole look-ahead bytes), and the bit list
   of the resulting output = the bit list spec/ConcatSpec.add_member prescribes. *)
From Coq Require Import NArith ZArith List Bool Lia Arith PeanoNat.
From V Require Import lib.Words lib.Finite proofs.Bitops model.Concat model.ConcatRun spec.ConcatSpec spec.ConcatMarker
  proofs.Concat_proofs proofs.Concat_inv proofs.Concat_run proofs.Concat_findings proofs.Concat_tail proofs.Concat_delay
  proofs.Concat_bitlib proofs.Concat_hdr proofs.Concat_strip proofs.Concat_oneshot proofs.Concat_bits proofs.Concat_member.
Import ListNotations.
Open Scope N_scope.

(* ------------------------------------------------------------------ arithmetic of the byte counts *)
Ltac Zify.zify_post_hook ::= Z.to_euclidean_division_equations.
Lemma vlb_range hlen : 6 <= hlen -> hlen <= 39 -> 1 <= (hlen + 7) / 8 /\ (hlen + 7) / 8 <= 5.
Proof. intros. lia. Qed.
Lemma wbd_le_vlb bo hlen : bo < 8 -> (bo + hlen + 7) / 8 <= (hlen + 7) / 8 + 1.
Proof. intros. lia. Qed.
Lemma wbd_pos bo hlen : 6 <= hlen -> 1 <= (bo + hlen + 7) / 8.
Proof. intros. lia. Qed.
Lemma wbd_le_wbs bo wo hlen : bo < 8 -> 1 <= wo -> (bo + hlen + 7) / 8 <= (wo + hlen + 7) / 8 + 1.
Proof. intros. lia. Qed.
Lemma wbs_pos wo hlen : 6 <= hlen -> 1 <= (wo + hlen + 7) / 8.
Proof. intros. lia. Qed.
Lemma src_fit wo hlen : (wo + hlen + 7) / 8 <= 5 -> wo + hlen <= 40.
Proof. intros. lia. Qed.
Lemma src_cover wo hlen : wo + hlen <= 8 * ((wo + hlen + 7) / 8).
Proof. lia. Qed.
Lemma pad_fill e bo hlen : (bo + hlen) + (8 - (8 * e + bo + hlen) mod 8) mod 8 = 8 * ((bo + hlen + 7) / 8).
Proof. lia. Qed.
Lemma body_mod_5 b k : 40 = b + (2 + k) -> 32 <= b -> b mod 8 <> 7.
Proof. intros. lia. Qed.
Ltac Zify.zify_post_hook ::= idtac.

(* ------------------------------------------------------------------ shift_prepare on a later member *)
Lemma head_tail_take (rh : list N) n : 1 <= n -> n <= lenN rh ->
  [byte_at rh 0] ++ span (dropN 1 rh) 0 (n - 1) = takeN n rh.
Proof.
  intros H1 H2. destruct rh as [|x rh]; [cbn [lenN] in H2; lia|].
  unfold span, takeN, dropN. change (byte_at (x :: rh) 0) with x.
  replace (N.to_nat n) with (S (N.to_nat (n - 1))) by lia.
  replace (n - 1 - 0) with (n - 1) by lia. reflexivity.
Qed.

Lemma shift_prepare_later l0 l1 len any bo ws pend sl out off pw wo hlen :
  ws <> 0 -> bo < 8 -> l0 < 2 ^ bo -> lenN sl = 5 -> bytes_ok sl ->
  parse_window_size sl = Val (Some (pw, wo)) -> pw <= ws -> 1 <= wo ->
  detect_varlen_offset sl = Val (Some (wo + hlen)) -> 6 <= hlen -> (wo + hlen + 7) / 8 <= 5 -> off < lenN out ->
  let s := mkBC l0 l1 len true any bo ws pend in
  let V := l0 + ((le_val sl / 2 ^ wo) mod 2 ^ hlen) * 2 ^ bo in
  let wbd := (bo + hlen + 7) / 8 in
  let wbs := (wo + hlen + 7) / 8 in
  exists rh', lenN rh' = 6 /\ takeN (wbd + (5 - wbs)) rh' = le_bytes (N.to_nat wbd) V ++ dropN wbs sl /\
    shift_prepare s (mkNSD sl 5 None) out off =
      Val (inl (mkP (set_any s true) (mkNSD (dropN 1 rh') (wbd + (5 - wbs) - 1) (Some 0))
                    (setN out off (byte_at rh' 0)) (off + 1))).
Proof.
  intros Hws Hbo Hl0 Hsl Hbsl Hp Hpw Hwo Hd Hh6 Hsrc Hoff s V wbd wbs.
  pose proof (src_fit wo hlen Hsrc) as Hfit.
  assert (Hh39 : hlen <= 39) by lia.
  destruct (vlb_range hlen Hh6 Hh39) as [Hv1 Hv5].
  pose proof (wbd_le_vlb bo hlen Hbo) as Hwv. pose proof (wbd_pos bo hlen Hh6) as Hwp.
  pose proof (wbd_le_wbs bo wo hlen Hbo Hwo) as Hww. pose proof (wbs_pos wo hlen Hh6) as Hsp.
  fold wbd in Hwv, Hwp, Hww. fold wbs in Hsrc, Hww, Hsp.
  set (c := N.land (N.shiftr (le_val sl) wo) (2 ^ hlen - 1)).
  assert (Hc : c = (le_val sl / 2 ^ wo) mod 2 ^ hlen).
  { subst c. rewrite land_ones_mod, N.shiftr_div_pow2. reflexivity. }
  destruct (realign_val c l0 bo (N.to_nat ((hlen + 7) / 8)) Hbo Hl0 ltac:(lia)) as (rh & Erh & Lrh & Prh).
  destruct (copy_whole_val wbd wbs sl (N.to_nat (5 - wbs)) 0 rh ltac:(lia) ltac:(lia)) as (rh' & Ec & Lc & Pc).
  exists rh'. split; [congruence|]. split.
  { apply list_ext_byte_at.
    - rewrite lenN_takeN by lia. rewrite lenN_app, lenN_length, le_bytes_length, lenN_dropN. lia.
    - rewrite lenN_takeN by lia. intros j Hj. rewrite byte_at_takeN by exact Hj. rewrite Pc.
      destruct (N.ltb_spec j wbd) as [Hjw|Hjw].
      + replace ((wbd + 0 <=? j) && (j <? wbd + 0 + N.of_nat (N.to_nat (5 - wbs)))) with false
          by (symmetry; apply andb_false_iff; left; apply N.leb_gt; lia).
        rewrite Prh by lia. rewrite byte_at_app_l by (rewrite lenN_length, le_bytes_length; lia).
        unfold byte_at. rewrite nth_le_bytes by lia. unfold Vb. rewrite N2Nat.id. subst V. rewrite Hc. reflexivity.
      + replace ((wbd + 0 <=? j) && (j <? wbd + 0 + N.of_nat (N.to_nat (5 - wbs)))) with true
          by (symmetry; apply andb_true_iff; split; [apply N.leb_le|apply N.ltb_lt]; lia).
        replace j with (lenN (le_bytes (N.to_nat wbd) V) + (j - wbd)) at 2 by (rewrite lenN_length, le_bytes_length; lia).
        rewrite byte_at_app_r, byte_at_dropN. reflexivity. }
  unfold shift_prepare. cbn [num_bytes_written bytes_so_far num_bytes_read].
  unfold slice_to. rewrite Hsl. change (5 <=? 5) with true. cbv iota.
  rewrite (takeN_all sl 5) by lia. rewrite Hp. subst s. fields.
  replace (ws =? 0) with false by (symmetry; apply N.eqb_neq; exact Hws).
  replace (ws <? pw) with false by (symmetry; apply N.ltb_ge; exact Hpw).
  rewrite Hd, (le_u64_le_val sl Hbsl ltac:(lia)).
  unfold sub_u at 1. replace (wo + hlen <? wo) with false by (symmetry; apply N.ltb_ge; lia).
  replace (wo + hlen - wo) with hlen by lia.
  replace (64 <=? hlen) with false by (symmetry; apply N.leb_gt; lia). cbv zeta.
  fold c. rewrite Erh.
  unfold sub_u at 1. replace (bo + (wo + hlen) <? wo) with false by (symmetry; apply N.ltb_ge; lia).
  replace (bo + (wo + hlen) - wo) with (bo + hlen) by lia. fold wbd. fold wbs.
  replace (5 <? wbs) with false by (symmetry; apply N.ltb_ge; lia).
  unfold sub_u at 1. replace (5 <? wbs) with false by (symmetry; apply N.ltb_ge; lia).
  rewrite Ec. rewrite (getN_byte_at rh' 0) by lia.
  rewrite updN_ok by exact Hoff.
  rewrite (w8_small (wbd + (5 - wbs))) by lia.
  unfold sub_u. replace (wbd + (5 - wbs) <? 1) with false by (symmetry; apply N.ltb_ge; lia).
  reflexivity.
Qed.

(* ------------------------------------------------------------------ the shape of first_header_len *)
Lemma fhl_range h hlen : first_header_len h = Some hlen -> 6 <= hlen /\ hlen <= 30.
Proof.
  destruct h as [|h0 [|h1 [|h2 rest]]]; try (destruct h0; discriminate); try discriminate.
  destruct h0; [discriminate|].
  destruct (h1 && h2) eqn:E12.
  - apply andb_true_iff in E12. destruct E12 as [-> ->].
    destruct rest as [|h3 [|k0 [|k1 r]]]; try (destruct h3; discriminate); try discriminate.
    rewrite fhl_meta. destruct h3; [discriminate|]. intros H. apply Some_inj in H. subst hlen.
    rewrite bits_val_two. destruct k0, k1; cbn [bb]; lia.
  - rewrite (fhl_unc h1 h2 _ E12). destruct (nth _ rest false); [|discriminate].
    intros H. apply Some_inj in H. subst hlen. rewrite bits_val_two.
    destruct h1, h2; cbn [bb andb] in *; try discriminate E12; lia.
Qed.

(* ------------------------------------------------------------------ the bits of the output, per the specification *)
Lemma spec_bits_later E l0 bo m body k wlen hlen :
  bytes_ok E -> bytes_ok m -> 5 <= lenN m -> bo < 8 -> l0 < 2 ^ bo ->
  (k < 8)%nat -> bits_of_bytes m = body ++ [true; true] ++ repeat false k ->
  (wlen + hlen + 7) / 8 <= 5 -> 8 * ((wlen + hlen + 7) / 8) <= N.of_nat (length body) ->
  let src := (wlen + hlen + 7) / 8 in
  let sl := takeN 5 m in
  let B := bits_of_bytes E ++ byte_bits (N.to_nat bo) l0 in
  let hdr := firstn (N.to_nat hlen) (skipn (N.to_nat wlen) body) in
  let mid := B ++ hdr in
  let pad := repeat false (N.to_nat ((8 - N.of_nat (length mid) mod 8) mod 8)) in
  let V := l0 + ((le_val sl / 2 ^ wlen) mod 2 ^ hlen) * 2 ^ bo in
  let wbd := (bo + hlen + 7) / 8 in
  bits_of_bytes (E ++ le_bytes (N.to_nat wbd) V ++ dropN src m) =
    (mid ++ pad ++ skipn (N.to_nat (8 * src)) body) ++ [true; true] ++ repeat false k.
Proof.
  intros HE Hm Hm5 Hbo Hl0 Hk Hbits Hsrc Hbody src sl B hdr mid pad V wbd.
  pose proof (src_cover wlen hlen) as Hcov. fold src in Hcov, Hsrc, Hbody.
  set (T := [true; true] ++ repeat false k) in *.
  assert (Hsl : bytes_ok sl) by (apply bytes_ok_takeN; exact Hm).
  assert (Lsl : length (bits_of_bytes sl) = 40%nat).
  { rewrite bits_of_bytes_length. subst sl. unfold takeN. rewrite firstn_length, Nat.min_l; [reflexivity|].
    rewrite lenN_length in Hm5. lia. }
  assert (Hm_split : bits_of_bytes m = bits_of_bytes sl ++ bits_of_bytes (dropN 5 m)).
  { rewrite <- bits_of_bytes_app. subst sl. rewrite take_drop. reflexivity. }
  assert (Lhdr : length hdr = N.to_nat hlen).
  { subst hdr. rewrite firstn_length, skipn_length. lia. }
  assert (Ehdr : hdr = firstn (N.to_nat hlen) (skipn (N.to_nat wlen) (bits_of_bytes sl))).
  { subst hdr.
    transitivity (firstn (N.to_nat hlen) (skipn (N.to_nat wlen) (body ++ T))).
    - rewrite skipn_app_le by lia. rewrite firstn_app_le by (rewrite skipn_length; lia). reflexivity.
    - rewrite <- Hbits, Hm_split. rewrite skipn_app_le by lia. rewrite firstn_app_le by (rewrite skipn_length; lia). reflexivity. }
  assert (Vhdr : bits_val hdr = (le_val sl / 2 ^ wlen) mod 2 ^ hlen).
  { rewrite Ehdr, bits_val_window, (bits_val_bits_of_bytes sl Hsl), !N2Nat.id. reflexivity. }
  set (X := byte_bits (N.to_nat bo) l0 ++ hdr ++ pad).
  assert (Lmid : N.of_nat (length mid) = 8 * N.of_nat (length E) + bo + hlen).
  { subst mid B. rewrite !app_length, bits_of_bytes_length, byte_bits_length, Lhdr. lia. }
  assert (LX : length X = (8 * N.to_nat wbd)%nat).
  { subst X pad. rewrite !app_length, byte_bits_length, Lhdr, repeat_length, Lmid.
    pose proof (pad_fill (N.of_nat (length E)) bo hlen) as Hp. fold wbd in Hp. lia. }
  assert (VX : bits_val X = V).
  { subst X pad. rewrite !bits_val_app, byte_bits_length, Lhdr, bits_val_repeat_false, !N2Nat.id.
    rewrite byte_bits_small by (rewrite N2Nat.id; exact Hl0). rewrite Vhdr. subst V. lia. }
  assert (EX : bits_of_bytes (le_bytes (N.to_nat wbd) V) = X).
  { rewrite <- VX, <- (pack_le _ X LX). apply (bits_pack _ X LX). }
  assert (Edrop : bits_of_bytes (dropN src m) = skipn (N.to_nat (8 * src)) body ++ T).
  { unfold dropN. rewrite <- skipn_bits_of_bytes, Hbits.
    replace (8 * N.to_nat src)%nat with (N.to_nat (8 * src)) by lia.
    apply skipn_app_le. lia. }
  rewrite !bits_of_bytes_app, EX, Edrop. subst X mid B. rewrite <- !app_assoc. reflexivity.
Qed.

(* ------------------------------------------------------------------ a later member through `stream` *)
Lemma takeN6_split (m : list N) : takeN 6 m = takeN 5 m ++ takeN 1 (dropN 5 m).
Proof. unfold takeN, dropN. change (N.to_nat 6) with (5 + 1)%nat. apply firstn_add_own. Qed.

Lemma dropN_take5 (m : list N) n : n <= 5 -> 5 <= lenN m -> dropN n (takeN 5 m) ++ dropN 5 m = dropN n m.
Proof.
  intros Hn Hm. rewrite <- (take_drop m 5) at 3. unfold dropN at 3. rewrite skipn_app_le.
  - reflexivity.
  - unfold takeN. rewrite firstn_length. rewrite lenN_length in Hm. lia.
Qed.

Lemma later_member l0 l1 any bo ws pend E w' B' m out :
  san_ok l0 l1 bo = true -> 10 <= ws -> ws <= 30 -> bytes_ok E -> bytes_ok m -> 5 <= lenN m ->
  add_member (Some (ws, bits_of_bytes E ++ byte_bits (N.to_nat bo) l0)) m = Some (Some (w', B')) ->
  member_marker_ok true m = true ->
  bytes_ok out -> takeN (lenN E) out = E -> lenN E + lenN m + 8 <= lenN out ->
  exists r, after_flush (mkBC l0 l1 1 true any bo ws pend) m out (lenN E) = Val r /\
    r_rc r = NeedsMoreInput /\ lenN (r_out r) = lenN out /\ bytes_ok (r_out r) /\ r_off r <= lenN out /\
    w' = ws /\
    strip_end_marker (bits_of_bytes (takeN (r_off r) (r_out r) ++ held (r_s r))) = Some B' /\
    window_size (r_s r) = ws /\ last_byte_sanitized (r_s r) = false /\
    lb0 (r_s r) < 256 /\ lb1 (r_s r) < 256 /\
    (last_bytes_len (r_s r) = 2 \/ (last_bytes_len (r_s r) = 1 /\ lb1 (r_s r) = 0 /\ N.of_nat (length B') mod 8 <> 7)).
Proof.
  intros Hok W1 W2 HE Hm Hm5 Hadd Hmark Hout HEo Hroom.
  destruct (san_ok_P _ _ _ Hok) as (Hl0 & Hbo & _).
  (* what the specification computed *)
  unfold add_member in Hadd. unfold member_marker_ok in Hmark. unfold LOOKAHEAD in *.
  replace (lenN m <? 5) with false in * by (symmetry; apply N.ltb_ge; exact Hm5).
  destruct (rfc_wbits (byte_at m 0 + 256 * byte_at m 1)) as [[lgwin wlen]|] eqn:Hrfc; [|discriminate].
  destruct (strip_end_marker (bits_of_bytes m)) as [body|] eqn:Hstrip; [|discriminate].
  destruct (N.ltb_spec ws lgwin) as [Hgt|Hle]; [discriminate|].
  destruct (first_header_len (skipn (N.to_nat wlen) (bits_of_bytes (takeN 6 m)))) as [hlen|] eqn:Hfhl; [|discriminate].
  cbv zeta in Hadd, Hmark.
  destruct (N.ltb_spec 5 ((wlen + hlen + 7) / 8)) as [Hbig|Hsrc]; [discriminate|].
  apply Some_inj in Hadd. apply Some_inj in Hadd. injection Hadd as Hw' HB'.
  apply N.leb_le in Hmark.
  set (src := (wlen + hlen + 7) / 8) in *.
  destruct (strip_some _ _ Hstrip) as (k & Hk & Hbits).
  (* the look-ahead *)
  assert (Hsl : bytes_ok (takeN 5 m)) by (apply bytes_ok_takeN; exact Hm).
  assert (Lsl : lenN (takeN 5 m) = 5) by (apply lenN_takeN; exact Hm5).
  assert (Hp : parse_window_size (takeN 5 m) = Val (Some (lgwin, wlen))).
  { destruct m as [|b0 [|b1 [|b2 [|b3 [|b4 rest]]]]]; cbn [lenN] in Hm5; try lia.
    change (takeN 5 (b0 :: b1 :: b2 :: b3 :: b4 :: rest)) with [b0; b1; b2; b3; b4] in *.
    inversion Hsl as [|? ? Hb0 Hr]; inversion Hr as [|? ? Hb1 _]; subst.
    rewrite parse_window_size_rfc by assumption.
    change (byte_at (b0 :: b1 :: b2 :: b3 :: b4 :: rest) 0) with b0 in Hrfc.
    change (byte_at (b0 :: b1 :: b2 :: b3 :: b4 :: rest) 1) with b1 in Hrfc. rewrite Hrfc. reflexivity. }
  assert (Hwo : wlen = 1 \/ wlen = 4 \/ wlen = 7 \/ wlen = 14).
  { destruct (parse_window_size_cases (takeN 5 m) ltac:(lia)) as [Ep|(pw & wo & Ep & _ & _ & R)]; rewrite Hp in Ep; [discriminate|].
    injection Ep as <- <-. exact R. }
  set (h := skipn (N.to_nat wlen) (bits_of_bytes (takeN 5 m))).
  assert (Lbsl : length (bits_of_bytes (takeN 5 m)) = 40%nat).
  { rewrite bits_of_bytes_length. rewrite lenN_length in Lsl. lia. }
  assert (Lh : length h = (40 - N.to_nat wlen)%nat) by (subst h; rewrite skipn_length, Lbsl; reflexivity).
  assert (Hfhl' : first_header_len (h ++ bits_of_bytes (takeN 1 (dropN 5 m))) = Some hlen).
  { rewrite <- Hfhl, takeN6_split, bits_of_bytes_app. subst h. rewrite skipn_app_le by lia. reflexivity. }
  destruct (fhl_range _ _ Hfhl') as (Hh6 & Hh30).
  pose proof (src_fit wlen hlen Hsrc) as Hfit.
  assert (Hd : detect_varlen_offset (takeN 5 m) = Val (Some (wlen + hlen))).
  { apply (detect_on_bits (takeN 5 m) lgwin wlen h (bits_of_bytes (takeN 1 (dropN 5 m))) hlen Hsl ltac:(lia) Hp eq_refl ltac:(lia) Hfhl').
    lia. }
  (* the model *)
  unfold after_flush. rewrite collect_full by exact Hm5.
  change (negb (sufficient (mkNSD (takeN 5 m) 5 None))) with false. cbv iota.
  replace (lenN out =? lenN E) with false by (symmetry; apply N.eqb_neq; lia).
  unfold shift_and_check_new_stream_header, set_pending. fields.
  destruct (shift_prepare_later l0 l1 1 any bo ws (Some (mkNSD (takeN 5 m) 5 None)) (takeN 5 m) out (lenN E) lgwin wlen hlen
              ltac:(lia) Hbo Hl0 Lsl Hsl Hp Hle ltac:(lia) Hd Hh6 Hsrc ltac:(lia)) as (rh' & Lrh & Etake & Eprep).
  cbv zeta in Eprep, Etake. rewrite Eprep. cbn [p_s p_nsp p_out p_off].
  set (wbd := (bo + hlen + 7) / 8) in *. fold src in Etake.
  set (V := l0 + (le_val (takeN 5 m) / 2 ^ wlen) mod 2 ^ hlen * 2 ^ bo) in *.
  pose proof (wbd_pos bo hlen Hh6) as Hwp. pose proof (wbd_le_wbs bo wlen hlen Hbo ltac:(lia)) as Hww.
  pose proof (wbs_pos wlen hlen Hh6) as Hsp. fold wbd in Hwp, Hww. fold src in Hww, Hsp.
  set (n := wbd + (5 - src)) in *.
  change (setN out (lenN E) (byte_at rh' 0)) with (blit out (lenN E) [byte_at rh' 0]).
  assert (HW : [byte_at rh' 0] ++ span (dropN 1 rh') 0 (n - 1) = le_bytes (N.to_nat wbd) V ++ dropN src (takeN 5 m)).
  { rewrite head_tail_take by (subst n; lia). exact Etake. }
  assert (HWok : bytes_ok ([byte_at rh' 0] ++ span (dropN 1 rh') 0 (n - 1))).
  { rewrite HW. apply bytes_ok_app; [apply bytes_ok_le_bytes|apply bytes_ok_dropN; exact Hsl]. }
  destruct (emit_body (set_any (mkBC l0 l1 1 true any bo ws (Some (mkNSD (takeN 5 m) 5 None))) true)
              (dropN 1 rh') (n - 1) 0 out (lenN E) [byte_at rh' 0] m)
    as (r & Er & R1 & R2 & R3 & R4 & R5 & R6 & R7 & R8 & R9 & R10);
    try (fields; lia); try assumption; try reflexivity.
  { rewrite lenN_dropN. lia. }
  exists r. split; [exact Er|].
  split; [exact R1|]. split; [exact R2|]. split; [exact R3|]. split; [exact R4|]. split; [symmetry; exact Hw'|].
  assert (Ebits : bits_of_bytes (takeN (r_off r) (r_out r) ++ held (r_s r)) = B' ++ [true; true] ++ repeat false k).
  { rewrite R5, HEo, HW, <- app_assoc, dropN_take5 by lia.
    rewrite <- HB'. apply (spec_bits_later E l0 bo m body k wlen hlen); try assumption. fold src. lia. }
  split; [rewrite Ebits; apply strip_intro; exact Hk|].
  split; [exact R6|]. split; [exact R7|]. split; [exact R8|]. split; [exact R9|].
  destruct R10 as [R10|(Rm & Rl & Rb)]; [left; exact R10|right]. split; [exact Rl|]. split; [exact Rb|].
  (* a five-byte member: its marker does not straddle, so neither does the output's *)
  assert (Lb : (40 = length body + (2 + k))%nat).
  { apply (f_equal (@length bool)) in Hbits. rewrite bits_of_bytes_length, !app_length, repeat_length in Hbits.
    cbn [length] in Hbits. rewrite lenN_length in Rm. lia. }
  assert (LB' : exists q, (length B' + (2 + k) = 8 * q)%nat).
  { exists (length (takeN (r_off r) (r_out r) ++ held (r_s r))).
    apply (f_equal (@length bool)) in Ebits. rewrite bits_of_bytes_length, !app_length, repeat_length in Ebits.
    cbn [length] in Ebits. rewrite app_length. lia. }
  destruct LB' as (q & Hq).
  assert (Hk6 : (k <= 6)%nat) by lia.
  clear - Hq Hk6. intros Hmod.
  assert (Hx : (N.of_nat (length B') + N.of_nat (2 + k)) mod 8 = 0).
  { replace (N.of_nat (length B') + N.of_nat (2 + k)) with (N.of_nat q * 8) by lia. apply N.mod_mul. discriminate. }
  rewrite N.add_mod, Hmod in Hx by discriminate.
  assert (Hc : (k = 0 \/ k = 1 \/ k = 2 \/ k = 3 \/ k = 4 \/ k = 5 \/ k = 6)%nat) by lia.
  destruct Hc as [->|[->|[->|[->|[->|[->| ->]]]]]]; vm_compute in Hx; discriminate.
Qed.
