(* Length consequence of the bit-level concatenation specification (spec/ConcatSpec.concat_spec) for
   parts of the shape CompressMulti's workers produce: 14-bit window field and the 20-bit header of
   the stored two-byte catable block.  Every seam saves at least 15 bits: the later part loses the
   40 source bits of window field + first header and regains at most 20 header bits and 7 padding
   bits; the earlier part loses its 2-bit end marker (and the padding after it).  Used by C08. *)
From Coq Require Import NArith List Bool Lia Arith PeanoNat.
From V Require Import lib.Words model.Concat spec.ConcatSpec.
Import ListNotations.

Lemma lenN_length (l : list N) : lenN l = N.of_nat (length l).
Proof. induction l as [|x t IH]; [reflexivity|]. cbn [lenN length]. rewrite IH, Nat2N.inj_succ. reflexivity. Qed.

Lemma byte_bits_len n : forall b, length (byte_bits n b) = n.
Proof. induction n as [|n IH]; intros b; [reflexivity|]. cbn [byte_bits length]. rewrite IH. reflexivity. Qed.

Lemma bits_of_bytes_len l : length (bits_of_bytes l) = (8 * length l)%nat.
Proof.
  induction l as [|x t IH]; [reflexivity|]. cbn [bits_of_bytes]. rewrite app_length, byte_bits_len, IH.
  cbn [length]. lia.
Qed.

Lemma bytes_of_bits_nil' f : bytes_of_bits f [] = [].
Proof. destruct f; reflexivity. Qed.

Lemma bytes_of_bits_len f : forall l, (8 * length (bytes_of_bits f l) <= length l + 7)%nat.
Proof.
  induction f as [|f IH]; intros l; [cbn; lia|].
  destruct l as [|b t]; [cbn; lia|].
  change (bytes_of_bits (S f) (b :: t)) with (bits_val (firstn 8 (b :: t)) :: bytes_of_bits f (skipn 8 (b :: t))).
  cbn [length]. specialize (IH (skipn 8 (b :: t))). rewrite skipn_length in IH. cbn [length] in IH.
  destruct (le_lt_dec 8 (S (length t))) as [Hge|Hlt].
  - lia.
  - assert (E : skipn 8 (b :: t) = []).
    { apply skipn_all2. cbn [length]. lia. }
    rewrite E, bytes_of_bits_nil'. cbn [length]. lia.
Qed.

Lemma pack_len l : (8 * length (pack l) <= length l + 7)%nat.
Proof. unfold pack. apply bytes_of_bits_len. Qed.

Lemma strip_zeros_len r : (length (strip_zeros r) <= length r)%nat.
Proof. induction r as [|b t IH]; [cbn; lia|]. destruct b; cbn [strip_zeros length]; lia. Qed.

Lemma strip_end_marker_len bits body : strip_end_marker bits = Some body -> (length body + 2 <= length bits)%nat.
Proof.
  unfold strip_end_marker. rewrite rev_append_rev, app_nil_r.
  destruct (rev bits) as [|b r] eqn:E; [discriminate|].
  destruct (negb (existsb (fun b0 : bool => b0) (firstn 8 (b :: r)))); [discriminate|].
  pose proof (strip_zeros_len (b :: r)) as Hz.
  destruct (strip_zeros (b :: r)) as [|[|] [|[|] t]]; try discriminate.
  intros H. injection H as <-. rewrite rev_append_rev, app_nil_r, rev_length.
  assert (length (rev bits) = length (b :: r)) by (rewrite E; reflexivity).
  rewrite rev_length in H. cbn [length] in *. lia.
Qed.

(* a later part as CompressMulti's workers write it: window field of wl bits (1, 4, 7, or 14 in
   the large-window form) and the 20-bit header of the stored two-byte catable block *)
Definition wl_ok (wl : N) : Prop := wl = 1%N \/ wl = 4%N \/ wl = 7%N \/ wl = 14%N.
Definition src_bytes (wl : N) : nat := N.to_nat ((wl + 27) / 8).
Definition catable_part (wl : N) (m : list N) : Prop :=
  (6 <= length m)%nat
  /\ (exists lg, rfc_wbits (byte_at m 0 + 256 * byte_at m 1) = Some (lg, wl))
  /\ first_header_len (skipn (N.to_nat wl) (bits_of_bytes (takeN 6 m))) = Some 20%N.

(* one seam: the later part loses its 8 * src_bytes source bits of window field + header and
   regains at most 20 header bits and 7 padding bits; 2 bits of end marker go as well *)
Lemma add_member_len wl w prev m r : wl_ok wl -> catable_part wl m ->
  add_member (Some (w, prev)) m = Some r ->
  exists w' new, r = Some (w', new) /\ (length new + 8 * src_bytes wl <= length prev + 8 * length m + 25)%nat.
Proof.
  intros Hwl (Hlen & (lg & Hw) & Hh). unfold add_member.
  assert (Hl : (lenN m <? LOOKAHEAD)%N = false).
  { apply N.ltb_ge. rewrite lenN_length. unfold LOOKAHEAD. lia. }
  rewrite Hl, Hw.
  destruct (strip_end_marker (bits_of_bytes m)) as [body|] eqn:Es; [|discriminate].
  apply strip_end_marker_len in Es. rewrite bits_of_bytes_len in Es.
  destruct (w <? lg)%N; [discriminate|].
  rewrite Hh. clear Hw Hh.
  assert (Hsrc : ((wl + 20 + 7) / 8 = N.of_nat (src_bytes wl) /\ (src_bytes wl <= 5)%nat /\ (LOOKAHEAD <? (wl + 20 + 7) / 8) = false)%N).
  { destruct Hwl as [->|[->|[->| ->]]]; vm_compute; repeat split; reflexivity || lia. }
  destruct Hsrc as (Hs1 & Hs2 & Hs3). rewrite Hs3. cbv beta zeta. rewrite Hs1.
  replace (N.to_nat (8 * N.of_nat (src_bytes wl))) with (8 * src_bytes wl)%nat by lia.
  remember (src_bytes wl) as sb eqn:Esb. clear Esb Hs1 Hs3.
  change (N.to_nat 20) with 20%nat.
  assert (Hhdr : (length (firstn 20 (skipn (N.to_nat wl) body)) <= 20)%nat) by apply firstn_le_length.
  assert (Htl : length (skipn (8 * sb) body) = (length body - 8 * sb)%nat) by apply skipn_length.
  remember (firstn 20 (skipn (N.to_nat wl) body)) as hdr eqn:Ehdr. remember (skipn (8 * sb) body) as tl eqn:Etl.
  clear Ehdr Etl.
  remember (N.to_nat ((8 - N.of_nat (length (prev ++ hdr)) mod 8) mod 8)) as pad eqn:Epad.
  assert (Hp : (pad < 8)%nat).
  { assert ((8 - N.of_nat (length (prev ++ hdr)) mod 8) mod 8 < 8)%N by (apply N.mod_lt; discriminate). lia. }
  clear Epad.
  intros H. injection H as <-. eexists; eexists; split; [reflexivity|].
  rewrite !app_length, repeat_length. lia.
Qed.

Fixpoint sum_length (ms : list (list N)) : nat :=
  match ms with [] => 0%nat | m :: t => (length m + sum_length t)%nat end.

Lemma add_members_len wl : wl_ok wl -> forall rest w prev res, Forall (catable_part wl) rest ->
  add_members (Some (w, prev)) rest = Some res ->
  exists w' bits, res = Some (w', bits)
    /\ (length bits + 8 * src_bytes wl * length rest <= length prev + 8 * sum_length rest + 25 * length rest)%nat.
Proof.
  intros Hwl. induction rest as [|m t IH]; intros w prev res Hall H.
  - cbn [add_members] in H. injection H as <-. eexists; eexists; split; [reflexivity|]. cbn. lia.
  - inversion Hall as [|m' t' Hm Ht E1]; subst.
    cbn [add_members] in H. destruct (add_member (Some (w, prev)) m) as [r|] eqn:Em; [|discriminate].
    destruct (add_member_len wl w prev m r Hwl Hm Em) as (w1 & new & -> & Hn).
    destruct (IH w1 new res Ht H) as (w2 & bits & -> & Hb).
    eexists; eexists; split; [reflexivity|]. cbn [length sum_length].
    remember (src_bytes wl) as sb. lia.
Qed.

(* the first part: any stream of at least 5 bytes whose window field parses *)
Lemma first_member_len m r : (5 <= length m)%nat -> add_member None m = Some r ->
  exists w bits, r = Some (w, bits) /\ (length bits + 2 <= 8 * length m)%nat.
Proof.
  intros Hlen. unfold add_member.
  assert (Hl : (lenN m <? LOOKAHEAD)%N = false).
  { apply N.ltb_ge. rewrite lenN_length. unfold LOOKAHEAD. lia. }
  rewrite Hl. destruct (rfc_wbits (byte_at m 0 + 256 * byte_at m 1)) as [[lgwin wlen]|]; [|discriminate].
  destruct (strip_end_marker (bits_of_bytes m)) as [body|] eqn:Es; [|discriminate].
  apply strip_end_marker_len in Es. rewrite bits_of_bytes_len in Es.
  intros H. injection H as <-. eexists; eexists; split; [reflexivity|]. exact Es.
Qed.

Theorem concat_len_catable wl m0 rest expected : wl_ok wl ->
  (5 <= length m0)%nat -> Forall (catable_part wl) rest ->
  concat_spec None (m0 :: rest) = Some expected ->
  (8 * length expected + 8 * src_bytes wl * length rest <= 8 * sum_length (m0 :: rest) + 25 * length rest + 7)%nat.
Proof.
  intros Hwl H0 Hall. unfold concat_spec. cbn [add_members].
  destruct (add_member None m0) as [r|] eqn:E0; [|discriminate].
  destruct (first_member_len m0 r H0 E0) as (w & bits0 & -> & Hb0).
  destruct (add_members (Some (w, bits0)) rest) as [res|] eqn:Er; [|discriminate].
  destruct (add_members_len wl Hwl rest w bits0 res Hall Er) as (w' & bits & -> & Hb).
  intros H. injection H as <-.
  pose proof (pack_len (bits ++ [true; true])) as Hp. rewrite app_length in Hp. cbn [length] in Hp.
  cbn [sum_length]. remember (src_bytes wl) as sb. lia.
Qed.

(* non-vacuity: hand-made worker streams (window field for lgwin 22 in the 14-bit form / the 4-bit
   form, stored two-byte block "hi", end marker) are catable parts; two and three of the first
   stitch to 13 and 18 bytes (16 and 24 before) *)
Example catable_part_point :
  let m := [17; 22; 2; 0; 2; 104; 105; 3]%N in
  catable_part 14 m
  /\ concat_spec None [m; m] = Some [17; 22; 2; 0; 2; 104; 105; 8; 0; 8; 104; 105; 3]%N
  /\ concat_spec None [m; m; m] = Some [17; 22; 2; 0; 2; 104; 105; 8; 0; 8; 104; 105; 8; 0; 8; 104; 105; 3]%N.
Proof.
  cbv zeta. split; [|split; vm_compute; reflexivity].
  unfold catable_part. split; [cbn; lia|]. split; [exists 22%N|]; vm_compute; reflexivity.
Qed.

Example catable_part_point_4bit :
  let m := [139; 0; 128; 104; 105; 3]%N in
  catable_part 4 m /\ src_bytes 4 = 3%nat
  /\ concat_spec None [m; m] = Some [139; 0; 128; 104; 105; 8; 0; 8; 104; 105; 3]%N.
Proof.
  cbv zeta. split; [|split; vm_compute; reflexivity].
  unfold catable_part. split; [cbn; lia|]. split; [exists 22%N|]; vm_compute; reflexivity.
Qed.

(* boolean form, evaluated by the C08 check on the first bytes of real catable streams *)
Definition catable_partb (wl : N) (m : list N) : bool :=
  (6 <=? length m)%nat
  && match rfc_wbits (byte_at m 0 + 256 * byte_at m 1) with Some (_, wl') => (wl' =? wl)%N | None => false end
  && match first_header_len (skipn (N.to_nat wl) (bits_of_bytes (takeN 6 m))) with Some h => (h =? 20)%N | None => false end.

Lemma catable_partb_sound wl m : catable_partb wl m = true -> catable_part wl m.
Proof.
  unfold catable_partb, catable_part. intros H.
  apply andb_true_iff in H. destruct H as [H H3]. apply andb_true_iff in H. destruct H as [H1 H2].
  split; [apply Nat.leb_le; exact H1|]. split.
  - destruct (rfc_wbits (byte_at m 0 + 256 * byte_at m 1)) as [[lg wl']|]; [|discriminate].
    apply N.eqb_eq in H2. subst wl'. exists lg. reflexivity.
  - destruct (first_header_len (skipn (N.to_nat wl) (bits_of_bytes (takeN 6 m)))) as [h|]; [|discriminate].
    apply N.eqb_eq in H3. subst h. reflexivity.
Qed.
