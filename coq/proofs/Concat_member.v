(* C03, one member in the one-shot regime: `stream` after the flush, for a member shorter than the
   look-ahead, for the member that supplies the window, and for a later member whose first
   meta-block header is shifted behind the previous member's last data bit. *)
From Coq Require Import NArith ZArith List Bool Lia Arith PeanoNat.
From V Require Import lib.Words lib.Finite proofs.Bitops model.Concat model.ConcatRun spec.ConcatSpec spec.ConcatMarker
  proofs.Concat_proofs proofs.Concat_inv proofs.Concat_run proofs.Concat_findings proofs.Concat_tail proofs.Concat_delay
  proofs.Concat_bitlib proofs.Concat_hdr proofs.Concat_strip proofs.Concat_oneshot proofs.Concat_bits.
Import ListNotations.
Open Scope N_scope.

(* ------------------------------------------------------------------ `stream` cut at the flush *)
Definition after_shift (g : fret) (m : list N) (in1 : N) : res sret :=
  match f_rc g with
  | Success =>
    if f_off g =? lenN (f_out g) then Val (mkS (f_s g) in1 (f_out g) (f_off g) NeedsMoreOutput)
    else stream_body (f_s g) m in1 (f_out g) (f_off g)
  | rc => Val (mkS (f_s g) in1 (f_out g) (f_off g) rc)
  end.

Definition after_flush (s1 : BroCatli) (m : list N) (out : list N) (off : N) : res sret :=
  match collect_header s1 nsd_new m 0 with
  | Panic => Panic
  | Val (s2, p1, in1) =>
    if negb (sufficient p1) then Val (mkS s2 in1 out off NeedsMoreInput) else
    if lenN out =? off then Val (mkS s2 in1 out off NeedsMoreOutput) else
    match shift_and_check_new_stream_header s2 p1 out off with
    | Panic => Panic
    | Val g => after_shift g m in1
    end
  end.

Lemma stream_after_flush s m out off s1 out1 off1 :
  new_stream_pending s = Some nsd_new ->
  flush_previous_stream s out off = Val (mkF s1 out1 off1 Success) ->
  stream s m 0 out off = after_flush s1 m out1 off1.
Proof.
  intros Hp Hf. unfold stream. rewrite Hp, Hf. cbn [f_rc f_s f_out f_off nsd_new num_bytes_written is_none andb].
  reflexivity.
Qed.

(* ------------------------------------------------------------------ a member shorter than the look-ahead *)
Lemma after_flush_short s1 m out off : lenN m < 5 ->
  exists p1, after_flush s1 m out off = Val (mkS (set_pending s1 (Some p1)) (lenN m) out off NeedsMoreInput).
Proof.
  intros Hm. destruct (collect_short s1 m Hm) as (p1 & Ec & Er & Ew).
  exists p1. unfold after_flush. rewrite Ec. unfold sufficient, NUM_STREAM_HEADER_BYTES. rewrite Er.
  replace (lenN m =? 5) with false by (symmetry; apply N.eqb_neq; lia). reflexivity.
Qed.

(* ------------------------------------------------------------------ header emission followed by the body *)
Lemma emit_body s3 bsf nr w out off H m :
  lenN bsf = 5 -> w <= nr -> nr <= 5 -> lenN H = 1 -> bytes_ok (H ++ span bsf w nr) ->
  10 <= window_size s3 -> window_size s3 <= 30 ->
  bytes_ok m -> 5 <= lenN m -> bytes_ok out -> off + 1 + (nr - w) + (lenN m - 5) + 2 <= lenN out ->
  exists r,
    match shift_emit s3 (mkNSD bsf nr (Some w)) (blit out off H) (off + 1) with
    | Panic => Panic
    | Val g => after_shift g m 5
    end = Val r /\
    r_rc r = NeedsMoreInput /\ lenN (r_out r) = lenN out /\ bytes_ok (r_out r) /\ r_off r <= lenN out /\
    takeN (r_off r) (r_out r) ++ held (r_s r) = takeN off out ++ (H ++ span bsf w nr) ++ dropN 5 m /\
    window_size (r_s r) = window_size s3 /\ last_byte_sanitized (r_s r) = false /\
    lb0 (r_s r) < 256 /\ lb1 (r_s r) < 256 /\
    (last_bytes_len (r_s r) = 2 \/ (lenN m = 5 /\ last_bytes_len (r_s r) = 1 /\ lb1 (r_s r) = 0)).
Proof.
  intros Hl Hw Hnr HH HW W1 W2 Hm Hm5 Hout Hroom.
  set (G := span bsf w nr) in *. set (W := H ++ G) in *.
  assert (LG : lenN G = nr - w) by (subst G; unfold span; apply lenN_takeN; rewrite lenN_dropN; lia).
  assert (LW : lenN W = 1 + (nr - w)) by (subst W; rewrite lenN_app, HH, LG; reflexivity).
  assert (L1 : lenN (blit out off H) = lenN out) by (apply blit_len; lia).
  destruct (shift_emit_ample s3 bsf nr w (blit out off H) (off + 1) Hl Hw Hnr ltac:(lia) ltac:(lia)) as (any' & Eg & _).
  rewrite Eg. fold G.
  assert (E2 : blit (blit out off H) (off + 1) G = blit out off W).
  { rewrite <- HH. apply blit_blit. lia. }
  rewrite E2.
  assert (L2 : lenN (blit out off W) = lenN out) by (apply blit_len; lia).
  replace (off + 1 + (nr - w) - 1) with (off + (lenN W - 1)) by lia.
  rewrite byte_at_blit by lia.
  set (b := byte_at W (lenN W - 1)).
  assert (Hb : b < 256) by (subst b; apply byte_at_lt; exact HW).
  unfold after_shift. cbn [f_rc f_s f_out f_off].
  replace (off + (lenN W - 1) =? lenN (blit out off W)) with false by (symmetry; apply N.eqb_neq; lia).
  set (sg := mkBC b 0 1 false any' 0 (window_size s3) None).
  assert (HB : BI sg).
  { split; [apply InvP_after_emit; assumption|]. split; [reflexivity|]. subst sg. fields. lia. }
  assert (Hout2 : bytes_ok (blit out off W)) by (apply bytes_ok_blit; assumption).
  destruct (stream_body_one sg m 5 (blit out off W) (off + (lenN W - 1)) HB eq_refl Hm Hout2 Hm5 ltac:(lia))
    as (r & Er & Rrc & RL & RB & RO1 & RO2 & RE & RBI & RW & RLen).
  exists r. split; [exact Er|]. split; [exact Rrc|]. split; [congruence|]. split; [exact RB|]. split; [lia|].
  pose proof RBI as (RI & Rn & _). pose proof RI as [I1 I2 _ _ _ _ _ I8 _].
  split.
  { rewrite RE. rewrite takeN_blit_part by lia. subst sg. fields.
    rewrite <- !app_assoc. f_equal. rewrite app_assoc. f_equal. symmetry. apply last_split. lia. }
  split; [exact RW|]. split; [apply I8; exact Rn|]. split; [exact I1|]. split; [exact I2|].
  destruct RLen as [RLen|(RLen & Rs)]; [left; exact RLen|right].
  rewrite Rs. subst sg. fields. repeat split; lia.
Qed.

(* ------------------------------------------------------------------ the member that supplies the window *)
Lemma first_member s1 m out lgwin wlen :
  window_size s1 = 0 -> last_byte_bit_offset s1 = 0 ->
  bytes_ok m -> 5 <= lenN m -> rfc_wbits (byte_at m 0 + 256 * byte_at m 1) = Some (lgwin, wlen) ->
  bytes_ok out -> lenN m + 8 <= lenN out ->
  exists r, after_flush s1 m out 0 = Val r /\
    r_rc r = NeedsMoreInput /\ lenN (r_out r) = lenN out /\ bytes_ok (r_out r) /\ r_off r <= lenN out /\
    takeN (r_off r) (r_out r) ++ held (r_s r) = m /\
    window_size (r_s r) = lgwin /\ 10 <= lgwin /\ lgwin <= 30 /\ last_byte_sanitized (r_s r) = false /\
    lb0 (r_s r) < 256 /\ lb1 (r_s r) < 256 /\
    (last_bytes_len (r_s r) = 2 \/ (lenN m = 5 /\ last_bytes_len (r_s r) = 1 /\ lb1 (r_s r) = 0)).
Proof.
  intros Hws Hbo Hm Hm5 Hrfc Hout Hroom.
  destruct m as [|b0 [|b1 [|b2 [|b3 [|b4 rest]]]]]; cbn [lenN] in Hm5; try lia.
  change (byte_at (b0 :: b1 :: b2 :: b3 :: b4 :: rest) 0) with b0 in Hrfc.
  change (byte_at (b0 :: b1 :: b2 :: b3 :: b4 :: rest) 1) with b1 in Hrfc.
  set (m := b0 :: b1 :: b2 :: b3 :: b4 :: rest) in *.
  set (sl := [b0; b1; b2; b3; b4]).
  assert (Hsl : bytes_ok sl).
  { change sl with (takeN 5 m). apply bytes_ok_takeN. exact Hm. }
  assert (Hb0 : b0 < 256) by (inversion Hsl; assumption).
  assert (Hb1 : b1 < 256) by (inversion Hsl as [|? ? ? Hr]; inversion Hr; assumption).
  assert (Hp : parse_window_size sl = Val (Some (lgwin, wlen))).
  { subst sl. rewrite parse_window_size_rfc by assumption. rewrite Hrfc. reflexivity. }
  assert (Hrange : 10 <= lgwin /\ lgwin <= 30).
  { destruct (parse_window_size_cases sl ltac:(unfold sl; cbn [lenN]; lia)) as [Ep|(pw & wo & Ep & R1 & R2 & _)]; rewrite Hp in Ep; [discriminate|].
    injection Ep as <- <-. split; assumption. }
  unfold after_flush. rewrite collect_full by (subst m; cbn [lenN] in *; lia).
  change (takeN 5 m) with sl.
  change (negb (sufficient (mkNSD sl 5 None))) with false. cbv iota.
  replace (lenN out =? 0) with false by (symmetry; apply N.eqb_neq; lia).
  unfold shift_and_check_new_stream_header, shift_prepare.
  cbn [num_bytes_written bytes_so_far num_bytes_read].
  change (slice_to sl 5) with (Val sl). cbv iota. rewrite Hp.
  destruct s1 as [a0 a1 len san any bo ws pend]. fields. subst ws bo.
  change (0 =? 0) with true. cbn [negb]. cbv iota.
  change (getN sl 0) with (Val b0). cbv iota.
  rewrite updN_ok by lia. cbn [p_s p_nsp p_out p_off].
  change (setN out 0 b0) with (blit out 0 [b0]).
  destruct (emit_body (mkBC a0 a1 len san true 0 lgwin (Some (mkNSD sl 5 None))) sl 5 1 out 0 [b0] m)
    as (r & Er & R1 & R2 & R3 & R4 & R5 & R6 & R7 & R8 & R9 & R10); try (fields; lia); try assumption; try reflexivity.
  exists r. split; [exact Er|].
  split; [exact R1|]. split; [exact R2|]. split; [exact R3|]. split; [exact R4|].
  split; [rewrite R5; reflexivity|].
  split; [exact R6|]. split; [apply Hrange|]. split; [apply Hrange|].
  split; [exact R7|]. split; [exact R8|]. split; [exact R9|exact R10].
Qed.
