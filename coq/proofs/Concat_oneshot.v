(* C03, the one-shot regime (whole member in one call, ample output space): closed forms of the
   phases of `stream` - flush (end-marker stripping, related to the bit list), look-ahead
   collection, header emission, body copy. *)
From Coq Require Import NArith List Bool Lia Arith PeanoNat.
From V Require Import lib.Words lib.Finite proofs.Bitops model.Concat model.ConcatRun spec.ConcatSpec
  proofs.Concat_proofs proofs.Concat_inv proofs.Concat_findings proofs.Concat_tail proofs.Concat_delay
  proofs.Concat_bitlib proofs.Concat_hdr.
Import ListNotations.
Open Scope N_scope.

(* ------------------------------------------------------------------ buffers *)
Lemma takeN_blit_all out off W : off + lenN W <= lenN out -> takeN (off + lenN W) (blit out off W) = takeN off out ++ W.
Proof.
  intros H. unfold blit. rewrite app_assoc. apply takeN_app_exact. rewrite lenN_app, lenN_takeN by lia. reflexivity.
Qed.

Lemma takeN_blit_low out off W : off + lenN W <= lenN out -> takeN off (blit out off W) = takeN off out.
Proof. apply take_blit. Qed.

Lemma takeN_takeN (l : list N) a b : a <= b -> takeN a (takeN b l) = takeN a l.
Proof. intros H. unfold takeN. rewrite firstn_firstn. f_equal. lia. Qed.

Lemma takeN_app_le (a b : list N) n : n <= lenN a -> takeN n (a ++ b) = takeN n a.
Proof. intros H. unfold takeN. apply firstn_app_le. rewrite lenN_length in H. lia. Qed.

Lemma takeN_all (l : list N) n : lenN l <= n -> takeN n l = l.
Proof. intros H. unfold takeN. apply firstn_all2. rewrite lenN_length in H. lia. Qed.

Lemma takeN_app_more (a b : list N) n k : lenN a = n -> takeN (n + k) (a ++ b) = a ++ takeN k b.
Proof.
  intros H. unfold takeN. rewrite firstn_app. rewrite lenN_length in H.
  rewrite firstn_all2 by lia. f_equal. f_equal. lia.
Qed.

Lemma takeN_blit_part out off W k : off + lenN W <= lenN out -> k <= lenN W ->
  takeN (off + k) (blit out off W) = takeN off out ++ takeN k W.
Proof.
  intros H Hk. unfold blit. rewrite takeN_app_more by (apply lenN_takeN; lia).
  f_equal. apply takeN_app_le. exact Hk.
Qed.

Lemma byte_at_app_r (a b : list N) j : byte_at (a ++ b) (lenN a + j) = byte_at b j.
Proof.
  unfold byte_at. rewrite lenN_length. rewrite app_nth2 by lia. f_equal. lia.
Qed.
Lemma byte_at_app_l (a b : list N) j : j < lenN a -> byte_at (a ++ b) j = byte_at a j.
Proof. intros H. unfold byte_at. rewrite lenN_length in H. apply app_nth1. lia. Qed.

Lemma byte_at_blit out off W j : off + lenN W <= lenN out -> j < lenN W -> byte_at (blit out off W) (off + j) = byte_at W j.
Proof.
  intros H Hj. unfold blit.
  pose proof (byte_at_app_r (takeN off out) (W ++ dropN (off + lenN W) out) j) as E.
  rewrite lenN_takeN in E by lia. rewrite E. apply byte_at_app_l. exact Hj.
Qed.

Lemma byte_at_lt l j : bytes_ok l -> byte_at l j < 256.
Proof.
  intros H. unfold byte_at. destruct (Nat.lt_ge_cases (N.to_nat j) (length l)) as [Hl|Hl].
  - unfold bytes_ok in H. rewrite Forall_forall in H. apply H. apply nth_In. exact Hl.
  - rewrite nth_overflow by lia. lia.
Qed.

Lemma span_full (l : list N) a : a <= lenN l -> span l a (lenN l) = dropN a l.
Proof. intros H. unfold span. apply takeN_all. rewrite lenN_dropN. lia. Qed.

Lemma takeN_span (l : list N) a b : a <= b -> b <= lenN l -> takeN b l = takeN a l ++ span l a b.
Proof.
  intros H1 H2. unfold span, takeN, dropN. replace (N.to_nat b) with (N.to_nat a + N.to_nat (b - a))%nat by lia.
  apply firstn_add_own.
Qed.

Lemma take_drop (l : list N) n : takeN n l ++ dropN n l = l.
Proof. unfold takeN, dropN. apply firstn_skipn. Qed.

Lemma last_split (W : list N) : 1 <= lenN W -> W = takeN (lenN W - 1) W ++ [byte_at W (lenN W - 1)].
Proof.
  intros H. rewrite <- (take_drop W (lenN W - 1)) at 1. f_equal.
  assert (L : lenN (dropN (lenN W - 1) W) = 1) by (rewrite lenN_dropN; lia).
  destruct (dropN (lenN W - 1) W) as [|x [|y t]] eqn:E; cbn [lenN] in L; try lia.
  f_equal. rewrite <- (N.add_0_r (lenN W - 1)), <- byte_at_dropN, E. reflexivity.
Qed.

(* ------------------------------------------------------------------ look-ahead collection, whole header at once *)
Lemma collect_full s m : 5 <= lenN m ->
  collect_header s nsd_new m 0 =
    Val (set_pending s (Some (mkNSD (takeN 5 m) 5 None)), mkNSD (takeN 5 m) 5 None, 5).
Proof.
  intros Hm. unfold collect_header, nsd_new. cbn [bytes_so_far num_bytes_read num_bytes_written lenN].
  change (0 <? N.succ (N.succ (N.succ (N.succ (N.succ 0))))) with true. cbv iota.
  unfold sub_u. change (N.succ (N.succ (N.succ (N.succ (N.succ 0)))) <? 0) with false.
  replace (lenN m <? 0) with false by (symmetry; apply N.ltb_ge; lia). cbv iota.
  replace (N.min (N.succ (N.succ (N.succ (N.succ (N.succ 0)))) - 0) (lenN m - 0)) with 5 by lia.
  destruct (subN_ok m 0 5 ltac:(lia)) as [E1 L1]. rewrite E1.
  rewrite blitN_ok by (rewrite L1; cbn [lenN]; lia).
  unfold add_u8. change (w8 5) with 5. change (0 + 5 <? 256) with true. cbv iota.
  change (dropN 0 m) with m in *. rewrite L1.
  change (takeN 0 [0; 0; 0; 0; 0]) with (@nil N). change (dropN (0 + 5) [0; 0; 0; 0; 0]) with (@nil N).
  cbn [app]. rewrite app_nil_r. reflexivity.
Qed.

(* ------------------------------------------------------------------ header emission with room *)
Lemma shift_emit_ample s bsf nr w out off :
  lenN bsf = 5 -> w <= nr -> nr <= 5 -> off + (nr - w) <= lenN out -> 1 <= off + (nr - w) ->
  exists any',
  shift_emit s (mkNSD bsf nr (Some w)) out off =
    Val (mkF (mkBC (byte_at (blit out off (span bsf w nr)) (off + (nr - w) - 1)) 0 1 false any' 0 (window_size s) None)
             (blit out off (span bsf w nr)) (off + (nr - w) - 1) Success) /\
  (any_bytes_emitted s = true -> any' = true).
Proof.
  intros Hl Hw Hnr Hroom Hpos. unfold shift_emit. cbn [bytes_so_far num_bytes_read num_bytes_written].
  unfold sub_u. replace (lenN out <? off) with false by (symmetry; apply N.ltb_ge; lia).
  replace (nr <? w) with false by (symmetry; apply N.ltb_ge; lia). cbv zeta.
  replace (N.min (lenN out - off) (nr - w)) with (nr - w) by lia.
  replace (lenN bsf <? w) with false by (symmetry; apply N.ltb_ge; lia).
  destruct (subN_ok bsf w (nr - w) ltac:(lia)) as [Es Ls]. rewrite Es.
  fold (span bsf w nr) in *.
  rewrite blitN_ok by (rewrite Ls; lia). fold (blit out off (span bsf w nr)).
  unfold add_u8. rewrite (w8_small (nr - w)) by lia.
  replace (w + (nr - w)) with nr by lia.
  replace (nr <? 256) with true by (symmetry; apply N.ltb_lt; lia).
  rewrite N.eqb_refl. cbn [negb].
  replace (off + (nr - w) <? 1) with false by (symmetry; apply N.ltb_ge; lia).
  rewrite (getN_byte_at _ (off + (nr - w) - 1)) by (rewrite blit_len by (rewrite Ls; lia); lia).
  replace (window_size (if nr - w =? 0 then s else set_any s true)) with (window_size s)
    by (destruct (nr - w =? 0); destruct s; reflexivity).
  eexists. split; [reflexivity|].
  intros Ha. destruct (nr - w =? 0); [exact Ha|]. destruct s; reflexivity.
Qed.

(* ------------------------------------------------------------------ the body copy from a one-byte tail *)
Lemma InvP_after_emit b any ws : b < 256 -> 10 <= ws -> ws <= 30 -> InvP (mkBC b 0 1 false any 0 ws None).
Proof.
  intros Hb H1 H2. constructor; fields; try lia; try discriminate; try reflexivity.
Qed.

Lemma stream_body_one s input in_off out off :
  BI s -> last_bytes_len s = 1 -> bytes_ok input -> bytes_ok out -> in_off <= lenN input ->
  off + 1 + (lenN input - in_off) < lenN out ->
  exists r, stream_body s input in_off out off = Val r /\ r_rc r = NeedsMoreInput /\
    lenN (r_out r) = lenN out /\ bytes_ok (r_out r) /\ off <= r_off r /\ r_off r <= lenN out /\
    takeN (r_off r) (r_out r) ++ held (r_s r) = takeN off out ++ [lb0 s] ++ dropN in_off input /\
    BI (r_s r) /\ window_size (r_s r) = window_size s /\
    (last_bytes_len (r_s r) = 2 \/ (in_off = lenN input /\ r_s r = s)).
Proof.
  intros HB Hl1 Hin Hout Hio Hroom. pose proof HB as (HI & Hn & Hw). pose proof HI as [_ _ Hl2 _ _ _ _ _ _].
  destruct (stream_body_ok s input in_off out off HB Hin Hout Hio ltac:(lia)) as (r & Er & Pr).
  destruct (stream_body_delay s input in_off out off r Hn Hl2 Hio ltac:(lia) Er) as (D1 & D2 & D3).
  destruct Pr as (B1 & B2 & B3 & B4 & B5 & B6 & B7 & B8 & B9 & B10 & B11 & B12).
  assert (Hh : held s = [lb0 s]) by (unfold held; rewrite Hl1; reflexivity).
  assert (Hlen : (r_off r - off) + lenN (held (r_s r)) = 1 + (r_in r - in_off)).
  { apply (f_equal lenN) in D1. rewrite !lenN_app, Hh in D1. unfold span in D1.
    rewrite !lenN_takeN in D1 by (rewrite lenN_dropN; lia). cbn [lenN] in D1. lia. }
  assert (Hrc : r_rc r = NeedsMoreInput).
  { destruct B9 as [H|H]; [exact H|]. specialize (B11 H). lia. }
  specialize (B10 Hrc).
  exists r. split; [exact Er|]. split; [exact Hrc|]. split; [exact B7|]. split; [exact B8|]. split; [exact B5|]. split; [exact B6|].
  split.
  { rewrite (takeN_span (r_out r) off (r_off r)) by lia. rewrite D2, <- app_assoc, D1, Hh, B10.
    rewrite span_full by lia. reflexivity. }
  split; [exact B1|]. split; [exact B2|].
  (* how many bytes are held afterwards *)
  clear - Er Hn Hl1 Hio Hroom Hl2.
  unfold stream_body in Er. rewrite Hn, Hl1 in Er. change (negb (1 =? 2)) with true in Er. cbv iota in Er.
  replace (lenN out =? off) with false in Er by (symmetry; apply N.eqb_neq; lia).
  destruct (N.eqb_spec (lenN input) in_off) as [E2|E2].
  { injection Er as <-. right. split; [symmetry; exact E2|reflexivity]. }
  left.
  destruct (fill_one s input in_off) as [[s1 in1]|] eqn:F1; [|discriminate].
  destruct (fill_one_held s input in_off s1 in1 ltac:(lia) Hl2 ltac:(lia) F1) as (I1 & _ & L1 & _).
  rewrite L1, Hl1 in Er. change (negb (1 + 1 =? 2)) with false in Er. cbv iota in Er.
  destruct (stream_copy_delay s1 input in1 out off r ltac:(lia) ltac:(lia) ltac:(lia) Er) as [_ L]. exact L.
Qed.
