(* Proofs about model/Concat.v (the repaired src/concat/mod.rs). *)
From Coq Require Import NArith List Bool Lia Arith PeanoNat.
From V Require Import lib.Words lib.Finite model.Concat model.ConcatRun spec.ConcatSpec.
Import ListNotations.
Open Scope N_scope.

(* ------------------------------------------------------------------ parse_window_size = RFC 7932 WBITS *)
Definition pws_agree (b0 b1 : N) : bool :=
  match parse_window_size [b0; b1], rfc_wbits (b0 + 256 * b1) with
  | Val (Some (w, k)), Some (w', k') => (w =? w') && (k =? k')
  | Val None, None => true
  | _, _ => false
  end.

Lemma pws_agree_all : all_below (fun b0 => all_below (fun b1 => pws_agree b0 b1) 256) 256 = true.
Proof. vm_compute. reflexivity. Qed.

Lemma parse_window_size_two b0 b1 rest :
  parse_window_size (b0 :: b1 :: rest) = parse_window_size [b0; b1].
Proof. reflexivity. Qed.

Lemma parse_window_size_rfc b0 b1 rest : b0 < 256 -> b1 < 256 ->
  parse_window_size (b0 :: b1 :: rest) = Val (rfc_wbits (b0 + 256 * b1)).
Proof.
  intros H0 H1. rewrite parse_window_size_two.
  pose proof (all_below_spec _ _ pws_agree_all b0 H0) as Ha. cbv beta in Ha.
  pose proof (all_below_spec _ _ Ha b1 H1) as Hb. unfold pws_agree in Hb.
  destruct (parse_window_size [b0; b1]) as [[[w k]|]|]; destruct (rfc_wbits (b0 + 256 * b1)) as [[w' k']|]; try discriminate; try reflexivity.
  apply andb_true_iff in Hb. destruct Hb as [Hw Hk]. apply N.eqb_eq in Hw, Hk. subst. reflexivity.
Qed.

(* ------------------------------------------------------------------ small facts about slices *)
Lemma lenN_length l : lenN l = N.of_nat (length l).
Proof. induction l as [|x l IH]; [reflexivity|]. cbn [lenN length]. rewrite IH. lia. Qed.

Lemma lenN_app a b : lenN (a ++ b) = lenN a + lenN b.
Proof. rewrite !lenN_length, app_length. lia. Qed.

(* ------------------------------------------------------------------ list updates *)
Lemma nth_upd_nat (l : list N) : forall n v j d, (n < length l)%nat ->
  nth j (firstn n l ++ v :: skipn (S n) l) d = if Nat.eqb j n then v else nth j l d.
Proof.
  induction l as [|x l IH]; intros n v j d Hn; [cbn in Hn; lia|].
  destruct n as [|n]; destruct j as [|j]; cbn [firstn skipn app nth Nat.eqb]; try reflexivity.
  apply IH. cbn in Hn. lia.
Qed.

Lemma length_upd_nat (l : list N) n v : (n < length l)%nat ->
  length (firstn n l ++ v :: skipn (S n) l) = length l.
Proof.
  intros Hn. rewrite app_length, firstn_length. cbn [length]. rewrite skipn_length. lia.
Qed.

Lemma nth_firstn_lt (l : list N) : forall n j d, (j < n)%nat -> nth j (firstn n l) d = nth j l d.
Proof.
  induction l as [|x l IH]; intros n j d H; [rewrite firstn_nil; reflexivity|].
  destruct n as [|n]; [lia|]. destruct j as [|j]; [reflexivity|]. cbn [firstn nth]. apply IH. lia.
Qed.

Lemma to_nat_succ i : N.to_nat (i + 1) = S (N.to_nat i).
Proof. lia. Qed.

Lemma lt_lenN_nat i l : i < lenN l -> (N.to_nat i < length l)%nat.
Proof. rewrite lenN_length. lia. Qed.

Lemma lenN_setN l i v : i < lenN l -> lenN (setN l i v) = lenN l.
Proof.
  intros H. unfold setN, takeN, dropN. rewrite to_nat_succ, !lenN_length.
  rewrite length_upd_nat by (apply lt_lenN_nat; exact H). reflexivity.
Qed.

Lemma byte_at_setN l i v j : i < lenN l ->
  byte_at (setN l i v) j = if j =? i then v else byte_at l j.
Proof.
  intros H. unfold byte_at, setN, takeN, dropN. rewrite to_nat_succ.
  rewrite nth_upd_nat by (apply lt_lenN_nat; exact H).
  destruct (N.eqb_spec j i) as [->|Hne].
  - rewrite Nat.eqb_refl. reflexivity.
  - destruct (Nat.eqb_spec (N.to_nat j) (N.to_nat i)) as [E|_]; [|reflexivity]. exfalso. apply Hne. lia.
Qed.

Lemma blitN_ok dst off src : off + lenN src <= lenN dst ->
  blitN dst off src = Val (takeN off dst ++ src ++ dropN (off + lenN src) dst).
Proof. intros H. unfold blitN. apply N.leb_le in H. rewrite H. reflexivity. Qed.

Lemma lenN_takeN n l : n <= lenN l -> lenN (takeN n l) = n.
Proof. intros H. unfold takeN. rewrite lenN_length in *. rewrite firstn_length. lia. Qed.

Lemma lenN_dropN n l : lenN (dropN n l) = lenN l - n.
Proof. unfold dropN. rewrite !lenN_length, skipn_length. lia. Qed.

Lemma lenN_blit dst off src : off + lenN src <= lenN dst ->
  lenN (takeN off dst ++ src ++ dropN (off + lenN src) dst) = lenN dst.
Proof.
  intros H. rewrite !lenN_app, lenN_takeN by lia. rewrite lenN_dropN. lia.
Qed.

Lemma byte_at_blit_low dst off src j : off + lenN src <= lenN dst -> j < off ->
  byte_at (takeN off dst ++ src ++ dropN (off + lenN src) dst) j = byte_at dst j.
Proof.
  intros H Hj. unfold byte_at, takeN. rewrite !lenN_length in *.
  rewrite app_nth1 by (rewrite firstn_length; lia).
  apply nth_firstn_lt. lia.
Qed.

Lemma take_drop_blit dst off src : off + lenN src <= lenN dst ->
  takeN (lenN src) (dropN off (takeN off dst ++ src ++ dropN (off + lenN src) dst)) = src.
Proof.
  intros H. unfold takeN, dropN. rewrite !lenN_length in *.
  rewrite skipn_app. rewrite skipn_all2 by (rewrite firstn_length; lia).
  rewrite firstn_length. replace (N.to_nat off - Nat.min (N.to_nat off) (length dst))%nat with 0%nat by lia.
  cbn [skipn app]. rewrite firstn_app. rewrite Nat2N.id. rewrite firstn_all.
  replace (length src - length src)%nat with 0%nat by lia. cbn [firstn]. apply app_nil_r.
Qed.

(* ------------------------------------------------------------------ C12_serialize *)
Lemma bits_flags (a b c d : bool) :
  let f := N.lor (N.lor (N.lor (b2n a) (N.shiftl (b2n b) 6)) (N.shiftl (b2n c) 5)) (if d then 128 else 0) in
  N.testbit f 0 = a /\ N.testbit f 6 = b /\ N.testbit f 5 = c /\ N.testbit f 7 = d.
Proof. destruct a, b, c, d; vm_compute; repeat split; reflexivity. Qed.

Lemma bits_flags3 (a b c : bool) :
  let f := N.lor (N.lor (b2n a) (N.shiftl (b2n b) 6)) (N.shiftl (b2n c) 5) in
  N.testbit f 0 = a /\ N.testbit f 6 = b /\ N.testbit f 5 = c /\ N.testbit f 7 = false.
Proof. destruct a, b, c; vm_compute; repeat split; reflexivity. Qed.

Definition pending_len_ok (s : BroCatli) : Prop :=
  match new_stream_pending s with None => True | Some p => lenN (bytes_so_far p) = 5 end.

(* lenN (setN (setN .. b ..)) = lenN b, from the inside out *)
Ltac len_chain b :=
  lazymatch goal with
  | |- lenN (setN ?l ?i ?v) = lenN b =>
      let H := fresh "Hl" in
      assert (H : lenN l = lenN b) by (len_chain b);
      rewrite lenN_setN by (try rewrite H; lia); exact H
  | |- lenN b = lenN b => reflexivity
  end.
Ltac lt_chain b :=
  lazymatch goal with
  | |- _ < lenN ?l =>
      let H := fresh "Hl" in
      assert (H : lenN l = lenN b) by (len_chain b); try rewrite H; lia
  end.
(* reading back position j after the writes of serialize_to_buffer *)
Ltac rd b := repeat (rewrite byte_at_setN by (lt_chain b)); cbn [N.eqb Pos.eqb].

Lemma serialize_roundtrip s buf :
  pending_len_ok s -> 21 <= lenN buf ->
  exists b, serialize_to_buffer s buf = Some b /\ lenN b = lenN buf /\ deserialize_from_buffer b = Some s.
Proof.
  intros Hp Hlen. unfold serialize_to_buffer.
  replace (lenN buf <? 16 + NUM_STREAM_HEADER_BYTES) with false
    by (symmetry; apply N.ltb_ge; unfold NUM_STREAM_HEADER_BYTES; lia).
  destruct s as [a0 a1 len san any bo ws pend]. unfold pending_len_ok in Hp. cbn [new_stream_pending] in Hp.
  cbn [lb0 lb1 last_bytes_len last_byte_sanitized any_bytes_emitted last_byte_bit_offset window_size new_stream_pending].
  destruct pend as [[bsf nr nw]|]; cbn [is_some].
  - cbn [bytes_so_far] in Hp. cbn [bytes_so_far num_bytes_read num_bytes_written].
    set (fl0 := N.lor (N.lor (b2n san) (N.shiftl (b2n true) 6)) (N.shiftl (b2n any) 5)).
    set (fl := if is_some nw then N.lor fl0 128 else fl0).
    set (b13 := match nw with Some w => w | None => 0 end).
    assert (Efl : forall P : list N -> Type, True -> True) by (intros; exact I). clear Efl.
    match goal with |- context [blitN ?d 16 bsf] => set (d0 := d) end.
    assert (Hd0 : lenN d0 = lenN buf).
    { subst d0. destruct (is_some nw); len_chain buf. }
    rewrite blitN_ok by (rewrite Hp, Hd0; lia).
    eexists. split; [reflexivity|]. split; [rewrite lenN_blit by (rewrite Hp, Hd0; lia); exact Hd0|].
    unfold deserialize_from_buffer.
    rewrite lenN_blit by (rewrite Hp, Hd0; lia). rewrite Hd0.
    replace (lenN buf <? 16 + NUM_STREAM_HEADER_BYTES) with false
      by (symmetry; apply N.ltb_ge; unfold NUM_STREAM_HEADER_BYTES; lia).
    replace NUM_STREAM_HEADER_BYTES with (lenN bsf) by (rewrite Hp; reflexivity).
    rewrite take_drop_blit by (rewrite Hp, Hd0; lia).
    rewrite !byte_at_blit_low by (rewrite ?Hp, ?Hd0; lia).
    assert (H9 : byte_at d0 9 = fl).
    { subst d0 fl. destruct (is_some nw); rd buf; reflexivity. }
    assert (H0 : byte_at d0 0 = a0) by (subst d0; destruct (is_some nw); rd buf; reflexivity).
    assert (H1 : byte_at d0 1 = a1) by (subst d0; destruct (is_some nw); rd buf; reflexivity).
    assert (H8 : byte_at d0 8 = len) by (subst d0; destruct (is_some nw); rd buf; reflexivity).
    assert (H10 : byte_at d0 10 = bo) by (subst d0; destruct (is_some nw); rd buf; reflexivity).
    assert (H11 : byte_at d0 11 = ws) by (subst d0; destruct (is_some nw); rd buf; reflexivity).
    assert (H12 : byte_at d0 12 = nr) by (subst d0; destruct (is_some nw); rd buf; reflexivity).
    assert (H13 : byte_at d0 13 = b13) by (subst d0; destruct (is_some nw); rd buf; reflexivity).
    rewrite H0, H1, H8, H9, H10, H11, H12, H13. subst fl fl0 b13.
    destruct nw as [w|]; cbn [is_some].
    + pose proof (bits_flags san true any true) as Hf. cbn zeta in Hf.
      change (if true then 128 else 0) with 128 in Hf.
      destruct Hf as (F0 & F6 & F5 & F7). rewrite F0, F6, F5, F7. reflexivity.
    + pose proof (bits_flags3 san true any) as Hf. cbn zeta in Hf.
      destruct Hf as (F0 & F6 & F5 & F7). rewrite F0, F6, F5, F7. reflexivity.
  - set (fl0 := N.lor (N.lor (b2n san) (N.shiftl (b2n false) 6)) (N.shiftl (b2n any) 5)).
    match goal with |- context [Some ?d] => set (d0 := d) end.
    assert (Hd0 : lenN d0 = lenN buf).
    { subst d0. len_chain buf. }
    eexists. split; [reflexivity|]. split; [exact Hd0|].
    unfold deserialize_from_buffer. rewrite Hd0.
    replace (lenN buf <? 16 + NUM_STREAM_HEADER_BYTES) with false
      by (symmetry; apply N.ltb_ge; unfold NUM_STREAM_HEADER_BYTES; lia).
    assert (H9 : byte_at d0 9 = fl0) by (subst d0; rd buf; reflexivity).
    assert (H0 : byte_at d0 0 = a0) by (subst d0; rd buf; reflexivity).
    assert (H1 : byte_at d0 1 = a1) by (subst d0; rd buf; reflexivity).
    assert (H8 : byte_at d0 8 = len) by (subst d0; rd buf; reflexivity).
    assert (H10 : byte_at d0 10 = bo) by (subst d0; rd buf; reflexivity).
    assert (H11 : byte_at d0 11 = ws) by (subst d0; rd buf; reflexivity).
    rewrite H0, H1, H8, H9, H10, H11. subst fl0.
    pose proof (bits_flags3 san false any) as Hf. cbn zeta in Hf.
    destruct Hf as (F0 & F6 & F5 & F7). rewrite F0, F6, F5. reflexivity.
Qed.

Lemma Inv_pending_len s : Inv s -> pending_len_ok s.
Proof.
  unfold Inv, invb, pending_len_ok. intros H.
  destruct (new_stream_pending s) as [p|]; [|exact I].
  apply andb_true_iff in H. destruct H as [_ H]. unfold nsd_invb in H.
  repeat (apply andb_true_iff in H; destruct H as [H ?]). apply N.eqb_eq in H. exact H.
Qed.

Theorem serialize_deserialize_id s buf : Inv s -> 21 <= lenN buf ->
  exists b, serialize_to_buffer s buf = Some b /\ lenN b = lenN buf /\ deserialize_from_buffer b = Some s.
Proof. intros Hi Hl. apply serialize_roundtrip; [apply Inv_pending_len; exact Hi|exact Hl]. Qed.

(* the save/restore step used between calls, and the C-ABI conversions, are the identity *)
Lemma nat_restore_id s : Inv s -> nat_restore s = Val s.
Proof.
  intros Hi. unfold nat_restore.
  destruct (serialize_deserialize_id s (repeat 255 24) Hi) as (b & Hs & _ & Hd); [vm_compute; discriminate|].
  rewrite Hs, Hd. reflexivity.
Qed.

Lemma of_to_state_id s : Inv s -> exists st, to_state s = Val st /\ lenN st = 120 /\ of_state st = Val s.
Proof.
  intros Hi. unfold to_state, of_state.
  destruct (serialize_deserialize_id s (zeros BROCCOLI_STATE_BYTES) Hi) as (b & Hs & Hl & Hd); [vm_compute; discriminate|].
  exists b. rewrite Hs, Hd. repeat split. rewrite Hl. reflexivity.
Qed.
