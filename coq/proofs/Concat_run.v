(* Facts about whole protocol runs (model/ConcatRun.v): the invariant is kept along every
   protocol-following run, hence no call of such a run panics, and saving/restoring the state
   between calls changes nothing (C12_restore). *)
From Coq Require Import NArith List Bool Lia Arith PeanoNat.
From V Require Import lib.Words lib.Finite proofs.Bitops model.Concat model.ConcatRun spec.ConcatSpec
  proofs.Concat_proofs proofs.Concat_inv.
Import ListNotations.
Open Scope N_scope.

Definition drv_ok (d : drv BroCatli) : Prop :=
  Inv (d_s BroCatli d) /\ bytes_ok (d_buf BroCatli d) /\ d_off BroCatli d <= lenN (d_buf BroCatli d).

(* a script follows the protocol: a member's buffers are only streamed after new_brotli_file
   (or into a concatenator that already has a window), and buffers hold bytes *)
Fixpoint tasks_ok (started : Prop) (ts : list task) : Prop :=
  match ts with
  | [] => True
  | TFile :: t => tasks_ok True t
  | TChunk c :: t => started /\ bytes_ok c /\ tasks_ok True t
  | TFinish :: _ => True
  end.

Lemma tasks_ok_mono (P Q : Prop) ts : (P -> Q) -> tasks_ok P ts -> tasks_ok Q ts.
Proof. destruct ts as [|[|c|] t]; cbn; auto. intros H (A & B & C). auto. Qed.

Lemma bytes_ok_pattern n : forall i, bytes_ok (pattern_from n i).
Proof.
  induction n as [|n IH]; intros i; cbn [pattern_from]; [constructor|].
  apply bytes_ok_cons; [apply N.mod_lt; discriminate|apply IH].
Qed.
Lemma bytes_ok_fresh cap : bytes_ok (fresh_buf cap).
Proof. apply bytes_ok_pattern. Qed.

Notation go_nat := (go BroCatli nat_stream nat_finish (fun s => Val (new_brotli_file s)) show_state nat_restore).

Lemma maybe_restore_id rall rs d : Inv (d_s BroCatli d) ->
  maybe_restore BroCatli nat_restore rall rs d = Val (d_s BroCatli d).
Proof.
  intros HI. unfold maybe_restore. destruct (rall || memN (d_calls BroCatli d) rs); [|reflexivity].
  apply nat_restore_id. exact HI.
Qed.

Lemma drain_ok caps d : Inv (d_s BroCatli d) -> drv_ok (drain BroCatli caps d).
Proof.
  intros HI. unfold drv_ok, drain. cbn [d_s d_buf d_off]. repeat split; [exact HI|apply bytes_ok_fresh|lia].
Qed.

(* C12_restore: any save/restore schedule gives the same run as none *)
Theorem restore_irrelevant : forall fuel caps percall rall rs tasks in_off d,
  drv_ok d -> tasks_ok (Started (d_s BroCatli d)) tasks ->
  (match tasks with TChunk c :: _ => in_off <= lenN c | _ => True end) ->
  go_nat fuel caps percall rall rs tasks in_off d = go_nat fuel caps percall false [] tasks in_off d.
Proof.
  induction fuel as [|fuel IH]; intros caps percall rall rs tasks in_off d (HI & HB & HO) HT Hin; [reflexivity|].
  cbn [go]. destruct tasks as [|[|c|] rest]; [reflexivity| | |].
  - (* new_brotli_file *)
    destruct (Inv_new_brotli_file _ HI) as [HI' HS'].
    apply IH.
    + unfold drv_ok. cbn [d_s d_buf d_off]. repeat split; assumption.
    + cbn [d_s]. cbn [tasks_ok] in HT. eapply tasks_ok_mono; [|exact HT]. intros _. exact HS'.
    + destruct rest as [|[|c'|] r']; try exact I. lia.
  - (* one stream call *)
    cbn [tasks_ok] in HT. destruct HT as (HS & HC & HR).
    rewrite !maybe_restore_id by exact HI.
    pose proof (stream_total_inv (d_s BroCatli d) c in_off (d_buf BroCatli d) (d_off BroCatli d) HI HS HC HB Hin HO) as Hst.
    unfold nat_stream. destruct (stream (d_s BroCatli d) c in_off (d_buf BroCatli d) (d_off BroCatli d)) as [r|]; [|contradiction].
    destruct Hst as (A1 & A2 & A3 & A4 & A5 & A6 & A7 & A8 & A9 & A10 & A11 & A12).
    cbn [o_rc o_s o_in o_out o_off].
    destruct (r_rc r) eqn:Erc; try reflexivity.
    + (* NeedsMoreInput: next task *)
      apply IH.
      * destruct percall; [apply drain_ok; cbn [d_s]; exact A1|].
        unfold drv_ok. cbn [d_s d_buf d_off]. repeat split; [exact A1|exact A8|lia].
      * destruct percall; cbn [drain d_s]; (eapply tasks_ok_mono; [|exact HR]); intros _; exact A2.
      * destruct rest as [|[|c'|] r']; try exact I. lia.
    + (* NeedsMoreOutput: same task, next buffer *)
      apply IH.
      * apply drain_ok. cbn [d_s]. exact A1.
      * cbn [drain d_s tasks_ok]. repeat split; [exact A2|exact HC|exact HR].
      * exact A4.
  - (* finish *)
    rewrite !maybe_restore_id by exact HI.
    pose proof (finish_total_inv (d_s BroCatli d) (d_buf BroCatli d) (d_off BroCatli d) HI HB HO) as Hf.
    unfold nat_finish. destruct (finish (d_s BroCatli d) (d_buf BroCatli d) (d_off BroCatli d)) as [f|]; [|contradiction].
    destruct Hf as (A1 & A2 & A3 & A4 & A5 & A6 & A7 & A8 & A9 & A10).
    cbn [o_rc o_s o_in o_out o_off].
    destruct (f_rc f) eqn:Erc; try reflexivity.
    apply IH.
    + apply drain_ok. cbn [d_s]. exact A1.
    + cbn [tasks_ok]. exact I.
    + exact I.
Qed.

(* along a protocol-following run no call panics and no call budget is needed beyond the fuel *)
Theorem run_never_panics : forall fuel caps percall rall rs tasks in_off d,
  drv_ok d -> tasks_ok (Started (d_s BroCatli d)) tasks ->
  (match tasks with TChunk c :: _ => in_off <= lenN c | _ => True end) ->
  rr_final (go_nat fuel caps percall rall rs tasks in_off d) <> Panicked.
Proof.
  induction fuel as [|fuel IH]; intros caps percall rall rs tasks in_off d (HI & HB & HO) HT Hin; [cbn; discriminate|].
  cbn [go]. destruct tasks as [|[|c|] rest]; [cbn; discriminate| | |].
  - destruct (Inv_new_brotli_file _ HI) as [HI' HS'].
    apply IH.
    + unfold drv_ok. cbn [d_s d_buf d_off]. repeat split; assumption.
    + cbn [d_s]. cbn [tasks_ok] in HT. eapply tasks_ok_mono; [|exact HT]. intros _. exact HS'.
    + destruct rest as [|[|c'|] r']; try exact I. lia.
  - cbn [tasks_ok] in HT. destruct HT as (HS & HC & HR).
    rewrite maybe_restore_id by exact HI.
    pose proof (stream_total_inv (d_s BroCatli d) c in_off (d_buf BroCatli d) (d_off BroCatli d) HI HS HC HB Hin HO) as Hst.
    unfold nat_stream. destruct (stream (d_s BroCatli d) c in_off (d_buf BroCatli d) (d_off BroCatli d)) as [r|]; [|contradiction].
    destruct Hst as (A1 & A2 & A3 & A4 & A5 & A6 & A7 & A8 & A9 & A10 & A11 & A12).
    cbn [o_rc o_s o_in o_out o_off].
    destruct (r_rc r) eqn:Erc; try (cbn; discriminate).
    + apply IH.
      * destruct percall; [apply drain_ok; cbn [d_s]; exact A1|].
        unfold drv_ok. cbn [d_s d_buf d_off]. repeat split; [exact A1|exact A8|lia].
      * destruct percall; cbn [drain d_s]; (eapply tasks_ok_mono; [|exact HR]); intros _; exact A2.
      * destruct rest as [|[|c'|] r']; try exact I. lia.
    + apply IH.
      * apply drain_ok. cbn [d_s]. exact A1.
      * cbn [drain d_s tasks_ok]. repeat split; [exact A2|exact HC|exact HR].
      * exact A4.
  - rewrite maybe_restore_id by exact HI.
    pose proof (finish_total_inv (d_s BroCatli d) (d_buf BroCatli d) (d_off BroCatli d) HI HB HO) as Hf.
    unfold nat_finish. destruct (finish (d_s BroCatli d) (d_buf BroCatli d) (d_off BroCatli d)) as [f|]; [|contradiction].
    destruct Hf as (A1 & A2 & A3 & A4 & A5 & A6 & A7 & A8 & A9 & A10).
    cbn [o_rc o_s o_in o_out o_off].
    destruct (f_rc f) eqn:Erc; try (cbn; discriminate).
    apply IH.
    + apply drain_ok. cbn [d_s]. exact A1.
    + cbn [tasks_ok]. exact I.
    + exact I.
Qed.

Lemma init_drv_ok caps s0 : Inv s0 -> drv_ok (mkD BroCatli s0 (fresh_buf (nth_cap caps 0)) 0 0 [] 0 []).
Proof. intros H. unfold drv_ok. cbn [d_s d_buf d_off]. repeat split; [exact H|apply bytes_ok_fresh|lia]. Qed.

Theorem run_restore_irrelevant fuel caps percall rall rs tasks s0 :
  Inv s0 -> tasks_ok (Started s0) tasks ->
  run_native fuel caps percall rall rs tasks s0 = run_native fuel caps percall false [] tasks s0.
Proof.
  intros HI HT. unfold run_native, run_from. apply restore_irrelevant.
  - apply init_drv_ok. exact HI.
  - exact HT.
  - destruct tasks as [|[|c|] r]; try exact I. lia.
Qed.

Theorem run_native_never_panics fuel caps percall rall rs tasks s0 :
  Inv s0 -> tasks_ok (Started s0) tasks ->
  rr_final (run_native fuel caps percall rall rs tasks s0) <> Panicked.
Proof.
  intros HI HT. unfold run_native, run_from. apply run_never_panics.
  - apply init_drv_ok. exact HI.
  - exact HT.
  - destruct tasks as [|[|c|] r]; try exact I. lia.
Qed.
