(* C12_slicing: towards "every protocol-following run over the same members gives the same bytes and
   the same final result".  Reference objects are obtained by running the phase functions of the model
   on a one-byte dummy output buffer; the lemmas below show that on any buffer with room the same
   thing happens in place (and nothing happens without room). *)
From Coq Require Import NArith List Bool Lia Arith PeanoNat.
From V Require Import lib.Words lib.Finite proofs.Bitops model.Concat model.ConcatRun spec.ConcatSpec
  proofs.Concat_proofs proofs.Concat_inv proofs.Concat_run proofs.Concat_delay.
Import ListNotations.
Open Scope N_scope.

Lemma blit_nil out off : off <= lenN out -> blit out off [] = out.
Proof.
  intros H. unfold blit. cbn [lenN app]. replace (off + 0) with off by lia.
  unfold takeN, dropN. apply firstn_skipn.
Qed.

Lemma setN_blit out off v : setN out off v = blit out off [v].
Proof. reflexivity. Qed.

Lemma updN_single v : updN [0] 0 v = Val [v].
Proof. reflexivity. Qed.

(* ------------------------------------------------------------------ flush is the same on every buffer *)
Definition flush_ref (s : BroCatli) : res fret := flush_previous_stream s [0] 0.

(* the bytes (none or one) the reference flush wrote *)
Definition fret_written (f : fret) : list N := takeN (f_off f) (f_out f).

Lemma flush_exact s out off : off <= lenN out -> last_bytes_len s <= 2 ->
  match flush_ref s with
  | Panic => True
  | Val fr =>
    lenN (fret_written fr) <= 1 /\
    if (lenN (fret_written fr) =? 1) && (lenN out <=? off)
    then flush_previous_stream s out off = Val (mkF s out off NeedsMoreOutput)
    else flush_previous_stream s out off =
         Val (mkF (f_s fr) (blit out off (fret_written fr)) (off + lenN (fret_written fr)) (f_rc fr))
  end.
Proof.
  intros Hoo Hl2. unfold flush_ref, flush_previous_stream, fret_written.
  destruct (last_byte_sanitized s).
  { cbv beta iota delta [f_off f_out f_s f_rc takeN]. cbn [N.to_nat firstn lenN N.eqb andb]. split; [lia|]. rewrite blit_nil by exact Hoo. rewrite N.add_0_r. reflexivity. }
  destruct (last_bytes_len s =? 0).
  { cbv beta iota delta [f_off f_out f_s f_rc takeN]. cbn [N.to_nat firstn lenN N.eqb andb]. split; [lia|]. rewrite blit_nil by exact Hoo. rewrite N.add_0_r. reflexivity. }
  destruct (mul_u8 (last_bytes_len s) 8) as [mx|]; [|exact I].
  destruct (find_high (N.to_nat mx) (lb0 s + N.shiftl (lb1 s) 8) mx 0 (mx - 1)) as [ix|]; [|exact I].
  destruct (ix =? 0).
  { cbv beta iota delta [f_off f_out f_s f_rc takeN]. cbn [N.to_nat firstn lenN N.eqb andb]. split; [lia|]. rewrite blit_nil by exact Hoo. rewrite N.add_0_r. reflexivity. }
  destruct (negb (N.shiftr (lb0 s + N.shiftl (lb1 s) 8) (ix - 1) =? 3)).
  { cbv beta iota delta [f_off f_out f_s f_rc takeN]. cbn [N.to_nat firstn lenN N.eqb andb]. split; [lia|]. rewrite blit_nil by exact Hoo. rewrite N.add_0_r. reflexivity. }
  destruct (N.leb_spec 8 (ix - 1)) as [Hge|Hlt]; cbn [andb].
  - change (lenN [0] <=? 0) with false. cbv iota.
    rewrite updN_single. fields.
    destruct (sub_u (last_bytes_len s) 1) as [l'|]; [|exact I].
    destruct (ix - 1 - 8 <? 8); [|exact I].
    cbv beta iota delta [f_off f_out f_s f_rc takeN]. change (0 + 1) with 1. change (N.to_nat 1) with 1%nat.
    cbn [firstn lenN]. change (N.succ 0 =? 1) with true. cbn [andb].
    split; [cbn; lia|].
    destruct (N.leb_spec (lenN out) off) as [Hfull|Hroom]; [reflexivity|].
    rewrite updN_ok by exact Hroom. rewrite setN_blit. reflexivity.
  - cbv beta iota delta [f_off f_out f_s f_rc takeN]. cbn [N.to_nat firstn lenN N.eqb andb]. split; [lia|]. rewrite blit_nil by exact Hoo. rewrite N.add_0_r. reflexivity.
Qed.

(* ------------------------------------------------------------------ the header realignment is the same on every buffer with room *)
Definition prepare_ref (s : BroCatli) (p : NewStreamData) : res (prep + rcode) := shift_prepare s p [0] 0.
Definition prep_written (q : prep) : list N := takeN (p_off q) (p_out q).

Lemma prepare_exact s p out off : off < lenN out ->
  match prepare_ref s p with
  | Panic => True
  | Val (inr rc) => shift_prepare s p out off = Val (inr rc)
  | Val (inl q) =>
      shift_prepare s p out off =
        Val (inl (mkP (p_s q) (p_nsp q) (blit out off (prep_written q)) (off + lenN (prep_written q)))) /\
      lenN (prep_written q) <= 1 /\ p_off q = lenN (prep_written q)
  end.
Proof.
  intros Hroom. unfold prepare_ref, shift_prepare, prep_written.
  destruct (num_bytes_written p) as [w|].
  { destruct (window_size s =? 0); [exact I|].
    cbv beta iota delta [p_off p_out p_s p_nsp takeN]. cbn [N.to_nat firstn lenN].
    rewrite blit_nil by lia. rewrite N.add_0_r. repeat split; lia. }
  destruct (slice_to (bytes_so_far p) (num_bytes_read p)) as [sl|]; [|exact I].
  destruct (parse_window_size sl) as [[[pw wo]|]|]; [| reflexivity | exact I].
  destruct (window_size s =? 0).
  { destruct (negb (last_byte_bit_offset s =? 0)); [exact I|].
    destruct (getN (bytes_so_far p) 0) as [b0|]; [|exact I].
    rewrite updN_single. rewrite updN_ok by exact Hroom.
    cbv beta iota delta [p_off p_out p_s p_nsp takeN]. change (0 + 1) with 1. change (N.to_nat 1) with 1%nat.
    cbn [firstn lenN]. rewrite setN_blit. repeat split; cbn; lia. }
  destruct (window_size s <? pw); [reflexivity|].
  destruct (detect_varlen_offset sl) as [[v|]|]; [| reflexivity | exact I].
  destruct (le_u64 sl 0 0) as [raw|]; [|exact I].
  destruct (sub_u v wo) as [diff|]; [|exact I].
  destruct (64 <=? diff); [exact I|].
  cbv zeta.
  destruct (realign _ _ _ _ _) as [rh|]; [|exact I].
  destruct (sub_u (last_byte_bit_offset s + v) wo) as [d2|]; [|exact I].
  destruct (num_bytes_read p <? (v + 7) / 8); [reflexivity|].
  destruct (sub_u (num_bytes_read p) ((v + 7) / 8)) as [nc|]; [|exact I].
  destruct (copy_whole _ _ _ _ _ _) as [rh'|]; [|exact I].
  destruct (getN rh' 0) as [r0|]; [|exact I].
  rewrite updN_single. rewrite updN_ok by exact Hroom.
  destruct (sub_u (w8 ((d2 + 7) / 8 + nc)) 1) as [nread|]; [|exact I].
  cbv beta iota delta [p_off p_out p_s p_nsp takeN]. change (0 + 1) with 1. change (N.to_nat 1) with 1%nat.
  cbn [firstn lenN]. rewrite setN_blit. repeat split; cbn; lia.
Qed.

(* ------------------------------------------------------------------ the body copy only touches the held bytes *)
Definition frame_eq (s s' : BroCatli) : Prop :=
  last_byte_sanitized s' = last_byte_sanitized s /\ any_bytes_emitted s' = any_bytes_emitted s /\
  last_byte_bit_offset s' = last_byte_bit_offset s /\ window_size s' = window_size s /\
  new_stream_pending s' = new_stream_pending s.

Lemma frame_refl s : frame_eq s s.
Proof. unfold frame_eq. auto. Qed.
Lemma frame_trans a b c : frame_eq a b -> frame_eq b c -> frame_eq a c.
Proof. unfold frame_eq. intros (A1 & A2 & A3 & A4 & A5) (B1 & B2 & B3 & B4 & B5). repeat split; congruence. Qed.
Lemma frame_set_lbs s a b : frame_eq s (set_lbs s a b).
Proof. destruct s; unfold frame_eq; cbn; auto. Qed.

Lemma fill_one_frame s input in_off s1 in1 : fill_one s input in_off = Val (s1, in1) -> frame_eq s s1.
Proof.
  unfold fill_one. destruct (getN input in_off) as [b|]; [|discriminate].
  unfold set_lb_at. destruct (last_bytes_len s =? 0).
  - destruct (add_u8 _ _); [|discriminate]. intros H. injection H as <- _. destruct s; unfold frame_eq; cbn; auto.
  - destruct (last_bytes_len s =? 1); [|discriminate].
    destruct (add_u8 _ _); [|discriminate]. intros H. injection H as <- _. destruct s; unfold frame_eq; cbn; auto.
Qed.

Lemma stream_copy_frame s input in_off out off r :
  stream_copy s input in_off out off = Val r ->
  frame_eq s (r_s r) /\ (r_rc r = NeedsMoreInput \/ r_rc r = NeedsMoreOutput) /\
  (r_in r = in_off -> r_s r = s /\ r_off r = off /\ r_out r = out).
Proof.
  unfold stream_copy.
  destruct (lenN out =? off); [intros H; injection H as <-; cbn; auto using frame_refl|].
  destruct (lenN input =? in_off); [intros H; injection H as <-; cbn; auto using frame_refl|].
  destruct (sub_u (lenN out) off) as [free|]; [|discriminate].
  destruct (sub_u (lenN input) in_off) as [avail|]; [|discriminate]. cbv zeta.
  destruct (N.min free avail =? 0); [discriminate|].
  destruct (N.min free avail =? 1).
  - destruct (updN out off (lb0 s)); [|discriminate]. destruct (getN input in_off); [|discriminate].
    intros H. injection H as <-. cbn [r_s r_in r_out r_off r_rc]. split; [apply frame_set_lbs|].
    split; [destruct (_ =? _); auto|]. intros E. lia.
  - destruct (blitN out off _); [|discriminate]. destruct (subN input in_off _); [|discriminate].
    destruct (sub_u (N.min free avail) 2) as [n|]; [|discriminate].
    destruct (dropN n _) as [|x1 [|x2 [|x3 xt]]]; try discriminate.
    destruct (blitN _ _ _); [|discriminate].
    intros H. injection H as <-. cbn [r_s r_in r_out r_off r_rc]. split; [apply frame_set_lbs|].
    split; [destruct (_ =? _); auto|]. intros E. lia.
Qed.

Lemma stream_copy_in_mono s input i' out off r : stream_copy s input i' out off = Val r -> i' <= r_in r.
Proof.
  intros H. unfold stream_copy in H.
  destruct (lenN out =? off); [injection H as <-; cbn; lia|].
  destruct (lenN input =? i'); [injection H as <-; cbn; lia|].
  destruct (sub_u _ _); [|discriminate]. destruct (sub_u _ _); [|discriminate]. cbv zeta in H.
  destruct (_ =? 0); [discriminate|]. destruct (_ =? 1).
  - destruct (updN _ _ _); [|discriminate]. destruct (getN _ _); [|discriminate]. injection H as <-. cbn. lia.
  - destruct (blitN _ _ _); [|discriminate]. destruct (subN _ _ _); [|discriminate]. destruct (sub_u _ 2); [|discriminate].
    destruct (dropN _ _) as [|? [|? [|? ?]]]; try discriminate. destruct (blitN _ _ _); [|discriminate]. injection H as <-. cbn. lia.
Qed.

Lemma fill_one_in s input in_off s1 in1 : fill_one s input in_off = Val (s1, in1) -> in1 = in_off + 1.
Proof.
  intros F1. unfold fill_one in F1. destruct (getN _ _); [|discriminate]. destruct (set_lb_at _ _ _); [|discriminate].
  destruct (add_u8 _ _); [|discriminate]. injection F1 as _ <-. reflexivity.
Qed.

Definition body_frame_post (s : BroCatli) (in_off : N) (out : list N) (off : N) (r : sret) : Prop :=
  frame_eq s (r_s r) /\ (r_rc r = NeedsMoreInput \/ r_rc r = NeedsMoreOutput) /\
  (r_in r = in_off -> r_s r = s /\ r_off r = off /\ r_out r = out) /\ in_off <= r_in r.

Lemma stream_body_frame s input in_off out off r :
  stream_body s input in_off out off = Val r -> body_frame_post s in_off out off r.
Proof.
  unfold stream_body, body_frame_post. destruct (new_stream_pending s); [discriminate|].
  assert (Hnil : forall rc, body_frame_post s in_off out off (mkS s in_off out off rc) -> True) by auto.
  assert (Hcopy : forall s' i', in_off <= i' -> (i' = in_off -> s' = s) -> frame_eq s s' -> stream_copy s' input i' out off = Val r ->
                  frame_eq s (r_s r) /\ (r_rc r = NeedsMoreInput \/ r_rc r = NeedsMoreOutput) /\
                  (r_in r = in_off -> r_s r = s /\ r_off r = off /\ r_out r = out) /\ in_off <= r_in r).
  { intros s' i' Hi Hs Hf H. pose proof (stream_copy_frame _ _ _ _ _ _ H) as (A & B & C).
    pose proof (stream_copy_in_mono _ _ _ _ _ _ H) as M.
    split; [eapply frame_trans; eassumption|]. split; [exact B|]. split; [|lia].
    intros E. assert (i' = in_off) by lia. subst i'. rewrite (Hs eq_refl) in *. apply C. exact E. }
  destruct (negb (last_bytes_len s =? 2)).
  2: { apply Hcopy; [lia|auto|apply frame_refl]. }
  destruct (lenN out =? off).
  { intros H; injection H as <-; cbn [r_s r_in r_out r_off r_rc]. split; [apply frame_refl|]. split; [auto|]. split; [auto|lia]. }
  destruct (lenN input =? in_off).
  { intros H; injection H as <-; cbn [r_s r_in r_out r_off r_rc]. split; [apply frame_refl|]. split; [auto|]. split; [auto|lia]. }
  destruct (fill_one s input in_off) as [[s1 in1]|] eqn:F1; [|discriminate].
  pose proof (fill_one_frame _ _ _ _ _ F1) as Fr1. pose proof (fill_one_in _ _ _ _ _ F1) as I1. subst in1.
  destruct (negb (last_bytes_len s1 =? 2)).
  2: { apply Hcopy; [lia|intros; lia|exact Fr1]. }
  destruct (lenN input =? in_off + 1).
  { intros H; injection H as <-; cbn [r_s r_in r_out r_off r_rc]. split; [exact Fr1|]. split; [auto|]. split; [intros; lia|lia]. }
  destruct (fill_one s1 input (in_off + 1)) as [[s2 in2]|] eqn:F2; [|discriminate].
  pose proof (fill_one_frame _ _ _ _ _ F2) as Fr2. pose proof (fill_one_in _ _ _ _ _ F2) as I2. subst in2.
  apply Hcopy; [lia|intros; lia|eapply frame_trans; eassumption].
Qed.

(* ------------------------------------------------------------------ the future of a state: what will be written until the member is consumed *)
(* all but the last n elements, and the last n *)
Definition keep_tail (T : list N) (n : nat) : list N * list N :=
  (firstn (length T - n) T, skipn (length T - n) T).

Lemma keep_tail_app wr T n : (n <= length T)%nat -> keep_tail (wr ++ T) n = (wr ++ fst (keep_tail T n), snd (keep_tail T n)).
Proof.
  intros H. unfold keep_tail. cbn [fst snd]. rewrite app_length.
  replace (length wr + length T - n)%nat with (length wr + (length T - n))%nat by lia.
  rewrite firstn_app_2, skipn_app.
  rewrite skipn_all2 by lia. replace (length wr + (length T - n) - length wr)%nat with (length T - n)%nat by lia.
  reflexivity.
Qed.

Lemma keep_tail_exact e h n : length h = n -> keep_tail (e ++ h) n = (e, h).
Proof.
  intros H. unfold keep_tail. rewrite app_length. replace (length e + length h - n)%nat with (length e) by lia.
  rewrite firstn_app, firstn_all, Nat.sub_diag. cbn [firstn]. rewrite app_nil_r.
  rewrite skipn_app, skipn_all, Nat.sub_diag. reflexivity.
Qed.

(* body phase: state s (no pending header), `rest` still to be consumed *)
Definition fut_body (s : BroCatli) (rest : list N) : list N * BroCatli :=
  match rest with
  | [] => ([], s)
  | _ => let T := held s ++ rest in
         let eh := keep_tail T 2 in
         (fst eh, set_len (set_lbs s (nth 0 (snd eh) 0) (nth 1 (snd eh) 0)) (lenN (snd eh)))
  end.

(* header emission: pending p with num_bytes_written = Some w, w < read *)
Definition fut_emit (s : BroCatli) (p : NewStreamData) (rest : list N) : list N * BroCatli :=
  let O := owed p in
  let s3 := mkBC (last O 0) 0 1 false true 0 (window_size s) None in
  let eb := fut_body s3 rest in
  (removelast O ++ fst eb, snd eb).

(* look-ahead collection: pending p with num_bytes_written = None *)
Definition fut_collect (s : BroCatli) (p : NewStreamData) (rest : list N) : list N * BroCatli * rcode :=
  match flush_ref s with
  | Panic => ([], s, Success)
  | Val fr =>
    match f_rc fr with
    | Success =>
      let eF := fret_written fr in
      let sF := f_s fr in
      let k := num_bytes_read p in
      let tk := N.min (5 - k) (lenN rest) in
      let p5 := mkNSD (blit (bytes_so_far p) k (takeN tk rest)) (k + tk) None in
      let s5 := if k <? 5 then set_pending sF (Some p5) else sF in
      if k + tk <? 5 then (eF, s5, NeedsMoreInput)
      else match prepare_ref s5 p5 with
           | Panic => (eF, s5, Success)
           | Val (inr rc) => (eF, s5, rc)
           | Val (inl q) =>
             let eb := fut_emit (p_s q) (p_nsp q) (dropN tk rest) in
             (eF ++ prep_written q ++ fst eb, snd eb, NeedsMoreInput)
           end
    | rc => ([], s, rc)
    end
  end.

Definition fut (s : BroCatli) (rest : list N) : list N * BroCatli * rcode :=
  match new_stream_pending s with
  | None => (fut_body s rest, NeedsMoreInput)
  | Some p =>
    match num_bytes_written p with
    | Some _ => (fut_emit s p rest, NeedsMoreInput)
    | None => fut_collect s p rest
    end
  end.

(* ------------------------------------------------------------------ one call in the body phase *)
Lemma stream_body_len s input in_off out off r :
  new_stream_pending s = None -> (last_bytes_len s = 1 \/ last_bytes_len s = 2) -> in_off <= lenN input -> off <= lenN out ->
  stream_body s input in_off out off = Val r -> in_off < r_in r -> last_bytes_len (r_s r) = 2.
Proof.
  intros Hn Hl Hio Hoo. unfold stream_body. rewrite Hn.
  destruct (N.eqb_spec (last_bytes_len s) 2) as [El|El]; cbn [negb].
  { intros H _. apply (stream_copy_delay s input in_off out off r El Hio Hoo H). }
  assert (L1 : last_bytes_len s = 1) by (destruct Hl; [assumption|contradiction]).
  destruct (lenN out =? off); [intros H; injection H as <-; cbn; lia|].
  destruct (N.eqb_spec (lenN input) in_off) as [E2|E2]; [intros H; injection H as <-; cbn; lia|].
  destruct (fill_one s input in_off) as [[s1 in1]|] eqn:F1; [|discriminate].
  destruct (fill_one_held s input in_off s1 in1 El ltac:(lia) ltac:(lia) F1) as (I1 & _ & L2 & _). subst in1.
  assert (El1 : last_bytes_len s1 = 2) by lia. rewrite El1. cbn [N.eqb Pos.eqb negb].
  intros H _. apply (stream_copy_delay s1 input (in_off + 1) out off r El1 ltac:(lia) Hoo H).
Qed.

Lemma state_by_held s s' a b : frame_eq s s' -> last_bytes_len s' = 2 -> held s' = [a; b] ->
  s' = set_len (set_lbs s a b) 2.
Proof.
  intros (F1 & F2 & F3 & F4 & F5) L H. unfold held in H. rewrite L in H. cbn in H. injection H as <- <-.
  destruct s, s'; cbn in *. subst. reflexivity.
Qed.

Lemma held_len s : last_bytes_len s <= 2 -> lenN (held s) = last_bytes_len s.
Proof.
  intros H. unfold held. destruct (N.eqb_spec (last_bytes_len s) 0) as [E|E]; [rewrite E; reflexivity|].
  destruct (N.eqb_spec (last_bytes_len s) 1) as [E1|E1]; [rewrite E1; reflexivity|]. cbn [lenN]. lia.
Qed.

Lemma dropN_app_len (a b : list N) n : n = lenN a -> dropN n (a ++ b) = b.
Proof. intros ->. apply dropN_app_exact. reflexivity. Qed.

Lemma span_whole_prefix (input rest2 : list N) in_off i1 : in_off <= i1 -> i1 <= lenN input ->
  dropN (i1 - in_off) (dropN in_off input ++ rest2) = dropN i1 input ++ rest2 /\
  dropN in_off input = span input in_off i1 ++ dropN i1 input.
Proof.
  intros H1 H2. split.
  - unfold dropN. rewrite skipn_app, skipn_plus, skipn_length.
    replace (N.to_nat in_off + N.to_nat (i1 - in_off))%nat with (N.to_nat i1) by lia.
    rewrite lenN_length in H2.
    replace (N.to_nat (i1 - in_off) - (length input - N.to_nat in_off))%nat with 0%nat by lia. reflexivity.
  - unfold span, takeN, dropN.
    replace (N.to_nat i1) with (N.to_nat in_off + N.to_nat (i1 - in_off))%nat by lia.
    rewrite <- skipn_plus. symmetry. apply firstn_skipn.
Qed.

Lemma fut_body_ne s rest : rest <> [] ->
  fut_body s rest = (fst (keep_tail (held s ++ rest) 2),
                     set_len (set_lbs s (nth 0 (snd (keep_tail (held s ++ rest) 2)) 0) (nth 1 (snd (keep_tail (held s ++ rest) 2)) 0))
                             (lenN (snd (keep_tail (held s ++ rest) 2)))).
Proof. intros H. unfold fut_body. destruct rest; [congruence|reflexivity]. Qed.

Lemma body_step s input in_off out off r rest2 :
  BI s -> (last_bytes_len s = 1 \/ last_bytes_len s = 2) -> bytes_ok input -> bytes_ok out ->
  in_off <= lenN input -> off <= lenN out ->
  stream_body s input in_off out off = Val r ->
  let rest := dropN in_off input ++ rest2 in
  let rest' := dropN (r_in r - in_off) rest in
  fut_body s rest = (span (r_out r) off (r_off r) ++ fst (fut_body (r_s r) rest'), snd (fut_body (r_s r) rest')) /\
  (r_rc r = NeedsMoreInput \/ r_rc r = NeedsMoreOutput) /\ (r_rc r = NeedsMoreInput -> r_in r = lenN input) /\
  takeN off (r_out r) = takeN off out /\
  BI (r_s r) /\ (last_bytes_len (r_s r) = 1 \/ last_bytes_len (r_s r) = 2).
Proof.
  intros HB Hl Hbi Hbo Hio Hoo Hr rest rest'.
  pose proof HB as (HI & Hn & Hw). pose proof HI as [_ _ Hl2 _ _ _ _ _ _].
  destruct (stream_body_ok s input in_off out off HB Hbi Hbo Hio Hoo) as (r' & Er & Pr). rewrite Hr in Er. injection Er as <-.
  destruct Pr as (HB' & _ & P3 & P4 & _ & _ & _ & _ & P9 & P10 & _).
  destruct (stream_body_delay s input in_off out off r Hn Hl2 Hio Hoo Hr) as (D1 & D2 & _).
  destruct (stream_body_frame s input in_off out off r Hr) as (Fr & _ & Fsame & _).
  destruct (span_whole_prefix input rest2 in_off (r_in r) P3 P4) as (R1 & R2).
  assert (Hl' : last_bytes_len (r_s r) = 1 \/ last_bytes_len (r_s r) = 2).
  { destruct (N.eq_dec (r_in r) in_off) as [E|E]; [destruct (Fsame E) as (-> & _); exact Hl|].
    right. apply (stream_body_len s input in_off out off r Hn Hl Hio Hoo Hr). lia. }
  split; [|split; [exact P9|split; [exact P10|split; [exact D2|split; [exact HB'|exact Hl']]]]].
  subst rest rest'. rewrite R1.
  destruct (N.eq_dec (r_in r) in_off) as [E|E].
  { (* nothing consumed: nothing changed *)
    destruct (Fsame E) as (Es & Eo & Eout). rewrite Es, Eo, E. rewrite span_nil. cbn [app].
    destruct (fut_body s (dropN in_off input ++ rest2)); reflexivity. }
  assert (L2 : last_bytes_len (r_s r) = 2) by (apply (stream_body_len s input in_off out off r Hn Hl Hio Hoo Hr); lia).
  assert (Hcons : span input in_off (r_in r) <> []).
  { intros Hc. apply (f_equal lenN) in Hc. unfold span in Hc. rewrite lenN_takeN in Hc by (rewrite lenN_dropN; lia). cbn in Hc. lia. }
  (* T = held s ++ rest = written ++ held s' ++ rest' *)
  assert (HT : held s ++ dropN in_off input ++ rest2 =
               span (r_out r) off (r_off r) ++ held (r_s r) ++ dropN (r_in r) input ++ rest2).
  { rewrite R2 at 1. rewrite <- app_assoc. rewrite (app_assoc (held s)). rewrite <- D1. rewrite <- !app_assoc. reflexivity. }
  assert (Hne : dropN in_off input ++ rest2 <> []).
  { rewrite R2. destruct (span input in_off (r_in r)); [congruence|discriminate]. }
  rewrite (fut_body_ne s _ Hne). rewrite HT.
  assert (Hh2 : exists a b, held (r_s r) = [a; b]) by (unfold held; rewrite L2; cbn; eauto).
  destruct Hh2 as (a & b & Hh).
  destruct (dropN (r_in r) input ++ rest2) as [|y0 t1] eqn:Erest'.
  - (* the member is consumed *)
    cbn [fut_body fst snd]. rewrite !app_nil_r. rewrite Hh. rewrite keep_tail_exact by reflexivity. cbn [fst snd nth lenN].
    f_equal. symmetry. change (N.succ (N.succ 0)) with 2. apply state_by_held; assumption.
  - rewrite <- Erest'.
    assert (Hne' : dropN (r_in r) input ++ rest2 <> []) by (rewrite Erest'; discriminate).
    rewrite (fut_body_ne (r_s r) _ Hne'). cbn [fst snd].
    rewrite keep_tail_app by (rewrite app_length, Hh; cbn; lia).
    cbn [fst snd]. f_equal.
    (* the final state only depends on the frame, which the call kept *)
    destruct Fr as (F1 & F2 & F3 & F4 & F5). destruct s, (r_s r); cbn in *. subst. reflexivity.
Qed.

(* ------------------------------------------------------------------ what one call must satisfy *)
Definition phase_inv (s : BroCatli) : Prop :=
  InvP s /\ Started s /\
  match new_stream_pending s with
  | None => last_bytes_len s = 1 \/ last_bytes_len s = 2
  | Some p => match num_bytes_written p with Some _ => last_byte_sanitized s = true | None => True end
  end.

Definition fut3 (x : list N * BroCatli * rcode) (wr : list N) : list N * BroCatli * rcode :=
  (wr ++ fst (fst x), snd (fst x), snd x).

Definition step_ok (s : BroCatli) (input : list N) (in_off : N) (out : list N) (off : N) (r : sret) (rest2 : list N) : Prop :=
  let rest := dropN in_off input ++ rest2 in
  let rest' := dropN (r_in r - in_off) rest in
  let wr := span (r_out r) off (r_off r) in
  takeN off (r_out r) = takeN off out /\ in_off <= r_in r /\ r_in r <= lenN input /\
  (if rcode_eqb (r_rc r) NeedsMoreInput || rcode_eqb (r_rc r) NeedsMoreOutput
   then fut s rest = fut3 (fut (r_s r) rest') wr /\ phase_inv (r_s r) /\
        (r_rc r = NeedsMoreInput -> r_in r = lenN input /\ fut (r_s r) [] = ([], r_s r, NeedsMoreInput))
   else fut s rest = (wr, r_s r, r_rc r)).

Lemma span_app_split l a b c : a <= b -> b <= c -> c <= lenN l -> span l a b ++ span l b c = span l a c.
Proof. intros. symmetry. apply span_split; assumption. Qed.

Lemma span_prefix_eq l l' a b : takeN b l = takeN b l' -> a <= b -> span l a b = span l' a b.
Proof.
  intros H Hab. unfold span.
  assert (E : forall x, takeN (b - a) (dropN a x) = dropN a (takeN b x)).
  { intros x. unfold takeN, dropN. rewrite skipn_firstn_comm. f_equal. lia. }
  rewrite !E, H. reflexivity.
Qed.

Lemma removelast_app_ne (a b : list N) : b <> [] -> removelast (a ++ b) = a ++ removelast b.
Proof. intros H. apply removelast_app. exact H. Qed.
Lemma last_app_ne (a b : list N) d : b <> [] -> last (a ++ b) d = last b d.
Proof.
  intros H. induction a as [|x a IH]; [reflexivity|]. cbn [app].
  assert (Hne : a ++ b <> []) by (destruct a; [exact H|discriminate]).
  destruct (a ++ b) as [|y t] eqn:E; [congruence|]. cbn [last]. exact IH.
Qed.

(* the E phase *)
Lemma emit_step s p w input in_off out off r rest2 :
  phase_inv s -> new_stream_pending s = Some p -> num_bytes_written p = Some w ->
  bytes_ok input -> bytes_ok out -> in_off <= lenN input -> off <= lenN out ->
  stream s input in_off out off = Val r -> step_ok s input in_off out off r rest2.
Proof.
  intros (HI & HS & Hph) Hp Hw Hbi Hbo Hio Hoo Hr. rewrite Hp, Hw in Hph.
  pose proof HI as [_ _ _ _ _ _ _ _ H9]. pose proof (H9 p Hp) as [P1 P2 P3 P4]. destruct (P4 w Hw) as (Hwr & Hws).
  unfold stream in Hr. rewrite Hp in Hr. rewrite (flush_sanitized s out off Hph) in Hr. fields.
  rewrite Hw in Hr. cbn [is_none andb] in Hr.
  unfold step_ok. cbv zeta.
  destruct (N.eqb_spec (lenN out) off) as [Efull|Eroom].
  { (* no room: nothing happens *)
    injection Hr as <-. cbn [r_s r_in r_out r_off r_rc rcode_eqb rcode_num N.eqb Pos.eqb orb].
    rewrite N.sub_diag, span_nil. change (dropN 0 ?l) with l. unfold fut3. cbn [app].
    split; [reflexivity|]. split; [lia|]. split; [lia|]. split; [|split; [|discriminate]].
    - destruct (fut s (dropN in_off input ++ rest2)) as [[e s'] rc]. reflexivity.
    - unfold phase_inv. split; [exact HI|]. split; [exact HS|]. rewrite Hp, Hw. exact Hph. }
  unfold shift_and_check_new_stream_header, shift_prepare in Hr. rewrite Hw in Hr.
  replace (window_size s =? 0) with false in Hr by (symmetry; apply N.eqb_neq; exact Hws). cbn [p_s p_nsp p_out p_off] in Hr.
  destruct (shift_emit s p out off) as [g|] eqn:Eg; [|discriminate].
  assert (HE : emit_ready s p out off).
  { unfold emit_ready. repeat split; try assumption. exists w. repeat split; [exact Hw|lia|right; lia]. }
  assert (HIp : InvP (set_pending s (Some p))) by (destruct s; fields; subst; exact HI).
  destruct (shift_emit_ok s p p out off HIp Hph HE) as (g' & Eg' & G1 & G2 & G3 & G4 & G5). rewrite Eg in Eg'. injection Eg' as <-.
  destruct (shift_emit_delay s p out off g P1 P3 Hoo ltac:(exists w; split; [exact Hw|lia]) Eg) as (D0 & D).
  assert (HO : owed p = span (bytes_so_far p) w (num_bytes_read p)) by (unfold owed; rewrite Hw; reflexivity).
  destruct D as [(R1 & p' & Rp & Rd)|(R1 & R2 & R3 & k & K1 & K2 & K3)].
  - (* output full before the header is complete *)
    rewrite R1 in Hr. injection Hr as <-. cbn [r_s r_in r_out r_off r_rc rcode_eqb rcode_num N.eqb Pos.eqb orb].
    rewrite N.sub_diag. change (dropN 0 ?l) with l.
    destruct G5 as [(_ & Gf & Go & GI & Gn)|(Gc & _)]; [|congruence].
    split; [exact D0|]. split; [lia|]. split; [lia|]. split; [|split; [|discriminate]].
    + (* fut *)
      unfold fut at 1. rewrite Hp, Hw. unfold fut. rewrite Rp.
      assert (Hw' : exists w', num_bytes_written p' = Some w' /\ owed p' <> [] /\ window_size (f_s g) = window_size s).
      { clear - Eg Hw Rp R1 P1 P3 Hwr Hoo Eroom. unfold shift_emit in Eg. rewrite Hw in Eg.
        destruct (sub_u (lenN out) off) as [free|]; [|discriminate]. destruct (sub_u _ w) as [d|] eqn:Ed; [|discriminate].
        cbv zeta in Eg. destruct (lenN _ <? w); [discriminate|]. destruct (subN _ _ _); [|discriminate]. destruct (blitN _ _ _); [|discriminate].
        destruct (add_u8 w _) as [w'|] eqn:Ew'; [|discriminate].
        destruct (N.eqb_spec w' (num_bytes_read p)) as [Ee|Ee]; cbn [negb] in Eg.
        - destruct (sub_u _ 1); [|discriminate]. destruct (getN _ _); [|discriminate]. injection Eg as <-. discriminate R1.
        - injection Eg as <-. fields. destruct (_ =? 0); destruct s; fields; injection Rp as <-;
            (exists w'; split; [reflexivity|]; split; [|reflexivity]);
            unfold owed, span; cbn [num_bytes_written bytes_so_far num_bytes_read];
            unfold add_u8 in Ew'; destruct (_ <? 256); try discriminate; injection Ew' as <-;
            unfold sub_u in Ed; destruct (_ <? w) eqn:El; try discriminate; injection Ed as <-; apply N.ltb_ge in El;
            intros Hc; apply (f_equal lenN) in Hc; rewrite lenN_takeN in Hc by (rewrite lenN_dropN; unfold w8 in *; lia); cbn in Hc;
            unfold w8 in *; assert (N.min free (num_bytes_read p - w) mod 2 ^ 8 <= num_bytes_read p - w) by (etransitivity; [apply N.mod_le; discriminate|lia]); lia. }
      destruct Hw' as (w' & Ew' & Hne & Hwin). rewrite Ew'. unfold fut3, fut_emit. cbn [fst snd].
      rewrite <- Rd. rewrite removelast_app_ne, last_app_ne by exact Hne. rewrite Hwin. rewrite <- app_assoc. reflexivity.
    + unfold phase_inv. split; [exact GI|]. split; [apply Started_pending; exact Gn|]. rewrite Rp.
      destruct (num_bytes_written p'); [|exact I].
      clear - Eg Hw Hph R1. unfold shift_emit in Eg. rewrite Hw in Eg.
      destruct (sub_u _ _); [|discriminate]. destruct (sub_u _ _); [|discriminate]. cbv zeta in Eg.
      destruct (_ <? w); [discriminate|]. destruct (subN _ _ _); [|discriminate]. destruct (blitN _ _ _); [|discriminate].
      destruct (add_u8 _ _); [|discriminate]. destruct (negb _).
      * injection Eg as <-. fields. destruct (_ =? 0); destruct s; fields; exact Hph.
      * destruct (sub_u _ 1); [|discriminate]. destruct (getN _ _); [|discriminate]. injection Eg as <-. discriminate R1.
  - (* header complete: the body copy continues in the same call *)
    rewrite R1 in Hr.
    destruct G5 as [(Gc & _)|(_ & GI & Gn & Gw & Glt & Gmono)]; [congruence|].
    replace (f_off g =? lenN (f_out g)) with false in Hr by (symmetry; apply N.eqb_neq; lia).
    assert (HBg : BI (f_s g)) by (split; [exact GI|split; assumption]).
    destruct (body_step (f_s g) input in_off (f_out g) (f_off g) r rest2 HBg ltac:(left; exact R3) Hbi G2 Hio ltac:(lia) Hr)
      as (B1 & B2 & B3 & B4 & B5 & B6).
    destruct (stream_body_frame (f_s g) input in_off (f_out g) (f_off g) r Hr) as (_ & _ & _ & Bmono).
    destruct (stream_body_ok (f_s g) input in_off (f_out g) (f_off g) HBg Hbi G2 Hio ltac:(lia)) as (r' & Er' & Pr'). rewrite Hr in Er'. injection Er' as <-.
    destruct Pr' as (_ & _ & _ & Q4 & Q5 & Q6 & Q7 & _).
    assert (Hoffg : off <= f_off g).
    { destruct (N.ltb_spec off (lenN out)) as [Hr'|Hr']; [apply (Gmono w Hw Hwr); exact Hr'|].
      (* no room at all: the header cannot complete *)
      exfalso. clear - Eg Hw R1 Hwr Hr' Hoo. unfold shift_emit in Eg. rewrite Hw in Eg.
      destruct (sub_u (lenN out) off) as [free|] eqn:Ef; [|discriminate]. destruct (sub_u _ w) as [d|] eqn:Ed; [|discriminate]. cbv zeta in Eg.
      destruct (_ <? w); [discriminate|]. destruct (subN _ _ _); [|discriminate]. destruct (blitN _ _ _); [|discriminate].
      unfold sub_u in Ef, Ed. destruct (lenN out <? off); [discriminate|]. injection Ef as <-.
      destruct (_ <? w) eqn:El; [discriminate|]. injection Ed as <-.
      replace (N.min (lenN out - off) (num_bytes_read p - w)) with 0 in Eg by lia.
      unfold add_u8 in Eg. change (w8 0) with 0 in Eg. replace (w + 0) with w in Eg by lia.
      destruct (w <? 256); [|discriminate].
      replace (w =? num_bytes_read p) with false in Eg by (symmetry; apply N.eqb_neq; lia). cbn [negb] in Eg.
      injection Eg as <-. discriminate R1. }
    assert (Hrc : rcode_eqb (r_rc r) NeedsMoreInput || rcode_eqb (r_rc r) NeedsMoreOutput = true) by (destruct B2 as [-> | ->]; reflexivity).
    rewrite Hrc.
    assert (Hpre : takeN off (r_out r) = takeN off out).
    { rewrite <- D0. (* takeN off of a list whose first f_off g elements agree *)
      assert (E : forall l, takeN off l = takeN off (takeN (f_off g) l)).
      { intros l. unfold takeN. rewrite firstn_firstn. f_equal. lia. }
      rewrite (E (r_out r)), (E (f_out g)), B4. reflexivity. }
    split; [exact Hpre|]. split; [exact Bmono|]. split; [exact Q4|]. split; [|split; [|intros Hnmi; split; [exact (B3 Hnmi)|unfold fut; destruct B5 as (_ & Bn' & _); rewrite Bn'; reflexivity]]].
    + unfold fut at 1. rewrite Hp, Hw. unfold fut_emit. cbn [fst snd].
      assert (HOsplit : owed p = span (f_out g) off (f_off g) ++ [lb0 (f_s g)]).
      { rewrite <- K1. rewrite (K3 ltac:(rewrite HO; unfold span; rewrite lenN_takeN by (rewrite lenN_dropN; lia); lia)).
        symmetry. apply span_app_split; lia. }
      rewrite HOsplit. rewrite removelast_app_ne, last_app_ne by discriminate. cbn [removelast last]. rewrite app_nil_r.
      assert (Hs3 : mkBC (lb0 (f_s g)) 0 1 false true 0 (window_size s) None = f_s g).
      { clear - Eg Hw R1 Hwr. unfold shift_emit in Eg. rewrite Hw in Eg.
        destruct (sub_u _ _) as [free|]; [|discriminate]. destruct (sub_u _ w) as [d|] eqn:Ed; [|discriminate]. cbv zeta in Eg.
        destruct (_ <? w); [discriminate|]. destruct (subN _ _ _); [|discriminate]. destruct (blitN _ _ _); [|discriminate].
        destruct (add_u8 w _) as [w'|] eqn:Ew'; [|discriminate].
        destruct (N.eqb_spec w' (num_bytes_read p)) as [Ee|Ee]; cbn [negb] in Eg.
        - destruct (sub_u _ 1); [|discriminate]. destruct (getN _ _); [|discriminate]. injection Eg as <-. fields.
          destruct (N.eqb_spec (N.min free d) 0) as [Z|Z].
          + exfalso. unfold add_u8 in Ew'. rewrite Z in Ew'. cbn in Ew'. replace (w + 0) with w in Ew' by lia.
            destruct (w <? 256); [|discriminate]. injection Ew' as <-. lia.
          + destruct s; reflexivity.
        - injection Eg as <-. discriminate R1. }
      rewrite Hs3. rewrite B1. unfold fut3. cbn [fst snd].
      unfold fut. destruct B5 as (_ & Bn & _). rewrite Bn. cbn [fst snd].
      rewrite app_assoc. do 3 f_equal.
      rewrite (span_prefix_eq (f_out g) (r_out r) off (f_off g)) by (auto; lia).
      apply span_app_split; lia.
    + unfold phase_inv. destruct B5 as (BI' & Bn & Bw). split; [exact BI'|]. split; [apply Started_ws; exact Bw|]. rewrite Bn. exact B6.
Qed.

(* the B phase *)
Lemma bodyphase_step s input in_off out off r rest2 :
  phase_inv s -> new_stream_pending s = None ->
  bytes_ok input -> bytes_ok out -> in_off <= lenN input -> off <= lenN out ->
  stream s input in_off out off = Val r -> step_ok s input in_off out off r rest2.
Proof.
  intros (HI & HS & Hph) Hn Hbi Hbo Hio Hoo Hr. rewrite Hn in Hph.
  unfold stream in Hr. rewrite Hn in Hr.
  assert (Hw : window_size s <> 0).
  { unfold Started, startedb in HS. rewrite Hn in HS. cbn in HS. rewrite orb_false_r in HS.
    apply negb_true_iff, N.eqb_neq in HS. exact HS. }
  assert (HB : BI s) by (split; [exact HI|split; assumption]).
  destruct (body_step s input in_off out off r rest2 HB Hph Hbi Hbo Hio Hoo Hr) as (B1 & B2 & B3 & B4 & B5 & B6).
  destruct (stream_body_frame s input in_off out off r Hr) as (_ & _ & _ & Bmono).
  destruct (stream_body_ok s input in_off out off HB Hbi Hbo Hio Hoo) as (r' & Er' & Pr'). rewrite Hr in Er'. injection Er' as <-.
  destruct Pr' as (_ & _ & _ & Q4 & _).
  unfold step_ok. cbv zeta.
  assert (Hrc : rcode_eqb (r_rc r) NeedsMoreInput || rcode_eqb (r_rc r) NeedsMoreOutput = true) by (destruct B2 as [-> | ->]; reflexivity).
  rewrite Hrc. split; [exact B4|]. split; [exact Bmono|]. split; [exact Q4|]. split; [|split; [|intros Hnmi; split; [exact (B3 Hnmi)|unfold fut; destruct B5 as (_ & Bn' & _); rewrite Bn'; reflexivity]]].
  - unfold fut. rewrite Hn. destruct B5 as (_ & Bn & _). rewrite Bn. rewrite B1. reflexivity.
  - unfold phase_inv. destruct B5 as (BI' & Bn & Bw). split; [exact BI'|]. split; [apply Started_ws; exact Bw|]. rewrite Bn. exact B6.
Qed.

(* ------------------------------------------------------------------ helpers for the H phase *)
Lemma flush_ref_sanitized s : last_byte_sanitized s = true ->
  flush_ref s = Val (mkF s [0] 0 Success).
Proof. intros H. unfold flush_ref. apply flush_sanitized. exact H. Qed.

Lemma takeN_app_more (a b : list N) n : lenN a <= n -> takeN n (a ++ b) = a ++ takeN (n - lenN a) b.
Proof.
  intros H. unfold takeN. rewrite lenN_length in *. rewrite firstn_app.
  rewrite firstn_all2 by lia. f_equal. f_equal. lia.
Qed.

Lemma blit_blit_len bsf k a b : k + lenN a + lenN b <= lenN bsf ->
  blit (blit bsf k a) (k + lenN a) b = blit bsf k (a ++ b).
Proof. apply blit_blit. Qed.

(* fut_collect only looks at the next (5 - read) bytes: consuming a few of them into the look-ahead
   of a sanitized state changes nothing but the flush output *)
Lemma fut_collect_advance s p fr a rest' :
  flush_ref s = Val fr -> f_rc fr = Success -> last_byte_sanitized (f_s fr) = true ->
  lenN (bytes_so_far p) = 5 -> num_bytes_written p = None ->
  num_bytes_read p + lenN a <= 5 -> (num_bytes_read p + lenN a < 5 -> rest' = [] \/ True) ->
  let k := num_bytes_read p in
  let p1 := mkNSD (blit (bytes_so_far p) k a) (k + lenN a) None in
  let s1 := if k <? 5 then set_pending (f_s fr) (Some p1) else f_s fr in
  fut_collect s p (a ++ rest') = fut3 (fut_collect s1 p1 rest') (fret_written fr).
Proof.
  intros Hfr Hrc Hsan Hl Hw Hka _ k p1 s1.
  assert (Hs1 : last_byte_sanitized s1 = true) by (subst s1; destruct (k <? 5); [destruct (f_s fr); exact Hsan|exact Hsan]).
  unfold fut_collect at 1. rewrite Hfr, Hrc. fold k.
  unfold fut_collect. rewrite (flush_ref_sanitized s1 Hs1). cbn [f_rc f_s].
  change (fret_written (mkF s1 [0] 0 Success)) with (@nil N). cbn [num_bytes_read bytes_so_far p1].
  set (tk' := N.min (5 - (k + lenN a)) (lenN rest')).
  assert (Htk : N.min (5 - k) (lenN (a ++ rest')) = lenN a + tk') by (rewrite lenN_app; subst tk'; lia).
  rewrite Htk.
  assert (Htake : takeN (lenN a + tk') (a ++ rest') = a ++ takeN tk' rest').
  { rewrite takeN_app_more by lia. f_equal. f_equal. lia. }
  assert (Hdrop : dropN (lenN a + tk') (a ++ rest') = dropN tk' rest').
  { apply dropN_app_more. reflexivity. }
  rewrite Htake, Hdrop.
  assert (Ltk : lenN (takeN tk' rest') = tk') by (apply lenN_takeN; subst tk'; lia).
  assert (Hblit : blit (blit (bytes_so_far p) k a) (k + lenN a) (takeN tk' rest') = blit (bytes_so_far p) k (a ++ takeN tk' rest')).
  { apply blit_blit. rewrite Ltk, Hl. subst tk'. lia. }
  rewrite Hblit. replace (k + lenN a + tk') with (k + (lenN a + tk')) by lia.
  set (p5 := mkNSD (blit (bytes_so_far p) k (a ++ takeN tk' rest')) (k + (lenN a + tk')) None).
  assert (Hs5 : (if k + lenN a <? 5 then set_pending s1 (Some p5) else s1) = (if k <? 5 then set_pending (f_s fr) (Some p5) else f_s fr)).
  { subst s1. destruct (N.ltb_spec (k + lenN a) 5) as [H1|H1].
    - replace (k <? 5) with true by (symmetry; apply N.ltb_lt; lia). destruct (f_s fr); reflexivity.
    - destruct (N.ltb_spec k 5) as [H2|H2]; [|reflexivity].
      (* the look-ahead is complete: p5 is p1 *)
      assert (tk' = 0) by (subst tk'; lia).
      subst p5 p1. rewrite H. change (takeN 0 rest') with (@nil N). rewrite app_nil_r, N.add_0_r. reflexivity. }
  rewrite Hs5. unfold fut3.
  destruct (k + (lenN a + tk') <? 5); [cbn [fst snd app]; rewrite app_nil_r; reflexivity|].
  destruct (prepare_ref _ p5) as [[q|rc]|]; cbn [fst snd app]; rewrite ?app_nil_r; try reflexivity.
Qed.

(* one call of shift_emit, in terms of fut_emit *)
Lemma emit_call s p0 p w out off g rest :
  InvP (set_pending s (Some p0)) -> last_byte_sanitized s = true -> emit_ready s p out off ->
  num_bytes_written p = Some w -> w < num_bytes_read p ->
  shift_emit s p out off = Val g ->
  takeN off (f_out g) = takeN off out /\ lenN (f_out g) = lenN out /\ bytes_ok (f_out g) /\
  ((f_rc g = NeedsMoreOutput /\ f_off g = lenN out /\ off <= f_off g /\ InvP (f_s g) /\ last_byte_sanitized (f_s g) = true /\
    exists p' w', new_stream_pending (f_s g) = Some p' /\ num_bytes_written p' = Some w' /\
      fut_emit s p rest = (span (f_out g) off (f_off g) ++ fst (fut_emit (f_s g) p' rest), snd (fut_emit (f_s g) p' rest)))
   \/ (f_rc g = Success /\ BI (f_s g) /\ last_bytes_len (f_s g) = 1 /\ off <= f_off g /\ f_off g < lenN out /\
       fut_emit s p rest = (span (f_out g) off (f_off g) ++ fst (fut_body (f_s g) rest), snd (fut_body (f_s g) rest)))).
Proof.
  intros HIp Hsan HE Hw Hwr Eg.
  pose proof HE as (P1 & P2 & P3 & (w0 & Ew0 & _ & Hpos) & Hoo & Hbo & Hws).
  destruct (shift_emit_ok s p0 p out off HIp Hsan HE) as (g' & Eg' & G1 & G2 & G3 & G4 & G5). rewrite Eg in Eg'. injection Eg' as <-.
  destruct (shift_emit_delay s p out off g P1 P3 Hoo ltac:(exists w; split; [exact Hw|lia]) Eg) as (D0 & D).
  assert (HO : owed p = span (bytes_so_far p) w (num_bytes_read p)) by (unfold owed; rewrite Hw; reflexivity).
  split; [exact D0|]. split; [exact G1|]. split; [exact G2|].
  destruct D as [(R1 & p' & Rp & Rd)|(R1 & R2 & R3 & k & K1 & K2 & K3)].
  - left. destruct G5 as [(_ & Gf & Go & GI & Gn)|(Gc & _)]; [|congruence].
    assert (Hw' : exists w', num_bytes_written p' = Some w' /\ owed p' <> [] /\ window_size (f_s g) = window_size s /\
                             last_byte_sanitized (f_s g) = true /\ off <= f_off g).
    { clear - Eg Hw Rp R1 P1 P3 Hwr Hoo Hsan. unfold shift_emit in Eg. rewrite Hw in Eg.
      destruct (sub_u (lenN out) off) as [free|] eqn:Ef; [|discriminate]. destruct (sub_u _ w) as [d|] eqn:Ed; [|discriminate].
      cbv zeta in Eg. destruct (lenN _ <? w); [discriminate|]. destruct (subN _ _ _); [|discriminate]. destruct (blitN _ _ _); [|discriminate].
      destruct (add_u8 w _) as [w'|] eqn:Ew'; [|discriminate].
      unfold sub_u in Ef, Ed. destruct (lenN out <? off) eqn:E1; [discriminate|]. injection Ef as <-.
      destruct (_ <? w) eqn:El; [discriminate|]. injection Ed as <-. apply N.ltb_ge in El, E1.
      assert (Hmod : w8 (N.min (lenN out - off) (num_bytes_read p - w)) = N.min (lenN out - off) (num_bytes_read p - w)) by (apply w8_small; lia).
      unfold add_u8 in Ew'. rewrite Hmod in Ew'. destruct (_ <? 256); [|discriminate]. injection Ew' as <-.
      destruct (N.eqb_spec (w + N.min (lenN out - off) (num_bytes_read p - w)) (num_bytes_read p)) as [Ee|Ee]; cbn [negb] in Eg.
      - destruct (sub_u _ 1); [|discriminate]. destruct (getN _ _); [|discriminate]. injection Eg as <-. discriminate R1.
      - injection Eg as <-. fields.
        assert (Hp' : p' = mkNSD (bytes_so_far p) (num_bytes_read p) (Some (w + N.min (lenN out - off) (num_bytes_read p - w)))).
        { first [ injection Rp as <-; reflexivity
                | destruct (_ =? 0); destruct s; fields; injection Rp as <-; reflexivity ]. }
        subst p'. eexists. split; [reflexivity|]. split; [|split; [|split]].
        + unfold owed, span. cbn [num_bytes_written bytes_so_far num_bytes_read].
          intros Hc. apply (f_equal lenN) in Hc. rewrite lenN_takeN in Hc by (rewrite lenN_dropN; lia). cbn in Hc. lia.
        + destruct (_ =? 0); destruct s; reflexivity.
        + destruct (_ =? 0); destruct s; fields; exact Hsan.
        + lia. }
    destruct Hw' as (w' & Ew' & Hne & Hwin & Hs' & Hlt).
    split; [exact R1|]. split; [exact Gf|]. split; [exact Hlt|]. split; [exact GI|]. split; [exact Hs'|].
    exists p', w'. split; [exact Rp|]. split; [exact Ew'|].
    unfold fut_emit. cbn [fst snd]. rewrite <- Rd. rewrite removelast_app_ne, last_app_ne by exact Hne. rewrite Hwin.
    rewrite <- app_assoc. reflexivity.
  - right. destruct G5 as [(Gc & _)|(_ & GI & Gn & Gw & Glt & Gmono)]; [congruence|].
    assert (Hoffg : off <= f_off g).
    { destruct (N.ltb_spec off (lenN out)) as [Hr'|Hr']; [apply (Gmono w Hw Hwr); exact Hr'|].
      (* no room at all: the header cannot complete *)
      exfalso. clear - Eg Hw R1 Hwr Hr' Hoo. unfold shift_emit in Eg. rewrite Hw in Eg.
      destruct (sub_u (lenN out) off) as [free|] eqn:Ef; [|discriminate]. destruct (sub_u _ w) as [d|] eqn:Ed; [|discriminate]. cbv zeta in Eg.
      destruct (_ <? w); [discriminate|]. destruct (subN _ _ _); [|discriminate]. destruct (blitN _ _ _); [|discriminate].
      unfold sub_u in Ef, Ed. destruct (lenN out <? off); [discriminate|]. injection Ef as <-.
      destruct (_ <? w) eqn:El; [discriminate|]. injection Ed as <-.
      replace (N.min (lenN out - off) (num_bytes_read p - w)) with 0 in Eg by lia.
      unfold add_u8 in Eg. change (w8 0) with 0 in Eg. replace (w + 0) with w in Eg by lia.
      destruct (w <? 256); [|discriminate].
      replace (w =? num_bytes_read p) with false in Eg by (symmetry; apply N.eqb_neq; lia). cbn [negb] in Eg.
      injection Eg as <-. discriminate R1. }
    split; [exact R1|]. split; [split; [exact GI|split; assumption]|]. split; [exact R3|]. split; [exact Hoffg|]. split; [exact Glt|].
    unfold fut_emit. cbn [fst snd].
    assert (HOsplit : owed p = span (f_out g) off (f_off g) ++ [lb0 (f_s g)]).
    { rewrite <- K1. rewrite (K3 ltac:(rewrite HO; unfold span; rewrite lenN_takeN by (rewrite lenN_dropN; lia); lia)).
      symmetry. apply span_app_split; lia. }
    rewrite HOsplit. rewrite removelast_app_ne, last_app_ne by discriminate. cbn [removelast last]. rewrite app_nil_r.
    assert (Hs3 : mkBC (lb0 (f_s g)) 0 1 false true 0 (window_size s) None = f_s g).
    { clear - Eg Hw R1 Hwr. unfold shift_emit in Eg. rewrite Hw in Eg.
      destruct (sub_u _ _) as [free|]; [|discriminate]. destruct (sub_u _ w) as [d|] eqn:Ed; [|discriminate]. cbv zeta in Eg.
      destruct (_ <? w); [discriminate|]. destruct (subN _ _ _); [|discriminate]. destruct (blitN _ _ _); [|discriminate].
      destruct (add_u8 w _) as [w'|] eqn:Ew'; [|discriminate].
      destruct (N.eqb_spec w' (num_bytes_read p)) as [Ee|Ee]; cbn [negb] in Eg.
      - destruct (sub_u _ 1); [|discriminate]. destruct (getN _ _); [|discriminate]. injection Eg as <-. fields.
        destruct (N.eqb_spec (N.min free d) 0) as [Z|Z].
        + exfalso. unfold add_u8 in Ew'. rewrite Z in Ew'. cbn in Ew'. replace (w + 0) with w in Ew' by lia.
          destruct (w <? 256); [|discriminate]. injection Ew' as <-. lia.
        + destruct s; reflexivity.
      - injection Eg as <-. discriminate R1. }
    rewrite Hs3. reflexivity.
Qed.

Lemma nsd_eta p : p = mkNSD (bytes_so_far p) (num_bytes_read p) (num_bytes_written p).
Proof. destruct p; reflexivity. Qed.

Lemma nsd_eta' p : num_bytes_written p = None -> mkNSD (bytes_so_far p) (num_bytes_read p) None = p.
Proof. intros H. rewrite (nsd_eta p) at 3. rewrite H. reflexivity. Qed.

(* the look-ahead collection, explicitly *)
Lemma collect_exact s p input in_off :
  lenN (bytes_so_far p) = 5 -> num_bytes_read p <= 5 -> in_off <= lenN input ->
  let k := num_bytes_read p in
  let tc := N.min (5 - k) (lenN input - in_off) in
  let a := takeN tc (dropN in_off input) in
  let p1 := mkNSD (blit (bytes_so_far p) k a) (k + lenN a) (num_bytes_written p) in
  collect_header s p input in_off = Val (if k <? 5 then set_pending s (Some p1) else s, p1, in_off + tc) /\ lenN a = tc.
Proof.
  intros Hl Hr Hio k tc a p1.
  assert (La : lenN a = tc) by (subst a; apply lenN_takeN; rewrite lenN_dropN; subst tc; lia).
  split; [|exact La].
  unfold collect_header. rewrite Hl. fold k.
  destruct (N.ltb_spec k 5) as [Hlt|Hge].
  - unfold sub_u. replace (5 <? k) with false by (symmetry; apply N.ltb_ge; lia).
    replace (lenN input <? in_off) with false by (symmetry; apply N.ltb_ge; lia). fold tc.
    destruct (subN_ok input in_off tc ltac:(subst tc; lia)) as [E1 L1]. rewrite E1. fold a.
    rewrite blitN_ok by (rewrite La, Hl; subst tc; lia).
    unfold add_u8. rewrite (w8_small tc) by (subst tc; lia).
    replace (k + tc <? 256) with true by (symmetry; apply N.ltb_lt; subst tc; lia).
    subst p1. unfold blit. rewrite !La. reflexivity.
  - assert (tc = 0) by (subst tc; lia). assert (Ea : a = []) by (subst a; rewrite H; reflexivity).
    subst p1. rewrite Ea. cbn [lenN]. rewrite blit_nil by lia. rewrite H, !N.add_0_r.
    assert (k = 5) by lia. unfold k in *. rewrite <- (nsd_eta p). reflexivity.
Qed.

(* with the look-ahead complete and the tail sanitized, the future is the header realignment *)
Lemma fut_collect_ready s1 p1 rest' :
  last_byte_sanitized s1 = true -> num_bytes_read p1 = 5 -> num_bytes_written p1 = None -> lenN (bytes_so_far p1) = 5 ->
  fut_collect s1 p1 rest' =
  match prepare_ref s1 p1 with
  | Panic => ([], s1, Success)
  | Val (inr rc) => ([], s1, rc)
  | Val (inl q) => (prep_written q ++ fst (fut_emit (p_s q) (p_nsp q) rest'), snd (fut_emit (p_s q) (p_nsp q) rest'), NeedsMoreInput)
  end.
Proof.
  intros Hs Hr Hw Hl. unfold fut_collect. rewrite (flush_ref_sanitized s1 Hs). cbn [f_rc f_s].
  change (fret_written (mkF s1 [0] 0 Success)) with (@nil N). rewrite Hr.
  change (5 - 5) with 0. rewrite N.min_0_l. change (takeN 0 rest') with (@nil N).
  rewrite blit_nil by lia. change (5 + 0) with 5. change (5 <? 5) with false. cbv iota. change (dropN 0 rest') with rest'.
  assert (Ep : mkNSD (bytes_so_far p1) 5 None = p1) by (rewrite (nsd_eta p1) at 2; rewrite Hr, Hw; reflexivity).
  rewrite Ep. destruct (prepare_ref s1 p1) as [[q|rc]|]; reflexivity.
Qed.

(* ------------------------------------------------------------------ the H phase, previous tail already stripped *)
Lemma set_pending_same s p : new_stream_pending s = Some p -> set_pending s (Some p) = s.
Proof. intros H. destruct s; cbn in *. subst. reflexivity. Qed.

Lemma span_blit_at out off e : off + lenN e <= lenN out -> span (blit out off e) off (off + lenN e) = e.
Proof. apply span_blit. Qed.

Lemma fut3_fut3 x a b : fut3 (fut3 x b) a = fut3 x (a ++ b).
Proof. unfold fut3. cbn [fst snd]. rewrite app_assoc. reflexivity. Qed.

Lemma collect_step_san s p input in_off out off r rest2 :
  phase_inv s -> last_byte_sanitized s = true -> new_stream_pending s = Some p -> num_bytes_written p = None ->
  bytes_ok input -> bytes_ok out -> in_off <= lenN input -> off <= lenN out ->
  stream s input in_off out off = Val r -> step_ok s input in_off out off r rest2.
Proof.
  intros (HI & HS & _) Hsan Hp Hw Hbi Hbo Hio Hoo Hr.
  pose proof HI as [_ _ _ _ _ _ _ _ H9]. pose proof (H9 p Hp) as HN. pose proof HN as [P1 P2 P3 P4].
  unfold stream in Hr. rewrite Hp in Hr. rewrite (flush_sanitized s out off Hsan) in Hr. fields.
  rewrite Hw in Hr. cbn [is_none andb] in Hr.
  destruct (collect_exact s p input in_off P1 P3 Hio) as (Ec & La). cbv zeta in Ec, La. rewrite Hw in Ec.
  set (k := num_bytes_read p) in *. set (tc := N.min (5 - k) (lenN input - in_off)) in *.
  set (a := takeN tc (dropN in_off input)) in *.
  set (p1 := mkNSD (blit (bytes_so_far p) k a) (k + lenN a) None) in *.
  set (s1 := if k <? 5 then set_pending s (Some p1) else s) in *.
  rewrite Ec in Hr.
  (* facts about the new look-ahead *)
  assert (Lp1 : lenN (bytes_so_far p1) = 5) by (subst p1; cbn [bytes_so_far]; rewrite blit_len by (rewrite La, P1; subst tc; lia); exact P1).
  assert (Bp1 : bytes_ok (bytes_so_far p1)).
  { subst p1. cbn [bytes_so_far]. unfold blit. apply bytes_ok_blit; [exact P2|]. subst a. apply bytes_ok_takeN, bytes_ok_dropN. exact Hbi. }
  assert (HN1 : NsdP (window_size s) (last_byte_sanitized s) p1).
  { split; [exact Lp1|exact Bp1|subst p1; cbn [num_bytes_read]; rewrite La; subst tc; lia|]. subst p1. cbn. discriminate. }
  assert (Hp1 : new_stream_pending s1 = Some p1).
  { subst s1. destruct (N.ltb_spec k 5) as [Hk|Hk]; [destruct s; reflexivity|].
    rewrite Hp. f_equal. assert (tc = 0) by (subst tc; lia). assert (Ea : a = []) by (subst a; rewrite H; reflexivity).
    subst p1. rewrite Ea. cbn [lenN]. rewrite blit_nil by lia. rewrite N.add_0_r. assert (k = 5) by lia. unfold k in *.
    rewrite (nsd_eta p) at 1. rewrite Hw. reflexivity. }
  assert (HI1 : InvP s1).
  { subst s1. destruct (k <? 5); [|exact HI]. apply (InvP_set_pending s p); [rewrite set_pending_same by exact Hp; exact HI|exact HN1]. }
  assert (Hs1 : last_byte_sanitized s1 = true) by (subst s1; destruct (k <? 5); [destruct s; exact Hsan|exact Hsan]).
  assert (Hw1 : window_size s1 = window_size s) by (subst s1; destruct (k <? 5); [destruct s; reflexivity|reflexivity]).
  assert (HSt1 : Started s1) by (apply Started_pending; rewrite Hp1; discriminate).
  assert (Hph1 : phase_inv s1) by (unfold phase_inv; rewrite Hp1; subst p1; cbn [num_bytes_written]; auto).
  (* the input consumed by this call so far, and what is left *)
  assert (Hin1 : in_off <= in_off + tc /\ in_off + tc <= lenN input) by (subst tc; lia).
  destruct (span_whole_prefix input rest2 in_off (in_off + tc) ltac:(lia) ltac:(lia)) as (R1 & R2).
  replace (in_off + tc - in_off) with tc in R1 by lia.
  assert (Ha : span input in_off (in_off + tc) = a) by (unfold span; replace (in_off + tc - in_off) with tc by lia; reflexivity).
  rewrite Ha in R2.
  set (rest' := dropN (in_off + tc) input ++ rest2) in *.
  (* the future of s in terms of the future of s1 *)
  assert (Hfut : fut s (dropN in_off input ++ rest2) = fut_collect s1 p1 rest').
  { unfold fut. rewrite Hp, Hw. rewrite R2, <- app_assoc. fold rest'.
    rewrite (fut_collect_advance s p (mkF s [0] 0 Success) a rest' (flush_ref_sanitized s Hsan) eq_refl Hsan P1 Hw
               ltac:(fold k; rewrite La; subst tc; lia) ltac:(auto)).
    cbn [f_s]. fold k. fold p1. fold s1.
    change (fret_written (mkF s [0] 0 Success)) with (@nil N). unfold fut3. cbn [app].
    destruct (fut_collect s1 p1 rest') as [[e s'] rc]. reflexivity. }
  assert (Hfut1 : fut s1 rest' = fut_collect s1 p1 rest') by (unfold fut; rewrite Hp1; subst p1; reflexivity).
  unfold step_ok. cbv zeta.
  destruct (negb (sufficient p1)) eqn:Esuf.
  { (* more look-ahead needed: the input is exhausted *)
    injection Hr as <-. cbn [r_s r_in r_out r_off r_rc rcode_eqb rcode_num N.eqb Pos.eqb orb].
    rewrite span_nil. replace (in_off + tc - in_off) with tc by lia. rewrite R1. fold rest'.
    apply negb_true_iff in Esuf. unfold sufficient, NUM_STREAM_HEADER_BYTES in Esuf. subst p1. cbn [num_bytes_read] in Esuf.
    apply N.eqb_neq in Esuf. rewrite La in Esuf.
    split; [reflexivity|]. split; [lia|]. split; [lia|]. split; [|split; [exact Hph1|intros _; split; [subst tc; lia|]]].
    { rewrite Hfut, Hfut1. unfold fut3. cbn [app]. destruct (fut_collect _ _ rest') as [[e s'] rc]. reflexivity. }
    (* quiescent: a further call without input would change nothing *)
    unfold fut. rewrite Hp1. cbn [num_bytes_written]. unfold fut_collect. rewrite (flush_ref_sanitized s1 Hs1). cbn [f_rc f_s].
    change (fret_written (mkF s1 [0] 0 Success)) with (@nil N). cbn [num_bytes_read bytes_so_far lenN].
    rewrite N.min_0_r. change (takeN 0 []) with (@nil N). rewrite blit_nil by (rewrite blit_len by (rewrite La, P1; subst tc; lia); rewrite P1; lia).
    rewrite !N.add_0_r. rewrite La.
    replace (k + tc <? 5) with true by (symmetry; apply N.ltb_lt; lia).
    rewrite set_pending_same; [reflexivity|]. rewrite Hp1. rewrite La. reflexivity. }
  apply negb_false_iff in Esuf. unfold sufficient, NUM_STREAM_HEADER_BYTES in Esuf. apply N.eqb_eq in Esuf.
  destruct (N.eqb_spec (lenN out) off) as [Efull|Eroom].
  { injection Hr as <-. cbn [r_s r_in r_out r_off r_rc rcode_eqb rcode_num N.eqb Pos.eqb orb].
    rewrite span_nil. replace (in_off + tc - in_off) with tc by lia. rewrite R1. fold rest'.
    split; [reflexivity|]. split; [lia|]. split; [lia|]. split; [|split; [exact Hph1|discriminate]].
    rewrite Hfut, Hfut1. unfold fut3. cbn [app]. destruct (fut_collect _ _ rest') as [[e s'] rc]. reflexivity. }
  (* the header realignment *)
  assert (Hr5 : num_bytes_read p1 = 5) by exact Esuf.
  assert (Hw1' : num_bytes_written p1 = None) by (subst p1; reflexivity).
  rewrite (fut_collect_ready s1 p1 rest' Hs1 Hr5 Hw1' Lp1) in Hfut.
  assert (HN1' : NsdP (window_size s1) true p1) by (rewrite Hw1; apply (NsdP_sanitize _ _ true _ HN1)).
  destruct (shift_prepare_ok s1 p1 [0] 0 HI1 Hs1 HN1' ltac:(auto) ltac:(repeat constructor; lia) ltac:(cbn; lia)) as (prr & Eprr & Pprr).
  pose proof (prepare_exact s1 p1 out off ltac:(lia)) as Hex. unfold prepare_ref in Hex, Hfut. rewrite Eprr in Hex, Hfut.
  unfold shift_and_check_new_stream_header in Hr.
  destruct prr as [q|rc].
  2: { (* rejected *)
    rewrite Hex in Hr. cbn [f_rc f_s f_out f_off] in Hr.
    destruct Pprr as [-> | [-> | ->]]; injection Hr as <-; cbn [r_s r_in r_out r_off r_rc rcode_eqb rcode_num N.eqb Pos.eqb orb];
      rewrite span_nil; (split; [reflexivity|]); (split; [lia|]); (split; [lia|]); exact Hfut. }
  destruct Hex as (Hex & Lq & Eqoff). rewrite Hex in Hr. cbn [p_s p_nsp p_out p_off] in Hr.
  destruct Pprr as (Q1 & Q2 & Q3 & _ & _ & _ & _ & _ & _ & (w & Qw & Qwr)).
  (* the same facts on the real buffer *)
  destruct (shift_prepare_ok s1 p1 out off HI1 Hs1 HN1' ltac:(auto) Hbo ltac:(lia)) as (prr' & Eprr' & Pprr').
  rewrite Hex in Eprr'. injection Eprr' as <-. cbn [p_s p_nsp p_out p_off] in Pprr'.
  destruct Pprr' as (_ & _ & _ & QE & QL & _ & _ & _ & _ & _).
  rewrite Hp1 in Q1.
  set (out2 := blit out off (prep_written q)) in *. set (off2 := off + lenN (prep_written q)) in *.
  destruct (shift_emit (p_s q) (p_nsp q) out2 off2) as [g|] eqn:Eg; [|discriminate].
  destruct (emit_call (p_s q) p1 (p_nsp q) w out2 off2 g rest' Q1 Q2 QE Qw Qwr Eg) as (G0 & G1 & G2 & G3).
  assert (Hwr_q : span out2 off off2 = prep_written q) by (subst out2 off2; apply span_blit; lia).
  assert (Hpre2 : takeN off out2 = takeN off out) by (subst out2; apply take_blit; lia).
  destruct G3 as [(R1' & Gf & Go & GI & Gs & p' & w' & Gp & Gw & Gfut)|(R1' & GB & Gl & Go & Glt & Gfut)]; rewrite R1' in Hr.
  - (* output full while emitting the header *)
    injection Hr as <-. cbn [r_s r_in r_out r_off r_rc rcode_eqb rcode_num N.eqb Pos.eqb orb].
    replace (in_off + tc - in_off) with tc by lia. rewrite R1. fold rest'.
    assert (Hpre : takeN off (f_out g) = takeN off out).
    { rewrite <- Hpre2. assert (E : forall l, takeN off l = takeN off (takeN off2 l)) by (intros l; unfold takeN; rewrite firstn_firstn; f_equal; subst off2; lia).
      rewrite (E (f_out g)), (E out2), G0. reflexivity. }
    split; [exact Hpre|]. split; [lia|]. split; [lia|]. split; [|split; [|discriminate]].
    + rewrite Hfut. unfold fut at 1. rewrite Gp, Gw. unfold fut3. cbn [fst snd]. rewrite Gfut. cbn [fst snd].
      rewrite app_assoc. do 3 f_equal.
      rewrite <- Hwr_q. rewrite (span_prefix_eq out2 (f_out g) off off2) by (auto; subst off2; lia).
      apply span_app_split; subst off2; lia.
    + unfold phase_inv. split; [exact GI|]. split; [apply Started_pending; rewrite Gp; discriminate|]. rewrite Gp, Gw. exact Gs.
  - (* header complete: the body copy continues in the same call *)
    replace (f_off g =? lenN (f_out g)) with false in Hr by (symmetry; apply N.eqb_neq; lia).
    destruct (body_step (f_s g) input (in_off + tc) (f_out g) (f_off g) r rest2 GB ltac:(left; exact Gl) Hbi G2 ltac:(lia) ltac:(lia) Hr)
      as (B1 & B2 & B3 & B4 & B5 & B6).
    fold rest' in B1.
    destruct (stream_body_frame (f_s g) input (in_off + tc) (f_out g) (f_off g) r Hr) as (_ & _ & _ & Bmono).
    destruct (stream_body_ok (f_s g) input (in_off + tc) (f_out g) (f_off g) GB Hbi G2 ltac:(lia) ltac:(lia)) as (r' & Er' & Pr'). rewrite Hr in Er'. injection Er' as <-.
    destruct Pr' as (_ & _ & _ & Q4 & Q5 & Q6 & Q7 & _).
    assert (Hrc : rcode_eqb (r_rc r) NeedsMoreInput || rcode_eqb (r_rc r) NeedsMoreOutput = true) by (destruct B2 as [-> | ->]; reflexivity).
    rewrite Hrc.
    assert (Hpre : takeN off (r_out r) = takeN off out).
    { rewrite <- Hpre2. assert (E : forall l n, off <= n -> takeN off l = takeN off (takeN n l)) by (intros l n Hn; unfold takeN; rewrite firstn_firstn; f_equal; lia).
      rewrite (E (r_out r) (f_off g)), B4, <- (E (f_out g) (f_off g)) by (subst off2; lia).
      rewrite (E (f_out g) off2), G0, <- (E out2 off2) by (subst off2; lia). reflexivity. }
    split; [exact Hpre|]. split; [lia|]. split; [exact Q4|]. split; [|split; [|intros Hnmi; split; [exact (B3 Hnmi)|unfold fut; destruct B5 as (_ & Bn' & _); rewrite Bn'; reflexivity]]].
    + (* what is left after the call *)
      assert (Hrest : dropN (r_in r - in_off) (dropN in_off input ++ rest2) = dropN (r_in r - (in_off + tc)) rest').
      { destruct (span_whole_prefix input rest2 in_off (r_in r) ltac:(lia) Q4) as (X1 & _). rewrite X1.
        subst rest'. destruct (span_whole_prefix input rest2 (in_off + tc) (r_in r) Bmono Q4) as (X2 & _). rewrite X2. reflexivity. }
      rewrite Hrest. rewrite Hfut. rewrite Gfut. cbn [fst snd]. rewrite B1. cbn [fst snd].
      unfold fut. destruct B5 as (_ & Bn & _). rewrite Bn. unfold fut3. cbn [fst snd].
      rewrite !app_assoc. do 3 f_equal.
      (* the three spans of this call *)
      assert (S1 : span (r_out r) off off2 = prep_written q).
      { rewrite <- Hwr_q. symmetry. apply span_prefix_eq; [|subst off2; lia].
        assert (E : forall l n, off2 <= n -> takeN off2 l = takeN off2 (takeN n l)) by (intros l n Hn; unfold takeN; rewrite firstn_firstn; f_equal; lia).
        rewrite (E (r_out r) (f_off g)), B4, <- (E (f_out g) (f_off g)) by lia. rewrite G0. reflexivity. }
      assert (S2 : span (r_out r) off2 (f_off g) = span (f_out g) off2 (f_off g)) by (apply span_prefix_eq; [exact B4|lia]).
      rewrite <- S1, <- S2. rewrite (span_app_split (r_out r) off off2 (f_off g)) by (subst off2; lia).
      apply span_app_split; lia.
    + unfold phase_inv. destruct B5 as (BI' & Bn & Bw). split; [exact BI'|]. split; [apply Started_ws; exact Bw|]. rewrite Bn. exact B6.
Qed.

(* ------------------------------------------------------------------ the H phase in general: strip the previous marker first *)
Lemma stream_after_flush s p input in_off out off sF out1 off1 :
  new_stream_pending s = Some p -> flush_previous_stream s out off = Val (mkF sF out1 off1 Success) ->
  last_byte_sanitized sF = true -> new_stream_pending sF = Some p ->
  stream s input in_off out off = stream sF input in_off out1 off1.
Proof.
  intros Hp Hf Hs Hp'. unfold stream. rewrite Hp, Hp', Hf. rewrite (flush_sanitized sF out1 off1 Hs). reflexivity.
Qed.

Lemma fut_after_flush s p fr rest :
  new_stream_pending s = Some p -> num_bytes_written p = None -> lenN (bytes_so_far p) = 5 -> num_bytes_read p <= 5 ->
  flush_ref s = Val fr -> f_rc fr = Success -> last_byte_sanitized (f_s fr) = true -> new_stream_pending (f_s fr) = Some p ->
  fut s rest = fut3 (fut (f_s fr) rest) (fret_written fr).
Proof.
  intros Hp Hw Hl Hr Hfr Hrc Hs Hp'.
  unfold fut. rewrite Hp, Hp', Hw.
  pose proof (fut_collect_advance s p fr [] rest Hfr Hrc Hs Hl Hw ltac:(cbn [lenN]; lia) ltac:(auto)) as H.
  cbn [app lenN] in H. cbv zeta in H. rewrite blit_nil in H by lia. rewrite N.add_0_r in H.
  rewrite (nsd_eta' p Hw) in H.
  replace (if num_bytes_read p <? 5 then set_pending (f_s fr) (Some p) else f_s fr) with (f_s fr) in H
    by (destruct (_ <? 5); [rewrite set_pending_same by exact Hp'; reflexivity|reflexivity]).
  exact H.
Qed.

Lemma step_ok_noop s input in_off out off rc rest2 :
  rc = NeedsMoreOutput -> phase_inv s -> in_off <= lenN input ->
  step_ok s input in_off out off (mkS s in_off out off rc) rest2.
Proof.
  intros -> Hph Hio. unfold step_ok. cbv zeta. cbn [r_s r_in r_out r_off r_rc rcode_eqb rcode_num N.eqb Pos.eqb orb].
  rewrite N.sub_diag, span_nil. change (dropN 0 ?l) with l.
  split; [reflexivity|]. split; [lia|]. split; [lia|]. split; [|split; [exact Hph|discriminate]].
  unfold fut3. cbn [app]. destruct (fut s _) as [[e s'] rc]. reflexivity.
Qed.

Lemma collect_step s p input in_off out off r rest2 :
  phase_inv s -> new_stream_pending s = Some p -> num_bytes_written p = None ->
  bytes_ok input -> bytes_ok out -> in_off <= lenN input -> off <= lenN out ->
  stream s input in_off out off = Val r -> step_ok s input in_off out off r rest2.
Proof.
  intros Hph Hp Hw Hbi Hbo Hio Hoo Hr. pose proof Hph as (HI & HS & _).
  destruct (last_byte_sanitized s) eqn:Hsan; [eapply collect_step_san; eassumption|].
  pose proof HI as [_ _ Hl2 _ _ _ _ _ H9]. pose proof (H9 p Hp) as [P1 P2 P3 P4].
  (* the reference flush *)
  destruct (flush_ok s [0] 0 HI ltac:(congruence) ltac:(repeat constructor; lia) ltac:(cbn; lia))
    as (fr & Efr & _ & FBr & _ & _ & FPr & FWr & FSr & FNr).
  pose proof (flush_exact s out off Hoo Hl2) as Hex. unfold flush_ref in Hex. rewrite Efr in Hex. destruct Hex as (Le & Hex).
  set (eF := fret_written fr) in *.
  destruct ((lenN eF =? 1) && (lenN out <=? off)) eqn:Eno.
  { (* a byte has to be written and there is no room: nothing happens *)
    unfold stream in Hr. rewrite Hp, Hex in Hr. cbn [f_rc f_s f_out f_off] in Hr. injection Hr as <-.
    apply step_ok_noop; auto. }
  destruct (f_rc fr) eqn:Erc.
  2-7: (destruct (FNr ltac:(discriminate)) as (N1 & N2 & N3 & N4 & N5);
        assert (HeF : eF = []) by (subst eF; unfold fret_written; rewrite N2; reflexivity);
        unfold stream in Hr; rewrite Hp, Hex in Hr; cbn [f_rc f_s f_out f_off] in Hr; injection Hr as <-;
        rewrite HeF, N1; cbn [lenN]; rewrite blit_nil by exact Hoo; rewrite N.add_0_r;
        try (exfalso; specialize (N4 eq_refl); cbn in N4; lia); try congruence;
        unfold step_ok; cbv zeta; cbn [r_s r_in r_out r_off r_rc rcode_eqb rcode_num N.eqb Pos.eqb orb];
        rewrite span_nil; (split; [reflexivity|]); (split; [lia|]); (split; [lia|]);
        unfold fut; rewrite Hp, Hw; unfold fut_collect, flush_ref; rewrite Efr, Erc; reflexivity).
  (* the marker is stripped: continue from the sanitized state *)
  destruct (FSr eq_refl) as (HIF & HsF). rewrite Hp in FPr.
  assert (Hroom : off + lenN eF <= lenN out).
  { destruct (N.eqb_spec (lenN eF) 1) as [E1|E1]; cbn [andb] in Eno; [apply N.leb_gt in Eno; lia|lia]. }
  assert (BeF : bytes_ok eF) by (subst eF; unfold fret_written; apply bytes_ok_takeN; exact FBr).
  set (out1 := blit out off eF) in *. set (off1 := off + lenN eF) in *.
  assert (L1 : lenN out1 = lenN out) by (subst out1; apply blit_len; exact Hroom).
  assert (B1 : bytes_ok out1) by (subst out1; unfold blit; apply bytes_ok_blit; assumption).
  rewrite (stream_after_flush s p input in_off out off (f_s fr) out1 off1 Hp Hex HsF FPr) in Hr.
  assert (HphF : phase_inv (f_s fr)).
  { unfold phase_inv. split; [exact HIF|]. split; [apply Started_pending; rewrite FPr; discriminate|]. rewrite FPr, Hw. exact I. }
  pose proof (collect_step_san (f_s fr) p input in_off out1 off1 r rest2 HphF HsF FPr Hw Hbi B1 Hio ltac:(subst off1; lia) Hr) as Hst.
  destruct (stream_total (f_s fr) input in_off out1 off1 HIF ltac:(apply Started_pending; rewrite FPr; discriminate) Hbi B1 Hio ltac:(subst off1; lia))
    as (r' & Er' & Pr'). rewrite Hr in Er'. injection Er' as <-.
  destruct Pr' as (_ & _ & _ & _ & T5 & T6 & T7 & _).
  pose proof (fut_after_flush s p fr (dropN in_off input ++ rest2) Hp Hw P1 P3 Efr Erc HsF FPr) as Hf0. fold eF in Hf0.
  unfold step_ok in *. cbv zeta in *.
  destruct Hst as (S0 & S1 & S2 & S3).
  assert (Hpre : takeN off (r_out r) = takeN off out).
  { assert (E : forall l, takeN off l = takeN off (takeN off1 l)) by (intros l; unfold takeN; rewrite firstn_firstn; f_equal; subst off1; lia).
    rewrite (E (r_out r)), S0, <- (E out1). subst out1. apply take_blit. exact Hroom. }
  assert (Hspan : span (r_out r) off (r_off r) = eF ++ span (r_out r) off1 (r_off r)).
  { rewrite <- (span_app_split (r_out r) off off1 (r_off r)) by (subst off1; lia). f_equal.
    rewrite (span_prefix_eq (r_out r) out1 off off1 S0) by (subst off1; lia).
    subst out1 off1. apply span_blit. exact Hroom. }
  split; [exact Hpre|]. split; [exact S1|]. split; [exact S2|].
  destruct (rcode_eqb (r_rc r) NeedsMoreInput || rcode_eqb (r_rc r) NeedsMoreOutput).
  - destruct S3 as (S3 & S4 & S5). split; [|split; assumption].
    rewrite Hf0, S3, fut3_fut3, Hspan. reflexivity.
  - rewrite Hf0, S3, Hspan. reflexivity.
Qed.

(* ------------------------------------------------------------------ one call, any phase *)
Theorem stream_step s input in_off out off r rest2 :
  phase_inv s -> bytes_ok input -> bytes_ok out -> in_off <= lenN input -> off <= lenN out ->
  stream s input in_off out off = Val r -> step_ok s input in_off out off r rest2.
Proof.
  intros Hph Hbi Hbo Hio Hoo Hr.
  destruct (new_stream_pending s) as [p|] eqn:Hp.
  - destruct (num_bytes_written p) as [w|] eqn:Hw.
    + eapply emit_step; eassumption.
    + eapply collect_step; eassumption.
  - eapply bodyphase_step; eassumption.
Qed.

(* ------------------------------------------------------------------ any protocol-following sequence of calls over one member *)
(* member_calls need s rest e s' rc : from state s, with the bytes `rest` of the member still to be
   fed, some sequence of stream calls - any input buffer whose unread part is a prefix of what is
   left, any output buffer, any cursors, any amount of free space - follows the protocol (after
   NeedsMoreOutput another call is due, `need`; after NeedsMoreInput the next bytes are offered;
   with nothing left and no call due the member is finished) and writes the bytes e, ending in s'
   with the answer rc (NeedsMoreInput, or the error that stopped the run). *)
Inductive member_calls : bool -> BroCatli -> list N -> list N -> BroCatli -> rcode -> Prop :=
  | mc_done : forall s, member_calls false s [] [] s NeedsMoreInput
  | mc_input : forall need s rest input in_off out off r rest2 e s' rc,
      (need = true \/ rest <> []) ->
      in_off <= lenN input -> off <= lenN out -> bytes_ok input -> bytes_ok out ->
      rest = dropN in_off input ++ rest2 ->
      stream s input in_off out off = Val r -> r_rc r = NeedsMoreInput ->
      member_calls false (r_s r) (dropN (r_in r - in_off) rest) e s' rc ->
      member_calls need s rest (span (r_out r) off (r_off r) ++ e) s' rc
  | mc_output : forall need s rest input in_off out off r rest2 e s' rc,
      (need = true \/ rest <> []) ->
      in_off <= lenN input -> off <= lenN out -> bytes_ok input -> bytes_ok out ->
      rest = dropN in_off input ++ rest2 ->
      stream s input in_off out off = Val r -> r_rc r = NeedsMoreOutput ->
      member_calls true (r_s r) (dropN (r_in r - in_off) rest) e s' rc ->
      member_calls need s rest (span (r_out r) off (r_off r) ++ e) s' rc
  | mc_error : forall need s rest input in_off out off r rest2,
      (need = true \/ rest <> []) ->
      in_off <= lenN input -> off <= lenN out -> bytes_ok input -> bytes_ok out ->
      rest = dropN in_off input ++ rest2 ->
      stream s input in_off out off = Val r -> r_rc r <> NeedsMoreInput -> r_rc r <> NeedsMoreOutput ->
      member_calls need s rest (span (r_out r) off (r_off r)) (r_s r) (r_rc r).

Theorem member_calls_fut need s rest e s' rc :
  member_calls need s rest e s' rc -> phase_inv s ->
  (need = true \/ rest <> [] \/ fut s [] = ([], s, NeedsMoreInput)) ->
  fut s rest = (e, s', rc) /\ (rc = NeedsMoreInput -> phase_inv s').
Proof.
  intros H. induction H as
    [s
    |need s rest input in_off out off r rest2 e s' rc Hneed Hio Hoo Hbi Hbo Hrest Hr Hrc Hcont IH
    |need s rest input in_off out off r rest2 e s' rc Hneed Hio Hoo Hbi Hbo Hrest Hr Hrc Hcont IH
    |need s rest input in_off out off r rest2 Hneed Hio Hoo Hbi Hbo Hrest Hr Hrc1 Hrc2]; intros Hph Hq.
  - destruct Hq as [Hq|[Hq|Hq]]; [discriminate|congruence|]. split; [exact Hq|auto].
  - pose proof (stream_step s input in_off out off r rest2 Hph Hbi Hbo Hio Hoo Hr) as Hst.
    unfold step_ok in Hst. cbv zeta in Hst. rewrite Hrc in Hst. cbn [rcode_eqb rcode_num N.eqb Pos.eqb orb] in Hst.
    destruct Hst as (_ & _ & _ & S3 & S4 & S5). destruct (S5 eq_refl) as (S6 & S7).
    rewrite <- Hrest in S3.
    destruct (IH S4 ltac:(right; right; exact S7)) as (IH1 & IH2).
    split; [|exact IH2]. rewrite S3, IH1. reflexivity.
  - pose proof (stream_step s input in_off out off r rest2 Hph Hbi Hbo Hio Hoo Hr) as Hst.
    unfold step_ok in Hst. cbv zeta in Hst. rewrite Hrc in Hst. cbn [rcode_eqb rcode_num N.eqb Pos.eqb orb] in Hst.
    destruct Hst as (_ & _ & _ & S3 & S4 & _).
    rewrite <- Hrest in S3.
    destruct (IH S4 ltac:(left; reflexivity)) as (IH1 & IH2).
    split; [|exact IH2]. rewrite S3, IH1. reflexivity.
  - pose proof (stream_step s input in_off out off r rest2 Hph Hbi Hbo Hio Hoo Hr) as Hst.
    unfold step_ok in Hst. cbv zeta in Hst.
    assert (Hrc : rcode_eqb (r_rc r) NeedsMoreInput || rcode_eqb (r_rc r) NeedsMoreOutput = false) by (destruct (r_rc r); try reflexivity; congruence).
    rewrite Hrc in Hst. destruct Hst as (_ & _ & _ & S3). rewrite <- Hrest in S3.
    split; [exact S3|]. intros E. congruence.
Qed.

(* C12, one member: any two protocol-following ways of feeding the same bytes from the same state
   write the same bytes, end with the same answer and (unless stopped by an error) in the same state *)
Theorem member_slicing_independent need s rest e1 s1 rc1 e2 s2 rc2 :
  phase_inv s -> member_calls need s rest e1 s1 rc1 -> member_calls need s rest e2 s2 rc2 ->
  e1 = e2 /\ s1 = s2 /\ rc1 = rc2.
Proof.
  intros Hph H1 H2.
  destruct need.
  - destruct (member_calls_fut _ _ _ _ _ _ H1 Hph ltac:(left; reflexivity)) as (A & _).
    destruct (member_calls_fut _ _ _ _ _ _ H2 Hph ltac:(left; reflexivity)) as (B & _).
    rewrite A in B. injection B as -> -> ->. auto.
  - destruct rest as [|x rest].
    + (* an empty member: no call is made *)
      inversion H1; subst; try (match goal with H : false = true \/ [] <> [] |- _ => destruct H; [discriminate|congruence] end).
      inversion H2; subst; try (match goal with H : false = true \/ [] <> [] |- _ => destruct H; [discriminate|congruence] end).
      auto.
    + destruct (member_calls_fut _ _ _ _ _ _ H1 Hph ltac:(right; left; discriminate)) as (A & _).
      destruct (member_calls_fut _ _ _ _ _ _ H2 Hph ltac:(right; left; discriminate)) as (B & _).
      rewrite A in B. injection B as -> -> ->. auto.
Qed.

(* ------------------------------------------------------------------ finish, under any output slicing *)
(* what finish still has to write: the held-back tail with the end marker re-appended (or ';' when
   nothing was ever written) *)
Definition fin_prepare (s : BroCatli) : BroCatli :=
  if last_byte_sanitized s && negb (last_bytes_len s =? 0)
  then match append_eof_metablock_to_last_bytes s with Val s1 => s1 | Panic => s end
  else s.
Definition fin_owed (s : BroCatli) : list N :=
  let s1 := fin_prepare s in
  if last_bytes_len s1 =? 0 then (if any_bytes_emitted s1 then [] else [59]) else held s1.

Lemma finish_loop_exact : forall n s out off,
  last_bytes_len s <= N.of_nat n -> last_bytes_len s <= 2 -> off <= lenN out ->
  exists f, finish_loop n s out off = Val f /\
    span (f_out f) off (f_off f) ++ held (f_s f) = held s /\ takeN off (f_out f) = takeN off out /\
    lenN (f_out f) = lenN out /\ off <= f_off f /\ f_off f <= lenN out /\
    last_bytes_len (f_s f) <= 2 /\ last_byte_sanitized (f_s f) = last_byte_sanitized s /\
    any_bytes_emitted (f_s f) = any_bytes_emitted s || negb (f_off f =? off) /\
    (off = f_off f -> f_s f = s) /\
    ((f_rc f = Success /\ last_bytes_len (f_s f) = 0) \/ (f_rc f = NeedsMoreOutput /\ f_off f = lenN out /\ last_bytes_len (f_s f) <> 0)).
Proof.
  induction n as [|n IH]; intros s out off Hn Hl Hoo.
  - assert (E : last_bytes_len s = 0) by (cbn in Hn; lia).
    exists (mkF s out off Success). cbn [finish_loop f_s f_out f_off f_rc]. rewrite span_nil, N.eqb_refl, orb_false_r. cbn [app].
    repeat split; auto; try lia.
  - cbn [finish_loop]. destruct (N.eqb_spec (last_bytes_len s) 0) as [E0|E0].
    { exists (mkF s out off Success). cbn [f_s f_out f_off f_rc]. rewrite span_nil, N.eqb_refl, orb_false_r. cbn [app]. repeat split; auto; try lia. }
    destruct (N.eqb_spec off (lenN out)) as [E1|E1].
    { exists (mkF s out off NeedsMoreOutput). cbn [f_s f_out f_off f_rc]. rewrite span_nil, N.eqb_refl, orb_false_r. cbn [app]. repeat split; auto; try lia. }
    rewrite updN_ok by lia. unfold sub_u. replace (last_bytes_len s <? 1) with false by (symmetry; apply N.ltb_ge; lia).
    set (s' := set_any (set_lbs (set_len s (last_bytes_len s - 1)) (lb1 s) (lb1 s)) true).
    destruct (IH s' (setN out off (lb0 s)) (off + 1)) as (f & Ef & F1 & F2 & F3 & F4 & F5 & F6 & F7 & F8 & F9 & F10).
    + subst s'. destruct s; cbn in *. lia.
    + subst s'. destruct s; cbn in *. lia.
    + rewrite lenN_setN by lia. lia.
    + exists f. split; [exact Ef|]. rewrite lenN_setN in * by lia.
      assert (Hpre : takeN off (f_out f) = takeN off out).
      { assert (E : forall l, takeN off l = takeN off (takeN (off + 1) l)) by (intros l; unfold takeN; rewrite firstn_firstn; f_equal; lia).
        rewrite (E (f_out f)), F2, <- (E (setN out off (lb0 s))). rewrite setN_blit. apply take_blit. cbn [lenN]. lia. }
      assert (Hsp : span (f_out f) off (off + 1) = [lb0 s]).
      { rewrite (span_prefix_eq (f_out f) (setN out off (lb0 s)) off (off + 1) F2) by lia.
        rewrite setN_blit. pose proof (span_blit out off [lb0 s] ltac:(cbn [lenN]; lia)) as X. cbn [lenN] in X.
        replace (off + N.succ 0) with (off + 1) in X by lia. exact X. }
      split.
      { rewrite <- (span_app_split (f_out f) off (off + 1) (f_off f)) by lia. rewrite Hsp, <- app_assoc, F1.
        subst s'. unfold held. destruct s as [a0 a1 len san any bo ws pend]; cbn in *.
        assert (len = 1 \/ len = 2) by lia. destruct H as [-> | ->]; reflexivity. }
      split; [exact Hpre|]. split; [exact F3|]. split; [lia|]. split; [exact F5|]. split; [exact F6|].
      split; [rewrite F7; subst s'; destruct s; reflexivity|].
      split.
      { rewrite F8. subst s'. replace (f_off f =? off) with false by (symmetry; apply N.eqb_neq; lia).
        destruct s; cbn. rewrite orb_true_r. reflexivity. }
      split; [intros; lia|]. exact F10.
Qed.

Lemma fin_prepare_idem s : InvP s -> last_byte_sanitized (fin_prepare s) = false \/ last_bytes_len (fin_prepare s) = 0.
Proof.
  intros HI. unfold fin_prepare. destruct (last_byte_sanitized s) eqn:Es; cbn [andb]; [|left; exact Es].
  destruct (N.eqb_spec (last_bytes_len s) 0) as [E|E]; cbn [negb]; [right; exact E|].
  destruct (append_eof_ok s HI Es E) as (s1 & E1 & _ & B & _). rewrite E1. left. exact B.
Qed.

Lemma fin_prepare_fix x : last_byte_sanitized x = false \/ last_bytes_len x = 0 -> fin_prepare x = x.
Proof. intros [Hx|Hx]; unfold fin_prepare; [rewrite Hx; reflexivity|rewrite Hx, andb_false_r; reflexivity]. Qed.

Lemma held_nil x : last_bytes_len x = 0 -> held x = [].
Proof. intros Hx; unfold held; rewrite Hx; reflexivity. Qed.

Theorem finish_step s out off f : InvP s -> bytes_ok out -> off <= lenN out ->
  finish s out off = Val f ->
  span (f_out f) off (f_off f) ++ fin_owed (f_s f) = fin_owed s /\ takeN off (f_out f) = takeN off out /\
  InvP (f_s f) /\ (f_rc f = Success \/ f_rc f = NeedsMoreOutput) /\ (f_rc f = Success -> fin_owed (f_s f) = []).
Proof.
  intros HI Hbo Hoo Hf.
  destruct (finish_total s out off HI Hbo Hoo) as (f' & Ef' & Pf'). rewrite Hf in Ef'. injection Ef' as <-.
  destruct Pf' as (HI' & _ & _ & _ & _ & _ & _ & Hrc & _).
  assert (Hgoal : span (f_out f) off (f_off f) ++ fin_owed (f_s f) = fin_owed s /\ takeN off (f_out f) = takeN off out /\
                  (f_rc f = Success -> fin_owed (f_s f) = [])).
  2: { destruct Hgoal as (A & B & C). split; [exact A|split; [exact B|split; [exact HI'|split; [exact Hrc|exact C]]]]. }
  clear HI' Hrc.
  unfold finish in Hf. set (s1 := fin_prepare s).
  assert (Es1 : (if last_byte_sanitized s && negb (last_bytes_len s =? 0) then append_eof_metablock_to_last_bytes s else Val s) = Val s1).
  { subst s1. unfold fin_prepare. destruct (last_byte_sanitized s) eqn:Es; cbn [andb]; [|reflexivity].
    destruct (N.eqb_spec (last_bytes_len s) 0) as [E|E]; cbn [negb]; [reflexivity|].
    destruct (append_eof_ok s HI Es E) as (s1' & E1 & _). rewrite E1. reflexivity. }
  rewrite Es1 in Hf.
  assert (HI1 : InvP s1).
  { subst s1. unfold fin_prepare. destruct (last_byte_sanitized s) eqn:Es; cbn [andb]; [|exact HI].
    destruct (N.eqb_spec (last_bytes_len s) 0) as [E|E]; cbn [negb]; [exact HI|].
    destruct (append_eof_ok s HI Es E) as (s1' & E1 & A & _). rewrite E1. exact A. }
  pose proof HI1 as [_ _ Hl1 _ _ _ _ _ _].
  destruct (finish_loop_exact 256 s1 out off ltac:(rewrite of_nat_256; lia) Hl1 Hoo) as (g & Eg & G1 & G2 & G3 & G4 & G5 & G6 & G7 & G8 & G9 & G10).
  rewrite Eg in Hf.
  pose proof (fin_prepare_idem s HI) as Hidem. fold s1 in Hidem.
  assert (Hs : fin_owed s = if last_bytes_len s1 =? 0 then (if any_bytes_emitted s1 then [] else [59]) else held s1) by reflexivity.
  rewrite Hs.
  assert (Hspanlen : lenN (span (f_out g) off (f_off g)) = f_off g - off) by (unfold span; apply lenN_takeN; rewrite lenN_dropN; lia).
  destruct G10 as [(R1 & R2)|(R1 & R2 & R3)]; rewrite R1 in Hf.
  - (* everything held has been written *)
    assert (Hg : fin_prepare (f_s g) = f_s g) by (apply fin_prepare_fix; right; exact R2).
    rewrite (held_nil _ R2), app_nil_r in G1.
    assert (Hany : last_bytes_len s1 <> 0 -> any_bytes_emitted (f_s g) = true).
    { intros E. rewrite G8. replace (f_off g =? off) with false; [apply orb_true_r|]. symmetry. apply N.eqb_neq.
      assert (lenN (held s1) = last_bytes_len s1) by (apply held_len; exact Hl1). rewrite <- G1, Hspanlen in H. lia. }
    destruct (any_bytes_emitted (f_s g)) eqn:Ea; cbn [negb] in Hf.
    + injection Hf as <-. unfold fin_owed. rewrite Hg, R2, Ea. cbn [N.eqb]. rewrite app_nil_r.
      split; [|split; [exact G2|reflexivity]].
      destruct (N.eqb_spec (last_bytes_len s1) 0) as [E|E]; [|exact G1].
      rewrite (held_nil _ E) in G1. rewrite G1.
      assert (f_off g = off) by (rewrite G1 in Hspanlen; cbn in Hspanlen; lia).
      rewrite H, N.eqb_refl, orb_false_r in G8. rewrite <- G8. reflexivity.
    + (* nothing was ever written: the one-byte empty stream *)
      assert (Hl0 : last_bytes_len s1 = 0).
      { destruct (N.eq_dec (last_bytes_len s1) 0) as [E|E]; [exact E|]. specialize (Hany E). congruence. }
      rewrite Hl0. cbn [N.eqb].
      assert (Hoff : f_off g = off) by (rewrite (held_nil _ Hl0) in G1; rewrite G1 in Hspanlen; cbn in Hspanlen; lia).
      assert (Hgs : f_s g = s1) by (apply G9; lia).
      assert (Hany1 : any_bytes_emitted s1 = false) by (rewrite <- Hgs; exact Ea).
      rewrite Hany1.
      destruct (N.eqb_spec (lenN (f_out g)) (f_off g)) as [E2|E2].
      * injection Hf as <-. cbn [f_s f_out f_off f_rc]. rewrite Hoff, span_nil. cbn [app].
        split; [|split; [exact G2|discriminate]].
        cbn [f_s f_out f_off f_rc]. unfold fin_owed. rewrite Hg, R2, Ea. reflexivity.
      * rewrite updN_ok in Hf by lia. injection Hf as <-. cbn [f_s f_out f_off f_rc].
        assert (Hfo : fin_owed (set_any (f_s g) true) = []).
        { unfold fin_owed. rewrite fin_prepare_fix by (right; destruct (f_s g); exact R2).
          replace (last_bytes_len (set_any (f_s g) true)) with 0 by (destruct (f_s g); cbn in *; congruence).
          destruct (f_s g); reflexivity. }
        rewrite Hfo, app_nil_r.
        split; [|split; [|reflexivity]].
        -- rewrite Hoff. rewrite setN_blit. pose proof (span_blit (f_out g) off [59] ltac:(cbn [lenN]; lia)) as X. cbn [lenN] in X.
           replace (off + N.succ 0) with (off + 1) in X by lia. exact X.
        -- rewrite Hoff. rewrite setN_blit. unfold blit. rewrite take_blit by (cbn [lenN]; lia).
           exact G2.
  - (* output full *)
    injection Hf as <-.
    assert (Hl1' : last_bytes_len s1 <> 0).
    { intros E. rewrite (held_nil _ E) in G1. apply (f_equal lenN) in G1. rewrite lenN_app, held_len in G1 by exact G6. cbn in G1. lia. }
    replace (last_bytes_len s1 =? 0) with false by (symmetry; apply N.eqb_neq; exact Hl1').
    assert (Hsan : last_byte_sanitized (f_s g) = false) by (rewrite G7; destruct Hidem as [H|H]; [exact H|contradiction]).
    unfold fin_owed. rewrite fin_prepare_fix by (left; exact Hsan).
    replace (last_bytes_len (f_s g) =? 0) with false by (symmetry; apply N.eqb_neq; exact R3).
    split; [exact G1|]. split; [exact G2|]. intros X. congruence.
Qed.

Inductive finish_calls : BroCatli -> list N -> Prop :=
  | fc_last : forall s out off f, off <= lenN out -> bytes_ok out ->
      finish s out off = Val f -> f_rc f = Success -> finish_calls s (span (f_out f) off (f_off f))
  | fc_more : forall s out off f e, off <= lenN out -> bytes_ok out ->
      finish s out off = Val f -> f_rc f = NeedsMoreOutput -> finish_calls (f_s f) e ->
      finish_calls s (span (f_out f) off (f_off f) ++ e).

Theorem finish_calls_owed s e : finish_calls s e -> InvP s -> e = fin_owed s.
Proof.
  intros H. induction H as [s out off f Hoo Hbo Hf Hrc|s out off f e Hoo Hbo Hf Hrc Hrest IH]; intros HI.
  - destruct (finish_step s out off f HI Hbo Hoo Hf) as (A & _ & _ & _ & C). rewrite (C Hrc), app_nil_r in A. exact A.
  - destruct (finish_step s out off f HI Hbo Hoo Hf) as (A & _ & B & _). rewrite <- A, (IH B). reflexivity.
Qed.

(* ------------------------------------------------------------------ whole runs *)
(* run_calls s ms e rc : the members ms are fed one after the other (new_brotli_file, then any
   protocol-following call sequence over the member's bytes), then finish is called until it
   succeeds; e = everything written, rc = Success or the error that stopped the run *)
Inductive run_calls : BroCatli -> list (list N) -> list N -> rcode -> Prop :=
  | rc_finish : forall s e, finish_calls s e -> run_calls s [] e Success
  | rc_member : forall s m ms e s' e' rc,
      member_calls false (new_brotli_file s) m e s' NeedsMoreInput -> run_calls s' ms e' rc ->
      run_calls s (m :: ms) (e ++ e') rc
  | rc_stopped : forall s m ms e s' rc,
      member_calls false (new_brotli_file s) m e s' rc -> rc <> NeedsMoreInput ->
      run_calls s (m :: ms) e rc.

Lemma phase_inv_new_file s : InvP s -> phase_inv (new_brotli_file s).
Proof.
  intros HI. destruct (InvP_new_brotli_file s HI) as (A & B). unfold phase_inv. split; [exact A|]. split; [exact B|].
  unfold new_brotli_file. destruct s; cbn. exact I.
Qed.

Lemma member_calls_keeps_inv s m e s' : InvP s -> member_calls false (new_brotli_file s) m e s' NeedsMoreInput -> InvP s'.
Proof.
  intros HI H. destruct m as [|x m].
  - inversion H; subst; try (match goal with X : false = true \/ [] <> [] |- _ => destruct X; [discriminate|congruence] end).
    apply InvP_new_brotli_file. exact HI.
  - destruct (member_calls_fut _ _ _ _ _ _ H (phase_inv_new_file s HI) ltac:(right; left; discriminate)) as (_ & B).
    destruct (B eq_refl) as (C & _). exact C.
Qed.

(* C12_slicing over the protocol relation: same members, any two protocol-following runs *)
Theorem run_slicing_independent s ms e1 rc1 : run_calls s ms e1 rc1 -> InvP s ->
  forall e2 rc2, run_calls s ms e2 rc2 -> e1 = e2 /\ rc1 = rc2.
Proof.
  intros H. induction H as [s e Hf|s m ms e s' e' rc Hm Hrest IH|s m ms e s' rc Hm Hrc]; intros HI e2 rc2 H2.
  - inversion H2; subst. rewrite (finish_calls_owed _ _ Hf HI). rewrite (finish_calls_owed _ _ H HI). auto.
  - inversion H2; subst.
    + destruct (member_slicing_independent false (new_brotli_file s) m e s' NeedsMoreInput e0 s'0 NeedsMoreInput
                  (phase_inv_new_file s HI) Hm H3) as (-> & -> & _).
      destruct (IH (member_calls_keeps_inv s m e0 s'0 HI H3) e'0 rc2 H6) as (-> & ->). auto.
    + destruct (member_slicing_independent false (new_brotli_file s) m e s' NeedsMoreInput e2 s'0 rc2
                  (phase_inv_new_file s HI) Hm H3) as (_ & _ & E). congruence.
  - inversion H2; subst.
    + destruct (member_slicing_independent false (new_brotli_file s) m e s' rc e0 s'0 NeedsMoreInput
                  (phase_inv_new_file s HI) Hm H3) as (_ & _ & E). congruence.
    + destruct (member_slicing_independent false (new_brotli_file s) m e s' rc e2 s'0 rc2
                  (phase_inv_new_file s HI) Hm H3) as (-> & _ & ->). auto.
Qed.
