(* C03, end-marker stripping at the bit level: flush_previous_stream on a held-back tail of two
   bytes or one byte removes exactly the bits  ISLAST, ISLASTEMPTY, zero padding  that
   spec/ConcatSpec.strip_end_marker removes (exhaustive over all tails), and finish puts the two
   marker bits back behind the remaining bits. *)
From Coq Require Import NArith List Bool Lia Arith PeanoNat.
From V Require Import lib.Words lib.Finite proofs.Bitops model.Concat model.ConcatRun spec.ConcatSpec
  proofs.Concat_proofs proofs.Concat_inv proofs.Concat_findings proofs.Concat_tail proofs.Concat_delay
  proofs.Concat_bitlib.
Import ListNotations.
Open Scope N_scope.

Fixpoint bl_eqb (a b : list bool) : bool :=
  match a, b with
  | [], [] => true
  | x :: a', y :: b' => Bool.eqb x y && bl_eqb a' b'
  | _, _ => false
  end.
Lemma bl_eqb_eq a : forall b, bl_eqb a b = true -> a = b.
Proof.
  induction a as [|x a IH]; intros [|y b] H; cbn [bl_eqb] in H; try discriminate; [reflexivity|].
  apply andb_true_iff in H. destruct H as [H1 H2]. apply eqb_prop in H1. subst. f_equal. apply IH. exact H2.
Qed.

(* what a sanitized one-byte tail (l0, l1, bo) must satisfy *)
Definition san_ok (l0 l1 bo : N) : bool :=
  (l0 <? 2 ^ bo) && (bo <? 8) &&
  list_eqb (reappend l0 l1 bo) (pack (byte_bits (N.to_nat bo) l0 ++ [true; true])).

(* ---- two-byte tails *)
Definition strip2_chk (a b : N) : bool :=
  match strip_end_marker (bits_of_bytes [a; b]) with
  | None => true
  | Some X =>
    match strip2 a b with
    | None => false
    | Some (e, l0, l1, bo) =>
      bl_eqb (bits_of_bytes e ++ byte_bits (N.to_nat bo) l0) X && san_ok l0 l1 bo &&
      forallb is_byte e && (lenN e <=? 1)
    end
  end.
Lemma strip2_chk_all : all_below (fun a => all_below (fun b => strip2_chk a b) 256) 256 = true.
Proof. vm_compute. reflexivity. Qed.

Lemma strip2_bits a b X : a < 256 -> b < 256 -> strip_end_marker (bits_of_bytes [a; b]) = Some X ->
  exists e l0 l1 bo, strip2 a b = Some (e, l0, l1, bo) /\
    bits_of_bytes e ++ byte_bits (N.to_nat bo) l0 = X /\ san_ok l0 l1 bo = true /\ bytes_ok e /\ lenN e <= 1.
Proof.
  intros Ha Hb HX.
  pose proof (all_below_spec _ _ strip2_chk_all a Ha) as H1. cbv beta in H1.
  pose proof (all_below_spec _ _ H1 b Hb) as H2. unfold strip2_chk in H2. rewrite HX in H2.
  destruct (strip2 a b) as [[[[e l0] l1] bo]|]; [|discriminate].
  apply andb_true_iff in H2. destruct H2 as [H2 H5]. apply andb_true_iff in H2. destruct H2 as [H2 H4].
  apply andb_true_iff in H2. destruct H2 as [H2 H3].
  exists e, l0, l1, bo. split; [reflexivity|]. split; [apply bl_eqb_eq; exact H2|]. split; [exact H3|].
  split; [apply forallb_bytes; exact H4|apply N.leb_le; exact H5].
Qed.

(* ---- one-byte tails (a five-byte member, or the pseudo-stream of a window override) *)
Definition strip1 (a : N) : option (N * N * N) :=
  match find_high 8 a 8 0 7 with
  | Panic => None
  | Val ix =>
    if ix =? 0 then None else if negb (N.shiftr a (ix - 1) =? 3) then None else
    let index := ix - 1 in
    let m := N.land a (2 ^ index - 1) in
    if 8 <=? index then None else Some (w8 m, w8 (N.shiftr m 8), index)
  end.

Definition strip1_chk (a : N) : bool :=
  match strip_end_marker (bits_of_bytes [a]) with
  | None => true
  | Some X =>
    match strip1 a with
    | None => false
    | Some (l0, l1, bo) => bl_eqb (byte_bits (N.to_nat bo) l0) X && san_ok l0 l1 bo
    end
  end.
Lemma strip1_chk_all : all_below strip1_chk 256 = true.
Proof. vm_compute. reflexivity. Qed.

Lemma strip1_bits a X : a < 256 -> strip_end_marker (bits_of_bytes [a]) = Some X ->
  exists l0 l1 bo, strip1 a = Some (l0, l1, bo) /\ byte_bits (N.to_nat bo) l0 = X /\ san_ok l0 l1 bo = true.
Proof.
  intros Ha HX. pose proof (all_below_spec _ _ strip1_chk_all a Ha) as H. unfold strip1_chk in H. rewrite HX in H.
  destruct (strip1 a) as [[[l0 l1] bo]|]; [|discriminate].
  apply andb_true_iff in H. destruct H as [H1 H2].
  exists l0, l1, bo. split; [reflexivity|]. split; [apply bl_eqb_eq; exact H1|exact H2].
Qed.

Lemma flush_strip1 a any bo0 ws pend out off l0 l1 bo :
  strip1 a = Some (l0, l1, bo) ->
  flush_previous_stream (mkBC a 0 1 false any bo0 ws pend) out off =
    Val (mkF (mkBC l0 l1 1 true any bo ws pend) out off Success).
Proof.
  intros Hs. unfold strip1 in Hs. unfold flush_previous_stream. fields.
  change (1 =? 0) with false. cbv iota. unfold mul_u8. change (1 * 8 <? 256) with true. cbv iota.
  change (1 * 8) with 8. change (N.to_nat 8) with 8%nat. change (8 - 1) with 7.
  change (N.shiftl 0 8) with 0. rewrite N.add_0_r.
  destruct (find_high 8 a 8 0 7) as [ix|]; [|discriminate].
  destruct (ix =? 0); [discriminate|].
  destruct (negb (N.shiftr a (ix - 1) =? 3)); [discriminate|].
  cbv zeta in Hs. destruct (8 <=? ix - 1); [discriminate|]. cbn [andb].
  injection Hs as <- <- <-. reflexivity.
Qed.

(* ------------------------------------------------------------------ san_ok, unpacked *)
Lemma san_ok_P l0 l1 bo : san_ok l0 l1 bo = true ->
  l0 < 2 ^ bo /\ bo < 8 /\ reappend l0 l1 bo = pack (byte_bits (N.to_nat bo) l0 ++ [true; true]).
Proof.
  unfold san_ok. intros H. apply andb_true_iff in H. destruct H as [H H3]. apply andb_true_iff in H. destruct H as [H1 H2].
  split; [apply N.ltb_lt; exact H1|]. split; [apply N.ltb_lt; exact H2|apply list_eqb_eq; exact H3].
Qed.
