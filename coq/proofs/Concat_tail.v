(* C03, the part about empty members: stripping the end marker of a member's held-back tail
   (flush_previous_stream) and re-appending it (finish) gives back exactly the two tail bytes, for
   every tail with a valid end marker at any of the 8 bit alignments including the straddling one;
   and for every supported window override the initial pseudo-stream is the RFC 7932 empty stream
   of that window, with or without an empty member fed through it. *)
From Coq Require Import NArith List Bool Lia Arith PeanoNat.
From V Require Import lib.Words lib.Finite proofs.Bitops model.Concat model.ConcatRun spec.ConcatSpec
  proofs.Concat_proofs proofs.Concat_inv proofs.Concat_findings.
Import ListNotations.
Open Scope N_scope.

(* the data path of flush_previous_stream on a two-byte tail (a, b):
   Some (bytes written out, last_bytes[0], last_bytes[1], last_byte_bit_offset) *)
Definition strip2 (a b : N) : option (list N * N * N * N) :=
  let lbs := a + N.shiftl b 8 in
  match find_high 16 lbs 16 0 15 with
  | Panic => None
  | Val ix =>
    if ix =? 0 then None else if negb (N.shiftr lbs (ix - 1) =? 3) then None else
    let index := ix - 1 in
    let m := N.land lbs (2 ^ index - 1) in
    if 8 <=? index then Some ([w8 m], w8 (N.shiftr m 8), w8 (N.shiftr m 8), index - 8)
    else Some ([], w8 m, w8 (N.shiftr m 8), index)
  end.

(* the data path of finish on a sanitized one-byte tail *)
Definition reappend (l0 l1 bo : N) : list N :=
  let lbs := N.lor (N.lor l0 (N.shiftl l1 8)) (w16 (N.shiftl 3 bo)) in
  if 8 <? bo + 2 then [w8 lbs; w8 (N.shiftr lbs 8)] else [w8 lbs].

Definition tail_ok (a b : N) : bool :=
  match strip2 a b with
  | None => true
  | Some (e, l0, l1, bo) => (b =? 0) || (list_eqb (e ++ reappend l0 l1 bo) [a; b] && (bo <? 8))
  end.

Lemma tail_ok_all : all_below (fun a => all_below (fun b => tail_ok a b) 256) 256 = true.
Proof. vm_compute. reflexivity. Qed.

Lemma list_eqb_eq a b : list_eqb a b = true -> a = b.
Proof.
  revert b. induction a as [|x a IH]; intros [|y b] H; cbn in H; try discriminate; [reflexivity|].
  apply andb_true_iff in H. destruct H as [H1 H2]. apply N.eqb_eq in H1. subst. f_equal. apply IH. exact H2.
Qed.

Lemma strip_reappend a b e l0 l1 bo : a < 256 -> b < 256 -> b <> 0 ->
  strip2 a b = Some (e, l0, l1, bo) -> e ++ reappend l0 l1 bo = [a; b] /\ bo < 8.
Proof.
  intros Ha Hb Hb0 Hs.
  pose proof (all_below_spec _ _ tail_ok_all a Ha) as H1. cbv beta in H1.
  pose proof (all_below_spec _ _ H1 b Hb) as H2. unfold tail_ok in H2. rewrite Hs in H2.
  apply N.eqb_neq in Hb0. rewrite Hb0 in H2. cbn [orb] in H2.
  apply andb_true_iff in H2. destruct H2 as [H2 H3]. split; [apply list_eqb_eq; exact H2|apply N.ltb_lt; exact H3].
Qed.

(* flush_previous_stream follows strip2 *)
Lemma flush_strip2 a b any bo0 ws pend out off e l0 l1 bo :
  strip2 a b = Some (e, l0, l1, bo) -> off + lenN e <= lenN out -> bo < 8 ->
  exists any',
  flush_previous_stream (mkBC a b 2 false any bo0 ws pend) out off =
    Val (mkF (mkBC l0 l1 1 true any' bo ws pend) (takeN off out ++ e ++ dropN (off + lenN e) out) (off + lenN e) Success).
Proof.
  intros Hs Hroom Hbo. unfold strip2 in Hs. unfold flush_previous_stream. fields.
  change (2 =? 0) with false. cbv iota. unfold mul_u8. change (2 * 8 <? 256) with true. cbv iota.
  change (2 * 8) with 16. change (N.to_nat 16) with 16%nat. change (16 - 1) with 15.
  destruct (find_high 16 (a + N.shiftl b 8) 16 0 15) as [ix|]; [|discriminate].
  destruct (ix =? 0); [discriminate|].
  destruct (negb (N.shiftr (a + N.shiftl b 8) (ix - 1) =? 3)); [discriminate|].
  cbv zeta in Hs.
  destruct (N.leb_spec 8 (ix - 1)) as [Hge|Hlt].
  - injection Hs as <- <- <- <-. cbn [lenN] in Hroom.
    replace (lenN out <=? off) with false by (symmetry; apply N.leb_gt; lia). cbn [andb].
    rewrite updN_ok by lia. fields. unfold sub_u. change (2 <? 1) with false. cbv iota.
    apply N.ltb_lt in Hbo. rewrite Hbo.
    exists true. unfold setN. cbn [lenN app]. change (2 - 1) with 1. reflexivity.
  - injection Hs as <- <- <- <-. cbn [andb].
    exists any. cbn [lenN app]. replace (off + 0) with off by lia.
    unfold takeN, dropN. rewrite firstn_skipn. reflexivity.
Qed.

Lemma upd2_nat (l : list N) : forall n x y, (n + 2 <= length l)%nat ->
  firstn (S n) (firstn n l ++ x :: skipn (S n) l) ++ y :: skipn (S (S n)) (firstn n l ++ x :: skipn (S n) l)
  = firstn n l ++ x :: y :: skipn (S (S n)) l.
Proof.
  induction l as [|a l IH]; intros n x y H; [cbn in H; lia|].
  destruct n as [|n].
  - destruct l as [|b l]; [cbn in H; lia|]. reflexivity.
  - cbn [firstn skipn app]. f_equal. apply (IH n x y). cbn in H. lia.
Qed.

Lemma setN_setN_blit out off x y : off + 2 <= lenN out ->
  setN (setN out off x) (off + 1) y = takeN off out ++ [x; y] ++ dropN (off + 2) out.
Proof.
  intros H. unfold setN, takeN, dropN.
  replace (N.to_nat (off + 1 + 1)) with (S (S (N.to_nat off))) by lia.
  replace (N.to_nat (off + 1)) with (S (N.to_nat off)) by lia.
  replace (N.to_nat (off + 2)) with (S (S (N.to_nat off))) by lia.
  rewrite upd2_nat by (rewrite lenN_length in H; lia). reflexivity.
Qed.

Lemma finish_loop_step n s out off : last_bytes_len s <> 0 -> off < lenN out ->
  finish_loop (S n) s out off =
  finish_loop n (set_any (set_lbs (set_len s (last_bytes_len s - 1)) (lb1 s) (lb1 s)) true) (setN out off (lb0 s)) (off + 1).
Proof.
  intros Hl Ho. cbn [finish_loop].
  replace (last_bytes_len s =? 0) with false by (symmetry; apply N.eqb_neq; exact Hl).
  replace (off =? lenN out) with false by (symmetry; apply N.eqb_neq; lia).
  rewrite updN_ok by exact Ho. unfold sub_u.
  replace (last_bytes_len s <? 1) with false by (symmetry; apply N.ltb_ge; lia). reflexivity.
Qed.

(* finish follows reappend (whatever new_stream_pending holds) *)
Lemma finish_reappend l0 l1 bo any ws pend out off :
  bo < 8 -> l0 < 256 -> off + lenN (reappend l0 l1 bo) <= lenN out ->
  exists s',
  finish (mkBC l0 l1 1 true any bo ws pend) out off =
    Val (mkF s' (takeN off out ++ reappend l0 l1 bo ++ dropN (off + lenN (reappend l0 l1 bo)) out)
             (off + lenN (reappend l0 l1 bo)) Success).
Proof.
  intros Hbo Hl0 Hroom. unfold finish. fields. change (1 =? 0) with false. cbn [negb andb].
  unfold append_eof_metablock_to_last_bytes. fields. cbn [negb].
  unfold sub_u, mul_u8, add_u8. change (1 <? 1) with false. cbv iota. change (1 - 1) with 0. change (0 * 8) with 0.
  change (0 <? 256) with true. cbv iota. replace (0 + bo) with bo by lia.
  replace (bo <? 256) with true by (symmetry; apply N.ltb_lt; lia).
  replace (16 <=? bo) with false by (symmetry; apply N.leb_gt; lia).
  fields. replace (bo + 2 <? 256) with true by (symmetry; apply N.ltb_lt; lia).
  unfold reappend in *. set (lbs := N.lor (N.lor l0 (N.shiftl l1 8)) (w16 (N.shiftl 3 bo))) in *.
  destruct (N.ltb_spec 8 (bo + 2)) as [Hsp|Hsp].
  - (* the marker spills into a second byte *)
    fields. change (1 + 1 <? 256) with true. cbv iota. cbn [lenN] in Hroom.
    change 256%nat with (S 255). rewrite finish_loop_step by (fields; lia). fields.
    change 255%nat with (S 254). rewrite finish_loop_step by (fields; rewrite ?lenN_setN by lia; lia). fields.
    change (1 + 1 - 1 - 1) with 0.
    change 254%nat with (S 253). rewrite (finish_loop_empty 253) by reflexivity. fields. cbn [negb].
    eexists. rewrite setN_setN_blit by lia. cbn [lenN]. 
    replace (off + N.succ (N.succ 0)) with (off + 2) by lia. replace (off + 1 + 1) with (off + 2) by lia. reflexivity.
  - (* the marker fits into the tail byte *)
    cbn [lenN] in Hroom.
    change 256%nat with (S 255). rewrite finish_loop_step by (fields; lia). fields.
    change (1 - 1) with 0.
    change 255%nat with (S 254). rewrite (finish_loop_empty 254) by reflexivity. fields. cbn [negb].
    eexists. unfold setN. cbn [lenN app]. reflexivity.
Qed.

(* for every supported window override: finish alone, and finish after an empty member, emit the
   RFC 7932 empty stream of that window *)
Definition override_ok (w : N) : bool :=
  match concat_spec (Some w) [] with
  | None => false
  | Some e =>
    list_eqb (rr_emitted (run_native 50 [8] false false [] [TFinish] (init (Some w)))) e &&
    list_eqb (rr_emitted (run_native 50 [8] false false [] [TFile; TChunk [59]; TFinish] (init (Some w)))) e &&
    list_eqb (rr_emitted (run_native 50 [8] false false [] [TFile; TChunk [6]; TFile; TChunk [129; 1]; TFinish] (init (Some w)))) e &&
    list_eqb e (pack (wbits_field w ++ [true; true]))
  end.
Lemma override_ok_all : all_between override_ok 10 21 = true.
Proof. vm_compute. reflexivity. Qed.

Lemma skipn_add (l : list N) : forall a b, skipn a (skipn b l) = skipn (b + a) l.
Proof.
  induction l as [|x l IH]; intros a b; [rewrite !skipn_nil; reflexivity|].
  destruct b as [|b]; [reflexivity|]. cbn [skipn Nat.add]. apply IH.
Qed.

Lemma app_two (e r : list N) a b : e ++ r = [a; b] -> lenN e + lenN r = 2.
Proof. intros H. rewrite <- lenN_app, H. reflexivity. Qed.

(* strip, then re-append: the two tail bytes come out again, in place *)
Theorem tail_roundtrip a b any bo0 ws pend pend' out off e l0 l1 bo :
  a < 256 -> b < 256 -> b <> 0 -> strip2 a b = Some (e, l0, l1, bo) -> off + 2 <= lenN out ->
  exists f g, flush_previous_stream (mkBC a b 2 false any bo0 ws pend) out off = Val f /\ f_rc f = Success /\
    finish (set_pending (f_s f) pend') (f_out f) (f_off f) = Val g /\ f_rc g = Success /\
    f_off g = off + 2 /\ f_out g = takeN off out ++ [a; b] ++ dropN (off + 2) out.
Proof.
  intros Ha Hb Hb0 Hs Hroom.
  destruct (strip_reappend a b e l0 l1 bo Ha Hb Hb0 Hs) as [Hab Hbo].
  pose proof (app_two _ _ _ _ Hab) as Hlen.
  destruct (flush_strip2 a b any bo0 ws pend out off e l0 l1 bo Hs ltac:(lia) Hbo) as (any' & Ef).
  set (out1 := takeN off out ++ e ++ dropN (off + lenN e) out) in *.
  assert (L1 : lenN out1 = lenN out) by (subst out1; apply lenN_blit; lia).
  assert (Hl0 : l0 < 256).
  { unfold strip2 in Hs. destruct (find_high _ _ _ _ _); [|discriminate].
    destruct (_ =? 0); [discriminate|]. destruct (negb _); [discriminate|]. cbv zeta in Hs.
    destruct (8 <=? _); injection Hs as _ <- _ _; apply w8_lt. }
  destruct (finish_reappend l0 l1 bo any' ws pend' out1 (off + lenN e) Hbo Hl0 ltac:(rewrite L1; lia)) as (s' & Eg).
  eexists. eexists. split; [exact Ef|]. split; [reflexivity|]. fields.
  split; [exact Eg|]. fields. split; [reflexivity|]. split; [lia|].
  (* the two blits compose into one blit of e ++ reappend = [a; b] *)
  subst out1. unfold takeN, dropN.
  assert (Hlo : (N.to_nat off <= length out)%nat) by (rewrite lenN_length in Hroom; lia).
  assert (He : (length e <= 2)%nat) by (rewrite !lenN_length in Hlen; lia).
  rewrite firstn_app, firstn_length, Nat.min_l by exact Hlo.
  rewrite firstn_all2 by (rewrite firstn_length; lia).
  replace (N.to_nat (off + lenN e) - N.to_nat off)%nat with (length e) by (rewrite lenN_length; lia).
  rewrite firstn_app, firstn_all, Nat.sub_diag. cbn [firstn]. rewrite app_nil_r.
  rewrite skipn_app, firstn_length, Nat.min_l by exact Hlo.
  rewrite skipn_all2 by (rewrite firstn_length; lia). cbn [app].
  replace (N.to_nat (off + lenN e + lenN (reappend l0 l1 bo)) - N.to_nat off)%nat with (length e + length (reappend l0 l1 bo))%nat
    by (rewrite !lenN_length; lia).
  rewrite skipn_app. rewrite skipn_all2 by lia. cbn [app].
  replace (length e + length (reappend l0 l1 bo) - length e)%nat with (length (reappend l0 l1 bo)) by lia.
  rewrite skipn_add.
  rewrite <- !app_assoc. f_equal. rewrite app_assoc, Hab. cbn [app]. f_equal. f_equal. f_equal.
  rewrite !lenN_length in *. lia.
Qed.

Lemma collect_short s c : lenN c < 5 ->
  exists p1, collect_header s nsd_new c 0 = Val (set_pending s (Some p1), p1, lenN c) /\
             num_bytes_read p1 = lenN c /\ num_bytes_written p1 = None.
Proof.
  intros Hc. unfold collect_header, nsd_new. cbn [bytes_so_far num_bytes_read num_bytes_written lenN].
  change (0 <? N.succ (N.succ (N.succ (N.succ (N.succ 0))))) with true. cbv iota.
  unfold sub_u. change (N.succ (N.succ (N.succ (N.succ (N.succ 0)))) <? 0) with false.
  replace (lenN c <? 0) with false by (symmetry; apply N.ltb_ge; lia).
  replace (N.min (N.succ (N.succ (N.succ (N.succ (N.succ 0)))) - 0) (lenN c - 0)) with (lenN c) by lia.
  destruct (subN_ok c 0 (lenN c) ltac:(lia)) as [E1 L1]. rewrite E1.
  rewrite blitN_ok by (rewrite L1; cbn [lenN]; lia).
  unfold add_u8. rewrite (w8_small (lenN c)) by lia. replace (0 + lenN c <? 256) with true by (symmetry; apply N.ltb_lt; lia).
  eexists. split; [reflexivity|]. cbn [num_bytes_read num_bytes_written]. split; [lia|reflexivity].
Qed.

(* A member shorter than the look-ahead (necessarily an empty stream), fed in one buffer after a
   member whose last two bytes are (a, b) with a valid end marker, followed by finish: exactly the
   two held-back bytes come out. *)
Theorem empty_member_keeps_tail a b any bo0 ws c out off e l0 l1 bo :
  a < 256 -> b < 256 -> b <> 0 -> strip2 a b = Some (e, l0, l1, bo) -> lenN c < 5 -> off + 2 <= lenN out ->
  exists r g, stream (new_brotli_file (mkBC a b 2 false any bo0 ws None)) c 0 out off = Val r /\
    r_rc r = NeedsMoreInput /\ r_in r = lenN c /\
    finish (r_s r) (r_out r) (r_off r) = Val g /\ f_rc g = Success /\
    f_off g = off + 2 /\ f_out g = takeN off out ++ [a; b] ++ dropN (off + 2) out.
Proof.
  intros Ha Hb Hb0 Hs Hc Hroom.
  destruct (strip_reappend a b e l0 l1 bo Ha Hb Hb0 Hs) as [Hab Hbo].
  pose proof (app_two _ _ _ _ Hab) as Hlen.
  unfold new_brotli_file, set_pending. fields.
  destruct (flush_strip2 a b any bo0 ws (Some nsd_new) out off e l0 l1 bo Hs ltac:(lia) Hbo) as (any' & Ef).
  destruct (collect_short (mkBC l0 l1 1 true any' bo ws (Some nsd_new)) c Hc) as (p1 & Ec & Er & Ew).
  destruct (tail_roundtrip a b any bo0 ws (Some nsd_new) (Some p1) out off e l0 l1 bo Ha Hb Hb0 Hs Hroom)
    as (f & g & Ef' & Frc & Eg & Grc & Goff & Gout).
  rewrite Ef in Ef'. injection Ef' as <-. fields.
  unfold stream. fields. rewrite Ef. fields. cbn [nsd_new num_bytes_written is_none].
  rewrite Ec. cbn [andb]. unfold sufficient, NUM_STREAM_HEADER_BYTES. rewrite Er.
  replace (lenN c =? 5) with false by (symmetry; apply N.eqb_neq; lia). cbn [negb].
  eexists. exists g. split; [reflexivity|]. cbn [r_s r_in r_out r_off r_rc].
  split; [reflexivity|]. split; [reflexivity|]. split; [exact Eg|]. split; [exact Grc|]. split; [exact Goff|exact Gout].
Qed.

(* the model's marker search succeeds exactly on the tails that end in a marker *)
Definition strip2_defined (a b : N) : bool :=
  negb (end_marker_ok a b) || match strip2 a b with Some _ => true | None => false end.
Lemma strip2_defined_all : all_below (fun a => all_below (fun b => strip2_defined a b) 256) 256 = true.
Proof. vm_compute. reflexivity. Qed.

Lemma end_marker_strip2 a b : a < 256 -> b < 256 -> end_marker_ok a b = true ->
  b <> 0 /\ exists e l0 l1 bo, strip2 a b = Some (e, l0, l1, bo).
Proof.
  intros Ha Hb Hm.
  pose proof (all_below_spec _ _ strip2_defined_all a Ha) as H1. cbv beta in H1.
  pose proof (all_below_spec _ _ H1 b Hb) as H2. unfold strip2_defined in H2. rewrite Hm in H2. cbn [negb orb] in H2.
  split.
  - unfold end_marker_ok in Hm. apply andb_true_iff in Hm. destruct Hm as [Hm _]. apply andb_true_iff in Hm. destruct Hm as [Hm _].
    apply negb_true_iff, N.eqb_neq in Hm. exact Hm.
  - destruct (strip2 a b) as [[[[e l0] l1] bo]|]; [|discriminate]. exists e, l0, l1, bo. reflexivity.
Qed.

Theorem empty_member_keeps_tail_spec a b any bo0 ws c out off :
  a < 256 -> b < 256 -> end_marker_ok a b = true -> lenN c < 5 -> off + 2 <= lenN out ->
  exists r g, stream (new_brotli_file (mkBC a b 2 false any bo0 ws None)) c 0 out off = Val r /\
    r_rc r = NeedsMoreInput /\ r_in r = lenN c /\
    finish (r_s r) (r_out r) (r_off r) = Val g /\ f_rc g = Success /\
    f_off g = off + 2 /\ f_out g = takeN off out ++ [a; b] ++ dropN (off + 2) out.
Proof.
  intros Ha Hb Hm Hc Hroom. destruct (end_marker_strip2 a b Ha Hb Hm) as (Hb0 & e & l0 & l1 & bo & Hs).
  eapply empty_member_keeps_tail; eassumption.
Qed.

Theorem override_empty w : 10 <= w -> w <= 30 -> override_ok w = true.
Proof. intros H1 H2. apply (all_between_spec _ _ _ override_ok_all w H1). lia. Qed.
