(* C10: encoder and decoder agree on where a custom dictionary sits (model/Dict.v). *)
From Coq Require Import NArith ZArith List Bool Lia.
From V Require Import lib.Words model.Arith spec.IrReplay model.Dict.
Import ListNotations.
Open Scope N_scope.

Lemma sanitize_lgwin_range l lw : 10 <= sanitize_lgwin l lw <= 30.
Proof.
  unfold sanitize_lgwin. destruct (N.ltb_spec l 10); [lia|].
  destruct (N.ltb_spec 24 l); [|lia]. destruct lw; lia.
Qed.
Lemma sanitize_lgwin_id l lw : 10 <= l <= 24 -> sanitize_lgwin l lw = l.
Proof.
  intros H. unfold sanitize_lgwin. destruct (N.ltb_spec l 10); [lia|]. destruct (N.ltb_spec 24 l); [lia|reflexivity].
Qed.
Lemma sanitize_quality_range q : sanitize_quality q <= 11.
Proof. unfold sanitize_quality. lia. Qed.

Lemma pow2_bounds l : 10 <= l <= 30 -> 1024 <= 2 ^ l <= 2 ^ 30.
Proof.
  intros [H1 H2]. split.
  - change 1024 with (2 ^ 10). apply N.pow_le_mono_r; lia.
  - apply N.pow_le_mono_r; lia.
Qed.
Lemma window_of_sane l : 10 <= l <= 30 -> wsub64 (N.shiftl 1 l) 16 = 2 ^ l - 16.
Proof.
  intros H. rewrite N.shiftl_1_l. pose proof (pow2_bounds l H) as [B1 B2].
  remember (2 ^ l) as a. unfold wsub64, w64. change (16 mod 2 ^ 64) with 16.
  replace (a + 2 ^ 64 - 16) with ((a - 16) + 1 * 2 ^ 64) by lia.
  rewrite N.mod_add by discriminate. apply N.mod_small.
  eapply N.le_lt_trans; [apply N.le_sub_l|]. eapply N.le_lt_trans; [exact B2|]. reflexivity.
Qed.

(* the decoder's case distinction is min(p + kept, max backward distance) *)
Lemma dec_max_distance_min size wbits p :
  dec_max_distance (dec_dict_setup size wbits) p =
  N.min (p + d_kept (dec_dict_setup size wbits)) (2 ^ wbits - 16).
Proof.
  unfold dec_max_distance, dec_dict_setup. cbn [d_minus d_kept d_mbd].
  remember (2 ^ wbits - 16) as mbd.
  destruct (N.ltb_spec mbd size) as [Hs|Hs]; destruct (Z.ltb_spec (Z.of_N p) (Z.of_N mbd - Z.of_N size)); lia.
Qed.

Theorem positions_agree size q_raw lgwin_raw lw ud :
  exists e, enc_dict_setup size q_raw lgwin_raw lw ud = DOk e /\
  let q := sanitize_quality q_raw in
  let d := dec_dict_setup size (header_wbits q (e_lgwin e)) in
  e_lgwin e = sanitize_lgwin lgwin_raw lw /\ e_static e = ud /\
  (2 <= q -> e_kept e = d_kept d /\ e_selfcontained e = (size =? 0)
             /\ forall p, enc_max_distance e p = dec_max_distance d p) /\
  (q <= 1 -> e_kept e = 0 /\ e_custom e = false /\ e_selfcontained e = true
             /\ forall p, enc_max_distance e p <= dec_max_distance d p).
Proof.
  unfold enc_dict_setup, enc_dict_setup_gen. cbn [andb].
  pose proof (sanitize_lgwin_range lgwin_raw lw) as Hl.
  remember (sanitize_lgwin lgwin_raw lw) as l. remember (sanitize_quality q_raw) as q.
  rewrite (window_of_sane l Hl). rewrite orb_false_r.
  destruct (N.eqb_spec size 0) as [Es|Es]; cbn [orb].
  - (* empty dictionary *)
    eexists. split; [reflexivity|]. cbn [e_lgwin e_static e_kept e_custom e_selfcontained].
    split; [reflexivity|]. split; [reflexivity|]. split.
    + intros Hq. unfold header_wbits. destruct (N.leb_spec q 1); [lia|]. subst size.
      assert (Hk0 : d_kept (dec_dict_setup 0 l) = 0).
      { unfold dec_dict_setup. cbn [d_kept]. destruct (N.ltb_spec (2 ^ l - 16) 0); [lia|reflexivity]. }
      split; [symmetry; exact Hk0|]. split; [reflexivity|]. intros p. rewrite dec_max_distance_min, Hk0.
      unfold enc_max_distance. cbn [e_kept e_lgwin]. f_equal. lia.
    + intros Hq. split; [reflexivity|]. split; [reflexivity|]. split; [reflexivity|]. intros p.
      rewrite dec_max_distance_min. unfold enc_max_distance, header_wbits. cbn [e_kept e_lgwin].
      destruct (N.leb_spec q 1); [|lia].
      assert (2 ^ l <= 2 ^ N.max l 18) by (apply N.pow_le_mono_r; lia). lia.
  - destruct (N.eqb_spec q 0) as [E0|E0]; [|destruct (N.eqb_spec q 1) as [E1|E1]]; cbn [orb].
    + eexists. split; [reflexivity|]. cbn [e_lgwin e_static e_kept e_custom e_selfcontained].
      split; [reflexivity|]. split; [reflexivity|]. split; [intros; lia|].
      intros _. split; [reflexivity|]. split; [reflexivity|]. split; [reflexivity|]. intros p.
      rewrite dec_max_distance_min. unfold enc_max_distance, header_wbits. cbn [e_kept e_lgwin].
      destruct (N.leb_spec q 1); [|lia].
      assert (2 ^ l <= 2 ^ N.max l 18) by (apply N.pow_le_mono_r; lia). lia.
    + eexists. split; [reflexivity|]. cbn [e_lgwin e_static e_kept e_custom e_selfcontained].
      split; [reflexivity|]. split; [reflexivity|]. split; [intros; lia|].
      intros _. split; [reflexivity|]. split; [reflexivity|]. split; [reflexivity|]. intros p.
      rewrite dec_max_distance_min. unfold enc_max_distance, header_wbits. cbn [e_kept e_lgwin].
      destruct (N.leb_spec q 1); [|lia].
      assert (2 ^ l <= 2 ^ N.max l 18) by (apply N.pow_le_mono_r; lia). lia.
    + eexists. split; [reflexivity|]. cbn [e_lgwin e_static e_kept e_custom e_selfcontained].
      split; [reflexivity|]. split; [reflexivity|]. split; [|intros; lia].
      intros Hq. unfold header_wbits. destruct (N.leb_spec q 1); [lia|].
      assert (Hk : (if 2 ^ l - 16 <? size then 2 ^ l - 16 else size) = d_kept (dec_dict_setup size l)) by reflexivity.
      split; [exact Hk|]. split; [reflexivity|]. intros p. rewrite dec_max_distance_min, <- Hk.
      unfold enc_max_distance. cbn [e_kept e_lgwin]. f_equal. lia.
Qed.

(* equal max_distance: every distance is read the same way; a smaller one on the encoder side:
   what the encoder meant as a copy is still read as that copy *)
Lemma reading_same m1 m2 dist : m1 = m2 -> read_distance m1 dist = read_distance m2 dist.
Proof. intros ->. reflexivity. Qed.
Lemma reading_copy_stays m1 m2 dist : m1 <= m2 -> dist <= m1 -> read_distance m2 dist = RCopy dist.
Proof. intros H1 H2. unfold read_distance. destruct (N.leb_spec dist m2); [reflexivity|lia]. Qed.

(* ---- the code as found ---- *)
Lemma unfixed_one_byte :
  exists e, enc_dict_setup_unfixed 1 5 18 false true = DOk e /\
    e_kept e = 0 /\ e_static e = true /\ d_kept (dec_dict_setup 1 (header_wbits 5 (e_lgwin e))) = 1 /\
    read_distance (enc_max_distance e 10) 12 = RWord 1 /\
    read_distance (dec_max_distance (dec_dict_setup 1 (header_wbits 5 (e_lgwin e))) 10) 12 = RWord 0 /\
    read_distance (enc_max_distance e 10) 11 = RWord 0 /\
    read_distance (dec_max_distance (dec_dict_setup 1 (header_wbits 5 (e_lgwin e))) 10) 11 = RCopy 11.
Proof. eexists. split; [reflexivity|]. vm_compute. repeat split; reflexivity. Qed.
Lemma unfixed_small_lgwin :
  exists e, enc_dict_setup_unfixed 1500 5 5 false true = DOk e /\
    e_kept e = 16 /\ e_lgwin e = 10 /\ d_kept (dec_dict_setup 1500 (header_wbits 5 (e_lgwin e))) = 1008 /\
    read_distance (enc_max_distance e 100) 200 = RWord 83 /\
    read_distance (dec_max_distance (dec_dict_setup 1500 (header_wbits 5 (e_lgwin e))) 100) 200 = RCopy 200.
Proof. eexists. split; [reflexivity|]. vm_compute. repeat split; reflexivity. Qed.
Lemma unfixed_shift_panic : enc_dict_setup_unfixed 100 5 64 false true = DPanic PShiftOverflow.
Proof. reflexivity. Qed.
(* the repaired code on the same inputs *)
Lemma fixed_examples :
  (exists e, enc_dict_setup 1 5 18 false true = DOk e /\ e_kept e = 1 /\ e_custom e = true) /\
  (exists e, enc_dict_setup 1500 5 5 false true = DOk e /\ e_kept e = 1008 /\ e_lgwin e = 10) /\
  (exists e, enc_dict_setup 100 5 64 false true = DOk e /\ e_kept e = 100 /\ e_lgwin e = 24) /\
  (exists e, enc_dict_setup 16777201 9 24 false true = DOk e /\ e_kept e = 16777200) /\
  (exists e, enc_dict_setup 300 1 22 false true = DOk e /\ e_kept e = 0 /\ e_selfcontained e = true).
Proof. repeat split; eexists; (split; [reflexivity|]); vm_compute; repeat split; reflexivity. Qed.

(* prefixes as lists, and the transfer of command-level well-formedness (spec/IrReplay.v cmds_ok:
   the decoder's reading of a meta-block's command list over a given prefix) *)
Lemma prefixes_agree (dict : list N) size q_raw lgwin_raw lw ud e :
  N.of_nat (length dict) = size -> 2 <= sanitize_quality q_raw ->
  enc_dict_setup size q_raw lgwin_raw lw ud = DOk e ->
  kept_suffix dict (e_kept e) = kept_suffix dict (d_kept (dec_dict_setup size (e_lgwin e))).
Proof.
  intros Hlen Hq He. destruct (positions_agree size q_raw lgwin_raw lw ud) as (e' & He' & _ & _ & H2 & _).
  rewrite He in He'. inversion He'; subst e'. destruct (H2 Hq) as [Hk _].
  unfold header_wbits in Hk. destruct (N.leb_spec (sanitize_quality q_raw) 1); [lia|]. rewrite Hk. reflexivity.
Qed.
Lemma commands_transfer dict_word transforms (dict mb : list N) ring cmds nd np size q_raw lgwin_raw lw ud e :
  N.of_nat (length dict) = size -> 2 <= sanitize_quality q_raw ->
  enc_dict_setup size q_raw lgwin_raw lw ud = DOk e ->
  cmds_ok dict_word transforms (e_lgwin e) nd np (kept_suffix dict (e_kept e)) mb ring cmds =
  cmds_ok dict_word transforms (e_lgwin e) nd np (kept_suffix dict (d_kept (dec_dict_setup size (e_lgwin e)))) mb ring cmds.
Proof. intros Hlen Hq He. rewrite (prefixes_agree dict size q_raw lgwin_raw lw ud e Hlen Hq He). reflexivity. Qed.

Lemma positions_ok_model size q_raw lgwin_raw lw ud e :
  enc_dict_setup size q_raw lgwin_raw lw ud = DOk e ->
  positions_ok (sanitize_quality q_raw) (e_kept e)
               (d_kept (dec_dict_setup size (header_wbits (sanitize_quality q_raw) (e_lgwin e)))) = true.
Proof.
  intros He. destruct (positions_agree size q_raw lgwin_raw lw ud) as (e' & He' & _ & _ & H2 & H1).
  rewrite He in He'. inversion He'; subst e'. unfold positions_ok.
  destruct (N.leb_spec 2 (sanitize_quality q_raw)) as [Hq|Hq].
  - destruct (H2 Hq) as [Hk _]. apply N.eqb_eq. exact Hk.
  - destruct (H1 ltac:(lia)) as [Hk _]. apply N.eqb_eq. exact Hk.
Qed.
