(* C01: the encoder's copy of the decoder's last-distance ring across meta-blocks that end up stored. *)
From Coq Require Import NArith ZArith List Bool.
From V Require Import lib.PMap gen.GenFormat spec.RfcTables spec.PrefixCode spec.Decoder model.DistCache.
Import ListNotations.

(* encoder side: a meta-block that is re-emitted uncompressed -- by either fallback -- leaves both caches as
   they were before the block, whatever the match finder did to the working cache *)
Lemma stored_block_keeps_caches saved advanced o : o <> EmittedCompressed ->
  caches_after_block saved advanced o = (saved, saved).
Proof. destruct o; intros H; [reflexivity|reflexivity|congruence]. Qed.

(* a compressed meta-block hands the advanced cache on *)
Lemma compressed_block_hands_on saved advanced :
  caches_after_block saved advanced EmittedCompressed = (advanced, advanced).
Proof. reflexivity. Qed.

(* a catable stream starts with both caches poisoned with a value beyond every window; hence a stored FIRST
   meta-block (which restores from the saved cache) leaves them poisoned *)
Definition poison : Z := 2147483632.   (* 0x7ffffff0 *)
Lemma catable_caches_poisoned : initial_caches true = (fill poison, fill poison).
Proof. reflexivity. Qed.
Lemma catable_first_block_stored advanced o : o <> EmittedCompressed ->
  caches_after_block (snd (initial_caches true)) advanced o = (fill poison, fill poison).
Proof. intros H. rewrite stored_block_keeps_caches by exact H. reflexivity. Qed.
Lemma poison_beyond_every_window : (2 ^ 30 - 16 + 3 < poison /\ poison + 3 < 2 ^ 31)%Z.
Proof. unfold poison. split; reflexivity. Qed.

(* decoder side (RFC 7932 section 4: only copies update the ring): an uncompressed or a metadata meta-block
   leaves the decoder spec's ring untouched *)
Section Dec.
  Variable dict_word : N -> N -> list N.
  Variable transform_tbl : N -> option (list N * N * list N).
  Lemma decoder_ring_untouched large window budget s s' islast mlen r :
    read_mb_header (d_bits s) = Ok ((islast, MbData mlen true), r) ->
    meta_block dict_word transform_tbl large window budget s = Continue s' -> d_ring s' = d_ring s.
  Proof.
    intros H M. unfold meta_block in M. rewrite H in M.
    destruct (bind align (fun _ => rbytes mlen) r) as [[data r4]|e]; [|discriminate].
    inversion M. reflexivity.
  Qed.
  Lemma decoder_ring_untouched_metadata large window budget s s' islast r :
    read_mb_header (d_bits s) = Ok ((islast, MbMetadata), r) ->
    meta_block dict_word transform_tbl large window budget s = Continue s' -> d_ring s' = d_ring s.
  Proof.
    intros H M. unfold meta_block in M. rewrite H in M.
    destruct (read_metadata_body r) as [[x r3]|e]; [|discriminate].
    destruct islast; [discriminate|]. inversion M. reflexivity.
  Qed.
End Dec.
