(* C18: distance prefix arithmetic (PrefixEncodeCopyDistance / restore_distance_code)
   against RFC 7932 section 4, for every npostfix <= 3, ndirect <= 120, code < 2^31. *)
From Coq Require Import NArith ZArith List Lia Bool.
From V Require Import lib.Words gen.GenArith spec.RfcTables model.Arith proofs.Bitops.
Import ListNotations.
Open Scope N_scope.

Lemma w16_small x : x < 2 ^ 16 -> w16 x = x. Proof. intros; apply N.mod_small; assumption. Qed.
Lemma w32_small x : x < 2 ^ 32 -> w32 x = x. Proof. intros; apply N.mod_small; assumption. Qed.
Lemma w64_small x : x < 2 ^ 64 -> w64 x = x. Proof. intros; apply N.mod_small; assumption. Qed.
Lemma wadd64_small a b : a + b < 2 ^ 64 -> wadd64 a b = a + b. Proof. intros; apply w64_small; assumption. Qed.
Lemma wadd32_small a b : a + b < 2 ^ 32 -> wadd32 a b = a + b. Proof. intros; apply w32_small; assumption. Qed.
Lemma wsub64_small a b : b <= a -> a < 2 ^ 64 -> wsub64 a b = a - b.
Proof.
  intros H1 H2. unfold wsub64, w64. rewrite (N.mod_small b) by lia.
  replace (a + 2 ^ 64 - b) with ((a - b) + 1 * 2 ^ 64) by lia.
  rewrite N.mod_add by lia. apply N.mod_small. lia.
Qed.
Lemma wsub32_small a b : b <= a -> a < 2 ^ 32 -> wsub32 a b = a - b.
Proof.
  intros H1 H2. unfold wsub32, w32. rewrite (N.mod_small b) by lia.
  replace (a + 2 ^ 32 - b) with ((a - b) + 1 * 2 ^ 32) by lia.
  rewrite N.mod_add by lia. apply N.mod_small. lia.
Qed.
Lemma wshl64_small a k : a * 2 ^ k < 2 ^ 64 -> wshl64 a k = a * 2 ^ k.
Proof. intros H. unfold wshl64. rewrite N.shiftl_mul_pow2. apply w64_small; exact H. Qed.
Lemma wshl32_small a k : a * 2 ^ k < 2 ^ 32 -> wshl32 a k = a * 2 ^ k.
Proof. intros H. unfold wshl32. rewrite N.shiftl_mul_pow2. apply w32_small; exact H. Qed.
Lemma wmul64_small a b : a * b < 2 ^ 64 -> wmul64 a b = a * b. Proof. intros; apply w64_small; assumption. Qed.

Lemma pow2_le_2_31 k : k <= 31 -> 2 ^ k <= 2 ^ 31.
Proof. intros; apply N.pow_le_mono_r; lia. Qed.

(* The shape of a long distance code, in div/mod form.  D = 2^(np+2) + dc - 16 - nd,
   2P <= D < 4P with P = 2^np * Q, Q = 2^nbits, q = D / P in {2,3}. *)
Record dshape (np nd dc nbits Q q : N) : Prop := {
  ds_nbits : 1 <= nbits /\ nbits <= 30;
  ds_Q : Q = 2 ^ nbits;
  ds_q : q = 2 \/ q = 3;
  ds_lo : q * (2 ^ np * Q) <= 2 ^ (np + 2) + (dc - 16 - nd);
  ds_hi : 2 ^ (np + 2) + (dc - 16 - nd) < (q + 1) * (2 ^ np * Q);
  ds_code : fst (prefix_encode_copy_distance dc nd np) =
            nbits * 1024 + (16 + nd + (2 * (nbits - 1) + (q - 2)) * 2 ^ np + (2 ^ (np + 2) + (dc - 16 - nd)) mod 2 ^ np);
  ds_extra : snd (prefix_encode_copy_distance dc nd np) =
            (2 ^ (np + 2) + (dc - 16 - nd) - q * (2 ^ np * Q)) / 2 ^ np
}.

Lemma pecd_shape np nd dc : np <= 3 -> nd <= 120 -> 16 + nd <= dc -> dc < 2 ^ 31 ->
  exists nbits Q q, dshape np nd dc nbits Q q.
Proof.
  intros Hnp Hnd Hlo Hhi.
  remember (2 ^ (np + 2) + (dc - 16 - nd)) as D eqn:ED.
  assert (Hpow : 2 ^ (np + 2) <= 32) by (change 32 with (2 ^ 5); apply N.pow_le_mono_r; lia).
  assert (Hpow1 : 4 <= 2 ^ (np + 2)) by (change 4 with (2 ^ 2); apply N.pow_le_mono_r; lia).
  assert (HD32 : D < 2 ^ 32) by (subst D; lia).
  assert (HD0 : D <> 0) by (subst D; lia).
  destruct (N.log2_spec D ltac:(lia)) as [Hb1 Hb2].
  remember (N.log2 D) as b eqn:Eb.
  assert (Hbge : np + 2 <= b).
  { rewrite Eb. rewrite <- (N.log2_pow2 (np + 2)) by lia. apply N.log2_le_mono. subst D. lia. }
  assert (Hblt : b < 32) by (rewrite Eb; apply N.log2_lt_pow2; lia).
  remember (b - 1 - np) as nbits eqn:Enb.
  remember (2 ^ nbits) as Q eqn:EQ.
  remember (2 ^ (b - 1)) as P eqn:EP.
  assert (HPQ : P = 2 ^ np * Q) by (subst P Q nbits; rewrite <- N.pow_add_r; f_equal; lia).
  assert (H2P : 2 ^ b = 2 * P) by (subst P; replace b with (N.succ (b - 1)) at 1 by lia; apply N.pow_succ_r'; lia).
  assert (H4P : 2 ^ N.succ b = 4 * P) by (rewrite N.pow_succ_r', H2P; lia).
  assert (HP0 : P <> 0) by (subst P; apply N.pow_nonzero; lia).
  remember (D / P) as q eqn:Eq.
  assert (Hq2 : 2 <= q) by (subst q; apply N.div_le_lower_bound; lia).
  assert (Hq4 : q < 4) by (subst q; apply N.div_lt_upper_bound; lia).
  assert (Hqdm : exists r, D = P * q + r /\ r < P).
  { exists (D mod P). split; [subst q; apply N.div_mod; exact HP0|apply N.mod_lt; exact HP0]. }
  destruct Hqdm as [r [Hqdm Hmod]].
  assert (Hpfx : q mod 2 = q - 2).
  { assert (q = 2 \/ q = 3) as [->| ->] by lia; reflexivity. }
  assert (HPle : P <= 2 ^ 30) by (subst P; apply N.pow_le_mono_r; lia).
  assert (Hnp_pow : 2 ^ np <= 8) by (change 8 with (2 ^ 3); apply N.pow_le_mono_r; lia).
  assert (Hnp_pos : 1 <= 2 ^ np) by (apply N.lt_pred_le, N.neq_0_lt_0, N.pow_nonzero; lia).
  exists nbits, Q, q.
  (* evaluate the model *)
  assert (EV : prefix_encode_copy_distance dc nd np =
     (nbits * 1024 + (16 + nd + (2 * (nbits - 1) + (q - 2)) * 2 ^ np + D mod 2 ^ np),
      (D - q * P) / 2 ^ np)).
  { unfold prefix_encode_copy_distance. change BROTLI_NUM_DISTANCE_SHORT_CODES with 16.
    rewrite (wadd64_small 16 nd) by lia.
    destruct (N.ltb_spec dc (16 + nd)) as [Hc|_]; [lia|].
    rewrite (wadd64_small np 2) by lia.
    rewrite (wshl64_small 1 (np + 2)) by lia. rewrite N.mul_1_l.
    rewrite (wsub64_small dc 16) by lia.
    rewrite (wsub64_small (dc - 16) nd) by lia.
    rewrite (wadd64_small (2 ^ (np + 2)) (dc - 16 - nd)) by lia.
    rewrite <- ED. unfold log2_floor_nonzero. destruct (N.eqb_spec D 0) as [E0|_]; [contradiction|]. rewrite <- Eb.
    rewrite (wsub32_small b 1) by lia.
    rewrite (wshl32_small 1 np) by lia. rewrite N.mul_1_l.
    rewrite (wsub32_small (2 ^ np) 1) by lia.
    rewrite land_ones_mod.
    rewrite N.shiftr_div_pow2. rewrite <- EP. rewrite <- Eq.
    replace (N.land q 1) with (q mod 2) by (change 1 with (2 ^ 1 - 1); rewrite land_ones_mod; reflexivity).
    rewrite Hpfx.
    rewrite (wadd64_small 2 (q - 2)) by lia. replace (2 + (q - 2)) with q by lia.
    assert (HqP : q * P <= D) by lia.
    rewrite (wshl64_small q (b - 1)) by (rewrite <- EP; lia). rewrite <- EP.
    rewrite (wsub64_small (b - 1) np) by lia. rewrite <- Enb.
    assert (Hnb : 1 <= nbits /\ nbits <= 30) by lia.
    rewrite (wsub64_small nbits 1) by lia.
    rewrite (wmul64_small 2 (nbits - 1)) by lia.
    rewrite (wadd64_small (2 * (nbits - 1)) (q - 2)) by lia.
    assert (Hh : (2 * (nbits - 1) + (q - 2)) * 2 ^ np <= 59 * 8) by (apply N.mul_le_mono; lia).
    rewrite (wshl64_small (2 * (nbits - 1) + (q - 2)) np) by lia.
    rewrite (wadd64_small (16 + nd)) by lia.
    assert (Hpf : D mod 2 ^ np < 2 ^ np) by (apply N.mod_lt; lia).
    rewrite (wadd64_small (16 + nd + _)) by lia.
    unfold wshl64. rewrite (w64_small (N.shiftl nbits 10)) by (rewrite N.shiftl_mul_pow2; lia).
    rewrite lor_shiftl_small by lia.
    rewrite w16_small by lia.
    rewrite (wsub64_small D (q * P)) by lia.
    rewrite N.shiftr_div_pow2.
    rewrite w32_small; [reflexivity|].
    eapply N.le_lt_trans; [apply N.div_le_upper_bound with (q := D); [lia|]|lia].
    assert (D - q * P <= D) by lia. nia. }
  constructor.
  - lia.
  - exact EQ.
  - lia.
  - rewrite <- HPQ. lia.
  - rewrite <- HPQ. lia.
  - rewrite EV; cbn [fst snd]; rewrite ED; reflexivity.
  - rewrite EV; cbn [fst snd]; rewrite ED, HPQ; reflexivity.
Qed.

Ltac Zify.zify_post_hook ::= Z.to_euclidean_division_equations.

Lemma np_pow_cases np : np <= 3 -> 2 ^ np = 1 \/ 2 ^ np = 2 \/ 2 ^ np = 4 \/ 2 ^ np = 8.
Proof.
  intros H. assert (np = 0 \/ np = 1 \/ np = 2 \/ np = 3) as [->|[->|[->| ->]]] by lia; cbn; auto.
Qed.

(* pure arithmetic core, with c = 2^np, Q = 2^nbits and x = dc - 16 - nd *)
Lemma dist_core c Q q nbits x nd sym extra :
  (c = 1 \/ c = 2 \/ c = 4 \/ c = 8) -> (q = 2 \/ q = 3) -> 1 <= nbits -> 2 <= Q ->
  q * (c * Q) <= 4 * c + x -> 4 * c + x < (q + 1) * (c * Q) ->
  sym = 16 + nd + (2 * (nbits - 1) + (q - 2)) * c + (4 * c + x) mod c ->
  extra = (4 * c + x - q * (c * Q)) / c ->
  let t := sym - nd - 16 in
  t / c = 2 * (nbits - 1) + (q - 2) /\ (t / c) / 2 + 1 = nbits /\ (t / c) mod 2 = q - 2 /\
  extra < Q /\
  ((2 + (q - 2)) * Q - 4 + extra) * c + t mod c + nd + 1 = x + nd + 1 /\
  4 <= (2 + (q - 2)) * Q.
Proof.
  intros Hc Hq Hnb HQ Hlo Hhi Hsym Hex t. subst t.
  destruct Hq as [-> | ->]; destruct Hc as [->|[->|[->| ->]]]; subst sym extra;
    repeat split; lia.
Qed.

(* from here on division and remainder are opaque to lia again *)
Ltac Zify.zify_post_hook ::= idtac.

Lemma land_1023 a : N.land a 1023 = a mod 1024.
Proof. change 1023 with (2 ^ 10 - 1). rewrite land_ones_mod. reflexivity. Qed.
Lemma land_1 a : N.land a 1 = a mod 2.
Proof. change 1 with (2 ^ 1 - 1) at 1. rewrite land_ones_mod. reflexivity. Qed.

Theorem dist_long_correct np nd dc : np <= 3 -> nd <= 120 -> 16 + nd <= dc -> dc < 2 ^ 31 ->
  let code := fst (prefix_encode_copy_distance dc nd np) in
  let extra := snd (prefix_encode_copy_distance dc nd np) in
  let sym := code mod 1024 in
  let nbits := code / 1024 in
  16 + nd <= sym /\ sym < 16 + nd + 62 * 2 ^ (np + 1) /\ sym < 1024 /\ nbits < 64 /\
  nbits = rfc_ndistbits np nd sym /\ extra < 2 ^ nbits /\
  rfc_distance np nd sym extra = dc - 15 /\
  restore_distance_code code extra nd np = dc.
Proof.
  intros Hnp Hnd Hlo Hhi code extra sym nbits.
  destruct (pecd_shape np nd dc Hnp Hnd Hlo Hhi) as [nb [Q [q S]]].
  destruct S as [[Hnb1 Hnb30] HQ Hq Hl Hh Hcode Hextra].
  fold code in Hcode. fold extra in Hextra.
  remember (2 ^ np) as c eqn:Ec.
  assert (Hc : c = 1 \/ c = 2 \/ c = 4 \/ c = 8) by (subst c; apply np_pow_cases; exact Hnp).
  assert (E4c : 2 ^ (np + 2) = 4 * c) by (subst c; rewrite N.pow_add_r; change (2 ^ 2) with 4; lia).
  assert (E2c : 2 ^ (np + 1) = 2 * c) by (subst c; rewrite N.pow_add_r; change (2 ^ 1) with 2; lia).
  rewrite E4c in Hl, Hh, Hcode, Hextra.
  remember (dc - 16 - nd) as x eqn:Ex.
  assert (HQ2 : 2 <= Q).
  { subst Q. change 2 with (2 ^ 1) at 1. apply N.pow_le_mono_r; lia. }
  remember (16 + nd + (2 * (nb - 1) + (q - 2)) * c + (4 * c + x) mod c) as s eqn:Es.
  pose proof (dist_core c Q q nb x nd s extra Hc Hq Hnb1 HQ2 Hl Hh Es Hextra) as K.
  cbv zeta in K. destruct K as [K1 [K2 [K3 [K4 [K5 K6]]]]].
  assert (Hmc : (4 * c + x) mod c < c) by (apply N.mod_lt; lia).
  remember ((4 * c + x) mod c) as pf eqn:Epf.
  assert (Hc8 : 1 <= c /\ c <= 8) by lia.
  assert (Hq23 : 2 <= q /\ q <= 3) by lia.
  assert (Hhc : (2 * (nb - 1) + (q - 2)) * c <= 59 * c) by (apply N.mul_le_mono_r; lia).
  remember ((2 * (nb - 1) + (q - 2)) * c) as hc eqn:Ehc.
  assert (Hs1024 : s < 1024) by lia.
  assert (Hsge : 16 + nd <= s) by lia.
  assert (Esym : sym = s).
  { unfold sym. rewrite Hcode. rewrite N.add_comm. rewrite N.mod_add by lia. apply N.mod_small. lia. }
  assert (Enbits : nbits = nb).
  { unfold nbits. rewrite Hcode. rewrite N.add_comm. rewrite N.div_add by lia.
    rewrite N.div_small by lia. lia. }
  assert (Hx31 : x + nd + 1 < 2 ^ 31) by lia.
  assert (HpowQ : 2 ^ nb = Q) by (symmetry; exact HQ).
  assert (Hm : (s - nd - 16) mod c < c) by (apply N.mod_lt; lia).
  remember ((s - nd - 16) mod c) as lc eqn:Elc.
  remember ((s - nd - 16) / c) as hcode eqn:Ehcode.
  assert (HqQ : (2 + (q - 2)) * Q * c <= 4 * c + x).
  { replace (2 + (q - 2)) with q by lia. rewrite <- N.mul_assoc, (N.mul_comm Q c). exact Hl. }
  assert (HqQ31 : (2 + (q - 2)) * Q < 2 ^ 31).
  { assert ((2 + (q - 2)) * Q * 1 <= (2 + (q - 2)) * Q * c) by (apply N.mul_le_mono_l; lia). lia. }
  remember ((2 + (q - 2)) * Q) as oq eqn:Eoq.
  assert (Hsum : (oq - 4 + extra) * c < 2 ^ 31) by lia.
  assert (Hsum1 : oq - 4 + extra < 2 ^ 31).
  { assert ((oq - 4 + extra) * 1 <= (oq - 4 + extra) * c) by (apply N.mul_le_mono_l; lia). lia. }
  rewrite Esym, Enbits.
  repeat split.
  - exact Hsge.
  - rewrite E2c. lia.
  - exact Hs1024.
  - lia.
  - unfold rfc_ndistbits. rewrite <- Ec, <- Ehcode. lia.
  - rewrite HpowQ. exact K4.
  - unfold rfc_distance. destruct (N.ltb_spec s (16 + nd)) as [Hc'|_]; [lia|].
    rewrite <- Ec, <- Ehcode, <- Elc. rewrite K3.
    replace (1 + hcode / 2) with nb by lia. rewrite HpowQ, <- Eoq. lia.
  - unfold restore_distance_code. change BROTLI_NUM_DISTANCE_SHORT_CODES with 16.
    rewrite land_1023. fold sym. rewrite Esym.
    destruct (N.ltb_spec s (16 + nd)) as [Hc'|_]; [lia|].
    rewrite (N.shiftr_div_pow2 code 10). change (2 ^ 10) with 1024. fold nbits. rewrite Enbits.
    rewrite N.shiftl_1_l.
    rewrite (wsub32_small s nd) by lia. rewrite (wsub32_small (s - nd) 16) by lia.
    rewrite land_ones_mod. rewrite N.shiftr_div_pow2. rewrite <- Ec.
    rewrite <- Ehcode, <- Elc.
    rewrite land_1. rewrite K3.
    rewrite (wadd32_small 2 (q - 2)) by lia.
    rewrite (wshl32_small (2 + (q - 2)) nb) by (rewrite HpowQ, <- Eoq; lia). rewrite HpowQ, <- Eoq.
    rewrite (wsub32_small _ 4) by lia.
    rewrite (wadd32_small _ extra) by lia.
    rewrite (wshl32_small _ np) by (rewrite <- Ec; lia). rewrite <- Ec.
    rewrite (wadd32_small _ lc) by lia.
    rewrite (wadd32_small _ nd) by lia.
    rewrite (wadd32_small _ 16) by lia.
    lia.
Qed.

Theorem dist_short_correct np nd dc : dc < 16 + nd -> nd <= 120 ->
  prefix_encode_copy_distance dc nd np = (dc, 0) /\
  restore_distance_code dc 0 nd np = dc /\ dc mod 1024 = dc /\
  (16 <= dc -> rfc_distance np nd dc 0 = dc - 15).
Proof.
  intros H Hnd. unfold prefix_encode_copy_distance, restore_distance_code, rfc_distance.
  change BROTLI_NUM_DISTANCE_SHORT_CODES with 16.
  rewrite (wadd64_small 16 nd) by lia.
  destruct (N.ltb_spec dc (16 + nd)) as [_|Hc]; [|lia].
  rewrite w16_small by lia. rewrite land_1023. rewrite (N.mod_small dc 1024) by lia.
  destruct (N.ltb_spec dc (16 + nd)) as [_|Hc]; [|lia].
  repeat split; reflexivity.
Qed.
