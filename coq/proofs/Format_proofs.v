(* C01: WrapPosition and the configuration chosen by ensure_initialized (model/EncConfig.v). *)
From Coq Require Import NArith ZArith List Lia Bool.
From V Require Import lib.Words lib.Finite gen.GenFormat model.EncConfig proofs.Bitops.
Import ListNotations.
Open Scope N_scope.

(* ------------------------------------------------------------------ WrapPosition *)
(* arithmetic characterisation: identity below 3*2^30, then 2^30 + ((p - 2^30) mod 2^31) *)
Definition wrap_spec (p : N) : N := if p <? 3 * 2 ^ 30 then p else 2 ^ 30 + (p - 2 ^ 30) mod 2 ^ 31.

Lemma shiftr_div a k : N.shiftr a k = a / 2 ^ k.
Proof. apply N.shiftr_div_pow2. Qed.

Lemma wrap_position_char p : p < 2 ^ 64 -> wrap_position p = wrap_spec p.
Proof.
  intros Hp. unfold wrap_position, wrap_spec.
  change WRAP_BITS with 30. change WRAP_GB_THRESHOLD with 2.
  rewrite shiftr_div.
  destruct (N.ltb_spec 2 (p / 2 ^ 30)) as [Hg|Hg].
  - assert (H3 : 3 * 2 ^ 30 <= p).
    { change (2 ^ 30) with 1073741824 in *. Ltac Zify.zify_post_hook ::= Z.to_euclidean_division_equations. lia. }
    Ltac Zify.zify_post_hook ::= idtac.
    destruct (N.ltb_spec p (3 * 2 ^ 30)) as [Hl|_]; [lia|].
    rewrite land_ones_mod.
    replace (N.land (p / 2 ^ 30 - 1) 1) with ((p / 2 ^ 30 - 1) mod 2 ^ 1)
      by (rewrite <- land_ones_mod; reflexivity).
    rewrite lor_small_shiftl by (apply N.mod_lt; discriminate).
    unfold w32. change (2 ^ 1) with 2. change (2 ^ 32) with 4294967296. change (2 ^ 30) with 1073741824.
    change (2 ^ 31) with 2147483648.
    Ltac Zify.zify_post_hook ::= Z.to_euclidean_division_equations.
    lia.
  - Ltac Zify.zify_post_hook ::= idtac.
    assert (H3 : p < 3 * 2 ^ 30).
    { change (2 ^ 30) with 1073741824 in *. Ltac Zify.zify_post_hook ::= Z.to_euclidean_division_equations. lia. }
    Ltac Zify.zify_post_hook ::= idtac.
    destruct (N.ltb_spec p (3 * 2 ^ 30)) as [_|Hl]; [|lia].
    unfold w32. apply N.mod_small. change (2 ^ 32) with 4294967296. change (2 ^ 30) with 1073741824 in H3. lia.
Qed.
Ltac Zify.zify_post_hook ::= idtac.

(* a mod 2^30 = b mod 2^30 implies equality modulo every smaller power of two *)
Lemma mod_pow2_le a b k : k <= 30 -> a mod 2 ^ 30 = b mod 2 ^ 30 -> a mod 2 ^ k = b mod 2 ^ k.
Proof.
  intros Hk E.
  assert (P : 2 ^ 30 = 2 ^ k * 2 ^ (30 - k)) by (rewrite <- N.pow_add_r; f_equal; lia).
  assert (Nz : 2 ^ k <> 0) by (apply N.pow_nonzero; discriminate).
  assert (Nz2 : 2 ^ (30 - k) <> 0) by (apply N.pow_nonzero; discriminate).
  assert (R : forall x, x mod 2 ^ k = (x mod 2 ^ 30) mod 2 ^ k).
  { intros x. rewrite P. rewrite N.mod_mul_r by assumption.
    rewrite (N.mul_comm (2 ^ k)). rewrite N.mod_add by assumption. rewrite N.mod_mod by assumption. reflexivity. }
  rewrite (R a), (R b), E. reflexivity.
Qed.

Lemma wrap_mod30 p : p < 2 ^ 64 -> wrap_position p mod 2 ^ 30 = p mod 2 ^ 30.
Proof.
  intros Hp. rewrite wrap_position_char by exact Hp. unfold wrap_spec.
  destruct (N.ltb_spec p (3 * 2 ^ 30)) as [Hl|Hl]; [reflexivity|].
  change (2 ^ 30) with 1073741824 in *. change (2 ^ 31) with 2147483648.
  Ltac Zify.zify_post_hook ::= Z.to_euclidean_division_equations.
  lia.
Qed.
Ltac Zify.zify_post_hook ::= idtac.

(* (a) the low k bits survive for every k <= 30 (the ring-buffer mask of every window up to
   lgwin 29 and every hasher's position arithmetic) -- in fact the low 31 bits do *)
Lemma wrap_mod p k : p < 2 ^ 64 -> k <= 30 -> wrap_position p mod 2 ^ k = p mod 2 ^ k.
Proof. intros Hp Hk. apply mod_pow2_le; [exact Hk|]. apply wrap_mod30; exact Hp. Qed.

Lemma wrap_mod31 p : p < 2 ^ 64 -> wrap_position p mod 2 ^ 31 = p mod 2 ^ 31.
Proof.
  intros Hp. rewrite wrap_position_char by exact Hp. unfold wrap_spec.
  destruct (N.ltb_spec p (3 * 2 ^ 30)) as [Hl|Hl]; [reflexivity|].
  change (2 ^ 30) with 1073741824 in *. change (2 ^ 31) with 2147483648.
  Ltac Zify.zify_post_hook ::= Z.to_euclidean_division_equations.
  lia.
Qed.
Ltac Zify.zify_post_hook ::= idtac.

(* range: a u32 below 3*2^30, and never back in the first 2^30 once the position left it *)
Lemma wrap_range p : p < 2 ^ 64 ->
  wrap_position p < 3 * 2 ^ 30 /\ (2 ^ 30 <= p -> 2 ^ 30 <= wrap_position p) /\ (p < 3 * 2 ^ 30 -> wrap_position p = p).
Proof.
  intros Hp. rewrite wrap_position_char by exact Hp. unfold wrap_spec.
  destruct (N.ltb_spec p (3 * 2 ^ 30)) as [Hl|Hl].
  - repeat split; [exact Hl|intros H; exact H].
  - change (2 ^ 30) with 1073741824 in *. change (2 ^ 31) with 2147483648.
    Ltac Zify.zify_post_hook ::= Z.to_euclidean_division_equations.
    repeat split; lia.
Qed.
Ltac Zify.zify_post_hook ::= idtac.

(* monotone: the successor position maps to the successor, except at the odd multiples of
   2^30 from 3*2^30 on, where it falls back from 3*2^30 - 1 to 2^30 (the points at which
   encode_data resets the hasher) *)
Lemma wrap_step p : p + 1 < 2 ^ 64 ->
  wrap_position (p + 1) = wrap_position p + 1 \/
  (exists j, 1 <= j /\ p + 1 = (2 * j + 1) * 2 ^ 30 /\ wrap_position (p + 1) = 2 ^ 30 /\ wrap_position p = 3 * 2 ^ 30 - 1).
Proof.
  Ltac Zify.zify_post_hook ::= Z.to_euclidean_division_equations.
  intros Hp.
  rewrite !wrap_position_char by lia. unfold wrap_spec.
  change (2 ^ 64) with 18446744073709551616 in Hp.
  change (2 ^ 30) with 1073741824. change (2 ^ 31) with 2147483648.
  destruct (N.ltb_spec (p + 1) (3 * 1073741824)) as [H1|H1];
  destruct (N.ltb_spec p (3 * 1073741824)) as [H0|H0]; try lia.
  - (* p = 3*2^30 - 1 *)
    right. exists 1. assert (E : p + 1 = 3221225472) by lia. rewrite E.
    repeat split; lia.
  - destruct (N.eq_dec ((p + 1 - 1073741824) mod 2147483648) 0) as [Z|NZ].
    + right. exists ((p + 1 - 1073741824) / 2147483648). repeat split; lia.
    + left. lia.
Qed.
Ltac Zify.zify_post_hook ::= idtac.

(* ------------------------------------------------------------------ configuration *)
Definition large_bits (large : bool) : N := if large then ENC_BROTLI_LARGE_MAX_DISTANCE_BITS else ENC_BROTLI_MAX_DISTANCE_BITS.

(* what "a consistent configuration" means; [hist_len] is the length of the cost model's
   distance histogram array (hq.rs) *)
Definition config_ok (hist_len : N) (large : bool) (c : config) : Prop :=
  let q := c_quality c in let w := c_lgwin c in let b := c_lgblock c in
  (0 <= q <= 11)%Z /\ (10 <= w <= 30)%Z /\ (large = false -> (w <= 24)%Z) /\
  ((q <= 1)%Z -> b = w) /\ ((2 <= q < 4)%Z -> b = 14%Z) /\ ((4 <= q)%Z -> (16 <= b <= 24)%Z) /\
  (* the ring buffer holds a window and a block, in u32 *)
  c_rbbits c = (1 + Z.max w b)%Z /\ (c_rbbits c <= 31)%Z /\
  c_rbsize c = 2 ^ Z.to_N (c_rbbits c) /\ c_rbmask c = c_rbsize c - 1 /\ c_rbtail c = 2 ^ Z.to_N b /\
  c_rbtotal c = c_rbsize c + c_rbtail c /\ c_rbtotal c < 2 ^ 32 /\
  2 ^ Z.to_N w + 2 ^ Z.to_N b <= c_rbsize c /\ 2 * c_rbtail c <= c_rbsize c /\
  (* distance parameters *)
  c_np c <= 3 /\ (exists k, k <= 15 /\ c_nd c = k * 2 ^ c_np c) /\ ((q < 4)%Z -> c_np c = 0 /\ c_nd c = 0) /\
  c_alphabet c = 16 + c_nd c + large_bits large * 2 ^ (c_np c + 1) /\
  (* every array indexed by a distance symbol or walked up to the alphabet size is long enough *)
  c_alphabet c <= BROTLI_NUM_HISTOGRAM_DISTANCE_SYMBOLS /\           (* HistogramDistance::data_ *)
  distance_histogram_size (c_alphabet c) <= hist_len /\               (* hq.rs histogram_dist, walked by SetCost *)
  c_alphabet c <= hist_len /\                                         (* hq.rs histogram_dist[dist_prefix & 0x3ff] *)
  c_alphabet c <= 2 ^ 10.                                             (* the 10-bit symbol field of dist_prefix_ *)

Definition config_okb (hist_len : N) (large : bool) (c : config) : bool :=
  let q := c_quality c in let w := c_lgwin c in let b := c_lgblock c in
  ((0 <=? q) && (q <=? 11))%Z && ((10 <=? w) && (w <=? 30))%Z && (large || (w <=? 24)%Z) &&
  (if (q <=? 1)%Z then (b =? w)%Z else if (q <? 4)%Z then (b =? 14)%Z else ((16 <=? b) && (b <=? 24))%Z) &&
  (c_rbbits c =? 1 + Z.max w b)%Z && (c_rbbits c <=? 31)%Z &&
  (c_rbsize c =? 2 ^ Z.to_N (c_rbbits c)) && (c_rbmask c =? c_rbsize c - 1) && (c_rbtail c =? 2 ^ Z.to_N b) &&
  (c_rbtotal c =? c_rbsize c + c_rbtail c) && (c_rbtotal c <? 2 ^ 32) &&
  (2 ^ Z.to_N w + 2 ^ Z.to_N b <=? c_rbsize c) && (2 * c_rbtail c <=? c_rbsize c) &&
  (c_np c <=? 3) && (c_nd c mod 2 ^ c_np c =? 0) && (c_nd c / 2 ^ c_np c <=? 15) &&
  ((4 <=? q)%Z || ((c_np c =? 0) && (c_nd c =? 0))) &&
  (c_alphabet c =? 16 + c_nd c + large_bits large * 2 ^ (c_np c + 1)) &&
  (c_alphabet c <=? BROTLI_NUM_HISTOGRAM_DISTANCE_SYMBOLS) &&
  (distance_histogram_size (c_alphabet c) <=? hist_len) && (c_alphabet c <=? hist_len) && (c_alphabet c <=? 2 ^ 10).

Lemma config_okb_sound hl large c : config_okb hl large c = true -> config_ok hl large c.
Proof.
  unfold config_okb, config_ok. cbv zeta. intros H.
  repeat (apply andb_true_iff in H; destruct H as [H ?]).
  repeat match goal with
  | X : (_ <=? _)%Z = true |- _ => apply Z.leb_le in X
  | X : (_ <? _)%Z = true |- _ => apply Z.ltb_lt in X
  | X : (_ =? _)%Z = true |- _ => apply Z.eqb_eq in X
  | X : (_ <=? _) = true |- _ => apply N.leb_le in X
  | X : (_ <? _) = true |- _ => apply N.ltb_lt in X
  | X : (_ =? _) = true |- _ => apply N.eqb_eq in X
  end.
  assert (Hq4 : (c_quality c < 4)%Z -> c_np c = 0 /\ c_nd c = 0).
  { intros L. match goal with X : (_ || _) = true |- _ => apply orb_true_iff in X; destruct X as [X|X] end.
    - match goal with X : ((4 <=? _)%Z = true) |- _ => apply Z.leb_le in X; lia end.
    - match goal with X : (_ && _) = true |- _ => apply andb_true_iff in X; destruct X as [X1 X2];
        apply N.eqb_eq in X1; apply N.eqb_eq in X2; split; assumption end. }
  assert (Hlg : large = false -> (c_lgwin c <= 24)%Z).
  { intros L. subst large. match goal with X : (false || _) = true |- _ => cbn [orb] in X; apply Z.leb_le in X; exact X end. }
  assert (Hb : ((c_quality c <= 1)%Z -> c_lgblock c = c_lgwin c) /\ ((2 <= c_quality c < 4)%Z -> c_lgblock c = 14%Z)
               /\ ((4 <= c_quality c)%Z -> (16 <= c_lgblock c <= 24)%Z)).
  { match goal with X : (if (c_quality c <=? 1)%Z then _ else _) = true |- _ =>
      destruct (Z.leb_spec (c_quality c) 1); [apply Z.eqb_eq in X|
        destruct (Z.ltb_spec (c_quality c) 4); [apply Z.eqb_eq in X|
          apply andb_true_iff in X; destruct X as [X1 X2]; apply Z.leb_le in X1; apply Z.leb_le in X2]] end;
    repeat split; intros; try lia. }
  destruct Hb as [Hb1 [Hb2 Hb3]].
  assert (Hk : exists k, k <= 15 /\ c_nd c = k * 2 ^ c_np c).
  { exists (c_nd c / 2 ^ c_np c). split; [assumption|].
    assert (Nz : 2 ^ c_np c <> 0) by (apply N.pow_nonzero; discriminate).
    rewrite (N.div_mod (c_nd c) (2 ^ c_np c) Nz) at 1.
    match goal with X : c_nd c mod _ = 0 |- _ => rewrite X end. lia. }
  repeat split; try assumption; try lia.
Qed.

(* the configuration as a function of the sanitised values *)
Definition configure_core (q w b : Z) (mode : N) (large q95 : bool) (hint : N) : config :=
  let '(np, nd) := choose_distance_params q mode 0 0 in
  let '(alpha, maxd) := init_distance_params large np nd in
  let rbbits := (RB_EXTRA_BITS + Z.max w b)%Z in
  let size := wshl32 1 (Z.to_N rbbits) in
  let tail := wshl32 1 (Z.to_N b) in
  {| c_quality := q; c_lgwin := w; c_lgblock := b; c_np := np; c_nd := nd; c_alphabet := alpha; c_maxdist := maxd;
     c_rbbits := rbbits; c_rbsize := size; c_rbmask := wsub32 size 1; c_rbtail := tail; c_rbtotal := wadd32 size tail;
     c_hasher := choose_hasher_type q w q95 hint |}.

Lemma configure_is_core p : e_np0 p = 0 -> e_nd0 p = 0 ->
  configure p = configure_core (sanitize_quality (e_quality p)) (sanitize_lgwin (e_lgwin p) (e_large p))
                  (compute_lgblock (sanitize_quality (e_quality p)) (sanitize_lgwin (e_lgwin p) (e_large p)) (e_lgblock p))
                  (e_mode p) (e_large p) (e_q9_5 p) (e_size_hint p).
Proof. intros E1 E2. unfold configure, configure_core. rewrite E1, E2. reflexivity. Qed.

Definition zrange (lo : Z) (n : nat) : list Z := map (fun i => (lo + Z.of_nat i)%Z) (seq 0 n).
Lemma zrange_In lo n x : (lo <= x < lo + Z.of_nat n)%Z -> In x (zrange lo n).
Proof.
  intros H. unfold zrange. apply in_map_iff. exists (Z.to_nat (x - lo)). split; [lia|]. apply in_seq. lia.
Qed.

(* sanitised values that can occur together *)
Definition valid_qwb (large : bool) (q w b : Z) : bool :=
  ((10 <=? w) && (w <=? (if large then 30 else 24)))%Z &&
  (if (q <=? 1)%Z then (b =? w)%Z else if (q <? 4)%Z then (b =? 14)%Z else ((16 <=? b) && (b <=? 24))%Z).

(* the mode matters only through "is it FONT" *)
Definition mode_class (mode : N) : N := if mode =? 2 then 2 else 0.
Lemma configure_core_mode q w b mode large q95 hint :
  configure_core q w b mode large q95 hint = configure_core q w b (mode_class mode) large q95 hint.
Proof.
  unfold configure_core, choose_distance_params, mode_class.
  destruct (mode =? 2); reflexivity.
Qed.

Definition sweep (hl : N) : bool :=
  forallb (fun large => forallb (fun q => forallb (fun w => forallb (fun b => forallb (fun mode =>
    if valid_qwb large q w b then config_okb hl large (configure_core q w b mode large false 0) else true)
    [0; 2]) (zrange 10 21)) (zrange 10 21)) (zrange 0 12)) [false; true].

Lemma sweep_sound hl : sweep hl = true -> forall (large : bool) q w b mode,
  (0 <= q < 12)%Z -> (10 <= w < 31)%Z -> (10 <= b < 31)%Z -> mode = 0 \/ mode = 2 -> valid_qwb large q w b = true ->
  config_okb hl large (configure_core q w b mode large false 0) = true.
Proof.
  intros S large q w b mode Hq Hw Hb Hm Hv. unfold sweep in S.
  rewrite forallb_forall in S. specialize (S large).
  assert (Il : In large [false; true]) by (destruct large; cbn; auto).
  specialize (S Il). rewrite forallb_forall in S. specialize (S q (zrange_In 0 12 q Hq)).
  rewrite forallb_forall in S. specialize (S w (zrange_In 10 21 w Hw)).
  rewrite forallb_forall in S. specialize (S b (zrange_In 10 21 b Hb)).
  rewrite forallb_forall in S.
  assert (Im : In mode [0; 2]) by (destruct Hm as [-> | ->]; cbn; auto).
  specialize (S mode Im). rewrite Hv in S. exact S.
Qed.

Lemma sweep_ok : sweep HQ_HIST_DIST_LEN = true.
Proof. vm_compute. reflexivity. Qed.

Lemma config_okb_hasher_irrelevant hl large q w b mode q95 hint :
  config_okb hl large (configure_core q w b mode large q95 hint) = config_okb hl large (configure_core q w b mode large false 0).
Proof.
  unfold configure_core. destruct (choose_distance_params q mode 0 0) as [np nd].
  destruct (init_distance_params large np nd) as [alpha maxd]. reflexivity.
Qed.

Lemma sanitize_quality_range q : (0 <= sanitize_quality q <= 11)%Z.
Proof. unfold sanitize_quality. change SAN_QMAX with 11%Z. change SAN_QMIN with 0%Z. lia. Qed.
Lemma sanitize_lgwin_range w lw : (10 <= sanitize_lgwin w lw <= (if lw then 30 else 24))%Z.
Proof.
  unfold sanitize_lgwin. change SAN_WMIN with 10%Z. change SAN_WMAX with 24%Z. change SAN_WMAX_LARGE with 30%Z.
  destruct (Z.ltb_spec w 10); [destruct lw; lia|]. destruct (Z.ltb_spec 24 w); [|destruct lw; lia].
  destruct lw; [|lia]. destruct (Z.ltb_spec 30 w); lia.
Qed.
Lemma compute_lgblock_valid (lw : bool) q w b : (0 <= q <= 11)%Z -> (10 <= w <= (if lw then 30 else 24))%Z ->
  valid_qwb lw q w (compute_lgblock q w b) = true.
Proof.
  intros Hq Hw. unfold valid_qwb, compute_lgblock.
  change LGB_Q0 with 0%Z. change LGB_Q1 with 1%Z. change LGB_QLOW with 4%Z. change LGB_LOW with 14%Z.
  change LGB_UNSET with 0%Z. change LGB_DEFAULT with 16%Z. change LGB_QHIGH with 9%Z. change LGB_HIGH with 18%Z.
  change LGB_MAX with 24%Z. change LGB_MIN with 16%Z.
  apply andb_true_iff. split; [apply andb_true_iff; split; apply Z.leb_le; lia|].
  destruct (Z.eqb_spec q 0) as [->|N0]; [cbn; apply Z.eqb_refl|].
  destruct (Z.eqb_spec q 1) as [->|N1]; [cbn; apply Z.eqb_refl|]. cbn [orb].
  destruct (Z.leb_spec q 1); [lia|].
  destruct (Z.ltb_spec q 4); [reflexivity|].
  destruct (Z.eqb_spec b 0).
  - destruct (Z.leb_spec 9 q); destruct (Z.ltb_spec 16 w); cbn [andb];
      apply andb_true_iff; split; apply Z.leb_le; lia.
  - apply andb_true_iff; split; apply Z.leb_le; lia.
Qed.

Lemma hasher_known q w q95 hint : (2 <= q <= 11)%Z -> known_hasher (choose_hasher_type q w q95 hint) = true.
Proof.
  intros Hq. unfold choose_hasher_type.
  repeat match goal with
  | |- context [if ?c then _ else _] => destruct c eqn:?; try reflexivity
  end.
  assert (Hc : (q = 2 \/ q = 3 \/ q = 4)%Z).
  { match goal with X : (q <? 5)%Z = true |- _ => apply Z.ltb_lt in X; lia end. }
  destruct Hc as [-> | [-> | ->]]; reflexivity.
Qed.

(* (b) every parameter setting reachable through set_parameter yields a consistent configuration *)
Lemma configure_consistent p : reachable p ->
  config_ok HQ_HIST_DIST_LEN (e_large p) (configure p) /\
  ((2 <= c_quality (configure p))%Z -> known_hasher (c_hasher (configure p)) = true).
Proof.
  intros (_ & _ & _ & Hm & E1 & E2).
  rewrite (configure_is_core p E1 E2).
  set (q := sanitize_quality (e_quality p)). set (w := sanitize_lgwin (e_lgwin p) (e_large p)).
  set (b := compute_lgblock q w (e_lgblock p)).
  pose proof (sanitize_quality_range (e_quality p)) as Hq. fold q in Hq.
  pose proof (sanitize_lgwin_range (e_lgwin p) (e_large p)) as Hw. fold w in Hw.
  pose proof (compute_lgblock_valid (e_large p) q w (e_lgblock p) Hq Hw) as Hv. fold b in Hv.
  split.
  - apply config_okb_sound. rewrite config_okb_hasher_irrelevant. rewrite configure_core_mode.
    apply (sweep_sound _ sweep_ok).
    + lia.
    + destruct (e_large p); lia.
    + unfold valid_qwb in Hv. apply andb_true_iff in Hv. destruct Hv as [_ Hv].
      destruct (Z.leb_spec q 1); [apply Z.eqb_eq in Hv; destruct (e_large p); lia|].
      destruct (Z.ltb_spec q 4); [apply Z.eqb_eq in Hv; lia|].
      apply andb_true_iff in Hv. destruct Hv as [V1 V2]. apply Z.leb_le in V1. apply Z.leb_le in V2. lia.
    + unfold mode_class. destruct (e_mode p =? 2); auto.
    + exact Hv.
  - unfold configure_core. destruct (choose_distance_params q (e_mode p) 0 0) as [np nd].
    destruct (init_distance_params (e_large p) np nd) as [alpha maxd]. cbn [c_quality c_hasher].
    intros H2. apply hasher_known. lia.
Qed.

(* as found (before fix 7003666) the cost model's histogram had 140 entries: quality 11 with FONT
   mode and a large window walks 276 of them *)
Lemma configure_asfound_refuted :
  exists p, reachable p /\ ~ config_ok HQ_SIMPLE_DISTANCE_ALPHABET_SIZE (e_large p) (configure p).
Proof.
  exists (set_params [(1, 11); (0, 2); (6, 1); (2, 26)]).
  split; [vm_compute; repeat split; congruence|].
  intros H. unfold config_ok in H. cbv zeta in H.
  repeat match goal with X : _ /\ _ |- _ => destruct X end.
  match goal with X : distance_histogram_size _ <= _ |- _ => revert X; vm_compute; intros X; apply X; reflexivity end.
Qed.
