(* C19 - proofs about model/Hashers.v: every batched update path equals the fold of the
   one-position update over the same positions. *)
From Coq Require Import NArith List Bool Lia.
From V Require Import lib.Words lib.Finite proofs.Bitops gen.GenHashers model.Hashers spec.HasherSpec.
Import ListNotations.
Open Scope N_scope.

(* ------------------------------------------------------------------------------------------ *)
(* outcomes, loops, ranges *)
Lemma for_each_Panic {S} (body : S -> N -> res S) l : for_each body l Panic = Panic.
Proof. induction l as [|x l IH]; [reflexivity|exact IH]. Qed.

Lemma for_each_app {S} (body : S -> N -> res S) l1 l2 r :
  for_each body (l1 ++ l2) r = for_each body l2 (for_each body l1 r).
Proof. unfold for_each. apply fold_left_app. Qed.

Lemma for_each_cons {S} (body : S -> N -> res S) x l r :
  for_each body (x :: l) r = for_each body l (bind r (fun s => body s x)).
Proof. reflexivity. Qed.

Lemma for_each_ext {S} (f g : S -> N -> res S) l r :
  (forall s x, In x l -> f s x = g s x) -> for_each f l r = for_each g l r.
Proof.
  revert r. induction l as [|x l IH]; intros r H; [reflexivity|].
  rewrite !for_each_cons. rewrite IH by (intros; apply H; right; assumption).
  destruct r as [s|]; [cbn [bind]; rewrite H by (left; reflexivity); reflexivity|reflexivity].
Qed.

Lemma range_nat_app lo n m : range_nat lo (n + m) = range_nat lo n ++ range_nat (lo + N.of_nat n) m.
Proof.
  revert lo. induction n as [|n IH]; intros lo.
  - cbn [plus range_nat app]. rewrite N.add_0_r. reflexivity.
  - cbn [plus range_nat app]. rewrite IH. f_equal. f_equal.
    replace (N.succ lo + N.of_nat n) with (lo + N.of_nat (S n)) by lia. reflexivity.
Qed.

Lemma range_split lo mid hi : lo <= mid -> mid <= hi -> range lo hi = range lo mid ++ range mid hi.
Proof.
  intros H1 H2. unfold range.
  replace (N.to_nat (hi - lo)) with (N.to_nat (mid - lo) + N.to_nat (hi - mid))%nat by lia.
  rewrite range_nat_app. do 2 f_equal. lia.
Qed.

Lemma range_empty lo hi : hi <= lo -> range lo hi = [].
Proof. intros H. unfold range. replace (hi - lo) with 0 by lia. reflexivity. Qed.

Lemma range_In lo hi x : In x (range lo hi) -> lo <= x /\ x < hi.
Proof.
  unfold range. remember (N.to_nat (hi - lo)) as n eqn:En.
  assert (Hn : lo + N.of_nat n <= hi \/ n = 0%nat) by lia. clear En.
  revert lo Hn. induction n as [|n IH]; intros lo Hn Hin; [destruct Hin|].
  cbn [range_nat] in Hin. destruct Hin as [<-|Hin]; [lia|].
  apply IH in Hin; lia.
Qed.

Lemma range_4 q : range q (q + 4) = [q; q + 1; q + 2; q + 3].
Proof.
  unfold range. replace (q + 4 - q) with 4 by lia. change (N.to_nat 4) with 4%nat.
  cbn [range_nat].
  replace (q + 1) with (N.succ q) by lia. replace (q + 2) with (N.succ (N.succ q)) by lia.
  replace (q + 3) with (N.succ (N.succ (N.succ q))) by lia. reflexivity.
Qed.

Lemma range_0_succ n : range 0 (N.succ n) = range 0 n ++ [n].
Proof. rewrite (range_split 0 n (N.succ n)) by lia. f_equal. unfold range. replace (N.succ n - n) with 1 by lia. reflexivity. Qed.

(* a loop over n chunks of c positions, each chunk equal to the one-at-a-time loop over its
   positions, is the one-at-a-time loop over all n * c positions *)
Lemma chunks_eq {S} (store quad : S -> N -> res S) (s0 c n : N) (st : S) :
  (forall st' k, k < n -> quad st' (s0 + k * c) = for_each store (range (s0 + k * c) (s0 + k * c + c)) (Ok st')) ->
  for_each (fun s k => quad s (s0 + k * c)) (range 0 n) (Ok st) = for_each store (range s0 (s0 + n * c)) (Ok st).
Proof.
  induction n as [|n IH] using N.peano_ind; intros Hq.
  - rewrite N.mul_0_l, N.add_0_r. rewrite (range_empty s0 s0) by lia. reflexivity.
  - rewrite range_0_succ, for_each_app. rewrite IH by (intros; apply Hq; lia).
    rewrite (range_split s0 (s0 + n * c) (s0 + N.succ n * c)) by lia.
    rewrite for_each_app.
    destruct (for_each store (range s0 (s0 + n * c)) (Ok st)) as [s1|].
    + cbn [for_each fold_left bind]. rewrite Hq by lia. f_equal. f_equal. lia.
    + rewrite !for_each_Panic. reflexivity.
Qed.

(* `r <- opt;; loop over the rest`, where opt did the first part one-at-a-time *)
Lemma prefix_then_rest {S} (store : S -> N -> res S) (s m e : N) (st : S) (first : res S) :
  s <= m -> m <= e -> first = for_each store (range s m) (Ok st) ->
  (r <- (st' <- first;; Ok (m, st'));; for_each store (range (fst r) e) (Ok (snd r)))
  = for_each store (range s e) (Ok st).
Proof.
  intros H1 H2 ->. rewrite (range_split s m e) by assumption. rewrite for_each_app.
  destruct (for_each store (range s m) (Ok st)) as [s1|]; cbn [bind fst snd]; [reflexivity|].
  rewrite for_each_Panic. reflexivity.
Qed.

(* ------------------------------------------------------------------------------------------ *)
(* masks and the ring-buffer view *)
Lemma land_usize_max x : x < 2 ^ 64 -> N.land x USIZE_MAX = x.
Proof.
  intros H. change USIZE_MAX with (2 ^ 64 - 1). rewrite land_ones_mod. apply N.mod_small. exact H.
Qed.

Lemma mod_wrap x M : M <= x -> x < 2 * M -> x mod M = x - M.
Proof.
  intros H1 H2. assert (HM : M <> 0) by lia.
  replace x with (x - M + 1 * M) at 1 by lia. rewrite N.mod_add by exact HM.
  apply N.mod_small. lia.
Qed.

Lemma view_mono d mask T lim lim' : view_ok d mask T lim -> lim' <= lim -> view_ok d mask T lim'.
Proof.
  intros [H1 H2] Hle. split; [lia|]. destruct H2 as [[Hm Hb]|H2]; [left; split; [exact Hm|lia]|right; exact H2].
Qed.

(* the byte c places after the masked address of position p is the byte at the masked address
   of position p + c *)
Lemma view_byte d mask T lim p c : view_ok d mask T lim -> c <= T -> p + c < lim ->
  N.land p mask + c < blen d /\ byte d (N.land p mask + c) = byte d (N.land (p + c) mask).
Proof.
  intros [Hlim [[-> Hb]|[k [-> [HT [Hlen Hring]]]]]] Hc Hp.
  - assert (H63 : 2 ^ 63 < 2 ^ 64) by (apply N.pow_lt_mono_r; lia).
    rewrite !land_usize_max by lia. split; [lia|reflexivity].
  - rewrite !land_ones_mod. remember (2 ^ k) as M eqn:EM.
    assert (HM : M <> 0) by (subst M; apply N.pow_nonzero; lia).
    pose proof (N.mod_upper_bound p M HM) as Ha.
    rewrite <- (N.add_mod_idemp_l p c M) by exact HM.
    remember (p mod M) as a eqn:Ea. clear Ea.
    destruct (N.lt_ge_cases (a + c) M) as [Hlt|Hge].
    + rewrite (N.mod_small (a + c) M) by exact Hlt. split; [lia|reflexivity].
    + rewrite (mod_wrap (a + c) M) by lia. split; [lia|].
      replace (a + c) with (M + (a + c - M)) at 1 by lia. apply Hring. lia.
Qed.

Lemma view_byte2 d mask T lim p c j : view_ok d mask T lim -> c + j <= T -> p + c + j < lim ->
  N.land p mask + c + j < blen d /\ byte d (N.land p mask + c + j) = byte d (N.land (p + c) mask + j).
Proof.
  intros Hv Hc Hp.
  destruct (view_byte d mask T lim p (c + j) Hv Hc) as [B1 E1]; [lia|].
  destruct (view_byte d mask T lim (p + c) j Hv) as [B2 E2]; [lia|lia|].
  rewrite <- N.add_assoc. split; [exact B1|]. rewrite E1, E2. f_equal. f_equal. lia.
Qed.

Lemma view_byte2_0 d mask T lim p c : view_ok d mask T lim -> c <= T -> p + c < lim ->
  byte d (N.land p mask + c) = byte d (N.land (p + c) mask).
Proof. intros Hv Hc Hp. apply (view_byte d mask T lim p c Hv Hc Hp). Qed.

Ltac view_bytes Hv :=
  repeat match goal with
  | |- context [byte ?d (N.land ?p ?mask + ?c + ?j)] =>
    rewrite (proj2 (view_byte2 d mask _ _ p c j Hv ltac:(lia) ltac:(lia)))
  end.

Lemma le64_view d mask T lim p c : view_ok d mask T lim -> c + 7 <= T -> p + c + 7 < lim ->
  N.land p mask + c + 8 <= blen d /\ le64 d (N.land p mask + c) = le64 d (N.land (p + c) mask).
Proof.
  intros Hv Hc Hp. split.
  - pose proof (proj1 (view_byte2 d mask T lim p c 7 Hv ltac:(lia) ltac:(lia))). lia.
  - unfold le64, le56. view_bytes Hv.
    rewrite (view_byte2_0 d mask T lim p c Hv) by lia. reflexivity.
Qed.

Lemma le32_view d mask T lim p c : view_ok d mask T lim -> c + 3 <= T -> p + c + 3 < lim ->
  N.land p mask + c + 4 <= blen d /\ le32 d (N.land p mask + c) = le32 d (N.land (p + c) mask).
Proof.
  intros Hv Hc Hp. split.
  - pose proof (proj1 (view_byte2 d mask T lim p c 3 Hv ltac:(lia) ltac:(lia))). lia.
  - unfold le32. view_bytes Hv.
    rewrite (view_byte2_0 d mask T lim p c Hv) by lia. reflexivity.
Qed.

(* the store's own load at position q succeeds *)
Lemma load64_view d mask T lim q : view_ok d mask T lim -> 7 <= T -> q + 7 < lim ->
  load64 d (N.land q mask) = Ok (le64 d (N.land q mask)).
Proof.
  intros Hv HT Hq. unfold load64.
  destruct (le64_view d mask T lim q 0 Hv) as [B _]; [lia|lia|].
  rewrite N.add_0_r in B. destruct (N.leb_spec (N.land q mask + 8) (blen d)); [reflexivity|lia].
Qed.
Lemma load32_view d mask T lim q : view_ok d mask T lim -> 3 <= T -> q + 3 < lim ->
  load32 d (N.land q mask) = Ok (le32 d (N.land q mask)).
Proof.
  intros Hv HT Hq. unfold load32.
  destruct (le32_view d mask T lim q 0 Hv) as [B _]; [lia|lia|].
  rewrite N.add_0_r in B. destruct (N.leb_spec (N.land q mask + 4) (blen d)); [reflexivity|lia].
Qed.

(* ------------------------------------------------------------------------------------------ *)
(* fixed-width helpers *)
Lemma lo64_lt x : lo64 x < 2 ^ 64.
Proof. unfold lo64. change M64 with (2 ^ 64 - 1). rewrite land_ones_mod. apply N.mod_upper_bound. discriminate. Qed.
Lemma lo32_lt x : lo32 x < 2 ^ 32.
Proof. unfold lo32. change M32 with (2 ^ 32 - 1). rewrite land_ones_mod. apply N.mod_upper_bound. discriminate. Qed.
Lemma lo32_small x : x < 2 ^ 32 -> lo32 x = x.
Proof. intros H. unfold lo32. change M32 with (2 ^ 32 - 1). rewrite land_ones_mod. apply N.mod_small. exact H. Qed.
Lemma lo16_lo32 x : lo16 (lo32 x) = lo16 x.
Proof. unfold lo16, lo32. rewrite <- N.land_assoc. reflexivity. Qed.

(* ------------------------------------------------------------------------------------------ *)
(* BasicHasher *)
Definition bp_ok (p : basic_params) : Prop :=
  33 <= bp_shr p /\ 1 <= bp_sweep p /\ bp_sweep p <= 2 ^ 31.

Lemma basic_hash_bound p w : bp_ok p -> basic_hash p w < 2 ^ 31.
Proof.
  intros [H1 _]. unfold basic_hash.
  remember (lo64 (lo64 (N.shiftl w (bp_shl p)) * kHashMul64)) as y eqn:Ey.
  assert (Hy : y < 2 ^ 64) by (subst y; apply lo64_lt). clear Ey.
  rewrite N.shiftr_div_pow2.
  assert (HP : 2 ^ 33 <= 2 ^ bp_shr p) by (apply N.pow_le_mono_r; [discriminate|exact H1]).
  remember (2 ^ bp_shr p) as P eqn:EP. clear EP.
  assert (Hq : y / P < 2 ^ 31).
  { apply N.div_lt_upper_bound; [lia|]. change (2 ^ 33) with 8589934592 in HP.
    change (2 ^ 64) with 18446744073709551616 in Hy. change (2 ^ 31) with 2147483648. lia. }
  rewrite lo32_small; [exact Hq|]. change (2 ^ 32) with 4294967296. change (2 ^ 31) with 2147483648 in Hq. lia.
Qed.

Lemma sweep_off_bound p ix : bp_ok p -> sweep_off p ix < 2 ^ 31.
Proof.
  intros [_ [H2 H3]]. unfold sweep_off.
  eapply N.lt_le_trans; [apply N.mod_upper_bound; lia|exact H3].
Qed.

Lemma basic_store_view p d mask T lim st q : bp_ok p -> view_ok d mask T lim -> 7 <= T -> q + 7 < lim ->
  basic_store p d mask st q =
  (b <- tset (b_buckets st) (basic_hash p (le64 d (N.land q mask)) + sweep_off p q) (lo32 q);;
   Ok {| b_common := b_common st; b_buckets := b |}).
Proof.
  intros Hp Hv HT Hq. unfold basic_store. rewrite (load64_view d mask T lim q Hv HT Hq). cbn [bind].
  pose proof (basic_hash_bound p (le64 d (N.land q mask)) Hp) as Hk.
  pose proof (sweep_off_bound p q Hp) as Ho.
  change (2 ^ 31) with 2147483648 in *.
  rewrite (lo32_small (sweep_off p q)) by (change (2 ^ 32) with 4294967296; lia).
  rewrite lo32_small by (change (2 ^ 32) with 4294967296; lia). reflexivity.
Qed.

Lemma basic_quad_eq p d mask T lim st q : bp_ok p -> view_ok d mask T lim -> 10 <= T -> q + 10 < lim ->
  basic_quad Repaired p d mask st q = for_each (basic_store p d mask) (range q (q + 4)) (Ok st).
Proof.
  intros Hp Hv HT Hq. rewrite range_4. unfold basic_quad.
  destruct (le64_view d mask T lim q 3 Hv) as [B3 E3]; [lia|lia|].
  destruct (le64_view d mask T lim q 2 Hv) as [_ E2]; [lia|lia|].
  destruct (le64_view d mask T lim q 1 Hv) as [_ E1]; [lia|lia|].
  change OPT_BASIC_WORD with 11.
  destruct (N.leb_spec (N.land q mask + 11) (blen d)) as [_|Hbad]; [|lia].
  rewrite E1, E2, E3. cbn zeta.
  cbn [for_each fold_left bind].
  rewrite (basic_store_view p d mask T lim st q Hp Hv) by lia.
  destruct (tset (b_buckets st) (basic_hash p (le64 d (N.land q mask)) + sweep_off p q) (lo32 q)) as [b1|]; cbn [bind]; [|reflexivity].
  rewrite (basic_store_view p d mask T lim _ (q + 1) Hp Hv) by lia. cbn [b_buckets b_common].
  destruct (tset b1 (basic_hash p (le64 d (N.land (q + 1) mask)) + sweep_off p (q + 1)) (lo32 (q + 1))) as [b2|]; cbn [bind]; [|reflexivity].
  rewrite (basic_store_view p d mask T lim _ (q + 2) Hp Hv) by lia. cbn [b_buckets b_common].
  destruct (tset b2 (basic_hash p (le64 d (N.land (q + 2) mask)) + sweep_off p (q + 2)) (lo32 (q + 2))) as [b3|]; cbn [bind]; [|reflexivity].
  rewrite (basic_store_view p d mask T lim _ (q + 3) Hp Hv) by lia. cbn [b_buckets b_common].
  reflexivity.
Qed.

Theorem basic_range_eq p d mask st s e : bp_ok p -> (s < e -> view_ok d mask 10 (e + 7)) ->
  basic_store_range Repaired p d mask st s e = one_at_a_time (basic_store p d mask) s e st.
Proof.
  intros Hp Hv. unfold one_at_a_time, basic_store_range, basic_store_range_opt.
  change OPT_BASIC_LOOKAHEAD with 8. change OPT_BASIC_CHUNK with 4.
  destruct (N.leb_spec (s + 8 * 2) e) as [Hle|Hgt]; [|reflexivity].
  assert (Hv' : view_ok d mask 10 (e + 7)) by (apply Hv; lia). clear Hv.
  pose proof (N.mul_div_le (e - s) 4 ltac:(discriminate)) as Hn.
  remember ((e - s) / 4) as n eqn:En. clear En.
  apply prefix_then_rest; [lia|lia|].
  apply chunks_eq. intros st' k Hk.
  apply (basic_quad_eq p d mask 10 (e + 7)); [exact Hp|exact Hv'|lia|nia].
Qed.

Theorem basic_bulk_eq p d mask st s e : bp_ok p -> (s < e -> view_ok d mask 10 (e + 7)) ->
  basic_bulk_store_range Repaired p d mask st s e = one_at_a_time (basic_store p d mask) s e st.
Proof. exact (basic_range_eq p d mask st s e). Qed.

(* any partition into consecutive pieces *)
Lemma last_cut_cons from c cs : last_cut from (c :: cs) = last_cut c cs.
Proof. unfold last_cut. revert c. induction cs as [|c' cs IH]; intros c; [reflexivity|]. cbn [last] in *. destruct cs; [reflexivity|]. apply IH. Qed.

Lemma ascending_last from cuts : ascending from cuts -> from <= last_cut from cuts.
Proof.
  revert from. induction cuts as [|c cs IH]; intros from H; [unfold last_cut; cbn; lia|].
  destruct H as [H1 H2]. rewrite last_cut_cons. specialize (IH c H2). lia.
Qed.

Lemma pieces_eq {S} (call : S -> N -> N -> res S) (store : S -> N -> res S) (lo hi : N) cuts :
  (forall st a b, lo <= a -> a <= b -> b <= hi -> call st a b = for_each store (range a b) (Ok st)) ->
  forall from r, lo <= from -> ascending from cuts -> last_cut from cuts <= hi ->
  pieces call cuts from r = for_each store (range from (last_cut from cuts)) r.
Proof.
  intros Hcall. induction cuts as [|c cs IH]; intros from r Hlo Hasc Hhi.
  - cbn [pieces]. unfold last_cut. cbn [last]. rewrite range_empty by lia. reflexivity.
  - destruct Hasc as [H1 H2]. rewrite last_cut_cons in *. cbn [pieces].
    pose proof (ascending_last c cs H2) as Hl.
    rewrite IH by (try assumption; lia).
    rewrite (range_split from c (last_cut c cs)) by lia. rewrite for_each_app. f_equal.
    destruct r as [st|]; cbn [bind]; [apply Hcall; lia|rewrite for_each_Panic; reflexivity].
Qed.

Theorem basic_split_eq p d mask st s cuts : bp_ok p -> ascending s cuts ->
  (s < last_cut s cuts -> view_ok d mask 10 (last_cut s cuts + 7)) ->
  pieces (fun st a b => basic_bulk_store_range Repaired p d mask st a b) cuts s (Ok st)
  = basic_bulk_store_range Repaired p d mask st s (last_cut s cuts).
Proof.
  intros Hp Hasc Hv. rewrite (basic_bulk_eq p d mask st s _ Hp Hv). unfold one_at_a_time.
  apply (pieces_eq _ _ s (last_cut s cuts)); [|lia|exact Hasc|lia].
  intros st' a b Hsa Hab Hb. apply basic_bulk_eq; [exact Hp|].
  intros Hlt. apply (view_mono d mask 10 (last_cut s cuts + 7)); [apply Hv; lia|lia].
Qed.
