(* C19 - proofs about model/Hashers.v: every batched update path equals the fold of the
   one-position update over the same positions. *)
From Coq Require Import NArith ZArith List Bool Lia.
From V Require Import lib.Words lib.Finite proofs.Bitops gen.GenHashers model.Hashers spec.HasherSpec.
Import ListNotations.
Open Scope N_scope.

(* ------------------------------------------------------------------------------------------ *)
(* outcomes, loops, ranges *)
Lemma for_each_Panic {S} (body : S -> N -> res S) l : for_each body l Panic = Panic.
Proof. induction l as [|x l IH]; [reflexivity|exact IH]. Qed.

Lemma for_each_app {S} (body : S -> N -> res S) l1 l2 r :
  for_each body (l1 ++ l2) r = for_each body l2 (for_each body l1 r).
Proof. unfold for_each. apply fold_left_app. Qed.

Lemma for_each_cons {S} (body : S -> N -> res S) x l r :
  for_each body (x :: l) r = for_each body l (bind r (fun s => body s x)).
Proof. reflexivity. Qed.

Lemma for_each_ext {S} (f g : S -> N -> res S) l r :
  (forall s x, In x l -> f s x = g s x) -> for_each f l r = for_each g l r.
Proof.
  revert r. induction l as [|x l IH]; intros r H; [reflexivity|].
  rewrite !for_each_cons. rewrite IH by (intros; apply H; right; assumption).
  destruct r as [s|]; [cbn [bind]; rewrite H by (left; reflexivity); reflexivity|reflexivity].
Qed.

Lemma range_nat_app lo n m : range_nat lo (n + m) = range_nat lo n ++ range_nat (lo + N.of_nat n) m.
Proof.
  revert lo. induction n as [|n IH]; intros lo.
  - cbn [plus range_nat app]. rewrite N.add_0_r. reflexivity.
  - cbn [plus range_nat app]. rewrite IH. f_equal. f_equal.
    replace (N.succ lo + N.of_nat n) with (lo + N.of_nat (S n)) by lia. reflexivity.
Qed.

Lemma range_split lo mid hi : lo <= mid -> mid <= hi -> range lo hi = range lo mid ++ range mid hi.
Proof.
  intros H1 H2. unfold range.
  replace (N.to_nat (hi - lo)) with (N.to_nat (mid - lo) + N.to_nat (hi - mid))%nat by lia.
  rewrite range_nat_app. do 2 f_equal. lia.
Qed.

Lemma range_empty lo hi : hi <= lo -> range lo hi = [].
Proof. intros H. unfold range. replace (hi - lo) with 0 by lia. reflexivity. Qed.

Lemma range_In lo hi x : In x (range lo hi) -> lo <= x /\ x < hi.
Proof.
  unfold range. remember (N.to_nat (hi - lo)) as n eqn:En.
  assert (Hn : lo + N.of_nat n <= hi \/ n = 0%nat) by lia. clear En.
  revert lo Hn. induction n as [|n IH]; intros lo Hn Hin; [destruct Hin|].
  cbn [range_nat] in Hin. destruct Hin as [<-|Hin]; [lia|].
  apply IH in Hin; lia.
Qed.

Lemma range_4 q : range q (q + 4) = [q; q + 1; q + 2; q + 3].
Proof.
  unfold range. replace (q + 4 - q) with 4 by lia. change (N.to_nat 4) with 4%nat.
  cbn [range_nat].
  replace (q + 1) with (N.succ q) by lia. replace (q + 2) with (N.succ (N.succ q)) by lia.
  replace (q + 3) with (N.succ (N.succ (N.succ q))) by lia. reflexivity.
Qed.

Lemma range_0_succ n : range 0 (N.succ n) = range 0 n ++ [n].
Proof. rewrite (range_split 0 n (N.succ n)) by lia. f_equal. unfold range. replace (N.succ n - n) with 1 by lia. reflexivity. Qed.

(* an invariant of the state that every one-position update preserves *)
Lemma for_each_inv {S} (P : S -> Prop) (store : S -> N -> res S) l :
  (forall st q st', P st -> store st q = Ok st' -> P st') ->
  forall st st', P st -> for_each store l (Ok st) = Ok st' -> P st'.
Proof.
  intros Hpres. induction l as [|x l IH]; intros st st' HP H.
  - cbn in H. injection H as <-. exact HP.
  - rewrite for_each_cons in H. cbn [bind] in H. destruct (store st x) as [s1|] eqn:E1.
    + apply (IH s1 st'); [eapply Hpres; eassumption|exact H].
    + rewrite for_each_Panic in H. discriminate.
Qed.

(* a loop over n chunks of c positions, each chunk equal to the one-at-a-time loop over its
   positions, is the one-at-a-time loop over all n * c positions *)
Lemma chunks_eq_inv {S} (P : S -> Prop) (store quad : S -> N -> res S) (s0 c n : N) (st : S) :
  (forall st q st', P st -> store st q = Ok st' -> P st') -> P st ->
  (forall st' k, P st' -> k < n -> quad st' (s0 + k * c) = for_each store (range (s0 + k * c) (s0 + k * c + c)) (Ok st')) ->
  for_each (fun s k => quad s (s0 + k * c)) (range 0 n) (Ok st) = for_each store (range s0 (s0 + n * c)) (Ok st).
Proof.
  intros Hpres HP. induction n as [|n IH] using N.peano_ind; intros Hq.
  - rewrite N.mul_0_l, N.add_0_r. rewrite (range_empty s0 s0) by lia. reflexivity.
  - rewrite range_0_succ, for_each_app. rewrite IH by (intros; apply Hq; [assumption|lia]).
    rewrite (range_split s0 (s0 + n * c) (s0 + N.succ n * c)) by lia.
    rewrite for_each_app.
    destruct (for_each store (range s0 (s0 + n * c)) (Ok st)) as [s1|] eqn:E1.
    + cbn [for_each fold_left bind]. rewrite Hq; [|eapply (for_each_inv P store); eassumption|lia].
      f_equal. f_equal. lia.
    + rewrite !for_each_Panic. reflexivity.
Qed.

Lemma chunks_eq {S} (store quad : S -> N -> res S) (s0 c n : N) (st : S) :
  (forall st' k, k < n -> quad st' (s0 + k * c) = for_each store (range (s0 + k * c) (s0 + k * c + c)) (Ok st')) ->
  for_each (fun s k => quad s (s0 + k * c)) (range 0 n) (Ok st) = for_each store (range s0 (s0 + n * c)) (Ok st).
Proof. intros H. apply (chunks_eq_inv (fun _ => True)); auto. Qed.

(* `r <- opt;; loop over the rest`, where opt did the first part one-at-a-time *)
Lemma prefix_then_rest {S} (store : S -> N -> res S) (s m e : N) (st : S) (first : res S) :
  s <= m -> m <= e -> first = for_each store (range s m) (Ok st) ->
  (r <- (st' <- first;; Ok (m, st'));; for_each store (range (fst r) e) (Ok (snd r)))
  = for_each store (range s e) (Ok st).
Proof.
  intros H1 H2 ->. rewrite (range_split s m e) by assumption. rewrite for_each_app.
  destruct (for_each store (range s m) (Ok st)) as [s1|]; cbn [bind fst snd]; [reflexivity|].
  rewrite for_each_Panic. reflexivity.
Qed.

(* ------------------------------------------------------------------------------------------ *)
(* masks and the ring-buffer view *)
Lemma land_usize_max x : x < 2 ^ 64 -> N.land x USIZE_MAX = x.
Proof.
  intros H. change USIZE_MAX with (2 ^ 64 - 1). rewrite land_ones_mod. apply N.mod_small. exact H.
Qed.

Lemma mod_wrap x M : M <= x -> x < 2 * M -> x mod M = x - M.
Proof.
  intros H1 H2. assert (HM : M <> 0) by lia.
  replace x with (x - M + 1 * M) at 1 by lia. rewrite N.mod_add by exact HM.
  apply N.mod_small. lia.
Qed.

Lemma view_mono d mask T lim lim' : view_ok d mask T lim -> lim' <= lim -> view_ok d mask T lim'.
Proof.
  intros [H1 H2] Hle. split; [lia|]. destruct H2 as [[Hm Hb]|H2]; [left; split; [exact Hm|lia]|right; exact H2].
Qed.

(* the byte c places after the masked address of position p is the byte at the masked address
   of position p + c *)
Lemma view_byte d mask T lim p c : view_ok d mask T lim -> c <= T -> p + c < lim ->
  N.land p mask + c < blen d /\ byte d (N.land p mask + c) = byte d (N.land (p + c) mask).
Proof.
  intros [Hlim [[-> Hb]|[k [-> [HT [Hlen Hring]]]]]] Hc Hp.
  - assert (H63 : 2 ^ 63 < 2 ^ 64) by (apply N.pow_lt_mono_r; lia).
    rewrite !land_usize_max by lia. split; [lia|reflexivity].
  - rewrite !land_ones_mod. remember (2 ^ k) as M eqn:EM.
    assert (HM : M <> 0) by (subst M; apply N.pow_nonzero; lia).
    pose proof (N.mod_upper_bound p M HM) as Ha.
    rewrite <- (N.add_mod_idemp_l p c M) by exact HM.
    remember (p mod M) as a eqn:Ea. clear Ea.
    destruct (N.lt_ge_cases (a + c) M) as [Hlt|Hge].
    + rewrite (N.mod_small (a + c) M) by exact Hlt. split; [lia|reflexivity].
    + rewrite (mod_wrap (a + c) M) by lia. split; [lia|].
      replace (a + c) with (M + (a + c - M)) at 1 by lia. apply Hring. lia.
Qed.

Lemma view_byte2 d mask T lim p c j : view_ok d mask T lim -> c + j <= T -> p + c + j < lim ->
  N.land p mask + c + j < blen d /\ byte d (N.land p mask + c + j) = byte d (N.land (p + c) mask + j).
Proof.
  intros Hv Hc Hp.
  destruct (view_byte d mask T lim p (c + j) Hv Hc) as [B1 E1]; [lia|].
  destruct (view_byte d mask T lim (p + c) j Hv) as [B2 E2]; [lia|lia|].
  rewrite <- N.add_assoc. split; [exact B1|]. rewrite E1, E2. f_equal. f_equal. lia.
Qed.

Lemma view_byte2_0 d mask T lim p c : view_ok d mask T lim -> c <= T -> p + c < lim ->
  byte d (N.land p mask + c) = byte d (N.land (p + c) mask).
Proof. intros Hv Hc Hp. apply (view_byte d mask T lim p c Hv Hc Hp). Qed.

Ltac view_bytes Hv :=
  repeat match goal with
  | |- context [byte ?d (N.land ?p ?mask + ?c + ?j)] =>
    rewrite (proj2 (view_byte2 d mask _ _ p c j Hv ltac:(lia) ltac:(lia)))
  end.

Lemma le64_view d mask T lim p c : view_ok d mask T lim -> c + 7 <= T -> p + c + 7 < lim ->
  N.land p mask + c + 8 <= blen d /\ le64 d (N.land p mask + c) = le64 d (N.land (p + c) mask).
Proof.
  intros Hv Hc Hp. split.
  - pose proof (proj1 (view_byte2 d mask T lim p c 7 Hv ltac:(lia) ltac:(lia))). lia.
  - unfold le64, le56. view_bytes Hv.
    rewrite (view_byte2_0 d mask T lim p c Hv) by lia. reflexivity.
Qed.

Lemma le32_view d mask T lim p c : view_ok d mask T lim -> c + 3 <= T -> p + c + 3 < lim ->
  N.land p mask + c + 4 <= blen d /\ le32 d (N.land p mask + c) = le32 d (N.land (p + c) mask).
Proof.
  intros Hv Hc Hp. split.
  - pose proof (proj1 (view_byte2 d mask T lim p c 3 Hv ltac:(lia) ltac:(lia))). lia.
  - unfold le32. view_bytes Hv.
    rewrite (view_byte2_0 d mask T lim p c Hv) by lia. reflexivity.
Qed.

(* the store's own load at position q succeeds *)
Lemma load64_view d mask T lim q : view_ok d mask T lim -> 7 <= T -> q + 7 < lim ->
  load64 d (N.land q mask) = Ok (le64 d (N.land q mask)).
Proof.
  intros Hv HT Hq. unfold load64.
  destruct (le64_view d mask T lim q 0 Hv) as [B _]; [lia|lia|].
  rewrite N.add_0_r in B. destruct (N.leb_spec (N.land q mask + 8) (blen d)); [reflexivity|lia].
Qed.
Lemma load32_view d mask T lim q : view_ok d mask T lim -> 3 <= T -> q + 3 < lim ->
  load32 d (N.land q mask) = Ok (le32 d (N.land q mask)).
Proof.
  intros Hv HT Hq. unfold load32.
  destruct (le32_view d mask T lim q 0 Hv) as [B _]; [lia|lia|].
  rewrite N.add_0_r in B. destruct (N.leb_spec (N.land q mask + 4) (blen d)); [reflexivity|lia].
Qed.

(* ------------------------------------------------------------------------------------------ *)
(* fixed-width helpers *)
Lemma lo64_lt x : lo64 x < 2 ^ 64.
Proof. unfold lo64. change M64 with (2 ^ 64 - 1). rewrite land_ones_mod. apply N.mod_upper_bound. discriminate. Qed.
Lemma lo32_lt x : lo32 x < 2 ^ 32.
Proof. unfold lo32. change M32 with (2 ^ 32 - 1). rewrite land_ones_mod. apply N.mod_upper_bound. discriminate. Qed.
Lemma lo32_small x : x < 2 ^ 32 -> lo32 x = x.
Proof. intros H. unfold lo32. change M32 with (2 ^ 32 - 1). rewrite land_ones_mod. apply N.mod_small. exact H. Qed.
Lemma lo16_lo32 x : lo16 (lo32 x) = lo16 x.
Proof. unfold lo16, lo32. rewrite <- N.land_assoc. reflexivity. Qed.

(* ------------------------------------------------------------------------------------------ *)
(* BasicHasher *)
Definition bp_ok (p : basic_params) : Prop :=
  33 <= bp_shr p /\ 1 <= bp_sweep p /\ bp_sweep p <= 2 ^ 31.

Lemma basic_hash_bound p w : bp_ok p -> basic_hash p w < 2 ^ 31.
Proof.
  intros [H1 _]. unfold basic_hash.
  remember (lo64 (lo64 (N.shiftl w (bp_shl p)) * kHashMul64)) as y eqn:Ey.
  assert (Hy : y < 2 ^ 64) by (subst y; apply lo64_lt). clear Ey.
  rewrite N.shiftr_div_pow2.
  assert (HP : 2 ^ 33 <= 2 ^ bp_shr p) by (apply N.pow_le_mono_r; [discriminate|exact H1]).
  remember (2 ^ bp_shr p) as P eqn:EP. clear EP.
  assert (Hq : y / P < 2 ^ 31).
  { apply N.div_lt_upper_bound; [lia|]. change (2 ^ 33) with 8589934592 in HP.
    change (2 ^ 64) with 18446744073709551616 in Hy. change (2 ^ 31) with 2147483648. lia. }
  rewrite lo32_small; [exact Hq|]. change (2 ^ 32) with 4294967296. change (2 ^ 31) with 2147483648 in Hq. lia.
Qed.

Lemma sweep_off_bound p ix : bp_ok p -> sweep_off p ix < 2 ^ 31.
Proof.
  intros [_ [H2 H3]]. unfold sweep_off.
  eapply N.lt_le_trans; [apply N.mod_upper_bound; lia|exact H3].
Qed.

Lemma basic_store_view p d mask T lim st q : bp_ok p -> view_ok d mask T lim -> 7 <= T -> q + 7 < lim ->
  basic_store p d mask st q =
  (b <- tset (b_buckets st) (basic_hash p (le64 d (N.land q mask)) + sweep_off p q) (lo32 q);;
   Ok {| b_common := b_common st; b_buckets := b |}).
Proof.
  intros Hp Hv HT Hq. unfold basic_store. rewrite (load64_view d mask T lim q Hv HT Hq). cbn [bind].
  pose proof (basic_hash_bound p (le64 d (N.land q mask)) Hp) as Hk.
  pose proof (sweep_off_bound p q Hp) as Ho.
  change (2 ^ 31) with 2147483648 in *.
  rewrite (lo32_small (sweep_off p q)) by (change (2 ^ 32) with 4294967296; lia).
  rewrite lo32_small by (change (2 ^ 32) with 4294967296; lia). reflexivity.
Qed.

Lemma basic_quad_eq p d mask T lim st q : bp_ok p -> view_ok d mask T lim -> 10 <= T -> q + 10 < lim ->
  basic_quad Repaired p d mask st q = for_each (basic_store p d mask) (range q (q + 4)) (Ok st).
Proof.
  intros Hp Hv HT Hq. rewrite range_4. unfold basic_quad.
  destruct (le64_view d mask T lim q 3 Hv) as [B3 E3]; [lia|lia|].
  destruct (le64_view d mask T lim q 2 Hv) as [_ E2]; [lia|lia|].
  destruct (le64_view d mask T lim q 1 Hv) as [_ E1]; [lia|lia|].
  change OPT_BASIC_WORD with 11.
  destruct (N.leb_spec (N.land q mask + 11) (blen d)) as [_|Hbad]; [|lia].
  rewrite E1, E2, E3. cbn zeta.
  cbn [for_each fold_left bind].
  rewrite (basic_store_view p d mask T lim st q Hp Hv) by lia.
  destruct (tset (b_buckets st) (basic_hash p (le64 d (N.land q mask)) + sweep_off p q) (lo32 q)) as [b1|]; cbn [bind]; [|reflexivity].
  rewrite (basic_store_view p d mask T lim _ (q + 1) Hp Hv) by lia. cbn [b_buckets b_common].
  destruct (tset b1 (basic_hash p (le64 d (N.land (q + 1) mask)) + sweep_off p (q + 1)) (lo32 (q + 1))) as [b2|]; cbn [bind]; [|reflexivity].
  rewrite (basic_store_view p d mask T lim _ (q + 2) Hp Hv) by lia. cbn [b_buckets b_common].
  destruct (tset b2 (basic_hash p (le64 d (N.land (q + 2) mask)) + sweep_off p (q + 2)) (lo32 (q + 2))) as [b3|]; cbn [bind]; [|reflexivity].
  rewrite (basic_store_view p d mask T lim _ (q + 3) Hp Hv) by lia. cbn [b_buckets b_common].
  reflexivity.
Qed.

Theorem basic_range_eq p d mask st s e : bp_ok p -> (s < e -> view_ok d mask 10 (e + 7)) ->
  basic_store_range Repaired p d mask st s e = one_at_a_time (basic_store p d mask) s e st.
Proof.
  intros Hp Hv. unfold one_at_a_time, basic_store_range, basic_store_range_opt.
  change OPT_BASIC_LOOKAHEAD with 8. change OPT_BASIC_CHUNK with 4.
  destruct (N.leb_spec (s + 8 * 2) e) as [Hle|Hgt]; [|reflexivity].
  assert (Hv' : view_ok d mask 10 (e + 7)) by (apply Hv; lia). clear Hv.
  pose proof (N.mul_div_le (e - s) 4 ltac:(discriminate)) as Hn.
  remember ((e - s) / 4) as n eqn:En. clear En.
  apply prefix_then_rest; [lia|lia|].
  apply chunks_eq. intros st' k Hk.
  apply (basic_quad_eq p d mask 10 (e + 7)); [exact Hp|exact Hv'|lia|nia].
Qed.

Theorem basic_bulk_eq p d mask st s e : bp_ok p -> (s < e -> view_ok d mask 10 (e + 7)) ->
  basic_bulk_store_range Repaired p d mask st s e = one_at_a_time (basic_store p d mask) s e st.
Proof. exact (basic_range_eq p d mask st s e). Qed.

(* any partition into consecutive pieces *)
Lemma last_cut_cons from c cs : last_cut from (c :: cs) = last_cut c cs.
Proof. unfold last_cut. revert c. induction cs as [|c' cs IH]; intros c; [reflexivity|]. cbn [last] in *. destruct cs; [reflexivity|]. apply IH. Qed.

Lemma ascending_last from cuts : ascending from cuts -> from <= last_cut from cuts.
Proof.
  revert from. induction cuts as [|c cs IH]; intros from H; [unfold last_cut; cbn; lia|].
  destruct H as [H1 H2]. rewrite last_cut_cons. specialize (IH c H2). lia.
Qed.

Lemma pieces_eq {S} (call : S -> N -> N -> res S) (store : S -> N -> res S) (lo hi : N) cuts :
  (forall st a b, lo <= a -> a <= b -> b <= hi -> call st a b = for_each store (range a b) (Ok st)) ->
  forall from r, lo <= from -> ascending from cuts -> last_cut from cuts <= hi ->
  pieces call cuts from r = for_each store (range from (last_cut from cuts)) r.
Proof.
  intros Hcall. induction cuts as [|c cs IH]; intros from r Hlo Hasc Hhi.
  - cbn [pieces]. unfold last_cut. cbn [last]. rewrite range_empty by lia. reflexivity.
  - destruct Hasc as [H1 H2]. rewrite last_cut_cons in *. cbn [pieces].
    pose proof (ascending_last c cs H2) as Hl.
    rewrite IH by (try assumption; lia).
    rewrite (range_split from c (last_cut c cs)) by lia. rewrite for_each_app. f_equal.
    destruct r as [st|]; cbn [bind]; [apply Hcall; lia|rewrite for_each_Panic; reflexivity].
Qed.

Theorem basic_split_eq p d mask st s cuts : bp_ok p -> ascending s cuts ->
  (s < last_cut s cuts -> view_ok d mask 10 (last_cut s cuts + 7)) ->
  pieces (fun st a b => basic_bulk_store_range Repaired p d mask st a b) cuts s (Ok st)
  = basic_bulk_store_range Repaired p d mask st s (last_cut s cuts).
Proof.
  intros Hp Hasc Hv. rewrite (basic_bulk_eq p d mask st s _ Hp Hv). unfold one_at_a_time.
  apply (pieces_eq _ _ s (last_cut s cuts)); [|lia|exact Hasc|lia].
  intros st' a b Hsa Hab Hb. apply basic_bulk_eq; [exact Hp|].
  intros Hlt. apply (view_mono d mask 10 (last_cut s cuts + 7)); [apply Hv; lia|lia].
Qed.

(* ------------------------------------------------------------------------------------------ *)
(* little-endian words as sums; the k-th 32-bit window of a 7-byte word *)
Lemma byte_lt d a : byte d a < 256.
Proof. unfold byte. change 255 with (2 ^ 8 - 1). rewrite land_ones_mod. apply N.mod_upper_bound. discriminate. Qed.

Lemma lor_sum acc b k : acc < 2 ^ k -> N.lor acc (N.shiftl b k) = acc + b * 2 ^ k.
Proof. intros H. rewrite (lor_small_shiftl b k acc H). lia. Qed.

Lemma le32_sum d a :
  le32 d a = byte d a + byte d (a + 1) * 2 ^ 8 + byte d (a + 2) * 2 ^ 16 + byte d (a + 3) * 2 ^ 24.
Proof.
  unfold le32.
  pose proof (byte_lt d a). pose proof (byte_lt d (a + 1)). pose proof (byte_lt d (a + 2)).
  rewrite (lor_sum (byte d a) _ 8) by (change (2 ^ 8) with 256; lia).
  rewrite (lor_sum _ _ 16) by (change (2 ^ 8) with 256; change (2 ^ 16) with 65536; lia).
  rewrite (lor_sum _ _ 24) by (change (2 ^ 8) with 256; change (2 ^ 16) with 65536; change (2 ^ 24) with 16777216; lia).
  reflexivity.
Qed.

Lemma le56_sum d a :
  le56 d a = byte d a + byte d (a + 1) * 2 ^ 8 + byte d (a + 2) * 2 ^ 16 + byte d (a + 3) * 2 ^ 24
             + byte d (a + 4) * 2 ^ 32 + byte d (a + 5) * 2 ^ 40 + byte d (a + 6) * 2 ^ 48.
Proof.
  unfold le56.
  pose proof (byte_lt d a). pose proof (byte_lt d (a + 1)). pose proof (byte_lt d (a + 2)).
  pose proof (byte_lt d (a + 3)). pose proof (byte_lt d (a + 4)). pose proof (byte_lt d (a + 5)).
  change (2 ^ 8) with 256. change (2 ^ 16) with 65536. change (2 ^ 24) with 16777216.
  change (2 ^ 32) with 4294967296. change (2 ^ 40) with 1099511627776. change (2 ^ 48) with 281474976710656.
  rewrite (lor_sum (byte d a) _ 8) by (change (2 ^ 8) with 256; lia).
  rewrite (lor_sum _ _ 16) by (change (2 ^ 8) with 256; change (2 ^ 16) with 65536; lia).
  rewrite (lor_sum _ _ 24) by (change (2 ^ 8) with 256; change (2 ^ 16) with 65536; change (2 ^ 24) with 16777216; lia).
  rewrite (lor_sum _ _ 32) by (change (2 ^ 8) with 256; change (2 ^ 16) with 65536; change (2 ^ 24) with 16777216; change (2 ^ 32) with 4294967296; lia).
  rewrite (lor_sum _ _ 40) by (change (2 ^ 8) with 256; change (2 ^ 16) with 65536; change (2 ^ 24) with 16777216; change (2 ^ 32) with 4294967296; change (2 ^ 40) with 1099511627776; lia).
  rewrite (lor_sum _ _ 48) by (change (2 ^ 8) with 256; change (2 ^ 16) with 65536; change (2 ^ 24) with 16777216; change (2 ^ 32) with 4294967296; change (2 ^ 40) with 1099511627776; change (2 ^ 48) with 281474976710656; lia).
  change (2 ^ 8) with 256. change (2 ^ 16) with 65536. change (2 ^ 24) with 16777216.
  change (2 ^ 32) with 4294967296. change (2 ^ 40) with 1099511627776. change (2 ^ 48) with 281474976710656.
  reflexivity.
Qed.

Lemma le32_lt d a : le32 d a < 2 ^ 32.
Proof.
  rewrite le32_sum.
  pose proof (byte_lt d a). pose proof (byte_lt d (a + 1)). pose proof (byte_lt d (a + 2)). pose proof (byte_lt d (a + 3)).
  change (2 ^ 8) with 256. change (2 ^ 16) with 65536. change (2 ^ 24) with 16777216. change (2 ^ 32) with 4294967296. lia.
Qed.

Ltac Zify.zify_post_hook ::= Z.to_euclidean_division_equations.
Lemma window_arith b0 b1 b2 b3 b4 b5 b6 :
  b0 < 256 -> b1 < 256 -> b2 < 256 -> b3 < 256 -> b4 < 256 -> b5 < 256 -> b6 < 256 ->
  let W := b0 + b1 * 256 + b2 * 65536 + b3 * 16777216 + b4 * 4294967296 + b5 * 1099511627776 + b6 * 281474976710656 in
  W mod 4294967296 = b0 + b1 * 256 + b2 * 65536 + b3 * 16777216 /\
  (W / 256) mod 4294967296 = b1 + b2 * 256 + b3 * 65536 + b4 * 16777216 /\
  (W / 65536) mod 4294967296 = b2 + b3 * 256 + b4 * 65536 + b5 * 16777216 /\
  (W / 16777216) mod 4294967296 = b3 + b4 * 256 + b5 * 65536 + b6 * 16777216.
Proof. intros. subst W. repeat split; lia. Qed.
Ltac Zify.zify_post_hook ::= idtac.

Lemma le56_window d a :
  N.land (le56 d a) M32 = le32 d a /\
  N.land (N.shiftr (le56 d a) 8) M32 = le32 d (a + 1) /\
  N.land (N.shiftr (le56 d a) 16) M32 = le32 d (a + 2) /\
  N.land (N.shiftr (le56 d a) 24) M32 = le32 d (a + 3).
Proof.
  rewrite le56_sum, !le32_sum.
  replace (a + 1 + 1) with (a + 2) by lia. replace (a + 1 + 2) with (a + 3) by lia.
  replace (a + 1 + 3) with (a + 4) by lia. replace (a + 2 + 1) with (a + 3) by lia.
  replace (a + 2 + 2) with (a + 4) by lia. replace (a + 2 + 3) with (a + 5) by lia.
  replace (a + 3 + 1) with (a + 4) by lia. replace (a + 3 + 2) with (a + 5) by lia.
  replace (a + 3 + 3) with (a + 6) by lia.
  change M32 with (2 ^ 32 - 1). rewrite !land_ones_mod, !N.shiftr_div_pow2.
  change (2 ^ 8) with 256. change (2 ^ 16) with 65536. change (2 ^ 24) with 16777216.
  change (2 ^ 32) with 4294967296. change (2 ^ 40) with 1099511627776. change (2 ^ 48) with 281474976710656.
  apply window_arith; apply byte_lt.
Qed.

(* ------------------------------------------------------------------------------------------ *)
(* AdvHasher, the kinds with a 4-byte hash (H5, H5q5, H5q7) *)
Definition adv32_ok (sp : adv_spec) : Prop :=
  ak sp <> AK_H6 /\ block_bits sp <= hash_shift sp /\ hash_shift sp <= 32.

Lemma adv32_consts sp : ak sp <> AK_H6 ->
  get_hash_mask sp = M32 /\ get_k_hash_mul sp = kHashMul32 /\ store_lookahead sp = 4.
Proof. unfold get_hash_mask, get_k_hash_mul, store_lookahead. destruct (ak sp); intros H; try (repeat split; reflexivity). congruence. Qed.

(* key of a 32-bit window *)
Definition mixk (sp : adv_spec) (w : N) : N := N.shiftr (N.land (w * kHashMul32) M32) (hash_shift sp).

Lemma mix_window_ok sp w : ak sp <> AK_H6 -> w < 2 ^ 32 -> mix_window sp w = Ok (mixk sp w).
Proof.
  intros Hk Hw. destruct (adv32_consts sp Hk) as [E1 [E2 _]].
  unfold mix_window, mul_u64, mixk. rewrite E1, E2. cbn zeta.
  change (2 ^ 32) with 4294967296 in Hw.
  destruct (N.leb_spec (w * kHashMul32) M64) as [_|Hbad]; [reflexivity|].
  exfalso. unfold kHashMul32, M64 in Hbad. lia.
Qed.

Lemma mixk_small sp w : hash_shift sp <= 32 -> mixk sp w * 2 ^ hash_shift sp < 2 ^ 32.
Proof.
  intros Hs. unfold mixk. rewrite N.shiftr_div_pow2.
  pose proof (lo32_lt (w * kHashMul32)) as Hl. unfold lo32 in Hl.
  remember (N.land (w * kHashMul32) M32) as y. remember (2 ^ hash_shift sp) as P.
  assert (P <> 0) by (subst P; apply N.pow_nonzero; discriminate).
  pose proof (N.mul_div_le y P ltac:(assumption)). lia.
Qed.

Lemma mixk_lt32 sp w : mixk sp w < 2 ^ 32.
Proof.
  unfold mixk. rewrite N.shiftr_div_pow2.
  pose proof (lo32_lt (w * kHashMul32)) as Hl. unfold lo32 in Hl.
  eapply N.le_lt_trans; [|exact Hl]. apply N.div_le_upper_bound; [apply N.pow_nonzero; discriminate|].
  assert (Hnz : 2 ^ hash_shift sp <> 0) by (apply N.pow_nonzero; discriminate).
  remember (2 ^ hash_shift sp) as P eqn:EP. clear EP.
  remember (N.land (w * kHashMul32) M32) as y eqn:Ey. clear Ey. nia.
Qed.

(* one update of (num, buckets) at a given key *)
Definition adv_put (sp : adv_spec) (nb : table * table) (kv : N * N) : res (table * table) :=
  x <- tget (fst nb) (fst kv);;
  b <- tset (snd nb) (N.shiftl (fst kv) (block_bits sp) + N.land x (block_mask sp)) (lo32 (snd kv));;
  n <- tset (fst nb) (fst kv) (lo16 (x + 1));;
  Ok (n, b).
Definition adv_puts (sp : adv_spec) (l : list (N * N)) (nb : table * table) : res (table * table) :=
  fold_left (fun acc kv => bind acc (fun s => adv_put sp s kv)) l (Ok nb).
Definition adv_with (st : adv_state) (nb : table * table) : adv_state :=
  {| a_common := a_common st; a_spec := a_spec st; a_num := fst nb; a_buckets := snd nb |}.

Lemma adv_puts_cons sp kv l nb :
  adv_puts sp (kv :: l) nb = (s <- adv_put sp nb kv;; adv_puts sp l s).
Proof.
  unfold adv_puts. cbn [fold_left bind]. destruct (adv_put sp nb kv) as [s|]; cbn [bind]; [reflexivity|].
  induction l as [|x l IH]; [reflexivity|exact IH].
Qed.

Definition K (sp : adv_spec) (d : buf) (mask q : N) : N := mixk sp (le32 d (N.land q mask)).

Lemma adv_store_view d mask T lim st q : adv32_ok (a_spec st) -> view_ok d mask T lim -> 3 <= T -> q + 3 < lim ->
  adv_store d mask st q =
  (r <- adv_put (a_spec st) (a_num st, a_buckets st) (K (a_spec st) d mask q, q);; Ok (adv_with st r)).
Proof.
  intros [Hk [Hbb Hsh]] Hv HT Hq. destruct (adv32_consts _ Hk) as [E1 [E2 _]].
  pose proof (le32_lt d (N.land q mask)) as Hw.
  pose proof (mix_window_ok (a_spec st) _ Hk Hw) as Hm. unfold mix_window in Hm. rewrite E1, E2 in Hm.
  pose proof (mixk_small (a_spec st) (le32 d (N.land q mask)) Hsh) as Hs.
  assert (Hshl : N.shiftl (mixk (a_spec st) (le32 d (N.land q mask))) (block_bits (a_spec st)) < 2 ^ 32).
  { rewrite N.shiftl_mul_pow2. eapply N.le_lt_trans; [|exact Hs]. apply N.mul_le_mono_l.
    apply N.pow_le_mono_r; [discriminate|exact Hbb]. }
  assert (Hmix : load_and_mix_word (a_spec st) d (N.land q mask)
                 = (m <- mul_u64 (le32 d (N.land q mask)) kHashMul32;; Ok (N.land m M32))).
  { unfold load_and_mix_word. rewrite E1, E2.
    destruct (ak (a_spec st)); try congruence; rewrite (load32_view d mask T lim q Hv HT Hq); reflexivity. }
  unfold adv_store, adv_hash_bytes, adv_put, K. rewrite Hmix. cbn [fst snd].
  destruct (mul_u64 (le32 d (N.land q mask)) kHashMul32) as [m|] eqn:Em; cbn [bind] in Hm |- *; [|discriminate].
  injection Hm as Hm. rewrite Hm. rewrite (lo32_small _ (mixk_lt32 _ _)). rewrite (lo32_small _ Hshl).
  destruct (tget (a_num st) (mixk (a_spec st) (le32 d (N.land q mask)))) as [x|]; cbn [bind]; [|reflexivity].
  rewrite (N.add_comm (N.land x _)).
  destruct (tset (a_buckets st) _ (lo32 q)) as [b|]; cbn [bind]; [|reflexivity].
  destruct (tset (a_num st) _ _) as [n|]; cbn [bind]; reflexivity.
Qed.

Lemma adv_stores_puts d mask T lim l : view_ok d mask T lim -> 3 <= T ->
  forall st, adv32_ok (a_spec st) -> (forall q, In q l -> q + 3 < lim) ->
  for_each (adv_store d mask) l (Ok st) =
  (r <- adv_puts (a_spec st) (map (fun q => (K (a_spec st) d mask q, q)) l) (a_num st, a_buckets st);; Ok (adv_with st r)).
Proof.
  intros Hv HT. induction l as [|q l IH]; intros st Hok Hl.
  - cbn. unfold adv_with. destruct st; reflexivity.
  - rewrite for_each_cons. cbn [bind map]. rewrite adv_puts_cons.
    rewrite (adv_store_view d mask T lim st q Hok Hv HT) by (apply Hl; left; reflexivity).
    destruct (adv_put (a_spec st) (a_num st, a_buckets st) (K (a_spec st) d mask q, q)) as [r|]; cbn [bind].
    + rewrite IH; [|exact Hok|intros; apply Hl; right; assumption].
      cbn [adv_with a_spec a_num a_buckets]. destruct r as [n b]. reflexivity.
    + apply for_each_Panic.
Qed.

Lemma bump_eq sp num m :
  bump sp num m = (n <- tget num m;; nm <- tset num m (lo16 (n + 1));; Ok (nm, N.land n (block_mask sp))).
Proof. unfold bump. destruct (tget num m) as [n|]; cbn [bind]; [rewrite lo16_lo32|]; reflexivity. Qed.

Lemma quad_keys_puts st m0 m1 m2 m3 v0 v1 v2 v3 :
  adv_quad_keys st m0 m1 m2 m3 v0 v1 v2 v3 =
  (r <- adv_puts (a_spec st) [(m0, v0); (m1, v1); (m2, v2); (m3, v3)] (a_num st, a_buckets st);; Ok (adv_with st r)).
Proof.
  unfold adv_quad_keys, adv_puts, adv_put, adv_with. cbn [fold_left fst snd bind].
  rewrite bump_eq.
  destruct (tget (a_num st) m0) as [x0|]; cbn [bind fst snd]; [|reflexivity].
  destruct (tset (a_num st) m0 (lo16 (x0 + 1))) as [n1|]; cbn [bind fst snd];
    [|destruct (tset (a_buckets st) _ (lo32 v0)); reflexivity].
  rewrite bump_eq.
  destruct (tset (a_buckets st) (N.shiftl m0 (block_bits (a_spec st)) + N.land x0 (block_mask (a_spec st))) (lo32 v0)) as [b1|] eqn:Eb1; cbn [bind fst snd].
  2:{ destruct (tget n1 m1) as [x1|]; cbn [bind fst snd]; [|reflexivity].
      destruct (tset n1 m1 _) as [n2|]; cbn [bind fst snd]; [|reflexivity].
      rewrite bump_eq.
      destruct (tget n2 m2) as [x2|]; cbn [bind fst snd]; [|reflexivity].
      destruct (tset n2 m2 _) as [n3|]; cbn [bind fst snd]; [|reflexivity].
      rewrite bump_eq.
      destruct (tget n3 m3) as [x3|]; cbn [bind fst snd]; [|reflexivity].
      destruct (tset n3 m3 _) as [n4|]; cbn [bind fst snd]; reflexivity. }
  destruct (tget n1 m1) as [x1|]; cbn [bind fst snd]; [|reflexivity].
  destruct (tset n1 m1 (lo16 (x1 + 1))) as [n2|]; cbn [bind fst snd];
    [|destruct (tset b1 _ (lo32 v1)); reflexivity].
  rewrite bump_eq.
  destruct (tset b1 (N.shiftl m1 (block_bits (a_spec st)) + N.land x1 (block_mask (a_spec st))) (lo32 v1)) as [b2|] eqn:Eb2; cbn [bind fst snd].
  2:{ destruct (tget n2 m2) as [x2|]; cbn [bind fst snd]; [|reflexivity].
      destruct (tset n2 m2 _) as [n3|]; cbn [bind fst snd]; [|reflexivity].
      rewrite bump_eq.
      destruct (tget n3 m3) as [x3|]; cbn [bind fst snd]; [|reflexivity].
      destruct (tset n3 m3 _) as [n4|]; cbn [bind fst snd]; reflexivity. }
  destruct (tget n2 m2) as [x2|]; cbn [bind fst snd]; [|reflexivity].
  destruct (tset n2 m2 (lo16 (x2 + 1))) as [n3|]; cbn [bind fst snd];
    [|destruct (tset b2 _ (lo32 v2)); reflexivity].
  rewrite bump_eq.
  destruct (tset b2 (N.shiftl m2 (block_bits (a_spec st)) + N.land x2 (block_mask (a_spec st))) (lo32 v2)) as [b3|] eqn:Eb3; cbn [bind fst snd].
  2:{ destruct (tget n3 m3) as [x3|]; cbn [bind fst snd]; [|reflexivity].
      destruct (tset n3 m3 _) as [n4|]; cbn [bind fst snd]; reflexivity. }
  destruct (tget n3 m3) as [x3|]; cbn [bind fst snd]; [|reflexivity].
  destruct (tset n3 m3 (lo16 (x3 + 1))) as [n4|]; cbn [bind fst snd];
    [|destruct (tset b3 _ (lo32 v3)); reflexivity].
  destruct (tset b3 _ (lo32 v3)) as [b4|]; cbn [bind fst snd]; reflexivity.
Qed.

Lemma adv_store_spec d mask st q st' : adv_store d mask st q = Ok st' -> a_spec st' = a_spec st /\ tlen (a_num st') = tlen (a_num st) /\ tlen (a_buckets st') = tlen (a_buckets st) /\ a_common st' = a_common st.
Proof.
  unfold adv_store. destruct (adv_hash_bytes _ _ _) as [key|]; cbn [bind]; [|discriminate].
  destruct (tget _ _) as [n|]; cbn [bind]; [|discriminate].
  unfold tset. destruct (_ <? tlen (a_buckets st)); cbn [bind]; [|discriminate].
  destruct (_ <? tlen (a_num st)); cbn [bind]; [|discriminate].
  intros H. injection H as <-. cbn. repeat split; reflexivity.
Qed.

(* four windows of the 7-byte word at address a are the four one-position updates q .. q+3 *)
Lemma adv_quad_at d mask T lim st a q : adv32_ok (a_spec st) -> view_ok d mask T lim -> 3 <= T -> q + 6 < lim ->
  le32 d a = le32 d (N.land q mask) -> le32 d (a + 1) = le32 d (N.land (q + 1) mask) ->
  le32 d (a + 2) = le32 d (N.land (q + 2) mask) -> le32 d (a + 3) = le32 d (N.land (q + 3) mask) ->
  adv_quad_word st (le56 d a) q (q + 1) (q + 2) (q + 3) = for_each (adv_store d mask) (range q (q + 4)) (Ok st).
Proof.
  intros Hok Hv HT Hq E0 E1 E2 E3. destruct Hok as [Hk Hrest].
  unfold adv_quad_word. destruct (le56_window d a) as [W0 [W1 [W2 W3]]].
  rewrite W0, W1, W2, W3.
  rewrite !mix_window_ok by (try exact Hk; apply le32_lt). cbn [bind].
  rewrite quad_keys_puts. rewrite range_4.
  rewrite (adv_stores_puts d mask T lim _ Hv HT st (conj Hk Hrest)).
  - unfold K. cbn [map]. rewrite E0, E1, E2, E3. reflexivity.
  - intros x [<-|[<-|[<-|[<-|[]]]]]; lia.
Qed.

Lemma adv_batch_quad_eq d mask T lim st q : adv32_ok (a_spec st) -> view_ok d mask T lim -> 6 <= T -> q + 6 < lim ->
  adv_batch_quad Repaired d mask st q = for_each (adv_store d mask) (range q (q + 4)) (Ok st).
Proof.
  intros Hok Hv HT Hq. unfold adv_batch_quad.
  destruct (le32_view d mask T lim q 3 Hv) as [B3 E3]; [lia|lia|].
  destruct (le32_view d mask T lim q 2 Hv) as [_ E2]; [lia|lia|].
  destruct (le32_view d mask T lim q 1 Hv) as [_ E1]; [lia|lia|].
  destruct (N.leb_spec (N.land q mask + 7) (blen d)) as [_|Hbad]; [|lia].
  apply (adv_quad_at d mask T lim); try assumption; try lia; try reflexivity.
Qed.

Theorem adv_range_eq d mask st s e : adv32_ok (a_spec st) -> adv_lens_ok st = true ->
  (s < e -> view_ok d mask 6 (e + 3)) ->
  adv_store_range Repaired d mask st s e = one_at_a_time (adv_store d mask) s e st.
Proof.
  intros Hok Hlens Hv. unfold one_at_a_time, adv_store_range, adv_store_range_opt.
  destruct (adv32_consts _ (proj1 Hok)) as [_ [_ El]]. rewrite El, Hlens.
  change OPT_BATCH_CHUNK with 4. change (4 =? 4) with true. rewrite andb_true_r.
  destruct (N.leb_spec (s + 4 * 2) e) as [Hle|Hgt]; [|reflexivity].
  assert (Hv' : view_ok d mask 6 (e + 3)) by (apply Hv; lia). clear Hv.
  pose proof (N.mul_div_le (e - s) 4 ltac:(discriminate)) as Hn.
  remember ((e - s) / 4) as n eqn:En. clear En.
  apply prefix_then_rest; [lia|lia|].
  apply (chunks_eq_inv (fun st' => a_spec st' = a_spec st)).
  - intros st1 q st2 H1 H2. destruct (adv_store_spec _ _ _ _ _ H2) as [E _]. congruence.
  - reflexivity.
  - intros st' k HP Hk. apply (adv_batch_quad_eq d mask 6 (e + 3)); [rewrite HP; exact Hok|exact Hv'|lia|nia].
Qed.

Lemma view_unmasked d T lim : view_ok d USIZE_MAX T lim -> lim < 2 ^ 63 /\ lim <= blen d.
Proof.
  intros [H1 [[_ H2]|[k [Hk [_ [Hlen _]]]]]]; [split; assumption|]. split; [exact H1|].
  assert (E : 2 ^ k = 2 ^ 64).
  { assert (2 ^ k <> 0) by (apply N.pow_nonzero; discriminate). change USIZE_MAX with (2 ^ 64 - 1) in Hk.
    assert (0 < 2 ^ 64) by reflexivity. lia. }
  rewrite E in Hlen. assert (2 ^ 63 < 2 ^ 64) by reflexivity. lia.
Qed.

Lemma adv_memfetch_block_eq d T lim st q : adv32_ok (a_spec st) -> view_ok d USIZE_MAX T lim -> 3 <= T -> q + 34 < lim ->
  adv_memfetch_block d st q = for_each (adv_store d USIZE_MAX) (range q (q + 32)) (Ok st).
Proof.
  intros Hok Hv HT Hq. destruct (view_unmasked d T lim Hv) as [Hl Hb].
  assert (H63 : 2 ^ 63 < 2 ^ 64) by reflexivity.
  unfold adv_memfetch_block. change MEMFETCH_REG_SIZE with 32. change (32 + 4 - 1) with 35. change (32 / 4) with 8.
  destruct (N.leb_spec (q + 35) (blen d)) as [_|Hbad]; [|lia].
  change (fun (s : adv_state) (q0 : N) => let i := q0 * 4 in
            adv_quad_word s (le56 d (q + i)) (q + i) (q + i + 1) (q + i + 2) (q + i + 3))
    with (fun (s : adv_state) (k : N) => (fun s' x => adv_quad_word s' (le56 d x) x (x + 1) (x + 2) (x + 3)) s (q + k * 4)).
  change (q + 32) with (q + 8 * 4).
  apply (chunks_eq_inv (fun st' => a_spec st' = a_spec st) (adv_store d USIZE_MAX)
           (fun s' x => adv_quad_word s' (le56 d x) x (x + 1) (x + 2) (x + 3)) q 4 8 st).
  - intros st1 x st2 H1 H2. destruct (adv_store_spec _ _ _ _ _ H2) as [E _]. congruence.
  - reflexivity.
  - intros st' k HP Hk.
    apply (adv_quad_at d USIZE_MAX T lim); [rewrite HP; exact Hok|exact Hv|exact HT|lia| | | |];
      rewrite land_usize_max by lia; reflexivity.
Qed.

Theorem adv_bulk_eq d mask st s e : adv32_ok (a_spec st) -> adv_lens_ok st = true ->
  (s < e -> view_ok d mask 6 (e + 3)) ->
  adv_bulk_store_range d mask st s e = one_at_a_time (adv_store d mask) s e st.
Proof.
  intros Hok Hlens Hv. unfold one_at_a_time, adv_bulk_store_range, adv_bulk_opt_memfetch.
  destruct (adv32_consts _ (proj1 Hok)) as [_ [_ El]]. rewrite El, Hlens.
  change MEMFETCH_REG_SIZE with 32. change (4 =? 4) with true. rewrite andb_true_r.
  destruct (N.eqb_spec mask USIZE_MAX) as [->|Hne]; [|reflexivity].
  destruct (N.ltb_spec (s + 32) e) as [Hlt|Hge]; [|reflexivity]. cbn [andb].
  assert (Hv' : view_ok d USIZE_MAX 6 (e + 3)) by (apply Hv; lia). clear Hv.
  pose proof (N.mul_div_le (e - s) 32 ltac:(discriminate)) as Hn.
  remember ((e - s) / 32) as n eqn:En. clear En.
  apply prefix_then_rest; [lia|lia|].
  apply (chunks_eq_inv (fun st' => a_spec st' = a_spec st)).
  - intros st1 q st2 H1 H2. destruct (adv_store_spec _ _ _ _ _ H2) as [E _]. congruence.
  - reflexivity.
  - intros st' k HP Hk. apply (adv_memfetch_block_eq d 6 (e + 3)); [rewrite HP; exact Hok|exact Hv'|lia|nia].
Qed.

(* H6 (8-byte hash): neither fast path is taken, whatever the variant *)
Theorem adv_h6_range_eq v d mask st s e : ak (a_spec st) = AK_H6 ->
  adv_store_range v d mask st s e = one_at_a_time (adv_store d mask) s e st.
Proof.
  intros Hk. unfold one_at_a_time, adv_store_range, adv_store_range_opt, store_lookahead. rewrite Hk.
  change (H6_StoreLookahead =? 4) with false. rewrite andb_false_r. reflexivity.
Qed.
Theorem adv_h6_bulk_eq d mask st s e : ak (a_spec st) = AK_H6 ->
  adv_bulk_store_range d mask st s e = one_at_a_time (adv_store d mask) s e st.
Proof.
  intros Hk. unfold one_at_a_time, adv_bulk_store_range, adv_bulk_opt_memfetch, store_lookahead. rewrite Hk.
  change (H6_StoreLookahead =? 4) with false. rewrite andb_false_r. reflexivity.
Qed.

(* H9 and H10: the bulk entry point is the one-at-a-time loop *)
Theorem h9_range_eq d mask st s e : h9_store_range d mask st s e = one_at_a_time (h9_store d mask) s e st.
Proof. reflexivity. Qed.
Theorem h9_bulk_eq d mask st s e : h9_bulk_store_range d mask st s e = one_at_a_time (h9_store d mask) s e st.
Proof. reflexivity. Qed.
Theorem h10_bulk_eq d mask st s e : h10_bulk_store_range d mask st s e = one_at_a_time (h10_store d mask) s e st.
Proof. reflexivity. Qed.
(* H10::StoreRange stores every position only for ranges shorter than 63 *)
Theorem h10_range_short_eq d mask st s e : e < s + H10_RANGE_TAIL ->
  h10_store_range d mask st s e = one_at_a_time (h10_store d mask) s e st.
Proof.
  intros H. unfold h10_store_range, one_at_a_time. change H10_RANGE_TAIL with 63 in *. change H10_RANGE_THIN_MIN with 512.
  destruct (N.leb_spec (s + 63) e) as [Hbad|_]; [lia|].
  destruct (N.leb_spec (s + 512) s) as [Hbad|_]; [lia|]. reflexivity.
Qed.

(* partitions for the other kinds *)
Theorem adv_split_eq d mask st s cuts : adv32_ok (a_spec st) -> adv_lens_ok st = true -> ascending s cuts ->
  (s < last_cut s cuts -> view_ok d mask 6 (last_cut s cuts + 3)) ->
  pieces (fun st a b => adv_bulk_store_range d mask st a b) cuts s (Ok st)
  = adv_bulk_store_range d mask st s (last_cut s cuts).
Proof.
  intros Hok Hlens Hasc Hv. rewrite (adv_bulk_eq d mask st s _ Hok Hlens Hv). unfold one_at_a_time.
  (* the pieces run on states reached by one-position updates: same spec, same table lengths *)
  set (P := fun st' : adv_state => a_spec st' = a_spec st /\ tlen (a_num st') = tlen (a_num st) /\ tlen (a_buckets st') = tlen (a_buckets st)).
  assert (Hpres : forall st1 q st2, P st1 -> adv_store d mask st1 q = Ok st2 -> P st2).
  { intros st1 q st2 [E1 [E2 E3]] H. destruct (adv_store_spec _ _ _ _ _ H) as [F1 [F2 [F3 _]]]. unfold P. repeat split; congruence. }
  assert (Hgen : forall cs from r, (match r with Ok st' => P st' | Panic => True end) -> s <= from -> ascending from cs -> last_cut from cs <= last_cut s cuts ->
            pieces (fun st a b => adv_bulk_store_range d mask st a b) cs from r = for_each (adv_store d mask) (range from (last_cut from cs)) r).
  { induction cs as [|c cs IH]; intros from r HP Hlo Ha Hhi.
    - cbn [pieces]. unfold last_cut. cbn [last]. rewrite range_empty by lia. reflexivity.
    - destruct Ha as [H1 H2]. rewrite last_cut_cons in *. cbn [pieces].
      pose proof (ascending_last c cs H2) as Hl.
      assert (Hstep : bind r (fun st0 => adv_bulk_store_range d mask st0 from c) = for_each (adv_store d mask) (range from c) r).
      { destruct r as [st'|]; cbn [bind]; [|rewrite for_each_Panic; reflexivity].
        destruct HP as [E1 [E2 E3]].
        apply adv_bulk_eq; [rewrite E1; exact Hok| |].
        - unfold adv_lens_ok in *. rewrite E1, E2, E3. exact Hlens.
        - intros Hlt. apply (view_mono d mask 6 (last_cut s cuts + 3)); [apply Hv; lia|lia]. }
      rewrite Hstep. rewrite IH; [| |lia|exact H2|exact Hhi].
      + rewrite (range_split from c (last_cut c cs)) by lia. rewrite for_each_app. reflexivity.
      + destruct r as [st'|]; [|rewrite for_each_Panic; exact I].
        destruct (for_each (adv_store d mask) (range from c) (Ok st')) as [st2|] eqn:E; [|exact I].
        eapply (for_each_inv P); eassumption. }
  apply Hgen; [unfold P; repeat split; reflexivity|lia|exact Hasc|lia].
Qed.

Theorem loop_split_eq {S} (store : S -> N -> res S) st s cuts : ascending s cuts ->
  pieces (fun st a b => one_at_a_time store a b st) cuts s (Ok st) = one_at_a_time store s (last_cut s cuts) st.
Proof.
  intros Hasc. unfold one_at_a_time.
  apply (pieces_eq _ store s (last_cut s cuts)); [reflexivity|lia|exact Hasc|lia].
Qed.

(* Store4Vec4 of the 4-byte kinds = Store at ix, ix+4, ix+8, ix+12 *)
Theorem adv_vec4_eq d mask st q : adv32_ok (a_spec st) -> view_ok d mask 7 (q + 16) ->
  adv_store4vec4 d mask st q = for_each (adv_store d mask) [q; q + 4; q + 8; q + 12] (Ok st).
Proof.
  intros Hok Hv. destruct (adv32_consts _ (proj1 Hok)) as [_ [_ El]].
  unfold adv_store4vec4. rewrite El. change (negb (4 =? 4)) with false. cbv iota.
  destruct (le32_view d mask 7 (q + 16) q 4 Hv) as [B1 E1]; [lia|lia|].
  destruct (le32_view d mask 7 (q + 16) (q + 8) 4 Hv) as [B2 E2]; [lia|lia|].
  cbn zeta.
  destruct (N.leb_spec (N.land q mask + 8) (blen d)) as [_|Hbad]; [|lia].
  destruct (N.leb_spec (N.land (q + 8) mask + 8) (blen d)) as [_|Hbad]; [|lia]. cbn [andb].
  rewrite !mix_window_ok by (try exact (proj1 Hok); apply le32_lt). cbn [bind].
  rewrite quad_keys_puts.
  rewrite (adv_stores_puts d mask 7 (q + 16) _ Hv ltac:(lia) st Hok).
  - unfold K. cbn [map]. rewrite E1, E2. replace (q + 8 + 4) with (q + 12) by lia. reflexivity.
  - intros x [<-|[<-|[<-|[<-|[]]]]]; lia.
Qed.
Theorem adv_h6_vec4_eq d mask st q : ak (a_spec st) = AK_H6 ->
  adv_store4vec4 d mask st q = for_each (adv_store d mask) [q; q + 4; q + 8; q + 12] (Ok st) /\
  adv_store_even_vec4 d mask st q = for_each (adv_store d mask) [q; q + 2; q + 4; q + 6] (Ok st).
Proof.
  intros Hk. unfold adv_store4vec4, adv_store_even_vec4, store_lookahead. rewrite Hk.
  change (negb (H6_StoreLookahead =? 4)) with true. split; reflexivity.
Qed.

(* ------------------------------------------------------------------------------------------ *)
(* clones and equality *)
Lemma common_eqb_refl c : common_eqb c c = true.
Proof. induction c as [|x c IH]; [reflexivity|]. cbn [common_eqb]. rewrite N.eqb_refl, IH. reflexivity. Qed.
Lemma trie_eqb_refl d t : trie_eqb d t t = true.
Proof.
  induction t as [|l IHl v r IHr]; [reflexivity|]. cbn [trie_eqb]. rewrite IHl, IHr, N.eqb_refl. reflexivity.
Qed.
Lemma table_eqb_refl t : table_eqb t t = true.
Proof. unfold table_eqb. rewrite !N.eqb_refl, trie_eqb_refl. reflexivity. Qed.
Lemma clone_table_id t : clone_table t = Ok t.
Proof. unfold clone_table, clone_from_slice, tnew. cbn [tlen]. rewrite N.eqb_refl. destruct t; reflexivity. Qed.

Theorem basic_clone_eq st : basic_clone st = Ok st /\ basic_eqb st st = true.
Proof.
  split.
  - unfold basic_clone. rewrite clone_table_id. cbn [bind]. destruct st; reflexivity.
  - unfold basic_eqb. rewrite common_eqb_refl, table_eqb_refl. reflexivity.
Qed.
Lemma adv_spec_eqb_refl sp : adv_spec_eqb sp sp = true.
Proof. unfold adv_spec_eqb. rewrite !N.eqb_refl. destruct (ak sp); reflexivity. Qed.
Theorem adv_clone_eq st : adv_clone st = Ok st /\ adv_eqb st st = true.
Proof.
  split.
  - unfold adv_clone. rewrite !clone_table_id. cbn [bind]. destruct st; reflexivity.
  - unfold adv_eqb. rewrite common_eqb_refl, adv_spec_eqb_refl, !table_eqb_refl. reflexivity.
Qed.
Theorem h9_clone_eq st : h9_clone st = Ok st /\ h9_eqb st st = true.
Proof.
  split.
  - unfold h9_clone. rewrite !clone_table_id. cbn [bind]. destruct st; reflexivity.
  - unfold h9_eqb. rewrite common_eqb_refl, !table_eqb_refl. reflexivity.
Qed.
Theorem h10_clone_eq st : tlen (t_buckets st) = N.shiftl 1 H10_BUCKET_BITS ->
  h10_clone st = Ok st /\ h10_eqb st st = true.
Proof.
  intros Hl. split.
  - unfold h10_clone. rewrite clone_table_id. unfold clone_from_slice, tnew. cbn [tlen]. rewrite <- Hl, N.eqb_refl.
    cbn [bind]. destruct st as [w c b i f]. cbn. destruct b. reflexivity.
  - unfold h10_eqb. rewrite common_eqb_refl, !table_eqb_refl, !N.eqb_refl. reflexivity.
Qed.

(* ------------------------------------------------------------------------------------------ *)
(* the two fast paths as they were found: refutation witnesses (replayed on the pre-fix code by
   checks/c19.py, corpus lines `asfound-*`) *)
Definition wbytes (n : N) : list N := map (fun i => (i * i * 7 + i * 13 + 5) mod 251) (range 0 n).
(* unmasked: 32 bytes *)
Definition wdata_plain : buf := buf_of_list (wbytes 32).
(* a ring of 16 bytes followed by a tail repeating its first 10 *)
Definition wdata_ring : buf := buf_of_list (wbytes 16 ++ firstn 10 (wbytes 16)).
Definition basic_init (len : N) : basic_state := {| b_common := []; b_buckets := tnew len 0 |}.
Definition hq5_init : adv_state :=
  {| a_common := []; a_spec := {| ak := AK_HQ5; f_hash_mask := 0; f_hash_shift := 0; f_bucket_size := 0; f_block_mask := 0; f_block_bits := 0 |};
     a_num := tnew HQ5_bucket_size 0; a_buckets := tnew (HQ5_bucket_size * HQ5_block_size) 0 |}.

Definition res_basic_eqb (a b : res basic_state) : bool :=
  match a, b with Ok x, Ok y => basic_eqb x y | Panic, Panic => true | _, _ => false end.
Definition res_adv_eqb (a b : res adv_state) : bool :=
  match a, b with Ok x, Ok y => adv_eqb x y | Panic, Panic => true | _, _ => false end.
Lemma res_basic_eqb_refl a : res_basic_eqb a a = true.
Proof. destruct a; [apply (proj2 (basic_clone_eq a))|reflexivity]. Qed.
Lemma res_adv_eqb_refl a : res_adv_eqb a a = true.
Proof. destruct a; [apply (proj2 (adv_clone_eq a))|reflexivity]. Qed.

Lemma wdata_plain_view : view_ok wdata_plain USIZE_MAX 10 (17 + 7).
Proof. split; [reflexivity|left; split; [reflexivity|vm_compute; discriminate]]. Qed.
Lemma wdata_ring_ok T : T <= 10 -> ring_ok wdata_ring 4 T.
Proof.
  intros HT. split; [change (2 ^ 4) with 16; lia|]. split; [change (2 ^ 4) with 16; change (blen wdata_ring) with 26; lia|].
  intros j Hj. assert (Hj' : j < 10) by lia.
  assert (H : all_below (fun j => byte wdata_ring (2 ^ 4 + j) =? byte wdata_ring j) 10 = true) by (vm_compute; reflexivity).
  apply N.eqb_eq. exact (all_below_spec _ _ H j Hj').
Qed.
Lemma wdata_ring_view T lim : T <= 10 -> lim < 2 ^ 63 -> view_ok wdata_ring 15 T lim.
Proof. intros HT Hl. split; [exact Hl|right]. exists 4. split; [reflexivity|apply wdata_ring_ok; exact HT]. Qed.

(* quality 3 (H3, sweep 2), no mask, start 1: the group of four starting at 5 crosses position 8 *)
Theorem basic_asfound_refuted_unmasked :
  exists d mask st s e, s < e /\ view_ok d mask 10 (e + 7) /\
    basic_store_range AsFound H3p d mask st s e <> one_at_a_time (basic_store H3p d mask) s e st.
Proof.
  exists wdata_plain, USIZE_MAX, (basic_init 65546), 1, 17. split; [reflexivity|]. split; [exact wdata_plain_view|].
  intros H.
  assert (Hd : res_basic_eqb (basic_store_range AsFound H3p wdata_plain USIZE_MAX (basic_init 65546) 1 17)
                             (one_at_a_time (basic_store H3p wdata_plain USIZE_MAX) 1 17 (basic_init 65546)) = false)
    by (vm_compute; reflexivity).
  rewrite H, res_basic_eqb_refl in Hd. discriminate.
Qed.

(* quality 2 (H2, sweep 1) behind the ring-buffer mask 15, positions 16..31: masked positions are stored *)
Theorem basic_asfound_refuted_masked :
  exists d mask st s e, s < e /\ view_ok d mask 10 (e + 7) /\
    basic_store_range AsFound H2p d mask st s e <> one_at_a_time (basic_store H2p d mask) s e st.
Proof.
  exists wdata_ring, 15, (basic_init 65545), 16, 32. split; [reflexivity|]. split; [apply wdata_ring_view; [lia|reflexivity]|].
  intros H.
  assert (Hd : res_basic_eqb (basic_store_range AsFound H2p wdata_ring 15 (basic_init 65545) 16 32)
                             (one_at_a_time (basic_store H2p wdata_ring 15) 16 32 (basic_init 65545)) = false)
    by (vm_compute; reflexivity).
  rewrite H, res_basic_eqb_refl in Hd. discriminate.
Qed.

(* quality 5 (H5q5) behind the mask: StoreRange stored masked positions *)
Theorem adv_asfound_refuted_masked :
  exists d mask st s e, s < e /\ adv32_ok (a_spec st) /\ adv_lens_ok st = true /\ view_ok d mask 6 (e + 3) /\
    adv_store_range AsFound d mask st s e <> one_at_a_time (adv_store d mask) s e st.
Proof.
  exists wdata_ring, 15, hq5_init, 16, 24. split; [reflexivity|].
  split; [split; [discriminate|split; vm_compute; discriminate]|]. split; [reflexivity|].
  split; [apply wdata_ring_view; [lia|reflexivity]|].
  intros H.
  assert (Hd : res_adv_eqb (adv_store_range AsFound wdata_ring 15 hq5_init 16 24)
                           (one_at_a_time (adv_store wdata_ring 15) 16 24 hq5_init) = false)
    by (vm_compute; reflexivity).
  rewrite H, res_adv_eqb_refl in Hd. discriminate.
Qed.

(* the same three inputs on the repaired paths: hypotheses of the positive theorems are met by
   non-trivial states (every position lands in a distinct, non-empty slot) *)
Example witnesses_repaired :
  res_basic_eqb (basic_store_range Repaired H3p wdata_plain USIZE_MAX (basic_init 65546) 1 17)
                (one_at_a_time (basic_store H3p wdata_plain USIZE_MAX) 1 17 (basic_init 65546)) = true /\
  res_basic_eqb (basic_store_range Repaired H2p wdata_ring 15 (basic_init 65545) 16 32)
                (one_at_a_time (basic_store H2p wdata_ring 15) 16 32 (basic_init 65545)) = true /\
  res_adv_eqb (adv_store_range Repaired wdata_ring 15 hq5_init 16 24)
              (one_at_a_time (adv_store wdata_ring 15) 16 24 hq5_init) = true /\
  (match basic_store_range Repaired H3p wdata_plain USIZE_MAX (basic_init 65546) 1 17 with
   | Ok st => N.of_nat (length (tentries (b_buckets st))) | Panic => 0 end) = 16 /\
  (match adv_store_range Repaired wdata_ring 15 hq5_init 16 24 with
   | Ok st => N.of_nat (length (tentries (a_buckets st))) | Panic => 0 end) = 8.
Proof. vm_compute. repeat split; reflexivity. Qed.

(* ------------------------------------------------------------------------------------------ *)
(* StoreEvenVec4 of the 4-byte kinds = Store at ix, ix+2, ix+4, ix+6 *)
Ltac Zify.zify_post_hook ::= Z.to_euclidean_division_equations.
Lemma window_arith64 b0 b1 b2 b3 b4 b5 b6 b7 :
  b0 < 256 -> b1 < 256 -> b2 < 256 -> b3 < 256 -> b4 < 256 -> b5 < 256 -> b6 < 256 -> b7 < 256 ->
  let W := b0 + b1 * 256 + b2 * 65536 + b3 * 16777216 + b4 * 4294967296 + b5 * 1099511627776 + b6 * 281474976710656
           + b7 * 72057594037927936 in
  W mod 4294967296 = b0 + b1 * 256 + b2 * 65536 + b3 * 16777216 /\
  (W / 65536) mod 4294967296 = b2 + b3 * 256 + b4 * 65536 + b5 * 16777216 /\
  (W / 4294967296) mod 4294967296 = b4 + b5 * 256 + b6 * 65536 + b7 * 16777216 /\
  (W / 281474976710656) mod 65536 = b6 + b7 * 256.
Proof. intros. subst W. repeat split; lia. Qed.
Ltac Zify.zify_post_hook ::= idtac.

Lemma le64_sum d a :
  le64 d a = byte d a + byte d (a + 1) * 2 ^ 8 + byte d (a + 2) * 2 ^ 16 + byte d (a + 3) * 2 ^ 24
             + byte d (a + 4) * 2 ^ 32 + byte d (a + 5) * 2 ^ 40 + byte d (a + 6) * 2 ^ 48 + byte d (a + 7) * 2 ^ 56.
Proof.
  unfold le64. rewrite lor_sum; [rewrite le56_sum; reflexivity|].
  rewrite le56_sum.
  pose proof (byte_lt d a). pose proof (byte_lt d (a + 1)). pose proof (byte_lt d (a + 2)).
  pose proof (byte_lt d (a + 3)). pose proof (byte_lt d (a + 4)). pose proof (byte_lt d (a + 5)). pose proof (byte_lt d (a + 6)).
  change (2 ^ 8) with 256. change (2 ^ 16) with 65536. change (2 ^ 24) with 16777216.
  change (2 ^ 32) with 4294967296. change (2 ^ 40) with 1099511627776. change (2 ^ 48) with 281474976710656.
  change (2 ^ 56) with 72057594037927936. lia.
Qed.

Lemma le64_window d a :
  N.land (le64 d a) M32 = le32 d a /\
  N.land (N.shiftr (le64 d a) 16) M32 = le32 d (a + 2) /\
  N.land (N.shiftr (le64 d a) 32) M32 = le32 d (a + 4) /\
  N.land (N.shiftr (le64 d a) 48) 65535 = byte d (a + 6) + byte d (a + 7) * 256.
Proof.
  rewrite le64_sum, !le32_sum.
  replace (a + 2 + 1) with (a + 3) by lia. replace (a + 2 + 2) with (a + 4) by lia. replace (a + 2 + 3) with (a + 5) by lia.
  replace (a + 4 + 1) with (a + 5) by lia. replace (a + 4 + 2) with (a + 6) by lia. replace (a + 4 + 3) with (a + 7) by lia.
  change M32 with (2 ^ 32 - 1). change 65535 with (2 ^ 16 - 1). rewrite !land_ones_mod, !N.shiftr_div_pow2.
  change (2 ^ 8) with 256. change (2 ^ 16) with 65536. change (2 ^ 24) with 16777216.
  change (2 ^ 32) with 4294967296. change (2 ^ 40) with 1099511627776. change (2 ^ 48) with 281474976710656.
  change (2 ^ 56) with 72057594037927936.
  apply window_arith64; apply byte_lt.
Qed.

Theorem adv_even_vec4_eq d mask st q : adv32_ok (a_spec st) -> view_ok d mask 7 (q + 10) ->
  adv_store_even_vec4 d mask st q = for_each (adv_store d mask) [q; q + 2; q + 4; q + 6] (Ok st).
Proof.
  intros Hok Hv. destruct (adv32_consts _ (proj1 Hok)) as [_ [_ El]].
  unfold adv_store_even_vec4. rewrite El. change (negb (4 =? 4)) with false. cbv iota. cbn zeta.
  destruct (view_byte d mask 7 (q + 10) q 7 Hv) as [B1 _]; [lia|lia|].
  destruct (view_byte d mask 7 (q + 10) (q + 8) 1 Hv) as [B2 F9]; [lia|lia|].
  destruct (N.leb_spec (N.land q mask + 8) (blen d)) as [_|Hbad]; [|lia].
  destruct (N.leb_spec (N.land (q + 8) mask + 2) (blen d)) as [_|Hbad]; [|lia]. cbn [andb].
  destruct (le64_window d (N.land q mask)) as [W0 [W1 [W2 W3]]]. rewrite W0, W1, W2, W3.
  destruct (le32_view d mask 7 (q + 10) q 2 Hv) as [_ E2]; [lia|lia|].
  destruct (le32_view d mask 7 (q + 10) q 4 Hv) as [_ E4]; [lia|lia|].
  (* the fourth window: bytes li+6, li+7, hi, hi+1 are the four bytes of position q+6 *)
  assert (E6 : N.lor (N.shiftl (N.land (le16 d (N.land (q + 8) mask)) 65535) 16)
                     (byte d (N.land q mask + 6) + byte d (N.land q mask + 7) * 256)
               = le32 d (N.land (q + 6) mask)).
  { pose proof (byte_lt d (N.land q mask + 6)). pose proof (byte_lt d (N.land q mask + 7)).
    pose proof (byte_lt d (N.land (q + 8) mask)). pose proof (byte_lt d (N.land (q + 8) mask + 1)).
    unfold le16. rewrite (lor_sum _ _ 8) by (change (2 ^ 8) with 256; lia).
    change 65535 with (2 ^ 16 - 1). rewrite land_ones_mod.
    rewrite N.mod_small by (change (2 ^ 8) with 256; change (2 ^ 16) with 65536; lia).
    rewrite lor_shiftl_small by (change (2 ^ 16) with 65536; lia).
    rewrite le32_sum.
    rewrite (proj2 (view_byte d mask 7 (q + 10) q 6 Hv ltac:(lia) ltac:(lia))).
    destruct (view_byte d mask 7 (q + 10) q 7 Hv) as [_ G7]; [lia|lia|]. rewrite G7.
    destruct (view_byte d mask 7 (q + 10) (q + 6) 1 Hv) as [_ G1]; [lia|lia|]. rewrite G1.
    destruct (view_byte d mask 7 (q + 10) (q + 6) 2 Hv) as [_ G2]; [lia|lia|]. rewrite G2.
    destruct (view_byte d mask 7 (q + 10) (q + 6) 3 Hv) as [_ G3]; [lia|lia|]. rewrite G3.
    rewrite F9.
    replace (q + 6 + 1) with (q + 7) by lia. replace (q + 6 + 2) with (q + 8) by lia.
    replace (q + 6 + 3) with (q + 9) by lia. replace (q + 8 + 1) with (q + 9) by lia.
    change (2 ^ 8) with 256. change (2 ^ 16) with 65536. change (2 ^ 24) with 16777216. lia. }
  rewrite E6.
  rewrite !mix_window_ok by (try exact (proj1 Hok); apply le32_lt). cbn [bind].
  rewrite quad_keys_puts.
  rewrite (adv_stores_puts d mask 7 (q + 10) _ Hv ltac:(lia) st Hok).
  - unfold K. cbn [map]. rewrite E2, E4. reflexivity.
  - intros x [<-|[<-|[<-|[<-|[]]]]]; lia.
Qed.

(* ------------------------------------------------------------------------------------------ *)
(* per-kind side conditions *)
Lemma bp_ok_H2 : bp_ok H2p. Proof. unfold bp_ok, H2p; cbn. change (2 ^ 31) with 2147483648. unfold H2_HASH_SHR, H2_BUCKET_SWEEP. lia. Qed.
Lemma bp_ok_H3 : bp_ok H3p. Proof. unfold bp_ok, H3p; cbn. change (2 ^ 31) with 2147483648. unfold H3_HASH_SHR, H3_BUCKET_SWEEP. lia. Qed.
Lemma bp_ok_H4 : bp_ok H4p. Proof. unfold bp_ok, H4p; cbn. change (2 ^ 31) with 2147483648. unfold H4_HASH_SHR, H4_BUCKET_SWEEP. lia. Qed.
Lemma bp_ok_H54 : bp_ok H54p. Proof. unfold bp_ok, H54p; cbn. change (2 ^ 31) with 2147483648. unfold H54_HASH_SHR, H54_BUCKET_SWEEP. lia. Qed.

Lemma adv32_ok_hq5 sp : ak sp = AK_HQ5 -> adv32_ok sp.
Proof. intros H. unfold adv32_ok, block_bits, hash_shift. rewrite H. split; [discriminate|]. unfold HQ5_block_bits, HQ5_hash_shift. lia. Qed.
Lemma adv32_ok_hq7 sp : ak sp = AK_HQ7 -> adv32_ok sp.
Proof. intros H. unfold adv32_ok, block_bits, hash_shift. rewrite H. split; [discriminate|]. unfold HQ7_block_bits, HQ7_hash_shift. lia. Qed.
Lemma adv32_ok_h5 sp : ak sp = AK_H5 -> f_block_bits sp <= f_hash_shift sp -> f_hash_shift sp <= 32 -> adv32_ok sp.
Proof. intros H H1 H2. unfold adv32_ok, block_bits, hash_shift. rewrite H. split; [discriminate|]. lia. Qed.

Lemma pieces_eq_inv {S} (P : S -> Prop) (call : S -> N -> N -> res S) (store : S -> N -> res S) (lo hi : N) cuts :
  (forall st q st', P st -> store st q = Ok st' -> P st') ->
  (forall st a b, P st -> lo <= a -> a <= b -> b <= hi -> call st a b = for_each store (range a b) (Ok st)) ->
  forall from r, (match r with Ok st => P st | Panic => True end) -> lo <= from -> ascending from cuts -> last_cut from cuts <= hi ->
  pieces call cuts from r = for_each store (range from (last_cut from cuts)) r.
Proof.
  intros Hpres Hcall. induction cuts as [|c cs IH]; intros from r HP Hlo Hasc Hhi.
  - cbn [pieces]. unfold last_cut. cbn [last]. rewrite range_empty by lia. reflexivity.
  - destruct Hasc as [H1 H2]. rewrite last_cut_cons in *. cbn [pieces].
    pose proof (ascending_last c cs H2) as Hl.
    assert (Hstep : bind r (fun st0 => call st0 from c) = for_each store (range from c) r).
    { destruct r as [st'|]; cbn [bind]; [apply Hcall; try assumption; lia|rewrite for_each_Panic; reflexivity]. }
    rewrite Hstep. rewrite IH; [| |lia|exact H2|exact Hhi].
    + rewrite (range_split from c (last_cut c cs)) by lia. rewrite for_each_app. reflexivity.
    + destruct r as [st'|]; [|rewrite for_each_Panic; exact I].
      destruct (for_each store (range from c) (Ok st')) as [st2|] eqn:E; [|exact I].
      eapply (for_each_inv P); eassumption.
Qed.

Theorem adv_h6_split_eq d mask st s cuts : ak (a_spec st) = AK_H6 -> ascending s cuts ->
  pieces (fun st a b => adv_bulk_store_range d mask st a b) cuts s (Ok st)
  = adv_bulk_store_range d mask st s (last_cut s cuts).
Proof.
  intros Hk Hasc. rewrite (adv_h6_bulk_eq d mask st s _ Hk). unfold one_at_a_time.
  apply (pieces_eq_inv (fun st' => ak (a_spec st') = AK_H6) _ _ s (last_cut s cuts)); [| |exact Hk|lia|exact Hasc|lia].
  - intros st1 q st2 H1 H2. destruct (adv_store_spec _ _ _ _ _ H2) as [E _]. rewrite E. exact H1.
  - intros st' a b HP _ _ _. apply adv_h6_bulk_eq. exact HP.
Qed.

(* ------------------------------------------------------------------------------------------ *)
(* the boolean table comparison decides slot-wise equality *)
Lemma pget_leaf p : pget TLeaf p = None.
Proof. destruct p; reflexivity. Qed.
Lemma trie_all_sound t d : trie_all t d = true -> forall p, vval d (pget t p) = d.
Proof.
  induction t as [|l IHl v r IHr]; intros H p; [rewrite pget_leaf; reflexivity|].
  cbn [trie_all] in H. apply andb_true_iff in H. destruct H as [H Hr]. apply andb_true_iff in H. destruct H as [Hl Hv].
  destruct p as [q|q|]; cbn [pget]; [apply IHr; exact Hr|apply IHl; exact Hl|apply N.eqb_eq; exact Hv].
Qed.
Lemma trie_eqb_sound d a : forall b, trie_eqb d a b = true -> forall p, vval d (pget a p) = vval d (pget b p).
Proof.
  induction a as [|l1 IHl v1 r1 IHr]; intros b H p.
  - cbn [trie_eqb] in H. rewrite pget_leaf. cbn [vval]. symmetry. apply trie_all_sound. exact H.
  - destruct b as [|l2 v2 r2].
    + cbn [trie_eqb] in H. rewrite (pget_leaf p). cbn [vval]. apply (trie_all_sound (TNode l1 v1 r1) d H).
    + cbn [trie_eqb] in H. apply andb_true_iff in H. destruct H as [H Hr]. apply andb_true_iff in H. destruct H as [Hl Hv].
      destruct p as [q|q|]; cbn [pget]; [apply IHr; exact Hr|apply IHl; exact Hl|apply N.eqb_eq; exact Hv].
Qed.
Theorem table_eqb_sound a b : table_eqb a b = true -> tlen a = tlen b /\ forall i, tget a i = tget b i.
Proof.
  unfold table_eqb. intros H. apply andb_true_iff in H. destruct H as [H He]. apply andb_true_iff in H. destruct H as [Hl Hd].
  apply N.eqb_eq in Hl. apply N.eqb_eq in Hd. split; [exact Hl|]. intros i. unfold tget. rewrite <- Hl.
  destruct (i <? tlen a); [|reflexivity]. f_equal.
  pose proof (trie_eqb_sound (tdef a) (tmap a) (tmap b) He (N.succ_pos i)) as E. unfold vval in E. rewrite <- Hd. exact E.
Qed.
