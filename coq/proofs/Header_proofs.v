(* Proofs about model/Header.v against spec/Header.v (C15). *)
From Coq Require Import NArith ZArith List Bool Lia.
From V Require Import lib.Words gen.GenHeader spec.Header model.Header proofs.Bitops.
Import ListNotations.
Open Scope N_scope.

(* ---------------------------------------------------------------- bit-level round trips *)

Lemma mod_pow2_succ v n : v mod 2 ^ N.succ n = bit_val (N.odd v) + 2 * (N.div2 v mod 2 ^ n).
Proof.
  rewrite N.pow_succ_r'. rewrite N.mod_mul_r by (try apply N.pow_nonzero; lia).
  rewrite N.div2_div. f_equal.
  rewrite <- N.bit0_mod, N.bit0_odd. destruct (N.odd v); reflexivity.
Qed.

Lemma read_bits_bits_of n v t :
  read_bits n (bits_of n v ++ t) = Some (v mod 2 ^ N.of_nat n, t).
Proof.
  revert v. induction n as [|n IH]; intros v.
  - cbn [bits_of read_bits app]. rewrite N.mod_1_r. reflexivity.
  - cbn [bits_of read_bits app]. rewrite IH. rewrite Nat2N.inj_succ, mod_pow2_succ. reflexivity.
Qed.

Lemma read_bits_small n v t : v < 2 ^ N.of_nat n ->
  read_bits n (bits_of n v ++ t) = Some (v, t).
Proof. intros H. rewrite read_bits_bits_of, N.mod_small by exact H. reflexivity. Qed.

Lemma read_bits_zeros k t : read_bits k (repeat false k ++ t) = Some (0, t).
Proof. induction k as [|k IH]; cbn [repeat read_bits app]; [reflexivity|]. rewrite IH. reflexivity. Qed.

Lemma write_bytes_app bs st : write_bytes bs st = st ++ flat_map (bits_of 8) bs.
Proof.
  unfold write_bytes. revert st. induction bs as [|b bs IH]; intros st; cbn [fold_left flat_map].
  - rewrite app_nil_r. reflexivity.
  - rewrite IH. unfold write_bits. change (N.to_nat 8) with 8%nat. rewrite <- app_assoc. reflexivity.
Qed.

Lemma read_bytes_flat bs t : Forall (fun b => b < 256) bs ->
  read_bytes (length bs) (flat_map (bits_of 8) bs ++ t) = Some (bs, t).
Proof.
  induction 1 as [|b bs Hb _ IH]; [reflexivity|].
  cbn [length flat_map read_bytes]. rewrite <- app_assoc.
  rewrite (read_bits_small 8 b) by exact Hb. rewrite IH. reflexivity.
Qed.

(* ---------------------------------------------------------------- base-128 *)

Lemma lor_128 b : b < 128 -> N.lor b 128 = b + 128.
Proof.
  intros H. change 128 with (N.shiftl 1 7) at 1. rewrite lor_small_shiftl by exact H. lia.
Qed.

Lemma base128_loop_correct fuel : forall v, v < 2 ^ (7 * N.of_nat fuel) -> (1 <= fuel)%nat ->
  base128_decode (encode_base_128_loop fuel v) = Some v
  /\ (length (encode_base_128_loop fuel v) <= fuel)%nat
  /\ (1 <= length (encode_base_128_loop fuel v))%nat
  /\ Forall (fun b => b < 256) (encode_base_128_loop fuel v).
Proof.
  induction fuel as [|f IH]; intros v Hv Hf; [lia|].
  cbn [encode_base_128_loop].
  change b128_mask with (2 ^ 7 - 1). change b128_shift with 7. change b128_cont with 128.
  rewrite land_ones_mod, N.shiftr_div_pow2. change (2 ^ 7) with 128.
  assert (Hb : v mod 128 < 128) by (apply N.mod_lt; lia).
  assert (Hdm : v = 128 * (v / 128) + v mod 128) by (apply N.div_mod; lia).
  assert (Hdiv : v < 128 -> v / 128 = 0) by (intros; apply N.div_small; assumption).
  assert (Hv' : (1 <= f)%nat -> v / 128 < 2 ^ (7 * N.of_nat f)).
  { intros _. apply N.div_lt_upper_bound; [lia|]. replace (128 * 2 ^ (7 * N.of_nat f)) with (2 ^ (7 * N.of_nat (S f))); [exact Hv|].
    rewrite Nat2N.inj_succ. replace (7 * N.succ (N.of_nat f)) with (7 + 7 * N.of_nat f) by lia.
    rewrite N.pow_add_r. reflexivity. }
  remember (v mod 128) as r eqn:Er. remember (v / 128) as d eqn:Ed.
  destruct (N.eqb_spec d 0) as [Hz|Hnz]; cbn [negb].
  - cbn [base128_decode length]. apply N.ltb_lt in Hb as Hb'. rewrite Hb'.
    repeat split; try lia; [f_equal; lia|]. constructor; [lia|constructor].
  - rewrite lor_128 by exact Hb.
    assert (Hf1 : (1 <= f)%nat).
    { destruct f; [|lia]. exfalso. apply Hnz. apply Hdiv. cbn in Hv. exact Hv. }
    destruct (IH d (Hv' Hf1) Hf1) as (Hd & Hl & Hl1 & Hall).
    cbn [base128_decode length].
    assert (Hge : (r + 128 <? 128) = false) by (apply N.ltb_ge; lia).
    rewrite Hge, Hd. repeat split; try lia; [f_equal; lia|]. constructor; [lia|exact Hall].
Qed.

Lemma encode_base_128_correct v : v < 2 ^ 64 ->
  base128_decode (encode_base_128 v) = Some v
  /\ (length (encode_base_128 v) <= 10)%nat
  /\ (1 <= length (encode_base_128 v))%nat
  /\ Forall (fun b => b < 256) (encode_base_128 v).
Proof.
  intros Hv. unfold encode_base_128, w64. rewrite N.mod_small by exact Hv.
  change (N.to_nat MAX_SIZE_ENCODING) with 10%nat.
  apply base128_loop_correct; [|lia].
  eapply N.lt_le_trans; [exact Hv|]. apply N.pow_le_mono_r; lia.
Qed.

(* ---------------------------------------------------------------- casts *)

Lemma as_i32_as_u32 z : (- 2 ^ 31 <= z < 2 ^ 31)%Z -> as_i32 (as_u32 z) = z.
Proof.
  intros Hz. unfold as_i32, as_u32.
  assert (Hm : (0 <= z mod 2 ^ 32 < 2 ^ 32)%Z) by (apply Z.mod_pos_bound; lia).
  assert (Hlt : Z.to_N (z mod 2 ^ 32) < 2 ^ 32) by lia.
  rewrite (N.mod_small _ _ Hlt).
  destruct (Z.lt_ge_cases z 0) as [Hneg|Hpos].
  - assert (E : (z mod 2 ^ 32 = z + 2 ^ 32)%Z).
    { symmetry. apply (Z.mod_unique z (2 ^ 32) (-1) (z + 2 ^ 32)); lia. }
    rewrite E. destruct (N.ltb_spec (Z.to_N (z + 2 ^ 32)) (2 ^ 31)) as [H|H]; lia.
  - rewrite Z.mod_small by lia.
    destruct (N.ltb_spec (Z.to_N z) (2 ^ 31)) as [H|H]; lia.
Qed.

(* ---------------------------------------------------------------- SanitizeParams *)

Lemma sanitize_quality p : quality (sanitize p) = clampZ 0 11 (quality p).
Proof. unfold sanitize, clampZ. cbn [quality]. change sanitize_qmax with 11%Z. change sanitize_qmin with 0%Z. lia. Qed.

Lemma sanitize_lgwin p :
  lgwin (sanitize p) = clampZ 10 (if large_window p then 30 else 24) (lgwin p).
Proof.
  unfold sanitize, clampZ. cbn [lgwin].
  change (nthZ sanitize_lgwin_cmp 0) with 10%Z. change (nthZ sanitize_lgwin_cmp 1) with 24%Z.
  change (nthZ sanitize_lgwin_cmp 2) with 30%Z. change (nthZ sanitize_lgwin_set 0) with 10%Z.
  change (nthZ sanitize_lgwin_set 1) with 30%Z. change (nthZ sanitize_lgwin_set 2) with 24%Z.
  rewrite !Z.gtb_ltb.
  destruct (Z.ltb_spec (lgwin p) 10), (Z.ltb_spec 24 (lgwin p)), (Z.ltb_spec 30 (lgwin p)), (large_window p); lia.
Qed.

Lemma sanitize_flags p :
  large_window (sanitize p) = large_window p /\ catable (sanitize p) = catable p /\
  appendable (sanitize p) = (catable p || appendable p)%bool /\
  use_dictionary (sanitize p) = use_dictionary p /\ magic_number (sanitize p) = magic_number p /\
  size_hint (sanitize p) = size_hint p.
Proof. unfold sanitize. cbn. destruct (catable p), (appendable p); repeat split; reflexivity. Qed.

Lemma is_fast_quality_le q : (0 <= q <= 11)%Z -> is_fast_quality q = (q <=? 1)%Z.
Proof.
  intros H. unfold is_fast_quality. change (nthZ fast_qualities 0) with 0%Z. change (nthZ fast_qualities 1) with 1%Z.
  destruct (Z.eqb_spec q 0), (Z.eqb_spec q 1), (Z.leb_spec q 1); cbn; lia.
Qed.

Lemma clampZ_range lo hi x : (lo <= hi)%Z -> (lo <= clampZ lo hi x <= hi)%Z.
Proof. unfold clampZ. lia. Qed.

Lemma header_lgwin_spec p :
  header_lgwin (sanitize p) = spec_window (quality p) (lgwin p) (large_window p).
Proof.
  unfold header_lgwin, spec_window. rewrite sanitize_quality, sanitize_lgwin.
  rewrite is_fast_quality_le by (apply clampZ_range; lia). change fast_min_lgwin with 18%Z. reflexivity.
Qed.

Lemma header_lgwin_range p :
  (10 <= header_lgwin (sanitize p) <= 30)%Z /\ (large_window p = false -> header_lgwin (sanitize p) <= 24)%Z.
Proof.
  rewrite header_lgwin_spec. unfold spec_window.
  assert (H : (10 <= clampZ 10 (if large_window p then 30 else 24) (lgwin p) <= 30)%Z
              /\ (large_window p = false -> clampZ 10 (if large_window p then 30 else 24) (lgwin p) <= 24)%Z).
  { destruct (large_window p); unfold clampZ; split; try lia; intros; lia. }
  destruct H as [H1 H2].
  destruct (clampZ 0 11 (quality p) <=? 1)%Z; split; try lia; intros E; specialize (H2 E); lia.
Qed.

(* ---------------------------------------------------------------- WBITS *)

Lemma wbits_roundtrip w large t : (10 <= w <= 30)%Z -> (large = false -> w <= 24)%Z ->
  rfc_read_wbits (write_bits (snd (encode_window_bits w large)) (fst (encode_window_bits w large)) [] ++ t)
  = Some (Z.to_N w, large, snd (encode_window_bits w large), t).
Proof.
  intros H Hl.
  assert (C : (w = 10 \/ w = 11 \/ w = 12 \/ w = 13 \/ w = 14 \/ w = 15 \/ w = 16 \/ w = 17 \/ w = 18 \/ w = 19 \/ w = 20
            \/ w = 21 \/ w = 22 \/ w = 23 \/ w = 24 \/ w = 25 \/ w = 26 \/ w = 27 \/ w = 28 \/ w = 29 \/ w = 30)%Z) by lia.
  repeat (destruct C as [->|C]); try subst w; destruct large; try reflexivity; exfalso; specialize (Hl eq_refl); lia.
Qed.

Lemma wbits_nbits w large : (10 <= w <= 30)%Z ->
  let nb := snd (encode_window_bits w large) in
  (nb = 1 \/ nb = 4 \/ nb = 7 \/ nb = 14) /\ (nb = 14 <-> large = true) /\
  length (write_bits nb (fst (encode_window_bits w large)) []) = N.to_nat nb.
Proof.
  intros H.
  assert (C : (w = 10 \/ w = 11 \/ w = 12 \/ w = 13 \/ w = 14 \/ w = 15 \/ w = 16 \/ w = 17 \/ w = 18 \/ w = 19 \/ w = 20
            \/ w = 21 \/ w = 22 \/ w = 23 \/ w = 24 \/ w = 25 \/ w = 26 \/ w = 27 \/ w = 28 \/ w = 29 \/ w = 30)%Z) by lia.
  repeat (destruct C as [->|C]); try subst w; destruct large; vm_compute; (split; [tauto|split; [split; congruence|reflexivity]]).
Qed.

(* ---------------------------------------------------------------- the magic metadata block *)

Definition magic_payload (p : params) : list N :=
  magic_bytes p ++ [VERSION] ++ encode_base_128 (size_hint p).

Definition meta_body (p : params) (k : nat) : list bool :=
  bits_of 1 0 ++ bits_of 2 3 ++ bits_of 1 0 ++ bits_of 2 1
  ++ bits_of 8 (3 + N.of_nat (length (encode_base_128 (size_hint p))))
  ++ repeat false (N.to_nat (pad_to_byte (N.of_nat k + 14)))
  ++ flat_map (bits_of 8) (magic_payload p).

Lemma write_metadata_block_eq p st : write_metadata_block p st = st ++ meta_body p (length st).
Proof.
  unfold write_metadata_block, meta_body, magic_payload.
  change meta_hdr_writes with [(1, 0); (2, 3); (1, 0); (2, 1)]. cbn [fold_left fst snd].
  change meta_len_nbits with 8. change meta_len_base with 3.
  rewrite !write_bytes_app. unfold write_bits.
  change (N.to_nat 1) with 1%nat. change (N.to_nat 2) with 2%nat. change (N.to_nat 8) with 8%nat.
  unfold jump_to_byte_boundary.
  set (hb := bits_of 8 (3 + N.of_nat (length (encode_base_128 (size_hint p))))).
  assert (Hlen : N.of_nat (length (((((st ++ bits_of 1 0) ++ bits_of 2 3) ++ bits_of 1 0) ++ bits_of 2 1) ++ hb))
                 = N.of_nat (length st) + 14).
  { rewrite !app_length. subst hb. cbn [length bits_of]. lia. }
  rewrite Hlen. unfold pad_to_byte.
  rewrite !flat_map_app. change (flat_map (bits_of 8) [VERSION]) with (bits_of 8 VERSION ++ []).
  rewrite app_nil_r. rewrite <- !app_assoc. reflexivity.
Qed.

Lemma magic_bytes_shape p : exists m, magic_bytes p = [225; 151; m] /\ m < 256.
Proof.
  unfold magic_bytes. destruct (catable p && negb (use_dictionary p))%bool; [|destruct (appendable p)];
    eexists; (split; [reflexivity|vm_compute; reflexivity]).
Qed.

Lemma pad_to_byte_lt pos : pad_to_byte pos < 8.
Proof. unfold pad_to_byte. apply N.mod_lt. lia. Qed.

Lemma pad_to_byte_aligned pos : (pos + pad_to_byte pos) mod 8 = 0.
Proof.
  unfold pad_to_byte.
  assert (H : pos mod 8 < 8) by (apply N.mod_lt; lia).
  rewrite <- N.add_mod_idemp_l by lia. remember (pos mod 8) as r eqn:Er. clear Er.
  assert (C : r = 0 \/ r = 1 \/ r = 2 \/ r = 3 \/ r = 4 \/ r = 5 \/ r = 6 \/ r = 7) by lia.
  repeat (destruct C as [->|C]); try subst r; reflexivity.
Qed.

Lemma meta_body_read p k t : size_hint p < 2 ^ 64 ->
  rfc_read_metadata_block (N.of_nat k) (meta_body p k ++ t)
  = Some (magic_payload p,
          N.of_nat k + 14 + pad_to_byte (N.of_nat k + 14) + 8 * N.of_nat (length (magic_payload p)), t).
Proof.
  intros Hh.
  destruct (encode_base_128_correct (size_hint p) Hh) as (_ & Hle & Hge & Hall).
  destruct (magic_bytes_shape p) as (m & Hm & Hm256).
  unfold meta_body. set (hint := encode_base_128 (size_hint p)) in *.
  unfold rfc_read_metadata_block. rewrite <- !app_assoc.
  rewrite (read_bits_small 1 0) by (vm_compute; reflexivity). cbv beta iota.
  change (negb (0 =? 0)) with false. cbv iota.
  rewrite (read_bits_small 2 3) by (vm_compute; reflexivity). cbv beta iota.
  change (negb (3 =? 3)) with false. cbv iota.
  rewrite (read_bits_small 1 0) by (vm_compute; reflexivity). cbv beta iota.
  change (negb (0 =? 0)) with false. cbv iota.
  rewrite (read_bits_small 2 1) by (vm_compute; reflexivity). cbv beta iota.
  change (N.to_nat (8 * 1)) with 8%nat.
  rewrite read_bits_small by (change (2 ^ N.of_nat 8) with 256; lia). cbv beta iota.
  change (1 <? 1) with false. cbn [andb]. change (1 =? 0) with false. cbv iota.
  change (N.of_nat k + 6 + 8 * 1) with (N.of_nat k + 6 + 8).
  replace (N.of_nat k + 6 + 8) with (N.of_nat k + 14) by lia.
  unfold read_align. rewrite read_bits_zeros. change (0 =? 0) with true. cbv iota.
  assert (Hpl : length (magic_payload p) = N.to_nat (3 + N.of_nat (length hint) + 1)).
  { unfold magic_payload. fold hint. rewrite Hm. cbn [length app]. lia. }
  rewrite <- Hpl. rewrite read_bytes_flat.
  - f_equal. f_equal. f_equal. rewrite Hpl. lia.
  - unfold magic_payload. fold hint. rewrite Hm. repeat constructor; try lia; try (vm_compute; reflexivity).
    exact Hall.
Qed.

(* ---------------------------------------------------------------- the whole header *)

Lemma update_size_hint_sum hint delta tail :
  update_size_hint hint delta tail = spec_size_hint hint (delta + tail).
Proof.
  unfold update_size_hint, spec_size_hint, wadd64, w64, w32. change size_hint_limit_log with 30.
  destruct (hint =? 0); [|reflexivity].
  destruct (N.leb_spec (2 ^ 30) delta) as [H1|H1]; cbn [orb]; [lia|].
  destruct (N.leb_spec (2 ^ 30) tail) as [H2|H2]; cbn [orb]; [lia|].
  assert (H64 : delta + tail < 2 ^ 64).
  { eapply N.lt_le_trans with (2 ^ 31); [change (2 ^ 31) with (2 ^ 30 + 2 ^ 30); lia|]. apply N.pow_le_mono_r; lia. }
  rewrite (N.mod_small _ _ H64).
  destruct (N.leb_spec (2 ^ 30) (delta + tail)) as [H3|H3]; [lia|].
  rewrite N.mod_small; [lia|]. eapply N.lt_le_trans; [exact H3|]. apply N.pow_le_mono_r; lia.
Qed.

Definition header_params (p0 : params) (delta tail : N) : params :=
  with_size_hint (sanitize p0) (update_size_hint (size_hint (sanitize p0)) delta tail).

Definition header_wbits (p0 : params) : list bool :=
  write_bits (snd (encode_window_bits (header_lgwin (sanitize p0)) (large_window (sanitize p0))))
             (fst (encode_window_bits (header_lgwin (sanitize p0)) (large_window (sanitize p0)))) [].

Definition has_magic_block (p0 : params) : bool :=
  magic_number (sanitize p0) && negb (uses_fast_path (sanitize p0)).

Lemma first_bits_split p0 delta tail :
  first_bits p0 delta tail =
  header_wbits p0 ++ (if has_magic_block p0 then meta_body (header_params p0 delta tail) (length (header_wbits p0)) else []).
Proof.
  unfold first_bits, header_wbits, has_magic_block, header_params.
  destruct (encode_window_bits (header_lgwin (sanitize p0)) (large_window (sanitize p0))) as [v nb]. cbn [fst snd].
  destruct (magic_number (sanitize p0) && negb (uses_fast_path (sanitize p0)))%bool.
  - apply write_metadata_block_eq.
  - rewrite app_nil_r. reflexivity.
Qed.

(* window part: holds whatever the rest of the header and of the stream is *)
Lemma header_window p0 delta tail t :
  exists nb rest,
    rfc_read_wbits (first_bits p0 delta tail ++ t)
    = Some (Z.to_N (spec_window (quality p0) (lgwin p0) (large_window p0)), large_window p0, nb, rest)
    /\ (nb = 14 <-> large_window p0 = true) /\ (nb = 1 \/ nb = 4 \/ nb = 7 \/ nb = 14).
Proof.
  rewrite first_bits_split, <- app_assoc. unfold header_wbits.
  destruct (sanitize_flags p0) as (Hlw & _). rewrite Hlw.
  destruct (header_lgwin_range p0) as [Hr Hl].
  rewrite wbits_roundtrip by assumption.
  rewrite header_lgwin_spec.
  destruct (wbits_nbits (header_lgwin (sanitize p0)) (large_window p0) Hr) as (Hnb & Hiff & _).
  rewrite header_lgwin_spec in Hnb, Hiff.
  eexists. eexists. split; [reflexivity|]. split; assumption.
Qed.

(* the compiled-in dispatch sends no configuration with the magic option to the fast path,
   which cannot write the magic block *)
Lemma fast_path_never_with_magic p : magic_number p = true -> uses_fast_path p = false.
Proof.
  intros H. unfold uses_fast_path. rewrite H.
  change fast_path_requires_not_magic with true. cbn [negb]. apply andb_false_r.
Qed.

Lemma mode_byte_spec p0 :
  magic_bytes (sanitize p0) = [225; 151; spec_mode_byte (catable p0) (appendable p0) (use_dictionary p0)].
Proof.
  unfold magic_bytes, spec_mode_byte. destruct (sanitize_flags p0) as (_ & Hc & Ha & Hd & _).
  rewrite Hc, Ha, Hd. destruct (catable p0), (appendable p0), (use_dictionary p0); reflexivity.
Qed.

Lemma header_magic p0 delta tail t :
  magic_number p0 = true -> size_hint p0 < 2 ^ 64 ->
  exists w lf nb rest pos',
    rfc_read_wbits (first_bits p0 delta tail ++ t) = Some (w, lf, nb, rest)
    /\ rfc_read_metadata_block nb rest
       = Some ([225; 151; spec_mode_byte (catable p0) (appendable p0) (use_dictionary p0); VERSION]
               ++ encode_base_128 (spec_size_hint (size_hint p0) (delta + tail)), pos', t)
    /\ pos' mod 8 = 0.
Proof.
  intros Hmagic Hh.
  destruct (sanitize_flags p0) as (Hlw & Hc & Ha & Hd & Hm & Hs).
  assert (Hblock : has_magic_block p0 = true).
  { unfold has_magic_block. rewrite Hm, Hmagic. rewrite fast_path_never_with_magic by (rewrite Hm; exact Hmagic). reflexivity. }
  rewrite first_bits_split, Hblock, <- app_assoc. unfold header_wbits at 1.
  destruct (header_lgwin_range p0) as [Hr Hl]. rewrite Hlw in *.
  rewrite wbits_roundtrip by assumption.
  destruct (wbits_nbits (header_lgwin (sanitize p0)) (large_window p0) Hr) as (Hnb & _ & Hlen).
  set (nb := snd (encode_window_bits (header_lgwin (sanitize p0)) (large_window p0))) in *.
  assert (Hk : length (header_wbits p0) = N.to_nat nb).
  { unfold header_wbits. rewrite Hlw. exact Hlen. }
  rewrite Hk.
  set (hp := header_params p0 delta tail).
  assert (Hhp : size_hint hp = spec_size_hint (size_hint p0) (delta + tail)).
  { unfold hp, header_params, with_size_hint. cbn [size_hint]. rewrite Hs. apply update_size_hint_sum. }
  assert (Hhp64 : size_hint hp < 2 ^ 64).
  { rewrite Hhp. unfold spec_size_hint. destruct (size_hint p0 =? 0); [|exact Hh].
    eapply N.le_lt_trans; [apply N.le_min_r|]. apply N.pow_lt_mono_r; lia. }
  pose proof (meta_body_read hp (N.to_nat nb) t Hhp64) as Hread.
  rewrite N2Nat.id in Hread.
  do 5 eexists. split; [reflexivity|]. split.
  - rewrite Hread. f_equal. f_equal. f_equal.
    unfold magic_payload. rewrite Hhp.
    assert (Hmb : magic_bytes hp = magic_bytes (sanitize p0)) by reflexivity.
    rewrite Hmb, mode_byte_spec. reflexivity.
  - rewrite <- N.add_mod_idemp_l by lia. rewrite pad_to_byte_aligned. rewrite N.add_0_l.
    rewrite N.mul_comm. apply N.mod_mul. lia.
Qed.

Lemma spec_window_nonneg q lgw large : (10 <= spec_window q lgw large <= 30)%Z.
Proof.
  pose proof (header_lgwin_range (mkParams q lgw large false false false false 0)) as [H _].
  rewrite header_lgwin_spec in H. exact H.
Qed.

(* the executable specification accepts every stream that starts with the model's header *)
Lemma spec_check_holds q lgw large cat apd dict magic hint delta tail t :
  hint < 2 ^ 64 ->
  spec_check_header q lgw large cat apd dict magic hint (delta + tail)
    (first_bits (mkParams q lgw large cat apd dict magic hint) delta tail ++ t) = 0.
Proof.
  intros Hh. set (p0 := mkParams q lgw large cat apd dict magic hint).
  unfold spec_check_header.
  destruct (header_window p0 delta tail t) as (nb & rest & Hw & _ & _).
  cbn [quality lgwin large_window p0] in Hw. rewrite Hw.
  pose proof (spec_window_nonneg q lgw large) as Hnn.
  rewrite Z2N.id by lia. rewrite Z.eqb_refl. cbn [negb]. rewrite Bool.eqb_reflx. cbn [negb].
  destruct magic eqn:Em; [|reflexivity]. cbn [negb].
  destruct (header_magic p0 delta tail t eq_refl Hh) as (w' & lf' & nb' & rest' & pos' & Hw' & Hm & Hal).
  rewrite Hw in Hw'. injection Hw' as <- <- <- <-.
  cbn [catable appendable use_dictionary size_hint p0] in Hm. rewrite Hm.
  rewrite Hal. change (0 =? 0) with true. cbn [negb].
  cbn [firstn skipn app]. unfold list_eqb. cbn [length combine forallb fst snd Nat.eqb andb].
  change VERSION with 1. change spec_format_version with 1.
  rewrite !N.eqb_refl. cbn [andb negb].
  assert (H64 : spec_size_hint hint (delta + tail) < 2 ^ 64).
  { unfold spec_size_hint. destruct (hint =? 0); [|exact Hh].
    eapply N.le_lt_trans; [apply N.le_min_r|]. apply N.pow_lt_mono_r; lia. }
  destruct (encode_base_128_correct _ H64) as (Hd & Hle & _ & _).
  rewrite Hd, N.eqb_refl. cbn [negb].
  assert (Hlt : (10 <? length (encode_base_128 (spec_size_hint hint (delta + tail))))%nat = false)
    by (apply Nat.ltb_ge; exact Hle).
  rewrite Hlt. reflexivity.
Qed.

(* what a client using set_parameter with the usual `as u32` casts ends up with *)
Lemma client_settings_params q lgw lw cat apd magic hint :
  (- 2 ^ 31 <= q < 2 ^ 31)%Z -> (- 2 ^ 31 <= lgw < 2 ^ 31)%Z ->
  set_parameters init_params (client_settings q lgw lw cat apd magic hint)
  = (mkParams q lgw lw cat apd (negb cat) magic (w32 hint), true).
Proof.
  intros Hq Hl. unfold client_settings, set_parameters, set_parameter, init_params.
  change BROTLI_PARAM_QUALITY with 1. change BROTLI_PARAM_LGWIN with 2. change BROTLI_PARAM_SIZE_HINT with 5.
  change BROTLI_PARAM_LARGE_WINDOW with 6. change BROTLI_PARAM_CATABLE with 167.
  change BROTLI_PARAM_APPENDABLE with 168. change BROTLI_PARAM_MAGIC_NUMBER with 169.
  cbn [N.eqb Pos.eqb quality lgwin large_window catable appendable use_dictionary magic_number size_hint].
  rewrite !as_i32_as_u32 by assumption.
  replace (w32 (w32 hint)) with (w32 hint) by (unfold w32; rewrite N.mod_mod by lia; reflexivity).
  destruct lw, cat, apd, magic; reflexivity.
Qed.

(* ---- the behaviour before commit 9717d44 (fast path chosen without looking at magic_number):
   the magic block is missing at quality 0/1; kept as a record of the finding ---- *)
Definition first_bits_prefix (p0 : params) (delta tail : N) : list bool :=
  let p := sanitize p0 in
  let '(v, nb) := encode_window_bits (header_lgwin p) (large_window p) in
  let st := write_bits nb v [] in
  if magic_number p && negb (is_fast_quality (quality p) && negb (catable p))
  then write_metadata_block (with_size_hint p (update_size_hint (size_hint p) delta tail)) st
  else st.

Lemma magic_missing_before_fix :
  exists q lgw large cat apd dict hint delta tail t,
    spec_check_header q lgw large cat apd dict true hint (delta + tail)
      (first_bits_prefix (mkParams q lgw large cat apd dict true hint) delta tail ++ t) <> 0.
Proof.
  exists 0%Z, 22%Z, false, false, false, true, 5, 0, 0, (bytes_to_bits [128; 3]).
  vm_compute. discriminate.
Qed.

(* ---------------------------------------------------------------- statements used by props/C15.v *)

Lemma window_statement q lgw large cat apd dict magic hint delta tail t :
  let p0 := mkParams q lgw large cat apd dict magic hint in
  let p := sanitize p0 in
  let w := if (quality p <=? 1)%Z then Z.max (lgwin p) 18 else lgwin p in
  (exists nb rest,
     rfc_read_wbits (first_bits p0 delta tail ++ t) = Some (Z.to_N w, large, nb, rest)
     /\ (nb = 14 <-> large = true) /\ (nb = 1 \/ nb = 4 \/ nb = 7 \/ nb = 14))
  /\ (10 <= w <= 30)%Z
  /\ lgwin p = clampZ 10 (if large then 30 else 24) lgw
  /\ quality p = clampZ 0 11 q.
Proof.
  intros p0 p w.
  assert (Hw : w = spec_window q lgw large).
  { unfold w, p, spec_window. rewrite sanitize_quality, sanitize_lgwin. reflexivity. }
  split; [|split; [|split]].
  - destruct (header_window p0 delta tail t) as (nb & rest & H1 & H2 & H3).
    exists nb, rest. rewrite Hw. auto.
  - rewrite Hw. apply spec_window_nonneg.
  - apply (sanitize_lgwin p0).
  - apply (sanitize_quality p0).
Qed.

Lemma strict_reader_statement q lgw large cat apd dict magic hint delta tail t :
  let p0 := mkParams q lgw large cat apd dict magic hint in
  (large = false -> exists nb rest,
      rfc_read_wbits_strict (first_bits p0 delta tail ++ t) = Some (Z.to_N (spec_window q lgw large), nb, rest))
  /\ (large = true -> rfc_read_wbits_strict (first_bits p0 delta tail ++ t) = None).
Proof.
  intros p0. destruct (header_window p0 delta tail t) as (nb & rest & H1 & _ & _).
  cbn [quality lgwin large_window p0] in H1. unfold rfc_read_wbits_strict. rewrite H1.
  split; intros ->; [exists nb, rest|]; reflexivity.
Qed.

Lemma magic_statement q lgw large cat apd dict hint delta tail t :
  hint < 2 ^ 64 ->
  let p0 := mkParams q lgw large cat apd dict true hint in
  exists w lf nb rest pos',
    rfc_read_wbits (first_bits p0 delta tail ++ t) = Some (w, lf, nb, rest)
    /\ rfc_read_metadata_block nb rest
       = Some ([225; 151; spec_mode_byte cat apd dict; VERSION]
               ++ encode_base_128 (spec_size_hint hint (delta + tail)), pos', t)
    /\ pos' mod 8 = 0.
Proof. intros Hh p0. exact (header_magic p0 delta tail t eq_refl Hh). Qed.

Lemma base128_statement n : n < 2 ^ 64 ->
  base128_decode (encode_base_128 n) = Some n /\ (1 <= length (encode_base_128 n) <= 10)%nat
  /\ Forall (fun b => b < 256) (encode_base_128 n).
Proof. intros H. destruct (encode_base_128_correct n H) as (A & B & C & D). auto. Qed.
