(* Proofs about model/Huffman.v against spec/PrefixCode.v (C17). *)
From Coq Require Import NArith ZArith List Lia Bool Arith.
From V Require Import lib.Words lib.Finite gen.GenHuffman spec.PrefixCode model.Huffman
  proofs.ReverseBits_proofs proofs.Canonical_proofs.
Import ListNotations.
Open Scope N_scope.

(* ------------------------------------------------------------------ arrays and loops *)
Lemma bind_done {A B} (r : res A) (f : A -> res B) b :
  bind r f = Done b -> exists a, r = Done a /\ f a = Done b.
Proof. destruct r as [a| |]; cbn; intros H; try discriminate. exists a. auto. Qed.

Lemma upd_length {A} (l : list A) i x : length (upd l i x) = length l.
Proof. revert i. induction l as [|h t IH]; intros [|i]; cbn; auto. Qed.

Lemma upd_nth_same {A} (l : list A) i x dflt : (i < length l)%nat -> nth i (upd l i x) dflt = x.
Proof. revert i. induction l as [|h t IH]; intros [|i] H; cbn in *; try lia; auto. apply IH. lia. Qed.

Lemma upd_nth_other {A} (l : list A) i j x dflt : i <> j -> nth j (upd l i x) dflt = nth j l dflt.
Proof.
  revert i j. induction l as [|h t IH]; intros [|i] [|j] H; cbn; auto; try congruence.
Qed.

Lemma upd_opt_spec {A} (l : list A) i x :
  upd_opt l i x = if (i <? length l)%nat then Some (upd l i x) else None.
Proof.
  revert i. induction l as [|h t IH]; intros [|i]; cbn [upd_opt upd length]; try reflexivity.
  rewrite IH. change (S i <? S (length t))%nat with (i <? length t)%nat.
  destruct (i <? length t)%nat; reflexivity.
Qed.

Lemma setA_ok {A} (l : list A) i x : (N.to_nat i < length l)%nat -> setA l i x = Done (upd l (N.to_nat i) x).
Proof.
  intros H. unfold setA. rewrite upd_opt_spec. apply Nat.ltb_lt in H. rewrite H. reflexivity.
Qed.

Lemma setA_done {A} (l l' : list A) i x :
  setA l i x = Done l' -> (N.to_nat i < length l)%nat /\ l' = upd l (N.to_nat i) x.
Proof.
  unfold setA. rewrite upd_opt_spec. destruct (Nat.ltb_spec (N.to_nat i) (length l)) as [Hlt|Hge]; intros E; inversion E. auto.
Qed.

Lemma getA_ok {A} (l : list A) i dflt : (N.to_nat i < length l)%nat -> getA l i = Done (nth (N.to_nat i) l dflt).
Proof.
  intros H. unfold getA. destruct (nth_error l (N.to_nat i)) as [x|] eqn:E.
  - f_equal. symmetry. apply nth_error_nth. exact E.
  - apply nth_error_None in E. lia.
Qed.

Lemma getA_done {A} (l : list A) i x dflt :
  getA l i = Done x -> (N.to_nat i < length l)%nat /\ x = nth (N.to_nat i) l dflt.
Proof.
  unfold getA. destruct (nth_error l (N.to_nat i)) as [y|] eqn:E; intros H; inversion H; subst.
  split; [apply nth_error_Some; congruence|symmetry; apply nth_error_nth; exact E].
Qed.

Lemma for_range_inv {St} (P : N -> St -> Prop) (body : N -> St -> res St) :
  forall todo i s, P i s ->
    (forall j s, i <= j -> j < i + N.of_nat todo -> P j s -> exists s', body j s = Done s' /\ P (j + 1) s') ->
    exists s', for_range todo i body s = Done s' /\ P (i + N.of_nat todo) s'.
Proof.
  induction todo as [|todo IH]; intros i s HP Hstep.
  - exists s. split; [reflexivity|]. rewrite N.add_0_r. exact HP.
  - cbn [for_range]. destruct (Hstep i s) as [s1 [E1 P1]]; [lia|lia|exact HP|].
    rewrite E1. cbn [bind].
    destruct (IH (i + 1) s1 P1) as [s2 [E2 P2]].
    + intros j s' H1 H2 HPj. apply Hstep; [lia|lia|exact HPj].
    + exists s2. split; [exact E2|]. replace (i + N.of_nat (S todo)) with (i + 1 + N.of_nat todo) by lia. exact P2.
Qed.

(* ------------------------------------------------------------------ BrotliConvertBitDepthsToSymbols *)
Lemma firstn_succ_snoc (d : list N) i : (i < length d)%nat -> firstn (S i) d = firstn i d ++ [nth i d 0].
Proof.
  revert i. induction d as [|x d IH]; intros i H; [cbn in H; lia|].
  destruct i as [|i]; [reflexivity|]. cbn [firstn nth app]. f_equal. apply IH. cbn in H. lia.
Qed.

Lemma count_firstn_succ (d : list N) i l : (i < length d)%nat ->
  count_len (firstn (S i) d) l = count_len (firstn i d) l + (if l =? nth i d 0 then 1 else 0).
Proof.
  intros H. rewrite firstn_succ_snoc by exact H. rewrite count_len_app, count_len_cons, count_len_nil. lia.
Qed.

Lemma count_firstn_le (d : list N) i l : count_len (firstn i d) l <= count_len d l.
Proof. rewrite <- (firstn_skipn i d) at 2. rewrite count_len_app. lia. Qed.

Section Convert.
  Variable d : list N.
  Hypothesis Hwf : wf_depths d.
  Hypothesis Hk : kraft d <= 32768.

  Lemma next_count_bound (l : nat) : (1 <= l <= 15)%nat ->
    next_code_nat d l + count_len d (N.of_nat l) <= 2 ^ N.of_nat l.
  Proof.
    intros Hl.
    assert (E : (next_code_nat d l + count_len d (N.of_nat l)) * 2 ^ (15 - N.of_nat l) = start d (N.of_nat l + 1)).
    { rewrite N.mul_add_distr_r, next_code_start, start_succ by lia. reflexivity. }
    pose proof (start_le_kraft d (N.of_nat l + 1)) as Hs.
    assert (Hp : 2 ^ N.of_nat l * 2 ^ (15 - N.of_nat l) = 32768).
    { rewrite <- N.pow_add_r. replace (N.of_nat l + (15 - N.of_nat l)) with 15 by lia. reflexivity. }
    assert (Hpos : 0 < 2 ^ (15 - N.of_nat l)) by (apply N.neq_0_lt_0, N.pow_nonzero; discriminate).
    remember (2 ^ (15 - N.of_nat l)) as w. remember (2 ^ N.of_nat l) as p.
    remember (next_code_nat d l + count_len d (N.of_nat l)) as a. nia.
  Qed.

  Lemma next_bound (l : nat) : (l <= 15)%nat -> next_code_nat d l <= 2 ^ N.of_nat l.
  Proof.
    intros Hl. destruct l as [|l]; [cbn; lia|]. pose proof (next_count_bound (S l) ltac:(lia)). lia.
  Qed.

  Lemma pow_le_15 (l : nat) : (l <= 15)%nat -> 2 ^ N.of_nat l <= 32768.
  Proof. intros H. change 32768 with (2 ^ 15). apply N.pow_le_mono_r; lia. Qed.

  Lemma depth_lt_16 i : (i < length d)%nat -> nth i d 0 <= 15.
  Proof. intros H. apply Hwf. apply nth_In. exact H. Qed.

  (* first loop: bl_count *)
  Definition P1 (i : N) (blc : list N) : Prop :=
    length blc = 16%nat /\ forall l : nat, (1 <= l <= 15)%nat -> nth l blc 0 = count_len (firstn (N.to_nat i) d) (N.of_nat l).

  Lemma loop1 : exists blc,
    for_in 0 (N.of_nat (length d)) (fun i blc => dd <- getA d i ;; c <- getA blc dd ;; setA blc dd (w16 (c + 1))) (repeat 0 16)
    = Done blc /\ P1 (N.of_nat (length d)) blc.
  Proof.
    unfold for_in. rewrite N.sub_0_r, Nat2N.id.
    destruct (for_range_inv P1 (fun i blc => dd <- getA d i ;; c <- getA blc dd ;; setA blc dd (w16 (c + 1)))
                (length d) 0 (repeat 0 16)) as [blc [E HP]].
    - split; [reflexivity|]. intros l Hl. cbn [N.to_nat firstn]. rewrite count_len_nil.
      do 16 (destruct l as [|l]; [reflexivity|]). lia.
    - intros j blc Hj1 Hj2 [Hlen Hc].
      assert (Hjn : (N.to_nat j < length d)%nat) by lia.
      rewrite (getA_ok d j 0 Hjn). cbn [bind].
      pose proof (depth_lt_16 _ Hjn) as Hd. set (dd := nth (N.to_nat j) d 0) in *.
      assert (Hddn : (N.to_nat dd < length blc)%nat) by lia.
      rewrite (getA_ok blc dd 0 Hddn). cbn [bind]. rewrite (setA_ok _ _ _ Hddn).
      eexists. split; [reflexivity|]. split; [rewrite upd_length; exact Hlen|].
      intros l Hl. replace (N.to_nat (j + 1)) with (S (N.to_nat j)) by lia.
      rewrite count_firstn_succ by exact Hjn. fold dd.
      destruct (N.eqb_spec (N.of_nat l) dd) as [El|Hne].
      + replace (N.to_nat dd) with l by lia. rewrite upd_nth_same by lia. rewrite Hc by exact Hl.
        unfold w16. apply N.mod_small.
        pose proof (count_firstn_le d (S (N.to_nat j)) (N.of_nat l)) as Hle.
        rewrite count_firstn_succ in Hle by exact Hjn. fold dd in Hle. rewrite <- El, N.eqb_refl in Hle.
        pose proof (next_count_bound l Hl). pose proof (pow_le_15 l ltac:(lia)). change (2 ^ 16) with 65536. lia.
      + rewrite upd_nth_other by lia. rewrite Hc by exact Hl. lia.
    - exists blc. split; [exact E|]. rewrite N.add_0_l in HP. exact HP.
  Qed.

  (* second loop: next_code *)
  Definition blc_ok (blc : list N) : Prop :=
    length blc = 16%nat /\ forall l : nat, (l <= 15)%nat -> nth l blc 0 = bl_count d (N.of_nat l).

  Definition P2 (i : N) (st : list N * Z) : Prop :=
    let '(nc, code) := st in
    length nc = 16%nat /\ code = Z.of_N (next_code_nat d (N.to_nat (i - 1))) /\
    forall l : nat, (l < N.to_nat i)%nat -> nth l nc 0 = next_code_nat d l.

  Lemma i32_wrap_small z : (0 <= z < 2 ^ 31)%Z -> i32_wrap z = z.
  Proof. intros H. unfold i32_wrap. rewrite Z.mod_small by lia. lia. Qed.

  Lemma loop2 blc : blc_ok blc -> exists nc,
    next_code_loop blc = Done nc /\ length nc = 16%nat /\
    forall l : nat, (l <= 15)%nat -> nth l nc 0 = next_code_nat d l.
  Proof.
    intros [Hlen Hb]. unfold next_code_loop, for_in.
    change (N.to_nat (16 - 1)) with 15%nat.
    match goal with |- context [for_range 15 1 ?b ?s] =>
      destruct (for_range_inv P2 b 15 1 s) as [[nc code] [E HP]] end.
    - split; [reflexivity|]. split; [reflexivity|].
      intros l Hl. destruct l as [|l]; [reflexivity|]. cbn in Hl. lia.
    - intros j [nc code] Hj1 Hj2 [Hl [Hcode Hnc]].
      assert (Hjn : (N.to_nat (j - 1) < length blc)%nat) by lia.
      rewrite (getA_ok blc (j - 1) 0 Hjn). cbn [bind].
      rewrite Hb by lia. rewrite N2Nat.id.
      set (b' := N.to_nat (j - 1)) in *.
      assert (Hnext : next_code_nat d (S b') = 2 * (next_code_nat d b' + bl_count d (j - 1))).
      { cbn [next_code_nat]. unfold b'. rewrite N2Nat.id. reflexivity. }
      pose proof (next_bound (S b') ltac:(unfold b'; lia)) as Hnb.
      pose proof (pow_le_15 (S b') ltac:(unfold b'; lia)) as Hp.
      rewrite Hcode.
      destruct (Z.leb_spec (2 ^ 31) (Z.of_N (next_code_nat d b') + Z.of_N (bl_count d (j - 1)))) as [Hbig|Hsmall].
      { exfalso. change (2 ^ 31)%Z with 2147483648%Z in Hbig. lia. }
      rewrite i32_wrap_small by (change (2 ^ 31)%Z with 2147483648%Z; lia).
      assert (Hjl : (N.to_nat j < length nc)%nat) by lia.
      rewrite (setA_ok nc j _ Hjl). cbn [bind].
      eexists (_, _). split; [reflexivity|]. split; [rewrite upd_length; exact Hl|]. split.
      + replace (N.to_nat (j + 1 - 1)) with (S b') by (unfold b'; lia). rewrite Hnext. lia.
      + intros l Hlt. destruct (Nat.eq_dec l (N.to_nat j)) as [->|Hne].
        * rewrite upd_nth_same by lia. unfold u16_of_Z.
          replace ((Z.of_N (next_code_nat d b') + Z.of_N (bl_count d (j - 1))) * 2)%Z
            with (Z.of_N (next_code_nat d (S b'))) by (rewrite Hnext; lia).
          rewrite Z.mod_small by lia. rewrite N2Z.id. f_equal. unfold b'. lia.
        * rewrite upd_nth_other by lia. apply Hnc. lia.
    - rewrite E. cbn [bind]. exists nc. split; [reflexivity|].
      destruct HP as [Hl [_ Hnc]]. split; [exact Hl|]. intros l Hl15. apply Hnc. cbn. lia.
  Qed.

  (* third loop: code assignment *)
  Definition expected (bits0 : list N) (s : nat) : N :=
    if nth s d 0 =? 0 then nth s bits0 0 else rev_spec (nth s d 0) (rfc_code d s).

  Definition P3 (bits0 : list N) (i : N) (st : list N * list N) : Prop :=
    let '(bits, nc) := st in
    length bits = length bits0 /\ length nc = 16%nat /\
    (forall l : nat, (1 <= l <= 15)%nat -> nth l nc 0 = next_code_nat d l + count_len (firstn (N.to_nat i) d) (N.of_nat l)) /\
    (forall s, (s < N.to_nat i)%nat -> nth s bits 0 = expected bits0 s) /\
    (forall s, (N.to_nat i <= s)%nat -> nth s bits 0 = nth s bits0 0).

  Lemma loop3 bits0 nc0 : length bits0 = length d -> length nc0 = 16%nat ->
    (forall l : nat, (l <= 15)%nat -> nth l nc0 0 = next_code_nat d l) ->
    exists bits nc,
      for_in 0 (N.of_nat (length d)) (fun i '(bits, nc) =>
        dd <- getA d i ;;
        if negb (dd =? 0) then
          old <- getA nc dd ;;
          nc <- setA nc dd (w16 (old + 1)) ;;
          r <- reverse_bits dd old ;;
          bits <- setA bits i r ;;
          Done (bits, nc)
        else Done (bits, nc)) (bits0, nc0) = Done (bits, nc) /\
      length bits = length d /\ forall s, (s < length d)%nat -> nth s bits 0 = expected bits0 s.
  Proof.
    intros Hb0 Hn0 Hnc0. unfold for_in. rewrite N.sub_0_r, Nat2N.id.
    match goal with |- context [for_range (length d) 0 ?b ?s] =>
      destruct (for_range_inv (P3 bits0) b (length d) 0 s) as [[bits nc] [E HP]] end.
    - split; [reflexivity|]. split; [exact Hn0|]. split; [|split].
      + intros l Hl. cbn [N.to_nat firstn]. rewrite count_len_nil, Hnc0 by lia. lia.
      + intros s Hs. cbn in Hs. lia.
      + intros s _. reflexivity.
    - intros j [bits nc] Hj1 Hj2 [Hlb [Hln [Hnc [Hdone Hrest]]]].
      assert (Hjn : (N.to_nat j < length d)%nat) by lia.
      rewrite (getA_ok d j 0 Hjn). cbn [bind].
      pose proof (depth_lt_16 _ Hjn) as Hd. set (dd := nth (N.to_nat j) d 0) in *.
      assert (Hj1n : N.to_nat (j + 1) = S (N.to_nat j)) by lia.
      destruct (N.eqb_spec dd 0) as [Ez|Hnz]; cbn [negb].
      + eexists (_, _). split; [reflexivity|]. unfold P3. rewrite Hj1n. split; [exact Hlb|]. split; [exact Hln|]. split; [|split].
        * intros l Hl. rewrite count_firstn_succ by exact Hjn. fold dd. rewrite Ez.
          destruct (N.eqb_spec (N.of_nat l) 0); [lia|]. rewrite Hnc by exact Hl. lia.
        * intros s Hs. destruct (Nat.eq_dec s (N.to_nat j)) as [->|Hne]; [|apply Hdone; lia].
          rewrite Hrest by lia. unfold expected. fold dd. rewrite Ez. reflexivity.
        * intros s Hs. apply Hrest. lia.
      + set (l := N.to_nat dd).
        assert (Hl : (1 <= l <= 15)%nat) by (unfold l; lia).
        assert (Hddn : (N.to_nat dd < length nc)%nat) by lia.
        rewrite (getA_ok nc dd 0 Hddn). cbn [bind]. fold l. rewrite Hnc by exact Hl.
        replace (N.of_nat l) with dd by (unfold l; lia).
        assert (Hold : next_code_nat d l + count_len (firstn (N.to_nat j) d) dd = rfc_code d (N.to_nat j)).
        { unfold rfc_code, rfc_next_code. fold dd. fold l. reflexivity. }
        rewrite Hold. rewrite (setA_ok nc dd _ Hddn). cbn [bind].
        pose proof (rank_lt_count d (N.to_nat j) Hjn) as Hrk. unfold rank in Hrk. fold dd in Hrk.
        pose proof (next_count_bound l Hl) as Hncb. replace (N.of_nat l) with dd in Hncb by (unfold l; lia).
        pose proof (pow_le_15 l ltac:(lia)) as Hp. replace (N.of_nat l) with dd in Hp by (unfold l; lia).
        assert (Hcode : rfc_code d (N.to_nat j) + 1 <= 2 ^ dd) by (rewrite <- Hold; lia).
        rewrite reverse_bits_correct by lia. cbn [bind].
        assert (Hjb : (N.to_nat j < length bits)%nat) by lia.
        rewrite (setA_ok bits j _ Hjb). cbn [bind].
        eexists (_, _). split; [reflexivity|]. unfold P3. rewrite Hj1n. split; [rewrite upd_length; exact Hlb|].
        split; [rewrite upd_length; exact Hln|]. split; [|split].
        * intros l' Hl'. rewrite count_firstn_succ by exact Hjn. fold dd.
          destruct (N.eqb_spec (N.of_nat l') dd) as [El|Hne].
          -- replace l' with l by (unfold l; lia). fold l. rewrite upd_nth_same by lia.
             unfold w16. rewrite N.mod_small by (change (2 ^ 16) with 65536; lia).
             rewrite <- Hold. replace (N.of_nat l) with dd by (unfold l; lia). lia.
          -- rewrite upd_nth_other by (unfold l; lia). rewrite Hnc by exact Hl'. lia.
        * intros s Hs. destruct (Nat.eq_dec s (N.to_nat j)) as [->|Hne].
          -- rewrite upd_nth_same by lia. unfold expected. fold dd.
             destruct (N.eqb_spec dd 0); [contradiction|]. reflexivity.
          -- rewrite upd_nth_other by lia. apply Hdone. lia.
        * intros s Hs. rewrite upd_nth_other by lia. apply Hrest. lia.
    - exists bits, nc. split; [exact E|]. destruct HP as [Hlb [_ [_ [Hdone _]]]].
      split; [lia|]. intros s Hs. apply Hdone. lia.
  Qed.

  Theorem convert_canonical bits0 : length bits0 = length d ->
    exists bits, convert_bit_depths_to_symbols d (N.of_nat (length d)) bits0 = Done bits /\
      length bits = length d /\
      forall s, (s < length d)%nat ->
        nth s bits 0 = if nth s d 0 =? 0 then nth s bits0 0 else rev_spec (nth s d 0) (rfc_code d s).
  Proof.
    intros Hb0. unfold convert_bit_depths_to_symbols.
    destruct loop1 as [blc [E1 [Hl1 Hc1]]]. rewrite E1. cbn [bind].
    rewrite setA_ok by (rewrite Hl1; cbn; lia). cbn [bind].
    assert (Hok : blc_ok (upd blc (N.to_nat 0) 0)).
    { split; [rewrite upd_length; exact Hl1|]. intros l Hl. destruct l as [|l].
      - rewrite upd_nth_same by (rewrite Hl1; cbn; lia). reflexivity.
      - rewrite upd_nth_other by (cbn; lia). rewrite Hc1 by lia. rewrite Nat2N.id, firstn_all.
        unfold bl_count. destruct (N.eqb_spec (N.of_nat (S l)) 0); [lia|reflexivity]. }
    destruct (loop2 _ Hok) as [nc [E2 [Hl2 Hn2]]]. rewrite E2. cbn [bind].
    destruct (loop3 bits0 nc Hb0 Hl2 Hn2) as [bits [nc' [E3 [Hl3 Hb3]]]]. rewrite E3. cbn [bind].
    exists bits. split; [reflexivity|]. split; [exact Hl3|exact Hb3].
  Qed.
End Convert.

Theorem canonical_all d bits0 : wf_depths d -> kraft d <= 32768 -> length bits0 = length d ->
  (exists bits, convert_bit_depths_to_symbols d (N.of_nat (length d)) bits0 = Done bits /\ length bits = length d /\
     forall s, (s < length d)%nat -> nth s d 0 <> 0 ->
       nth s bits 0 = bits_to_N (rfc_codeword d s) /\
       N_to_bits (N.to_nat (nth s d 0)) (nth s bits 0) = rfc_codeword d s)
  /\ prefix_free d
  /\ (forall s r, (s < length d)%nat -> nth s d 0 <> 0 ->
        rfc_decode_symbol d (rfc_codeword d s ++ r) = Some (N.of_nat s, r)).
Proof.
  intros Hwf Hk Hb. split; [|split].
  - destruct (convert_canonical d Hwf Hk bits0 Hb) as [bits [E [Hl Hs]]].
    exists bits. split; [exact E|]. split; [exact Hl|]. intros s Hlt Hnz.
    rewrite Hs by exact Hlt. destruct (N.eqb_spec (nth s d 0) 0); [contradiction|].
    assert (E1 : rev_spec (nth s d 0) (rfc_code d s) = bits_to_N (rfc_codeword d s)) by reflexivity.
    split; [exact E1|]. rewrite E1.
    rewrite <- (msb_first_length (N.to_nat (nth s d 0)) (rfc_code d s)) at 1.
    apply N_to_bits_of_bits.
  - apply canonical_prefix_free; assumption.
  - intros s r Hlt Hnz. apply canonical_decode_encode; [assumption|assumption|split; assumption].
Qed.
