(* Proofs about the adapter models of model/IO.v (property C11). *)
From Coq Require Import NArith List Bool Arith Lia.
From V Require Import gen.GenIO model.IO.
Import ListNotations.

Ltac splits := repeat match goal with |- _ /\ _ => split end.

(* ------------------------------------------------------------------ small facts *)

Lemma bytes_of_grow a d : bytes_of (grow a d) = bytes_of a ++ d.
Proof.
  unfold bytes_of, grow. rewrite <- !rev_alt. rewrite rev_append_rev, rev_app_distr, rev_involutive. reflexivity.
Qed.

Lemma write_at_length buf pos d :
  pos + length d <= length buf -> length (write_at buf pos d) = length buf.
Proof.
  intros H. unfold write_at. rewrite !app_length, firstn_length, skipn_length. lia.
Qed.

Lemma write_at_firstn buf pos d :
  pos <= length buf -> firstn pos (write_at buf pos d) = firstn pos buf.
Proof.
  intros H. unfold write_at.
  rewrite firstn_app, firstn_length, Nat.min_l by lia.
  rewrite Nat.sub_diag. cbn [firstn]. rewrite app_nil_r.
  rewrite firstn_firstn, Nat.min_id. reflexivity.
Qed.

Lemma skipn_app_exact {A} (l1 l2 : list A) n : n = length l1 -> skipn n (l1 ++ l2) = l2.
Proof. intros ->. rewrite skipn_app, skipn_all, Nat.sub_diag. reflexivity. Qed.

Lemma firstn_app_exact {A} (l1 l2 : list A) n : n = length l1 -> firstn n (l1 ++ l2) = l1.
Proof. intros ->. rewrite firstn_app, firstn_all, Nat.sub_diag. cbn. apply app_nil_r. Qed.

Lemma skipn_skipn' {A} (l : list A) a b : skipn a (skipn b l) = skipn (b + a) l.
Proof.
  revert l. induction b as [|b IH]; intros l; [reflexivity|].
  destruct l as [|x l]; [rewrite !skipn_nil; reflexivity|]. cbn [skipn Nat.add]. apply IH.
Qed.

Lemma firstn_plus {A} (l : list A) k m : firstn (k + m) l = firstn k l ++ firstn m (skipn k l).
Proof.
  revert l. induction k as [|k IH]; intros l; [reflexivity|].
  destruct l as [|x l]; [cbn; rewrite firstn_nil; reflexivity|].
  cbn [Nat.add firstn skipn app]. f_equal. apply IH.
Qed.

(* the window [off, off+k) of a buffer followed by the window [off+k, off+k+m) *)
Lemma window_split {A} (buf : list A) off k m :
  firstn (k + m) (skipn off buf) = firstn k (skipn off buf) ++ firstn m (skipn (off + k) buf).
Proof. rewrite firstn_plus, skipn_skipn'. reflexivity. Qed.

Lemma window_write_at (buf : list byte) pos d :
  pos + length d <= length buf -> firstn (length d) (skipn pos (write_at buf pos d)) = d.
Proof.
  intros H. unfold write_at.
  rewrite skipn_app_exact by (rewrite firstn_length; lia).
  apply firstn_app_exact. reflexivity.
Qed.

(* a window that ends where the written data begins is unchanged, and can be extended by it *)
Lemma window_then_write (buf : list byte) off len d :
  off <= len -> len + length d <= length buf ->
  firstn (len + length d - off) (skipn off (write_at buf len d)) = firstn (len - off) (skipn off buf) ++ d.
Proof.
  intros H1 H2. replace (len + length d - off) with ((len - off) + length d) by lia.
  rewrite window_split. replace (off + (len - off)) with len by lia.
  rewrite window_write_at by exact H2. f_equal.
  unfold write_at.
  rewrite skipn_app, firstn_length, Nat.min_l by lia.
  replace (off - len) with 0 by lia. cbn [skipn].
  rewrite firstn_app, skipn_length, firstn_length, Nat.min_l by lia.
  replace (len - off - (len - off)) with 0 by lia. cbn [firstn]. rewrite app_nil_r.
  rewrite skipn_firstn_comm. rewrite firstn_firstn, Nat.min_id. reflexivity.
Qed.

(* ------------------------------------------------------------------ scripted streams *)

Definition tail_ok (sc : script) : Prop := s_tail sc <> Interrupted.

(* number of zero-length answers this call added to the log *)
Definition zero_answer (n len : nat) : nat := if (n =? 0) && (0 <? len) then 1 else 0.

Lemma of_nat_eqb0 n : N.eqb (N.of_nat n) 0 = (n =? 0).
Proof. destruct n; reflexivity. Qed.

Lemma log_zero_writes_io len n l :
  log_zero_writes (EvIO (N.of_nat len) (RN (N.of_nat n)) :: l) = zero_answer n len + log_zero_writes l.
Proof.
  unfold zero_answer. cbn [log_zero_writes]. rewrite !of_nat_eqb0.
  destruct len as [|len]; destruct n as [|n]; reflexivity.
Qed.

Lemma write_apply_le b len : write_apply b len <= len.
Proof. destruct b; cbn; lia. Qed.

Lemma sink_write_go_spec l : forall tl d got log,
  tl <> Interrupted ->
  match sink_write_go l tl d got log with
  | (WAccept n, k') =>
    n <= length d /\ bytes_of (k_got k') = bytes_of got ++ firstn n d /\ s_tail (k_script k') = tl /\
    log_errs (k_log k') = log_errs log /\
    log_zero_writes (k_log k') = zero_answer n (length d) + log_zero_writes log
  | (WFail e, k') =>
    bytes_of (k_got k') = bytes_of got /\ s_tail (k_script k') = tl /\
    log_errs (k_log k') = e :: log_errs log /\ log_zero_writes (k_log k') = log_zero_writes log
  | (WSpin, _) => False
  end.
Proof.
  induction l as [|b l IH]; intros tl d got log Htl.
  - cbn [sink_write_go].
    destruct tl; try congruence; cbn [k_got k_script k_log s_tail log_errs];
      rewrite ?bytes_of_grow, ?log_zero_writes_io;
      repeat split; try reflexivity; try apply write_apply_le.
  - cbn [sink_write_go].
    destruct b; cbn [k_got k_script k_log s_tail log_errs];
      rewrite ?bytes_of_grow, ?log_zero_writes_io;
      try (repeat split; try reflexivity; try apply write_apply_le; fail).
    specialize (IH tl d got (EvIO (N.of_nat (length d)) RInt :: log) Htl).
    destruct (sink_write_go l tl d got (EvIO (N.of_nat (length d)) RInt :: log)) as [[n|e|] k'];
      cbn [log_errs log_zero_writes] in IH; exact IH.
Qed.

Lemma sink_write_spec k d :
  tail_ok (k_script k) ->
  match sink_write k d with
  | (WAccept n, k') =>
    n <= length d /\ sink_bytes k' = sink_bytes k ++ firstn n d /\ tail_ok (k_script k') /\
    log_errs (k_log k') = log_errs (k_log k) /\
    log_zero_writes (k_log k') = zero_answer n (length d) + log_zero_writes (k_log k)
  | (WFail e, k') =>
    sink_bytes k' = sink_bytes k /\ tail_ok (k_script k') /\
    log_errs (k_log k') = e :: log_errs (k_log k) /\
    log_zero_writes (k_log k') = log_zero_writes (k_log k)
  | (WSpin, _) => False
  end.
Proof.
  intros Ht. unfold sink_write, sink_bytes, tail_ok in *.
  pose proof (sink_write_go_spec (s_list (k_script k)) (s_tail (k_script k)) d (k_got k) (k_log k) Ht) as H.
  destruct (sink_write_go _ _ d _ _) as [[n|e|] k']; [| |exact H].
  - destruct H as (H1 & H2 & H3 & H4 & H5). rewrite H3. auto.
  - destruct H as (H1 & H2 & H3 & H4). rewrite H2. auto.
Qed.

Lemma sink_flush_go_spec l : forall tl got log,
  tl <> Interrupted ->
  match sink_flush_go l tl got log with
  | (WAccept _, k') =>
    k_got k' = got /\ s_tail (k_script k') = tl /\ log_errs (k_log k') = log_errs log /\
    log_zero_writes (k_log k') = log_zero_writes log
  | (WFail e, k') =>
    k_got k' = got /\ s_tail (k_script k') = tl /\ log_errs (k_log k') = e :: log_errs log /\
    log_zero_writes (k_log k') = log_zero_writes log
  | (WSpin, _) => False
  end.
Proof.
  induction l as [|b l IH]; intros tl got log Htl.
  - cbn [sink_flush_go]. destruct tl; try congruence; cbn; auto.
  - cbn [sink_flush_go]. destruct b; cbn; auto.
    specialize (IH tl got (EvFlush RInt :: log) Htl).
    destruct (sink_flush_go l tl got (EvFlush RInt :: log)) as [[n|e|] k']; cbn in IH; exact IH.
Qed.

Lemma prefix_split {A} n (l : list A) : l = firstn n l ++ skipn (length (firstn n l)) l.
Proof.
  rewrite firstn_length. destruct (Nat.le_gt_cases n (length l)) as [H|H].
  - rewrite Nat.min_l by lia. symmetry. apply firstn_skipn.
  - rewrite Nat.min_r by lia. rewrite firstn_all2 by lia. rewrite skipn_all. symmetry. apply app_nil_r.
Qed.

Lemma read_apply_prefix b room rest :
  let d := read_apply b room rest in
  length d <= room /\ rest = d ++ skipn (length d) rest.
Proof.
  cbn zeta. destruct b; cbn [read_apply length skipn app]; try (split; [lia|reflexivity]).
  - split; [rewrite firstn_length; lia|apply prefix_split].
  - split; [rewrite firstn_length; lia|apply prefix_split].
Qed.

Lemma io_read_go_spec l : forall tl room rest taken log,
  tl <> Interrupted ->
  match io_read_go l tl room rest taken log with
  | (RGot d, s') =>
    length d <= room /\ rest = d ++ src_rest s' /\ bytes_of (src_taken s') = bytes_of taken ++ d /\
    s_tail (src_script s') = tl /\ log_errs (src_log s') = log_errs log
  | (RFail e, s') =>
    src_rest s' = rest /\ src_taken s' = taken /\ s_tail (src_script s') = tl /\
    log_errs (src_log s') = e :: log_errs log
  | (RSpin, _) => False
  end.
Proof.
  induction l as [|b l IH]; intros tl room rest taken log Htl.
  - cbn [io_read_go]. pose proof (read_apply_prefix tl room rest) as [Ha Hb].
    destruct tl; try congruence; cbn [src_rest src_taken src_script src_log s_tail log_errs];
      rewrite ?bytes_of_grow; repeat split; try reflexivity; try assumption.
  - cbn [io_read_go]. pose proof (read_apply_prefix b room rest) as [Ha Hb].
    destruct b; cbn [src_rest src_taken src_script src_log s_tail log_errs];
      rewrite ?bytes_of_grow;
      try (repeat split; try reflexivity; try assumption; fail).
    specialize (IH tl room rest taken (EvIO (N.of_nat room) RInt :: log) Htl).
    destruct (io_read_go l tl room rest taken (EvIO (N.of_nat room) RInt :: log)) as [[d|e|] s']; exact IH.
Qed.

Definition src_taken_bytes (s : source) : list byte := bytes_of (src_taken s).

Lemma io_read_spec s room :
  tail_ok (src_script s) ->
  match io_read s room with
  | (RGot d, s') =>
    length d <= room /\ src_rest s = d ++ src_rest s' /\ src_taken_bytes s' = src_taken_bytes s ++ d /\
    tail_ok (src_script s') /\ log_errs (src_log s') = log_errs (src_log s)
  | (RFail e, s') =>
    src_rest s' = src_rest s /\ src_taken_bytes s' = src_taken_bytes s /\ tail_ok (src_script s') /\
    log_errs (src_log s') = e :: log_errs (src_log s)
  | (RSpin, _) => False
  end.
Proof.
  intros Ht. unfold io_read, tail_ok, src_taken_bytes in *.
  pose proof (io_read_go_spec (s_list (src_script s)) (s_tail (src_script s)) room (src_rest s) (src_taken s) (src_log s) Ht) as H.
  destruct (io_read_go _ _ room _ _ _) as [[d|e|] s']; [| |exact H].
  - destruct H as (H1 & H2 & H3 & H4 & H5). rewrite H4. auto.
  - destruct H as (H1 & H2 & H3 & H4). rewrite H2, H3. auto.
Qed.

(* ------------------------------------------------------------------ writer.rs write_all *)

(* what one call of write_all did, as a predicate over its inputs and its outcome *)
Definition write_all_post (k : sink) (buf : list byte) (ez ei : bool) (o : wa_out) : Prop :=
  exists m, m <= length buf /\
    sink_bytes (wa_sink o) = sink_bytes k ++ firstn m buf /\ tail_ok (k_script (wa_sink o)) /\
    match wa_res o with
    | Ok _ =>
      log_errs (k_log (wa_sink o)) = log_errs (k_log k) /\
      ((m = length buf /\ log_zero_writes (k_log (wa_sink o)) = log_zero_writes (k_log k) /\
        wa_ez o = ez /\ wa_ei o = ei)
       \/ (* both stored errors were already taken: the zero-length write is swallowed *)
       (ez = false /\ ei = false /\ m < length buf /\
        log_zero_writes (k_log (wa_sink o)) = S (log_zero_writes (k_log k)) /\
        wa_ez o = false /\ wa_ei o = false))
    | Err e =>
      (exists c, e = EScript c /\ log_errs (k_log (wa_sink o)) = c :: log_errs (k_log k) /\
                 log_zero_writes (k_log (wa_sink o)) = log_zero_writes (k_log k) /\
                 wa_ez o = ez /\ wa_ei o = ei)
      \/ (m < length buf /\ log_errs (k_log (wa_sink o)) = log_errs (k_log k) /\
          log_zero_writes (k_log (wa_sink o)) = S (log_zero_writes (k_log k)) /\
          ((ez = true /\ e = EWriteZero /\ wa_ez o = false /\ wa_ei o = ei)
           \/ (ez = false /\ ei = true /\ e = EInvalidData /\ wa_ez o = false /\ wa_ei o = false)))
    | Panic _ => False
    | OutOfFuel => False
    end.

Lemma write_all_spec : forall fuel k buf ez ei,
  tail_ok (k_script k) -> length buf < fuel -> write_all_post k buf ez ei (write_all fuel k buf ez ei).
Proof.
  induction fuel as [|f IH]; intros k buf ez ei Ht Hf; [lia|].
  cbn [write_all]. destruct buf as [|b0 buf'].
  - exists 0. cbn. rewrite app_nil_r. repeat split; auto.
  - set (buf := b0 :: buf') in *.
    pose proof (sink_write_spec k buf Ht) as Hs.
    destruct (sink_write k buf) as [[n|e|] k']; [| |contradiction].
    + destruct Hs as (Hn & Hb & Ht' & He & Hz).
      destruct (Nat.eqb_spec n 0) as [->|Hn0].
      * assert (Hz' : log_zero_writes (k_log k') = S (log_zero_writes (k_log k))).
        { rewrite Hz. unfold zero_answer. reflexivity. }
        exists 0. cbn [firstn] in *. split; [lia|].
        destruct ez; [|destruct ei]; cbn [wa_res wa_sink wa_ez wa_ei];
          (split; [exact Hb|]); (split; [exact Ht'|]).
        -- right. cbn [length buf]. split; [lia|]. split; [exact He|]. split; [exact Hz'|]. left. auto.
        -- right. cbn [length buf]. split; [lia|]. split; [exact He|]. split; [exact Hz'|]. right. auto.
        -- split; [exact He|]. right. cbn [length buf]. repeat split; auto; lia.
      * destruct (Nat.ltb_spec (length buf) n) as [Hlt|Hge]; [lia|].
        assert (Hlen : length (skipn n buf) < f).
        { rewrite skipn_length. cbn [length buf] in *. lia. }
        specialize (IH k' (skipn n buf) ez ei Ht' Hlen).
        destruct IH as (m & Hm & Hb2 & Ht2 & Hres).
        rewrite skipn_length in Hm.
        assert (Hz0 : log_zero_writes (k_log k') = log_zero_writes (k_log k)).
        { rewrite Hz. unfold zero_answer. destruct (Nat.eqb_spec n 0); [lia|]. reflexivity. }
        exists (n + m). split; [lia|]. split.
        { rewrite Hb2, Hb, <- app_assoc. f_equal.
          rewrite <- (firstn_skipn n buf) at 3.
          rewrite firstn_app, firstn_length, Nat.min_l by lia.
          rewrite firstn_firstn, Nat.min_r by lia.
          replace (n + m - n) with m by lia. reflexivity. }
        split; [exact Ht2|].
        rewrite skipn_length in Hres.
        destruct (wa_res (write_all f k' (skipn n buf) ez ei)) as [u|e|y|]; try contradiction.
        -- destruct Hres as (He2 & Hcase). split; [congruence|].
           destruct Hcase as [(H1 & H2 & H3 & H4)|(H1 & H2 & H3 & H4 & H5 & H6)].
           ++ left. repeat split; auto; try lia; congruence.
           ++ right. repeat split; auto; try lia; congruence.
        -- destruct Hres as [(c & H1 & H2 & H3 & H4 & H5)|(H1 & H2 & H3 & H4)].
           ++ left. exists c. repeat split; auto; congruence.
           ++ right. repeat split; auto; try lia; congruence.
    + destruct Hs as (Hb & Ht' & He & Hz).
      exists 0. cbn [firstn wa_res wa_sink wa_ez wa_ei]. rewrite app_nil_r.
      split; [lia|]. split; [exact Hb|]. split; [exact Ht'|].
      left. exists e. auto.
Qed.

(* ------------------------------------------------------------------ the encoder contract *)

Section Contract.
Variable estate : Type.
Variable enc_step : estate -> op -> list byte -> nat -> eans estate.
Variable enc_finished enc_more : estate -> bool.

(* [accepting s]: stream_state == PROCESSING (new input is accepted);
   [live s]: FINISH has not been requested yet (PROCESSING or FLUSH_REQUESTED);
   [potential s]: an upper bound on what the encoder can still emit without new input;
   [G]: by how much one more accepted input byte can raise that bound. *)
Variable accepting : estate -> bool.
Variable live : estate -> bool.
Variable potential : estate -> nat.
Variable G : nat.

Local Notation step := enc_step.

(* What the adapters rely on - the call contract of compress_stream (DESIGN C20), stated for the
   calls the adapters make: PROCESS with input, FLUSH / FINISH without. *)
Record contract : Prop := {
  c_consumed : forall s o inp cap, ea_consumed (step s o inp cap) <= length inp;
  c_produced : forall s o inp cap, length (ea_produced (step s o inp cap)) <= cap;
  c_progress_process : forall s inp cap, 0 < cap -> inp <> [] -> ea_ok (step s Process inp cap) = true ->
    0 < ea_consumed (step s Process inp cap) \/ ea_produced (step s Process inp cap) <> [];
  c_progress_finish : forall s cap, 0 < cap ->
    ea_produced (step s Finish [] cap) <> [] \/ enc_finished (ea_state (step s Finish [] cap)) = true;
  c_progress_flush : forall s cap, 0 < cap ->
    ea_produced (step s Flush [] cap) <> [] \/ enc_more (ea_state (step s Flush [] cap)) = false;
  c_accept_process : forall s inp cap, accepting s = true ->
    ea_ok (step s Process inp cap) = true /\ accepting (ea_state (step s Process inp cap)) = true;
  c_accept_empty : forall s o cap, o <> Process -> ea_ok (step s o [] cap) = true;
  c_live : forall s, accepting s = true -> live s = true;
  c_flush_done : forall s cap, live s = true ->
    enc_more (ea_state (step s Flush [] cap)) = false -> accepting (ea_state (step s Flush [] cap)) = true;
  c_flush_keeps : forall s cap, live s = true -> live (ea_state (step s Flush [] cap)) = true;
  c_process_no_finish : forall s inp cap, accepting s = true ->
    enc_finished (ea_state (step s Process inp cap)) = false;
  c_finished_absorbing : forall s cap, enc_finished s = true ->
    ea_produced (step s Finish [] cap) = [] /\ enc_finished (ea_state (step s Finish [] cap)) = true;
  c_no_finish_without_room : forall s o inp, enc_finished s = false ->
    enc_finished (ea_state (step s o inp 0)) = false;
  c_potential : forall s o inp cap,
    potential (ea_state (step s o inp cap)) + length (ea_produced (step s o inp cap))
    <= potential s + G * ea_consumed (step s o inp cap)
}.

Hypothesis HC : contract.

Local Notation tstep := (tstep enc_step).

Lemma tstep_fed (t : tenc estate) o inp cap :
  fed (ta_enc (tstep t o inp cap)) = fed t ++ firstn (ta_consumed (tstep t o inp cap)) inp.
Proof. unfold fed, IO.tstep. cbn. apply bytes_of_grow. Qed.
Lemma tstep_emitted (t : tenc estate) o inp cap :
  emitted (ta_enc (tstep t o inp cap)) = emitted t ++ ta_produced (tstep t o inp cap).
Proof. unfold emitted, IO.tstep. cbn. apply bytes_of_grow. Qed.

(* states reachable with PROCESS / FINISH only (what the reader and the copy adapter issue) *)
Inductive ReachPF (st0 : estate) : tenc estate -> Prop :=
| rp_init : ReachPF st0 {| t_st := st0; t_fed := []; t_out := [] |}
| rp_step t o inp cap : ReachPF st0 t -> o <> Flush -> ReachPF st0 (ta_enc (tstep t o inp cap)).

(* ------------------------------------------------------------------ reader.rs *)

Definition pending (r : reader estate) : list byte :=
  firstn (r_len r - r_off r) (skipn (r_off r) (r_buf r)).

(* the state invariant of CompressorReaderCustomIo between (and inside) calls of `read` *)
Definition RInv (st0 : estate) (r : reader estate) : Prop :=
  0 < length (r_buf r) /\
  r_off r <= r_len r /\ r_len r <= length (r_buf r) /\
  (r_off r = r_len r -> r_len r < length (r_buf r)) /\
  src_taken_bytes (r_src r) = fed (r_enc r) ++ pending r /\
  tail_ok (src_script (r_src r)) /\
  (accepting (t_st (r_enc r)) = true \/ (r_eof r = true /\ r_off r = r_len r)) /\
  (enc_finished (t_st (r_enc r)) = true -> r_eof r = true /\ r_off r = r_len r) /\
  ReachPF st0 (r_enc r).

Definition read_post (st0 : estate) (r : reader estate) (cap : nat) (x : res (list byte) * reader estate) : Prop :=
  match x with
  | (Ok d, r') =>
    RInv st0 r' /\ length (r_buf r') = length (r_buf r) /\ length d <= cap /\
    emitted (r_enc r') = emitted (r_enc r) ++ d /\
    log_errs (src_log (r_src r')) = log_errs (src_log (r_src r)) /\
    (d = [] -> 0 < cap ->
     enc_finished (t_st (r_enc r')) = true /\ r_eof r' = true /\ src_taken_bytes (r_src r') = fed (r_enc r'))
  | (Err e, r') =>
    RInv st0 r' /\ length (r_buf r') = length (r_buf r) /\ emitted (r_enc r') = emitted (r_enc r) /\
    exists c, e = EScript c /\ log_errs (src_log (r_src r')) = c :: log_errs (src_log (r_src r))
  | (Panic _, _) => False
  | (OutOfFuel, _) => False
  end.

Lemma pending_length r : r_off r <= r_len r -> r_len r <= length (r_buf r) -> length (pending r) = r_len r - r_off r.
Proof. intros H1 H2. unfold pending. rewrite firstn_length, skipn_length. lia. Qed.

(* copy_to_front keeps the pending window (for any fill state, not only the empty one `read` calls it with) *)
Lemma copy_to_front_spec r :
  r_off r <= r_len r -> r_len r <= length (r_buf r) ->
  exists r', copy_to_front r = Some r' /\ pending r' = pending r /\ length (r_buf r') = length (r_buf r) /\
    r_len r' - r_off r' = r_len r - r_off r /\ r_off r' <= r_len r' /\ r_len r' <= length (r_buf r') /\
    r_eof r' = r_eof r /\ r_ei r' = r_ei r /\ r_enc r' = r_enc r /\ r_src r' = r_src r /\
    (r_off r = length (r_buf r) -> r_off r' = 0) /\ (r_off r <> length (r_buf r) -> r_off r' = r_off r \/ r_off r' = 0).
Proof.
  intros H1 H2. unfold copy_to_front.
  destruct (Nat.ltb_spec (r_len r) (r_off r)) as [Hlt|_]; [lia|].
  destruct (Nat.eqb_spec (r_off r) (length (r_buf r))) as [Heq|Hne].
  - eexists. split; [reflexivity|]. unfold pending, set_buf. cbn.
    replace (r_len r - r_off r) with 0 by lia. cbn. splits; auto; lia.
  - destruct ((length (r_buf r) <? r_off r + IO_COPY_TO_FRONT_SLACK) && (r_len r - r_off r <? r_off r)) eqn:Hc.
    + apply andb_true_iff in Hc. destruct Hc as [_ Hc]. apply Nat.ltb_lt in Hc.
      eexists. split; [reflexivity|]. unfold pending, set_buf. cbn [r_buf r_off r_len r_eof r_ei r_enc r_src skipn].
      set (a := r_len r - r_off r) in *.
      assert (Hla : length (firstn a (skipn (r_off r) (r_buf r))) = a).
      { rewrite firstn_length, skipn_length. lia. }
      rewrite Nat.sub_0_r. rewrite firstn_app_exact by (symmetry; exact Hla).
      rewrite app_length, Hla, skipn_length.
      splits; auto; try lia.
    + exists r. splits; auto; try lia.
Qed.

Lemma fill_staging_spec st0 (r : reader estate) avail_in :
  RInv st0 r -> avail_in = r_len r - r_off r ->
  match fill_staging r avail_in with
  | (Ok avail_in1, r1) =>
    RInv st0 r1 /\ avail_in1 = r_len r1 - r_off r1 /\ length (r_buf r1) = length (r_buf r) /\
    r_enc r1 = r_enc r /\ log_errs (src_log (r_src r1)) = log_errs (src_log (r_src r)) /\
    length (src_rest (r_src r1)) + avail_in1 = length (src_rest (r_src r)) + avail_in /\
    (avail_in1 = 0 -> r_eof r1 = true)
  | (Err e, r1) =>
    RInv st0 r1 /\ length (r_buf r1) = length (r_buf r) /\ r_enc r1 = r_enc r /\
    exists c, e = EScript c /\ log_errs (src_log (r_src r1)) = c :: log_errs (src_log (r_src r))
  | (Panic _, _) => False
  | (OutOfFuel, _) => False
  end.
Proof.
  intros HI Hai.
  destruct HI as (Hn & Hol & Hln & Hroom & Htaken & Htail & Hacc & Hfin & Hreach).
  unfold fill_staging.
  destruct ((r_len r <? length (r_buf r)) && negb (r_eof r)) eqn:Hc.
  - apply andb_true_iff in Hc. destruct Hc as [Hc1 Hc2]. apply Nat.ltb_lt in Hc1.
    apply negb_true_iff in Hc2.
    pose proof (io_read_spec (r_src r) (length (r_buf r) - r_len r) Htail) as Hs.
    destruct (io_read (r_src r) (length (r_buf r) - r_len r)) as [[d|e|] s']; [| |contradiction].
    + destruct Hs as (Hd & Hrest & Htk & Htl & Hle).
      destruct (Nat.eqb_spec (length d) 0) as [Hd0|Hd0].
      * destruct d; [|cbn in Hd0; lia]. rewrite app_nil_r in Htk. cbn [app] in Hrest.
        cbn [r_buf r_off r_len r_eof r_enc r_src].
        split.
        { unfold RInv, pending. cbn [r_buf r_off r_len r_eof r_enc r_src].
          splits; auto; try lia.
          - rewrite Htk. exact Htaken.
          - destruct Hacc as [Ha|[Ha _]]; [left; exact Ha|congruence].
          - intros Hx. destruct (Hfin Hx) as [Ha _]. congruence. }
        splits; auto. rewrite Hrest. reflexivity.
      * cbn zeta. cbn [r_len r_off].
        destruct (Nat.ltb_spec (r_len r + length d) (r_off r)) as [Hx|_]; [lia|].
        cbn [r_buf r_off r_len r_eof r_enc r_src].
        assert (Hwl : length (write_at (r_buf r) (r_len r) d) = length (r_buf r)) by (apply write_at_length; lia).
        split.
        { unfold RInv, pending. cbn [r_buf r_off r_len r_eof r_enc r_src].
          rewrite Hwl. splits; auto; try lia.
          - rewrite Htk, Htaken, <- app_assoc. f_equal. symmetry.
            apply window_then_write; lia.
          - destruct Hacc as [Ha|[Ha _]]; [left; exact Ha|congruence].
          - intros Hx. destruct (Hfin Hx) as [Ha _]. congruence. }
        splits; auto; try lia.
        rewrite Hrest, app_length. lia.
    + destruct Hs as (Hrest & Htk & Htl & Hle).
      cbn [r_buf r_off r_len r_eof r_enc r_src]. split; [|splits; auto; exists e; auto].
      unfold RInv, pending in *. cbn [r_buf r_off r_len r_eof r_enc r_src].
      splits; auto. rewrite Htk. exact Htaken.
  - split; [unfold RInv; splits; auto|].
    splits; auto.
    intros Ha0. apply andb_false_iff in Hc. destruct Hc as [Hc|Hc].
    + apply Nat.ltb_ge in Hc. assert (r_off r = r_len r) by lia. specialize (Hroom H). lia.
    + apply negb_false_iff in Hc. exact Hc.
Qed.

Definition plain_source (s : source) : Prop := s_list (src_script s) = [] /\ s_tail (src_script s) = Full.

Lemma io_read_plain s room :
  plain_source s -> exists d s', io_read s room = (RGot d, s') /\ plain_source s'.
Proof.
  intros [H1 H2]. unfold io_read. rewrite H1, H2. cbn [io_read_go].
  eexists. eexists. split; [reflexivity|]. split; reflexivity.
Qed.

Lemma fill_staging_plain (r : reader estate) ai :
  plain_source (r_src r) ->
  match fill_staging r ai with (Err _, _) => False | (_, r1) => plain_source (r_src r1) end.
Proof.
  intros Hp. unfold fill_staging.
  destruct ((r_len r <? length (r_buf r)) && negb (r_eof r)); [|exact Hp].
  destruct (io_read_plain (r_src r) (length (r_buf r) - r_len r) Hp) as (d & s' & E & Hp'). rewrite E.
  destruct (length d =? 0); [exact Hp'|]. cbn zeta.
  match goal with |- context [if ?c then _ else _] => destruct c end; exact Hp'.
Qed.

(* one evaluation of the loop condition plus one execution of the loop body *)
Lemma read_iter st0 cap f (r : reader estate) avail_in :
  RInv st0 r -> avail_in = r_len r - r_off r ->
  (exists e r1 c, read_loop enc_step enc_finished (S f) r avail_in cap [] = (Err e, r1) /\
      RInv st0 r1 /\ length (r_buf r1) = length (r_buf r) /\ r_enc r1 = r_enc r /\ e = EScript c /\
      log_errs (src_log (r_src r1)) = c :: log_errs (src_log (r_src r)) /\ ~ plain_source (r_src r))
  \/
  (exists r3 p ai2 consumed,
      read_loop enc_step enc_finished (S f) r avail_in cap [] =
        (if enc_finished (t_st (r_enc r3)) then (Ok p, r3)
         else read_loop enc_step enc_finished f r3 ai2 (cap - length p) p) /\
      RInv st0 r3 /\ length (r_buf r3) = length (r_buf r) /\ length p <= cap /\
      emitted (r_enc r3) = emitted (r_enc r) ++ p /\
      log_errs (src_log (r_src r3)) = log_errs (src_log (r_src r)) /\
      ai2 = r_len r3 - r_off r3 /\
      length (src_rest (r_src r3)) + ai2 + consumed = length (src_rest (r_src r)) + avail_in /\
      (0 < cap -> p = [] -> enc_finished (t_st (r_enc r3)) = false -> 0 < consumed) /\
      (enc_finished (t_st (r_enc r3)) = true -> r_eof r3 = true /\ src_taken_bytes (r_src r3) = fed (r_enc r3)) /\
      (cap = 0 -> enc_finished (t_st (r_enc r)) = false -> enc_finished (t_st (r_enc r3)) = false) /\
      (plain_source (r_src r) -> plain_source (r_src r3))).
Proof.
  intros HI Hai.
  cbn [read_loop length Nat.eqb negb].
  pose proof (fill_staging_spec st0 r avail_in HI Hai) as Hfill.
  pose proof (fill_staging_plain r avail_in) as Hplain.
  destruct HI as (Hn & Hol & Hln & Hroom & Htaken & Htail & Hacc & Hfin & Hreach).
  destruct (fill_staging r avail_in) as [[avail_in1|e|y|] r1]; try contradiction.
  2:{ (* the wrapped reader failed: the error is returned unchanged *)
    destruct Hfill as (HI1 & Hl1 & He1 & c & Hc1 & Hc2).
    left. exists e, r1, c. splits; auto.
    all: intros Hpl; specialize (Hplain Hpl); exact Hplain. }
  destruct Hfill as (HI1 & Hai1 & Hlen1 & Henc1 & Hlog1 & Hmeas & Heof1).
   destruct HI1 as (Hn1 & Hol1 & Hln1 & Hroom1 & Htaken1 & Htail1 & Hacc1 & Hfin1 & Hreach1).
  (* ---- one compress_stream call *)
  set (o := if avail_in1 =? 0 then Finish else Process).
  set (inp := firstn avail_in1 (skipn (r_off r1) (r_buf r1))).
  assert (Hinp : inp = pending r1) by (unfold inp, pending; rewrite Hai1; reflexivity).
  assert (Hinpl : length inp = avail_in1).
  { rewrite Hinp, pending_length by assumption. lia. }
  set (a := tstep (r_enc r1) o inp cap).
  assert (Hc : ta_consumed a <= avail_in1).
  { unfold a, IO.tstep. cbn [ta_consumed]. rewrite <- Hinpl. apply (c_consumed HC). }
  assert (Hp : length (ta_produced a) <= cap).
  { unfold a, IO.tstep. cbn [ta_produced]. apply (c_produced HC). }
  cbn [app].
  set (r2 := {| r_buf := r_buf r1; r_off := r_off r1 + ta_consumed a; r_len := r_len r1; r_eof := r_eof r1;
                r_ei := r_ei r1; r_enc := ta_enc a; r_src := r_src r1 |}).
  assert (Hpend2 : pending r1 = firstn (ta_consumed a) inp ++ pending r2).
  { unfold pending. unfold r2. cbn [r_buf r_off r_len].
    replace (r_len r1 - r_off r1) with (ta_consumed a + (r_len r1 - (r_off r1 + ta_consumed a))) by lia.
    rewrite window_split. f_equal. unfold inp.
    rewrite firstn_firstn, Nat.min_l by lia. reflexivity. }
  assert (Htaken2 : src_taken_bytes (r_src r2) = fed (r_enc r2) ++ pending r2).
  { unfold r2 at 1 2. cbn [r_src r_enc]. unfold a. rewrite tstep_fed. fold a.
    rewrite <- app_assoc, <- Hpend2. exact Htaken1. }
  (* ok, accepting, finished *)
  assert (Hok : ta_ok a = true /\
                (accepting (t_st (ta_enc a)) = true \/ (r_eof r1 = true /\ avail_in1 = 0)) /\
                (enc_finished (t_st (ta_enc a)) = true -> r_eof r1 = true /\ avail_in1 = 0)).
  { unfold a, o, IO.tstep. cbn [ta_ok ta_enc t_st].
    destruct (Nat.eqb_spec avail_in1 0) as [H0|H0].
    - assert (inp = []) by (destruct inp; [reflexivity|cbn in Hinpl; lia]). rewrite H.
      split; [apply (c_accept_empty HC); discriminate|]. split; [right|]; auto.
    - assert (Ha : accepting (t_st (r_enc r1)) = true).
      { destruct Hacc1 as [Ha|[_ Ha]]; [exact Ha|lia]. }
      destruct (c_accept_process HC (t_st (r_enc r1)) inp cap Ha) as [Ho Ha'].
      split; [exact Ho|]. split; [left; exact Ha'|].
      intros Hx. exfalso.
      rewrite (c_process_no_finish HC _ inp cap Ha) in Hx. discriminate. }
  destruct Hok as (Hok & Hacc2 & Hfin2).
  (* ---- copy_to_front when the staging buffer is drained *)
  assert (Hctf : exists r3,
     (if avail_in1 - ta_consumed a =? 0 then copy_to_front r2 else Some r2) = Some r3 /\
     pending r3 = pending r2 /\ length (r_buf r3) = length (r_buf r1) /\
     r_len r3 - r_off r3 = avail_in1 - ta_consumed a /\ r_off r3 <= r_len r3 /\ r_len r3 <= length (r_buf r3) /\
     r_eof r3 = r_eof r1 /\ r_ei r3 = r_ei r1 /\ r_enc r3 = ta_enc a /\ r_src r3 = r_src r1 /\
     (r_off r3 = r_len r3 -> r_len r3 < length (r_buf r3))).
  { destruct (Nat.eqb_spec (avail_in1 - ta_consumed a) 0) as [H0|H0].
    - destruct (copy_to_front_spec r2) as (r3 & E & P & L & D & O1 & O2 & E1 & E2 & E3 & E4 & Z1 & Z2);
        [unfold r2; cbn [r_off r_len r_buf]; lia|unfold r2; cbn [r_off r_len r_buf]; lia|].
      exists r3. split; [exact E|]. unfold r2 in L, D, E1, E2, E3, E4, Z1, Z2. cbn [r_buf r_off r_len r_eof r_ei r_enc r_src] in *.
      splits; auto; try lia.
      all: intros Hx; rewrite L;
        destruct (Nat.eq_dec (r_off r1 + ta_consumed a) (length (r_buf r1))) as [Hy|Hy];
        [specialize (Z1 Hy); lia|destruct (Z2 Hy) as [Hz|Hz]; lia].
    - exists r2. split; [reflexivity|]. unfold r2. cbn [r_buf r_off r_len r_eof r_ei r_enc r_src].
      splits; auto; lia. }
  destruct Hctf as (r3 & Ectf & P3 & L3 & D3 & O3a & O3b & E3a & E3b & E3c & E3d & Room3).
  rewrite Ectf. rewrite Hok. cbn [negb].
  assert (HI3 : RInv st0 r3).
  { unfold RInv. rewrite E3c, E3d, E3a, P3.
    split; [lia|]. split; [exact O3a|]. split; [exact O3b|]. split; [exact Room3|].
    split; [unfold r2 in Htaken2; cbn [r_src r_enc] in Htaken2; exact Htaken2|].
    split; [exact Htail1|].
    split; [destruct Hacc2 as [Ha|[Ha Hb]]; [left; exact Ha|right; split; [exact Ha|lia]]|].
    split; [intros Hx; destruct (Hfin2 Hx) as [Ha Hb]; split; [exact Ha|lia]|].
    unfold a. apply rp_step; [exact Hreach1|]. unfold o. destruct (avail_in1 =? 0); discriminate. }
  assert (Hem3 : emitted (r_enc r3) = emitted (r_enc r) ++ ta_produced a).
  { rewrite E3c. unfold a. rewrite tstep_emitted, Henc1. reflexivity. }
  assert (Hlog3 : log_errs (src_log (r_src r3)) = log_errs (src_log (r_src r))) by (rewrite E3d; exact Hlog1).
  right. exists r3, (ta_produced a), (avail_in1 - ta_consumed a), (ta_consumed a).
  split.
  { rewrite E3c. cbn [t_st app]. reflexivity. }
  split; [exact HI3|]. split; [congruence|]. split; [exact Hp|]. split; [exact Hem3|]. split; [exact Hlog3|].
  split; [lia|]. split; [rewrite E3d; lia|].
  split.
  { intros Hcap Hprod Hnf. rewrite E3c in Hnf.
    unfold a, o in *. destruct (Nat.eqb_spec avail_in1 0) as [H0|H0].
    - exfalso. assert (Hi0 : inp = []) by (destruct inp; [reflexivity|cbn in Hinpl; lia]).
      unfold IO.tstep in Hprod, Hnf. cbn [ta_produced ta_enc t_st] in Hprod, Hnf. rewrite Hi0 in *.
      destruct (c_progress_finish HC (t_st (r_enc r1)) cap Hcap) as [Hx|Hx]; congruence.
    - unfold IO.tstep in Hprod, Hok |- *. cbn [ta_produced ta_ok ta_consumed] in *.
      assert (Hine : inp <> []) by (intros Hx; rewrite Hx in Hinpl; cbn in Hinpl; lia).
      destruct (c_progress_process HC (t_st (r_enc r1)) inp cap Hcap Hine Hok) as [Hx|Hx]; [exact Hx|congruence]. }
  split.
  { rewrite E3c. intros Hfinished. destruct (Hfin2 Hfinished) as [Ha Hb]. split; [rewrite E3a; exact Ha|].
    assert (Hp3 : pending r3 = []).
    { unfold pending. replace (r_len r3 - r_off r3) with 0 by lia. reflexivity. }
    destruct HI3 as (_ & _ & _ & _ & Ht3 & _). rewrite Ht3, Hp3, app_nil_r, E3c. reflexivity. }
  split.
  { intros Hc0 Hnf. rewrite E3c. unfold a, IO.tstep. cbn [ta_enc t_st]. subst cap.
    apply (c_no_finish_without_room HC). rewrite Henc1. exact Hnf. }
  intros Hpl. rewrite E3d. specialize (Hplain Hpl). exact Hplain.
Qed.

Lemma read_loop_nonempty f (r : reader estate) ai ao outp :
  outp <> [] -> read_loop enc_step enc_finished (S f) r ai ao outp = (Ok outp, r).
Proof. intros H. cbn [read_loop]. destruct outp; [congruence|]. reflexivity. Qed.

Lemma read_loop_spec st0 cap : 0 < cap -> forall fuel (r : reader estate) avail_in,
  RInv st0 r -> avail_in = r_len r - r_off r ->
  length (src_rest (r_src r)) + avail_in + 2 <= fuel ->
  read_post st0 r cap (read_loop enc_step enc_finished fuel r avail_in cap []).
Proof.
  intros Hcap. induction fuel as [|f IH]; intros r avail_in HI Hai Hf; [lia|].
  destruct (read_iter st0 cap f r avail_in HI Hai)
    as [(e & r1 & c & E & HI1 & L1 & En1 & Ee & Lg & _)
       |(r3 & p & ai2 & consumed & E & HI3 & L3 & Hp & Hem & Hlog & Hai2 & Hmeas & Hprog & Hfin & _ & _)];
    rewrite E; clear E.
  - cbn [read_post]. splits; auto; try congruence. exists c. auto.
  - destruct (enc_finished (t_st (r_enc r3))) eqn:Hfinished.
    + cbn [read_post]. splits; auto. all: intros _ _; destruct (Hfin eq_refl); auto.
    + destruct p as [|p0 ps].
      * cbn [length]. rewrite Nat.sub_0_r.
        specialize (Hprog Hcap eq_refl eq_refl).
        assert (Hfuel : length (src_rest (r_src r3)) + ai2 + 2 <= f) by lia.
        specialize (IH r3 ai2 HI3 Hai2 Hfuel). unfold read_post in IH |- *.
        destruct (read_loop enc_step enc_finished f r3 ai2 cap []) as [[d|e|y|] r']; try contradiction.
        -- destruct IH as (I & L & Dl & Em & Lg & Fin). rewrite Hem, app_nil_r in Em.
           splits; auto; try congruence.
        -- destruct IH as (I & L & Em & c & Ec & Lg). rewrite Hem, app_nil_r in Em.
           splits; auto; try congruence. exists c. split; [exact Ec|congruence].
      * destruct f as [|f']; [lia|].
        rewrite read_loop_nonempty by discriminate.
        cbn [read_post]. splits; auto. all: intros Hx; discriminate.
Qed.

(* C11_reader: a read into a non-empty buffer returns within |unread source| + |staged| + 2
   evaluations of the loop condition; what it delivers is exactly what the encoder produced; an
   error of the wrapped reader is returned unchanged (and nothing is lost: the state invariant
   still holds, so the call can be repeated); Ok(0) means the encoder is finished and has been fed
   every byte the wrapped reader delivered before it signalled end of input. *)
Definition read_fuel (r : reader estate) : nat := length (src_rest (r_src r)) + (r_len r - r_off r) + 2.

Lemma read_spec st0 (r : reader estate) buf_len fuel :
  RInv st0 r -> 0 < buf_len -> read_fuel r <= fuel ->
  read_post st0 r buf_len (read enc_step enc_finished fuel r buf_len).
Proof.
  intros HI Hb Hf. unfold read, read_unguarded.
  destruct (Nat.eqb_spec buf_len 0) as [H0|_]; [lia|]. rewrite andb_false_r.
  destruct HI as (Hn & Hol & HI'). destruct (Nat.ltb_spec (r_len r) (r_off r)) as [Hx|_]; [lia|].
  apply read_loop_spec; auto. unfold RInv. auto.
Qed.

(* C11_reader_empty (repaired code): a read into an empty buffer returns Ok(0) at once and
   changes nothing *)
Lemma read_empty (r : reader estate) fuel : read enc_step enc_finished fuel r 0 = (Ok [], r).
Proof. reflexivity. Qed.

(* ... and why the guard is needed: the loop as it stood before repair 3fdd175 (and still stands,
   behind the guard) never returns for an empty buffer while the encoder is not finished - the
   encoder cannot deliver into no space, so `output_offset` stays 0, and it cannot finish either. *)
Lemma read_loop_no_room_spins st0 : forall fuel (r : reader estate) avail_in,
  RInv st0 r -> avail_in = r_len r - r_off r -> plain_source (r_src r) ->
  enc_finished (t_st (r_enc r)) = false ->
  fst (read_loop enc_step enc_finished fuel r avail_in 0 []) = OutOfFuel.
Proof.
  induction fuel as [|f IH]; intros r avail_in HI Hai Hpl Hnf; [reflexivity|].
  destruct (read_iter st0 0 f r avail_in HI Hai)
    as [(e & r1 & c & E & _ & _ & _ & _ & _ & Hnp)
       |(r3 & p & ai2 & consumed & E & HI3 & _ & Hp & _ & _ & Hai2 & _ & _ & _ & Hnf3 & Hpl3)].
  - contradiction.
  - rewrite E. rewrite (Hnf3 eq_refl Hnf).
    destruct p; [|cbn in Hp; lia]. cbn [length Nat.sub].
    apply IH; auto.
Qed.

Lemma read_unguarded_spins st0 (r : reader estate) :
  RInv st0 r -> plain_source (r_src r) -> enc_finished (t_st (r_enc r)) = false ->
  forall fuel, fst (read_unguarded enc_step enc_finished fuel r 0) = OutOfFuel.
Proof.
  intros HI Hpl Hnf fuel. unfold read_unguarded.
  pose proof HI as (_ & Hol & _). destruct (Nat.ltb_spec (r_len r) (r_off r)) as [Hx|_]; [lia|].
  apply (read_loop_no_room_spins st0); auto.
Qed.

(* ------------------------------------------------------------------ writer.rs *)

Definition zeros (w : writer estate) : nat := log_zero_writes (k_log (w_sink w)).
Definition errs (w : writer estate) : list N := log_errs (k_log (w_sink w)).

(* the hand-over of one compress_stream answer to the sink *)
Definition hand_over_post (w : writer estate) (a : tans estate) (x : option (res unit) * writer estate) : Prop :=
  let (ro, w') := x in
  w_obuf w' = w_obuf w /\ w_enc w' = ta_enc a /\ tail_ok (k_script (w_sink w')) /\
  match ro with
  | None =>
    ta_ok a = true /\ errs w' = errs w /\
    ((sink_bytes (w_sink w') = sink_bytes (w_sink w) ++ ta_produced a /\ zeros w' = zeros w /\
      w_ez w' = w_ez w /\ w_ei w' = w_ei w)
     \/ (w_ez w = false /\ w_ei w = false /\ zeros w' = S (zeros w) /\ w_ez w' = false /\ w_ei w' = false))
  | Some (Err e) =>
    (exists c, e = EScript c /\ errs w' = c :: errs w /\ zeros w' = zeros w)
    \/ (errs w' = errs w /\ zeros w' = S (zeros w) /\
        ((e = EWriteZero /\ w_ez w = true) \/ (e = EInvalidData /\ w_ez w = false /\ w_ei w = true)))
    \/ (ta_ok a = false /\ e = EInvalidData /\ errs w' = errs w /\ zeros w' = zeros w)
  | Some (Panic _) => ta_ok a = false /\ w_ei w = false
  | Some (Ok _) => False
  | Some OutOfFuel => False
  end.

Lemma hand_over_spec (w : writer estate) (a : tans estate) :
  tail_ok (k_script (w_sink w)) -> hand_over_post w a (hand_over w a).
Proof.
  intros Ht. unfold hand_over, hand_over_post, zeros, errs.
  destruct (Nat.eqb_spec (length (ta_produced a)) 0) as [Hp0|Hp0].
  - cbn [w_obuf w_enc w_ei w_ez w_sink].
    assert (Hpn : ta_produced a = []) by (destruct (ta_produced a); [reflexivity|cbn in Hp0; lia]).
    destruct (ta_ok a) eqn:Hok; cbn [negb].
    + splits; auto. left. rewrite Hpn, app_nil_r. auto.
    + destruct (w_ei w) eqn:Hei; cbn [w_obuf w_enc w_ei w_ez w_sink]; splits; auto.
      right. right. auto.
  - cbn [w_obuf w_enc w_ei w_ez w_sink].
    pose proof (write_all_spec (S (length (ta_produced a))) (w_sink w) (ta_produced a) (w_ez w) (w_ei w) Ht (Nat.lt_succ_diag_r _)) as Hwa.
    destruct Hwa as (m & Hm & Hb & Ht' & Hres).
    set (o := write_all (S (length (ta_produced a))) (w_sink w) (ta_produced a) (w_ez w) (w_ei w)) in *.
    destruct (wa_res o) as [u|e|y|] eqn:Hr; try contradiction; cbn [w_obuf w_enc w_ei w_ez w_sink].
    + destruct Hres as (He & Hcase).
      destruct (ta_ok a) eqn:Hok; cbn [negb].
      * splits; auto.
        destruct Hcase as [(H1 & H2 & H3 & H4)|(H1 & H2 & H3 & H4 & H5 & H6)].
        -- left. subst m. rewrite firstn_all in Hb. auto.
        -- right. auto.
      * destruct (wa_ei o) eqn:Hei; cbn [w_obuf w_enc w_ei w_ez w_sink].
        -- splits; auto.
           destruct Hcase as [(H1 & H2 & H3 & H4)|(H1 & H2 & H3 & H4 & H5 & H6)]; [|congruence].
           right. right. auto.
        -- splits; auto.
           destruct Hcase as [(H1 & H2 & H3 & H4)|(H1 & H2 & _)]; congruence.
    + splits; auto.
      destruct Hres as [(c & H1 & H2 & H3 & H4 & H5)|(H1 & H2 & H3 & [(H4 & H5 & H6 & H7)|(H4 & H5 & H6 & H7 & H8)])].
      * left. exists c. auto.
      * right. left. splits; auto.
      * right. left. splits; auto.
Qed.

(* what the encoder alone does during `write` / `flush_or_close`: no sink in sight *)
Fixpoint ref_write (obuf fuel : nat) (t : tenc estate) (rest : list byte) : tenc estate :=
  match fuel with
  | O => t
  | S f => if length rest =? 0 then t else
           let a := tstep t Process rest obuf in ref_write obuf f (ta_enc a) (skipn (ta_consumed a) rest)
  end.
Fixpoint ref_flush (obuf fuel : nat) (t : tenc estate) (o : op) : tenc estate :=
  match fuel with
  | O => t
  | S f => let a := tstep t o [] obuf in
           match o with
           | Flush => if enc_more (t_st (ta_enc a)) then ref_flush obuf f (ta_enc a) o else ta_enc a
           | _ => if enc_finished (t_st (ta_enc a)) then ta_enc a else ref_flush obuf f (ta_enc a) o
           end
  end.

(* how the sink-side bookkeeping of a writer relates to where the call started:
   either nothing irregular happened (and then the sink holds exactly what it held plus what the
   encoder produced since), or a zero-length write was swallowed because both stored errors were
   already gone - the known class [stored errors exhausted] *)
Definition sink_track (w0 w : writer estate) : Prop :=
  errs w = errs w0 /\
  ((exists d, sink_bytes (w_sink w) = sink_bytes (w_sink w0) ++ d /\ emitted (w_enc w) = emitted (w_enc w0) ++ d) /\
   zeros w = zeros w0 /\ w_ez w = w_ez w0 /\ w_ei w = w_ei w0
   \/ (w_ez w0 = false /\ w_ei w0 = false /\ zeros w0 < zeros w /\ w_ez w = false /\ w_ei w = false)).

Lemma sink_track_refl w : sink_track w w.
Proof. split; [reflexivity|]. left. split; [exists []; rewrite !app_nil_r; auto|auto]. Qed.

Lemma sink_track_step (w0 w w' : writer estate) (p : list byte) :
  sink_track w0 w ->
  emitted (w_enc w') = emitted (w_enc w) ++ p ->
  errs w' = errs w ->
  ((sink_bytes (w_sink w') = sink_bytes (w_sink w) ++ p /\ zeros w' = zeros w /\
    w_ez w' = w_ez w /\ w_ei w' = w_ei w)
   \/ (w_ez w = false /\ w_ei w = false /\ zeros w' = S (zeros w) /\ w_ez w' = false /\ w_ei w' = false)) ->
  sink_track w0 w'.
Proof.
  intros [He Hc] Hem He' Hcase. split; [congruence|].
  destruct Hc as [((d & Hs & Hm) & Hz & Hez & Hei)|(H1 & H2 & H3 & H4 & H5)].
  - destruct Hcase as [(Hs' & Hz' & Hez' & Hei')|(G1 & G2 & G3 & G4 & G5)].
    + left. split; [|splits; congruence].
      exists (d ++ p). rewrite Hs', Hs, Hem, Hm, !app_assoc. auto.
    + right. splits; try congruence. lia.
  - right. splits; auto.
    + destruct Hcase as [(Hs' & Hz' & Hez' & Hei')|(G1 & G2 & G3 & G4 & G5)]; lia.
    + destruct Hcase as [(Hs' & Hz' & Hez' & Hei')|(G1 & G2 & G3 & G4 & G5)]; congruence.
    + destruct Hcase as [(Hs' & Hz' & Hez' & Hei')|(G1 & G2 & G3 & G4 & G5)]; congruence.
Qed.

Lemma zeros_mono_track w0 w : sink_track w0 w -> zeros w0 <= zeros w.
Proof. intros [_ [(_ & H & _)|(_ & _ & H & _)]]; lia. Qed.

(* how an adapter call may report a fault of the sink: with the sink's own error, unchanged, or
   with a stored error standing for a zero-length write *)
Definition err_reported (w0 w' : writer estate) (e : ioerr) : Prop :=
  (exists c, e = EScript c /\ errs w' = c :: errs w0 /\ zeros w0 <= zeros w')
  \/ (errs w' = errs w0 /\ zeros w0 < zeros w' /\ (e = EWriteZero \/ e = EInvalidData)).

Definition write_loop_post (w0 w : writer estate) (rest : list byte) (fuel : nat)
  (x : res unit * writer estate) : Prop :=
  match x with
  | (Ok _, w') =>
    sink_track w0 w' /\ w_obuf w' = w_obuf w /\ tail_ok (k_script (w_sink w')) /\
    fed (w_enc w') = fed (w_enc w) ++ rest /\ accepting (t_st (w_enc w')) = true /\
    w_enc w' = ref_write (w_obuf w) fuel (w_enc w) rest /\
    potential (t_st (w_enc w')) <= potential (t_st (w_enc w)) + G * length rest
  | (Err e, w') => err_reported w0 w' e
  | (Panic _, _) => False
  | (OutOfFuel, _) => False
  end.

Lemma write_loop_spec (w0 : writer estate) : forall fuel (w : writer estate) rest,
  sink_track w0 w -> tail_ok (k_script (w_sink w)) -> 0 < w_obuf w ->
  accepting (t_st (w_enc w)) = true ->
  potential (t_st (w_enc w)) + (G + 1) * length rest + 1 <= fuel ->
  write_loop_post w0 w rest fuel (write_loop enc_step fuel w rest).
Proof.
  induction fuel as [|f IH]; intros w rest Htr Ht Hob Hacc Hf; [lia|].
  cbn [write_loop ref_write].
  destruct (Nat.eqb_spec (length rest) 0) as [Hr0|Hr0].
  - cbn [write_loop_post].
    assert (rest = []) by (destruct rest; [reflexivity|cbn in Hr0; lia]). subst rest.
    rewrite app_nil_r. splits; auto. lia.
  - set (a := tstep (w_enc w) Process rest (w_obuf w)).
    pose proof (hand_over_spec w a Ht) as Hh.
    destruct (c_accept_process HC (t_st (w_enc w)) rest (w_obuf w) Hacc) as [Hok Hacc'].
    assert (Hoka : ta_ok a = true) by exact Hok.
    assert (Hc : ta_consumed a <= length rest) by (apply (c_consumed HC)).
    assert (Hpot : potential (t_st (ta_enc a)) + length (ta_produced a) <= potential (t_st (w_enc w)) + G * ta_consumed a)
      by (apply (c_potential HC)).
    assert (Hne : rest <> []) by (intros Hx; subst rest; cbn in Hr0; lia).
    assert (Hprog : 0 < ta_consumed a \/ ta_produced a <> []) by (apply (c_progress_process HC); auto).
    destruct (hand_over w a) as [[r|] w'].
    + destruct Hh as (Ho & He & Ht' & Hh).
      destruct r as [u|e|y|]; try contradiction; [|destruct Hh; congruence].
      cbn [write_loop_post]. destruct Htr as [Hes Htr].
      destruct Hh as [(c & H1 & H2 & H3)|[(H1 & H2 & H3)|(H1 & _)]]; [| |congruence].
      * left. exists c. splits; auto; try congruence.
        pose proof (zeros_mono_track w0 w (conj Hes Htr)). lia.
      * right. pose proof (zeros_mono_track w0 w (conj Hes Htr)). splits; try congruence; try lia.
        destruct H3 as [[H3 _]|[H3 _]]; auto.
    + destruct Hh as (Ho & He & Ht' & _ & Hes & Hcase).
      assert (Htr' : sink_track w0 w').
      { apply (sink_track_step w0 w w' (ta_produced a)); auto.
        rewrite He. apply tstep_emitted. }
      assert (Hfuel : potential (t_st (w_enc w')) + (G + 1) * length (skipn (ta_consumed a) rest) + 1 <= f).
      { rewrite He, skipn_length.
        assert (length (ta_produced a) = 0 -> ta_produced a = []) by (destruct (ta_produced a); [auto|discriminate]).
        assert (0 < ta_consumed a \/ 0 < length (ta_produced a)) by (destruct Hprog; [auto|right; destruct (ta_produced a); [congruence|cbn; lia]]).
        nia. }
      assert (Hacc2 : accepting (t_st (w_enc w')) = true) by (rewrite He; exact Hacc').
      specialize (IH w' (skipn (ta_consumed a) rest) Htr' Ht' ltac:(lia) Hacc2 Hfuel).
      unfold write_loop_post in IH |- *.
      destruct (write_loop enc_step f w' (skipn (ta_consumed a) rest)) as [[u|e|y|] w'']; try contradiction; [|exact IH].
      destruct IH as (I1 & I2 & I3 & I4 & I5 & I6 & I7).
      splits; auto; try congruence.
      * rewrite I4, He. unfold a at 1. rewrite tstep_fed. fold a. rewrite <- app_assoc. f_equal.
        apply firstn_skipn.
      * cbn [ref_write]. destruct (Nat.eqb_spec (length rest) 0) as [Hx|_]; [lia|]. fold a.
        rewrite I6, Ho, He. reflexivity.
      * rewrite He, skipn_length in I7. nia.
Qed.

(* termination of `write` does not depend on the encoder accepting input: a refused call ends it *)
Lemma write_loop_returns : forall fuel (w : writer estate) rest,
  tail_ok (k_script (w_sink w)) -> 0 < w_obuf w ->
  potential (t_st (w_enc w)) + (G + 1) * length rest + 1 <= fuel ->
  fst (write_loop enc_step fuel w rest) <> OutOfFuel.
Proof.
  induction fuel as [|f IH]; intros w rest Ht Hob Hf; [lia|].
  cbn [write_loop].
  destruct (Nat.eqb_spec (length rest) 0) as [Hr0|Hr0]; [cbn; discriminate|].
  set (a := tstep (w_enc w) Process rest (w_obuf w)).
  pose proof (hand_over_spec w a Ht) as Hh.
  destruct (hand_over w a) as [[r|] w'].
  - destruct Hh as (_ & _ & _ & Hh). destruct r; cbn; try discriminate. contradiction.
  - destruct Hh as (Ho & He & Ht' & Hok & _).
    assert (Hc : ta_consumed a <= length rest) by (apply (c_consumed HC)).
    assert (Hpot : potential (t_st (ta_enc a)) + length (ta_produced a) <= potential (t_st (w_enc w)) + G * ta_consumed a)
      by (apply (c_potential HC)).
    assert (Hne : rest <> []) by (intros Hx; subst rest; cbn in Hr0; lia).
    assert (Hprog : 0 < ta_consumed a \/ ta_produced a <> []) by (apply (c_progress_process HC); auto).
    apply IH; auto; try lia.
    rewrite He, skipn_length.
    assert (0 < ta_consumed a \/ 0 < length (ta_produced a)) by (destruct Hprog; [auto|right; destruct (ta_produced a); [congruence|cbn; lia]]).
    nia.
Qed.

Definition may_accept (s : estate) : Prop := live s = true.

Definition flush_post (w0 w : writer estate) (o : op) (fuel : nat) (x : res unit * writer estate) : Prop :=
  match x with
  | (Ok _, w') =>
    sink_track w0 w' /\ w_obuf w' = w_obuf w /\ tail_ok (k_script (w_sink w')) /\
    fed (w_enc w') = fed (w_enc w) /\
    (o = Flush -> enc_more (t_st (w_enc w')) = false /\
                  (may_accept (t_st (w_enc w)) -> accepting (t_st (w_enc w')) = true)) /\
    (o = Finish -> enc_finished (t_st (w_enc w')) = true) /\
    w_enc w' = ref_flush (w_obuf w) fuel (w_enc w) o /\
    potential (t_st (w_enc w')) <= potential (t_st (w_enc w))
  | (Err e, w') => err_reported w0 w' e
  | (Panic _, _) => False
  | (OutOfFuel, _) => False
  end.

Lemma flush_or_close_spec (w0 : writer estate) (o : op) : o <> Process ->
  forall fuel (w : writer estate),
  sink_track w0 w -> tail_ok (k_script (w_sink w)) -> 0 < w_obuf w ->
  potential (t_st (w_enc w)) + 1 <= fuel ->
  flush_post w0 w o fuel (flush_or_close enc_step enc_finished enc_more fuel w o).
Proof.
  intros Hop. induction fuel as [|f IH]; intros w Htr Ht Hob Hf; [lia|].
  cbn [flush_or_close]. unfold flush_post. cbn [ref_flush].
  set (a := tstep (w_enc w) o [] (w_obuf w)).
  pose proof (hand_over_spec w a Ht) as Hh.
  assert (Hoka : ta_ok a = true) by (apply (c_accept_empty HC); exact Hop).
  assert (Hc : ta_consumed a = 0).
  { pose proof (c_consumed HC (t_st (w_enc w)) o [] (w_obuf w)) as H. cbn in H. unfold a, IO.tstep. cbn [ta_consumed]. lia. }
  assert (Hpot : potential (t_st (ta_enc a)) + length (ta_produced a) <= potential (t_st (w_enc w))).
  { pose proof (c_potential HC (t_st (w_enc w)) o [] (w_obuf w)) as H.
    unfold a, IO.tstep in Hc |- *. cbn [ta_consumed ta_enc t_st ta_produced] in *. rewrite Hc in H. lia. }
  assert (Hfed : fed (ta_enc a) = fed (w_enc w)).
  { unfold a. rewrite tstep_fed. fold a. rewrite Hc. cbn. apply app_nil_r. }
  destruct (hand_over w a) as [[r|] w'].
  - destruct Hh as (Ho & He & Ht' & Hh).
    destruct r as [u|e|y|]; try contradiction; [|destruct Hh; congruence].
    cbn [flush_post]. destruct Htr as [Hes Htr].
    pose proof (zeros_mono_track w0 w (conj Hes Htr)).
    destruct Hh as [(c & H1 & H2 & H3)|[(H1 & H2 & H3)|(H1 & _)]]; [| |congruence].
    + left. exists c. splits; auto; try congruence; lia.
    + right. splits; try congruence; try lia. destruct H3 as [[H3 _]|[H3 _]]; auto.
  - destruct Hh as (Ho & He & Ht' & _ & Hes & Hcase).
    assert (Htr' : sink_track w0 w').
    { apply (sink_track_step w0 w w' (ta_produced a)); auto. rewrite He. apply tstep_emitted. }
    assert (Hrec : potential (t_st (w_enc w')) + 1 <= f \/ ta_produced a = []).
    { destruct (ta_produced a) eqn:Hp; [right; reflexivity|left]. rewrite He. cbn [length] in Hpot. lia. }
    rewrite He. cbn [t_st].
    destruct o; [congruence| |].
    + (* Flush *)
      destruct (enc_more (t_st (ta_enc a))) eqn:Hmore.
      * assert (Hf' : potential (t_st (w_enc w')) + 1 <= f).
        { destruct Hrec as [H|H]; [exact H|].
          destruct (c_progress_flush HC (t_st (w_enc w)) (w_obuf w) Hob) as [Hx|Hx].
          - unfold a, IO.tstep in H. cbn [ta_produced] in H. congruence.
          - unfold a, IO.tstep in Hmore. cbn [ta_enc t_st] in Hmore. congruence. }
        specialize (IH w' Htr' Ht' ltac:(lia) Hf'). unfold flush_post in IH |- *.
        destruct (flush_or_close enc_step enc_finished enc_more f w' Flush) as [[u|e|y|] w'']; try contradiction; [|exact IH].
        destruct IH as (I1 & I2 & I3 & I4 & I5 & I6 & I7 & I8).
        splits; auto; try congruence; try lia.
        all: try (rewrite ?Hmore, I7, Ho, He; reflexivity).
        all: try (rewrite He in I8; lia).
        all: intros _; destruct (I5 eq_refl) as [J1 J2]; split; [exact J1|];
          intros Hma; apply J2; rewrite He; unfold a, IO.tstep; cbn [ta_enc t_st];
          apply (c_flush_keeps HC); exact Hma.
      * cbn [flush_post]. rewrite ?Hmore. splits; auto; try congruence; try lia.
        all: try (intros Hx; discriminate).
        all: try (rewrite He; lia).
        all: intros _; rewrite He; split; [exact Hmore|];
          intros Hma; unfold a, IO.tstep in Hmore |- *; cbn [ta_enc t_st] in *;
          apply (c_flush_done HC); auto.
    + (* Finish *)
      destruct (enc_finished (t_st (ta_enc a))) eqn:Hfin.
      * cbn [flush_post]. rewrite ?Hfin. splits; auto; try congruence; try lia.
        all: try (intros Hx; discriminate).
        all: try (rewrite He; lia).
        all: intros _; rewrite He; exact Hfin.
      * assert (Hf' : potential (t_st (w_enc w')) + 1 <= f).
        { destruct Hrec as [H|H]; [exact H|].
          destruct (c_progress_finish HC (t_st (w_enc w)) (w_obuf w) Hob) as [Hx|Hx].
          - unfold a, IO.tstep in H. cbn [ta_produced] in H. congruence.
          - unfold a, IO.tstep in Hfin. cbn [ta_enc t_st] in Hfin. congruence. }
        specialize (IH w' Htr' Ht' ltac:(lia) Hf'). unfold flush_post in IH |- *.
        destruct (flush_or_close enc_step enc_finished enc_more f w' Finish) as [[u|e|y|] w'']; try contradiction; [|exact IH].
        destruct IH as (I1 & I2 & I3 & I4 & I5 & I6 & I7 & I8).
        splits; auto; try congruence; try lia.
        all: try (intros Hx; discriminate).
        all: try (rewrite ?Hfin, I7, Ho, He; reflexivity).
        all: try (rewrite He in I8; lia).
Qed.

(* -- outside the known class [stored errors exhausted] (i.e. while error_if_invalid_data is still
      there) no call of the writer panics and no zero-length write is swallowed, whatever state the
      encoder is in *)
Definition known_quiet (w : writer estate) (x : res unit * writer estate) : Prop :=
  match x with
  | (Panic _, _) => False
  | (Ok _, w') => zeros w' = zeros w /\ errs w' = errs w /\ w_ei w' = true
  | _ => True
  end.

Lemma write_loop_known : forall fuel (w : writer estate) rest,
  tail_ok (k_script (w_sink w)) -> w_ei w = true -> known_quiet w (write_loop enc_step fuel w rest).
Proof.
  induction fuel as [|f IH]; intros w rest Ht Hei; [exact I|].
  cbn [write_loop]. destruct (length rest =? 0); [cbn; auto|].
  set (a := tstep (w_enc w) Process rest (w_obuf w)).
  pose proof (hand_over_spec w a Ht) as Hh.
  destruct (hand_over w a) as [[r|] w'].
  - destruct Hh as (_ & _ & _ & Hh). destruct r as [u|e|y|]; try contradiction; cbn; auto.
    destruct Hh; congruence.
  - destruct Hh as (_ & _ & Ht' & _ & Hes & [(H1 & H2 & H3 & H4)|(H1 & H2 & _)]); [|congruence].
    specialize (IH w' (skipn (ta_consumed a) rest) Ht' ltac:(congruence)).
    unfold known_quiet in *.
    destruct (write_loop enc_step f w' (skipn (ta_consumed a) rest)) as [[u|e|y|] w'']; auto.
    destruct IH as (I1 & I2 & I3). splits; congruence.
Qed.

Lemma flush_or_close_known : forall fuel (w : writer estate) o,
  tail_ok (k_script (w_sink w)) -> w_ei w = true ->
  known_quiet w (flush_or_close enc_step enc_finished enc_more fuel w o).
Proof.
  induction fuel as [|f IH]; intros w o Ht Hei; [exact I|].
  cbn [flush_or_close].
  set (a := tstep (w_enc w) o [] (w_obuf w)).
  pose proof (hand_over_spec w a Ht) as Hh.
  destruct (hand_over w a) as [[r|] w'].
  - destruct Hh as (_ & _ & _ & Hh). destruct r as [u|e|y|]; try contradiction; cbn; auto.
    destruct Hh; congruence.
  - destruct Hh as (_ & _ & Ht' & _ & Hes & [(H1 & H2 & H3 & H4)|(H1 & H2 & _)]); [|congruence].
    assert (Hrec : known_quiet w (flush_or_close enc_step enc_finished enc_more f w' o)).
    { specialize (IH w' o Ht' ltac:(congruence)). unfold known_quiet in *.
      destruct (flush_or_close enc_step enc_finished enc_more f w' o) as [[u|e|y|] w'']; auto.
      destruct IH as (I1 & I2 & I3). splits; congruence. }
    destruct o.
    + destruct (enc_finished (t_st (w_enc w'))); [cbn; splits; congruence|exact Hrec].
    + destruct (enc_more (t_st (w_enc w'))); [exact Hrec|cbn; splits; congruence].
    + destruct (enc_finished (t_st (w_enc w'))); [cbn; splits; congruence|exact Hrec].
Qed.

(* -- the three public operations *)
Definition write_fuel (w : writer estate) (buf : list byte) : nat :=
  potential (t_st (w_enc w)) + (G + 1) * length buf + 1.
Definition flush_fuel (w : writer estate) : nat := potential (t_st (w_enc w)) + 1.

Definition wready (w : writer estate) : Prop := tail_ok (k_script (w_sink w)) /\ 0 < w_obuf w.

Definition write_post (w : writer estate) (buf : list byte) (fuel : nat) (x : res nat * writer estate) : Prop :=
  match x with
  | (Ok n, w') =>
    n = length buf /\ sink_track w w' /\ wready w' /\ w_obuf w' = w_obuf w /\
    fed (w_enc w') = fed (w_enc w) ++ buf /\ accepting (t_st (w_enc w')) = true /\
    w_enc w' = ref_write (w_obuf w) fuel (w_enc w) buf /\
    potential (t_st (w_enc w')) <= potential (t_st (w_enc w)) + G * length buf
  | (Err e, w') => err_reported w w' e
  | (Panic _, _) => False
  | (OutOfFuel, _) => False
  end.

Lemma write_spec (w : writer estate) buf fuel :
  wready w -> accepting (t_st (w_enc w)) = true -> write_fuel w buf <= fuel ->
  write_post w buf fuel (write enc_step fuel w buf).
Proof.
  intros [Ht Hob] Hacc Hf. unfold write.
  pose proof (write_loop_spec w fuel w buf (sink_track_refl w) Ht Hob Hacc Hf) as H.
  destruct (write_loop enc_step fuel w buf) as [[u|e|y|] w']; cbn [write_loop_post write_post] in *; try contradiction; [|exact H].
  destruct H as (H1 & H2 & H3 & H4 & H5 & H6 & H7). unfold wready. splits; auto. lia.
Qed.

Lemma write_returns (w : writer estate) buf fuel :
  wready w -> write_fuel w buf <= fuel -> fst (write enc_step fuel w buf) <> OutOfFuel.
Proof.
  intros [Ht Hob] Hf. unfold write.
  pose proof (write_loop_returns fuel w buf Ht Hob Hf) as H.
  destruct (write_loop enc_step fuel w buf) as [[u|e|y|] w']; cbn in *; congruence.
Qed.

Lemma sink_flush_spec k :
  tail_ok (k_script k) ->
  match sink_flush k with
  | (WAccept _, k') => sink_bytes k' = sink_bytes k /\ tail_ok (k_script k') /\
                       log_errs (k_log k') = log_errs (k_log k) /\ log_zero_writes (k_log k') = log_zero_writes (k_log k)
  | (WFail e, k') => sink_bytes k' = sink_bytes k /\ tail_ok (k_script k') /\
                     log_errs (k_log k') = e :: log_errs (k_log k) /\ log_zero_writes (k_log k') = log_zero_writes (k_log k)
  | (WSpin, _) => False
  end.
Proof.
  intros Ht. unfold sink_flush, sink_bytes, tail_ok in *.
  pose proof (sink_flush_go_spec (s_list (k_script k)) (s_tail (k_script k)) (k_got k) (k_log k) Ht) as H.
  destruct (sink_flush_go _ _ _ _) as [[n|e|] k']; [| |exact H].
  - destruct H as (H1 & H2 & H3 & H4). rewrite H1, H2. auto.
  - destruct H as (H1 & H2 & H3 & H4). rewrite H1, H2. auto.
Qed.

Definition flush_call_post (w : writer estate) (fuel : nat) (x : res unit * writer estate) : Prop :=
  match x with
  | (Ok _, w') =>
    sink_track w w' /\ wready w' /\ w_obuf w' = w_obuf w /\ fed (w_enc w') = fed (w_enc w) /\
    enc_more (t_st (w_enc w')) = false /\
    (may_accept (t_st (w_enc w)) -> accepting (t_st (w_enc w')) = true) /\
    w_enc w' = ref_flush (w_obuf w) fuel (w_enc w) Flush /\
    potential (t_st (w_enc w')) <= potential (t_st (w_enc w))
  | (Err e, w') => err_reported w w' e
  | (Panic _, _) => False
  | (OutOfFuel, _) => False
  end.

Lemma flush_spec (w : writer estate) fuel :
  wready w -> flush_fuel w <= fuel ->
  flush_call_post w fuel (flush enc_step enc_finished enc_more fuel w).
Proof.
  intros [Ht Hob] Hf. unfold flush.
  pose proof (flush_or_close_spec w Flush ltac:(discriminate) fuel w (sink_track_refl w) Ht Hob Hf) as H.
  destruct (flush_or_close enc_step enc_finished enc_more fuel w Flush) as [[u|e|y|] w'];
    cbn [flush_post flush_call_post] in *; try contradiction; [|exact H].
  destruct H as (H1 & H2 & H3 & H4 & H5 & H6 & H7 & H8).
  pose proof (sink_flush_spec (w_sink w') H3) as Hs.
  destruct (sink_flush (w_sink w')) as [[n|e|] k']; [| |contradiction].
  - destruct Hs as (S1 & S2 & S3 & S4). cbn [flush_call_post].
    destruct (H5 eq_refl) as [H5a H5b].
    unfold wready. cbn [w_sink w_obuf w_enc]. splits; auto; try lia.
    destruct H1 as [E1 T1]. unfold sink_track, errs, zeros in *. cbn [w_sink w_enc w_ez w_ei].
    rewrite S1, S3, S4. split; auto.
  - destruct Hs as (S1 & S2 & S3 & S4). cbn [flush_call_post].
    left. exists e. unfold errs, zeros. cbn [w_sink]. rewrite S3, S4.
    destruct H1 as [E1 T1]. split; [reflexivity|]. split; [unfold errs in E1; congruence|].
    apply (zeros_mono_track w w'). split; auto.
Qed.

(* close (into_inner / Drop): [vis] is what the caller sees - there is no way to report a
   failure - and [ghost] is the result of flush_or_close that the code discards *)
Definition close_post (w : writer estate) (fuel : nat) (x : res unit * res unit * writer estate) : Prop :=
  match x with
  | (vis, Ok _, w') =>
    vis = Ok tt /\ sink_track w w' /\ fed (w_enc w') = fed (w_enc w) /\
    enc_finished (t_st (w_enc w')) = true /\ w_enc w' = ref_flush (w_obuf w) fuel (w_enc w) Finish
  | (vis, Err e, w') => vis = Ok tt /\ err_reported w w' e      (* reported to nobody *)
  | (_, Panic _, _) => False
  | (_, OutOfFuel, _) => False
  end.

Lemma close_spec (w : writer estate) fuel :
  wready w -> flush_fuel w <= fuel -> close_post w fuel (close enc_step enc_finished enc_more fuel w).
Proof.
  intros [Ht Hob] Hf. unfold close.
  pose proof (flush_or_close_spec w Finish ltac:(discriminate) fuel w (sink_track_refl w) Ht Hob Hf) as H.
  destruct (flush_or_close enc_step enc_finished enc_more fuel w Finish) as [[u|e|y|] w'];
    cbn [flush_post close_post] in *; try contradiction.
  - destruct H as (H1 & H2 & H3 & H4 & H5 & H6 & H7 & H8). splits; auto.
  - auto.
Qed.

(* -- a whole session on a fresh writer: if every call the caller can see succeeded and the sink
      never answered an error or a zero-length write (this excludes the one thing the caller cannot
      see: a failure during into_inner / Drop), the sink holds everything the encoder produced, the
      encoder is finished, and it was fed exactly the concatenation of the written buffers - for
      every script of short writes and interrupts *)
Fixpoint written (ops : list wop) : list byte :=
  match ops with
  | [] => []
  | WWrite b :: l => b ++ written l
  | WFlush :: l => written l
  | WClose :: _ => []
  end.
Fixpoint closes (ops : list wop) : bool :=
  match ops with [] => false | WClose :: _ => true | _ :: l => closes l end.

Definition wclean (w : writer estate) : Prop :=
  wready w /\ accepting (t_st (w_enc w)) = true /\ w_ez w = true /\ w_ei w = true /\
  sink_bytes (w_sink w) = emitted (w_enc w).

Definition session_fuel (w : writer estate) (ops : list wop) : nat :=
  potential (t_st (w_enc w)) + (G + 1) * length (written ops) + 1.

Lemma clean_track (w w' : writer estate) :
  wclean w -> sink_track w w' ->
  errs w' = errs w /\ zeros w' = zeros w /\ w_ez w' = true /\ w_ei w' = true /\
  sink_bytes (w_sink w') = emitted (w_enc w').
Proof.
  intros (_ & _ & Hez & Hei & Hs) [He [((d & H1 & H2) & H3 & H4 & H5)|(H1 & _)]]; [|congruence].
  splits; auto; try congruence.
Qed.

Lemma write_session_complete : forall ops fuel (w : writer estate),
  wclean w -> session_fuel w ops <= fuel -> closes ops = true ->
  let (rs, w') := write_session enc_step enc_finished enc_more fuel ops w in
  Forall (fun r => r = Ok tt) rs -> errs w' = errs w -> zeros w' = zeros w ->
  enc_finished (t_st (w_enc w')) = true /\ sink_bytes (w_sink w') = emitted (w_enc w') /\
  fed (w_enc w') = fed (w_enc w) ++ written ops.
Proof.
  induction ops as [|o ops IH]; intros fuel w Hcl Hf Hc; [discriminate|].
  pose proof Hcl as (Hr & Hacc & Hez & Hei & Hs).
  destruct o as [b| |]; cbn [write_session].
  - (* write *)
    assert (Hwf : write_fuel w b <= fuel).
    { unfold write_fuel, session_fuel in *. cbn [written] in Hf. rewrite app_length in Hf. nia. }
    pose proof (write_spec w b fuel Hr Hacc Hwf) as Hw.
    destruct (write enc_step fuel w b) as [[n|e|y|] w1]; cbn [write_post] in Hw; try contradiction.
    + destruct Hw as (Hn & Htr & Hr1 & Ho1 & Hfed1 & Hacc1 & _ & Hpot1).
      destruct (clean_track w w1 Hcl Htr) as (E1 & Z1 & Ez1 & Ei1 & S1).
      assert (Hcl1 : wclean w1) by (unfold wclean; auto).
      assert (Hf1 : session_fuel w1 ops <= fuel).
      { unfold session_fuel in *. cbn [written] in Hf. rewrite app_length in Hf. nia. }
      specialize (IH fuel w1 Hcl1 Hf1 Hc). cbn [stops].
      destruct (write_session enc_step enc_finished enc_more fuel ops w1) as [rs w'].
      intros Hall He Hz. inversion Hall as [|? ? _ Hall']; subst.
      rewrite <- E1 in He. rewrite <- Z1 in Hz.
      destruct (IH Hall' He Hz) as (I1 & I2 & I3).
      splits; auto. rewrite I3, Hfed1. cbn [written]. apply app_assoc_reverse.
    + cbn [stops res_forget].
      destruct (write_session enc_step enc_finished enc_more fuel ops w1) as [rs w'].
      intros Hall. inversion Hall as [|? ? Hx _]. discriminate.
  - (* flush *)
    assert (Hff : flush_fuel w <= fuel) by (unfold flush_fuel, session_fuel in *; lia).
    pose proof (flush_spec w fuel Hr Hff) as Hw.
    destruct (flush enc_step enc_finished enc_more fuel w) as [[u|e|y|] w1]; cbn [flush_call_post] in Hw; try contradiction.
    + destruct Hw as (Htr & Hr1 & Ho1 & Hfed1 & _ & Hacc1 & _ & Hpot1).
      destruct (clean_track w w1 Hcl Htr) as (E1 & Z1 & Ez1 & Ei1 & S1).
      assert (Hcl1 : wclean w1).
      { unfold wclean. splits; auto. apply Hacc1. apply (c_live HC). exact Hacc. }
      assert (Hf1 : session_fuel w1 ops <= fuel).
      { unfold session_fuel in *. cbn [written] in Hf. lia. }
      specialize (IH fuel w1 Hcl1 Hf1 Hc). cbn [stops].
      destruct (write_session enc_step enc_finished enc_more fuel ops w1) as [rs w'].
      intros Hall He Hz. inversion Hall as [|? ? _ Hall']; subst.
      rewrite <- E1 in He. rewrite <- Z1 in Hz.
      destruct (IH Hall' He Hz) as (I1 & I2 & I3).
      splits; auto. rewrite I3, Hfed1. reflexivity.
    + cbn [stops].
      destruct (write_session enc_step enc_finished enc_more fuel ops w1) as [rs w'].
      intros Hall. inversion Hall as [|? ? Hx _]. discriminate.
  - (* close *)
    assert (Hff : flush_fuel w <= fuel) by (unfold flush_fuel, session_fuel in *; lia).
    pose proof (close_spec w fuel Hr Hff) as Hw.
    destruct (close enc_step enc_finished enc_more fuel w) as [[vis gh] w1].
    destruct gh as [u|e|y|]; cbn [close_post] in Hw; try contradiction.
    + destruct Hw as (_ & Htr & Hfed1 & Hfin & _).
      destruct (clean_track w w1 Hcl Htr) as (E1 & Z1 & Ez1 & Ei1 & S1).
      intros _ _ _. cbn [written]. rewrite app_nil_r. auto.
    + destruct Hw as (_ & [(c & _ & Hx & _)|(_ & Hx & _)]); intros _ He Hz.
      * rewrite He in Hx. exfalso. clear -Hx. induction (errs w); [discriminate|]. inversion Hx. auto.
      * lia.
Qed.

(* ------------------------------------------------------------------ enc/mod.rs: the copy adapter *)

Definition kzeros (k : sink) : nat := log_zero_writes (k_log k).
Definition kerrs (k : sink) : list N := log_errs (k_log k).

Lemma copy_drain_spec : forall fuel (c : copier estate) lim,
  tail_ok (k_script (c_sink c)) -> c_out_off c <= lim -> lim <= length (c_obuf c) ->
  lim - c_out_off c < fuel ->
  match copy_drain true fuel c lim with
  | (Ok _, c') =>
    c' = set_sink c (c_sink c') lim /\ tail_ok (k_script (c_sink c')) /\
    sink_bytes (c_sink c') = sink_bytes (c_sink c) ++ firstn (lim - c_out_off c) (skipn (c_out_off c) (c_obuf c)) /\
    kerrs (c_sink c') = kerrs (c_sink c) /\ kzeros (c_sink c') = kzeros (c_sink c)
  | (Err e, c') =>
    c' = set_sink c (c_sink c') (c_out_off c') /\ tail_ok (k_script (c_sink c')) /\
    ((exists code, e = first_err c (EScript code) /\ kerrs (c_sink c') = code :: kerrs (c_sink c) /\
                   kzeros (c_sink c') = kzeros (c_sink c))
     \/ (e = first_err c EUnexpectedEof /\ kerrs (c_sink c') = kerrs (c_sink c) /\
         kzeros (c_sink c') = S (kzeros (c_sink c))))
  | (Panic _, _) => False
  | (OutOfFuel, _) => False
  end.
Proof.
  induction fuel as [|f IH]; intros c lim Ht Hol Hll Hf; [lia|].
  cbn [copy_drain].
  destruct (Nat.leb_spec lim (c_out_off c)) as [Hle|Hlt].
  - assert (c_out_off c = lim) by lia. subst lim. rewrite Nat.sub_diag. cbn [firstn]. rewrite app_nil_r.
    splits; auto. destruct c; reflexivity.
  - set (d := firstn (lim - c_out_off c) (skipn (c_out_off c) (c_obuf c))).
    assert (Hd : length d = lim - c_out_off c).
    { unfold d. rewrite firstn_length, skipn_length. lia. }
    pose proof (sink_write_spec (c_sink c) d Ht) as Hs.
    destruct (sink_write (c_sink c) d) as [[n|e|] k']; [| |contradiction].
    + destruct Hs as (Hn & Hb & Ht' & He & Hz). cbn [andb].
      destruct (Nat.eqb_spec n 0) as [Hn0|Hn0].
      * subst n. cbn [set_sink c_sink c_out_off]. splits; auto.
        right. unfold kerrs, kzeros. splits; auto.
        rewrite Hz. unfold zero_answer. rewrite Hd.
        destruct (Nat.ltb_spec 0 (lim - c_out_off c)); [reflexivity|lia].
      * specialize (IH (set_sink c k' (c_out_off c + n)) lim).
        cbn [set_sink c_sink c_out_off c_obuf] in IH.
        specialize (IH Ht' ltac:(lia) Hll ltac:(lia)).
        destruct (copy_drain true f (set_sink c k' (c_out_off c + n)) lim) as [[u|e|y|] c']; try contradiction.
        -- destruct IH as (I1 & I2 & I3 & I4 & I5).
           split; [etransitivity; [exact I1|reflexivity]|]. split; [exact I2|].
           split.
           { rewrite I3, Hb, <- app_assoc. f_equal.
             assert (Hsplit : d = firstn n (skipn (c_out_off c) (c_obuf c)) ++
                                  firstn (lim - (c_out_off c + n)) (skipn (c_out_off c + n) (c_obuf c))).
             { unfold d. replace (lim - c_out_off c) with (n + (lim - (c_out_off c + n))) by lia. apply window_split. }
             assert (Hfn : firstn n d = firstn n (skipn (c_out_off c) (c_obuf c))).
             { unfold d. rewrite firstn_firstn, Nat.min_l by lia. reflexivity. }
             rewrite Hfn. symmetry. exact Hsplit. }
           split; [unfold kerrs in *; congruence|].
           unfold kzeros in *. rewrite I5, Hz. unfold zero_answer.
           destruct (Nat.eqb_spec n 0); [lia|]. reflexivity.
        -- destruct IH as (I1 & I2 & I3).
           split; [etransitivity; [exact I1|reflexivity]|]. split; [exact I2|].
           assert (Hz0 : kzeros k' = kzeros (c_sink c)).
           { unfold kzeros. rewrite Hz. unfold zero_answer. destruct (Nat.eqb_spec n 0); [lia|]. reflexivity. }
           unfold kerrs in *. unfold first_err in *. cbn [set_sink c_read_err] in I3.
           destruct I3 as [(code & J1 & J2 & J3)|(J1 & J2 & J3)].
           ++ left. exists code. splits; auto; congruence.
           ++ right. splits; auto; congruence.
    + destruct Hs as (Hb & Ht' & He & Hz). cbn [set_sink c_sink c_out_off]. splits; auto.
      left. exists e. unfold kerrs, kzeros. auto.
Qed.

Definition pend_in (c : copier estate) : list byte :=
  firstn (c_avail_in c) (skipn (c_in_off c) (c_ibuf c)).
Definition pend_out (c : copier estate) : list byte := firstn (c_out_off c) (c_obuf c).

(* the loop invariant of the copy adapter (at the head of `loop { .. }`), relative to what the
   wrapped streams had logged when the call started *)
Definition CInv (st0 : estate) (L0 K0 : list N) (Z0 : nat) (c : copier estate) : Prop :=
  0 < length (c_ibuf c) /\ 0 < length (c_obuf c) /\
  c_in_off c + c_avail_in c <= length (c_ibuf c) /\
  c_out_off c + c_avail_out c = length (c_obuf c) /\
  tail_ok (src_script (c_src c)) /\ tail_ok (k_script (c_sink c)) /\
  src_taken_bytes (c_src c) = fed (c_enc c) ++ pend_in c /\
  emitted (c_enc c) = sink_bytes (c_sink c) ++ pend_out c /\
  c_total c = N.of_nat (length (emitted (c_enc c))) /\
  (accepting (t_st (c_enc c)) = true \/ (c_eof c = true /\ c_avail_in c = 0)) /\
  ((c_read_err c = None /\ log_errs (src_log (c_src c)) = L0) \/
   (exists code, c_read_err c = Some (EScript code) /\ log_errs (src_log (c_src c)) = code :: L0 /\
                 c_eof c = true /\ c_avail_in c = 0)) /\
  kerrs (c_sink c) = K0 /\ kzeros (c_sink c) = Z0 /\
  ReachPF st0 (c_enc c).

Definition copy_measure (c : copier estate) : nat :=
  (G + 1) * (length (src_rest (c_src c)) + c_avail_in c) + potential (t_st (c_enc c)).

Lemma firstn_write_at_end (buf : list byte) pos d :
  pos + length d <= length buf -> firstn (pos + length d) (write_at buf pos d) = firstn pos buf ++ d.
Proof.
  intros H. unfold write_at. rewrite firstn_app, firstn_length, Nat.min_l by lia.
  rewrite firstn_all2 by (rewrite firstn_length; lia).
  replace (pos + length d - pos) with (length d) by lia.
  rewrite firstn_app_exact by reflexivity. reflexivity.
Qed.

Lemma copy_fill_spec st0 L0 K0 Z0 (c : copier estate) :
  CInv st0 L0 K0 Z0 c -> enc_finished (t_st (c_enc c)) = false ->
  exists c1, copy_fill c = Some c1 /\ CInv st0 L0 K0 Z0 c1 /\
    (c_avail_in c1 = 0 -> c_eof c1 = true) /\
    length (src_rest (c_src c1)) + c_avail_in c1 = length (src_rest (c_src c)) + c_avail_in c /\
    c_enc c1 = c_enc c /\ c_avail_out c1 = c_avail_out c /\ length (c_obuf c1) = length (c_obuf c).
Proof.
  intros (Hi & Ho & Hin & Hout & Hts & Htk & Htaken & Hem & Htot & Hacc & Hre & Hke & Hkz & Hreach) Hnf.
  unfold copy_fill.
  destruct ((c_avail_in c =? 0) && negb (c_eof c)) eqn:Hc.
  - apply andb_true_iff in Hc. destruct Hc as [Hc1 Hc2]. apply Nat.eqb_eq in Hc1. apply negb_true_iff in Hc2.
    assert (Hpi : pend_in c = []) by (unfold pend_in; rewrite Hc1; reflexivity).
    assert (Hacc' : accepting (t_st (c_enc c)) = true) by (destruct Hacc as [H|[H _]]; [exact H|congruence]).
    assert (Hre' : c_read_err c = None /\ log_errs (src_log (c_src c)) = L0).
    { destruct Hre as [H|(code & _ & _ & H & _)]; [exact H|congruence]. }
    destruct Hre' as [Hre1 Hre2].
    pose proof (io_read_spec (c_src c) (length (c_ibuf c)) Hts) as Hs.
    destruct (io_read (c_src c) (length (c_ibuf c))) as [[d|e|] s']; [| |contradiction].
    + destruct Hs as (Hd & Hrest & Htk' & Htl & Hle).
      eexists. split; [reflexivity|].
      assert (Hwl : length (write_at (c_ibuf c) 0 d) = length (c_ibuf c)) by (apply write_at_length; lia).
      split.
      { unfold CInv, pend_in, pend_out. cbn [c_ibuf c_obuf c_in_off c_out_off c_avail_in c_avail_out c_eof c_read_err c_total c_enc c_src c_sink].
        rewrite Hwl. splits; auto; try lia.
        - rewrite Htk', Htaken, Hpi, app_nil_r. f_equal. cbn [skipn]. symmetry.
          apply (window_write_at (c_ibuf c) 0 d). lia.
        - left. split; [exact Hre1|congruence]. }
      cbn [c_ibuf c_obuf c_in_off c_out_off c_avail_in c_avail_out c_eof c_read_err c_total c_enc c_src c_sink].
      splits; auto.
      * intros H0. rewrite H0. reflexivity.
      * rewrite Hrest, app_length. lia.
    + destruct Hs as (Hrest & Htk' & Htl & Hle).
      eexists. split; [reflexivity|].
      split.
      { unfold CInv, pend_in, pend_out. cbn [c_ibuf c_obuf c_in_off c_out_off c_avail_in c_avail_out c_eof c_read_err c_total c_enc c_src c_sink].
        splits; auto; try lia.
        - rewrite Htk', Htaken, Hpi. reflexivity.
        - right. exists e. splits; auto. congruence. }
      cbn [c_ibuf c_obuf c_in_off c_out_off c_avail_in c_avail_out c_eof c_read_err c_total c_enc c_src c_sink].
      splits; auto. rewrite Hrest. lia.
  - exists c. split; [reflexivity|]. split; [unfold CInv; splits; auto|].
    splits; auto. intros H0. apply andb_false_iff in Hc. destruct Hc as [Hc|Hc].
    + apply Nat.eqb_neq in Hc. lia.
    + apply negb_false_iff in Hc. exact Hc.
Qed.

Lemma copy_compress_spec st0 L0 K0 Z0 (c1 : copier estate) :
  CInv st0 L0 K0 Z0 c1 -> 0 < c_avail_out c1 -> enc_finished (t_st (c_enc c1)) = false ->
  (c_avail_in c1 = 0 -> c_eof c1 = true) ->
  let (c2, ok) := copy_compress enc_step c1 in
  ok = true /\ CInv st0 L0 K0 Z0 c2 /\ length (c_obuf c2) = length (c_obuf c1) /\
  c_src c2 = c_src c1 /\ c_sink c2 = c_sink c1 /\
  (enc_finished (t_st (c_enc c2)) = false -> copy_measure c2 < copy_measure c1) /\
  (enc_finished (t_st (c_enc c2)) = true -> c_avail_in c2 = 0 /\ c_eof c2 = true).
Proof.
  intros (Hi & Ho & Hin & Hout & Hts & Htk & Htaken & Hem & Htot & Hacc & Hre & Hke & Hkz & Hreach) Hcap Hnf Heof.
  unfold copy_compress.
  set (o := if c_avail_in c1 =? 0 then Finish else Process).
  set (inp := firstn (c_avail_in c1) (skipn (c_in_off c1) (c_ibuf c1))).
  assert (Hinpl : length inp = c_avail_in c1) by (unfold inp; rewrite firstn_length, skipn_length; lia).
  set (a := tstep (c_enc c1) o inp (c_avail_out c1)).
  assert (Hc : ta_consumed a <= c_avail_in c1).
  { unfold a, IO.tstep. cbn [ta_consumed]. rewrite <- Hinpl. apply (c_consumed HC). }
  assert (Hp : length (ta_produced a) <= c_avail_out c1) by (apply (c_produced HC)).
  assert (Hpot : potential (t_st (ta_enc a)) + length (ta_produced a) <= potential (t_st (c_enc c1)) + G * ta_consumed a)
    by (apply (c_potential HC)).
  assert (Hok : ta_ok a = true /\
                (accepting (t_st (ta_enc a)) = true \/ (c_eof c1 = true /\ c_avail_in c1 = 0)) /\
                (enc_finished (t_st (ta_enc a)) = true -> c_avail_in c1 = 0) /\
                (enc_finished (t_st (ta_enc a)) = false -> 0 < ta_consumed a \/ ta_produced a <> [])).
  { unfold a, o, IO.tstep. cbn [ta_ok ta_enc t_st ta_consumed ta_produced].
    destruct (Nat.eqb_spec (c_avail_in c1) 0) as [H0|H0].
    - assert (inp = []) by (destruct inp; [reflexivity|cbn in Hinpl; lia]). rewrite H.
      split; [apply (c_accept_empty HC); discriminate|]. split; [right; auto|]. split; [auto|].
      intros Hx. destruct (c_progress_finish HC (t_st (c_enc c1)) (c_avail_out c1) Hcap) as [Hy|Hy]; [right; exact Hy|congruence].
    - assert (Ha : accepting (t_st (c_enc c1)) = true) by (destruct Hacc as [Ha|[_ Ha]]; [exact Ha|lia]).
      destruct (c_accept_process HC (t_st (c_enc c1)) inp (c_avail_out c1) Ha) as [Hok Ha'].
      split; [exact Hok|]. split; [left; exact Ha'|].
      split.
      + intros Hx. rewrite (c_process_no_finish HC _ inp (c_avail_out c1) Ha) in Hx. discriminate.
      + intros _. apply (c_progress_process HC); auto. intros Hx. rewrite Hx in Hinpl. cbn in Hinpl. lia. }
  destruct Hok as (Hok & Hacc2 & Hfin2 & Hprog).
  split; [exact Hok|].
  assert (Hwl : length (write_at (c_obuf c1) (c_out_off c1) (ta_produced a)) = length (c_obuf c1))
    by (apply write_at_length; lia).
  assert (Hem2 : emitted (ta_enc a) = emitted (c_enc c1) ++ ta_produced a) by (unfold a; apply tstep_emitted).
  assert (Hfed2 : fed (ta_enc a) = fed (c_enc c1) ++ firstn (ta_consumed a) inp) by (unfold a; apply tstep_fed).
  split.
  { unfold CInv, pend_in, pend_out.
    cbn [c_ibuf c_obuf c_in_off c_out_off c_avail_in c_avail_out c_eof c_read_err c_total c_enc c_src c_sink].
    rewrite Hwl. splits; auto; try lia.
    - (* input side *)
      rewrite Hfed2. rewrite <- app_assoc. rewrite Htaken. f_equal.
      unfold pend_in.
      replace (c_avail_in c1) with (ta_consumed a + (c_avail_in c1 - ta_consumed a)) at 1 by lia.
      rewrite window_split. f_equal. unfold inp. rewrite firstn_firstn, Nat.min_l by lia. reflexivity.
    - (* output side *)
      rewrite Hem2.
      rewrite firstn_write_at_end by lia. rewrite Hem. unfold pend_out. apply app_assoc_reverse.
    - rewrite Hem2. rewrite app_length, Nat2N.inj_add, Htot. reflexivity.
    - destruct Hacc2 as [Ha|[Ha Hb]]; [left; exact Ha|right; split; [exact Ha|lia]].
    - destruct Hre as [H|(code & H1 & H2 & H3 & H4)]; [left; exact H|right; exists code; splits; auto; lia].
    - unfold a. apply rp_step; [exact Hreach|]. unfold o. destruct (c_avail_in c1 =? 0); discriminate. }
  cbn [c_ibuf c_obuf c_in_off c_out_off c_avail_in c_avail_out c_eof c_read_err c_total c_enc c_src c_sink].
  split; [exact Hwl|]. split; [reflexivity|]. split; [reflexivity|].
  split.
  - intros Hx. specialize (Hprog Hx). unfold copy_measure.
    cbn [c_ibuf c_obuf c_in_off c_out_off c_avail_in c_avail_out c_eof c_read_err c_total c_enc c_src c_sink].
    assert (0 < ta_consumed a \/ 0 < length (ta_produced a))
      by (destruct Hprog as [H|H]; [auto|right; destruct (ta_produced a); [congruence|cbn; lia]]).
    nia.
  - intros Hx. specialize (Hfin2 Hx). split; [lia|auto].
Qed.

Lemma cons_neq {A} (x : A) l : x :: l <> l.
Proof. induction l as [|y l IH]; [discriminate|]. intros H. inversion H. subst. auto. Qed.

(* the result of the whole call, relative to what the two wrapped streams had logged before *)
Definition copy_post (L0 K0 : list N) (Z0 : nat) (x : res N * copier estate) : Prop :=
  match x with
  | (Ok n, c') =>
    enc_finished (t_st (c_enc c')) = true /\ sink_bytes (c_sink c') = emitted (c_enc c') /\
    src_taken_bytes (c_src c') = fed (c_enc c') /\ c_eof c' = true /\
    n = N.of_nat (length (emitted (c_enc c'))) /\
    log_errs (src_log (c_src c')) = L0 /\ kerrs (c_sink c') = K0 /\ kzeros (c_sink c') = Z0
  | (Err e, c') =>
    (* the first read error is recorded, the stream is still finished, the error is returned *)
    (exists code, e = EScript code /\ log_errs (src_log (c_src c')) = code :: L0 /\
       (kerrs (c_sink c') = K0 -> kzeros (c_sink c') = Z0 ->
        enc_finished (t_st (c_enc c')) = true /\ sink_bytes (c_sink c') = emitted (c_enc c') /\
        src_taken_bytes (c_src c') = fed (c_enc c')))
    \/ (* no read error: the sink's own error, or an error standing for its zero-length write *)
    (log_errs (src_log (c_src c')) = L0 /\
     ((exists code, e = EScript code /\ kerrs (c_sink c') = code :: K0 /\ kzeros (c_sink c') = Z0)
      \/ (e = EUnexpectedEof /\ kerrs (c_sink c') = K0 /\ kzeros (c_sink c') = S Z0)))
  | (Panic _, _) => False
  | (OutOfFuel, _) => False
  end.

Lemma copy_write_out_spec st0 L0 K0 Z0 (c2 : copier estate) f :
  CInv st0 L0 K0 Z0 c2 -> length (c_obuf c2) < f ->
  match copy_write_out true f c2 (enc_finished (t_st (c_enc c2))) with
  | (Ok _, c4) =>
    CInv st0 L0 K0 Z0 c4 /\ 0 < c_avail_out c4 /\ c_enc c4 = c_enc c2 /\ c_src c4 = c_src c2 /\
    c_avail_in c4 = c_avail_in c2 /\ c_eof c4 = c_eof c2 /\ c_read_err c4 = c_read_err c2 /\ c_total c4 = c_total c2 /\
    length (c_obuf c4) = length (c_obuf c2) /\
    (enc_finished (t_st (c_enc c2)) = true -> sink_bytes (c_sink c4) = emitted (c_enc c4))
  | (Err e, c4) => copy_post L0 K0 Z0 (Err e, c4)
  | (Panic _, _) => False
  | (OutOfFuel, _) => False
  end.
Proof.
  intros (Hi & Ho & Hin & Hout & Hts & Htk & Htaken & Hem & Htot & Hacc & Hre & Hke & Hkz & Hreach) Hf.
  unfold copy_write_out.
  destruct ((c_avail_out c2 =? 0) || enc_finished (t_st (c_enc c2))) eqn:Hc.
  - assert (Hlim : length (c_obuf c2) - c_avail_out c2 = c_out_off c2) by lia.
    rewrite Hlim, Nat.eqb_refl. cbn [negb].
    pose proof (copy_drain_spec f (set_sink c2 (c_sink c2) 0) (c_out_off c2)) as Hd.
    cbn [set_sink c_sink c_out_off c_obuf] in Hd.
    specialize (Hd Htk ltac:(lia) ltac:(lia) ltac:(lia)).
    destruct (copy_drain true f (set_sink c2 (c_sink c2) 0) (c_out_off c2)) as [[u|e|y|] c3]; try contradiction.
    + destruct Hd as (D1 & D2 & D3 & D4 & D5).
      rewrite Nat.sub_0_r in D3. cbn [skipn] in D3. fold (pend_out c2) in D3.
      rewrite D1. cbn [set_sink c_ibuf c_obuf c_in_off c_out_off c_avail_in c_avail_out c_eof c_read_err c_total c_enc c_src c_sink].
      assert (Hsb : sink_bytes (c_sink c3) = emitted (c_enc c2)) by (rewrite D3, Hem; reflexivity).
      split.
      { unfold CInv, pend_in, pend_out.
        cbn [c_ibuf c_obuf c_in_off c_out_off c_avail_in c_avail_out c_eof c_read_err c_total c_enc c_src c_sink firstn].
        splits; auto; try lia; try congruence.
        rewrite app_nil_r. symmetry. exact Hsb. }
      splits; auto; lia.
    + destruct Hd as (D1 & D2 & D3).
      cbn [copy_post]. rewrite D1.
      cbn [set_sink c_ibuf c_obuf c_in_off c_out_off c_avail_in c_avail_out c_eof c_read_err c_total c_enc c_src c_sink].
      unfold first_err in D3. cbn [set_sink c_read_err] in D3.
      destruct Hre as [[Hr1 Hr2]|(rc & Hr1 & Hr2 & Hr3 & Hr4)].
      * right. split; [exact Hr2|]. rewrite Hr1 in D3.
        destruct D3 as [(code & J1 & J2 & J3)|(J1 & J2 & J3)].
        -- left. exists code. splits; auto; congruence.
        -- right. splits; auto; congruence.
      * left. exists rc. rewrite Hr1 in D3. split.
        { destruct D3 as [(code & J1 & _)|(J1 & _)]; exact J1. }
        split; [exact Hr2|].
        intros E1 E2. exfalso.
        destruct D3 as [(code & J1 & J2 & J3)|(J1 & J2 & J3)].
        -- rewrite Hke in J2. rewrite J2 in E1. exact (cons_neq _ _ E1).
        -- rewrite Hkz in J3. lia.
  - apply orb_false_iff in Hc. destruct Hc as [Hc1 Hc2]. apply Nat.eqb_neq in Hc1.
    split; [unfold CInv; splits; auto|]. splits; auto; try lia.
    intros Hx. congruence.
Qed.

Definition copy_fuel (c : copier estate) : nat := copy_measure c + length (c_obuf c) + 2.

Lemma copy_loop_spec st0 L0 K0 Z0 : forall fuel (c : copier estate),
  CInv st0 L0 K0 Z0 c -> 0 < c_avail_out c -> enc_finished (t_st (c_enc c)) = false ->
  copy_fuel c <= fuel ->
  copy_post L0 K0 Z0 (copy_loop enc_step enc_finished true fuel c).
Proof.
  induction fuel as [|f IH]; intros c HI Hcap Hnf Hf; [unfold copy_fuel in Hf; lia|].
  cbn [copy_loop].
  destruct (copy_fill_spec st0 L0 K0 Z0 c HI Hnf) as (c1 & E1 & HI1 & Heof1 & Hm1 & He1 & Ha1 & Hl1).
  rewrite E1.
  assert (Hnf1 : enc_finished (t_st (c_enc c1)) = false) by (rewrite He1; exact Hnf).
  pose proof (copy_compress_spec st0 L0 K0 Z0 c1 HI1 ltac:(lia) Hnf1 Heof1) as Hc.
  destruct (copy_compress enc_step c1) as [c2 ok].
  destruct Hc as (Hok & HI2 & Hl2 & Hs2 & Hk2 & Hdec & Hfin2).
  assert (Hmeas1 : copy_measure c1 = copy_measure c).
  { unfold copy_measure. rewrite He1. f_equal. f_equal. exact Hm1. }
  pose proof (copy_write_out_spec st0 L0 K0 Z0 c2 f HI2) as Hw.
  assert (Hf2 : length (c_obuf c2) < f) by (unfold copy_fuel in Hf; lia).
  specialize (Hw Hf2).
  destruct (copy_write_out true f c2 (enc_finished (t_st (c_enc c2)))) as [[u|e|y|] c4]; try contradiction.
  2:{ exact Hw. }
  destruct Hw as (HI4 & Hcap4 & He4 & Hs4 & Hai4 & Heof4 & Hre4 & Htot4 & Hl4 & Hsink4).
  rewrite Hok. cbn [negb].
  destruct (enc_finished (t_st (c_enc c2))) eqn:Hfin.
  - (* finished: report the recorded read error, or success *)
    destruct (Hfin2 eq_refl) as [Hai2 Heof2].
    pose proof HI4 as (Hi & Ho & Hin & Hout & Hts & Htk & Htaken & Hem & Htot & Hacc & Hre & Hke & Hkz & Hreach).
    assert (Hpi : pend_in c4 = []) by (unfold pend_in; rewrite Hai4, Hai2; reflexivity).
    assert (Htf : src_taken_bytes (c_src c4) = fed (c_enc c4)) by (rewrite Htaken, Hpi, app_nil_r; reflexivity).
    assert (Hfin4 : enc_finished (t_st (c_enc c4)) = true) by (rewrite He4; exact Hfin).
    assert (Hsk : sink_bytes (c_sink c4) = emitted (c_enc c4)) by (apply Hsink4; reflexivity).
    destruct Hre as [[Hr1 Hr2]|(rc & Hr1 & Hr2 & Hr3 & Hr4)].
    + rewrite Hr1. cbn [copy_post].
      split; [exact Hfin4|]. split; [exact Hsk|]. split; [exact Htf|]. split; [congruence|].
      split; [exact Htot|]. split; [exact Hr2|]. split; [exact Hke|exact Hkz].
    + rewrite Hr1. cbn [copy_post]. left. exists rc. split; [reflexivity|]. split; [exact Hr2|].
      intros _ _. split; [exact Hfin4|]. split; [exact Hsk|exact Htf].
  - (* not finished: the measure went down, go round again *)
    specialize (Hdec eq_refl).
    assert (Hm4 : copy_measure c4 = copy_measure c2).
    { unfold copy_measure. rewrite He4, Hs4, Hai4. reflexivity. }
    apply IH; auto.
    + rewrite He4. exact Hfin.
    + unfold copy_fuel in *. lia.
Qed.

(* -- fresh adapters satisfy their invariants *)
Definition fresh_source (s : source) : Prop := src_taken s = [] /\ tail_ok (src_script s).

Lemma reader_new_inv st0 n src :
  0 < n -> fresh_source src -> accepting st0 = true -> enc_finished st0 = false ->
  RInv st0 (reader_new n st0 src).
Proof.
  intros Hn [Htk Ht] Hacc Hnf. unfold RInv, reader_new, pending.
  cbn [r_buf r_off r_len r_eof r_enc r_src t_st]. rewrite repeat_length.
  splits; auto; try lia.
  - unfold src_taken_bytes. rewrite Htk. reflexivity.
  - intros Hx. congruence.
  - apply rp_init.
Qed.

Lemma copier_new_inv st0 ni no src k :
  0 < ni -> 0 < no -> fresh_source src -> tail_ok (k_script k) -> k_got k = [] -> accepting st0 = true ->
  CInv st0 (log_errs (src_log src)) (kerrs k) (kzeros k) (copier_new ni no st0 src k).
Proof.
  intros Hi Ho [Htk Ht] Hkt Hkg Hacc. unfold CInv, copier_new, pend_in, pend_out.
  cbn [c_ibuf c_obuf c_in_off c_out_off c_avail_in c_avail_out c_eof c_read_err c_total c_enc c_src c_sink t_st].
  rewrite !repeat_length.
  splits; auto; try lia.
  - unfold src_taken_bytes. rewrite Htk. reflexivity.
  - unfold sink_bytes. rewrite Hkg. reflexivity.
  - apply rp_init.
Qed.

(* C11_copy: the copy adapter returns within copy_fuel iterations; see [copy_post] for what *)
Lemma copy_spec st0 ni no src k fuel :
  0 < ni -> 0 < no -> fresh_source src -> tail_ok (k_script k) -> k_got k = [] ->
  accepting st0 = true -> enc_finished st0 = false ->
  copy_fuel (copier_new ni no st0 src k) <= fuel ->
  copy_post (log_errs (src_log src)) (kerrs k) (kzeros k)
            (copy enc_step enc_finished fuel (copier_new ni no st0 src k)).
Proof.
  intros Hi Ho Hs Hkt Hkg Hacc Hnf Hf. unfold copy.
  replace (length (c_ibuf (copier_new ni no st0 src k)) =? 0) with false
    by (unfold copier_new; cbn [c_ibuf]; rewrite repeat_length; symmetry; apply Nat.eqb_neq; lia).
  replace (length (c_obuf (copier_new ni no st0 src k)) =? 0) with false
    by (unfold copier_new; cbn [c_obuf]; rewrite repeat_length; symmetry; apply Nat.eqb_neq; lia).
  cbn [orb].
  change io_copy_zero_write_is_error with true.
  apply (copy_loop_spec st0); auto.
  apply copier_new_inv; auto.
Qed.

(* -- "short reads do not change the delivered bytes": whatever the script, once the stream has
      ended the caller has received the one stream that belongs to the bytes the wrapped reader
      delivered - provided the encoder's output does not depend on how its input is cut into
      calls ([chunk_independent]; true of qualities >= 2, false of the one-pass qualities 0 and 1,
      see the known finding) *)
Definition chunk_independent (st0 : estate) (stream_of : list byte -> list byte) : Prop :=
  forall t, ReachPF st0 t -> enc_finished (t_st t) = true -> emitted t = stream_of (fed t).

Lemma reader_stream st0 stream_of (r : reader estate) buf_len fuel r' :
  chunk_independent st0 stream_of ->
  RInv st0 r -> 0 < buf_len -> read_fuel r <= fuel ->
  read enc_step enc_finished fuel r buf_len = (Ok [], r') ->
  emitted (r_enc r') = stream_of (src_taken_bytes (r_src r')).
Proof.
  intros Hci HI Hb Hf E.
  pose proof (read_spec st0 r buf_len fuel HI Hb Hf) as H. rewrite E in H. cbn [read_post] in H.
  destruct H as (HI' & _ & _ & _ & _ & Hend). destruct (Hend eq_refl Hb) as (Hfin & _ & Htk).
  rewrite Htk. apply Hci; auto. destruct HI' as (_ & _ & _ & _ & _ & _ & _ & _ & Hr). exact Hr.
Qed.

End Contract.

Arguments ReachPF {estate}. Arguments pending {estate}. Arguments RInv {estate}. Arguments read_post {estate}.
Arguments read_fuel {estate}. Arguments zeros {estate}. Arguments errs {estate}. Arguments hand_over_post {estate}.
Arguments ref_write {estate}. Arguments ref_flush {estate}. Arguments sink_track {estate}. Arguments err_reported {estate}.
Arguments known_quiet {estate}. Arguments write_fuel {estate}. Arguments flush_fuel {estate}. Arguments wready {estate}.
Arguments write_post {estate}. Arguments flush_call_post {estate}. Arguments close_post {estate}.
Arguments wclean {estate}. Arguments session_fuel {estate}. Arguments pend_in {estate}. Arguments pend_out {estate}.
Arguments CInv {estate}. Arguments copy_measure {estate}. Arguments copy_post {estate}. Arguments copy_fuel {estate}.
Arguments chunk_independent {estate}. Arguments may_accept {estate}.

(* ------------------------------------------------------------------ the contract is satisfiable *)
(* A small concrete encoder: "compression" is the identity followed by a terminator byte 255
   ([framed] = false), or one length-prefixed frame per PROCESS call ([framed] = true - its output
   depends on how the input is cut into calls, like qualities 0 and 1 of the real encoder).
   Used for the non-vacuity Examples and for the witnesses of the refutations / known classes. *)
Inductive tphase := TP | TFl | TFi.
Record toy := { ty_pend : list byte; ty_phase : tphase }.

Definition tphase_eqb (a b : tphase) : bool :=
  match a, b with TP, TP | TFl, TFl | TFi, TFi => true | _, _ => false end.
Definition is_nil {A} (l : list A) : bool := match l with [] => true | _ => false end.

Definition toy_step (framed : bool) (s : toy) (o : op) (inp : list byte) (cap : nat) : eans toy :=
  if negb (tphase_eqb (ty_phase s) TP) && negb (is_nil inp) then
    {| ea_state := s; ea_consumed := 0; ea_produced := []; ea_ok := false |}
  else
    let absorbed := match o with
                    | Process => if framed && negb (is_nil inp) then N.of_nat (length inp) :: inp else inp
                    | _ => inp
                    end in
    let term := match o with Finish => if tphase_eqb (ty_phase s) TFi then [] else [255%N] | _ => [] end in
    let pend1 := ty_pend s ++ absorbed ++ term in
    let k := Nat.min cap (length pend1) in
    let pend2 := skipn k pend1 in
    let phase1 := match o with
                  | Finish => TFi
                  | Flush => if tphase_eqb (ty_phase s) TFi then TFi else TFl
                  | Process => ty_phase s
                  end in
    let phase2 := if tphase_eqb phase1 TFl && is_nil pend2 then TP else phase1 in
    {| ea_state := {| ty_pend := pend2; ty_phase := phase2 |}; ea_consumed := length inp;
       ea_produced := firstn k pend1; ea_ok := true |}.
Definition toy_finished (s : toy) : bool := tphase_eqb (ty_phase s) TFi && is_nil (ty_pend s).
Definition toy_more (s : toy) : bool := negb (is_nil (ty_pend s)).
Definition toy_accepting (s : toy) : bool := tphase_eqb (ty_phase s) TP.
Definition toy_live (s : toy) : bool := negb (tphase_eqb (ty_phase s) TFi).
Definition toy_potential (s : toy) : nat := length (ty_pend s) + (if tphase_eqb (ty_phase s) TFi then 0 else 1).
Definition toy0 : toy := {| ty_pend := []; ty_phase := TP |}.

Lemma is_nil_true {A} (l : list A) : is_nil l = true <-> l = [].
Proof. destruct l; cbn; split; congruence. Qed.
Lemma firstn_min_nonempty {A} (l : list A) cap : 0 < cap -> l <> [] -> firstn (Nat.min cap (length l)) l <> [].
Proof. intros Hc Hl. destruct l; [congruence|]. destruct cap; [lia|]. cbn. discriminate. Qed.
Lemma skipn_min0 {A} (l : list A) : skipn (Nat.min 0 (length l)) l = l.
Proof. reflexivity. Qed.

Lemma toy_phase2_fi p b : tphase_eqb (if tphase_eqb p TFl && b then TP else p) TFi = tphase_eqb p TFi.
Proof. destruct p, b; reflexivity. Qed.

Lemma toy_contract framed :
  contract toy (toy_step framed) toy_finished toy_more toy_accepting toy_live toy_potential 2.
Proof.
  constructor.
  - (* consumed *) intros s o inp cap. unfold toy_step. destruct (negb _ && negb _); cbn; lia.
  - (* produced *) intros s o inp cap. unfold toy_step. destruct (negb _ && negb _); cbn [ea_produced length]; [lia|].
    rewrite firstn_length. lia.
  - (* progress, PROCESS *) intros s inp cap Hc Hi. unfold toy_step.
    destruct (negb _ && negb _); cbn [ea_ok ea_consumed]; [discriminate|].
    intros _. left. destruct inp; [congruence|cbn; lia].
  - (* progress, FINISH *) intros s cap Hc. unfold toy_step, toy_finished. cbn [is_nil negb andb app].
    rewrite andb_false_r. cbn [ea_produced ea_state ty_phase ty_pend tphase_eqb andb].
    destruct (tphase_eqb (ty_phase s) TFi) eqn:Hp.
    + rewrite app_nil_r. destruct (ty_pend s) as [|b l] eqn:Hl.
      * right. cbn [length]. rewrite Nat.min_0_r. reflexivity.
      * left. apply firstn_min_nonempty; [exact Hc|discriminate].
    + left. apply firstn_min_nonempty; [exact Hc|]. destruct (ty_pend s); discriminate.
  - (* progress, FLUSH *) intros s cap Hc. unfold toy_step, toy_more. cbn [is_nil negb andb app].
    rewrite andb_false_r. cbn [ea_produced ea_state ty_pend]. rewrite app_nil_r.
    destruct (ty_pend s) as [|b l] eqn:Hl.
    + right. cbn [length]. rewrite Nat.min_0_r. reflexivity.
    + left. apply firstn_min_nonempty; [exact Hc|discriminate].
  - (* PROCESS accepted while accepting *) intros s inp cap Ha. unfold toy_accepting in Ha. unfold toy_step, toy_accepting.
    rewrite Ha. cbn [negb andb ea_ok ea_state ty_phase]. destruct (ty_phase s); try discriminate.
    cbn [tphase_eqb andb]. auto.
  - (* empty FLUSH / FINISH accepted *) intros s o cap Ho. unfold toy_step. cbn [is_nil negb]. rewrite andb_false_r. reflexivity.
  - (* live *) intros s. unfold toy_accepting, toy_live. destruct (ty_phase s); cbn; congruence.
  - (* flush done *) intros s cap Hl. unfold toy_step, toy_more, toy_accepting, toy_live in *. cbn [is_nil negb].
    rewrite andb_false_r. cbn [ea_state ty_pend ty_phase]. rewrite app_nil_r.
    destruct (tphase_eqb (ty_phase s) TFi); [discriminate|].
    intros Hm. apply negb_false_iff in Hm. rewrite Hm. reflexivity.
  - (* flush keeps live *) intros s cap Hl. unfold toy_step, toy_live in *. cbn [is_nil negb].
    rewrite andb_false_r. cbn [ea_state ty_phase].
    destruct (tphase_eqb (ty_phase s) TFi); [discriminate|].
    cbn [tphase_eqb andb]. destruct (is_nil _); reflexivity.
  - (* PROCESS does not finish *) intros s inp cap Ha. unfold toy_accepting in Ha. unfold toy_step, toy_finished.
    rewrite Ha. cbn [negb andb ea_state ty_phase]. destruct (ty_phase s); try discriminate. reflexivity.
  - (* finished is absorbing *) intros s cap Hf. unfold toy_finished in Hf. apply andb_true_iff in Hf.
    destruct Hf as [Hp Hn]. apply is_nil_true in Hn. unfold toy_step, toy_finished. cbn [is_nil negb]. rewrite andb_false_r.
    rewrite Hp, Hn. cbn. destruct cap; auto.
  - (* no finish without room *) intros s o inp Hnf. unfold toy_step.
    destruct (negb (tphase_eqb (ty_phase s) TP) && negb (is_nil inp)); [exact Hnf|].
    cbv zeta. cbn [ea_state Nat.min skipn]. unfold toy_finished in *. cbn [ty_phase ty_pend].
    rewrite toy_phase2_fi.
    destruct (tphase_eqb (ty_phase s) TFi) eqn:Hp.
    + cbn [andb] in Hnf. destruct (ty_pend s) as [|b l]; [discriminate|].
      cbn [app is_nil]. apply andb_false_r.
    + destruct o.
      * rewrite Hp. reflexivity.
      * reflexivity.
      * assert (E : forall a b : list byte, is_nil (a ++ b ++ [255%N]) = false)
          by (intros a b; destruct a; destruct b; reflexivity).
        rewrite E. apply andb_false_r.
  - (* potential *) intros s o inp cap. unfold toy_step.
    destruct (negb (tphase_eqb (ty_phase s) TP) && negb (is_nil inp)) eqn:Hr; [cbn; lia|].
    cbn [ea_state ea_produced ea_consumed]. unfold toy_potential. cbn [ty_pend ty_phase].
    set (absorbed := match o with Process => if framed && negb (is_nil inp) then N.of_nat (length inp) :: inp else inp | _ => inp end).
    set (term := match o with Finish => if tphase_eqb (ty_phase s) TFi then [] else [255%N] | _ => [] end).
    set (pend1 := ty_pend s ++ absorbed ++ term).
    assert (Hlen : length (skipn (Nat.min cap (length pend1)) pend1) + length (firstn (Nat.min cap (length pend1)) pend1) = length pend1).
    { rewrite skipn_length, firstn_length. lia. }
    assert (Hab : length absorbed <= 2 * length inp).
    { unfold absorbed. unfold byte in *. destruct o; try lia. destruct (framed && negb (is_nil inp)) eqn:Hfr; [|lia].
      apply andb_true_iff in Hfr. destruct Hfr as [_ Hfr]. destruct inp; [discriminate|cbn [length]; lia]. }
    assert (Hp1 : length pend1 = length (ty_pend s) + length absorbed + length term).
    { unfold pend1. rewrite !app_length. lia. }
    rewrite toy_phase2_fi. unfold byte in *.
    destruct o; unfold term in *; cbn [length] in *.
    + (* Process *) destruct (tphase_eqb (ty_phase s) TFi); lia.
    + (* Flush *) destruct (tphase_eqb (ty_phase s) TFi) eqn:Hph; cbn [tphase_eqb]; lia.
    + (* Finish *) cbn [tphase_eqb].
      destruct (tphase_eqb (ty_phase s) TFi) eqn:Hph; cbn [length] in *; lia.
Qed.

(* ------------------------------------------------------------------ witnesses *)
Definition plain_src (data : list byte) : source :=
  {| src_rest := data; src_taken := []; src_script := {| s_list := []; s_tail := Full |}; src_log := [] |}.
Definition scripted_src (data : list byte) (l : list beh) (tl : beh) : source :=
  {| src_rest := data; src_taken := []; src_script := {| s_list := l; s_tail := tl |}; src_log := [] |}.
Definition scripted_sink (l : list beh) (tl : beh) : sink :=
  {| k_got := []; k_script := {| s_list := l; s_tail := tl |}; k_log := [] |}.

(* -- a sink that accepts nothing, for ever *)
Definition zero_sink (k : sink) : Prop := s_list (k_script k) = [] /\ s_tail (k_script k) = Zero.

Lemma sink_write_zero k d : zero_sink k -> exists k', sink_write k d = (WAccept 0, k') /\ zero_sink k'.
Proof.
  intros [H1 H2]. unfold sink_write. rewrite H1, H2. cbn [sink_write_go write_apply].
  eexists. split; [reflexivity|]. split; reflexivity.
Qed.

(* the write loop of the copy adapter as it stood before repair b5ff0f7 *)
Lemma copy_drain_unrepaired_spins {estate} : forall fuel (c : copier estate) lim,
  zero_sink (c_sink c) -> c_out_off c < lim -> fst (copy_drain false fuel c lim) = OutOfFuel.
Proof.
  induction fuel as [|f IH]; intros c lim Hz Hlt; [reflexivity|].
  cbn [copy_drain]. destruct (Nat.leb_spec lim (c_out_off c)) as [H|_]; [lia|].
  destruct (sink_write_zero (c_sink c) (firstn (lim - c_out_off c) (skipn (c_out_off c) (c_obuf c))) Hz) as (k' & E & Hz').
  rewrite E. cbn [andb]. apply IH; cbn [set_sink c_sink c_out_off]; [exact Hz'|lia].
Qed.

(* C11_copy, refuted for the unrepaired loop: one byte in, a one-byte output buffer, a sink that
   always answers Ok(0) *)
Definition copy_witness : copier toy :=
  copier_new 4 1 toy0 (plain_src [97%N]) (scripted_sink [] Zero).

Lemma copy_unrepaired_spins :
  forall fuel, fst (copy_zero_retries (toy_step false) toy_finished fuel copy_witness) = OutOfFuel.
Proof.
  intros [|f]; [reflexivity|].
  unfold copy_zero_retries, copy_witness. cbn [copier_new c_ibuf c_obuf repeat length Nat.eqb orb].
  cbn [copy_loop].
  set (c0 := copier_new 4 1 toy0 (plain_src [97%N]) (scripted_sink [] Zero)).
  change (copy_fill c0) with (copy_fill (copier_new 4 1 toy0 (plain_src [97%N]) (scripted_sink [] Zero))).
  vm_compute (copy_fill _). cbv beta iota.
  match goal with |- context [copy_compress ?e ?c] =>
    let x := eval vm_compute in (copy_compress e c) in change (copy_compress e c) with x end.
  cbv beta iota zeta.
  match goal with |- context [toy_finished ?s] =>
    let x := eval vm_compute in (toy_finished s) in change (toy_finished s) with x end.
  unfold copy_write_out. cbn [c_avail_out Nat.eqb orb c_obuf length Nat.sub c_out_off negb set_sink c_sink].
  match goal with |- context [copy_drain false f ?c ?l] =>
    pose proof (copy_drain_unrepaired_spins f c l) as H;
    destruct (copy_drain false f c l) as [r c'] end.
  cbn [fst] in H. rewrite H; [reflexivity|split; reflexivity|cbn; lia].
Qed.

(* -- C11_reader_empty, refuted for the unrepaired loop: any source, the encoder not finished *)
Lemma read_unguarded_witness :
  forall fuel, fst (read_unguarded (toy_step false) toy_finished fuel
                      (reader_new 4 toy0 (plain_src [97%N; 98%N; 99%N])) 0) = OutOfFuel.
Proof.
  apply (read_unguarded_spins toy (toy_step false) toy_finished toy_more toy_accepting toy_live toy_potential 2
           (toy_contract false) toy0).
  - apply reader_new_inv; try reflexivity; try lia. split; [reflexivity|discriminate].
  - split; reflexivity.
  - reflexivity.
Qed.

Definition bytes_abc : list byte := [97%N; 98%N; 99%N; 100%N; 101%N; 102%N; 103%N].
Definition big_fuel : nat := 200.

(* -- non-vacuity: a reader over short / interrupted / failing reads still delivers the one stream *)
Example reader_example :
  let r0 := reader_new 4 toy0 (scripted_src bytes_abc [Short 1; Interrupted; Fail 7; Short 2] Full) in
  let '(rs, r) := read_session (toy_step false) toy_finished big_fuel 20 [0; 3; 1] 2 r0 in
  rs = [Ok 0; Ok 1; Err (EScript 7); Ok 2; Ok 2; Ok 2; Ok 1; Ok 0] /\
  emitted (r_enc r) = bytes_abc ++ [255%N] /\ src_taken_bytes (r_src r) = bytes_abc.
Proof. vm_compute. repeat split; reflexivity. Qed.

(* -- known class [stored errors exhausted]: the third zero-length write is swallowed ... *)
Example writer_swallow_witness :
  let w0 := writer_new 2 toy0 (scripted_sink [Zero; Zero; Zero] Full) in
  let '(rs, w) := write_session (toy_step false) toy_finished toy_more big_fuel
                    [WWrite bytes_abc; WFlush; WFlush; WFlush] w0 in
  rs = [Err EWriteZero; Err EInvalidData; Ok tt; Ok tt] /\
  log_zero_writes (k_log (w_sink w)) = 3 /\ sink_bytes (w_sink w) <> emitted (w_enc w).
Proof. vm_compute. repeat split; try reflexivity. discriminate. Qed.

(* ... and once error_if_invalid_data is gone, a call the encoder refuses panics *)
Example writer_panic_witness :
  let w0 := writer_new 2 toy0 (scripted_sink [Full; Fail 9] Full) in
  let '(rs, w) := write_session (toy_step false) toy_finished toy_more big_fuel
                    [WWrite bytes_abc; WFlush; WWrite [120%N]; WWrite [121%N]] w0 in
  rs = [Ok tt; Err (EScript 9); Err EInvalidData; Panic 1].
Proof. vm_compute. reflexivity. Qed.

(* -- known class [close discards the error]: into_inner / Drop return normally although the sink
      failed, and the sink is left without the end of the stream *)
Example writer_close_witness :
  let w0 := writer_new 8 toy0 (scripted_sink [Full; Fail 5] Full) in
  let w1 := snd (write (toy_step false) big_fuel w0 bytes_abc) in
  match close (toy_step false) toy_finished toy_more big_fuel w1 with
  | (vis, discarded, w2) =>
    vis = Ok tt /\ discarded = Err (EScript 5) /\ sink_bytes (w_sink w2) = bytes_abc /\
    emitted (w_enc w2) = bytes_abc ++ [255%N]
  end.
Proof. vm_compute. repeat split; reflexivity. Qed.

(* -- known class [encoder output depends on the cut of its input]: with an encoder that frames
      every PROCESS call (as qualities 0 / 1 do) a short read changes the delivered bytes *)
Example chunk_dependence_witness :
  let run sc := read_session (toy_step true) toy_finished big_fuel 20 [] 64
                  (reader_new 8 toy0 (scripted_src bytes_abc sc Full)) in
  emitted (r_enc (snd (run []))) = [7%N] ++ bytes_abc ++ [255%N] /\
  emitted (r_enc (snd (run [Short 3]))) = [3%N; 97%N; 98%N; 99%N; 4%N; 100%N; 101%N; 102%N; 103%N; 255%N] /\
  Forall (fun r => exists n, r = Ok n) (fst (run [Short 3])).
Proof. vm_compute. repeat split; try reflexivity. repeat constructor; eexists; reflexivity. Qed.

(* -- non-vacuity for the copy adapter: read error recorded, stream finished, error returned *)
Example copy_example :
  let c0 := copier_new 3 2 toy0 (scripted_src bytes_abc [Short 2; Interrupted; Full; Fail 4] Full)
                       (scripted_sink [Short 1; Interrupted] Full) in
  let '(r, c) := copy (toy_step false) toy_finished big_fuel c0 in
  r = Err (EScript 4) /\ sink_bytes (c_sink c) = [97%N; 98%N; 99%N; 100%N; 101%N; 255%N] /\
  toy_finished (t_st (c_enc c)) = true.
Proof. vm_compute. repeat split; reflexivity. Qed.

Example copy_zero_example :
  let c0 := copier_new 3 2 toy0 (plain_src bytes_abc) (scripted_sink [Full; Zero] Full) in
  fst (copy (toy_step false) toy_finished big_fuel c0) = Err EUnexpectedEof.
Proof. vm_compute. reflexivity. Qed.

(* -- the known class of the writer, as a predicate on its state *)
Definition KnownExhausted {estate} (w : writer estate) : Prop := w_ei w = false.

Lemma write_outside_known estate (enc_step : estate -> op -> list byte -> nat -> eans estate) fuel (w : writer estate) rest :
  tail_ok (k_script (w_sink w)) -> ~ KnownExhausted w -> known_quiet w (write_loop enc_step fuel w rest).
Proof.
  intros Ht Hk. apply write_loop_known; [exact Ht|].
  unfold KnownExhausted in Hk. destruct (w_ei w); [reflexivity|congruence].
Qed.

Lemma flush_outside_known estate (enc_step : estate -> op -> list byte -> nat -> eans estate) enc_finished enc_more
      fuel (w : writer estate) o :
  tail_ok (k_script (w_sink w)) -> ~ KnownExhausted w ->
  known_quiet w (flush_or_close enc_step enc_finished enc_more fuel w o).
Proof.
  intros Ht Hk. apply flush_or_close_known; [exact Ht|].
  unfold KnownExhausted in Hk. destruct (w_ei w); [reflexivity|congruence].
Qed.
