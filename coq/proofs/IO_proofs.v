(* Proofs about the adapter models of model/IO.v (property C11). *)
From Coq Require Import NArith List Bool Arith Lia.
From V Require Import gen.GenIO model.IO.
Import ListNotations.

(* ------------------------------------------------------------------ small facts *)

Lemma bytes_of_grow a d : bytes_of (grow a d) = bytes_of a ++ d.
Proof.
  unfold bytes_of, grow. rewrite rev_append_rev, rev_app_distr, rev_involutive. reflexivity.
Qed.

Lemma write_at_length buf pos d :
  pos + length d <= length buf -> length (write_at buf pos d) = length buf.
Proof.
  intros H. unfold write_at. rewrite !app_length, firstn_length, skipn_length. lia.
Qed.

Lemma write_at_firstn buf pos d :
  pos <= length buf -> firstn pos (write_at buf pos d) = firstn pos buf.
Proof.
  intros H. unfold write_at.
  rewrite firstn_app, firstn_length, Nat.min_l by lia.
  rewrite Nat.sub_diag. cbn [firstn]. rewrite app_nil_r.
  rewrite firstn_firstn, Nat.min_id. reflexivity.
Qed.

Lemma skipn_app_exact {A} (l1 l2 : list A) n : n = length l1 -> skipn n (l1 ++ l2) = l2.
Proof. intros ->. rewrite skipn_app, skipn_all, Nat.sub_diag. reflexivity. Qed.

Lemma firstn_app_exact {A} (l1 l2 : list A) n : n = length l1 -> firstn n (l1 ++ l2) = l1.
Proof. intros ->. rewrite firstn_app, firstn_all, Nat.sub_diag. cbn. apply app_nil_r. Qed.

Lemma skipn_skipn' {A} (l : list A) a b : skipn a (skipn b l) = skipn (b + a) l.
Proof.
  revert l. induction b as [|b IH]; intros l; [reflexivity|].
  destruct l as [|x l]; [rewrite !skipn_nil; reflexivity|]. cbn [skipn Nat.add]. apply IH.
Qed.

Lemma firstn_plus {A} (l : list A) k m : firstn (k + m) l = firstn k l ++ firstn m (skipn k l).
Proof.
  revert l. induction k as [|k IH]; intros l; [reflexivity|].
  destruct l as [|x l]; [cbn; rewrite firstn_nil; reflexivity|].
  cbn [Nat.add firstn skipn app]. f_equal. apply IH.
Qed.

(* the window [off, off+k) of a buffer followed by the window [off+k, off+k+m) *)
Lemma window_split {A} (buf : list A) off k m :
  firstn (k + m) (skipn off buf) = firstn k (skipn off buf) ++ firstn m (skipn (off + k) buf).
Proof. rewrite firstn_plus, skipn_skipn'. reflexivity. Qed.

Lemma window_write_at (buf : list byte) pos d :
  pos + length d <= length buf -> firstn (length d) (skipn pos (write_at buf pos d)) = d.
Proof.
  intros H. unfold write_at.
  rewrite skipn_app_exact by (rewrite firstn_length; lia).
  apply firstn_app_exact. reflexivity.
Qed.

(* a window that ends where the written data begins is unchanged, and can be extended by it *)
Lemma window_then_write (buf : list byte) off len d :
  off <= len -> len + length d <= length buf ->
  firstn (len + length d - off) (skipn off (write_at buf len d)) = firstn (len - off) (skipn off buf) ++ d.
Proof.
  intros H1 H2. replace (len + length d - off) with ((len - off) + length d) by lia.
  rewrite window_split. replace (off + (len - off)) with len by lia.
  rewrite window_write_at by exact H2. f_equal.
  unfold write_at.
  rewrite skipn_app, firstn_length, Nat.min_l by lia.
  replace (off - len) with 0 by lia. cbn [skipn].
  rewrite firstn_app, skipn_length, firstn_length, Nat.min_l by lia.
  replace (len - off - (len - off)) with 0 by lia. cbn [firstn]. rewrite app_nil_r.
  rewrite skipn_firstn_comm. rewrite firstn_firstn, Nat.min_id. reflexivity.
Qed.

(* ------------------------------------------------------------------ scripted streams *)

Definition tail_ok (sc : script) : Prop := s_tail sc <> Interrupted.

(* number of zero-length answers this call added to the log *)
Definition zero_answer (n len : nat) : nat := if (n =? 0) && (0 <? len) then 1 else 0.

Lemma log_zero_writes_io len n l :
  log_zero_writes (EvIO len (RN n) :: l) = zero_answer n len + log_zero_writes l.
Proof.
  unfold zero_answer. destruct len as [|len]; destruct n as [|n]; reflexivity.
Qed.

Lemma write_apply_le b len : write_apply b len <= len.
Proof. destruct b; cbn; lia. Qed.

Lemma sink_write_go_spec l : forall tl d got log,
  tl <> Interrupted ->
  match sink_write_go l tl d got log with
  | (WAccept n, k') =>
    n <= length d /\ bytes_of (k_got k') = bytes_of got ++ firstn n d /\ s_tail (k_script k') = tl /\
    log_errs (k_log k') = log_errs log /\
    log_zero_writes (k_log k') = zero_answer n (length d) + log_zero_writes log
  | (WFail e, k') =>
    bytes_of (k_got k') = bytes_of got /\ s_tail (k_script k') = tl /\
    log_errs (k_log k') = e :: log_errs log /\ log_zero_writes (k_log k') = log_zero_writes log
  | (WSpin, _) => False
  end.
Proof.
  induction l as [|b l IH]; intros tl d got log Htl.
  - cbn [sink_write_go].
    destruct tl; try congruence; cbn [k_got k_script k_log s_tail log_errs];
      rewrite ?bytes_of_grow, ?log_zero_writes_io;
      repeat split; try reflexivity; try apply write_apply_le.
    destruct (length d); reflexivity.
  - cbn [sink_write_go].
    destruct b; cbn [k_got k_script k_log s_tail log_errs];
      rewrite ?bytes_of_grow, ?log_zero_writes_io;
      try (repeat split; try reflexivity; try apply write_apply_le; fail).
    + specialize (IH tl d got (EvIO (length d) RInt :: log) Htl).
      destruct (sink_write_go l tl d got (EvIO (length d) RInt :: log)) as [[n|e|] k'];
        cbn [log_errs log_zero_writes] in IH; [| |exact IH].
      * destruct (length d); exact IH.
      * destruct (length d); exact IH.
    + repeat split; try reflexivity. destruct (length d); reflexivity.
Qed.

Lemma sink_write_spec k d :
  tail_ok (k_script k) ->
  match sink_write k d with
  | (WAccept n, k') =>
    n <= length d /\ sink_bytes k' = sink_bytes k ++ firstn n d /\ tail_ok (k_script k') /\
    log_errs (k_log k') = log_errs (k_log k) /\
    log_zero_writes (k_log k') = zero_answer n (length d) + log_zero_writes (k_log k)
  | (WFail e, k') =>
    sink_bytes k' = sink_bytes k /\ tail_ok (k_script k') /\
    log_errs (k_log k') = e :: log_errs (k_log k) /\
    log_zero_writes (k_log k') = log_zero_writes (k_log k)
  | (WSpin, _) => False
  end.
Proof.
  intros Ht. unfold sink_write, sink_bytes, tail_ok in *.
  pose proof (sink_write_go_spec (s_list (k_script k)) (s_tail (k_script k)) d (k_got k) (k_log k) Ht) as H.
  destruct (sink_write_go _ _ d _ _) as [[n|e|] k']; [| |exact H].
  - destruct H as (H1 & H2 & H3 & H4 & H5). rewrite H3. auto.
  - destruct H as (H1 & H2 & H3 & H4). rewrite H2. auto.
Qed.

Lemma sink_flush_go_spec l : forall tl got log,
  tl <> Interrupted ->
  match sink_flush_go l tl got log with
  | (WAccept _, k') =>
    k_got k' = got /\ s_tail (k_script k') = tl /\ log_errs (k_log k') = log_errs log /\
    log_zero_writes (k_log k') = log_zero_writes log
  | (WFail e, k') =>
    k_got k' = got /\ s_tail (k_script k') = tl /\ log_errs (k_log k') = e :: log_errs log /\
    log_zero_writes (k_log k') = log_zero_writes log
  | (WSpin, _) => False
  end.
Proof.
  induction l as [|b l IH]; intros tl got log Htl.
  - cbn [sink_flush_go]. destruct tl; try congruence; cbn; auto.
  - cbn [sink_flush_go]. destruct b; cbn; auto.
    specialize (IH tl got (EvFlush RInt :: log) Htl).
    destruct (sink_flush_go l tl got (EvFlush RInt :: log)) as [[n|e|] k']; cbn in IH; exact IH.
Qed.

Lemma prefix_split {A} n (l : list A) : l = firstn n l ++ skipn (length (firstn n l)) l.
Proof.
  rewrite firstn_length. destruct (Nat.le_gt_cases n (length l)) as [H|H].
  - rewrite Nat.min_l by lia. symmetry. apply firstn_skipn.
  - rewrite Nat.min_r by lia. rewrite firstn_all2 by lia. rewrite skipn_all. symmetry. apply app_nil_r.
Qed.

Lemma read_apply_prefix b room rest :
  let d := read_apply b room rest in
  length d <= room /\ rest = d ++ skipn (length d) rest.
Proof.
  cbn zeta. destruct b; cbn [read_apply length skipn app]; try (split; [lia|reflexivity]).
  - split; [rewrite firstn_length; lia|apply prefix_split].
  - split; [rewrite firstn_length; lia|apply prefix_split].
Qed.

Lemma io_read_go_spec l : forall tl room rest taken log,
  tl <> Interrupted ->
  match io_read_go l tl room rest taken log with
  | (RGot d, s') =>
    length d <= room /\ rest = d ++ src_rest s' /\ bytes_of (src_taken s') = bytes_of taken ++ d /\
    s_tail (src_script s') = tl /\ log_errs (src_log s') = log_errs log
  | (RFail e, s') =>
    src_rest s' = rest /\ src_taken s' = taken /\ s_tail (src_script s') = tl /\
    log_errs (src_log s') = e :: log_errs log
  | (RSpin, _) => False
  end.
Proof.
  induction l as [|b l IH]; intros tl room rest taken log Htl.
  - cbn [io_read_go]. pose proof (read_apply_prefix tl room rest) as [Ha Hb].
    destruct tl; try congruence; cbn [src_rest src_taken src_script src_log s_tail log_errs];
      rewrite ?bytes_of_grow; repeat split; try reflexivity; try assumption.
  - cbn [io_read_go]. pose proof (read_apply_prefix b room rest) as [Ha Hb].
    destruct b; cbn [src_rest src_taken src_script src_log s_tail log_errs];
      rewrite ?bytes_of_grow;
      try (repeat split; try reflexivity; try assumption; fail).
    specialize (IH tl room rest taken (EvIO room RInt :: log) Htl).
    destruct (io_read_go l tl room rest taken (EvIO room RInt :: log)) as [[d|e|] s']; exact IH.
Qed.

Definition src_taken_bytes (s : source) : list byte := bytes_of (src_taken s).

Lemma io_read_spec s room :
  tail_ok (src_script s) ->
  match io_read s room with
  | (RGot d, s') =>
    length d <= room /\ src_rest s = d ++ src_rest s' /\ src_taken_bytes s' = src_taken_bytes s ++ d /\
    tail_ok (src_script s') /\ log_errs (src_log s') = log_errs (src_log s)
  | (RFail e, s') =>
    src_rest s' = src_rest s /\ src_taken_bytes s' = src_taken_bytes s /\ tail_ok (src_script s') /\
    log_errs (src_log s') = e :: log_errs (src_log s)
  | (RSpin, _) => False
  end.
Proof.
  intros Ht. unfold io_read, tail_ok, src_taken_bytes in *.
  pose proof (io_read_go_spec (s_list (src_script s)) (s_tail (src_script s)) room (src_rest s) (src_taken s) (src_log s) Ht) as H.
  destruct (io_read_go _ _ room _ _ _) as [[d|e|] s']; [| |exact H].
  - destruct H as (H1 & H2 & H3 & H4 & H5). rewrite H4. auto.
  - destruct H as (H1 & H2 & H3 & H4). rewrite H2, H3. auto.
Qed.

(* ------------------------------------------------------------------ writer.rs write_all *)

(* what one call of write_all did, as a predicate over its inputs and its outcome *)
Definition write_all_post (k : sink) (buf : list byte) (ez ei : bool) (o : wa_out) : Prop :=
  exists m, m <= length buf /\
    sink_bytes (wa_sink o) = sink_bytes k ++ firstn m buf /\ tail_ok (k_script (wa_sink o)) /\
    match wa_res o with
    | Ok _ =>
      log_errs (k_log (wa_sink o)) = log_errs (k_log k) /\
      ((m = length buf /\ log_zero_writes (k_log (wa_sink o)) = log_zero_writes (k_log k) /\
        wa_ez o = ez /\ wa_ei o = ei)
       \/ (* both stored errors were already taken: the zero-length write is swallowed *)
       (ez = false /\ ei = false /\ m < length buf /\
        log_zero_writes (k_log (wa_sink o)) = S (log_zero_writes (k_log k)) /\
        wa_ez o = false /\ wa_ei o = false))
    | Err e =>
      (exists c, e = EScript c /\ log_errs (k_log (wa_sink o)) = c :: log_errs (k_log k) /\
                 log_zero_writes (k_log (wa_sink o)) = log_zero_writes (k_log k) /\
                 wa_ez o = ez /\ wa_ei o = ei)
      \/ (m < length buf /\ log_errs (k_log (wa_sink o)) = log_errs (k_log k) /\
          log_zero_writes (k_log (wa_sink o)) = S (log_zero_writes (k_log k)) /\
          ((ez = true /\ e = EWriteZero /\ wa_ez o = false /\ wa_ei o = ei)
           \/ (ez = false /\ ei = true /\ e = EInvalidData /\ wa_ez o = false /\ wa_ei o = false)))
    | Panic _ => False
    | OutOfFuel => False
    end.

Lemma write_all_spec : forall fuel k buf ez ei,
  tail_ok (k_script k) -> length buf < fuel -> write_all_post k buf ez ei (write_all fuel k buf ez ei).
Proof.
  induction fuel as [|f IH]; intros k buf ez ei Ht Hf; [lia|].
  cbn [write_all]. destruct buf as [|b0 buf'].
  - exists 0. cbn. rewrite app_nil_r. repeat split; auto.
  - set (buf := b0 :: buf') in *.
    pose proof (sink_write_spec k buf Ht) as Hs.
    destruct (sink_write k buf) as [[n|e|] k']; [| |contradiction].
    + destruct Hs as (Hn & Hb & Ht' & He & Hz).
      destruct (Nat.eqb_spec n 0) as [->|Hn0].
      * assert (Hz' : log_zero_writes (k_log k') = S (log_zero_writes (k_log k))).
        { rewrite Hz. unfold zero_answer. reflexivity. }
        exists 0. cbn [firstn] in *. split; [lia|].
        destruct ez; [|destruct ei]; cbn [wa_res wa_sink wa_ez wa_ei];
          (split; [exact Hb|]); (split; [exact Ht'|]).
        -- right. cbn [length buf]. split; [lia|]. split; [exact He|]. split; [exact Hz'|]. left. auto.
        -- right. cbn [length buf]. split; [lia|]. split; [exact He|]. split; [exact Hz'|]. right. auto.
        -- split; [exact He|]. right. cbn [length buf]. repeat split; auto; lia.
      * destruct (Nat.ltb_spec (length buf) n) as [Hlt|Hge]; [lia|].
        assert (Hlen : length (skipn n buf) < f).
        { rewrite skipn_length. cbn [length buf] in *. lia. }
        specialize (IH k' (skipn n buf) ez ei Ht' Hlen).
        destruct IH as (m & Hm & Hb2 & Ht2 & Hres).
        rewrite skipn_length in Hm.
        assert (Hz0 : log_zero_writes (k_log k') = log_zero_writes (k_log k)).
        { rewrite Hz. unfold zero_answer. destruct (Nat.eqb_spec n 0); [lia|]. reflexivity. }
        exists (n + m). split; [lia|]. split.
        { rewrite Hb2, Hb, <- app_assoc. f_equal.
          rewrite <- (firstn_skipn n buf) at 3.
          rewrite firstn_app, firstn_length, Nat.min_l by lia.
          rewrite firstn_firstn, Nat.min_r by lia.
          replace (n + m - n) with m by lia. reflexivity. }
        split; [exact Ht2|].
        rewrite skipn_length in Hres.
        destruct (wa_res (write_all f k' (skipn n buf) ez ei)) as [u|e|y|]; try contradiction.
        -- destruct Hres as (He2 & Hcase). split; [congruence|].
           destruct Hcase as [(H1 & H2 & H3 & H4)|(H1 & H2 & H3 & H4 & H5 & H6)].
           ++ left. repeat split; auto; try lia; congruence.
           ++ right. repeat split; auto; try lia; congruence.
        -- destruct Hres as [(c & H1 & H2 & H3 & H4 & H5)|(H1 & H2 & H3 & H4)].
           ++ left. exists c. repeat split; auto; congruence.
           ++ right. repeat split; auto; try lia; congruence.
    + destruct Hs as (Hb & Ht' & He & Hz).
      exists 0. cbn [firstn wa_res wa_sink wa_ez wa_ei]. rewrite app_nil_r.
      split; [lia|]. split; [exact Hb|]. split; [exact Ht'|].
      left. exists e. auto.
Qed.
