(* Facts about the replay specification (spec/IrReplay.v): the block-move form of an LZ77 copy
   equals the byte-serial one, replay states compose, literal slices concatenate. *)
From Coq Require Import NArith ZArith List Bool Lia.
From V Require Import model.Arith spec.IrReplay.
Import ListNotations.
Open Scope N_scope.

Lemma list_eqb_eq a b : list_eqb a b = true <-> a = b.
Proof.
  revert b. induction a as [|x a IH]; intros [|y b]; cbn [list_eqb]; split; intros H; try discriminate; try reflexivity.
  - apply andb_true_iff in H. destruct H as [H1 H2]. apply N.eqb_eq in H1. apply IH in H2. subst. reflexivity.
  - inversion H; subst. rewrite N.eqb_refl. cbn. apply IH. reflexivity.
Qed.

(* ---- copies ---- *)
Lemma copy_loop_app n d h : exists x, copy_loop n d h = x ++ h /\ length x = n.
Proof.
  revert h. induction n as [|n IH]; intros h.
  - exists []. split; reflexivity.
  - cbn [copy_loop]. destruct (IH (nth (d - 1) h 0 :: h)) as [x [E L]].
    exists (x ++ [nth (d - 1) h 0]). split.
    + rewrite E, <- app_assoc. reflexivity.
    + rewrite app_length, L. cbn. lia.
Qed.

Lemma firstn_S_nth (A : Type) (dflt : A) n (l : list A) :
  (n < length l)%nat -> firstn (S n) l = firstn n l ++ [nth n l dflt].
Proof.
  revert l. induction n as [|n IH]; intros [|a l] H; cbn in H; try lia.
  - reflexivity.
  - change (firstn (S (S n)) (a :: l)) with (a :: firstn (S n) l).
    rewrite IH by lia. reflexivity.
Qed.

Lemma nth_skipn (A : Type) (dflt : A) k i (l : list A) : nth i (skipn k l) dflt = nth (k + i) l dflt.
Proof.
  revert l. induction k as [|k IH]; intros l; [reflexivity|].
  destruct l as [|a l]; [destruct i; reflexivity|]. cbn [skipn]. rewrite IH. reflexivity.
Qed.

(* the block move is the byte-serial copy when source and destination do not overlap *)
Lemma copy_loop_block n d h : (n <= d)%nat -> (d <= length h)%nat ->
  copy_loop n d h = firstn n (skipn (d - n) h) ++ h.
Proof.
  revert h. induction n as [|n IH]; intros h Hn Hd; [reflexivity|].
  cbn [copy_loop]. rewrite IH by (cbn [length]; lia).
  replace (d - n)%nat with (S (d - S n)) by lia. cbn [skipn].
  rewrite (firstn_S_nth _ 0 n) by (rewrite skipn_length; lia).
  rewrite nth_skipn. replace (d - S n + n)%nat with (d - 1)%nat by lia.
  rewrite <- app_assoc. reflexivity.
Qed.
Lemma copy_fast_loop n d h : (d <= length h)%nat -> copy_fast n d h = copy_loop n d h.
Proof.
  intros Hd. unfold copy_fast. destruct (Nat.leb n d) eqn:E; [|reflexivity].
  apply Nat.leb_le in E. symmetry. apply copy_loop_block; assumption.
Qed.
Lemma copy_fast_app n d h : (d <= length h)%nat -> exists x, copy_fast n d h = x ++ h /\ length x = n.
Proof. intros Hd. rewrite copy_fast_loop by exact Hd. apply copy_loop_app. Qed.
Lemma copy_fast_0 d h : copy_fast 0 d h = h.
Proof. unfold copy_fast. destruct (Nat.leb 0 d); reflexivity. Qed.

(* ---- states ---- *)
Lemma rstate_eta s : {| hist := hist s; produced := produced s; pos := pos s; rest := rest s; remaining := remaining s |} = s.
Proof. destruct s; reflexivity. Qed.

(* advancing over k bytes of the meta-block input *)
Definition adv (k : N) (s : rstate) : rstate := emit (firstn (N.to_nat k) (rest s)) k s.

Lemma adv_0 s : adv 0 s = s.
Proof.
  unfold adv, emit. cbn [N.to_nat firstn skipn rev_append].
  rewrite !N.add_0_r, N.sub_0_r. apply rstate_eta.
Qed.

Lemma firstn_add (A : Type) a b (l : list A) : firstn (a + b) l = firstn a l ++ firstn b (skipn a l).
Proof.
  revert l. induction a as [|a IH]; intros l; [reflexivity|].
  destruct l as [|x l]; [cbn; rewrite firstn_nil; reflexivity|]. cbn [Nat.add firstn skipn app]. rewrite IH. reflexivity.
Qed.
Lemma skipn_add (A : Type) a b (l : list A) : skipn b (skipn a l) = skipn (a + b) l.
Proof.
  revert l. induction a as [|a IH]; intros l; [reflexivity|].
  destruct l as [|x l]; [cbn; rewrite skipn_nil; reflexivity|]. cbn [Nat.add skipn]. apply IH.
Qed.

Lemma adv_adv a b s : adv b (adv a s) = adv (a + b) s.
Proof.
  unfold adv, emit. cbn [hist produced pos rest remaining].
  rewrite N2Nat.inj_add, firstn_add, skipn_add, !rev_append_rev, rev_app_distr, <- !app_assoc.
  f_equal; lia.
Qed.

Lemma ir_run_app dw tr a b s :
  ir_run dw tr (a ++ b) s = match ir_run dw tr a s with Ok s' => ir_run dw tr b s' | Err e => Err e end.
Proof.
  revert s. induction a as [|c a IH]; intros s; [reflexivity|].
  cbn [app ir_run]. destruct (ir_step dw tr c s); [apply IH|reflexivity].
Qed.

Lemma ir_literal dw tr q k he s : q = pos s -> k <= remaining s ->
  ir_step dw tr (IrLiteral q k he) s = Ok (adv k s).
Proof.
  intros -> Hk. cbn [ir_step]. rewrite N.eqb_refl. cbn [negb].
  destruct (N.ltb_spec (remaining s) k); [lia|]. reflexivity.
Qed.
