(* C01 (d): the meta-block header writers of brotli_bit_stream.rs (model/MetaBlockHeader.v) are
   read back by the header reader of the RFC 7932 decoder spec (spec/Decoder.v), for all lengths. *)
From Coq Require Import NArith ZArith List Lia Bool.
From V Require Import lib.Words lib.PMap spec.RfcTables spec.PrefixCode spec.Decoder model.MetaBlockHeader proofs.Bitops.
Import ListNotations.
Open Scope N_scope.

(* ------------------------------------------------------------------ bits written, bits read *)
Lemma n2b_length n v : length (N_to_bits n v) = n.
Proof. revert v. induction n as [|n IH]; intros v; [reflexivity|]. cbn [N_to_bits length]. rewrite IH. reflexivity. Qed.

Lemma b2n_odd v : b2n (N.odd v) + 2 * N.div2 v = v.
Proof.
  rewrite N.div2_div. pose proof (N.div_mod v 2 ltac:(discriminate)) as E.
  assert (O : b2n (N.odd v) = v mod 2).
  { rewrite <- N.bit0_odd, N.bit0_mod. reflexivity. }
  rewrite O. lia.
Qed.

Lemma bits_n2b n : forall v, bits_to_N (N_to_bits n v) = v mod 2 ^ N.of_nat n.
Proof.
  induction n as [|n IH]; intros v.
  - cbn. rewrite N.mod_1_r. reflexivity.
  - cbn [N_to_bits bits_to_N]. rewrite IH. rewrite Nat2N.inj_succ, N.pow_succ_r'.
    rewrite N.div2_div.
    rewrite (N.mod_mul_r v 2 (2 ^ N.of_nat n)) by (try discriminate; apply N.pow_nonzero; discriminate).
    assert (O : b2n (N.odd v) = v mod 2) by (rewrite <- N.bit0_odd, N.bit0_mod; reflexivity).
    rewrite O. reflexivity.
Qed.

Lemma take_bits_app' x r : take_bits (length x) (x ++ r) = Some (x, r).
Proof. induction x as [|b x IH]; [reflexivity|]. cbn [length app take_bits]. rewrite IH. reflexivity. Qed.

Lemma read_bits_n2b n v r : v < 2 ^ N.of_nat n -> read_bits n (N_to_bits n v ++ r) = Some (v, r).
Proof.
  intros Hv. unfold read_bits. rewrite <- (n2b_length n v) at 1.
  rewrite take_bits_app', bits_n2b, N.mod_small by exact Hv. reflexivity.
Qed.

Lemma rbits_n2b n v r : v < 2 ^ N.of_nat n -> rbits n (N_to_bits n v ++ r) = Ok (v, r).
Proof. intros H. unfold rbits. rewrite read_bits_n2b by exact H. reflexivity. Qed.
Lemma rbitsN_n2b n v r : v < 2 ^ n -> rbitsN n (N_to_bits (N.to_nat n) v ++ r) = Ok (v, r).
Proof. intros H. unfold rbitsN. apply rbits_n2b. rewrite N2Nat.id. exact H. Qed.

Lemma wb_ok n v out : n <= 56 -> v < 2 ^ n -> wb n v out = Some (out ++ N_to_bits (N.to_nat n) v).
Proof.
  intros Hn Hv. unfold wb.
  assert (E : N.shiftr v n = 0) by (rewrite N.shiftr_div_pow2; apply N.div_small; exact Hv).
  rewrite E. destruct (N.leb_spec n 56); [reflexivity|lia].
Qed.

(* ------------------------------------------------------------------ MLEN *)
Definition mnibbles_of (len : N) : N := if len - 1 <? 2 ^ 16 then 4 else if len - 1 <? 2 ^ 20 then 5 else 6.

Lemma encode_mlen_spec len : 1 <= len -> len <= 2 ^ 24 ->
  encode_mlen len = Some (len - 1, mnibbles_of len * 4, mnibbles_of len - 4).
Proof.
  intros H1 H2. unfold encode_mlen, mnibbles_of.
  destruct (N.ltb_spec 0 len); [|lia]. destruct (N.leb_spec len (2 ^ 24)); [|lia]. cbn [andb].
  destruct (N.eqb_spec len 1) as [->|Hne].
  - reflexivity.
  - assert (Ha : 0 < len - 1) by lia.
    assert (W : w32 (len - 1) = len - 1).
    { unfold w32. apply N.mod_small. change (2 ^ 24) with 16777216 in *. change (2 ^ 32) with 4294967296. lia. }
    rewrite W. unfold log2_floor_nonzero. destruct (N.eqb_spec (len - 1) 0); [lia|].
    set (a := len - 1) in *. set (l := N.log2 a).
    assert (L24 : l < 24) by (apply N.log2_lt_pow2; [exact Ha|change (2 ^ 24) with 16777216 in *; unfold a; lia]).
    destruct (N.leb_spec (l + 1) 24); [|lia].
    destruct (N.ltb_spec a (2 ^ 16)) as [A16|A16].
    + assert (L : l < 16) by (apply N.log2_lt_pow2; assumption).
      destruct (N.ltb_spec (l + 1) 16).
      * reflexivity.
      * assert (l + 1 = 16) by lia. replace (l + 1 + 3) with 19 by lia. reflexivity.
    + assert (L : 16 <= l) by (apply N.log2_le_pow2; assumption).
      destruct (N.ltb_spec (l + 1) 16); [lia|].
      destruct (N.ltb_spec a (2 ^ 20)) as [A20|A20].
      * assert (L' : l < 20) by (apply N.log2_lt_pow2; assumption).
        assert (E : (l + 1 + 3) / 4 = 5).
        { Ltac Zify.zify_post_hook ::= Z.to_euclidean_division_equations. lia. }
        rewrite E. reflexivity.
      * assert (L' : 20 <= l) by (apply N.log2_le_pow2; assumption).
        assert (E : (l + 1 + 3) / 4 = 6).
        { Ltac Zify.zify_post_hook ::= Z.to_euclidean_division_equations. lia. }
        rewrite E. reflexivity.
Qed.
Ltac Zify.zify_post_hook ::= idtac.

Lemma mnibbles_cases len : mnibbles_of len = 4 \/ mnibbles_of len = 5 \/ mnibbles_of len = 6.
Proof. unfold mnibbles_of. destruct (_ <? _); [auto|]. destruct (_ <? _); auto. Qed.

Lemma mlen_fits len : 1 <= len -> len <= 2 ^ 24 -> len - 1 < 2 ^ (mnibbles_of len * 4).
Proof.
  intros H1 H2. unfold mnibbles_of.
  destruct (N.ltb_spec (len - 1) (2 ^ 16)); [exact H|].
  destruct (N.ltb_spec (len - 1) (2 ^ 20)); [exact H0|].
  change (6 * 4) with 24. change (2 ^ 24) with 16777216 in *. lia.
Qed.

(* the MNIBBLES / MLEN fields written for a length are read back as that length *)
Lemma read_mlen_written len rest : 1 <= len -> len <= 2 ^ 24 ->
  read_mlen (N_to_bits 2 (mnibbles_of len - 4) ++ N_to_bits (N.to_nat (mnibbles_of len * 4)) (len - 1) ++ rest)
  = Ok (Some len, rest).
Proof.
  intros H1 H2. unfold read_mlen, bind.
  assert (C : mnibbles_of len - 4 < 2 ^ N.of_nat 2) by (destruct (mnibbles_cases len) as [-> | [-> | ->]]; reflexivity).
  rewrite rbits_n2b by exact C.
  assert (N3 : (mnibbles_of len - 4 =? 3) = false) by (destruct (mnibbles_cases len) as [-> | [-> | ->]]; reflexivity).
  rewrite N3.
  replace (4 * (4 + (mnibbles_of len - 4))) with (mnibbles_of len * 4)
    by (destruct (mnibbles_cases len) as [-> | [-> | ->]]; reflexivity).
  rewrite rbitsN_n2b by (apply mlen_fits; assumption).
  assert (Chk : ((4 <? 4 + (mnibbles_of len - 4)) && ((len - 1) / 2 ^ (4 * (4 + (mnibbles_of len - 4) - 1)) =? 0)) = false).
  { unfold mnibbles_of.
    destruct (N.ltb_spec (len - 1) (2 ^ 16)) as [A|A]; [reflexivity|].
    destruct (N.ltb_spec (len - 1) (2 ^ 20)) as [B|B].
    - change (4 * (4 + (5 - 4) - 1)) with 16. cbn [N.ltb]. change (4 <? 4 + (5 - 4)) with true. cbn [andb].
      apply N.eqb_neq. intros Z. apply N.div_small_iff in Z; [lia|discriminate].
    - change (4 * (4 + (6 - 4) - 1)) with 20. change (4 <? 4 + (6 - 4)) with true. cbn [andb].
      apply N.eqb_neq. intros Z. apply N.div_small_iff in Z; [lia|discriminate]. }
  rewrite Chk. unfold ret. f_equal. f_equal. f_equal. lia.
Qed.

(* ------------------------------------------------------------------ the three headers *)
Theorem compressed_header_roundtrip is_final len out rest : 1 <= len -> len <= 2 ^ 24 ->
  exists h, store_compressed_meta_block_header is_final len out = Some (out ++ h) /\
            read_mb_header (h ++ rest) = Ok ((is_final, MbData len false), rest).
Proof.
  intros H1 H2. unfold store_compressed_meta_block_header.
  rewrite (encode_mlen_spec len H1 H2).
  assert (M56 : mnibbles_of len * 4 <= 56) by (destruct (mnibbles_cases len) as [-> | [-> | ->]]; cbn; lia).
  assert (C : mnibbles_of len - 4 < 2 ^ 2) by (destruct (mnibbles_cases len) as [-> | [-> | ->]]; reflexivity).
  destruct is_final.
  - rewrite (wb_ok 1 1) by (cbn; lia). cbn [obind].
    rewrite (wb_ok 1 0) by (cbn; lia). cbn [obind].
    rewrite (wb_ok 2) by (try exact C; lia). cbn [obind].
    rewrite (wb_ok (mnibbles_of len * 4)) by (try exact M56; apply mlen_fits; assumption). cbn [obind].
    eexists. split; [rewrite <- !app_assoc; reflexivity|].
    rewrite <- !app_assoc. unfold read_mb_header, bind.
    rewrite (rbits_n2b 1 1) by reflexivity. cbn [N.eqb].
    rewrite (rbits_n2b 1 0) by reflexivity. cbn [N.eqb].
    rewrite read_mlen_written by assumption. reflexivity.
  - rewrite (wb_ok 1 0) by (cbn; lia). cbn [obind].
    rewrite (wb_ok 2) by (try exact C; lia). cbn [obind].
    rewrite (wb_ok (mnibbles_of len * 4)) by (try exact M56; apply mlen_fits; assumption). cbn [obind].
    rewrite (wb_ok 1 0) by (cbn; lia).
    eexists. split; [rewrite <- !app_assoc; reflexivity|].
    rewrite <- !app_assoc. unfold read_mb_header, bind.
    rewrite (rbits_n2b 1 0) by reflexivity. cbn [N.eqb]. unfold ret at 1. cbn [N.eqb].
    rewrite read_mlen_written by assumption.
    rewrite (rbits_n2b 1 0) by reflexivity. reflexivity.
Qed.

Theorem uncompressed_header_roundtrip len out rest : 1 <= len -> len <= 2 ^ 24 ->
  exists h, store_uncompressed_meta_block_header len out = Some (out ++ h) /\
            read_mb_header (h ++ rest) = Ok ((false, MbData len true), rest).
Proof.
  intros H1 H2. unfold store_uncompressed_meta_block_header.
  rewrite (encode_mlen_spec len H1 H2).
  assert (M56 : mnibbles_of len * 4 <= 56) by (destruct (mnibbles_cases len) as [-> | [-> | ->]]; cbn; lia).
  assert (C : mnibbles_of len - 4 < 2 ^ 2) by (destruct (mnibbles_cases len) as [-> | [-> | ->]]; reflexivity).
  rewrite (wb_ok 1 0) by (cbn; lia). cbn [obind].
  rewrite (wb_ok 2) by (try exact C; lia). cbn [obind].
  rewrite (wb_ok (mnibbles_of len * 4)) by (try exact M56; apply mlen_fits; assumption). cbn [obind].
  rewrite (wb_ok 1 1) by (cbn; lia).
  eexists. split; [rewrite <- !app_assoc; reflexivity|].
  rewrite <- !app_assoc. unfold read_mb_header, bind.
  rewrite (rbits_n2b 1 0) by reflexivity. cbn [N.eqb]. unfold ret at 1. cbn [N.eqb].
  rewrite read_mlen_written by assumption.
  rewrite (rbits_n2b 1 1) by reflexivity. reflexivity.
Qed.

(* the empty last meta-block: ISLAST = ISLASTEMPTY = 1, then zero bits up to the byte boundary *)
Theorem empty_last_roundtrip out rest :
  exists pad, write_empty_last_meta_block out = Some (out ++ [true; true] ++ repeat false pad) /\
              Nat.modulo (length out + 2 + pad) 8 = 0%nat /\ (pad < 8)%nat /\
              read_mb_header ([true; true] ++ rest) = Ok ((true, MbEmptyLast), rest).
Proof.
  unfold write_empty_last_meta_block.
  rewrite (wb_ok 1 1) by (cbn; lia). cbn [obind].
  rewrite (wb_ok 1 1) by (cbn; lia). cbn [obind].
  unfold jump_to_byte_boundary.
  exists (Nat.modulo (8 - Nat.modulo (length ((out ++ N_to_bits (N.to_nat 1) 1) ++ N_to_bits (N.to_nat 1) 1)) 8) 8).
  split; [rewrite <- !app_assoc; reflexivity|].
  rewrite !app_length. change (length (N_to_bits (N.to_nat 1) 1)) with 1%nat.
  set (L := length out).
  assert (Hm : (Nat.modulo (L + 1 + 1) 8 < 8)%nat) by (apply Nat.mod_upper_bound; discriminate).
  split; [|split; [apply Nat.mod_upper_bound; discriminate|reflexivity]].
  pose proof (Nat.div_mod (L + 1 + 1) 8 ltac:(discriminate)) as E.
  remember (Nat.modulo (L + 1 + 1) 8) as r eqn:Er. remember (Nat.div (L + 1 + 1) 8) as q eqn:Eq.
  destruct (Nat.eq_dec r 0) as [->|Hr].
  - change (Nat.modulo (8 - 0) 8) with 0%nat. replace (L + 2 + 0)%nat with (0 + q * 8)%nat by lia.
    apply Nat.mod_add. discriminate.
  - rewrite (Nat.mod_small (8 - r) 8) by lia. replace (L + 2 + (8 - r))%nat with (0 + (q + 1) * 8)%nat by lia.
    apply Nat.mod_add. discriminate.
Qed.

(* StoreVarLenUint8 (NBLTYPES - 1, NTREES - 1) against the 1..256 reader *)
Theorem var_len_uint8_roundtrip n out rest : n < 256 ->
  exists h, store_var_len_uint8 n out = Some (out ++ h) /\ read_1_256 (h ++ rest) = Ok (n + 1, rest).
Proof.
  intros Hn. unfold store_var_len_uint8.
  destruct (N.eqb_spec n 0) as [->|Hne].
  - rewrite (wb_ok 1 0) by (cbn; lia). eexists. split; [reflexivity|].
    unfold read_1_256, bind. rewrite (rbits_n2b 1 0) by reflexivity. reflexivity.
  - unfold log2_floor_nonzero. destruct (N.eqb_spec n 0); [lia|].
    set (l := N.log2 n).
    assert (L8 : l < 8) by (apply N.log2_lt_pow2; [lia|exact Hn]).
    assert (W8 : w8 l = l) by (unfold w8; apply N.mod_small; change (2 ^ 8) with 256; lia).
    rewrite W8.
    destruct (N.log2_spec n ltac:(lia)) as [Lo Hi]. fold l in Lo, Hi.
    assert (Sh : wshl64 1 l = 2 ^ l).
    { unfold wshl64, w64. rewrite N.shiftl_1_l. apply N.mod_small.
      apply (N.lt_le_trans _ (2 ^ 8)); [apply N.pow_lt_mono_r; lia|]. discriminate. }
    rewrite Sh.
    assert (Sub : wsub64 n (2 ^ l) = n - 2 ^ l).
    { unfold wsub64, w64. rewrite (N.mod_small (2 ^ l)) by (apply (N.le_lt_trans _ n); [exact Lo|]; change (2 ^ 64) with 18446744073709551616; lia).
      replace (n + 2 ^ 64 - 2 ^ l) with ((n - 2 ^ l) + 1 * 2 ^ 64) by lia. rewrite N.mod_add by discriminate.
      apply N.mod_small. change (2 ^ 64) with 18446744073709551616. lia. }
    rewrite Sub.
    rewrite (wb_ok 1 1) by (cbn; lia). cbn [obind].
    rewrite (wb_ok 3 l) by (try lia; change (2 ^ 3) with 8; exact L8). cbn [obind].
    assert (X : n - 2 ^ l < 2 ^ l) by (rewrite N.pow_succ_r' in Hi; lia).
    rewrite (wb_ok l) by (try exact X; lia).
    eexists. split; [rewrite <- !app_assoc; reflexivity|].
    rewrite <- !app_assoc. unfold read_1_256, bind.
    rewrite (rbits_n2b 1 1) by reflexivity. cbn [N.eqb].
    rewrite (rbits_n2b 3 l) by (change (2 ^ N.of_nat 3) with 8; exact L8).
    destruct (N.eqb_spec l 0) as [Z0|NZ].
    + (* n = 1 *) rewrite Z0 in *. change (2 ^ 0) with 1 in *. cbn [N.to_nat N_to_bits app].
      unfold ret. f_equal. f_equal. change (2 ^ N.succ 0) with 2 in Hi. lia.
    + rewrite rbitsN_n2b by exact X. unfold ret. f_equal. f_equal. lia.
Qed.

(* ------------------------------------------------------------------ context tables *)
(* the encoder's literal-context lookup tables (constants.rs, regenerated) are the RFC's Lut0/Lut1/Lut2,
   so encoder and decoder spec compute the same context ID for every pair of previous bytes *)
From V Require Import gen.GenFormat.
Lemma context_tables_match :
  rfc_lut0 ++ rfc_lut1 = kUTF8ContextLookup /\ rfc_lut2 = kSigned3BitContextLookup.
Proof. split; reflexivity. Qed.

Definition enc_context (mode p1 p2 : N) : N :=
  if mode =? 0 then N.land p1 63
  else if mode =? 1 then N.shiftr p1 2
  else if mode =? 2 then N.lor (nthN kUTF8ContextLookup p1) (nthN kUTF8ContextLookup (256 + p2))
  else N.shiftl (nthN kSigned3BitContextLookup p1) 3 + nthN kSigned3BitContextLookup p2.

Lemma context_id_matches_encoder mode p1 p2 : mode < 4 -> p1 < 256 -> p2 < 256 ->
  context_id mode p1 p2 = enc_context mode p1 p2.
Proof.
  intros Hm H1 H2.
  assert (A : forallb (fun m => forallb (fun a => forallb (fun b => context_id m a b =? enc_context m a b)
                (seqN 0 256)) (seqN 0 256)) [0; 1; 2; 3] = true) by (vm_compute; reflexivity).
  rewrite forallb_forall in A.
  assert (Im : In mode [0; 1; 2; 3]).
  { assert (mode = 0 \/ mode = 1 \/ mode = 2 \/ mode = 3) by lia. cbn. intuition. }
  specialize (A mode Im). rewrite forallb_forall in A.
  assert (In_seq : forall x, x < 256 -> In x (seqN 0 256)).
  { intros x Hx. assert (G : forall n lo, lo <= x -> x < lo + N.of_nat n -> In x (seqN lo n)).
    { induction n as [|n IH]; intros lo L U; [lia|]. cbn [seqN].
      destruct (N.eq_dec x lo) as [->|Hne]; [left; reflexivity|right; apply IH; lia]. }
    apply G; [lia|cbn; lia]. }
  specialize (A p1 (In_seq p1 H1)). rewrite forallb_forall in A.
  specialize (A p2 (In_seq p2 H2)). apply N.eqb_eq in A. exact A.
Qed.
