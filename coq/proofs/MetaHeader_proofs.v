(* write_metadata_header (model/Stream.v: metadata_header_bits) against the RFC reader. *)
From Coq Require Import NArith ZArith List Bool Lia.
From V Require Import lib.Words lib.Finite model.Stream spec.MetaHeader.
Open Scope N_scope.

(* number of length bytes chosen by the encoder *)
Definition nbytes_of (n : N) : N :=
  let nbits := if n =? 1 then 1 else log2_floor_nonzero (w32 (n - 1)) + 1 in (nbits + 7) / 8.

Lemma nbytes_of_class n : 1 <= n -> n <= 2 ^ 24 ->
  (n <= 256 /\ nbytes_of n = 1) \/ (256 < n /\ n <= 65536 /\ nbytes_of n = 2) \/ (65536 < n /\ nbytes_of n = 3).
Proof.
  intros H1 H2. unfold nbytes_of.
  destruct (N.eqb_spec n 1) as [->|Hn1]; [left; split; [lia|reflexivity]|].
  assert (Hw : w32 (n - 1) = n - 1) by (apply N.mod_small; lia). rewrite Hw.
  unfold log2_floor_nonzero. destruct (N.eqb_spec (n - 1) 0) as [E|_]; [lia|].
  remember (N.log2 (n - 1)) as b eqn:Eb.
  assert (Hb : 2 ^ b <= n - 1 /\ n - 1 < 2 ^ N.succ b) by (rewrite Eb; apply N.log2_spec; lia).
  destruct Hb as [Hb1 Hb2].
  assert (Hb24 : b < 24) by (rewrite Eb; apply N.log2_lt_pow2; lia).
  assert (C : (n <= 256 /\ b < 8) \/ (256 < n /\ n <= 65536 /\ 8 <= b /\ b < 16) \/ (65536 < n /\ 16 <= b)).
  { destruct (N.le_gt_cases n 256) as [Ha|Ha].
    - left. split; [exact Ha|]. rewrite Eb. apply N.log2_lt_pow2; lia.
    - right. destruct (N.le_gt_cases n 65536) as [Hc|Hc].
      + left. repeat split; try assumption.
        * rewrite Eb. change 8 with (N.log2 (2 ^ 8)). apply N.log2_le_mono. lia.
        * rewrite Eb. apply N.log2_lt_pow2; lia.
      + right. split; [exact Hc|]. rewrite Eb. change 16 with (N.log2 (2 ^ 16)). apply N.log2_le_mono. lia. }
  clear Hb1 Hb2 Eb.
  Ltac Zify.zify_post_hook ::= Z.to_euclidean_division_equations.
  destruct C as [[Ca Cb]|[[Ca [Cb [Cc Cd]]]|[Ca Cb]]]; [left|right; left|right; right]; repeat split; try assumption; lia.
Qed.
Ltac Zify.zify_post_hook ::= idtac.

(* closed form of the header for a non-empty block *)
Lemma carry_mask lb lbb : lbb < 16 -> lb < 2 ^ lbb -> lb mod 2 ^ (8 * (lbb / 8 + 1)) = lb.
Proof.
  intros Hl Hb. apply N.mod_small. eapply N.lt_le_trans; [exact Hb|]. apply N.pow_le_mono_r; [lia|].
  assert (lbb < 8 \/ 8 <= lbb) as [H|H] by lia.
  - rewrite (N.div_small lbb 8) by exact H. lia.
  - assert (E : lbb / 8 = 1).
    { symmetry. apply (N.div_unique lbb 8 1 (lbb - 8)); lia. }
    rewrite E. lia.
Qed.

Lemma header_bits_nonempty lb lbb n : lbb < 16 -> lb < 2 ^ lbb -> 1 <= n ->
  metadata_header_bits lb lbb n =
    (lb + 3 * 2 ^ (lbb + 1) + nbytes_of n * 2 ^ (lbb + 4) + (n - 1) * 2 ^ (lbb + 6), lbb + 6 + 8 * nbytes_of n).
Proof.
  intros Hl Hb Hn. unfold metadata_header_bits, nbytes_of.
  destruct (N.eqb_spec n 0) as [E|_]; [lia|].
  rewrite (carry_mask lb lbb Hl Hb). rewrite !N.shiftl_mul_pow2.
  f_equal; [|lia].
  replace (lbb + 4 + 2) with (lbb + 6) by lia. reflexivity.
Qed.

Lemma header_bits_empty lb lbb : lbb < 16 -> lb < 2 ^ lbb ->
  metadata_header_bits lb lbb 0 = (lb + 3 * 2 ^ (lbb + 1), lbb + 6).
Proof.
  intros Hl Hb. unfold metadata_header_bits. cbn [N.eqb].
  rewrite (carry_mask lb lbb Hl Hb). rewrite N.shiftl_mul_pow2. f_equal. lia.
Qed.

Ltac Zify.zify_post_hook ::= Z.to_euclidean_division_equations.

(* the arithmetic core for a concrete carry width and a concrete number of length bytes *)
Definition hdr_ok (lbb k : N) : Prop :=
  forall lb n, lb < 2 ^ lbb -> 1 <= n -> n - 1 < 2 ^ (8 * k) -> (1 < k -> 2 ^ (8 * (k - 1)) <= n - 1) ->
  let v := lb + 3 * 2 ^ (lbb + 1) + k * 2 ^ (lbb + 4) + (n - 1) * 2 ^ (lbb + 6) in
  rfc_read_metadata_header v lbb = Some (n, 8 * ((lbb + 6 + 8 * k + 7) / 8)) /\ v mod 2 ^ lbb = lb.

(* a term without variables *)
Ltac closed t := lazymatch t with context [?x] => tryif is_var x then fail else fail 0 | _ => idtac end.
Ltac no_var t := match t with | context [?x] => is_var x; fail 1 | _ => idtac end.
Ltac norm_consts :=
  repeat match goal with
  | |- context [N.pow 2 ?e] => no_var e; let c := eval vm_compute in (N.pow 2 e) in change (N.pow 2 e) with c
  | |- context [N.mul 8 ?e] => no_var e; let c := eval vm_compute in (N.mul 8 e) in progress change (N.mul 8 e) with c
  | |- context [N.add ?a ?b] => no_var a; no_var b; let c := eval vm_compute in (N.add a b) in change (N.add a b) with c
  | |- context [N.sub ?a ?b] => no_var a; no_var b; let c := eval vm_compute in (N.sub a b) in change (N.sub a b) with c
  | |- context [N.div ?a ?b] => no_var a; no_var b; let c := eval vm_compute in (N.div a b) in change (N.div a b) with c
  | |- context [N.ltb ?a ?b] => no_var a; no_var b; let c := eval vm_compute in (N.ltb a b) in change (N.ltb a b) with c
  | |- context [N.eqb ?a ?b] => no_var a; no_var b; let c := eval vm_compute in (N.eqb a b) in change (N.eqb a b) with c
  end; cbn [andb negb]; cbv iota.

Ltac hdr_case kk :=
  unfold hdr_ok; intros lb n Hlb Hn Hhi Hlo; cbn in Hlb, Hhi;
  try (specialize (Hlo ltac:(lia)); cbn in Hlo);
  unfold rfc_read_metadata_header, field; norm_consts;
  repeat (match goal with |- context [((?v / ?c) mod 4)] =>
    let E := fresh in
    first [assert (E : (v / c) mod 4 = kk) by lia | assert (E : (v / c) mod 4 = 3) by lia];
    rewrite !E; clear E end);
  norm_consts;
  repeat (match goal with
   | |- context [if negb (?a =? ?b) then _ else _] => destruct (N.eqb_spec a b); cbn [negb]; [|exfalso; lia]
   | |- context [if (?a =? ?b) then _ else _] => destruct (N.eqb_spec a b); [try (exfalso; lia)|try (exfalso; lia)]
   end);
  (split; [f_equal; f_equal; lia | lia]).

Lemma hdr_all : forall lbb k, lbb < 15 -> 1 <= k -> k <= 3 -> hdr_ok lbb k.
Proof.
  intros lbb k Hl Hk1 Hk3.
  assert (Cl : lbb = 0 \/ lbb = 1 \/ lbb = 2 \/ lbb = 3 \/ lbb = 4 \/ lbb = 5 \/ lbb = 6 \/ lbb = 7 \/
               lbb = 8 \/ lbb = 9 \/ lbb = 10 \/ lbb = 11 \/ lbb = 12 \/ lbb = 13 \/ lbb = 14) by lia.
  assert (Ck : k = 1 \/ k = 2 \/ k = 3) by lia.
  destruct Ck as [->|[->| ->]];
  destruct Cl as [->|[->|[->|[->|[->|[->|[->|[->|[->|[->|[->|[->|[->|[->| ->]]]]]]]]]]]]]].
  all: try (hdr_case 1).
  all: try (hdr_case 2).
  all: try (hdr_case 3).
Qed.

(* the empty metadata block (MSKIPBYTES = 0) *)
Lemma hdr_empty : forall lbb lb, lbb < 15 -> lb < 2 ^ lbb ->
  let v := lb + 3 * 2 ^ (lbb + 1) in
  rfc_read_metadata_header v lbb = Some (0, 8 * ((lbb + 6 + 7) / 8)) /\ v mod 2 ^ lbb = lb.
Proof.
  intros lbb lb Hl.
  assert (Cl : lbb = 0 \/ lbb = 1 \/ lbb = 2 \/ lbb = 3 \/ lbb = 4 \/ lbb = 5 \/ lbb = 6 \/ lbb = 7 \/
               lbb = 8 \/ lbb = 9 \/ lbb = 10 \/ lbb = 11 \/ lbb = 12 \/ lbb = 13 \/ lbb = 14) by lia.
  destruct Cl as [->|[->|[->|[->|[->|[->|[->|[->|[->|[->|[->|[->|[->|[->| ->]]]]]]]]]]]]]];
  intros Hlb; cbn in Hlb; cbv zeta;
  unfold rfc_read_metadata_header, field; norm_consts;
  repeat (match goal with |- context [((?v / ?c) mod 4)] =>
    let E := fresh in
    first [assert (E : (v / c) mod 4 = 0) by lia | assert (E : (v / c) mod 4 = 3) by lia];
    rewrite !E; clear E end);
  norm_consts;
  repeat (match goal with
   | |- context [if negb (?a =? ?b) then _ else _] => destruct (N.eqb_spec a b); cbn [negb]; [|exfalso; lia]
   | |- context [if (?a =? ?b) then _ else _] => destruct (N.eqb_spec a b); [try (exfalso; lia)|try (exfalso; lia)]
   end);
  (split; [reflexivity | lia]).
Qed.
Ltac Zify.zify_post_hook ::= idtac.

Theorem metadata_header_correct lb lbb n : lbb < 15 -> lb < 2 ^ lbb -> n <= 2 ^ 24 ->
  rfc_read_metadata_header (fst (metadata_header_bits lb lbb n)) lbb
    = Some (n, 8 * ((snd (metadata_header_bits lb lbb n) + 7) / 8))
  /\ fst (metadata_header_bits lb lbb n) mod 2 ^ lbb = lb.
Proof.
  intros Hl Hb Hn.
  destruct (N.eq_dec n 0) as [->|Hn0].
  - rewrite header_bits_empty by (lia || exact Hb). cbn [fst snd]. exact (hdr_empty lbb lb Hl Hb).
  - rewrite header_bits_nonempty by (lia || exact Hb). cbn [fst snd].
    destruct (nbytes_of_class n ltac:(lia) Hn) as [[Ha Hk]|[[Ha [Hb' Hk]]|[Ha Hk]]]; rewrite Hk.
    + apply (hdr_all lbb 1 Hl ltac:(lia) ltac:(lia) lb n Hb ltac:(lia)); [cbn; lia|intros H; lia].
    + apply (hdr_all lbb 2 Hl ltac:(lia) ltac:(lia) lb n Hb ltac:(lia)); [cbn; lia|intros _; cbn; lia].
    + apply (hdr_all lbb 3 Hl ltac:(lia) ltac:(lia) lb n Hb ltac:(lia)); [cbn; lia|intros _; cbn; lia].
Qed.

(* The header as computed before fix 1446edb: a 1-byte block is announced as EMPTY, so a
   conforming decoder does not skip the payload byte and parses it as the next header. *)
Theorem metadata_header_asfound_refuted :
  exists lb lbb, lbb < 8 /\ lb < 2 ^ lbb /\
    rfc_read_metadata_header (fst (metadata_header_bits_asfound lb lbb 1)) lbb = Some (0, 8).
Proof. exists 0, 0. vm_compute. repeat split; reflexivity. Qed.
