(* C06_hasher: the index CompressMulti hands to a job (favor_cpu_efficiency) against the index
   the job builds itself, through the split law of C19 (proofs/Hashers_proofs.v).
   `supplied_index`: the ranges of Multi.shared_ranges stored one after the other into one
   hasher over the whole input.  `local_index`: StoreLookaheadThenStore over a dictionary. *)
From Coq Require Import NArith ZArith List Bool Lia.
From V Require Import lib.Words model.Multi proofs.Multi_proofs.
From V Require Import lib.Finite gen.GenHashers model.Hashers spec.HasherSpec proofs.Hashers_proofs.
Import ListNotations.
Open Scope N_scope.

Definition supplied_index {S : Type} (call : S -> N -> N -> res S) (st0 : S) (pcs : list (N * N)) : res S :=
  fold_left (fun r p => bind r (fun st => call st (fst p) (snd p))) pcs (Ok st0).

(* StoreLookaheadThenStore(hasher, size, dict): BulkStoreRange(dict, usize::MAX, 0, size - overlap) if size > overlap *)
Definition local_index {S : Type} (call : S -> N -> N -> res S) (st0 : S) (ov size : N) : res S :=
  if ov <? size then call st0 0 (size - ov) else Ok st0.

Lemma supplied_fold_pieces {S} (call : S -> N -> N -> res S) pcs : forall h r,
  contiguous_from h pcs ->
  fold_left (fun r p => bind r (fun st => call st (fst p) (snd p))) pcs r = pieces call (map snd pcs) h r
  /\ ascending h (map snd pcs) /\ last_cut h (map snd pcs) = last_end h pcs.
Proof.
  induction pcs as [|[s e] pcs IH]; intros h r Hc.
  - cbn. auto.
  - cbn [contiguous_from] in Hc. destruct Hc as [-> [Hlt Hrest]].
    destruct (IH e (bind r (fun st => call st h e)) Hrest) as [H1 [H2 H3]].
    cbn [fold_left map pieces ascending fst snd]. split; [exact H1|]. split; [split; [lia|exact H2]|].
    rewrite last_cut_cons. unfold last_end in *. cbn [fold_left snd]. exact H3.
Qed.

Lemma contiguous_last_end h pcs : contiguous_from h pcs -> pcs <> [] -> h < last_end h pcs.
Proof.
  revert h. induction pcs as [|[s e] pcs IH]; intros h Hc Hne; [congruence|].
  cbn [contiguous_from] in Hc. destruct Hc as [-> [Hlt Hrest]]. unfold last_end. cbn [fold_left snd].
  destruct pcs as [|q pcs]; [cbn; exact Hlt|].
  fold (last_end e (q :: pcs)). pose proof (IH e Hrest ltac:(discriminate)). lia.
Qed.

(* the generic statement: whenever consecutive calls amount to one call (the split law, for
   the cuts in question), the supplied index is the local one *)
Lemma handoff_generic {S} (call : S -> N -> N -> res S) st0 ov size pcs :
  contiguous_from 0 pcs -> last_end 0 pcs = size - ov ->
  (forall cuts, cuts <> [] -> ascending 0 cuts -> last_cut 0 cuts = size - ov ->
                pieces call cuts 0 (Ok st0) = call st0 0 (last_cut 0 cuts)) ->
  supplied_index call st0 pcs = local_index call st0 ov size.
Proof.
  intros Hc Hl Hsplit. unfold supplied_index, local_index.
  destruct (supplied_fold_pieces call pcs 0 (Ok st0) Hc) as [H1 [H2 H3]]. rewrite H1.
  destruct pcs as [|p pcs].
  - cbn [map pieces]. cbn in Hl. destruct (N.ltb_spec ov size); [lia|reflexivity].
  - pose proof (contiguous_last_end 0 (p :: pcs) Hc ltac:(discriminate)) as Hpos.
    destruct (N.ltb_spec ov size); [|lia].
    rewrite Hsplit; [rewrite H3, Hl; reflexivity|discriminate|exact H2|rewrite H3; exact Hl].
Qed.

(* with the ranges of the repaired CompressMulti *)
Lemma handoff_repaired {S} (call : S -> N -> N -> res S) st0 pr ov t n i :
  0 < t -> t * n < 2 ^ 64 -> i <= t ->
  (forall cuts, cuts <> [] -> ascending 0 cuts -> last_cut 0 cuts = i * n / t - ov ->
                pieces call cuts 0 (Ok st0) = call st0 0 (last_cut 0 cuts)) ->
  exists pcs, shared_ranges Multi.Repaired pr ov t n i = Bound.Ok pcs /\
              supplied_index call st0 pcs = local_index call st0 ov (i * n / t).
Proof.
  intros Ht Hn Hi Hsplit. destruct (shared_ranges_repaired pr ov t n i Ht Hn Hi) as [pcs [H1 [H2 H3]]].
  exists pcs. split; [exact H1|]. apply handoff_generic; assumption.
Qed.

(* ---- per hasher kind, through C19's split theorems; d is the whole input, mask = usize::MAX ---- *)
Lemma handoff_basic p (Hp : bp_ok p) pr t n i d st :
  0 < t -> t * n < 2 ^ 64 -> i <= t -> n <= blen d -> n < 2 ^ 63 ->
  exists pcs, shared_ranges Multi.Repaired pr 7 t n i = Bound.Ok pcs /\
    supplied_index (basic_bulk_store_range Hashers.Repaired p d USIZE_MAX) st pcs
    = local_index (basic_bulk_store_range Hashers.Repaired p d USIZE_MAX) st 7 (i * n / t).
Proof.
  intros Ht Hn Hi Hd H63. apply handoff_repaired; try assumption.
  intros cuts _ Hasc Hlast. apply basic_split_eq; [exact Hp|exact Hasc|].
  intros Hpos. rewrite Hlast in *.
  assert (Hle : i * n / t <= n) by (apply range_le_n; assumption).
  split; [lia|]. left. split; [reflexivity|lia].
Qed.

Lemma handoff_adv32 pr t n i d st :
  adv32_ok (a_spec st) -> adv_lens_ok st = true ->
  0 < t -> t * n < 2 ^ 64 -> i <= t -> n <= blen d -> n < 2 ^ 63 ->
  exists pcs, shared_ranges Multi.Repaired pr 3 t n i = Bound.Ok pcs /\
    supplied_index (adv_bulk_store_range d USIZE_MAX) st pcs = local_index (adv_bulk_store_range d USIZE_MAX) st 3 (i * n / t).
Proof.
  intros Hok Hlens Ht Hn Hi Hd H63. apply handoff_repaired; try assumption.
  intros cuts _ Hasc Hlast. apply adv_split_eq; [exact Hok|exact Hlens|exact Hasc|].
  intros Hpos. rewrite Hlast in *.
  assert (Hle : i * n / t <= n) by (apply range_le_n; assumption).
  split; [lia|]. left. split; [reflexivity|lia].
Qed.

Lemma handoff_h6 pr ov t n i d st : ak (a_spec st) = AK_H6 ->
  0 < t -> t * n < 2 ^ 64 -> i <= t ->
  exists pcs, shared_ranges Multi.Repaired pr ov t n i = Bound.Ok pcs /\
    supplied_index (adv_bulk_store_range d USIZE_MAX) st pcs = local_index (adv_bulk_store_range d USIZE_MAX) st ov (i * n / t).
Proof.
  intros Hk Ht Hn Hi. apply handoff_repaired; try assumption.
  intros cuts _ Hasc _. apply adv_h6_split_eq; assumption.
Qed.

Lemma handoff_h9 pr ov t n i d st :
  0 < t -> t * n < 2 ^ 64 -> i <= t ->
  exists pcs, shared_ranges Multi.Repaired pr ov t n i = Bound.Ok pcs /\
    supplied_index (h9_bulk_store_range d USIZE_MAX) st pcs = local_index (h9_bulk_store_range d USIZE_MAX) st ov (i * n / t).
Proof.
  intros Ht Hn Hi. apply handoff_repaired; try assumption.
  intros cuts _ Hasc _. exact (loop_split_eq (h9_store d USIZE_MAX) st 0 cuts Hasc).
Qed.

Lemma handoff_h10 pr ov t n i d st :
  0 < t -> t * n < 2 ^ 64 -> i <= t ->
  exists pcs, shared_ranges Multi.Repaired pr ov t n i = Bound.Ok pcs /\
    supplied_index (h10_bulk_store_range d USIZE_MAX) st pcs = local_index (h10_bulk_store_range d USIZE_MAX) st ov (i * n / t).
Proof.
  intros Ht Hn Hi. apply handoff_repaired; try assumption.
  intros cuts _ Hasc _. exact (loop_split_eq (h10_store d USIZE_MAX) st 0 cuts Hasc).
Qed.

(* ---- witnesses on a concrete hasher (H9, the quality-9 kind) ---- *)
Definition wit_data : buf := {| blen := 2200; bget := fun i => (i * i * 7 + i * 13 + 5) mod 251 |}.
Definition view (d : buf) (off len : N) : buf := {| blen := len; bget := fun i => bget d (off + i) |}.
Definition h9_init : h9_state :=
  {| h9_common := []; h9_num := tnew (N.shiftl 1 H9_BUCKET_BITS) 0;
     h9_buckets := tnew (N.shiftl 1 (H9_BUCKET_BITS + H9_BLOCK_BITS)) 0 |}.
Definition res_h9_eqb (a b : res h9_state) : bool :=
  match a, b with Ok x, Ok y => h9_eqb x y | Panic, Panic => true | _, _ => false end.

(* quality 9, lgwin 10, 2 jobs, 2200 bytes: job 1's prefix of 1100 bytes is cut to its last
   1008; the supplied index holds positions 0..1096 of the input, the job's own index holds
   positions 0..1004 of the tail: different tables.  As found the supplied one was compared
   (dev: assertion failure) or used (release). *)
Lemma truncated_prefix_index_differs :
  let p := mkParams 9 10 false false false false true 0 in
  let dd := set_custom_dictionary Multi.AsFound Dev (job_pre_params 1 p) 1100 true in
  dd_mode dd = HChecked /\ dd_offset dd = 92 /\ dd_size dd = 1008 /\
  shared_ranges Multi.AsFound Dev 3 2 2200 1 = Bound.Ok [(0, 1097)] /\
  res_h9_eqb (supplied_index (h9_bulk_store_range wit_data USIZE_MAX) h9_init [(0, 1097)])
             (local_index (h9_bulk_store_range (view wit_data 92 1008) USIZE_MAX) h9_init 3 1008) = false /\
  (* the repaired job builds its own *)
  dd_mode (set_custom_dictionary Multi.Repaired Dev (job_pre_params 1 p) 1100 true) = HLocal.
Proof. cbn zeta. vm_compute. repeat split; reflexivity. Qed.

(* 3 jobs, 10 bytes (chunks 3,3,4; lookahead overlap 3): as found nothing is supplied to job 2,
   which indexes position 0..2 of its 6-byte prefix itself *)
Lemma short_chunks_index_differs :
  shared_ranges Multi.AsFound Dev 3 3 10 2 = Bound.Ok [] /\
  res_h9_eqb (supplied_index (h9_bulk_store_range wit_data USIZE_MAX) h9_init [])
             (local_index (h9_bulk_store_range wit_data USIZE_MAX) h9_init 3 6) = false /\
  shared_ranges Multi.Repaired Dev 3 3 10 2 = Bound.Ok [(0, 3)] /\
  res_h9_eqb (supplied_index (h9_bulk_store_range wit_data USIZE_MAX) h9_init [(0, 3)])
             (local_index (h9_bulk_store_range wit_data USIZE_MAX) h9_init 3 6) = true.
Proof. vm_compute. repeat split; reflexivity. Qed.

(* a job whose prefix is no longer than the overlap (in particular the prefix of at most one byte
   for which set_custom_dictionary keeps the supplied hasher unseen) is supplied an empty index *)
Lemma short_prefix_supplied_empty pr ov t n i : 0 < t -> t * n < 2 ^ 64 -> i <= t -> i * n / t <= ov ->
  shared_ranges Multi.Repaired pr ov t n i = Bound.Ok [].
Proof.
  intros Ht Hn Hi Hs. destruct (shared_ranges_repaired pr ov t n i Ht Hn Hi) as [pcs [H1 [H2 H3]]].
  destruct pcs as [|q pcs]; [exact H1|].
  pose proof (contiguous_last_end 0 (q :: pcs) H2 ltac:(discriminate)). lia.
Qed.
