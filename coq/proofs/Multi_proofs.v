(* Proofs about model/Multi.v (C02, C06): ranges, stitching, hand-back, schedules. *)
From Coq Require Import NArith ZArith List Bool Lia.
From V Require Import lib.Words gen.GenBound gen.GenMulti model.Bound model.Multi.
Import ListNotations.
Open Scope N_scope.

(* ------------------------------------------------------------------------------------------ *)
(* get_range *)

Lemma mul_usize_small pr a b : a * b < 2 ^ 64 -> mul_usize pr a b = Ok (a * b).
Proof.
  intros H. unfold mul_usize. destruct (N.leb_spec (2 ^ 64) (a * b)) as [Hle|_]; [lia|reflexivity].
Qed.

Lemma mul_le_mono_l' a b c : a <= b -> a * c <= b * c.
Proof. intros H. apply N.mul_le_mono_r. exact H. Qed.

Lemma get_range_value pr i t n : 0 < t -> i < t -> t * n < 2 ^ 64 ->
  get_range pr i t n = Ok (i * n / t, (i + 1) * n / t).
Proof.
  intros Ht Hi Hn. unfold get_range.
  destruct (N.eqb_spec t 0) as [->|_]; [lia|].
  assert (H1 : (i + 1) * n <= t * n) by (apply N.mul_le_mono_r; lia).
  assert (H0 : i * n <= (i + 1) * n) by (apply N.mul_le_mono_r; lia).
  rewrite (mul_usize_small pr i n) by lia.
  rewrite (mul_usize_small pr (i + 1) n) by lia.
  reflexivity.
Qed.

(* start of chunk 0, end of the last chunk, monotonicity, and the chunk lengths *)
Lemma range_first n t : 0 * n / t = 0.
Proof. rewrite N.mul_0_l. destruct t; reflexivity. Qed.

Lemma range_last n t : 0 < t -> t * n / t = n.
Proof. intros H. rewrite N.mul_comm. apply N.div_mul. lia. Qed.

Lemma range_mono i n t : 0 < t -> i * n / t <= (i + 1) * n / t.
Proof. intros H. apply N.div_le_mono; [lia|]. apply N.mul_le_mono_r. lia. Qed.

Lemma range_le_n i n t : 0 < t -> i <= t -> i * n / t <= n.
Proof.
  intros Ht Hi. rewrite <- (range_last n t Ht) at 2. apply N.div_le_mono; [lia|].
  apply N.mul_le_mono_r. exact Hi.
Qed.

(* every chunk has floor(n/t) or floor(n/t)+1 bytes *)
Lemma range_len i n t : 0 < t ->
  n / t <= (i + 1) * n / t - i * n / t /\ (i + 1) * n / t - i * n / t <= n / t + 1.
Proof.
  intros Ht.
  assert (Ht0 : t <> 0) by lia.
  pose proof (N.div_mod (i * n) t Ht0) as Ha. pose proof (N.mod_lt (i * n) t Ht0) as Ha2.
  pose proof (N.div_mod n t Ht0) as Hb. pose proof (N.mod_lt n t Ht0) as Hb2.
  pose proof (N.div_mod ((i + 1) * n) t Ht0) as Hc. pose proof (N.mod_lt ((i + 1) * n) t Ht0) as Hc2.
  assert (He : (i + 1) * n = i * n + n) by lia.
  remember (i * n / t) as qa. remember ((i * n) mod t) as ra.
  remember (n / t) as qb. remember (n mod t) as rb.
  remember ((i + 1) * n / t) as qc. remember (((i + 1) * n) mod t) as rc.
  remember (i * n) as A. remember ((i + 1) * n) as C.
  (* t*qc + rc = t*qa + ra + t*qb + rb *)
  assert (Hkey : t * qc + rc = t * (qa + qb) + (ra + rb)) by lia.
  split.
  - (* qc >= qa + qb *)
    destruct (N.lt_ge_cases qc (qa + qb)) as [Hlt|Hge]; [|lia].
    assert (t * (qc + 1) <= t * (qa + qb)) by (apply N.mul_le_mono_l; lia). lia.
  - destruct (N.lt_ge_cases (qa + qb + 1) qc) as [Hlt|Hge]; [|lia].
    assert (t * (qa + qb + 2) <= t * qc) by (apply N.mul_le_mono_l; lia). lia.
Qed.

Lemma get_range_overflow i t n : 0 < t -> 2 ^ 64 <= (i + 1) * n -> get_range Dev i t n = Panic.
Proof.
  intros Ht H. unfold get_range. destruct (N.eqb_spec t 0) as [->|_]; [reflexivity|].
  unfold mul_usize at 2. destruct (N.leb_spec (2 ^ 64) ((i + 1) * n)) as [_|Hlt]; [|lia].
  destruct (mul_usize Dev i n); reflexivity.
Qed.

(* the property, in one statement *)
Definition partition_stmt (pr : profile) (t n : N) : Prop :=
  (forall i, i < t -> exists s e, get_range pr i t n = Ok (s, e) /\ s <= e /\ e <= n
                                  /\ n / t <= e - s /\ e - s <= n / t + 1) /\
  (exists e, get_range pr 0 t n = Ok (0, e)) /\
  (exists s, get_range pr (t - 1) t n = Ok (s, n)) /\
  (forall i, i + 1 < t -> exists s m e, get_range pr i t n = Ok (s, m) /\ get_range pr (i + 1) t n = Ok (m, e)).

Lemma ranges_partition pr t n : 0 < t -> t * n < 2 ^ 64 -> partition_stmt pr t n.
Proof.
  intros Ht Hn. unfold partition_stmt. repeat split.
  - intros i Hi. exists (i * n / t), ((i + 1) * n / t).
    split; [apply get_range_value; assumption|].
    split; [apply range_mono; exact Ht|].
    split; [apply range_le_n; [exact Ht|lia]|].
    apply range_len. exact Ht.
  - exists ((0 + 1) * n / t). rewrite get_range_value by assumption. rewrite range_first. reflexivity.
  - exists ((t - 1) * n / t). rewrite get_range_value by (try assumption; lia).
    replace (t - 1 + 1) with t by lia. rewrite range_last by exact Ht. reflexivity.
  - intros i Hi. exists (i * n / t), ((i + 1) * n / t), ((i + 1 + 1) * n / t).
    split; apply get_range_value; try assumption; lia.
Qed.

(* the bound is exact: at t * n >= 2^64 the last chunk's product overflows (dev profile) *)
Lemma ranges_bound_exact t n : 0 < t -> 2 ^ 64 <= t * n -> get_range Dev (t - 1) t n = Panic.
Proof.
  intros Ht H. apply get_range_overflow; [exact Ht|]. replace (t - 1 + 1) with t by lia. exact H.
Qed.

(* ------------------------------------------------------------------------------------------ *)
(* the stitching loop *)
Section Stitch.
  Variable cstate : Type.
  Variable cat_init : cstate.
  Variable cat_stream : cstate -> list N -> list N -> N -> cat_result * cstate * list N.
  Variable cat_finish : cstate -> list N -> N -> cat_result * list N.

  (* the reference: every chunk goes through the concatenator in order, each call answers
     Success or NeedsMoreInput, then finish answers Success *)
  Fixpoint cat_fold (cap : N) (c : cstate) (out : list N) (chunks : list (list N)) : option (cstate * list N) :=
    match chunks with
    | [] => Some (c, out)
    | ch :: rest =>
      let '(r, c', out') := cat_stream c ch out cap in
      match r with
      | CSuccess | CNeedsMoreInput => cat_fold cap c' out' rest
      | _ => None
      end
    end.
  Definition cat_run (cap : N) (chunks : list (list N)) : option (list N) :=
    match cat_fold cap cat_init [] chunks with
    | None => None
    | Some (c, out) => let '(r, out') := cat_finish c out cap in
                       match r with CSuccess => Some out' | _ => None end
    end.

  Notation stitch_loop := (stitch_loop cstate cat_stream).
  Notation stitch_one := (stitch_one cstate cat_stream).
  Notation stitch_chunk := (stitch_chunk cstate cat_stream).
  Notation set_err := (set_err cstate).
  Notation stitch := (stitch cstate cat_init cat_stream cat_finish).
  Notation finish_and_hand_back := (finish_and_hand_back cstate cat_finish).

  Definition ok_chunk (j : option join_res) : option (list N) :=
    match j with Some (Joined (JROk c)) => Some c | _ => None end.

  (* all joins delivered a chunk: the list of chunks *)
  Fixpoint all_chunks (js : list (option join_res)) : option (list (list N)) :=
    match js with
    | [] => Some []
    | j :: rest => match ok_chunk j, all_chunks rest with
                   | Some c, Some cs => Some (c :: cs)
                   | _, _ => None
                   end
    end.

  Lemma all_chunks_app a b :
    all_chunks (a ++ b) = match all_chunks a, all_chunks b with Some x, Some y => Some (x ++ y) | _, _ => None end.
  Proof.
    induction a as [|j a IH]; cbn [all_chunks app].
    - destruct (all_chunks b); reflexivity.
    - rewrite IH. destruct (ok_chunk j); [|reflexivity].
      destruct (all_chunks a); [|reflexivity]. destruct (all_chunks b); reflexivity.
  Qed.

  Lemma cat_fold_app cap c out a b :
    cat_fold cap c out (a ++ b) = match cat_fold cap c out a with Some (c', out') => cat_fold cap c' out' b | None => None end.
  Proof.
    revert c out. induction a as [|ch a IH]; intros c out; cbn [cat_fold app]; [reflexivity|].
    destruct (cat_stream c ch out cap) as [[r c'] out']. destruct r; try reflexivity; apply IH.
  Qed.

  (* --- repaired loop: once an error is recorded it stays; an Ok state is the reference state *)
  Definition sticky (v : version) : Prop := v_first_error v = true.

  Lemma set_err_not_ok v s e : is_ok (ss_res cstate (set_err v s e)) = false.
  Proof.
    unfold Multi.set_err. destruct (v_first_error v); [|reflexivity].
    destruct (is_ok (ss_res cstate s)) eqn:E; [reflexivity|exact E].
  Qed.

  Lemma stitch_chunk_err v cap s ch : sticky v -> is_ok (ss_res cstate s) = false -> stitch_chunk v cap s ch = s.
  Proof. intros Hv H. unfold Multi.stitch_chunk. rewrite Hv, H. reflexivity. Qed.

  Lemma stitch_one_err v cap s j s' : sticky v -> is_ok (ss_res cstate s) = false ->
    stitch_one v cap s j = Continue cstate s' -> is_ok (ss_res cstate s') = false.
  Proof.
    intros Hv H. unfold Multi.stitch_one.
    destruct j as [e| |[ch|e]].
    - destruct (v_join_continue v); [|discriminate]. intros [= <-]. apply set_err_not_ok.
    - destruct (v_join_continue v); [|discriminate]. intros [= <-]. apply set_err_not_ok.
    - intros [= <-]. rewrite stitch_chunk_err by assumption. exact H.
    - intros [= <-]. apply set_err_not_ok.
  Qed.

  Lemma stitch_loop_err v cap js : sticky v -> forall s s', is_ok (ss_res cstate s) = false ->
    stitch_loop v cap s js = Continue cstate s' -> is_ok (ss_res cstate s') = false.
  Proof.
    intros Hv. induction js as [|j js IH]; intros s s' H; cbn [Multi.stitch_loop].
    - intros [= <-]. exact H.
    - destruct j as [j|]; [|discriminate].
      destruct (stitch_one v cap s j) as [s1| |] eqn:E1; try discriminate.
      intros H2. eapply IH; [|exact H2]. eapply stitch_one_err; eassumption.
  Qed.

  (* the invariant of an Ok state *)
  Definition ok_inv (cap : N) (chunks : list (list N)) (s : sstate cstate) : Prop :=
    cat_fold cap cat_init [] chunks = Some (ss_cat cstate s, ss_out cstate s) /\
    (chunks <> [] -> ss_res cstate s = ROk (lenN (ss_out cstate s))).

  Lemma stitch_loop_ok v cap js : sticky v -> forall s s' done,
    is_ok (ss_res cstate s) = true -> ok_inv cap done s ->
    stitch_loop v cap s js = Continue cstate s' -> is_ok (ss_res cstate s') = true ->
    exists cs, all_chunks js = Some cs /\ ok_inv cap (done ++ cs) s'.
  Proof.
    intros Hv. induction js as [|j js IH]; intros s s' done Hok Hinv; cbn [Multi.stitch_loop all_chunks].
    - intros [= <-] _. exists []. rewrite app_nil_r. split; [reflexivity|exact Hinv].
    - destruct j as [j|]; [|discriminate].
      destruct (stitch_one v cap s j) as [s1| |] eqn:E1; try discriminate.
      intros Hloop Hok'.
      destruct (is_ok (ss_res cstate s1)) eqn:Hok1.
      2:{ pose proof (stitch_loop_err v cap js Hv s1 s' Hok1 Hloop) as Hc. congruence. }
      (* the step kept the state Ok: it was a chunk that went through the concatenator *)
      unfold Multi.stitch_one in E1.
      destruct j as [e| |[ch|e]].
      + destruct (v_join_continue v); [|discriminate]. injection E1 as <-. rewrite set_err_not_ok in Hok1. discriminate.
      + destruct (v_join_continue v); [|discriminate]. injection E1 as <-. rewrite set_err_not_ok in Hok1. discriminate.
      + injection E1 as <-. cbn [ok_chunk].
        unfold Multi.stitch_chunk in *. rewrite Hv, Hok in *. cbn [negb andb] in *.
        destruct (cat_stream (ss_cat cstate s) ch (ss_out cstate s) cap) as [[r c'] out'] eqn:Ecat.
        destruct Hinv as [Hfold Hres].
        assert (Hstep : cat_fold cap cat_init [] (done ++ [ch]) = Some (c', out')
                        /\ (r = CSuccess \/ r = CNeedsMoreInput)).
        { rewrite cat_fold_app, Hfold. cbn [cat_fold]. rewrite Ecat.
          destruct r; cbn [ss_res is_ok] in Hok1; try discriminate; split; auto. }
        destruct Hstep as [Hfold' Hr].
        match type of Hloop with Multi.stitch_loop _ _ _ _ ?s1 _ = _ =>
          assert (Hinv1 : ok_inv cap (done ++ [ch]) s1) end.
        { split; [exact Hfold'|]. intros _. destruct Hr as [-> | ->]; reflexivity. }
        destruct (IH _ s' (done ++ [ch]) Hok1 Hinv1 Hloop Hok') as [cs [Hcs Hinv']].
        exists (ch :: cs). rewrite Hcs. split; [reflexivity|].
        rewrite <- app_assoc in Hinv'. exact Hinv'.
      + injection E1 as <-. rewrite set_err_not_ok in Hok1. discriminate.
  Qed.

  Lemma stitch_init_ok v cap : sticky v ->
    is_ok (ss_res cstate (stitch_init cstate cat_init v)) = true /\ ok_inv cap [] (stitch_init cstate cat_init v).
  Proof.
    intros Hv. unfold stitch_init. rewrite Hv. split; [reflexivity|]. split; [reflexivity|]. intros H; congruence.
  Qed.

  (* success of the whole stitching: every join delivered a chunk, the output is the reference
     concatenation of the chunks in order, the count is its length, the input went back *)
  Lemma stitch_success v cap unwrap_ok js r k : sticky v ->
    stitch v cap unwrap_ok js = OReturned r -> r_result r = ROk k ->
    exists cs, all_chunks js = Some cs /\ cat_run cap cs = Some (r_out r) /\ k = lenN (r_out r) /\ r_back r = true.
  Proof.
    intros Hv. unfold Multi.stitch.
    destruct (stitch_loop v cap (stitch_init cstate cat_init v) js) as [s| |] eqn:Eloop; try discriminate.
    2:{ intros [= <-]. cbn. discriminate. }
    intros [= <-]. unfold Multi.finish_and_hand_back.
    destruct (is_ok (ss_res cstate s)) eqn:Hok.
    - destruct (stitch_init_ok v cap Hv) as [Hi1 Hi2].
      destruct (stitch_loop_ok v cap js Hv _ s [] Hi1 Hi2 Eloop Hok) as [cs [Hcs [Hfold _]]].
      cbn [app] in Hfold.
      destruct (cat_finish (ss_cat cstate s) (ss_out cstate s) cap) as [rf outf] eqn:Efin.
      destruct rf; destruct unwrap_ok; cbn [r_result r_out r_back is_ok]; try discriminate.
      intros [= <-]. exists cs. split; [exact Hcs|]. split; [|split; reflexivity].
      unfold cat_run. rewrite Hfold, Efin. reflexivity.
    - destruct unwrap_ok; cbn [r_result]; destruct (ss_res cstate s); cbn in Hok; try discriminate.
  Qed.

  (* the converse: chunks everywhere and a concatenator that succeeds give success *)
  Lemma stitch_loop_complete v cap : sticky v -> forall cs js s done c' out',
    all_chunks js = Some cs -> is_ok (ss_res cstate s) = true -> ok_inv cap done s ->
    cat_fold cap (ss_cat cstate s) (ss_out cstate s) cs = Some (c', out') ->
    exists s', stitch_loop v cap s js = Continue cstate s' /\ is_ok (ss_res cstate s') = true
               /\ ss_cat cstate s' = c' /\ ss_out cstate s' = out'.
  Proof.
    intros Hv. induction cs as [|ch cs IH]; intros js s done c' out' Hall Hok Hinv Hfold.
    - destruct js as [|j js]; cbn [all_chunks] in Hall.
      + cbn [cat_fold] in Hfold. injection Hfold as <- <-. exists s. cbn [Multi.stitch_loop]. auto.
      + destruct (ok_chunk j); [|discriminate]. destruct (all_chunks js); discriminate.
    - destruct js as [|j js]; cbn [all_chunks] in Hall; [discriminate|].
      destruct (ok_chunk j) as [c0|] eqn:Ej; [|discriminate].
      destruct (all_chunks js) as [cs0|] eqn:Ejs; [|discriminate].
      injection Hall as -> ->.
      destruct j as [[e| |[ch0|e]]|]; cbn [ok_chunk] in Ej; try discriminate. injection Ej as ->.
      cbn [cat_fold] in Hfold.
      destruct (cat_stream (ss_cat cstate s) ch (ss_out cstate s) cap) as [[r c1] out1] eqn:Ecat.
      cbn [Multi.stitch_loop Multi.stitch_one]. unfold Multi.stitch_chunk. rewrite Hv, Hok. cbn [negb andb]. rewrite Ecat.
      assert (Hr : r = CSuccess \/ r = CNeedsMoreInput) by (destruct r; try discriminate; auto).
      set (s1 := mkS cstate match r with
                            | CSuccess | CNeedsMoreInput => ROk (lenN out1)
                            | CNeedsMoreOutput => RErr InsufficientOutputSpace
                            | CError _ => RErr (ConcatenationError r)
                            end out1 c1).
      assert (Hok1 : is_ok (ss_res cstate s1) = true) by (destruct Hr as [-> | ->]; reflexivity).
      destruct Hinv as [Hf0 _].
      assert (Hinv1 : ok_inv cap (done ++ [ch]) s1).
      { split.
        - rewrite cat_fold_app, Hf0. cbn [cat_fold]. rewrite Ecat. destruct Hr as [-> | ->]; reflexivity.
        - intros _. destruct Hr as [-> | ->]; reflexivity. }
      assert (Hfold1 : cat_fold cap (ss_cat cstate s1) (ss_out cstate s1) cs = Some (c', out')).
      { destruct Hr as [-> | ->]; exact Hfold. }
      destruct (IH js s1 (done ++ [ch]) c' out' Ejs Hok1 Hinv1 Hfold1) as [s' Hs'].
      exists s'. exact Hs'.
  Qed.

  Lemma stitch_complete v cap js cs out : sticky v ->
    all_chunks js = Some cs -> cat_run cap cs = Some out ->
    stitch v cap true js = OReturned (mkRet (ROk (lenN out)) out true).
  Proof.
    intros Hv Hall Hrun. unfold cat_run in Hrun.
    destruct (cat_fold cap cat_init [] cs) as [[c1 out1]|] eqn:Efold; [|discriminate].
    destruct (stitch_init_ok v cap Hv) as [Hi1 Hi2].
    assert (Hfold0 : cat_fold cap (ss_cat cstate (stitch_init cstate cat_init v)) (ss_out cstate (stitch_init cstate cat_init v)) cs
                     = Some (c1, out1)).
    { unfold stitch_init. cbn [ss_cat ss_out]. exact Efold. }
    destruct (stitch_loop_complete v cap Hv cs js _ [] c1 out1 Hall Hi1 Hi2 Hfold0) as [s' [Hloop [Hok [Hc Ho]]]].
    unfold Multi.stitch. rewrite Hloop. unfold Multi.finish_and_hand_back. rewrite Hok, Hc, Ho.
    destruct (cat_finish c1 out1 cap) as [rf outf]. destruct rf; try discriminate.
    injection Hrun as ->. reflexivity.
  Qed.

  (* hand-back: the repaired loop has no early return *)
  Lemma stitch_loop_no_early v cap js : v_join_continue v = true -> forall s e,
    stitch_loop v cap s js <> EarlyReturn cstate e.
  Proof.
    intros Hv. induction js as [|j js IH]; intros s e; cbn [Multi.stitch_loop]; [discriminate|].
    destruct j as [j|]; [|discriminate].
    destruct (stitch_one v cap s j) as [s1|e1|] eqn:E1; [apply IH| |discriminate].
    unfold Multi.stitch_one in E1. rewrite Hv in E1. destruct j as [e0| |[ch|e0]]; discriminate.
  Qed.

  Lemma stitch_hands_back v cap js r : v_join_continue v = true ->
    stitch v cap true js = OReturned r -> r_back r = true.
  Proof.
    intros Hv. unfold Multi.stitch.
    destruct (stitch_loop v cap (stitch_init cstate cat_init v) js) as [s|e|] eqn:E; try discriminate.
    - intros [= <-]. unfold Multi.finish_and_hand_back.
      destruct (is_ok (ss_res cstate s)); [destruct (cat_finish _ _ _) as [rf o]; destruct rf|]; reflexivity.
    - exfalso. exact (stitch_loop_no_early v cap js Hv _ _ E).
  Qed.
End Stitch.

(* ------------------------------------------------------------------------------------------ *)
(* list helpers *)
Lemma firstn_succ_nth {A} (d : A) c (l : list A) : (c < length l)%nat -> firstn (S c) l = firstn c l ++ [nth c l d].
Proof.
  revert l. induction c as [|c IH]; intros l H; destruct l as [|x l]; cbn [length] in H; try lia.
  - reflexivity.
  - cbn [firstn nth app]. f_equal. apply IH. lia.
Qed.

Lemma nth_firstn_lt {A} (d : A) i c (l : list A) : (i < c)%nat -> nth i (firstn c l) d = nth i l d.
Proof.
  revert i l. induction c as [|c IH]; intros i l H; [lia|].
  destruct l as [|x l]; [destruct i; reflexivity|]. destruct i as [|i]; [reflexivity|].
  cbn [firstn nth]. apply IH. lia.
Qed.

Lemma list_split_last {A} (d : A) (l : list A) n : length l = S n -> l = firstn n l ++ [nth n l d].
Proof.
  intros H. rewrite <- (firstn_all l) at 1. rewrite H. apply firstn_succ_nth. lia.
Qed.

(* ------------------------------------------------------------------------------------------ *)
(* the worker pool's result store *)
Lemma store_find_sound b (f : N -> job_exec) l i e :
  store_find (b + i) (map (fun k => (b + k, f k)) l) = Some e -> e = f i.
Proof.
  induction l as [|k l IH]; cbn [map store_find]; [discriminate|].
  destruct (N.eqb_spec (b + k) (b + i)) as [Heq|_]; [|exact IH].
  intros [= <-]. f_equal. lia.
Qed.

Lemma store_find_complete b (f : N -> job_exec) l i :
  In i l -> store_find (b + i) (map (fun k => (b + k, f k)) l) = Some (f i).
Proof.
  induction l as [|k l IH]; cbn [map store_find In]; [tauto|].
  intros H. destruct (N.eqb_spec (b + k) (b + i)) as [Heq|Hne].
  - f_equal. f_equal. lia.
  - apply IH. destruct H as [->|H]; [congruence|exact H].
Qed.

(* ------------------------------------------------------------------------------------------ *)
Lemma inline_first_bad_kind l o : inline_first_bad l = Some o -> o = OPanic \/ o = OHang.
Proof.
  induction l as [|[| |r0] l IH]; cbn [inline_first_bad]; try discriminate.
  - intros [= <-]. auto.
  - intros [= <-]. auto.
  - exact IH.
Qed.

Lemma inline_bad_kind k l o :
  match k with Inline => inline_first_bad l | _ => None end = Some o -> o = OPanic \/ o = OHang.
Proof. destruct k; try discriminate. apply inline_first_bad_kind. Qed.

(* CompressMulti *)
Section Top.
  Variable run_job : job_input -> job_plan -> N -> call_outcome.
  Variable job_bytes : job_input -> job_plan -> list N.
  Variable index_agrees : job_input -> job_plan -> bool.
  Variable cstate : Type.
  Variable cat_init : cstate.
  Variable cat_stream : cstate -> list N -> list N -> N -> cat_result * cstate * list N.
  Variable cat_finish : cstate -> list N -> N -> cat_result * list N.

  Notation compress_multi := (compress_multi run_job job_bytes index_agrees cstate cat_init cat_stream cat_finish).
  Notation compress_part := (compress_part run_job job_bytes index_agrees).
  Notation stitch := (stitch cstate cat_init cat_stream cat_finish).
  Notation cat_run := (cat_run cstate cat_init cat_stream cat_finish).
  Notation all_chunks := all_chunks.

  (* the jobs of a run, as CompressMulti hands them out and as they answer *)
  Definition execs_of (ver : version) (pr : profile) (fuel : nat) (ov : N) (p : params) (t n : N) : option (list job_exec) :=
    match job_inputs ver pr ov p t n with
    | Ok jis => Some (map (compress_part ver pr fuel) jis)
    | Panic => None
    end.

  Lemma job_inputs_go_length ver pr favor ov p t n k : forall i jis,
    job_inputs_from ver pr favor ov p t n k i = Ok jis -> length jis = k.
  Proof.
    induction k as [|k IH]; intros i jis; cbn [job_inputs_from].
    - intros [= <-]. reflexivity.
    - destruct (if favor && negb (i =? 0) then _ else _) as [sup|]; [|discriminate].
      destruct (job_inputs_from ver pr favor ov p t n k (i + 1)) as [rest|] eqn:E; [|discriminate].
      intros [= <-]. cbn [length]. f_equal. exact (IH _ _ E).
  Qed.

  Lemma job_inputs_length ver pr ov p t n jis : job_inputs ver pr ov p t n = Ok jis -> length jis = N.to_nat t.
  Proof. unfold job_inputs. apply job_inputs_go_length. Qed.

  Lemma execs_length ver pr fuel ov p t n ex : execs_of ver pr fuel ov p t n = Some ex -> length ex = N.to_nat t.
  Proof.
    unfold execs_of. destruct (job_inputs ver pr ov p t n) as [jis|] eqn:E; [|discriminate].
    intros [= <-]. rewrite map_length. exact (job_inputs_length _ _ _ _ _ _ _ E).
  Qed.

  (* a join that delivers r took r from the job with that index, whatever the spawner *)
  Lemma join_sound sc ex i r : join_spawned sc ex i = Some (Joined r) -> nth (N.to_nat i) ex JHung = JReturned r.
  Proof.
    unfold join_spawned.
    assert (Hans : forall a, (match s_kind sc with
                              | Inline | ThreadPerJob => Some (nth (N.to_nat i) ex JHung)
                              | Pool => store_find (s_base sc + i) (pool_store sc ex) end) = Some a ->
                             a = nth (N.to_nat i) ex JHung).
    { intros a. destruct (s_kind sc); try (intros [= <-]; reflexivity).
      unfold pool_store. intros H. exact (store_find_sound _ (fun k => nth (N.to_nat k) ex JHung) _ _ _ H). }
    destruct (match s_kind sc with Inline | ThreadPerJob => _ | Pool => _ end) as [a|]; [|discriminate].
    rewrite <- (Hans a eq_refl).
    destruct a as [| |r0]; [destruct (s_kind sc); discriminate|discriminate|].
    destruct (match s_join_fail sc with Some k => k =? i | None => false end); [discriminate|].
    intros [= ->]. reflexivity.
  Qed.

  Definition chunk_at (cs : list (list N)) (i : nat) : list N := nth i cs [].

  Lemma joins_chunks sc ex count : forall cs,
    all_chunks (joins sc ex count) = Some cs ->
    length cs = count /\ forall i, (i < count)%nat -> nth i ex JHung = JReturned (JROk (chunk_at cs i)).
  Proof.
    unfold joins. induction count as [|c IH]; intros cs.
    - cbn. intros [= <-]. split; [reflexivity|lia].
    - rewrite seq_S, map_app, all_chunks_app. cbn [map all_chunks plus].
      destruct (all_chunks (map _ (seq 0 c))) as [cs1|] eqn:E1; [|discriminate].
      destruct (ok_chunk (join_spawned sc ex (N.of_nat c))) as [ch|] eqn:E2; [|discriminate].
      intros [= <-]. destruct (IH cs1 eq_refl) as [Hl Hn]. split; [rewrite app_length; cbn; lia|].
      intros i Hi. unfold chunk_at. destruct (Nat.eq_dec i c) as [->|Hne].
      + rewrite app_nth2 by lia. rewrite Hl, Nat.sub_diag. cbn [nth].
        destruct (join_spawned sc ex (N.of_nat c)) as [[e| |[ch0|e]]|] eqn:Ej; cbn [ok_chunk] in E2; try discriminate.
        injection E2 as ->. pose proof (join_sound _ _ _ _ Ej) as H. rewrite Nat2N.id in H. exact H.
      + rewrite app_nth1 by lia. apply Hn. lia.
  Qed.

  (* ---- C02_success ---- *)
  Lemma multi_success pr fuel ov sc p t n owned cap r k :
    compress_multi Repaired pr fuel ov sc p t n owned cap = OReturned r -> r_result r = ROk k ->
    exists ex cs, execs_of Repaired pr fuel ov p t n = Some ex /\ length cs = N.to_nat t /\
      (forall i, (i < N.to_nat t)%nat -> nth i ex JHung = JReturned (JROk (chunk_at cs i))) /\
      cat_run cap cs = Some (r_out r) /\ k = lenN (r_out r) /\ r_back r = true.
  Proof.
    unfold Multi.compress_multi, execs_of.
    destruct ((t =? 0) || negb owned) eqn:E0; [discriminate|].
    apply orb_false_iff in E0. destruct E0 as [Et _]. apply N.eqb_neq in Et.
    destruct (match s_kind sc with Pool => (1 <? t) && (MULTI_MAX_THREADS <? t) | _ => false end); [discriminate|].
    destruct (job_inputs Repaired pr ov p t n) as [jis|] eqn:Ejis; [|discriminate].
    set (ex := map (compress_part Repaired pr fuel) jis).
    assert (Hlen : length ex = N.to_nat t) by (unfold ex; rewrite map_length; exact (job_inputs_length _ _ _ _ _ _ _ Ejis)).
    assert (Ht1 : N.to_nat t = S (N.to_nat (t - 1))) by lia.
    destruct (((1 <? t) && p_favor p) && view_fails_upto sc (t - 1)).
    { destruct (match s_kind sc with Inline => _ | _ => None end) as [o|] eqn:Ebad0.
      - destruct (inline_bad_kind _ _ _ Ebad0) as [-> | ->]; discriminate.
      - intros [= <-] Hr. discriminate. }
    destruct (match s_kind sc with Inline => _ | _ => None end) as [o|] eqn:Ebad.
    { (* the first job that did not return decides: never a returned value *)
      destruct (inline_bad_kind _ _ _ Ebad) as [-> | ->]; discriminate. }
    assert (Hsplit : forall lastj, all_chunks (joins sc (firstn (N.to_nat (t - 1)) ex) (N.to_nat (t - 1)) ++ [lastj]) =
                                   match all_chunks (joins sc (firstn (N.to_nat (t - 1)) ex) (N.to_nat (t - 1))), ok_chunk lastj with
                                   | Some a, Some b => Some (a ++ [b]) | _, _ => None end).
    { intros lastj. rewrite all_chunks_app. cbn [all_chunks]. destruct (all_chunks (joins _ _ _)); [|reflexivity].
      destruct (ok_chunk lastj); reflexivity. }
    destruct (view_fails sc (if (1 <? t) && p_favor p then t else 1)).
    { intros Hst Hr. destruct (stitch_success _ _ _ _ Repaired _ _ _ _ _ eq_refl Hst Hr) as [cs [Hall _]].
      rewrite Hsplit in Hall. cbn [ok_chunk] in Hall. destruct (all_chunks (joins _ _ _)); discriminate. }
    destruct (nth (N.to_nat (t - 1)) ex JHung) as [| |rl] eqn:Elast; try discriminate.
    intros Hst Hr. destruct (stitch_success _ _ _ _ Repaired _ _ _ _ _ eq_refl Hst Hr) as [cs [Hall [Hrun [Hk Hb]]]].
    rewrite Hsplit in Hall.
    destruct (all_chunks (joins _ _ _)) as [cs1|] eqn:E1; [|discriminate].
    destruct rl as [chl|e]; cbn [ok_chunk] in Hall; [|discriminate]. injection Hall as <-.
    destruct (joins_chunks _ _ _ _ E1) as [Hl1 Hn1].
    exists ex, (cs1 ++ [chl]). split; [reflexivity|]. split; [rewrite app_length; cbn; lia|].
    split; [|auto].
    intros i Hi. unfold chunk_at. destruct (Nat.eq_dec i (N.to_nat (t - 1))) as [->|Hne].
    - rewrite app_nth2 by lia. rewrite Hl1, Nat.sub_diag. exact Elast.
    - rewrite app_nth1 by lia. rewrite <- (nth_firstn_lt JHung i (N.to_nat (t - 1)) ex) by lia. apply Hn1. lia.
  Qed.

  (* ---- C02_handback ---- *)
  Lemma multi_handback pr fuel ov sc p t n owned cap r :
    compress_multi Repaired pr fuel ov sc p t n owned cap = OReturned r ->
    s_view_fail sc = 0 -> s_unwrap_ok sc = true -> r_back r = true.
  Proof.
    intros H Hv Hu. unfold Multi.compress_multi in H. rewrite Hu in H.
    destruct ((t =? 0) || negb owned); [discriminate|].
    destruct (match s_kind sc with Pool => (1 <? t) && (MULTI_MAX_THREADS <? t) | _ => false end); [discriminate|].
    destruct (job_inputs Repaired pr ov p t n) as [jis|]; [|discriminate].
    unfold view_fails_upto, view_fails in H. rewrite Hv in H. cbn [N.eqb negb andb] in H.
    rewrite andb_false_r in H.
    destruct (match s_kind sc with Inline => _ | _ => None end) as [o|] eqn:Ebad.
    { destruct (inline_bad_kind _ _ _ Ebad) as [-> | ->]; discriminate. }
    destruct (nth (N.to_nat (t - 1)) _ JHung) as [| |rl]; try discriminate.
    exact (stitch_hands_back _ _ _ _ Repaired _ _ _ eq_refl H).
  Qed.

  (* ---- schedules ---- *)
  Definition sched_ok (sc : sched) (t : N) : Prop :=
    s_join_fail sc = None /\ s_view_fail sc = 0 /\ s_unwrap_ok sc = true /\
    (s_kind sc = Pool -> t <= 16 /\ forall i, i + 1 < t -> In i (s_done sc)).

  Definition conv (e : job_exec) : option join_res := match e with JReturned r => Some (Joined r) | _ => None end.
  Definition all_returned (ex : list job_exec) : Prop := Forall (fun e => exists r, e = JReturned r) ex.

  Lemma join_complete sc t ex i : sched_ok sc t -> all_returned ex -> (N.to_nat i < length ex)%nat -> i + 1 < t ->
    (forall k, In k (s_done sc) -> True) ->
    join_spawned sc ex i = conv (nth (N.to_nat i) ex JHung).
  Proof.
    intros [Hj [_ [_ Hp]]] Hall Hi Hit _. unfold join_spawned. rewrite Hj.
    assert (Hans : (match s_kind sc with
                    | Inline | ThreadPerJob => Some (nth (N.to_nat i) ex JHung)
                    | Pool => store_find (s_base sc + i) (pool_store sc ex) end) = Some (nth (N.to_nat i) ex JHung)).
    { destruct (s_kind sc) eqn:Ek; try reflexivity. destruct (Hp eq_refl) as [_ Hin].
      unfold pool_store. exact (store_find_complete _ (fun k => nth (N.to_nat k) ex JHung) _ _ (Hin i Hit)). }
    rewrite Hans.
    assert (Hr : exists r, nth (N.to_nat i) ex JHung = JReturned r).
    { unfold all_returned in Hall. rewrite Forall_forall in Hall. apply Hall. apply nth_In. exact Hi. }
    destruct Hr as [r ->]. reflexivity.
  Qed.

  Lemma joins_complete sc t ex count : sched_ok sc t -> all_returned ex -> (count <= length ex)%nat -> N.of_nat count < t ->
    joins sc ex count = map conv (firstn count ex).
  Proof.
    intros Hs Hall. unfold joins. induction count as [|c IH]; intros Hc Ht; [reflexivity|].
    rewrite seq_S, map_app, (firstn_succ_nth JHung) by lia. rewrite map_app. cbn [map plus].
    rewrite IH by lia. f_equal. f_equal.
    rewrite (join_complete sc t ex (N.of_nat c) Hs Hall); [rewrite Nat2N.id; reflexivity|rewrite Nat2N.id; lia|lia|auto].
  Qed.

  Lemma inline_first_bad_none l : all_returned l -> inline_first_bad l = None.
  Proof. induction 1 as [|e l [r ->] _ IH]; [reflexivity|exact IH]. Qed.

  Lemma in_firstn {A} (x : A) k : forall l, In x (firstn k l) -> In x l.
  Proof.
    induction k as [|k IH]; intros l Hx; [destruct Hx|].
    destruct l as [|y l]; [destruct Hx|]. cbn [firstn] in Hx. destruct Hx as [->|Hx]; [left; reflexivity|right; apply IH; exact Hx].
  Qed.
  Lemma all_returned_firstn k l : all_returned l -> all_returned (firstn k l).
  Proof.
    unfold all_returned. rewrite !Forall_forall. intros H x Hx. apply H. exact (in_firstn x k l Hx).
  Qed.

  (* the result as a function of the job results in index order: no schedule, no spawner *)
  Lemma multi_schedule ver pr fuel ov sc p t n cap ex :
    0 < t -> sched_ok sc t -> execs_of ver pr fuel ov p t n = Some ex -> all_returned ex ->
    compress_multi ver pr fuel ov sc p t n true cap = stitch ver cap true (map conv ex).
  Proof.
    intros Ht Hs Hex Hall. pose proof (execs_length _ _ _ _ _ _ _ _ Hex) as Hlen.
    unfold execs_of in Hex. unfold Multi.compress_multi.
    destruct (N.eqb_spec t 0) as [->|_]; [lia|]. cbn [negb orb].
    destruct Hs as [Hj [Hv [Hu Hp]]].
    assert (Hpool : match s_kind sc with Pool => (1 <? t) && (MULTI_MAX_THREADS <? t) | _ => false end = false).
    { destruct (s_kind sc) eqn:Ek; try reflexivity. destruct (Hp eq_refl) as [H16 _].
      change MULTI_MAX_THREADS with 16. destruct (N.ltb_spec 16 t); [lia|]. apply andb_false_r. }
    rewrite Hpool.
    destruct (job_inputs ver pr ov p t n) as [jis|]; [|discriminate]. injection Hex as Hex. rewrite Hex.
    unfold view_fails_upto, view_fails. rewrite Hv. cbn [N.eqb negb andb]. rewrite andb_false_r.
    assert (Ht1 : N.to_nat t = S (N.to_nat (t - 1))) by lia.
    assert (Hsp : all_returned (firstn (N.to_nat (t - 1)) ex)) by (apply all_returned_firstn; exact Hall).
    assert (Hbad : match s_kind sc with Inline => inline_first_bad (firstn (N.to_nat (t - 1)) (firstn (N.to_nat (t - 1)) ex)) | _ => None end = None).
    { destruct (s_kind sc); try reflexivity. apply inline_first_bad_none. apply all_returned_firstn. exact Hsp. }
    rewrite Hbad.
    assert (Hlast : exists r, nth (N.to_nat (t - 1)) ex JHung = JReturned r).
    { unfold all_returned in Hall. rewrite Forall_forall in Hall. apply Hall. apply nth_In. lia. }
    destruct Hlast as [rl Hl]. rewrite Hl, Hu.
    f_equal.
    rewrite (joins_complete sc t) ; [| exact (conj Hj (conj Hv (conj Hu Hp))) | exact Hsp | rewrite firstn_length; lia | lia].
    rewrite firstn_firstn, Nat.min_id.
    pose proof (list_split_last JHung ex (N.to_nat (t - 1)) ltac:(lia)) as Hsplit.
    rewrite Hl in Hsplit. rewrite Hsplit at 2.
    rewrite map_app. cbn [map conv]. reflexivity.
  Qed.

  (* ---- C02_enough (orchestration part): chunks everywhere + a concatenator that succeeds ---- *)
  Lemma multi_enough pr fuel ov sc p t n cap ex cs out :
    0 < t -> sched_ok sc t -> execs_of Repaired pr fuel ov p t n = Some ex ->
    ex = map (fun c => JReturned (JROk c)) cs -> cat_run cap cs = Some out ->
    compress_multi Repaired pr fuel ov sc p t n true cap = OReturned (mkRet (ROk (lenN out)) out true).
  Proof.
    intros Ht Hs Hex Hcs Hrun.
    assert (Hall : all_returned ex).
    { subst ex. unfold all_returned. rewrite Forall_forall. intros e He. apply in_map_iff in He.
      destruct He as [c [<- _]]. eexists; reflexivity. }
    rewrite (multi_schedule _ _ _ _ _ _ _ _ _ _ Ht Hs Hex Hall).
    refine (stitch_complete _ _ _ _ Repaired cap _ cs out eq_refl _ Hrun).
    subst ex. clear. induction cs as [|c cs IH]; [reflexivity|]. cbn [map all_chunks conv ok_chunk].
    rewrite IH. reflexivity.
  Qed.
End Top.

(* ------------------------------------------------------------------------------------------ *)
(* compress_part: what an Ok answer means *)
Section Part.
  Variable run_job : job_input -> job_plan -> N -> call_outcome.
  Variable job_bytes : job_input -> job_plan -> list N.
  Notation part_loop := (part_loop run_job job_bytes).

  (* repaired: an Ok chunk is what a call that reported the stream finished left in the buffer *)
  Lemma part_loop_finished ver ji pl : v_finished_check ver = true -> forall fuel k c,
    part_loop ver ji pl fuel k = Some (JROk c) ->
    exists k', k <= k' /\ co_result (run_job ji pl k') = true /\ co_finished (run_job ji pl k') = true /\
               c = firstn (N.to_nat (co_out_offset (run_job ji pl k'))) (job_bytes ji pl).
  Proof.
    intros Hv. induction fuel as [|f IH]; intros k c; cbn [Multi.part_loop]; [discriminate|].
    rewrite Hv.
    destruct (co_result (run_job ji pl k) && co_finished (run_job ji pl k)) eqn:E1.
    - intros [= <-]. apply andb_true_iff in E1. exists k. repeat split; try tauto. lia.
    - destruct (negb (co_result (run_job ji pl k)) || (co_avail_out (run_job ji pl k) =? 0)); [discriminate|].
      intros H. destruct (IH _ _ H) as [k' [Hk Hrest]]. exists k'. split; [lia|exact Hrest].
  Qed.

  (* the loop decides as soon as a call finishes the stream, refuses, or leaves no room *)
  Lemma part_loop_terminates ver ji pl : v_finished_check ver = true -> forall fuel k,
    (exists d, (d < fuel)%nat /\
       let c := run_job ji pl (k + N.of_nat d) in
       (co_result c && co_finished c) || negb (co_result c) || (co_avail_out c =? 0) = true) ->
    part_loop ver ji pl fuel k <> None.
  Proof.
    intros Hv. induction fuel as [|f IH]; intros k [d [Hd Hc]]; [lia|]. cbn [Multi.part_loop]. rewrite Hv.
    destruct (co_result (run_job ji pl k) && co_finished (run_job ji pl k)) eqn:E1; [discriminate|].
    destruct (negb (co_result (run_job ji pl k)) || (co_avail_out (run_job ji pl k) =? 0)) eqn:E2; [discriminate|].
    apply IH. destruct d as [|d].
    - exfalso. cbn in Hc. rewrite N.add_0_r in Hc. rewrite E1 in Hc. cbn [orb] in Hc. rewrite E2 in Hc. discriminate.
    - exists d. split; [lia|]. replace (k + 1 + N.of_nat d) with (k + N.of_nat (S d)) by lia. exact Hc.
  Qed.
End Part.

(* ------------------------------------------------------------------------------------------ *)
(* what a job does with a supplied hasher *)
Lemma dict_supplied_untruncated pr p size has_opt :
  let dd := set_custom_dictionary Repaired pr p size has_opt in
  (dd_mode dd = HChecked \/ dd_mode dd = HSupplied) ->
  has_opt = true /\ dd_custom dd = true /\ dd_offset dd = 0 /\ dd_size dd = size /\ 0 < size.
Proof.
  cbn zeta. unfold set_custom_dictionary.
  destruct ((size =? 0) || (p_quality (sanitize_params p) =? 0)%Z || (p_quality (sanitize_params p) =? 1)%Z || (size <=? MULTI_DICT_MIN)) eqn:E0.
  - cbn [dd_mode]. destruct has_opt; intros [H|H]; discriminate.
  - cbn [dd_mode dd_custom dd_offset dd_size v_discard_truncated Repaired].
    apply orb_false_iff in E0. destruct E0 as [_ E1]. apply N.leb_gt in E1.
    destruct (2 ^ Z.to_N (p_lgwin (sanitize_params p)) - MULTI_DICT_GAP <? size) eqn:Et.
    + rewrite andb_true_l. cbn [negb]. rewrite andb_false_r. intros [H|H]; discriminate.
    + cbn [negb andb]. rewrite andb_true_r. destruct has_opt; [|intros [H|H]; discriminate].
      intros _. repeat split; try reflexivity; try lia.
  Qed.

(* as found the supplied hasher was also used (or compared) for a prefix cut to the window *)
Lemma dict_supplied_truncated_asfound :
  exists pr p size, let dd := set_custom_dictionary AsFound pr p size true in
    dd_mode dd = HChecked /\ 0 < dd_offset dd.
Proof.
  exists Dev, (mkParams 9 13 false true true false true 0), 8777. vm_compute. split; reflexivity.
Qed.

(* ------------------------------------------------------------------------------------------ *)
(* the ranges stored into the shared hasher *)
Fixpoint contiguous_from (h : N) (pieces : list (N * N)) : Prop :=
  match pieces with
  | [] => True
  | (s, e) :: rest => s = h /\ h < e /\ contiguous_from e rest
  end.
Definition last_end (h : N) (pieces : list (N * N)) : N := fold_left (fun _ p => snd p) pieces h.

Lemma shared_from_repaired pr ov t n : 0 < t -> t * n < 2 ^ 64 -> forall rounds j h,
  j + N.of_nat rounds <= t -> h = j * n / t - ov ->
  exists pieces, shared_ranges_from Repaired pr ov t n j rounds h = Ok pieces /\
                 contiguous_from h pieces /\ last_end h pieces = (j + N.of_nat rounds) * n / t - ov.
Proof.
  intros Ht Hn. induction rounds as [|r IH]; intros j h Hj Hh.
  - exists []. cbn. split; [reflexivity|]. split; [exact I|]. rewrite N.add_0_r. exact Hh.
  - cbn [shared_ranges_from]. rewrite get_range_value by (try assumption; lia).
    pose proof (range_mono j n t Ht) as Hmono.
    remember (j * n / t) as s. remember ((j + 1) * n / t) as e.
    unfold shared_step. cbn [v_contiguous Repaired].
    destruct ((ov <? e) && (h <? e - ov)) eqn:Ec.
    + apply andb_true_iff in Ec. destruct Ec as [Ec1 Ec2]. apply N.ltb_lt in Ec1, Ec2.
      destruct (IH (j + 1) (e - ov)) as [rest [Hr [Hc Hl]]]; [lia|rewrite Heqe; reflexivity|].
      rewrite Hr. exists ((h, e - ov) :: rest). split; [reflexivity|]. split.
      * cbn [contiguous_from]. auto.
      * unfold last_end in *. cbn [fold_left snd]. rewrite Hl. f_equal. f_equal. lia.
    + assert (He : h = e - ov).
      { apply andb_false_iff in Ec. destruct Ec as [Ec|Ec]; [apply N.ltb_ge in Ec|apply N.ltb_ge in Ec]; lia. }
      destruct (IH (j + 1) h) as [rest [Hr [Hc Hl]]]; [lia|rewrite He, Heqe; reflexivity|].
      rewrite Hr. exists rest. split; [reflexivity|]. split; [exact Hc|].
      rewrite Hl. f_equal. f_equal. lia.
Qed.

(* before job i is spawned the shared hasher holds consecutive ranges from 0 to start_i - overlap
   (nothing when start_i <= overlap): the single range StoreLookaheadThenStore stores for a
   dictionary of start_i bytes *)
Lemma shared_ranges_repaired pr ov t n i : 0 < t -> t * n < 2 ^ 64 -> i <= t ->
  exists pieces, shared_ranges Repaired pr ov t n i = Ok pieces /\
                 contiguous_from 0 pieces /\ last_end 0 pieces = i * n / t - ov.
Proof.
  intros Ht Hn Hi. unfold shared_ranges.
  destruct (shared_from_repaired pr ov t n Ht Hn (N.to_nat i) 0 0) as [pieces [H1 [H2 H3]]].
  - rewrite N2Nat.id. lia.
  - rewrite range_first. reflexivity.
  - exists pieces. rewrite N2Nat.id, N.add_0_l in H3. auto.
Qed.

(* as found: chunks no longer than the lookahead were left out *)
Lemma shared_ranges_asfound_gap :
  exists ov t n i pieces, 0 < t /\ t * n < 2 ^ 64 /\ i < t /\ shared_ranges AsFound Dev ov t n i = Ok pieces /\
    last_end 0 pieces <> i * n / t - ov.
Proof. exists 3, 3, 10, 2, []. vm_compute. repeat split; try reflexivity. discriminate. Qed.

(* ------------------------------------------------------------------------------------------ *)
(* a toy instance of the abstract parts, for witnesses and non-vacuity examples:
   the concatenator appends (needs room for every byte), a job answers with one call *)
Definition toy_cat_stream (c : unit) (chunk out : list N) (cap : N) : cat_result * unit * list N :=
  if lenN out + lenN chunk <=? cap then (CNeedsMoreInput, tt, out ++ chunk) else (CNeedsMoreOutput, tt, out).
Definition toy_cat_finish (c : unit) (out : list N) (cap : N) : cat_result * list N := (CSuccess, out).
(* job i leaves i+1 bytes [i; i; ..]; `unfinished` names a job whose only call runs out of room
   with the stream unfinished, `refused` one whose call is refused with no room left *)
Definition toy_run (unfinished refused : option N) (ji : job_input) (pl : job_plan) (k : N) : call_outcome :=
  let i := ji_index ji in
  if (match refused with Some x => x =? i | None => false end) then mkCall false 0 0 false
  else if (match unfinished with Some x => x =? i | None => false end) then mkCall true 0 (i + 1) false
  else mkCall true 5 (i + 1) true.
Definition toy_bytes (ji : job_input) (pl : job_plan) : list N := repeat (ji_index ji) 8.
Definition toy_params : params := mkParams 5 22 false false false false false 0.
Definition toy_sched (k : spawner_kind) (done : list N) (jf : option N) : sched := mkSched k 7 done jf 0 true.
Definition toy_multi (ver : version) (unfinished refused : option N) (sc : sched) (t n cap : N) : outcome :=
  compress_multi (toy_run unfinished refused) toy_bytes (fun _ _ => true) unit tt toy_cat_stream toy_cat_finish
                 ver Dev 4 3 sc toy_params t n true cap.

(* non-vacuity: three jobs, worker pool that delivers out of order on a reused pool *)
Lemma toy_success :
  toy_multi Repaired None None (toy_sched Pool [1; 0] None) 3 30 100
  = OReturned (mkRet (ROk 6) [0; 1; 1; 2; 2; 2] true).
Proof. vm_compute. reflexivity. Qed.

(* as found: a chunk whose stream did not finish was accepted (job 0 here), and success reported *)
Lemma asfound_accepts_unfinished :
  exists r, toy_multi AsFound (Some 0) None (toy_sched Inline [] None) 2 30 100 = OReturned r /\
            is_ok (r_result r) = true /\
            co_finished (toy_run (Some 0) None (mkJI 0 2 30 toy_params None) (mkPlan 0 15 0 toy_params (mkDD toy_params false 0 0 HFresh)) 0) = false.
Proof. eexists. vm_compute. repeat split; reflexivity. Qed.

(* with only the is_finished check added, the failed chunk's error is overwritten by the next chunk *)
Lemma overwritten_error_refuted :
  exists r, toy_multi (mkVersion true false true true true) None (Some 0) (toy_sched Inline [] None) 2 30 100 = OReturned r /\
            r_result r = ROk 2 /\ r_out r = [1; 1].
Proof. eexists. vm_compute. repeat split; reflexivity. Qed.

(* as found: a failed join returned at once and the input stayed behind *)
Lemma asfound_join_failure_keeps_input :
  exists r, toy_multi AsFound None None (toy_sched Inline [] (Some 0)) 3 30 100 = OReturned r /\ r_back r = false.
Proof. eexists. vm_compute. split; reflexivity. Qed.
Lemma repaired_join_failure_hands_back :
  toy_multi Repaired None None (toy_sched Inline [] (Some 0)) 3 30 100 = OReturned (mkRet (RErr OtherThreadPanic) [] true).
Proof. vm_compute. reflexivity. Qed.

(* a job that panics (here: job 1 of 3 fails the comparison of its supplied index) is seen
   differently by the three spawners: this is why C06_schedule asks for jobs that return *)
Lemma panicking_job_by_spawner :
  let run sc := compress_multi (toy_run None None) toy_bytes (fun ji _ => negb (ji_index ji =? 1)) unit tt
                               toy_cat_stream toy_cat_finish Repaired Dev 4 3 sc
                               (mkParams 5 22 false false false false true 0) 3 30 true 100 in
  run (toy_sched Inline [] None) = OPanic /\
  run (toy_sched ThreadPerJob [] None) = OReturned (mkRet (RErr ThreadExecError) [0] true) /\
  run (toy_sched Pool [0; 1] None) = OHang.
Proof. cbn zeta. vm_compute. repeat split; reflexivity. Qed.

(* "every job within its own buffer" does not add up to the advertised multi-threaded maximum:
   two one-byte chunks that fill their 28-byte buffers, appended, exceed
   BrotliEncoderMaxCompressedSizeMulti(2, 2) = 45 *)
Definition toy_full_run (ji : job_input) (pl : job_plan) (k : N) : call_outcome := mkCall true 0 (jp_cap pl) true.
Definition toy_full_bytes (ji : job_input) (pl : job_plan) : list N := repeat 0 (N.to_nat (jp_cap pl)).
Lemma own_buffers_exceed_multi_bound :
  max_compressed_size_multi 2 2 = Ok 45 /\
  compress_multi toy_full_run toy_full_bytes (fun _ _ => true) unit tt toy_cat_stream toy_cat_finish
                 Repaired Dev 4 3 (toy_sched Inline [] None) toy_params 2 2 true 45
  = OReturned (mkRet (RErr InsufficientOutputSpace) (repeat 0 28) true).
Proof. vm_compute. split; reflexivity. Qed.

(* the full "enough room" statement of DESIGN.md, and its refutation in the abstract model *)
Definition enough_stmt : Prop :=
  forall run_job job_bytes index_agrees (cstate : Type) cat_init cat_stream cat_finish
         pr fuel ov sc p t n cap bound ex cs,
  0 < t -> sched_ok sc t -> max_compressed_size_multi n t = Ok bound -> bound <= cap ->
  execs_of run_job job_bytes index_agrees Repaired pr fuel ov p t n = Some ex ->
  ex = map (fun c => JReturned (JROk c)) cs ->
  exists out, compress_multi run_job job_bytes index_agrees cstate cat_init cat_stream cat_finish
                             Repaired pr fuel ov sc p t n true cap = OReturned (mkRet (ROk (lenN out)) out true).

Lemma enough_stmt_refuted : ~ enough_stmt.
Proof.
  intros H.
  destruct own_buffers_exceed_multi_bound as [Hb Hr].
  assert (Hs : sched_ok (toy_sched Inline [] None) 2).
  { split; [reflexivity|]. split; [reflexivity|]. split; [reflexivity|]. discriminate. }
  destruct (H toy_full_run toy_full_bytes (fun _ _ => true) unit tt toy_cat_stream toy_cat_finish
              Dev 4%nat 3 (toy_sched Inline [] None) toy_params 2 2 45 45
              [JReturned (JROk (repeat 0 28)); JReturned (JROk (repeat 0 28))] [repeat 0 28; repeat 0 28]
              eq_refl Hs Hb (N.le_refl _) eq_refl eq_refl) as [out Hout].
  rewrite Hr in Hout. discriminate.
Qed.

(* ------------------------------------------------------------------------------------------ *)
(* favor_cpu_efficiency on against off *)
Definition with_favor (p : params) (b : bool) : params :=
  mkParams (p_quality p) (p_lgwin p) (p_large_window p) (p_catable p) (p_appendable p) (p_magic p) b (p_size_hint p).

(* equal except for the favor flag *)
Definition params_sim (a b : params) : Prop := with_favor a false = with_favor b false.
Definition ji_sim (a b : job_input) : Prop :=
  ji_index a = ji_index b /\ ji_threads a = ji_threads b /\ ji_len a = ji_len b /\ params_sim (ji_params a) (ji_params b).
(* equal except for the favor flag and for where the index comes from *)
Definition dd_sim (a b : dict_decision) : Prop :=
  params_sim (dd_params a) (dd_params b) /\ dd_custom a = dd_custom b /\ dd_size a = dd_size b /\ dd_offset a = dd_offset b.
Definition pl_sim (a b : job_plan) : Prop :=
  jp_start a = jp_start b /\ jp_end a = jp_end b /\ jp_cap a = jp_cap b /\ params_sim (jp_pre a) (jp_pre b) /\
  dd_sim (jp_dict a) (jp_dict b).

Lemma params_sim_fields a b : params_sim a b ->
  p_quality a = p_quality b /\ p_lgwin a = p_lgwin b /\ p_large_window a = p_large_window b /\
  p_catable a = p_catable b /\ p_appendable a = p_appendable b /\ p_magic a = p_magic b /\ p_size_hint a = p_size_hint b.
Proof. unfold params_sim, with_favor. intros [= ]. repeat split; assumption. Qed.

Lemma params_sim_of a b :
  p_quality a = p_quality b -> p_lgwin a = p_lgwin b -> p_large_window a = p_large_window b ->
  p_catable a = p_catable b -> p_appendable a = p_appendable b -> p_magic a = p_magic b -> p_size_hint a = p_size_hint b ->
  params_sim a b.
Proof. unfold params_sim, with_favor. intros -> -> -> -> -> -> ->. reflexivity. Qed.

Lemma sanitize_sim a b : params_sim a b -> params_sim (sanitize_params a) (sanitize_params b).
Proof.
  intros H. destruct (params_sim_fields a b H) as [Hq [Hl [Hw [Hc [Ha [Hm Hs]]]]]].
  unfold sanitize_params. rewrite Hq, Hl, Hw, Hc, Ha, Hm, Hs. apply params_sim_of; reflexivity.
Qed.

Lemma set_flags_sim a b c ap m : params_sim a b -> params_sim (set_flags a c ap m) (set_flags b c ap m).
Proof.
  intros H. destruct (params_sim_fields a b H) as [Hq [Hl [Hw [_ [_ [_ Hs]]]]]].
  unfold set_flags. apply params_sim_of; cbn; assumption || reflexivity.
Qed.

Lemma pre_params_sim i a b : params_sim a b -> params_sim (job_pre_params i a) (job_pre_params i b).
Proof.
  intros H. destruct (params_sim_fields a b H) as [_ [_ [_ [Hc [_ [Hm _]]]]]].
  unfold job_pre_params. rewrite Hc, Hm. destruct (i =? 0); apply set_flags_sim; exact H.
Qed.

Lemma set_dict_sim ver pr a b size o1 o2 : params_sim a b ->
  dd_sim (set_custom_dictionary ver pr a size o1) (set_custom_dictionary ver pr b size o2).
Proof.
  intros H. pose proof (sanitize_sim a b H) as Hs.
  destruct (params_sim_fields _ _ Hs) as [Hq [Hl [_ [_ [_ [Hm _]]]]]].
  unfold set_custom_dictionary. rewrite Hq, Hl, Hm.
  destruct ((size =? 0) || (p_quality (sanitize_params b) =? 0)%Z || (p_quality (sanitize_params b) =? 1)%Z || (size <=? MULTI_DICT_MIN)).
  - unfold dd_sim. cbn [dd_params dd_custom dd_size dd_offset]. repeat split; try reflexivity. apply set_flags_sim. exact Hs.
  - unfold dd_sim. cbn [dd_params dd_custom dd_size dd_offset]. repeat split; try reflexivity. exact Hs.
Qed.

Lemma plan_sim ver pr a b : ji_sim a b ->
  match plan_job ver pr a, plan_job ver pr b with
  | Ok pa, Ok pb => pl_sim pa pb
  | Panic, Panic => True
  | _, _ => False
  end.
Proof.
  intros [Hi [Ht [Hn Hp]]]. unfold plan_job. rewrite Hi, Ht, Hn.
  destruct (get_range pr (ji_index b) (ji_threads b) (ji_len b)) as [[s e]|]; [|exact I].
  destruct (e <? s); [exact I|]. destruct (max_compressed_size (e - s)) as [cap|]; [|exact I].
  unfold pl_sim. cbn [jp_start jp_end jp_cap jp_pre jp_dict]. repeat split; try reflexivity.
  - apply pre_params_sim. exact Hp.
  - destruct (ji_index b =? 0).
    + unfold dd_sim. cbn. repeat split; try reflexivity. apply pre_params_sim. exact Hp.
    + apply set_dict_sim. apply pre_params_sim. exact Hp.
  - destruct (ji_index b =? 0); [reflexivity|]. apply set_dict_sim. apply pre_params_sim. exact Hp.
  - destruct (ji_index b =? 0); [reflexivity|]. apply set_dict_sim. apply pre_params_sim. exact Hp.
  - destruct (ji_index b =? 0); [reflexivity|]. apply set_dict_sim. apply pre_params_sim. exact Hp.
Qed.

Section Favor.
  Variable run_job : job_input -> job_plan -> N -> call_outcome.
  Variable job_bytes : job_input -> job_plan -> list N.
  Variable index_agrees : job_input -> job_plan -> bool.
  Variable cstate : Type.
  Variable cat_init : cstate.
  Variable cat_stream : cstate -> list N -> list N -> N -> cat_result * cstate * list N.
  Variable cat_finish : cstate -> list N -> N -> cat_result * list N.

  (* the compressor reads its settings, its data and the *contents* of its index: it does not see
     whether the index was supplied or built by the job (C06_hasher: the contents are equal) *)
  Definition compressor_blind : Prop :=
    forall a b pa pb, ji_sim a b -> pl_sim pa pb ->
      (forall k, run_job a pa k = run_job b pb k) /\ job_bytes a pa = job_bytes b pb.
  (* the comparison under cfg!(debug_assertions) finds the two indexes equal (C06_hasher) *)
  Definition index_always_agrees : Prop := forall ji pl, index_agrees ji pl = true.

  Lemma part_loop_sim ver a b pa pb : compressor_blind -> ji_sim a b -> pl_sim pa pb -> forall fuel k,
    part_loop run_job job_bytes ver a pa fuel k = part_loop run_job job_bytes ver b pb fuel k.
  Proof.
    intros Hb Hji Hpl. destruct (Hb a b pa pb Hji Hpl) as [Hrun Hbytes].
    induction fuel as [|f IH]; intros k; cbn [part_loop]; [reflexivity|].
    rewrite Hrun, Hbytes, IH. reflexivity.
  Qed.

  Lemma compress_part_sim ver pr fuel a b : compressor_blind -> index_always_agrees -> ji_sim a b ->
    compress_part run_job job_bytes index_agrees ver pr fuel a = compress_part run_job job_bytes index_agrees ver pr fuel b.
  Proof.
    intros Hb Hidx Hji. unfold compress_part. pose proof (plan_sim ver pr a b Hji) as Hp.
    destruct (plan_job ver pr a) as [pa|], (plan_job ver pr b) as [pb|]; try contradiction; [|reflexivity].
    rewrite !Hidx. rewrite (part_loop_sim ver a b pa pb Hb Hji Hp).
    destruct (dd_mode (jp_dict pa)), (dd_mode (jp_dict pb)); reflexivity.
  Qed.

  Lemma job_inputs_from_sim pr ov p t n : 0 < t -> t * n < 2 ^ 64 -> forall k i f1 f0 b1 b0,
    i + N.of_nat k <= t ->
    exists j1 j0, job_inputs_from Repaired pr f1 ov (with_favor p b1) t n k i = Ok j1 /\
                  job_inputs_from Repaired pr f0 ov (with_favor p b0) t n k i = Ok j0 /\ Forall2 ji_sim j1 j0.
  Proof.
    intros Ht Hn. induction k as [|k IH]; intros i f1 f0 b1 b0 Hi; cbn [job_inputs_from].
    - exists [], []. repeat split; constructor.
    - destruct (IH (i + 1) f1 f0 b1 b0 ltac:(lia)) as [r1 [r0 [H1 [H0 Hsim]]]]. rewrite H1, H0.
      assert (Hsh : exists pcs, shared_ranges Repaired pr ov t n i = Ok pcs).
      { destruct (shared_ranges_repaired pr ov t n i Ht Hn ltac:(lia)) as [pcs [Hp _]]. exists pcs. exact Hp. }
      destruct Hsh as [pcs Hpcs]. rewrite Hpcs.
      exists (mkJI i t n (with_favor p b1) (if f1 && negb (i =? 0) then Some pcs else None) :: r1),
             (mkJI i t n (with_favor p b0) (if f0 && negb (i =? 0) then Some pcs else None) :: r0).
      split; [destruct (f1 && negb (i =? 0)); reflexivity|].
      split; [destruct (f0 && negb (i =? 0)); reflexivity|].
      constructor; [|exact Hsim].
      unfold ji_sim. cbn. repeat split; reflexivity.
  Qed.

  Lemma map_sim {A B} (R : A -> A -> Prop) (f : A -> B) l1 l0 :
    (forall a b, R a b -> f a = f b) -> Forall2 R l1 l0 -> map f l1 = map f l0.
  Proof. intros Hf H. induction H as [|a b l1 l0 Hab _ IH]; [reflexivity|]. cbn [map]. rewrite (Hf a b Hab), IH. reflexivity. Qed.

  (* same input, settings, thread count, spawner and schedule: the option changes nothing *)
  Lemma multi_favor pr fuel ov sc p t n owned cap :
    compressor_blind -> index_always_agrees -> 0 < t -> t * n < 2 ^ 64 -> s_view_fail sc = 0 ->
    compress_multi run_job job_bytes index_agrees cstate cat_init cat_stream cat_finish
                   Repaired pr fuel ov sc (with_favor p true) t n owned cap
    = compress_multi run_job job_bytes index_agrees cstate cat_init cat_stream cat_finish
                     Repaired pr fuel ov sc (with_favor p false) t n owned cap.
  Proof.
    intros Hb Hidx Ht Hn Hv. unfold compress_multi.
    destruct ((t =? 0) || negb owned); [reflexivity|].
    destruct (match s_kind sc with Pool => (1 <? t) && (MULTI_MAX_THREADS <? t) | _ => false end); [reflexivity|].
    unfold job_inputs.
    destruct (job_inputs_from_sim pr ov p t n Ht Hn (N.to_nat t) 0
                ((1 <? t) && p_favor (with_favor p true)) ((1 <? t) && p_favor (with_favor p false)) true false
                ltac:(lia)) as [j1 [j0 [H1 [H0 Hsim]]]].
    rewrite H1, H0.
    rewrite (map_sim ji_sim (compress_part run_job job_bytes index_agrees Repaired pr fuel) j1 j0
               (fun a b => compress_part_sim Repaired pr fuel a b Hb Hidx) Hsim).
    unfold view_fails_upto, view_fails. rewrite Hv. cbn [N.eqb negb andb]. rewrite !andb_false_r.
    reflexivity.
  Qed.
End Favor.

(* the code in /repo is the repaired code, and the anchors the model relies on are in place *)
Lemma current_is_repaired :
  Current = Repaired /\ multi_get_range_is_floor_split = true /\ multi_job_flag_overrides = true /\
  multi_dev_profile_compares_hasher = true /\ multi_hands_input_back = true /\
  multi_dict_window_after_sanitize = true /\ MULTI_EARLY_RETURNS = 1.
Proof. repeat split; reflexivity. Qed.
